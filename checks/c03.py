"""C03 — with noise switched off the simulator reproduces the ideal circuit.
Theorems (coq/Props/C03.v): gate-level frame identities and hand-off frame consistency by reflection over the regenerated
GenGates.v / GenCircuit.v; ring-generic circuit-level simulation theorem. Correspondence: the call sequence the real
simulator issues to a recording gate set vs the sequence predicted from the regenerated tables (exact). Direct oracle: the
real noise-free run vs Qiskit's Statevector marginals (tolerance 1e-9), all five classes, scattered labels and distant
pairs for the index class, permuted first-touch order, measured subsets, entangled psi0, fix_counts key reversal.
Gap (iii), index class: Model/SimLoop.v (instruction loop -> method calls on internal indices) is compared exactly, inside Coq, with
the recorded method calls and matrix placements of the real simulator (checks/c03_simloop.py: small-exhaustive, random and direct
streams); C03_end_to_end composes it with C14 / C08 / the run theorems.
Layered classes: Model/SimLoopLayered.v (the else-branch of the loop: per-qubit calls with identity padding, physical label = index) is
compared exactly with the recorded method calls -- I(k) included -- of the real simulator on Circuit / Standard / Efficient / OneCircuit
(checks/c03_simloop_layered.py); C03_end_to_end_layered composes calls -> builder (C11 lstep) -> stored layers -> backend (C01) -> Born
rule with C14 / C08.
Grid class Circuit: Model/GridBackend.v (Circuit.statevector: kron-reduce per column, product of the columns) is compared exactly with the real
class driven with Gaussian-integer token matrices (checks/c03_grid.py: grids filled directly and built through the real methods, vector or
exception class, tensordot reference as oracle); C03_grid_builder / C03_grid_statevector_spec / C03_grid_depth_rule / C03_end_to_end_grid compose
calls -> builder (C11 gstep, depth = len(data) - n_rz + 1) -> columns -> Circuit.statevector -> Born rule with C14 / C08."""
import sys, json
import numpy as np
from vlib.common import Check


def main(argv):
    ck = Check("C03", argv)
    import checks.sim_common as sc
    import checks.circuit_trace as ct
    import checks.gates_trace as gt
    import checks.c03_simloop as sl
    import checks.c03_simloop_layered as ll
    import checks.c03_grid as gr
    from quantum_gates._gates.gates import noise_free_gates
    from quantum_gates._utility.simulations_utility import fix_counts
    ck.rule = ("obligations = theorems of Props/C03.v (+ regeneration of both traces, correspondence, oracle); a case = (class, labels, random native circuit, "
               "measured subset, random psi0); non-trivial = at least one two-qubit gate or >= 2 measured qubits; distinct = distinct (class, labels, instructions)")
    ck.trusted = ["Coq 8.16.1 kernel + vm_compute", "coq/Sym (sound reflective normaliser)", "tracers (gates_trace, circuit_trace)",
                  "Qiskit's Statevector / gate conventions (oracle side only)",
                  "whole noise-free runs: index class proved end to end from the builder model through the backend theorem (C03_builder_backend_run, C03_noise_free_born_*); "
                  "layered classes (Standard / Efficient / OneCircuit) likewise: C03_layered_builder (= C03_layered_builder_full, proved), C03_layered_calls_builder, C03_layered_backend; "
                  "the simulator loop from Qiskit instructions to method calls (layout, delay, barrier, measure, read-out; identity padding for the layered classes) is "
                  "Model/SimLoop.v resp. Model/SimLoopLayered.v, tied by exact correspondence of the recorded method calls, and composed end to end "
                  "(C03_end_to_end, C03_end_to_end_layered); the grid class Circuit shares the layered branch (same correspondence); its own statevector() is Model/GridBackend.v, tied by exact "
                  "correspondence on Gaussian-integer grids (checks/c03_grid.py) and composed end to end with C11's gstep and the simulator's depth rule (C03_end_to_end_grid); "
                  "the mean over the shots of a deterministic gate set is C09",
                  "floating-point rounding outside the model"]
    rng = np.random.default_rng(ck.seed)

    def run_case(cls, labels, nphys, instrs, meas, psi0):
        # 1..3 sequential shots: the noise-free shot is deterministic, so the mean over shots is the single shot
        # every fourth circuit keeps its qubits in two quantum registers and its classical bits in two classical registers
        split = (1 + len(instrs) % max(1, nphys - 1), 1) if (nphys >= 2 and len(instrs) % 4 == 1) else ("reversed" if (nphys >= 2 and len(instrs) % 4 == 3) else None)
        log, res, psi = sc.run_spy(cls, labels, instrs, nphys, sc.dev_plain(nphys), psi0, gates=noise_free_gates, shots=1 + len(instrs) % 3, split=split)
        ideal = sc.qiskit_marginals(labels, instrs, meas, np.asarray(psi0, complex) / np.linalg.norm(psi0))      # Born probabilities of the state psi0 describes
        if set(res) != set(ideal): return "outcome keys differ from the 2^m strings of the measured qubits"
        d = max(abs(res[k] - ideal[k]) for k in ideal)
        if d > 1e-9: return "probabilities differ from the ideal Born marginals by %.3g" % d
        # fix_counts gives Qiskit's little-endian keys
        fc = fix_counts(dict(res), len(meas))
        if any(abs(fc[k[::-1]] - ideal[k]) > 1e-9 for k in ideal): return "fix_counts does not give Qiskit's key order"
        return None

    if ck.replay:
        doc = json.load(open(ck.replay))["replay"]
        if doc.get("family") == "grid_statevector":
            gr.replay(doc)
        elif doc.get("family") == "simloop_layered":
            instrs = [(a, list(b), c) for a, b, c in doc["instrs"]]
            rec = ll.run_recorded(doc["cls"], instrs, doc["nphys"])
            why, _ = ll.oracle(doc["cls"], instrs, doc["nphys"], np.random.default_rng(ck.seed)) if ll.in_domain(instrs) else ("outside the layered classes' domain", None)
            print("replay:", doc["cls"], "recorded method calls", rec[1] if rec[0] == "ok" else rec)
            print("replay: noise-free run vs Qiskit ->", why or "holds")
        elif doc.get("family") == "simloop":
            instrs = [(a, list(b), c) for a, b, c in doc["instrs"]]
            rec = sl.run_recorded(instrs, doc["nphys"])
            why, _ = sl.oracle(instrs, doc["nphys"], np.random.default_rng(ck.seed))
            print("replay: recorded method calls", rec[1] if rec[0] == "ok" else rec)
            print("replay: model's calls        ", doc.get("model"))
            print("replay: noise-free run vs Qiskit ->", why or "holds")
        elif "instrs" in doc:
            instrs = [(a, list(b), c) for a, b, c in doc["instrs"]]
            why = run_case(doc["cls"], doc["labels"], doc["nphys"], instrs, doc["meas"], np.array([complex(*z) for z in doc["psi0"]]))
            print("replay:", doc["cls"], doc["labels"], "->", why or "holds")
        else:
            print("replay names a proof obligation:", doc)
        return 0

    bad = ck.hygiene()
    if bad:
        ck.report("hygiene", "forbidden construct: " + "; ".join(bad[:5]), {"theorem": "hygiene", "where": bad}, False)
    C = S = None; terr = None
    try:
        gt.write_gen(gt.trace_everything())
        C, S = ct.write_gen()
    except Exception as e:  # noqa
        terr = "%s: %s" % (type(e).__name__, e)
    ck.oblige("symbolic traces of gates.py / circuit.py / simulator.py regenerated (fail-closed)", C is not None)
    ok, failing, out = (False, "trace:" + str(terr), terr) if C is None else ck.coq_props()

    ncase = 24 if ck.tier == "quick" else 120
    first = None; corr_bad = None
    for cls in sc.CLASSES:
        binary = cls == "BinaryCircuit"
        for t in range(ncase):
            n = int(rng.integers(1, 5 if ck.tier == "quick" else 6))
            if binary and t % 2:
                labels = sorted(int(x) for x in rng.choice([8, 12, 40][int(rng.integers(3))], n, replace=False)); nphys = max(labels) + 1
            else:
                labels = list(range(n)); nphys = n
            body = sc.rand_circuit(rng, labels, int(rng.integers(2, 30 if ck.tier == "thorough" else 16)), adjacent=not binary)
            instrs, meas = sc.add_measures(rng, body, labels)
            psi0 = rng.normal(size=2 ** n) + 1j * rng.normal(size=2 ** n); psi0 /= np.linalg.norm(psi0)
            # "all initial states": also states normalised to six decimals only, states off by a few 1e-7, and states of norm 2
            if t % 4 == 1: psi0 = np.round(psi0, 6)
            elif t % 4 == 2: psi0 = psi0 * (1 + 3e-7 * (1 + t % 5))
            elif t % 8 == 3: psi0 = psi0 * 2
            try:
                why = run_case(cls, labels, nphys, instrs, meas, psi0)
            except Exception as e:  # noqa
                why = "run raised %s: %s" % (type(e).__name__, str(e)[:100])
            nontriv = any(i[0] in ("cx", "ecr") for i in instrs) or len(meas) >= 2
            ck.count("noise_free_vs_qiskit_" + cls, 1, key=(cls, tuple(labels), repr(instrs)) if nontriv else None,
                     sample={"cls": cls, "labels": labels, "meas": meas, "instrs": [list(map(str, i)) for i in instrs[:8]]})
            if why and first is None:
                first = {"cls": cls, "labels": labels, "nphys": nphys, "instrs": [[a, list(b), c] for a, b, c in instrs], "meas": meas,
                         "psi0": [[float(z.real), float(z.imag)] for z in psi0], "what": why}
            # correspondence of the call sequence (recording gate set, distinct tables)
            # (the layered branch is traced for n <= 4 only: circuit_trace.py; larger layered cases have no predicted table)
            if C is not None and t < (4 if ck.tier == "quick" else 20) and (binary or n <= 4):
                dev = sc.dev_distinct(nphys)
                try:
                    log, _, _ = sc.run_spy(cls, labels, instrs, nphys, dev)
                    pred = sc.predict_calls(C, S, cls, labels, instrs, dev)
                    same = sc.logs_equal(log, pred)
                except Exception as e:  # noqa
                    same = False
                ck.count("call_sequence_" + cls, 1)
                if not same and corr_bad is None:
                    corr_bad = {"cls": cls, "labels": labels, "nphys": nphys, "instrs": [[a, list(b), c] for a, b, c in instrs]}
    # ---- gap (iii): Model/SimLoop.v = the simulator's index-class loop, exactly (method calls, placements, exceptions) ----
    sl_cases = [(ins, nphys, "exhaustive") for ins, nphys in sl.exhaustive_cases(2 if ck.tier == "quick" else 3)]
    for _ in range(150 if ck.tier == "quick" else 1500):
        ins, nphys = sl.random_case(rng); sl_cases.append((ins, nphys, "random"))
    sl_terms = []; sl_res = []
    for ins, nphys, fam in sl_cases:
        r = sl.run_recorded(ins, nphys); sl_res.append(r)
        sl_terms.append(sl.coq_case_run(ins, None, r))
        ck.count("simloop_translate", 1, key=(fam, repr(ins)) if len(ins) > 1 else None,
                 sample={"family": fam, "instrs": [list(map(str, i)) for i in ins[:8]], "calls": r[1][:4] if r[0] == "ok" else r[1]})
    dir_cases = [sl.direct_case(rng, malformed=(t % 3 == 2)) for t in range(240 if ck.tier == "quick" else 2400)]
    dir_terms = []
    for raw, layout, nq, dom in dir_cases:
        r = sl.run_direct(raw, layout, nq)
        dir_terms.append(sl.coq_case_direct(raw, layout, nq, r))
        ck.count("simloop_translate_direct" if dom else "simloop_translate_malformed", 1, key=(repr(raw), tuple(layout), nq) if raw else None,
                 sample={"raw": [list(map(str, x)) for x in raw[:6]], "layout": layout, "nq": nq, "result": r[1][:4] if r[0] == "ok" else r[1]})
    per = 400; shards = []
    for s0 in range(0, len(sl_terms), per): shards.append(("c03_simloop_%d" % (s0 // per), sl.shard_run(sl_terms[s0:s0 + per]), "run", s0))
    for s0 in range(0, len(dir_terms), per): shards.append(("c03_simdirect_%d" % (s0 // per), sl.shard_direct(dir_terms[s0:s0 + per]), "direct", s0))
    sl_bad = []; sl_build = None
    for (name, rc, out2), (_, _, kind, s0) in zip(ck.coq_eval_many([(a, b) for a, b, _, _ in shards]), shards):
        idx = sl.parse_bad(out2) if rc == 0 else None
        if idx is None:
            sl_build = sl_build or (name, out2[-600:]); continue
        for i in idx:
            if kind == "run": sl_bad.append(("run", s0 + i))
            elif dir_cases[s0 + i][3]: sl_bad.append(("direct", s0 + i))
            else: ck.notes.append("SimLoop model and implementation differ on the out-of-domain stream %r (not a violation)" % (dir_cases[s0 + i][:3],))
    ck.oblige("correspondence: recorded method calls + matrix placements of the real index-class loop == SimLoop.translate_calls in Coq (%d run cases, %d direct)"
              % (len(sl_terms), len(dir_terms)), not sl_bad and sl_build is None)
    ck.oblige("NoiseFreeGates.relaxation / bitflip return exactly the 2x2 identity (the calls nf_prog drops)", sl.identity_gates_exact())
    sl_report = None
    if sl_bad or sl_build:
        # search for a failing input of the property itself: first on the mismatching circuits, then on the other generated circuits
        cand = [sl_cases[i][:2] for k, i in sl_bad if k == "run"][:40] + [c[:2] for c in sl_cases[::7]][:60]
        found = None
        for ins, nphys in cand:
            why, psi0 = sl.oracle(ins, nphys, rng, tries=2)
            if why:
                found = {"family": "simloop", "cls": "BinaryCircuit", "labels": sl.used_labels(ins), "nphys": nphys, "instrs": [[a, list(b), c] for a, b, c in ins],
                         "psi0": [[float(z.real), float(z.imag)] for z in psi0], "what": why}
                break
        if found:
            sl_report = ("oracle:simloop", "BinaryCircuit %s: %s (instruction loop differs from Model/SimLoop.v)" % (found["labels"], found["what"]), found, True)
        elif sl_bad:
            k, i = sl_bad[0]
            if k == "run":
                ins, nphys, fam = sl_cases[i]
                doc = {"family": "simloop", "correspondence": "C03 simloop_translate (%s)" % fam, "nphys": nphys, "instrs": [[a, list(b), c] for a, b, c in ins], "impl": sl_res[i]}
            else:
                raw, layout, nq, _ = dir_cases[i]
                doc = {"correspondence": "C03 simloop_translate_direct", "raw": raw, "layout": layout, "nq": nq}
            sl_report = ("corr:simloop", "the real instruction loop issues other method calls than Model/SimLoop.v on %s; C03_end_to_end no longer speaks about this code "
                         "(the noise-free oracle passes on every explored input)" % (doc.get("instrs") or doc.get("raw")), doc, False)
        else:
            sl_report = ("corr-build:simloop", "correspondence file failed to compile: %s" % (sl_build,), {"correspondence": sl_build[0], "log": sl_build[1]}, False)
    # ---- layered classes: Model/SimLoopLayered.v = the else-branch of the loop, exactly (method calls incl. I(k), the classes' own exceptions) ----
    lq = ck.tier == "quick"
    ll_cases = []   # (class, instrs, nphys, family, in the domain)
    for i, (ins, nphys) in enumerate(ll.exhaustive_cases(2 if lq else 3)):
        ll_cases.append((ll.LAYERED[i % 4], ins, nphys, "exhaustive", True))
    for t in range(160 if lq else 1600):
        ins, nphys = ll.random_case(rng, domain=True); ll_cases.append((ll.LAYERED[t % 4], ins, nphys, "random", ll.in_domain(ins)))
    for t in range(60 if lq else 600):
        ins, nphys = ll.random_case(rng, domain=False); ll_cases.append((ll.LAYERED[t % 4], ins, nphys, "outside", ll.in_domain(ins)))
    ll_terms = []; ll_res = []
    for cls, ins, nphys, fam, dom in ll_cases:
        r = ll.run_recorded(cls, ins, nphys); ll_res.append(r)
        ll_terms.append(ll.coq_case_run(cls, ins, None, r))
        ck.count("simloop_translate_layered" if dom else "simloop_translate_layered_outside", 1, key=(cls, fam, repr(ins)) if len(ins) > 1 else None,
                 sample={"cls": cls, "family": fam, "instrs": [list(map(str, i)) for i in ins[:8]], "calls": r[1][:6] if r[0] == "ok" else r[1]})
    ld_cases = [ll.direct_case(rng, malformed=(t % 3 == 2)) for t in range(240 if lq else 2400)]
    ld_terms = []
    for i, (raw, layout, nq, dom) in enumerate(ld_cases):
        r = ll.run_direct(ll.LAYERED[i % 4], raw, layout, nq)
        ld_terms.append(sl.coq_case_direct(raw, layout, nq, r))
        ck.count("simloop_translate_layered_direct" if dom else "simloop_translate_layered_malformed", 1, key=(repr(raw), tuple(layout), nq) if raw else None,
                 sample={"raw": [list(map(str, x)) for x in raw[:6]], "layout": layout, "nq": nq, "result": r[1][:4] if r[0] == "ok" else r[1]})
    lshards = []
    for s0 in range(0, len(ll_terms), per): lshards.append(("c03_simlay_%d" % (s0 // per), ll.shard_run(ll_terms[s0:s0 + per]), "run", s0))
    for s0 in range(0, len(ld_terms), per): lshards.append(("c03_simlaydirect_%d" % (s0 // per), ll.shard_direct(ld_terms[s0:s0 + per]), "direct", s0))
    ll_bad = []; ll_build = None
    for (name, rc, out2), (_, _, kind, s0) in zip(ck.coq_eval_many([(a, b) for a, b, _, _ in lshards]), lshards):
        idx = sl.parse_bad(out2) if rc == 0 else None
        if idx is None:
            ll_build = ll_build or (name, out2[-600:]); continue
        for i in idx:
            if kind == "run" and ll_cases[s0 + i][4]: ll_bad.append(("run", s0 + i))
            elif kind == "direct" and ld_cases[s0 + i][3]: ll_bad.append(("direct", s0 + i))
            else: ck.notes.append("SimLoopLayered model and implementation differ on the out-of-domain input %r (not a violation)"
                                  % ((ll_cases[s0 + i][:3] if kind == "run" else ld_cases[s0 + i][:3]),))
    ck.oblige("correspondence: recorded method calls (I(k) included) of the real layered loop on Circuit / Standard / Efficient / OneCircuit == "
              "SimLoopLayered.translate_calls_layered in Coq (%d run cases, %d direct)" % (len(ll_terms), len(ld_terms)), not ll_bad and ll_build is None)
    ll_report = None
    if ll_bad or ll_build:
        cand = [ll_cases[i][:3] for k, i in ll_bad if k == "run"][:40] + [c[:3] for c in ll_cases[::7] if c[4]][:60]
        found = None
        for cls, ins, nphys in cand:
            why, psi0 = ll.oracle(cls, ins, nphys, rng, tries=2)
            if why:
                found = {"family": "simloop_layered", "cls": cls, "labels": sl.used_labels(ins), "nphys": nphys, "instrs": [[a, list(b), c] for a, b, c in ins],
                         "psi0": [[float(z.real), float(z.imag)] for z in psi0], "what": why}
                break
        if found:
            ll_report = ("oracle:simloop_layered", "%s %s: %s (instruction loop differs from Model/SimLoopLayered.v)" % (found["cls"], found["labels"], found["what"]), found, True)
        elif ll_bad:
            k, i = ll_bad[0]
            if k == "run":
                cls, ins, nphys, fam, _ = ll_cases[i]
                doc = {"family": "simloop_layered", "correspondence": "C03 simloop_translate_layered (%s)" % fam, "cls": cls, "nphys": nphys,
                       "instrs": [[a, list(b), c] for a, b, c in ins], "impl": ll_res[i]}
            else:
                raw, layout, nq, _ = ld_cases[i]
                doc = {"correspondence": "C03 simloop_translate_layered_direct", "raw": raw, "layout": layout, "nq": nq}
            ll_report = ("corr:simloop_layered", "the real layered instruction loop issues other method calls than Model/SimLoopLayered.v on %s; C03_end_to_end_layered no longer "
                         "speaks about this code (the noise-free oracle passes on every explored input)" % (doc.get("instrs") or doc.get("raw")), doc, False)
        else:
            ll_report = ("corr-build:simloop_layered", "correspondence file failed to compile: %s" % (ll_build,), {"correspondence": ll_build[0], "log": ll_build[1]}, False)
    # ---- grid class: Model/GridBackend.v = Circuit.statevector, exactly (vector or exception class), alone and behind the builder ----
    gr_report = gr.run(ck)
    # thorough: the bundled benchmark circuits transpiled offline against fake backends (cx and ecr bases, linear and scattered layouts)
    if ck.tier == "thorough":
        import io, contextlib
        from qiskit import transpile
        from qiskit_ibm_runtime import fake_provider
        from quantum_gates._utility.quantum_algorithms import hadamard_reverse_qft_circ, ghz_circ
        from quantum_gates._utility.device_parameters import DeviceParameters
        for bname, layout in (("FakeManilaV2", [0, 1, 2, 3]), ("FakeKyiv", [0, 1, 2, 3]), ("FakeKyiv", [4, 5, 6, 15]), ("FakeBrisbane", [0, 14, 18, 19])):
            try:
                b = getattr(fake_provider, bname)()
            except Exception:  # noqa: backend data not bundled
                continue
            for gen, want in ((hadamard_reverse_qft_circ, lambda n: {"0" * n: 1.0}), (ghz_circ, lambda n: {"0" * n: 0.5, "1" * n: 0.5})):
                for n in (2, 3, 4):
                    t = transpile(gen(n), b, scheduling_method="asap", initial_layout=layout[:n], seed_transpiler=42)
                    used = sorted({q._index for i in t.data for q in i.qubits if i.operation.name != "delay"})
                    dp = DeviceParameters(list(range(max(used) + 1)))
                    with contextlib.redirect_stdout(io.StringIO()):
                        dp.load_from_backend(b)
                    psi0 = np.zeros(2 ** len(used)); psi0[0] = 1
                    classes = ["EfficientCircuit", "BinaryCircuit"] if used == list(range(len(used))) else ["BinaryCircuit"]
                    for cls in classes:
                        ck.count("transpiled_benchmarks", 1, key=(bname, tuple(layout[:n]), gen.__name__, cls))
                        try:
                            from quantum_gates._simulation.simulator import MrAndersonSimulator
                            res = MrAndersonSimulator(gates=noise_free_gates, CircuitClass=sc.circuit_class(cls)).run(
                                t_qiskit_circ=t, qubits_layout=used, psi0=psi0, shots=1, device_param=dp.__dict__(), nqubit=len(used))
                            w = want(n)
                            # ancilla qubits the router used are measured out implicitly: compare the marginal on the first n key characters is not defined; require the outcome set
                            good = all(abs(sum(v for k, v in res.items() if k == kk) - pv) < 1e-9 for kk, pv in w.items()) if len(next(iter(res))) == n else None
                        except Exception as e:  # noqa
                            good = False; res = "%s: %s" % (type(e).__name__, str(e)[:80])
                        if good is False and first is None:
                            first = {"cls": cls, "labels": used, "what": "transpiled %s(%d) on %s layout %s: outcome %r is not the documented ideal outcome" % (gen.__name__, n, bname, layout[:n], res), "backend": bname, "layout": layout[:n], "generator": gen.__name__, "n": n}
    ck.oblige("correspondence: real call sequence == sequence predicted from the regenerated tables", corr_bad is None and C is not None)
    ck.oblige("oracle: noise-free runs == Qiskit marginals (all classes), fix_counts key reversal", first is None)
    if first:
        ck.report("oracle:%s" % first["cls"], "%s %s: %s" % (first["cls"], first["labels"], first["what"]), first)
    elif not ok:
        ck.report("proof:" + str(failing), "proof obligation / regeneration no longer checks: %s" % failing, {"theorem": str(failing), "log": (out or "")[-1500:]}, False)
    elif corr_bad:
        ck.report("corr", "real call sequence differs from the model's prediction on %s %s" % (corr_bad["cls"], corr_bad["labels"]), dict(corr_bad, correspondence="C03 call sequence"), False)
    elif sl_report:
        ck.report(*sl_report)
    elif ll_report:
        ck.report(*ll_report)
    elif gr_report:
        ck.report(*gr_report)
    return ck.finish()


if __name__ == "__main__":
    sys.exit(main(sys.argv[1:]))
