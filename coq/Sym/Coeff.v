(* Sym/Coeff.v — the coefficient ring K = Q[x]/(x^8+1) as coefficient lists (low degree first, any length),
   evaluated in Coquelicot's C at x = zeta = e^{i pi/8}.  Every operation comes with its soundness lemma. *)
From Coq Require Import Reals QArith Qreals List ZArith Lra Lia Bool.
From Coquelicot Require Import Coquelicot.
Require Import QG.Sym.Expr.
Import ListNotations.
Open Scope C_scope.

Definition zeta : C := Cexp (PI / 8).
Lemma zeta8 : Cpown zeta 8 = - (RtoC 1).
Proof. unfold zeta. rewrite Cexp_pown. replace (INR 8 * (PI / 8))%R with PI by (simpl; field). apply Cexp_PI. Qed.

Definition QC (q : Q) : C := RtoC (Q2R q).
Lemma QC_plus a b : QC (a + b) = QC a + QC b. Proof. unfold QC. rewrite Q2R_plus. now rewrite RtoC_plus. Qed.
Lemma QC_mult a b : QC (a * b) = QC a * QC b. Proof. unfold QC. rewrite Q2R_mult. now rewrite RtoC_mult. Qed.
Lemma QC_opp a : QC (- a) = - QC a. Proof. unfold QC. rewrite Q2R_opp. now rewrite RtoC_opp. Qed.
Lemma QC_0 : QC 0 = 0. Proof. unfold QC, Q2R; simpl. f_equal. lra. Qed.
Lemma QC_1 : QC 1 = 1. Proof. unfold QC, Q2R; simpl. f_equal. lra. Qed.
Lemma QC_eq a b : Qeq a b -> QC a = QC b. Proof. intros H. unfold QC. now rewrite (Qeq_eqR _ _ H). Qed.
Lemma QC_m1 : QC (-1) = - (RtoC 1).
Proof. unfold QC. replace (Q2R (-1)) with (-1)%R by (unfold Q2R; simpl; lra). unfold Copp, RtoC; simpl. f_equal; ring. Qed.
Lemma QC_red q : QC (Qred q) = QC q. Proof. apply QC_eq, Qred_correct. Qed.

Notation K := (list Q).

Fixpoint peval (p : K) (z : C) : C := match p with [] => 0 | c :: r => QC c + z * peval r z end.
Definition kevalC (p : K) : C := peval p zeta.

(* ---------- raw polynomial operations ---------- *)
Fixpoint cadd (a b : K) : K :=
  match a, b with [], _ => b | _, [] => a | x :: a', y :: b' => (x + y)%Q :: cadd a' b' end.
Definition cscale (q : Q) (a : K) : K := map (fun c => (q * c)%Q) a.
Fixpoint cmul (a b : K) : K := match a with [] => [] | x :: a' => cadd (cscale x b) (0%Q :: cmul a' b) end.

Lemma peval_add a b z : peval (cadd a b) z = peval a z + peval b z.
Proof. revert b; induction a as [|x a IH]; intros [|y b]; simpl; try ring. rewrite IH, QC_plus. ring. Qed.
Lemma peval_scale q a z : peval (cscale q a) z = QC q * peval a z.
Proof. induction a as [|x a IH]; simpl. ring. rewrite IH, QC_mult. ring. Qed.
Lemma peval_mul a b z : peval (cmul a b) z = peval a z * peval b z.
Proof. induction a as [|x a IH]; simpl. ring. rewrite peval_add, peval_scale. simpl. rewrite IH, QC_0. ring. Qed.
Lemma peval_red a z : peval (map Qred a) z = peval a z.
Proof. induction a as [|x a IH]; simpl. reflexivity. now rewrite IH, QC_red. Qed.

(* ---------- reduction modulo x^8 + 1 ---------- *)
Fixpoint splitn (n : nat) (p : K) : K * K :=
  match n, p with O, _ => ([], p) | S k, [] => ([], []) | S k, c :: r => let '(a, b) := splitn k r in (c :: a, b) end.
Lemma splitn_eval n p z : let '(a, b) := splitn n p in peval p z = peval a z + Cpown z (min n (length p)) * peval b z.
Proof. revert p; induction n as [|n IH]; intros p; simpl. ring.
  destruct p as [|c r]; simpl. ring.
  specialize (IH r). destruct (splitn n r) as [a b]. simpl. rewrite IH. ring. Qed.
Lemma splitn_len n p : snd (splitn n p) <> [] -> (n <= length p)%nat.
Proof. revert p; induction n as [|n IH]; intros p H; simpl in *. lia.
  destruct p as [|c r]; simpl in *. congruence.
  specialize (IH r). destruct (splitn n r) as [a b]. simpl in *. apply IH in H. lia. Qed.
Fixpoint reduce (fuel : nat) (p : K) : K :=
  match fuel with
  | O => p
  | S f => let '(a, b) := splitn 8 p in match b with [] => a | _ => reduce f (cadd a (cscale (-1) b)) end
  end.
Lemma reduce_sound fuel p : kevalC (reduce fuel p) = kevalC p.
Proof. unfold kevalC. revert p; induction fuel as [|f IH]; intros p; cbn [reduce]; auto.
  pose proof (splitn_eval 8 p zeta) as H. pose proof (splitn_len 8 p) as L.
  destruct (splitn 8 p) as [a b]. destruct b as [|b0 b'].
  - rewrite H. cbn [peval]. ring.
  - rewrite IH, peval_add, peval_scale, H.
    rewrite Nat.min_l by (apply L; simpl; congruence). rewrite zeta8, QC_m1. ring.
Qed.

(* ---------- the ring operations of K (results reduced, coefficients in lowest terms) ---------- *)
Definition knorm (p : K) : K := map Qred (reduce (length p) p).
Definition kzero : K := [].
Definition kconst (q : Q) : K := [Qred q].
Definition kone : K := kconst 1.
Definition kadd (a b : K) : K := map Qred (cadd a b).
Definition kscale (q : Q) (a : K) : K := map Qred (cscale q a).
Definition kopp (a : K) : K := kscale (-1) a.
Definition kmul (a b : K) : K := knorm (cmul a b).
Definition kX (n : nat) : K := repeat 0%Q n ++ [1%Q].
(* zeta^k for any integer k, using zeta^16 = 1 *)
Definition kxz (k : Z) : K := knorm (kX (Z.to_nat (k mod 16))).
Definition ki : K := kxz 4.
Definition ksqrt2 : K := kadd (kxz 2) (kopp (kxz 6)).
Definition kzerob (a : K) : bool := forallb (fun c => Qeq_bool c 0) (reduce (length a) a).
Definition keqb (a b : K) : bool := kzerob (kadd a (kopp b)).
(* composition p(q(x)) mod x^8+1, Horner *)
Fixpoint kcomp (p q : K) : K := match p with [] => [] | c :: r => kadd [c] (kmul q (kcomp r q)) end.
(* Galois conjugate zeta -> zeta^j (j odd) *)
Definition ksigma (j : nat) (a : K) : K := kcomp a (knorm (kX j)).
Definition kconj (a : K) : K := ksigma 15 a.
(* inverse: a^{-1} = prod_{j<>1} sigma_j(a) / N(a); the candidate is CHECKED by multiplication, so soundness is immediate *)
Definition kinv (a : K) : option K :=
  let c := fold_left (fun acc j => kmul acc (ksigma j a)) [3; 5; 7; 9; 11; 13; 15]%nat kone in
  match kmul a c with
  | q :: _ => if Qeq_bool q 0 then None else
              let d := kscale (/ q) c in if keqb (kmul a d) kone then Some d else None
  | [] => None
  end.

Lemma knorm_sound p : kevalC (knorm p) = kevalC p.
Proof. unfold knorm, kevalC. rewrite peval_red. apply reduce_sound. Qed.
Lemma kzero_sound : kevalC kzero = 0. Proof. reflexivity. Qed.
Lemma kconst_sound q : kevalC (kconst q) = QC q.
Proof. unfold kevalC, kconst; simpl. rewrite QC_red. ring. Qed.
Lemma kone_sound : kevalC kone = 1. Proof. unfold kone. now rewrite kconst_sound, QC_1. Qed.
Lemma kadd_sound a b : kevalC (kadd a b) = kevalC a + kevalC b.
Proof. unfold kadd, kevalC. now rewrite peval_red, peval_add. Qed.
Lemma kscale_sound q a : kevalC (kscale q a) = QC q * kevalC a.
Proof. unfold kscale, kevalC. now rewrite peval_red, peval_scale. Qed.
Lemma kopp_sound a : kevalC (kopp a) = - kevalC a.
Proof. unfold kopp. rewrite kscale_sound, QC_m1. ring. Qed.
Lemma kmul_sound a b : kevalC (kmul a b) = kevalC a * kevalC b.
Proof. unfold kmul. rewrite knorm_sound. apply peval_mul. Qed.

Lemma pzero_sound p z : forallb (fun c => Qeq_bool c 0) p = true -> peval p z = 0.
Proof. induction p as [|c r IH]; simpl; auto. intros H. apply andb_prop in H as [H1 H2].
  rewrite IH by exact H2. apply Qeq_bool_eq in H1. rewrite (QC_eq _ _ H1), QC_0. ring. Qed.
Lemma kzerob_sound a : kzerob a = true -> kevalC a = 0.
Proof. unfold kzerob. intros H. rewrite <- (reduce_sound (length a)). now apply pzero_sound. Qed.
Lemma keqb_sound a b : keqb a b = true -> kevalC a = kevalC b.
Proof. unfold keqb. intros H. apply kzerob_sound in H. rewrite kadd_sound, kopp_sound in H.
  replace (kevalC a) with ((kevalC a + - kevalC b) + kevalC b) by ring. rewrite H. ring. Qed.

Lemma peval_kX n z : peval (kX n) z = Cpown z n.
Proof. unfold kX. induction n; simpl. rewrite QC_1. ring. rewrite IHn, QC_0. ring. Qed.
Lemma kxz_sound k : kevalC (kxz k) = Cexp (IZR k * (PI / 8)).
Proof. unfold kxz. rewrite knorm_sound. unfold kevalC. rewrite peval_kX. unfold zeta. rewrite Cexp_pown.
  assert (Hm : (0 <= k mod 16)%Z) by (apply Z.mod_pos_bound; lia).
  rewrite INR_IZR_INZ, Z2Nat.id by exact Hm.
  rewrite (Z.div_mod k 16) at 2 by lia. rewrite plus_IZR, mult_IZR.
  replace ((16 * IZR (k / 16) + IZR (k mod 16)) * (PI / 8))%R
     with (IZR (k mod 16) * (PI / 8) + IZR (k / 16) * (2 * PI))%R by field.
  now rewrite Cexp_period. Qed.
Lemma ki_sound : kevalC ki = Ci.
Proof. unfold ki. rewrite kxz_sound. replace (4 * (PI / 8))%R with (PI / 2)%R by field.
  unfold Cexp, Ci. now rewrite cos_PI2, sin_PI2. Qed.
Lemma ksqrt2_sound : kevalC ksqrt2 = RtoC (sqrt 2).
Proof. unfold ksqrt2. rewrite kadd_sound, kopp_sound, !kxz_sound.
  replace (2 * (PI / 8))%R with (PI / 4)%R by field.
  replace (6 * (PI / 8))%R with (3 * (PI / 4))%R by field.
  unfold Cexp. rewrite cos_PI4, sin_PI4, cos_3PI4, sin_3PI4.
  unfold Cplus, Copp, RtoC; simpl. f_equal; [|field; apply Rgt_not_eq, Rlt_gt, Rlt_sqrt2_0].
  assert (H : (sqrt 2 * sqrt 2 = 2)%R) by (apply sqrt_sqrt; lra).
  assert (H0 : (sqrt 2 <> 0)%R) by (apply Rgt_not_eq, Rlt_gt, Rlt_sqrt2_0).
  apply Rmult_eq_reg_r with (sqrt 2); [|exact H0]. rewrite H. field_simplify; [lra | exact H0]. Qed.

Lemma kcomp_sound p q : kevalC (kcomp p q) = peval p (kevalC q).
Proof. induction p as [|c r IH]; simpl. reflexivity.
  rewrite kadd_sound, kmul_sound, IH. unfold kevalC at 1; simpl. ring. Qed.
Lemma peval_conj p z : Cconj (peval p z) = peval p (Cconj z).
Proof. induction p as [|c r IH]; simpl. apply Cconj_R.
  rewrite Cconj_plus, Cconj_mult, IH. unfold QC. now rewrite Cconj_R. Qed.
Lemma kconj_sound a : kevalC (kconj a) = Cconj (kevalC a).
Proof. unfold kconj, ksigma. rewrite kcomp_sound, knorm_sound. unfold kevalC. rewrite peval_conj. f_equal.
  rewrite peval_kX. unfold zeta. rewrite Cexp_pown, Cexp_conj.
  replace (INR 15 * (PI / 8))%R with (- (PI / 8) + IZR 1 * (2 * PI))%R by (simpl; field).
  apply Cexp_period. Qed.
Lemma kinv_sound a d : kinv a = Some d -> kevalC a * kevalC d = 1.
Proof. unfold kinv. destruct (kmul a _) as [|q l]; [discriminate|].
  destruct (Qeq_bool q 0); [discriminate|].
  destruct (keqb _ kone) eqn:E; [|discriminate]. intros H; injection H as <-.
  apply keqb_sound in E. now rewrite kmul_sound, kone_sound in E. Qed.
