(* Sym/Expr.v — deep embedding of scalar and matrix expressions, and their meaning in Coquelicot's C.
   This file is the INTERFACE targeted by generated code: constructor names and interpC/interpM are fixed. *)
From Coq Require Import Reals QArith Qreals List ZArith Lra Lia.
From Coquelicot Require Import Coquelicot.
Import ListNotations.

Inductive expr :=
| EQ (q : Q) | EPi | EI | EVar (v : nat)
| EAdd (a b : expr) | ESub (a b : expr) | EMul (a b : expr) | EDiv (a b : expr) | ENeg (a : expr)
| EPow (a : expr) (n : nat)
| ESin (a : expr) | ECos (a : expr) | EExp (a : expr) | ESqrt (a : expr) | EConj (a : expr).

Inductive mexpr :=
| MLeaf (rows : list (list expr))
| MMul (a b : mexpr) | MKron (a b : mexpr) | MScale (c : expr) (a : mexpr)
| MAdd (a b : mexpr) | MDag (a : mexpr).

Notation env := (nat -> R).

(* kinds of variables: Plain = polynomial indeterminate; Phase d = angle variable x whose atom is e^{i x / d} *)
Inductive vkind := Plain | Phase (den : positive).
Notation config := (nat -> vkind).
(* configuration from a list of the Phase variables (everything else Plain) *)
Fixpoint config_of (l : list (nat * positive)) (v : nat) : vkind :=
  match l with [] => Plain | (w, d) :: r => if Nat.eqb v w then Phase d else config_of r v end.

(* ---------- list-of-rows matrices over an arbitrary carrier (used at C and at the symbolic ring) ---------- *)
Section ListMat.
  Context {T : Type}.
  Variables (zero : T) (add mul : T -> T -> T) (conj : T -> T).

  Definition lm_ncols (m : list (list T)) : nat := length (hd [] m).
  Definition lm_col (j : nat) (m : list (list T)) : list T := map (fun r => nth j r zero) m.
  Definition lm_dot (r c : list T) : T := fold_right add zero (map (fun p => mul (fst p) (snd p)) (combine r c)).
  (* (a b)_{ij} = sum_k a_{ik} b_{kj} *)
  Definition lm_mul (a b : list (list T)) : list (list T) :=
    map (fun r => map (fun j => lm_dot r (lm_col j b)) (seq 0 (lm_ncols b))) a.
  (* numpy.kron order: kron(a,b)[i*p+k][j*q+l] = a[i][j] * b[k][l] *)
  Definition lm_kron (a b : list (list T)) : list (list T) :=
    flat_map (fun ra => map (fun rb => flat_map (fun x => map (fun y => mul x y) rb) ra) b) a.
  Definition lm_scale (s : T) (a : list (list T)) : list (list T) := map (map (mul s)) a.
  Definition lm_add (a b : list (list T)) : list (list T) :=
    map (fun rr => map (fun p => add (fst p) (snd p)) (combine (fst rr) (snd rr))) (combine a b).
  (* conjugate transpose: (a^dagger)_{ji} = conj a_{ij} *)
  Definition lm_dag (a : list (list T)) : list (list T) :=
    map (fun j => map conj (lm_col j a)) (seq 0 (lm_ncols a)).
End ListMat.

(* ---------- scalars ---------- *)
Open Scope C_scope.

Definition Cexp (t : R) : C := (cos t, sin t).
Fixpoint Cpown (z : C) (n : nat) : C := match n with O => 1 | S k => z * Cpown z k end.

Fixpoint interpC (rho : env) (e : expr) : C :=
  match e with
  | EQ q => RtoC (Q2R q)
  | EPi => RtoC PI
  | EI => Ci
  | EVar v => RtoC (rho v)
  | EAdd a b => interpC rho a + interpC rho b
  | ESub a b => interpC rho a - interpC rho b
  | EMul a b => interpC rho a * interpC rho b
  | EDiv a b => interpC rho a / interpC rho b
  | ENeg a => - interpC rho a
  | EPow a n => Cpown (interpC rho a) n
  | ESin a => RtoC (sin (Re (interpC rho a)))
  | ECos a => RtoC (cos (Re (interpC rho a)))
  | EExp a => RtoC (exp (Re (interpC rho a))) * Cexp (Im (interpC rho a))
  | ESqrt a => RtoC (sqrt (Re (interpC rho a)))
  | EConj a => Cconj (interpC rho a)
  end.

Notation Cmat := (list (list C)).
Definition Cm_mul : Cmat -> Cmat -> Cmat := lm_mul (RtoC 0) Cplus Cmult.
Definition Cm_kron : Cmat -> Cmat -> Cmat := lm_kron Cmult.
Definition Cm_scale : C -> Cmat -> Cmat := lm_scale Cmult.
Definition Cm_add : Cmat -> Cmat -> Cmat := lm_add Cplus.
Definition Cm_dag : Cmat -> Cmat := lm_dag (RtoC 0) Cconj.

Fixpoint interpM (rho : env) (m : mexpr) : Cmat :=
  match m with
  | MLeaf rows => map (map (interpC rho)) rows
  | MMul a b => Cm_mul (interpM rho a) (interpM rho b)
  | MKron a b => Cm_kron (interpM rho a) (interpM rho b)
  | MScale c a => Cm_scale (interpC rho c) (interpM rho a)
  | MAdd a b => Cm_add (interpM rho a) (interpM rho b)
  | MDag a => Cm_dag (interpM rho a)
  end.

(* ---------- basic facts about Cexp / Cpown used everywhere ---------- *)
Lemma Cexp_add a b : Cexp (a + b) = Cexp a * Cexp b.
Proof. unfold Cexp, Cmult; simpl. rewrite cos_plus, sin_plus. f_equal; ring. Qed.
Lemma Cexp_0 : Cexp 0 = 1. Proof. unfold Cexp. now rewrite cos_0, sin_0. Qed.
Lemma Cexp_PI : Cexp PI = - (RtoC 1).
Proof. unfold Cexp. rewrite cos_PI, sin_PI. unfold Copp, RtoC; simpl. f_equal; ring. Qed.
Lemma Cexp_neg t : Cexp (- t) = Cconj (Cexp t).
Proof. unfold Cexp, Cconj; simpl. now rewrite cos_neg, sin_neg. Qed.
Lemma Cexp_mul_neg t : Cexp t * Cexp (- t) = 1.
Proof. rewrite <- Cexp_add. replace (t + - t)%R with 0%R by ring. apply Cexp_0. Qed.
Lemma Cexp_2PI : Cexp (2 * PI) = 1.
Proof. unfold Cexp. now rewrite cos_2PI, sin_2PI. Qed.
Lemma Cexp_2PI_nat n : Cexp (INR n * (2 * PI)) = 1.
Proof. induction n. simpl. rewrite Rmult_0_l. apply Cexp_0.
  rewrite S_INR. replace ((INR n + 1) * (2 * PI))%R with (INR n * (2 * PI) + 2 * PI)%R by ring.
  rewrite Cexp_add, IHn, Cexp_2PI. ring. Qed.
Lemma Cexp_2PI_Z k : Cexp (IZR k * (2 * PI)) = 1.
Proof. destruct (Z_le_gt_dec 0 k) as [H|H].
  - rewrite <- (Z2Nat.id k H), <- INR_IZR_INZ. apply Cexp_2PI_nat.
  - assert (E : Cexp (IZR k * (2 * PI)) * Cexp (- (IZR k * (2 * PI))) = 1) by apply Cexp_mul_neg.
    replace (- (IZR k * (2 * PI)))%R with (IZR (- k) * (2 * PI))%R in E by (rewrite opp_IZR; ring).
    assert (Hk : (0 <= - k)%Z) by lia.
    rewrite <- (Z2Nat.id (- k) Hk), <- INR_IZR_INZ, Cexp_2PI_nat in E.
    rewrite <- E. ring. Qed.
Lemma Cexp_period t k : Cexp (t + IZR k * (2 * PI)) = Cexp t.
Proof. rewrite Cexp_add, Cexp_2PI_Z. ring. Qed.

Lemma Cpown_add z m n : Cpown z (m + n) = Cpown z m * Cpown z n.
Proof. induction m; simpl. ring. rewrite IHm. ring. Qed.
Lemma Cpown_1 n : Cpown 1 n = 1.
Proof. induction n; simpl. reflexivity. rewrite IHn. ring. Qed.
Lemma Cexp_pown t n : Cpown (Cexp t) n = Cexp (INR n * t).
Proof. induction n. simpl. replace (0 * t)%R with 0%R by ring. now rewrite Cexp_0.
  rewrite S_INR. simpl Cpown. rewrite IHn, <- Cexp_add. f_equal. ring. Qed.

Lemma Cconj_plus a b : Cconj (a + b) = Cconj a + Cconj b.
Proof. unfold Cconj, Cplus; simpl. f_equal. ring. Qed.
Lemma Cconj_mult a b : Cconj (a * b) = Cconj a * Cconj b.
Proof. unfold Cconj, Cmult; simpl. f_equal; ring. Qed.
Lemma Cconj_opp a : Cconj (- a) = - Cconj a.
Proof. unfold Cconj, Copp; simpl. reflexivity. Qed.
Lemma Cconj_R (x : R) : Cconj (RtoC x) = RtoC x.
Proof. unfold Cconj, RtoC; simpl. f_equal. ring. Qed.
Lemma Cconj_invol a : Cconj (Cconj a) = a.
Proof. destruct a; unfold Cconj; simpl. f_equal. ring. Qed.
Lemma Cconj_pown a n : Cconj (Cpown a n) = Cpown (Cconj a) n.
Proof. induction n; simpl. apply Cconj_R. now rewrite Cconj_mult, IHn. Qed.
Lemma Cexp_conj t : Cconj (Cexp t) = Cexp (- t).
Proof. now rewrite Cexp_neg. Qed.

Lemma C_inv_unique (y w : C) : y * w = 1 -> / y = w.
Proof. intros H. assert (Hy : y <> 0).
  { intros E. rewrite E in H. rewrite Cmult_0_l in H. apply (f_equal fst) in H. simpl in H. lra. }
  rewrite <- (Cmult_1_r (/ y)), <- H, Cmult_assoc, Cinv_l by exact Hy. ring. Qed.
