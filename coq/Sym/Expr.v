(* Deep embedding of the scalar / matrix expressions produced by the symbolic tracer (vlib/symtrace.py).
   PLACEHOLDER with the agreed interface (types only); the full version with interpC/interpM into Coquelicot's C
   is developed on branch agent/sym and replaces this file. *)
From Coq Require Import QArith List.
Import ListNotations.

Inductive expr :=
| EQ (q : Q) | EPi | EI | EVar (v : nat)
| EAdd (a b : expr) | ESub (a b : expr) | EMul (a b : expr) | EDiv (a b : expr) | ENeg (a : expr)
| EPow (a : expr) (n : nat)
| ESin (a : expr) | ECos (a : expr) | EExp (a : expr) | ESqrt (a : expr) | EConj (a : expr).

Inductive mexpr :=
| MLeaf (rows : list (list expr)) | MMul (a b : mexpr) | MKron (a b : mexpr) | MScale (c : expr) (a : mexpr)
| MAdd (a b : mexpr) | MDag (a : mexpr).
