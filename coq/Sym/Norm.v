(* Sym/Norm.v — the normaliser: expr -> option poly (definitions only; proofs are in Sound.v).
   Trig/exp arguments are analysed as complex linear forms  q + c_pi*pi + sum c_v * var_v  (real and imaginary part). *)
From Coq Require Import Reals QArith Qreals List ZArith NArith Bool.
From Coquelicot Require Import Coquelicot.
Require Import QG.Sym.Expr QG.Sym.Coeff QG.Sym.Poly.
Import ListNotations.

(* ---------- real linear forms ---------- *)
Record lform := { lf_q : Q; lf_pi : Q; lf_v : list (nat * Q) }.

Fixpoint lv_ins (v : nat) (c : Q) (l : list (nat * Q)) : list (nat * Q) :=
  match l with
  | [] => [(v, c)]
  | (w, d) :: r =>
      match Nat.compare v w with
      | Lt => (v, c) :: l
      | Eq => (v, Qred (c + d)) :: r
      | Gt => (w, d) :: lv_ins v c r
      end
  end.
Definition lv_add (a b : list (nat * Q)) : list (nat * Q) := fold_right (fun vc acc => lv_ins (fst vc) (snd vc) acc) b a.
Definition lv_scale (q : Q) (a : list (nat * Q)) : list (nat * Q) := map (fun vc => (fst vc, Qred (q * snd vc))) a.
Definition lv_zerob (a : list (nat * Q)) : bool := forallb (fun vc => Qeq_bool (snd vc) 0) a.

Definition lzero : lform := {| lf_q := 0; lf_pi := 0; lf_v := [] |}.
Definition lconst (q : Q) : lform := {| lf_q := Qred q; lf_pi := 0; lf_v := [] |}.
Definition lpi : lform := {| lf_q := 0; lf_pi := 1; lf_v := [] |}.
Definition lvar (v : nat) : lform := {| lf_q := 0; lf_pi := 0; lf_v := [(v, 1%Q)] |}.
Definition ladd (a b : lform) : lform :=
  {| lf_q := Qred (lf_q a + lf_q b); lf_pi := Qred (lf_pi a + lf_pi b); lf_v := lv_add (lf_v a) (lf_v b) |}.
Definition lscale (q : Q) (a : lform) : lform :=
  {| lf_q := Qred (q * lf_q a); lf_pi := Qred (q * lf_pi a); lf_v := lv_scale q (lf_v a) |}.
Definition lis_const (a : lform) : bool := Qeq_bool (lf_pi a) 0 && lv_zerob (lf_v a).
Definition lis_zero (a : lform) : bool := Qeq_bool (lf_q a) 0 && lis_const a.

(* complex linear form (re, im) of an expression, when it has one *)
Fixpoint cl (e : expr) : option (lform * lform) :=
  match e with
  | EQ q => Some (lconst q, lzero)
  | EPi => Some (lpi, lzero)
  | EI => Some (lzero, lconst 1)
  | EVar v => Some (lvar v, lzero)
  | EAdd a b =>
      match cl a, cl b with Some (ar, ai), Some (br, bi) => Some (ladd ar br, ladd ai bi) | _, _ => None end
  | ESub a b =>
      match cl a, cl b with
      | Some (ar, ai), Some (br, bi) => Some (ladd ar (lscale (-1) br), ladd ai (lscale (-1) bi))
      | _, _ => None end
  | ENeg a => match cl a with Some (ar, ai) => Some (lscale (-1) ar, lscale (-1) ai) | None => None end
  | EConj a => match cl a with Some (ar, ai) => Some (ar, lscale (-1) ai) | None => None end
  | EMul a b =>
      match cl a, cl b with
      | Some (ar, ai), Some (br, bi) =>
          if lis_const ar && lis_const ai then
            Some (ladd (lscale (lf_q ar) br) (lscale (- lf_q ai) bi), ladd (lscale (lf_q ar) bi) (lscale (lf_q ai) br))
          else if lis_const br && lis_const bi then
            Some (ladd (lscale (lf_q br) ar) (lscale (- lf_q bi) ai), ladd (lscale (lf_q br) ai) (lscale (lf_q bi) ar))
          else None
      | _, _ => None end
  | EDiv a b =>
      match cl a, cl b with
      | Some (ar, ai), Some (br, bi) =>
          if lis_const br && lis_zero bi && negb (Qeq_bool (lf_q br) 0)
          then Some (lscale (/ lf_q br) ar, lscale (/ lf_q br) ai) else None
      | _, _ => None end
  | _ => None
  end.

Definition q_to_Z (q : Q) : option Z :=
  let r := Qred q in if (Qden r =? 1)%positive then Some (Qnum r) else None.

(* exponent vector of e^{i * sum c_v var_v}: every variable with a non-zero coefficient must be Phase d with c*d integer *)
Fixpoint phase_vars (cf : config) (l : list (nat * Q)) : option phmono :=
  match l with
  | [] => Some []
  | (v, c) :: r =>
      if Qeq_bool c 0 then phase_vars cf r else
      match cf v with
      | Phase d =>
          match q_to_Z (c * (Zpos d # 1)), phase_vars cf r with
          | Some z, Some m => Some (ph_ins v z m)
          | _, _ => None
          end
      | Plain => None
      end
  end.
(* e^{i a} for a real linear form a with no rational constant, 8*c_pi integer *)
Definition phase (cf : config) (a : lform) : option poly :=
  if negb (Qeq_bool (lf_q a) 0) then None else
  match q_to_Z (8 * lf_pi a), phase_vars cf (lf_v a) with
  | Some k, Some m => Some (padd1 (m, []) (kxz k) [])
  | _, _ => None
  end.

(* square roots of rational constants r^2 and 2 r^2 (candidate from Z.sqrt, then CHECKED) *)
Definition qsqrt (q : Q) : option Q :=
  let q' := Qred q in
  let r := (Z.sqrt (Qnum q') # Z.to_pos (Z.sqrt (Zpos (Qden q'))))%Q in
  if Qeq_bool (r * r) q && Qle_bool 0 r then Some (Qred r) else None.
Definition psqrt (q : Q) : option poly :=
  match qsqrt q with
  | Some r => Some (pQ r)
  | None => match qsqrt (q * (1 # 2)) with Some r => Some (pconst (kscale r ksqrt2)) | None => None end
  end.

Definition half : poly := pQ (1 # 2).

Fixpoint norm (cf : config) (e : expr) : option poly :=
  match e with
  | EQ q => Some (pQ q)
  | EPi => None
  | EI => Some pI
  | EVar v => Some (pplain v)
  | EAdd a b => match norm cf a, norm cf b with Some x, Some y => Some (padd x y) | _, _ => None end
  | ESub a b => match norm cf a, norm cf b with Some x, Some y => Some (psub x y) | _, _ => None end
  | EMul a b => match norm cf a, norm cf b with Some x, Some y => Some (pmul x y) | _, _ => None end
  | ENeg a => match norm cf a with Some x => Some (popp x) | None => None end
  | EPow a n => match norm cf a with Some x => Some (ppow x n) | None => None end
  | EDiv a b =>
      match norm cf a, norm cf b with
      | Some x, Some y => match pinv y with Some y' => Some (pmul x y') | None => None end
      | _, _ => None end
  | ECos a =>
      match cl a with
      | Some (ar, ai) =>
          if lis_zero ai then
            match phase cf ar, phase cf (lscale (-1) ar) with
            | Some p, Some m => Some (pmul half (padd p m))
            | _, _ => None end
          else None
      | None => None end
  | ESin a =>
      match cl a with
      | Some (ar, ai) =>
          if lis_zero ai then
            match phase cf ar, phase cf (lscale (-1) ar) with
            | Some p, Some m => Some (pmul (pmul (popp pI) half) (psub p m))     (* (p - m)/(2i) = -i (p - m)/2 *)
            | _, _ => None end
          else None
      | None => None end
  | EExp a => match cl a with Some (ar, ai) => if lis_zero ar then phase cf ai else None | None => None end
  | ESqrt a =>
      match cl a with
      | Some (ar, ai) => if lis_const ar && lis_zero ai then psqrt (lf_q ar) else None
      | None => None end
  | EConj a => match norm cf a with Some x => Some (pconj x) | None => None end
  end.

Definition expr_eqb (cf : config) (e1 e2 : expr) : bool :=
  match norm cf e1, norm cf e2 with Some p, Some q => peqb p q | _, _ => false end.
