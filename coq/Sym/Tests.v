(* Sym/Tests.v — usage examples of the reflective decision procedure.
   Pattern:  goal  interpC rho e1 = interpC rho e2   ==>  apply (expr_eq_sound cf); vm_compute; reflexivity.
             goal  interpM rho m1 = interpM rho m2   ==>  apply (mexpr_eq_sound cf); vm_compute; reflexivity. *)
From Coq Require Import Reals QArith Qreals List ZArith Lra.
From Coquelicot Require Import Coquelicot.
Require Import QG.Sym.Expr QG.Sym.Coeff QG.Sym.Poly QG.Sym.Norm QG.Sym.Sound QG.Sym.Mat QG.Sym.Subst.
Import ListNotations.

Ltac sym_decide cf :=
  intros;
  first [ apply (expr_eq_sound cf); vm_compute; reflexivity
        | apply (mexpr_eq_sound cf); vm_compute; reflexivity ].

(* variables: 0 = x (Phase 1), 1 = y (Phase 2: only y/2 occurs as an angle), 2 = phc, 3 = pht (Phase 1), 4.. = plain *)
Definition cf (v : nat) : vkind :=
  match v with 0 => Phase 1 | 1 => Phase 2 | 2 => Phase 1 | 3 => Phase 1 | _ => Plain end%nat.
Definition x := EVar 0. Definition y := EVar 1. Definition phc := EVar 2. Definition pht := EVar 3.
Definition a := EVar 4. Definition b := EVar 5.
Definition E1 := EQ 1. Definition E2 := EQ 2. Definition E0 := EQ 0.
Definition cexp (t : expr) := EExp (EMul EI t).     (* e^{i t} *)

(* ---------- scalar identities ---------- *)
Example pythagoras : forall rho, interpC rho (EAdd (EPow (ECos x) 2) (EPow (ESin x) 2)) = interpC rho E1.
Proof. sym_decide cf. Qed.
Print Assumptions pythagoras.

Example exp_inverse : forall rho, interpC rho (EMul (cexp x) (cexp (ENeg x))) = interpC rho E1.
Proof. sym_decide cf. Qed.
Print Assumptions exp_inverse.

Example sin_double : forall rho, interpC rho (ESin (EMul E2 x)) = interpC rho (EMul E2 (EMul (ESin x) (ECos x))).
Proof. sym_decide cf. Qed.
Print Assumptions sin_double.

Example cos_half_sq : forall rho,
  interpC rho (EPow (ECos (EDiv y E2)) 2) = interpC rho (EDiv (EAdd E1 (ECos y)) E2).
Proof. sym_decide cf. Qed.
Print Assumptions cos_half_sq.

Example inv_sqrt2_sq : forall rho, interpC rho (EPow (EDiv E1 (ESqrt E2)) 2) = interpC rho (EQ (1 # 2)).
Proof. sym_decide cf. Qed.
Print Assumptions inv_sqrt2_sq.

Example sqrt_half : forall rho, interpC rho (ESqrt (EQ (1 # 2))) = interpC rho (EDiv E1 (ESqrt E2)).
Proof. sym_decide cf. Qed.

Example cos_pi_8 : forall rho,   (* cos(pi/8)^2 = (2 + sqrt 2)/4 *)
  interpC rho (EPow (ECos (EDiv EPi (EQ 8))) 2) = interpC rho (EDiv (EAdd E2 (ESqrt E2)) (EQ 4)).
Proof. sym_decide cf. Qed.

Example euler : forall rho, interpC rho (cexp x) = interpC rho (EAdd (ECos x) (EMul EI (ESin x))).
Proof. sym_decide cf. Qed.

Example conj_exp : forall rho, interpC rho (EConj (EMul EI (cexp x))) = interpC rho (EDiv (ENeg EI) (cexp x)).
Proof. sym_decide cf. Qed.

Example div_general_K : forall rho,   (* division by an invertible non-monomial element of K: 1/(1+i) = (1-i)/2 *)
  interpC rho (EDiv E1 (EAdd E1 EI)) = interpC rho (EDiv (ESub E1 EI) E2).
Proof. sym_decide cf. Qed.

Example plain_binomial : forall rho,   (* plain indeterminates, and a phase variable used as a plain one *)
  interpC rho (EPow (EAdd a (EMul x b)) 2)
  = interpC rho (EAdd (EPow a 2) (EAdd (EMul E2 (EMul a (EMul x b))) (EMul (EPow x 2) (EPow b 2)))).
Proof. sym_decide cf. Qed.

Example mixed : forall rho,  (* a * e^{i(x + pi/2)} = i a (cos x + i sin x) *)
  interpC rho (EMul a (cexp (EAdd x (EDiv EPi E2)))) = interpC rho (EMul (EMul EI a) (EAdd (ECos x) (EMul EI (ESin x)))).
Proof. sym_decide cf. Qed.

(* a FALSE identity is rejected (and so are unsupported terms) *)
Example false_rejected : expr_eqb cf (ECos x) (ESin x) = false.
Proof. vm_compute. reflexivity. Qed.
Example false_rejected2 : expr_eqb cf (EPow (ECos (EDiv y E2)) 2) (EDiv (ESub E1 (ECos y)) E2) = false.
Proof. vm_compute. reflexivity. Qed.
Example unsupported_none : norm cf (ECos (EDiv x E2)) = None   (* x is Phase 1: x/2 is not a multiple of the atom *)
                        /\ norm cf (ECos a) = None              (* plain variable inside a trig argument *)
                        /\ norm cf EPi = None                   (* pi outside trig *)
                        /\ norm cf (ESqrt (EQ 3)) = None
                        /\ norm cf (EDiv E1 a) = None           (* division by a plain variable *)
                        /\ norm cf (EDiv E1 E0) = None.
Proof. vm_compute. repeat split. Qed.

(* how to reach a statement written directly with Coquelicot's functions *)
Example pythagoras_native : forall t : R, (RtoC (cos t) * RtoC (cos t) + RtoC (sin t) * RtoC (sin t) = RtoC 1)%C.
Proof. intros t.
  pose (rho := fun _ : nat => t).
  change (interpC rho (EAdd (EMul (ECos x) (ECos x)) (EMul (ESin x) (ESin x))) = RtoC 1).
  replace (RtoC 1) with (interpC rho E1) by (simpl; now rewrite Q2R_1).
  sym_decide cf. Qed.
Print Assumptions pythagoras_native.

(* unsupported REAL subterms (here the decay factor e^{-a}) are abstracted by a fresh Plain variable (6); the
   substitution theorem of Subst.v transfers the decided identity back to the original expressions *)
Example abstracted : forall rho,
  interpC rho (EAdd (EMul (EExp (ENeg a)) (EPow (ECos x) 2)) (EMul (EExp (ENeg a)) (EPow (ESin x) 2)))
  = interpC rho (EExp (ENeg a)).
Proof. intros rho.
  apply (expr_eq_sound_subst cf [(6%nat, EExp (ENeg a))]
           (EAdd (EMul (EVar 6) (EPow (ECos x) 2)) (EMul (EVar 6) (EPow (ESin x) 2))) (EVar 6));
  vm_compute; reflexivity. Qed.
Print Assumptions abstracted.

(* ---------- matrices ---------- *)
Definition I2 : mexpr := MLeaf [[E1; E0]; [E0; E1]].
Definition I4 : mexpr := MLeaf [[E1; E0; E0; E0]; [E0; E1; E0; E0]; [E0; E0; E1; E0]; [E0; E0; E0; E1]].
Definition half_of (t : expr) := EDiv t E2.
(* U(theta, phi) = [[cos(theta/2), -i e^{-i phi} sin(theta/2)], [-i e^{i phi} sin(theta/2), cos(theta/2)]] *)
Definition Urows (theta phi : expr) : list (list expr) :=
  [[ECos (half_of theta); EMul (EMul (ENeg EI) (cexp (ENeg phi))) (ESin (half_of theta))];
   [EMul (EMul (ENeg EI) (cexp phi)) (ESin (half_of theta)); ECos (half_of theta)]].
Definition U (theta phi : expr) : mexpr := MLeaf (Urows theta phi).

(* U(y, x)^dagger U(y, x) = I  with theta = y of kind Phase 2 and phi = x of kind Phase 1 *)
Example U_unitary : forall rho, interpM rho (MMul (MDag (U y x)) (U y x)) = interpM rho I2.
Proof. sym_decide cf. Qed.
Print Assumptions U_unitary.
Example U_unitary' : forall rho, interpM rho (MMul (U y x) (MDag (U y x))) = interpM rho I2.
Proof. sym_decide cf. Qed.

(* cross-resonance gate: block diagonal diag(U(theta,phi), U(-theta,phi)) *)
Definition CR (theta phi : expr) : mexpr :=
  match Urows theta phi, Urows (ENeg theta) phi with
  | [[a00; a01]; [a10; a11]], [[b00; b01]; [b10; b11]] =>
      MLeaf [[a00; a01; E0; E0]; [a10; a11; E0; E0]; [E0; E0; b00; b01]; [E0; E0; b10; b11]]
  | _, _ => MLeaf []
  end.
Definition CX : mexpr := MLeaf [[E1; E0; E0; E0]; [E0; E1; E0; E0]; [E0; E0; E0; E1]; [E0; E0; E1; E0]].
Definition Pd (phi : expr) : mexpr := MLeaf [[E1; E0]; [E0; cexp phi]].     (* diag(1, e^{i phi}) *)
Definition pi_over (n : Z) := EDiv EPi (EQ (n # 1)).

(* the noise-free CNOT pulse sequence of quantum-gates (notes/coq_prototypes/symproto.v):
   CR(-pi/4,-pht) . (X(-phc+pi/2) (x) I) . CR(pi/4,-pht) . (U(-pi, -phc+pi) (x) SX(-pht)) *)
Definition CNOT_nf : mexpr :=
  MMul (CR (ENeg (pi_over 4)) (ENeg pht))
   (MMul (MKron (U EPi (EAdd (ENeg phc) (pi_over 2))) I2)
    (MMul (CR (pi_over 4) (ENeg pht))
          (MKron (U (ENeg EPi) (EAdd (ENeg phc) EPi)) (U (pi_over 2) (ENeg pht))))).
(* frame identity:  CNOT_nf = i . (P(phc - pi/2) (x) P(pht))^dagger . CX . (P(phc) (x) P(pht)) *)
Definition CNOT_rhs : mexpr :=
  MScale EI (MMul (MDag (MKron (Pd (ESub phc (pi_over 2))) (Pd pht))) (MMul CX (MKron (Pd phc) (Pd pht)))).
Example CNOT_frame : forall rho, interpM rho CNOT_nf = interpM rho CNOT_rhs.
Proof. sym_decide cf. Qed.
Print Assumptions CNOT_frame.

(* consequence: the sequence is unitary *)
Example CNOT_unitary : forall rho, interpM rho (MMul (MDag CNOT_nf) CNOT_nf) = interpM rho I4.
Proof. sym_decide cf. Qed.

Example madd_example : forall rho,    (* (U + U)/2 = U, with MAdd and MScale *)
  interpM rho (MScale (EQ (1 # 2)) (MAdd (U y x) (U y x))) = interpM rho (U y x).
Proof. sym_decide cf. Qed.

Example mabstracted : forall rho,   (* amplitude damping factor g = sqrt(1 - e^{-a}) abstracted: [[1,0],[0,g]]^2 = [[1,0],[0,g^2]] *)
  let g := ESqrt (ESub E1 (EExp (ENeg a))) in
  interpM rho (MMul (MLeaf [[E1; E0]; [E0; g]]) (MLeaf [[E1; E0]; [E0; g]])) = interpM rho (MLeaf [[E1; E0]; [E0; EPow g 2]]).
Proof. intros rho g.
  apply (mexpr_eq_sound_subst cf [(6%nat, g)]
           (MMul (MLeaf [[E1; E0]; [E0; EVar 6]]) (MLeaf [[E1; E0]; [E0; EVar 6]])) (MLeaf [[E1; E0]; [E0; EPow (EVar 6) 2]]));
  vm_compute; reflexivity. Qed.

Example config_of_example : forall rho, interpM rho (MMul (MDag (U y x)) (U y x)) = interpM rho I2.
Proof. sym_decide (config_of [(0%nat, 1%positive); (1%nat, 2%positive)]). Qed.
Example diff_example : mexpr_diff cf (MLeaf [[E1; x]]) (MLeaf [[E1; E0]]) = Some [(0%nat, 1%nat, pplain 0)].
Proof. vm_compute. reflexivity. Qed.

(* rejected: a wrong matrix identity, a dimension mismatch, a ragged leaf *)
Example mfalse_rejected : mexpr_eqb cf (MMul (U y x) (U y x)) I2 = false.
Proof. vm_compute. reflexivity. Qed.
Example mshape_rejected : mnorm cf (MMul I2 CX) = None /\ mnorm cf (MAdd I2 CX) = None
                          /\ mnorm cf (MLeaf [[E1; E0]; [E0]]) = None /\ mexpr_eqb cf I2 I4 = false.
Proof. vm_compute. repeat split. Qed.

(* ---------- the main theorems and what they rest on ---------- *)
Check norm_sound : forall cfg e p, norm cfg e = Some p -> forall rho, interpC rho e = evalP cfg rho p.
Check expr_eq_sound : forall cfg e1 e2, expr_eqb cfg e1 e2 = true -> forall rho, interpC rho e1 = interpC rho e2.
Check mexpr_eq_sound : forall cfg m1 m2, mexpr_eqb cfg m1 m2 = true -> forall rho, interpM rho m1 = interpM rho m2.
Print Assumptions norm_sound.
Print Assumptions expr_eq_sound.
Print Assumptions mexpr_eq_sound.
