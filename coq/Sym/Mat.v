(* Sym/Mat.v — matrices of polynomials: normaliser for mexpr, decision procedure mexpr_eqb, soundness against interpM. *)
From Coq Require Import Reals QArith List ZArith Lia Bool.
From Coquelicot Require Import Coquelicot.
Require Import QG.Sym.Expr QG.Sym.Coeff QG.Sym.Poly QG.Sym.Norm QG.Sym.Sound.
Import ListNotations.

(* ---------- the list-matrix operations commute with any ring homomorphism, whatever the shapes ---------- *)
Section Hom.
  Context {T U : Type}.
  Variables (zeroT : T) (addT mulT : T -> T -> T) (conjT : T -> T).
  Variables (zeroU : U) (addU mulU : U -> U -> U) (conjU : U -> U).
  Variable f : T -> U.
  Hypothesis f_zero : f zeroT = zeroU.
  Hypothesis f_add : forall a b, f (addT a b) = addU (f a) (f b).
  Hypothesis f_mul : forall a b, f (mulT a b) = mulU (f a) (f b).
  Hypothesis f_conj : forall a, f (conjT a) = conjU (f a).
  Notation F := (map (map f)).

  Lemma hom_ncols m : lm_ncols (F m) = lm_ncols m.
  Proof. unfold lm_ncols. destruct m; simpl. reflexivity. apply map_length. Qed.
  Lemma hom_col j m : lm_col zeroU j (F m) = map f (lm_col zeroT j m).
  Proof. unfold lm_col. rewrite !map_map. apply map_ext. intros r. rewrite <- f_zero. apply map_nth. Qed.
  Lemma hom_dot r c : lm_dot zeroU addU mulU (map f r) (map f c) = f (lm_dot zeroT addT mulT r c).
  Proof. unfold lm_dot. revert c; induction r as [|x r IH]; intros [|y c]; simpl; auto.
    now rewrite IH, f_add, f_mul. Qed.
  Lemma hom_mul a b : lm_mul zeroU addU mulU (F a) (F b) = F (lm_mul zeroT addT mulT a b).
  Proof. unfold lm_mul. rewrite !map_map. apply map_ext. intros r. rewrite hom_ncols, map_map. apply map_ext.
    intros j. now rewrite hom_col, hom_dot. Qed.
  Lemma hom_kron a b : lm_kron mulU (F a) (F b) = F (lm_kron mulT a b).
  Proof. unfold lm_kron. induction a as [|ra a IH]; simpl. reflexivity.
    rewrite map_app, IH. f_equal. rewrite !map_map. apply map_ext. intros rb.
    clear IH. induction ra as [|x ra IH]; simpl. reflexivity.
    rewrite map_app, IH. f_equal. rewrite !map_map. apply map_ext. intros y. now rewrite f_mul. Qed.
  Lemma hom_scale s a : lm_scale mulU (f s) (F a) = F (lm_scale mulT s a).
  Proof. unfold lm_scale. rewrite !map_map. apply map_ext. intros r. rewrite !map_map. apply map_ext.
    intros x. now rewrite f_mul. Qed.
  Lemma hom_add a b : lm_add addU (F a) (F b) = F (lm_add addT a b).
  Proof. unfold lm_add. revert b; induction a as [|ra a IH]; intros [|rb b]; simpl; auto.
    rewrite IH. f_equal. clear IH. revert rb; induction ra as [|x ra IH]; intros [|y rb]; simpl; auto.
    now rewrite IH, f_add. Qed.
  Lemma hom_dag a : lm_dag zeroU conjU (F a) = F (lm_dag zeroT conjT a).
  Proof. unfold lm_dag. rewrite hom_ncols, map_map. apply map_ext. intros j. rewrite hom_col, !map_map.
    apply map_ext. intros x. now rewrite f_conj. Qed.
End Hom.

(* ---------- matrices of polynomials ---------- *)
Notation pmat := (list (list poly)).
Definition pm_mul : pmat -> pmat -> pmat := lm_mul pzero padd pmul.
Definition pm_kron : pmat -> pmat -> pmat := lm_kron pmul.
Definition pm_scale : poly -> pmat -> pmat := lm_scale pmul.
Definition pm_add : pmat -> pmat -> pmat := lm_add padd.
Definition pm_dag : pmat -> pmat := lm_dag pzero pconj.
Definition evalPM (cf : config) (rho : env) (m : pmat) : Cmat := map (map (evalP cf rho)) m.

(* shape of a rectangular matrix with at least one row *)
Definition shape {A} (m : list (list A)) : option (nat * nat) :=
  match m with
  | [] => None
  | r :: rest => if forallb (fun r' => Nat.eqb (length r') (length r)) rest then Some (length m, length r) else None
  end.
Definition shape_eqb (s t : nat * nat) : bool := Nat.eqb (fst s) (fst t) && Nat.eqb (snd s) (snd t).

Fixpoint optmap {A B} (g : A -> option B) (l : list A) : option (list B) :=
  match l with
  | [] => Some []
  | x :: r => match g x, optmap g r with Some y, Some ys => Some (y :: ys) | _, _ => None end
  end.

(* mnorm returns None on unsupported entries, ragged leaves, empty matrices and dimension mismatches *)
Fixpoint mnorm (cf : config) (m : mexpr) : option pmat :=
  match m with
  | MLeaf rows =>
      match optmap (optmap (norm cf)) rows with
      | Some x => match shape x with Some _ => Some x | None => None end
      | None => None end
  | MMul a b =>
      match mnorm cf a, mnorm cf b with
      | Some x, Some y =>
          match shape x, shape y with
          | Some (_, c), Some (r, _) => if Nat.eqb c r then Some (pm_mul x y) else None
          | _, _ => None end
      | _, _ => None end
  | MKron a b =>
      match mnorm cf a, mnorm cf b with
      | Some x, Some y => match shape x, shape y with Some _, Some _ => Some (pm_kron x y) | _, _ => None end
      | _, _ => None end
  | MScale c a =>
      match norm cf c, mnorm cf a with Some s, Some x => Some (pm_scale s x) | _, _ => None end
  | MAdd a b =>
      match mnorm cf a, mnorm cf b with
      | Some x, Some y =>
          match shape x, shape y with
          | Some s, Some t => if shape_eqb s t then Some (pm_add x y) else None
          | _, _ => None end
      | _, _ => None end
  | MDag a => match mnorm cf a with Some x => Some (pm_dag x) | None => None end
  end.

Fixpoint list_eqb {A} (eqb : A -> A -> bool) (a b : list A) : bool :=
  match a, b with
  | [], [] => true
  | x :: a', y :: b' => eqb x y && list_eqb eqb a' b'
  | _, _ => false
  end.
Definition pm_eqb (a b : pmat) : bool := list_eqb (list_eqb peqb) a b.
Definition mexpr_eqb (cf : config) (m1 m2 : mexpr) : bool :=
  match mnorm cf m1, mnorm cf m2 with Some a, Some b => pm_eqb a b | _, _ => false end.

(* diagnostics (not used by the soundness theorems): positions (row, column) and differences of the entries that differ *)
Definition pm_diff (a b : pmat) : list (nat * nat * poly) :=
  flat_map (fun irr => let '(i, (ra, rb)) := irr in
              flat_map (fun jpq => let '(j, (x, y)) := jpq in let d := psub x y in if pzerob d then [] else [(i, j, d)])
                       (combine (seq 0 (length ra)) (combine ra rb)))
           (combine (seq 0 (length a)) (combine a b)).
Definition mexpr_diff (cf : config) (m1 m2 : mexpr) : option (list (nat * nat * poly)) :=
  match mnorm cf m1, mnorm cf m2 with Some a, Some b => Some (pm_diff a b) | _, _ => None end.

(* ---------- soundness ---------- *)
Lemma optmap_sound {A B D} (g : A -> option B) (h : A -> D) (k : B -> D) :
  (forall x y, g x = Some y -> h x = k y) -> forall l l', optmap g l = Some l' -> map h l = map k l'.
Proof. intros Hg. induction l as [|x l IH]; intros l' H; cbn [optmap] in H.
  - injection H as <-. reflexivity.
  - destruct (g x) as [y|] eqn:E; [|discriminate]. destruct (optmap g l) as [ys|]; [|discriminate].
    injection H as <-. simpl. now rewrite (Hg _ _ E), (IH _ eq_refl). Qed.
Lemma list_eqb_sound {A D} (eqb : A -> A -> bool) (h : A -> D) :
  (forall x y, eqb x y = true -> h x = h y) -> forall a b, list_eqb eqb a b = true -> map h a = map h b.
Proof. intros He. induction a as [|x a IH]; intros [|y b] H; cbn [list_eqb] in H; try discriminate. reflexivity.
  apply andb_prop in H as [H1 H2]. simpl. now rewrite (He _ _ H1), (IH _ H2). Qed.

Section MatSound.
  Variables (cf : config) (rho : env).
  Notation ev := (evalP cf rho).

  Lemma pm_mul_sound a b : evalPM cf rho (pm_mul a b) = Cm_mul (evalPM cf rho a) (evalPM cf rho b).
  Proof. symmetry. apply (hom_mul pzero padd pmul (RtoC 0) Cplus Cmult ev).
    reflexivity. apply padd_sound. apply pmul_sound. Qed.
  Lemma pm_kron_sound a b : evalPM cf rho (pm_kron a b) = Cm_kron (evalPM cf rho a) (evalPM cf rho b).
  Proof. symmetry. apply (hom_kron pmul Cmult ev). apply pmul_sound. Qed.
  Lemma pm_scale_sound s a : evalPM cf rho (pm_scale s a) = Cm_scale (ev s) (evalPM cf rho a).
  Proof. symmetry. apply (hom_scale pmul Cmult ev). apply pmul_sound. Qed.
  Lemma pm_add_sound a b : evalPM cf rho (pm_add a b) = Cm_add (evalPM cf rho a) (evalPM cf rho b).
  Proof. symmetry. apply (hom_add padd Cplus ev). apply padd_sound. Qed.
  Lemma pm_dag_sound a : evalPM cf rho (pm_dag a) = Cm_dag (evalPM cf rho a).
  Proof. symmetry. apply (hom_dag pzero pconj (RtoC 0) Cconj ev). reflexivity. apply pconj_sound. Qed.

  Theorem mnorm_sound_at m : forall x, mnorm cf m = Some x -> interpM rho m = evalPM cf rho x.
  Proof. induction m; intros x H; cbn [mnorm] in H; cbn [interpM].
    - destruct (optmap (optmap (norm cf)) rows) as [y|] eqn:E; [|discriminate].
      destruct (shape y); [|discriminate]. injection H as <-. unfold evalPM.
      revert E. apply optmap_sound. intros r r'. apply optmap_sound. intros e q Hn. now apply norm_sound.
    - destruct (mnorm cf m1) as [a|]; [|discriminate]. destruct (mnorm cf m2) as [b|]; [|discriminate].
      destruct (shape a) as [[? c]|]; [|discriminate]. destruct (shape b) as [[r ?]|]; [|discriminate].
      destruct (Nat.eqb c r); [|discriminate]. injection H as <-.
      now rewrite pm_mul_sound, (IHm1 _ eq_refl), (IHm2 _ eq_refl).
    - destruct (mnorm cf m1) as [a|]; [|discriminate]. destruct (mnorm cf m2) as [b|]; [|discriminate].
      destruct (shape a); [|discriminate]. destruct (shape b); [|discriminate]. injection H as <-.
      now rewrite pm_kron_sound, (IHm1 _ eq_refl), (IHm2 _ eq_refl).
    - destruct (norm cf c) as [s|] eqn:E; [|discriminate]. destruct (mnorm cf m) as [a|]; [|discriminate].
      injection H as <-. now rewrite pm_scale_sound, (IHm _ eq_refl), (norm_sound _ _ _ E rho).
    - destruct (mnorm cf m1) as [a|]; [|discriminate]. destruct (mnorm cf m2) as [b|]; [|discriminate].
      destruct (shape a) as [s|]; [|discriminate]. destruct (shape b) as [t|]; [|discriminate].
      destruct (shape_eqb s t); [|discriminate]. injection H as <-.
      now rewrite pm_add_sound, (IHm1 _ eq_refl), (IHm2 _ eq_refl).
    - destruct (mnorm cf m) as [a|]; [|discriminate]. injection H as <-.
      now rewrite pm_dag_sound, (IHm _ eq_refl).
  Qed.
  Lemma pm_eqb_sound a b : pm_eqb a b = true -> evalPM cf rho a = evalPM cf rho b.
  Proof. unfold pm_eqb, evalPM. apply list_eqb_sound. apply list_eqb_sound. apply peqb_sound. Qed.
End MatSound.

Theorem mnorm_sound : forall cfg m x, mnorm cfg m = Some x -> forall rho, interpM rho m = evalPM cfg rho x.
Proof. intros cfg m x H rho. now apply mnorm_sound_at. Qed.

Theorem mexpr_eq_sound : forall cfg m1 m2, mexpr_eqb cfg m1 m2 = true -> forall rho, interpM rho m1 = interpM rho m2.
Proof. intros cfg m1 m2 H rho. unfold mexpr_eqb in H.
  destruct (mnorm cfg m1) as [a|] eqn:E1; [|discriminate]. destruct (mnorm cfg m2) as [b|] eqn:E2; [|discriminate].
  rewrite (mnorm_sound _ _ _ E1 rho), (mnorm_sound _ _ _ E2 rho). now apply pm_eqb_sound. Qed.
