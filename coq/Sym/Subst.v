(* Sym/Subst.v — abstraction of unsupported REAL-valued subterms by fresh Plain variables, justified once.
   If E1 = subst s e1 and E2 = subst s e2 where s maps some variables to real-valued expressions, an identity
   decided for e1, e2 (variables free) transfers to E1, E2. *)
From Coq Require Import Reals QArith Qreals List ZArith Lra Lia Bool.
From Coquelicot Require Import Coquelicot.
Require Import QG.Sym.Expr QG.Sym.Coeff QG.Sym.Poly QG.Sym.Norm QG.Sym.Sound QG.Sym.Mat.
Import ListNotations.

Notation subst_map := (list (nat * expr)).

Fixpoint lookup (s : subst_map) (v : nat) : option expr :=
  match s with [] => None | (w, t) :: r => if Nat.eqb v w then Some t else lookup r v end.

Fixpoint subst (s : subst_map) (e : expr) : expr :=
  match e with
  | EQ _ | EPi | EI => e
  | EVar v => match lookup s v with Some t => t | None => e end
  | EAdd a b => EAdd (subst s a) (subst s b)
  | ESub a b => ESub (subst s a) (subst s b)
  | EMul a b => EMul (subst s a) (subst s b)
  | EDiv a b => EDiv (subst s a) (subst s b)
  | ENeg a => ENeg (subst s a)
  | EPow a n => EPow (subst s a) n
  | ESin a => ESin (subst s a)
  | ECos a => ECos (subst s a)
  | EExp a => EExp (subst s a)
  | ESqrt a => ESqrt (subst s a)
  | EConj a => EConj (subst s a)
  end.

Fixpoint msubst (s : subst_map) (m : mexpr) : mexpr :=
  match m with
  | MLeaf rows => MLeaf (map (map (subst s)) rows)
  | MMul a b => MMul (msubst s a) (msubst s b)
  | MKron a b => MKron (msubst s a) (msubst s b)
  | MScale c a => MScale (subst s c) (msubst s a)
  | MAdd a b => MAdd (msubst s a) (msubst s b)
  | MDag a => MDag (msubst s a)
  end.

(* syntactic sufficient condition for being real-valued under interpC *)
Fixpoint is_real (e : expr) : bool :=
  match e with
  | EQ _ | EPi | EVar _ => true
  | EI => false
  | EAdd a b | ESub a b | EMul a b | EDiv a b => is_real a && is_real b
  | ENeg a | EPow a _ | EExp a | EConj a => is_real a
  | ESin _ | ECos _ | ESqrt _ => true
  end.
Definition all_real (s : subst_map) : bool := forallb (fun vt => is_real (snd vt)) s.

Definition env_of (s : subst_map) (rho : env) : env :=
  fun v => match lookup s v with Some t => Re (interpC rho t) | None => rho v end.

Lemma is_real_sound e : is_real e = true -> forall rho, Im (interpC rho e) = 0%R.
Proof. induction e; cbn [is_real interpC]; intros H rho; try discriminate; try reflexivity;
    try (apply andb_prop in H as [H1 H2]; specialize (IHe1 H1 rho); specialize (IHe2 H2 rho));
    try specialize (IHe H rho).
  - unfold Im, Cplus in *; simpl. rewrite IHe1, IHe2. ring.
  - unfold Im, Cminus, Cplus, Copp in *; simpl. rewrite IHe1, IHe2. ring.
  - unfold Im, Cmult in *; simpl. rewrite IHe1, IHe2. ring.
  - unfold Im, Cdiv, Cmult, Cinv in *; simpl. rewrite IHe1, IHe2. unfold Rdiv. ring.
  - unfold Im, Copp in *; simpl. rewrite IHe. ring.
  - induction n; cbn [Cpown]. reflexivity. unfold Im, Cmult in *; simpl. rewrite IHe, IHn. ring.
  - unfold Im in *. rewrite IHe. unfold Cmult, Cexp; simpl. rewrite sin_0. ring.
  - unfold Im, Cconj in *; simpl. rewrite IHe. ring.
Qed.

Lemma lookup_in s v t : lookup s v = Some t -> In (v, t) s.
Proof. induction s as [|[w u] r IH]; cbn [lookup]. discriminate.
  destruct (Nat.eqb_spec v w). intros H; injection H as <-; subst; now left. intros H; right; auto. Qed.

Lemma C_real_eta (z : C) : Im z = 0%R -> z = RtoC (Re z).
Proof. destruct z as [a b]; unfold Im, Re, RtoC; simpl. now intros ->. Qed.

Lemma interpC_subst s rho : all_real s = true -> forall e, interpC rho (subst s e) = interpC (env_of s rho) e.
Proof. intros Hs. induction e; cbn [subst interpC]; try congruence.
  unfold env_of. destruct (lookup s v) as [t|] eqn:E; [|reflexivity].
  apply C_real_eta, is_real_sound.
  apply lookup_in in E. unfold all_real in Hs. rewrite forallb_forall in Hs. apply (Hs _ E). Qed.

Lemma interpM_msubst s rho : all_real s = true -> forall m, interpM rho (msubst s m) = interpM (env_of s rho) m.
Proof. intros Hs. induction m; cbn [msubst interpM]; try congruence.
  - rewrite map_map. apply map_ext. intros r. rewrite map_map. apply map_ext. apply (interpC_subst _ _ Hs).
  - now rewrite IHm, (interpC_subst _ _ Hs). Qed.

Theorem expr_eq_sound_subst : forall cfg s e1 e2, all_real s = true -> expr_eqb cfg e1 e2 = true ->
  forall rho, interpC rho (subst s e1) = interpC rho (subst s e2).
Proof. intros cfg s e1 e2 Hs H rho. rewrite !(interpC_subst _ _ Hs). now apply (expr_eq_sound cfg). Qed.

Theorem mexpr_eq_sound_subst : forall cfg s m1 m2, all_real s = true -> mexpr_eqb cfg m1 m2 = true ->
  forall rho, interpM rho (msubst s m1) = interpM rho (msubst s m2).
Proof. intros cfg s m1 m2 Hs H rho. rewrite !(interpM_msubst _ _ Hs). now apply (mexpr_eq_sound cfg). Qed.
