(* Sym/Poly.v — sparse Laurent polynomials over K in phase atoms (integer exponents) and plain variables
   (natural exponents).  evalP is a plain sum over the list, so soundness needs no sortedness invariant. *)
From Coq Require Import Reals QArith Qreals List ZArith NArith Lra Lia Bool.
From Coquelicot Require Import Coquelicot.
Require Import QG.Sym.Expr QG.Sym.Coeff.
Import ListNotations.
Open Scope C_scope.

(* ---------- sorted association lists nat -> V with "add and drop zeros" insertion ---------- *)
Section Assoc.
  Variable V : Type.
  Variables (vadd : V -> V -> V) (vzerob : V -> bool) (vcmp : V -> V -> comparison).

  Fixpoint ains (v : nat) (x : V) (l : list (nat * V)) : list (nat * V) :=
    match l with
    | [] => if vzerob x then [] else [(v, x)]
    | (w, y) :: r =>
        match Nat.compare v w with
        | Lt => if vzerob x then l else (v, x) :: l
        | Eq => let s := vadd x y in if vzerob s then r else (v, s) :: r
        | Gt => (w, y) :: ains v x r
        end
    end.
  Definition amerge (a b : list (nat * V)) : list (nat * V) :=
    fold_right (fun vx acc => ains (fst vx) (snd vx) acc) b a.
  Fixpoint acmp (a b : list (nat * V)) : comparison :=
    match a, b with
    | [], [] => Eq | [], _ :: _ => Lt | _ :: _, [] => Gt
    | (v, x) :: a', (w, y) :: b' =>
        match Nat.compare v w with
        | Eq => match vcmp x y with Eq => acmp a' b' | c => c end
        | c => c
        end
    end.

  Hypothesis vcmp_eq : forall x y, vcmp x y = Eq -> x = y.
  Lemma acmp_eq a b : acmp a b = Eq -> a = b.
  Proof. revert b; induction a as [|[v x] a IH]; intros [|[w y] b]; simpl; try discriminate; auto.
    destruct (Nat.compare v w) eqn:E1; try discriminate. destruct (vcmp x y) eqn:E2; try discriminate.
    intros H. apply Nat.compare_eq in E1. apply vcmp_eq in E2. apply IH in H. now subst. Qed.

  Variable ev : nat -> V -> C.
  Hypothesis ev_add : forall v x y, ev v (vadd x y) = ev v x * ev v y.
  Hypothesis ev_zero : forall v x, vzerob x = true -> ev v x = 1.
  Fixpoint aeval (l : list (nat * V)) : C := match l with [] => 1 | (v, x) :: r => ev v x * aeval r end.

  Lemma ains_sound v x l : aeval (ains v x l) = ev v x * aeval l.
  Proof. induction l as [|[w y] r IH]; cbn [ains].
    - destruct (vzerob x) eqn:E; simpl. rewrite (ev_zero _ _ E). ring. reflexivity.
    - destruct (Nat.compare v w) eqn:E1.
      + apply Nat.compare_eq in E1; subst w. cbv zeta.
        destruct (vzerob (vadd x y)) eqn:E; cbn [aeval].
        * apply (ev_zero v) in E. rewrite ev_add in E. rewrite Cmult_assoc, E. ring.
        * rewrite ev_add. ring.
      + destruct (vzerob x) eqn:E; cbn [aeval]. rewrite (ev_zero _ _ E). ring. reflexivity.
      + cbn [aeval]. rewrite IH. ring.
  Qed.
  Lemma amerge_sound a b : aeval (amerge a b) = aeval a * aeval b.
  Proof. unfold amerge. induction a as [|[v x] a IH]; cbn [fold_right aeval fst snd]. ring.
    rewrite ains_sound, IH. ring. Qed.
End Assoc.

(* ---------- monomials ---------- *)
Notation phmono := (list (nat * Z)).      (* phase atoms u_v = e^{i v / d_v}, exponents in Z *)
Notation plmono := (list (nat * N)).      (* plain indeterminates, exponents in N *)
Notation mono := (phmono * plmono)%type.

Definition vden (cf : config) (v : nat) : positive := match cf v with Phase d => d | Plain => 1%positive end.
(* value of the phase atom of variable v: e^{i rho(v) / d_v} *)
Definition atomC (cf : config) (rho : env) (v : nat) : C := Cexp (rho v / IZR (Zpos (vden cf v))).
(* atom^k, for any integer k *)
Definition evPh (cf : config) (rho : env) (v : nat) (k : Z) : C := Cexp (IZR k * (rho v / IZR (Zpos (vden cf v)))).
Definition evPl (rho : env) (v : nat) (n : N) : C := Cpown (RtoC (rho v)) (N.to_nat n).

Definition zzerob (k : Z) : bool := Z.eqb k 0.
Definition nzerob (n : N) : bool := N.eqb n 0.
Definition ph_ins := ains Z Z.add zzerob.
Definition pl_ins := ains N N.add nzerob.
Definition ph_merge := amerge Z Z.add zzerob.
Definition pl_merge := amerge N N.add nzerob.
Definition evalPh (cf : config) (rho : env) : phmono -> C := aeval Z (evPh cf rho).
Definition evalPl (rho : env) : plmono -> C := aeval N (evPl rho).
Definition evalM (cf : config) (rho : env) (m : mono) : C := evalPh cf rho (fst m) * evalPl rho (snd m).

Definition mone : mono := ([], []).
Definition mmul (a b : mono) : mono := (ph_merge (fst a) (fst b), pl_merge (snd a) (snd b)).
Definition ph_neg (l : phmono) : phmono := map (fun vk => (fst vk, Z.opp (snd vk))) l.
Definition mconj (m : mono) : mono := (ph_neg (fst m), snd m).
Definition mcmp (a b : mono) : comparison :=
  match acmp Z Z.compare (fst a) (fst b) with Eq => acmp N N.compare (snd a) (snd b) | c => c end.

Lemma evPh_add cf rho v x y : evPh cf rho v (x + y) = evPh cf rho v x * evPh cf rho v y.
Proof. unfold evPh. rewrite plus_IZR, Rmult_plus_distr_r. apply Cexp_add. Qed.
Lemma evPh_zero cf rho v x : zzerob x = true -> evPh cf rho v x = 1.
Proof. unfold zzerob, evPh. intros H. apply Z.eqb_eq in H; subst. rewrite Rmult_0_l. apply Cexp_0. Qed.
Lemma evPh_1 cf rho v : evPh cf rho v 1 = atomC cf rho v.
Proof. unfold evPh, atomC. now rewrite Rmult_1_l. Qed.
Lemma evPh_nat cf rho v n : evPh cf rho v (Z.of_nat n) = Cpown (atomC cf rho v) n.
Proof. unfold evPh, atomC. now rewrite Cexp_pown, INR_IZR_INZ. Qed.
Lemma evPl_add rho v x y : evPl rho v (x + y) = evPl rho v x * evPl rho v y.
Proof. unfold evPl. rewrite N2Nat.inj_add. apply Cpown_add. Qed.
Lemma evPl_zero rho v x : nzerob x = true -> evPl rho v x = 1.
Proof. unfold nzerob, evPl. intros H. apply N.eqb_eq in H; subst. reflexivity. Qed.

Lemma ph_ins_sound cf rho v k l : evalPh cf rho (ph_ins v k l) = evPh cf rho v k * evalPh cf rho l.
Proof. apply ains_sound. apply evPh_add. apply evPh_zero. Qed.
Lemma pl_ins_sound rho v k l : evalPl rho (pl_ins v k l) = evPl rho v k * evalPl rho l.
Proof. apply ains_sound. apply evPl_add. apply evPl_zero. Qed.
Lemma evalM_one cf rho : evalM cf rho mone = 1.
Proof. unfold evalM, mone; simpl. ring. Qed.
Lemma mmul_sound cf rho a b : evalM cf rho (mmul a b) = evalM cf rho a * evalM cf rho b.
Proof. unfold evalM, mmul, evalPh, evalPl, ph_merge, pl_merge; cbn [fst snd].
  rewrite (amerge_sound Z Z.add zzerob (evPh cf rho) (evPh_add cf rho) (evPh_zero cf rho)).
  rewrite (amerge_sound N N.add nzerob (evPl rho) (evPl_add rho) (evPl_zero rho)). ring. Qed.
Lemma mcmp_eq a b : mcmp a b = Eq -> a = b.
Proof. unfold mcmp. destruct a as [a1 a2], b as [b1 b2]; cbn [fst snd].
  destruct (acmp Z Z.compare a1 b1) eqn:E; try discriminate. intros H.
  apply (acmp_eq Z Z.compare Z.compare_eq) in E. apply (acmp_eq N N.compare N.compare_eq) in H. now subst. Qed.
Lemma ph_neg_sound cf rho l : evalPh cf rho (ph_neg l) = Cconj (evalPh cf rho l).
Proof. unfold evalPh. induction l as [|[v k] l IH]; cbn [ph_neg map aeval fst snd].
  now rewrite Cconj_R. fold (ph_neg l). rewrite IH, Cconj_mult. f_equal.
  unfold evPh. rewrite Cexp_conj, opp_IZR. f_equal. ring. Qed.
Lemma evalPl_conj rho l : Cconj (evalPl rho l) = evalPl rho l.
Proof. unfold evalPl. induction l as [|[v k] l IH]; cbn [aeval]. apply Cconj_R.
  rewrite Cconj_mult, IH. unfold evPl. now rewrite Cconj_pown, Cconj_R. Qed.
Lemma mconj_sound cf rho m : evalM cf rho (mconj m) = Cconj (evalM cf rho m).
Proof. unfold evalM, mconj; cbn [fst snd]. now rewrite ph_neg_sound, Cconj_mult, evalPl_conj. Qed.
Lemma ph_neg_inv cf rho l : evalPh cf rho l * evalPh cf rho (ph_neg l) = 1.
Proof. unfold evalPh. induction l as [|[v k] l IH]; cbn [ph_neg map aeval fst snd]. ring.
  fold (ph_neg l).
  replace (evPh cf rho v k * aeval Z (evPh cf rho) l * (evPh cf rho v (- k) * aeval Z (evPh cf rho) (ph_neg l)))
    with ((evPh cf rho v k * evPh cf rho v (- k)) * (aeval Z (evPh cf rho) l * aeval Z (evPh cf rho) (ph_neg l))) by ring.
  rewrite IH, <- evPh_add, Z.add_opp_diag_r, evPh_zero by reflexivity. ring. Qed.

(* ---------- polynomials ---------- *)
Notation poly := (list (mono * K)).

Fixpoint evalP (cf : config) (rho : env) (p : poly) : C :=
  match p with [] => 0 | (m, c) :: r => kevalC c * evalM cf rho m + evalP cf rho r end.

Fixpoint padd1 (m : mono) (c : K) (p : poly) : poly :=
  match p with
  | [] => if kzerob c then [] else [(m, c)]
  | (m', c') :: r =>
      match mcmp m m' with
      | Eq => let s := kadd c c' in if kzerob s then r else (m, s) :: r
      | Lt => if kzerob c then p else (m, c) :: p
      | Gt => (m', c') :: padd1 m c r
      end
  end.
Definition padd (a b : poly) : poly := fold_left (fun acc mc => padd1 (fst mc) (snd mc) acc) a b.
Definition popp (a : poly) : poly := map (fun mc => (fst mc, kopp (snd mc))) a.
Definition psub (a b : poly) : poly := padd a (popp b).
Definition pmul1 (m : mono) (c : K) (b acc : poly) : poly :=
  fold_left (fun acc' mc' => padd1 (mmul m (fst mc')) (kmul c (snd mc')) acc') b acc.
Definition pmul (a b : poly) : poly := fold_left (fun acc mc => pmul1 (fst mc) (snd mc) b acc) a [].
Definition pconst (c : K) : poly := padd1 mone c [].
Definition pzero : poly := [].
Definition pone : poly := pconst kone.
Definition pI : poly := pconst ki.
Definition pQ (q : Q) : poly := pconst (kconst q).
Fixpoint ppow (a : poly) (n : nat) : poly := match n with O => pone | S k => pmul a (ppow a k) end.
Definition pconj (a : poly) : poly := fold_left (fun acc mc => padd1 (mconj (fst mc)) (kconj (snd mc)) acc) a [].
Definition pplain (v : nat) : poly := [(([], [(v, 1%N)]), kone)].
Definition patom (v : nat) (k : Z) : poly := padd1 (ph_ins v k [], []) kone [].
(* inverse of a single monomial without plain variables and with invertible coefficient *)
Definition pinv (a : poly) : option poly :=
  match a with
  | [((ph, []), c)] => match kinv c with Some d => Some [((ph_neg ph, []), d)] | None => None end
  | _ => None
  end.
Definition pzerob (a : poly) : bool := forallb (fun mc => kzerob (snd mc)) a.
Definition peqb (a b : poly) : bool := pzerob (psub a b).

Section PolySound.
  Variables (cf : config) (rho : env).
  Notation ev := (evalP cf rho).
  Notation evm := (evalM cf rho).

  Lemma padd1_sound m c p : ev (padd1 m c p) = kevalC c * evm m + ev p.
  Proof. induction p as [|[m' c'] r IH]; cbn [padd1].
    - destruct (kzerob c) eqn:E; cbn [evalP]. rewrite (kzerob_sound _ E). ring. reflexivity.
    - destruct (mcmp m m') eqn:E1.
      + apply mcmp_eq in E1; subst m'. cbv zeta. destruct (kzerob (kadd c c')) eqn:E; cbn [evalP].
        * apply kzerob_sound in E. rewrite kadd_sound in E.
          replace (kevalC c * evm m + (kevalC c' * evm m + ev r)) with ((kevalC c + kevalC c') * evm m + ev r) by ring.
          rewrite E. ring.
        * rewrite kadd_sound. ring.
      + destruct (kzerob c) eqn:E; cbn [evalP]. rewrite (kzerob_sound _ E). ring. reflexivity.
      + cbn [evalP]. rewrite IH. ring.
  Qed.
  Lemma padd_sound a b : ev (padd a b) = ev a + ev b.
  Proof. unfold padd. revert b; induction a as [|[m c] a IH]; intros b; cbn [fold_left evalP fst snd]. ring.
    rewrite IH, padd1_sound. ring. Qed.
  Lemma popp_sound a : ev (popp a) = - ev a.
  Proof. induction a as [|[m c] a IH]; cbn [popp map evalP fst snd]. ring.
    fold (popp a). rewrite IH, kopp_sound. ring. Qed.
  Lemma psub_sound a b : ev (psub a b) = ev a - ev b.
  Proof. unfold psub. rewrite padd_sound, popp_sound. ring. Qed.
  Lemma pmul1_sound m c b acc : ev (pmul1 m c b acc) = ev acc + kevalC c * evm m * ev b.
  Proof. unfold pmul1. revert acc; induction b as [|[m' c'] b IH]; intros acc; cbn [fold_left evalP fst snd]. ring.
    rewrite IH, padd1_sound, kmul_sound, mmul_sound. ring. Qed.
  Lemma pmul_aux a b acc :
    ev (fold_left (fun acc mc => pmul1 (fst mc) (snd mc) b acc) a acc) = ev acc + ev a * ev b.
  Proof. revert acc; induction a as [|[m c] a IH]; intros acc; cbn [fold_left evalP fst snd]. ring.
    rewrite IH, pmul1_sound. ring. Qed.
  Lemma pmul_sound a b : ev (pmul a b) = ev a * ev b.
  Proof. unfold pmul. rewrite pmul_aux. cbn [evalP]. ring. Qed.
  Lemma pconst_sound c : ev (pconst c) = kevalC c.
  Proof. unfold pconst. rewrite padd1_sound, evalM_one. cbn [evalP]. ring. Qed.
  Lemma pzero_sound' : ev pzero = 0. Proof. reflexivity. Qed.
  Lemma pone_sound : ev pone = 1. Proof. unfold pone. now rewrite pconst_sound, kone_sound. Qed.
  Lemma pI_sound : ev pI = Ci. Proof. unfold pI. now rewrite pconst_sound, ki_sound. Qed.
  Lemma pQ_sound q : ev (pQ q) = RtoC (Q2R q). Proof. unfold pQ. now rewrite pconst_sound, kconst_sound. Qed.
  Lemma ppow_sound a n : ev (ppow a n) = Cpown (ev a) n.
  Proof. induction n; cbn [ppow Cpown]. apply pone_sound. now rewrite pmul_sound, IHn. Qed.
  Lemma pconj_aux a acc :
    ev (fold_left (fun acc mc => padd1 (mconj (fst mc)) (kconj (snd mc)) acc) a acc) = ev acc + Cconj (ev a).
  Proof. revert acc; induction a as [|[m c] a IH]; intros acc; cbn [fold_left evalP fst snd].
    rewrite Cconj_R. ring.
    rewrite IH, padd1_sound, kconj_sound, mconj_sound, Cconj_plus, Cconj_mult. ring. Qed.
  Lemma pconj_sound a : ev (pconj a) = Cconj (ev a).
  Proof. unfold pconj. rewrite pconj_aux. cbn [evalP]. ring. Qed.
  Lemma pplain_sound v : ev (pplain v) = RtoC (rho v).
  Proof. unfold pplain. cbn [evalP]. rewrite kone_sound. unfold evalM, evalPh, evalPl, evPl.
    cbn [fst snd aeval N.to_nat]. change (Pos.to_nat 1) with 1%nat. cbn [Cpown]. ring. Qed.
  Lemma patom_sound v k : ev (patom v k) = evPh cf rho v k.
  Proof. unfold patom. rewrite padd1_sound. unfold evalM; cbn [fst snd]. rewrite ph_ins_sound, kone_sound.
    cbn [evalP evalPh evalPl aeval]. ring. Qed.
  Lemma pinv_sound a b : pinv a = Some b -> ev a * ev b = 1.
  Proof. unfold pinv. destruct a as [|[[ph [|x pl]] c] [|y a]]; try discriminate.
    destruct (kinv c) as [d|] eqn:E; [|discriminate]. intros H; injection H as <-.
    apply kinv_sound in E. cbn [evalP]. unfold evalM; cbn [fst snd evalPl aeval].
    pose proof (ph_neg_inv cf rho ph) as Hn.
    replace ((kevalC c * (evalPh cf rho ph * 1) + 0) * (kevalC d * (evalPh cf rho (ph_neg ph) * 1) + 0))
      with ((kevalC c * kevalC d) * (evalPh cf rho ph * evalPh cf rho (ph_neg ph))) by ring.
    rewrite E, Hn. ring. Qed.
  Lemma pzerob_sound a : pzerob a = true -> ev a = 0.
  Proof. induction a as [|[m c] a IH]; cbn [pzerob forallb evalP snd]. reflexivity.
    intros H. apply andb_prop in H as [H1 H2]. rewrite (kzerob_sound _ H1), IH by exact H2. ring. Qed.
  Lemma peqb_sound a b : peqb a b = true -> ev a = ev b.
  Proof. unfold peqb. intros H. apply pzerob_sound in H. rewrite psub_sound in H.
    replace (ev a) with ((ev a - ev b) + ev b) by ring. rewrite H. ring. Qed.
End PolySound.
