(* Decidable syntactic equality on traced expressions (used where a property is about WHICH argument is handed
   where: C06, C08). Independent of the semantic normaliser. *)
From Coq Require Import QArith List Bool Arith ZArith.
Require Import QG.Sym.Expr.
Import ListNotations.

Definition q_beq (a b : Q) : bool := Z.eqb (Qnum a) (Qnum b) && Pos.eqb (Qden a) (Qden b).
Lemma q_beq_eq a b : q_beq a b = true -> a = b.
Proof.
  destruct a as [n d], b as [n' d']. unfold q_beq. simpl. intros H. apply andb_prop in H as [H1 H2].
  apply Z.eqb_eq in H1. apply Pos.eqb_eq in H2. subst. reflexivity.
Qed.

Fixpoint expr_beq (a b : expr) : bool :=
  match a, b with
  | EQ p, EQ q => q_beq p q
  | EPi, EPi | EI, EI => true
  | EVar v, EVar w => Nat.eqb v w
  | EAdd a1 a2, EAdd b1 b2 | ESub a1 a2, ESub b1 b2 | EMul a1 a2, EMul b1 b2 | EDiv a1 a2, EDiv b1 b2 =>
      expr_beq a1 b1 && expr_beq a2 b2
  | ENeg a1, ENeg b1 | ESin a1, ESin b1 | ECos a1, ECos b1 | EExp a1, EExp b1 | ESqrt a1, ESqrt b1 | EConj a1, EConj b1 =>
      expr_beq a1 b1
  | EPow a1 n, EPow b1 m => expr_beq a1 b1 && Nat.eqb n m
  | _, _ => false
  end.

Lemma expr_beq_eq a : forall b, expr_beq a b = true -> a = b.
Proof.
  induction a; intros b H; destruct b; simpl in H; try discriminate; try reflexivity.
  - f_equal. now apply q_beq_eq.
  - f_equal. now apply Nat.eqb_eq.
  - apply andb_prop in H as [H1 H2]. f_equal; auto.
  - apply andb_prop in H as [H1 H2]. f_equal; auto.
  - apply andb_prop in H as [H1 H2]. f_equal; auto.
  - apply andb_prop in H as [H1 H2]. f_equal; auto.
  - f_equal; auto.
  - apply andb_prop in H as [H1 H2]. f_equal; auto. now apply Nat.eqb_eq.
  - f_equal; auto.
  - f_equal; auto.
  - f_equal; auto.
  - f_equal; auto.
  - f_equal; auto.
Qed.

Fixpoint exprs_beq (a b : list expr) : bool :=
  match a, b with
  | [], [] => true
  | x :: a', y :: b' => expr_beq x y && exprs_beq a' b'
  | _, _ => false
  end.
Lemma exprs_beq_eq a : forall b, exprs_beq a b = true -> a = b.
Proof.
  induction a as [|x a IH]; intros [|y b] H; simpl in H; try discriminate; auto.
  apply andb_prop in H as [H1 H2]. f_equal. now apply expr_beq_eq. now apply IH.
Qed.
