(* Sym/Sound.v — soundness of the normaliser with respect to Coquelicot's complex numbers. *)
From Coq Require Import Reals QArith Qreals List ZArith NArith Lra Lia Bool.
From Coquelicot Require Import Coquelicot.
Require Import QG.Sym.Expr QG.Sym.Coeff QG.Sym.Poly QG.Sym.Norm.
Import ListNotations.
Open Scope R_scope.

(* ---------- rationals ---------- *)
Lemma Q2R_red q : Q2R (Qred q) = Q2R q. Proof. apply Qeq_eqR, Qred_correct. Qed.
Lemma Q2R_0 : Q2R 0 = 0. Proof. unfold Q2R; simpl; lra. Qed.
Lemma Q2R_1 : Q2R 1 = 1. Proof. unfold Q2R; simpl; lra. Qed.
Lemma Q2R_m1 : Q2R (-1) = -1. Proof. unfold Q2R; simpl; lra. Qed.
Lemma Q2R_half : Q2R (1 # 2) = / 2. Proof. unfold Q2R; simpl; lra. Qed.
Lemma Q2R_8 : Q2R 8 = 8. Proof. unfold Q2R; simpl; lra. Qed.
Lemma Q2R_Z z : Q2R (z # 1) = IZR z. Proof. unfold Q2R; simpl. field. Qed.
Lemma Qeqb0_sound q : Qeq_bool q 0 = true -> Q2R q = 0.
Proof. intros H. apply Qeq_bool_eq in H. rewrite (Qeq_eqR _ _ H). apply Q2R_0. Qed.
Lemma Qeqb0_neq q : Qeq_bool q 0 = false -> Q2R q <> 0.
Proof. intros H E. apply Qeq_bool_neq in H. apply H. apply eqR_Qeq. now rewrite E, Q2R_0. Qed.
Lemma q_to_Z_sound q z : q_to_Z q = Some z -> Q2R q = IZR z.
Proof. unfold q_to_Z. destruct (Pos.eqb_spec (Qden (Qred q)) 1) as [E|]; [|discriminate].
  intros H; injection H as <-. rewrite <- (Q2R_red q). destruct (Qred q) as [n d]; simpl in *. subst d. apply Q2R_Z. Qed.

(* ---------- linear forms ---------- *)
Fixpoint evalV (rho : env) (l : list (nat * Q)) : R :=
  match l with [] => 0 | (v, c) :: r => Q2R c * rho v + evalV rho r end.
Definition evalL (rho : env) (a : lform) : R := Q2R (lf_q a) + Q2R (lf_pi a) * PI + evalV rho (lf_v a).

Section LF.
  Variable rho : env.
  Lemma lv_ins_sound v c l : evalV rho (lv_ins v c l) = Q2R c * rho v + evalV rho l.
  Proof. induction l as [|[w d] r IH]; cbn [lv_ins evalV]. reflexivity.
    destruct (Nat.compare v w) eqn:E; cbn [evalV].
    - apply Nat.compare_eq in E; subst. rewrite Q2R_red, Q2R_plus. ring.
    - reflexivity.
    - rewrite IH. ring. Qed.
  Lemma lv_add_sound a b : evalV rho (lv_add a b) = evalV rho a + evalV rho b.
  Proof. unfold lv_add. induction a as [|[v c] a IH]; cbn [fold_right evalV fst snd]. ring.
    rewrite lv_ins_sound, IH. ring. Qed.
  Lemma lv_scale_sound q a : evalV rho (lv_scale q a) = Q2R q * evalV rho a.
  Proof. induction a as [|[v c] a IH]; cbn [lv_scale map evalV fst snd]. ring.
    fold (lv_scale q a). rewrite IH, Q2R_red, Q2R_mult. ring. Qed.
  Lemma lv_zerob_sound a : lv_zerob a = true -> evalV rho a = 0.
  Proof. induction a as [|[v c] a IH]; cbn [lv_zerob forallb evalV snd]. reflexivity.
    intros H. apply andb_prop in H as [H1 H2]. rewrite (Qeqb0_sound _ H1), (IH H2). ring. Qed.
  Lemma lzero_sound : evalL rho lzero = 0.
  Proof. unfold evalL, lzero; simpl. rewrite Q2R_0. ring. Qed.
  Lemma lconst_sound q : evalL rho (lconst q) = Q2R q.
  Proof. unfold evalL, lconst; simpl. rewrite Q2R_red, Q2R_0. ring. Qed.
  Lemma lpi_sound : evalL rho lpi = PI.
  Proof. unfold evalL, lpi; simpl. rewrite Q2R_0, Q2R_1. ring. Qed.
  Lemma lvar_sound v : evalL rho (lvar v) = rho v.
  Proof. unfold evalL, lvar; simpl. rewrite Q2R_0, Q2R_1. ring. Qed.
  Lemma ladd_sound a b : evalL rho (ladd a b) = evalL rho a + evalL rho b.
  Proof. unfold evalL, ladd; cbn [lf_q lf_pi lf_v]. rewrite !Q2R_red, !Q2R_plus, lv_add_sound. ring. Qed.
  Lemma lscale_sound q a : evalL rho (lscale q a) = Q2R q * evalL rho a.
  Proof. unfold evalL, lscale; cbn [lf_q lf_pi lf_v]. rewrite !Q2R_red, !Q2R_mult, lv_scale_sound. ring. Qed.
  Lemma lneg_sound a : evalL rho (lscale (-1) a) = - evalL rho a.
  Proof. rewrite lscale_sound, Q2R_m1. ring. Qed.
  Lemma lis_const_sound a : lis_const a = true -> evalL rho a = Q2R (lf_q a).
  Proof. unfold lis_const, evalL. intros H. apply andb_prop in H as [H1 H2].
    rewrite (Qeqb0_sound _ H1), (lv_zerob_sound _ H2). ring. Qed.
  Lemma lis_zero_sound a : lis_zero a = true -> evalL rho a = 0.
  Proof. unfold lis_zero. intros H. apply andb_prop in H as [H1 H2].
    rewrite (lis_const_sound _ H2). now apply Qeqb0_sound. Qed.

  Lemma Cdiv_real (x y r : R) : r <> 0 -> Cdiv (x, y) (r, 0) = (x / r, y / r).
  Proof. intros Hr. unfold Cdiv, Cinv, Cmult; simpl. f_equal; field; auto. Qed.

  Lemma cl_sound e : forall ar ai, cl e = Some (ar, ai) -> interpC rho e = (evalL rho ar, evalL rho ai).
  Proof.
    induction e; intros ar ai H; cbn [cl] in H; cbn [interpC]; try discriminate.
    - (* EQ *) injection H as <- <-. now rewrite lconst_sound, lzero_sound.
    - (* EPi *) injection H as <- <-. now rewrite lpi_sound, lzero_sound.
    - (* EI *) injection H as <- <-. rewrite lconst_sound, lzero_sound, Q2R_1. reflexivity.
    - (* EVar *) injection H as <- <-. now rewrite lvar_sound, lzero_sound.
    - (* EAdd *) destruct (cl e1) as [[a1 a2]|]; [|discriminate]. destruct (cl e2) as [[b1 b2]|]; [|discriminate].
      injection H as <- <-. rewrite (IHe1 _ _ eq_refl), (IHe2 _ _ eq_refl), !ladd_sound. reflexivity.
    - (* ESub *) destruct (cl e1) as [[a1 a2]|]; [|discriminate]. destruct (cl e2) as [[b1 b2]|]; [|discriminate].
      injection H as <- <-. rewrite (IHe1 _ _ eq_refl), (IHe2 _ _ eq_refl), !ladd_sound, !lneg_sound. reflexivity.
    - (* EMul *) destruct (cl e1) as [[a1 a2]|]; [|discriminate]. destruct (cl e2) as [[b1 b2]|]; [|discriminate].
      rewrite (IHe1 _ _ eq_refl), (IHe2 _ _ eq_refl).
      destruct (lis_const a1 && lis_const a2) eqn:E1.
      + apply andb_prop in E1 as [E1 E2]. injection H as <- <-.
        rewrite !ladd_sound, !lscale_sound, Q2R_opp, (lis_const_sound _ E1), (lis_const_sound _ E2).
        unfold Cmult; simpl. f_equal; ring.
      + destruct (lis_const b1 && lis_const b2) eqn:E2; [|discriminate].
        apply andb_prop in E2 as [E2 E3]. injection H as <- <-.
        rewrite !ladd_sound, !lscale_sound, Q2R_opp, (lis_const_sound _ E2), (lis_const_sound _ E3).
        unfold Cmult; simpl. f_equal; ring.
    - (* EDiv *) destruct (cl e1) as [[a1 a2]|]; [|discriminate]. destruct (cl e2) as [[b1 b2]|]; [|discriminate].
      rewrite (IHe1 _ _ eq_refl), (IHe2 _ _ eq_refl).
      destruct (lis_const b1 && lis_zero b2 && negb (Qeq_bool (lf_q b1) 0)) eqn:E; [|discriminate].
      apply andb_prop in E as [E E3]. apply andb_prop in E as [E1 E2]. injection H as <- <-.
      apply negb_true_iff in E3. pose proof (Qeqb0_neq _ E3) as Hq. apply Qeq_bool_neq in E3.
      rewrite (lis_const_sound _ E1), (lis_zero_sound _ E2), Cdiv_real by exact Hq.
      rewrite !lscale_sound, Q2R_inv by exact E3. f_equal; field; exact Hq.
    - (* ENeg *) destruct (cl e) as [[a1 a2]|]; [|discriminate]. injection H as <- <-.
      rewrite (IHe _ _ eq_refl), !lneg_sound. reflexivity.
    - (* EConj *) destruct (cl e) as [[a1 a2]|]; [|discriminate]. injection H as <- <-.
      rewrite (IHe _ _ eq_refl), lneg_sound. reflexivity.
  Qed.
End LF.

(* ---------- phases ---------- *)
Open Scope C_scope.

Section NormSound.
  Variables (cf : config) (rho : env).

  Lemma phase_vars_sound l : forall m, phase_vars cf l = Some m -> evalPh cf rho m = Cexp (evalV rho l).
  Proof. induction l as [|[v c] r IH]; intros m H; cbn [phase_vars evalV] in *.
    - injection H as <-. unfold evalPh; simpl. now rewrite Cexp_0.
    - destruct (Qeq_bool c 0) eqn:E0.
      + rewrite (Qeqb0_sound _ E0). rewrite (IH _ H). f_equal. ring.
      + destruct (cf v) as [|d] eqn:Ek; [discriminate|].
        destruct (q_to_Z (c * (Z.pos d # 1))) as [z|] eqn:Ez; [|discriminate].
        destruct (phase_vars cf r) as [m'|]; [|discriminate]. injection H as <-.
        rewrite ph_ins_sound, (IH _ eq_refl), Cexp_add. f_equal.
        unfold evPh, vden. rewrite Ek. f_equal.
        apply q_to_Z_sound in Ez. rewrite Q2R_mult, Q2R_Z in Ez. rewrite <- Ez. field.
        apply IZR_neq. discriminate.
  Qed.
  Lemma phase_sound a p : phase cf a = Some p -> evalP cf rho p = Cexp (evalL rho a).
  Proof. unfold phase. destruct (Qeq_bool (lf_q a) 0) eqn:E0; [|discriminate]. cbn [negb].
    destruct (q_to_Z (8 * lf_pi a)) as [k|] eqn:Ek; [|discriminate].
    destruct (phase_vars cf (lf_v a)) as [m|] eqn:Em; [|discriminate]. intros H.
    assert (E : padd1 (m, []) (kxz k) [] = p) by congruence. rewrite <- E. clear E H.
    rewrite padd1_sound, kxz_sound. cbn [evalP]. unfold evalM; cbn [fst snd].
    rewrite (phase_vars_sound _ _ Em). unfold evalPl; cbn [aeval].
    apply q_to_Z_sound in Ek. rewrite Q2R_mult, Q2R_8 in Ek. unfold evalL. rewrite (Qeqb0_sound _ E0).
    replace (0 + Q2R (lf_pi a) * PI + evalV rho (lf_v a))%R with (IZR k * (PI / 8) + evalV rho (lf_v a))%R
      by (rewrite <- Ek; field).
    rewrite Cexp_add. ring. Qed.

  (* ---------- square roots ---------- *)
  Lemma qsqrt_sound q r : qsqrt q = Some r -> (0 <= Q2R r /\ Q2R r * Q2R r = Q2R q)%R.
  Proof. unfold qsqrt. set (r0 := (_ # _)%Q).
    destruct (Qeq_bool (r0 * r0) q && Qle_bool 0 r0) eqn:E; [|discriminate].
    apply andb_prop in E as [E1 E2]. intros H. assert (Er : Qred r0 = r) by congruence.
    rewrite <- Er, Q2R_red. clear H Er. split.
    - apply Qle_bool_imp_le in E2. apply Qle_Rle in E2. now rewrite Q2R_0 in E2.
    - apply Qeq_bool_eq in E1. apply Qeq_eqR in E1. now rewrite Q2R_mult in E1. Qed.
  Lemma psqrt_sound q p : psqrt q = Some p -> evalP cf rho p = RtoC (sqrt (Q2R q)).
  Proof. unfold psqrt. destruct (qsqrt q) as [r|] eqn:E1.
    - intros H; injection H as <-. apply qsqrt_sound in E1 as [H0 H1].
      rewrite pQ_sound, <- H1. now rewrite sqrt_square.
    - destruct (qsqrt (q * (1 # 2))) as [r|] eqn:E2; [|discriminate].
      intros H; injection H as <-. apply qsqrt_sound in E2 as [H0 H1].
      rewrite pconst_sound, kscale_sound, ksqrt2_sound. unfold QC. rewrite <- RtoC_mult. f_equal.
      rewrite Q2R_mult, Q2R_half in H1.
      replace (Q2R q) with (Q2R r * Q2R r * 2)%R by (rewrite H1; field).
      rewrite sqrt_mult, sqrt_square; try lra. apply Rmult_le_pos; lra. Qed.

  Lemma half_sound : evalP cf rho half = RtoC (/ 2).
  Proof. unfold half. now rewrite pQ_sound, Q2R_half. Qed.
  Lemma cos_euler t : RtoC (/ 2) * (Cexp t + Cexp (- t)) = RtoC (cos t).
  Proof. unfold Cexp, RtoC, Cmult, Cplus; simpl. rewrite cos_neg, sin_neg. f_equal; field. Qed.
  Lemma sin_euler t : (- Ci * RtoC (/ 2)) * (Cexp t - Cexp (- t)) = RtoC (sin t).
  Proof. unfold Cexp, RtoC, Ci, Cmult, Cminus, Cplus, Copp; simpl. rewrite cos_neg, sin_neg. f_equal; field. Qed.

  Ltac inj_some H :=
    match type of H with Some ?a = Some ?b => let E := fresh in assert (E : a = b) by congruence; rewrite <- E; clear E H end.

  Theorem norm_sound_at e : forall p, norm cf e = Some p -> interpC rho e = evalP cf rho p.
  Proof.
    induction e; intros p H; cbn [norm] in H; cbn [interpC].
    - (* EQ *) inj_some H. now rewrite pQ_sound.
    - discriminate.
    - (* EI *) inj_some H. now rewrite pI_sound.
    - (* EVar *) inj_some H. now rewrite pplain_sound.
    - (* EAdd *) destruct (norm cf e1) as [x|]; [|discriminate]. destruct (norm cf e2) as [y|]; [|discriminate].
      inj_some H. now rewrite padd_sound, (IHe1 _ eq_refl), (IHe2 _ eq_refl).
    - (* ESub *) destruct (norm cf e1) as [x|]; [|discriminate]. destruct (norm cf e2) as [y|]; [|discriminate].
      inj_some H. now rewrite psub_sound, (IHe1 _ eq_refl), (IHe2 _ eq_refl).
    - (* EMul *) destruct (norm cf e1) as [x|]; [|discriminate]. destruct (norm cf e2) as [y|]; [|discriminate].
      inj_some H. now rewrite pmul_sound, (IHe1 _ eq_refl), (IHe2 _ eq_refl).
    - (* EDiv *) destruct (norm cf e1) as [x|]; [|discriminate]. destruct (norm cf e2) as [y|]; [|discriminate].
      destruct (pinv y) as [y'|] eqn:E; [|discriminate]. inj_some H.
      rewrite pmul_sound, (IHe1 _ eq_refl), (IHe2 _ eq_refl). unfold Cdiv. f_equal.
      apply C_inv_unique. now apply pinv_sound.
    - (* ENeg *) destruct (norm cf e) as [x|]; [|discriminate]. inj_some H.
      now rewrite popp_sound, (IHe _ eq_refl).
    - (* EPow *) destruct (norm cf e) as [x|]; [|discriminate]. inj_some H.
      now rewrite ppow_sound, (IHe _ eq_refl).
    - (* ESin *) destruct (cl e) as [[ar ai]|] eqn:Ec; [|discriminate]. destruct (lis_zero ai); [|discriminate].
      destruct (phase cf ar) as [pp|] eqn:E1; [|discriminate].
      destruct (phase cf (lscale (-1) ar)) as [pm|] eqn:E2; [|discriminate]. inj_some H.
      rewrite (cl_sound rho _ _ _ Ec). cbn [Re fst].
      rewrite !pmul_sound, psub_sound, popp_sound, pI_sound, half_sound, (phase_sound _ _ E1), (phase_sound _ _ E2), lneg_sound.
      symmetry. apply sin_euler.
    - (* ECos *) destruct (cl e) as [[ar ai]|] eqn:Ec; [|discriminate]. destruct (lis_zero ai); [|discriminate].
      destruct (phase cf ar) as [pp|] eqn:E1; [|discriminate].
      destruct (phase cf (lscale (-1) ar)) as [pm|] eqn:E2; [|discriminate]. inj_some H.
      rewrite (cl_sound rho _ _ _ Ec). cbn [Re fst].
      rewrite pmul_sound, padd_sound, half_sound, (phase_sound _ _ E1), (phase_sound _ _ E2), lneg_sound.
      symmetry. apply cos_euler.
    - (* EExp *) destruct (cl e) as [[ar ai]|] eqn:Ec; [|discriminate]. destruct (lis_zero ar) eqn:Ez; [|discriminate].
      rewrite (cl_sound rho _ _ _ Ec). cbn [Re Im fst snd].
      rewrite (phase_sound _ _ H), (lis_zero_sound rho _ Ez), exp_0. ring.
    - (* ESqrt *) destruct (cl e) as [[ar ai]|] eqn:Ec; [|discriminate].
      destruct (lis_const ar && lis_zero ai) eqn:Ez; [|discriminate]. apply andb_prop in Ez as [Ez _].
      rewrite (cl_sound rho _ _ _ Ec). cbn [Re fst].
      rewrite (psqrt_sound _ _ H), (lis_const_sound rho _ Ez). reflexivity.
    - (* EConj *) destruct (norm cf e) as [x|]; [|discriminate]. inj_some H.
      now rewrite pconj_sound, (IHe _ eq_refl).
  Qed.
End NormSound.

Theorem norm_sound : forall cfg e p, norm cfg e = Some p -> forall rho, interpC rho e = evalP cfg rho p.
Proof. intros cfg e p H rho. now apply norm_sound_at. Qed.

Theorem expr_eq_sound : forall cfg e1 e2, expr_eqb cfg e1 e2 = true -> forall rho, interpC rho e1 = interpC rho e2.
Proof. intros cfg e1 e2 H rho. unfold expr_eqb in H.
  destruct (norm cfg e1) as [p|] eqn:E1; [|discriminate]. destruct (norm cfg e2) as [q|] eqn:E2; [|discriminate].
  rewrite (norm_sound _ _ _ E1 rho), (norm_sound _ _ _ E2 rho). now apply peqb_sound. Qed.
