(* Statevector semantics shared by C01, C02, C03, C08, C18.
   Scalars: any commutative ring R (Section variables + ring_theory; the instances are ZI, Coquelicot's C, ...).
   A state is an amplitude function on bit lists; qubit 0 is the first list element = most significant bit.
   2x2 matrices are functions row-bit -> column-bit -> R, 4x4 matrices act on an ordered pair of qubits
   (first qubit = more significant bit of the 4x4 index, as numpy's kron(A_first, A_second)). *)
From Coq Require Import List Bool Arith Lia Ring.
Import ListNotations.

Definition bits := list bool.
Fixpoint upd (b : bits) (q : nat) (v : bool) : bits :=
  match b, q with
  | [], _ => []
  | _ :: t, O => v :: t
  | h :: t, S q' => h :: upd t q' v
  end.
Definition get (b : bits) (q : nat) : bool := nth q b false.

Lemma upd_length b q v : length (upd b q v) = length b.
Proof. revert q; induction b as [|h t IH]; intros [|q]; simpl; auto. Qed.
Lemma upd_upd b q v w : upd (upd b q v) q w = upd b q w.
Proof. revert q; induction b as [|h t IH]; intros [|q]; simpl; auto. now rewrite IH. Qed.
Lemma get_upd b q v : q < length b -> get (upd b q v) q = v.
Proof. revert q; induction b as [|h t IH]; intros [|q] H; simpl in *; try lia; auto. apply IH; lia. Qed.
Lemma get_upd_ne b q r v : q <> r -> get (upd b q v) r = get b r.
Proof. revert q r; induction b as [|h t IH]; intros [|q] [|r] H; simpl; auto; try congruence. apply IH; lia. Qed.
Lemma upd_comm b q r v w : q <> r -> upd (upd b q v) r w = upd (upd b r w) q v.
Proof. revert q r; induction b as [|h t IH]; intros [|q] [|r] H; simpl; auto; try congruence. now rewrite IH by lia. Qed.
Lemma upd_get b q : upd b q (get b q) = b.
Proof. revert q; induction b as [|h t IH]; intros [|q]; simpl; auto. unfold get in *. simpl. now rewrite IH. Qed.

Section S.
Variable R : Type.
Variables (rO rI : R) (radd rmul rsub : R -> R -> R) (ropp : R -> R).
Variable Rth : ring_theory rO rI radd rmul rsub ropp eq.
Add Ring Rr : Rth.
Infix "+" := radd. Infix "*" := rmul.

Definition state := bits -> R.
Definition m2 := bool -> bool -> R.
Definition m4 := bool * bool -> bool * bool -> R.

Definition apply1 (q : nat) (A : m2) (psi : state) : state :=
  fun b => A (get b q) false * psi (upd b q false) + A (get b q) true * psi (upd b q true).
Definition apply2 (q1 q2 : nat) (G : m4) (psi : state) : state :=
  fun b => let r := (get b q1, get b q2) in
    G r (false, false) * psi (upd (upd b q1 false) q2 false) + G r (false, true) * psi (upd (upd b q1 false) q2 true)
  + G r (true, false)  * psi (upd (upd b q1 true)  q2 false) + G r (true, true)  * psi (upd (upd b q1 true)  q2 true).

Inductive item := It1 (A : m2) (q : nat) | It2 (G : m4) (q1 q2 : nat).
Definition apply_item (it : item) : state -> state :=
  match it with It1 A q => apply1 q A | It2 G q1 q2 => apply2 q1 q2 G end.
(* apply the items one after another, first list element first *)
Definition sem (items : list item) (psi : state) : state := fold_left (fun s it => apply_item it s) items psi.
Definition wf_item (n : nat) (it : item) : Prop :=
  match it with It1 _ q => q < n | It2 _ q1 q2 => q1 < n /\ q2 < n /\ q1 <> q2 end.
Definition state_eq (n : nat) (s t : state) : Prop := forall b, length b = n -> s b = t b.

(* matrix algebra on the function representation *)
Definition id2 : m2 := fun r c => if Bool.eqb r c then rI else rO.
Definition mul2 (A B : m2) : m2 := fun r c => A r false * B false c + A r true * B true c.
Definition mul4 (A B : m4) : m4 := fun r c =>
  A r (false, false) * B (false, false) c + A r (false, true) * B (false, true) c
  + A r (true, false) * B (true, false) c + A r (true, true) * B (true, true) c.
Definition kron2 (A B : m2) : m4 := fun r c => A (fst r) (fst c) * B (snd r) (snd c).

Lemma state_eq_refl n s : state_eq n s s. Proof. intros b _. reflexivity. Qed.
Lemma state_eq_sym n s t : state_eq n s t -> state_eq n t s. Proof. intros H b L. symmetry. now apply H. Qed.
Lemma state_eq_trans n s t u : state_eq n s t -> state_eq n t u -> state_eq n s u.
Proof. intros H1 H2 b L. rewrite H1, H2; auto. Qed.

Lemma apply1_ext n q A s t : state_eq n s t -> state_eq n (apply1 q A s) (apply1 q A t).
Proof. intros H b L. unfold apply1. rewrite !H by (now rewrite upd_length). reflexivity. Qed.
Lemma apply2_ext n q1 q2 G s t : state_eq n s t -> state_eq n (apply2 q1 q2 G s) (apply2 q1 q2 G t).
Proof. intros H b L. unfold apply2. cbv zeta. rewrite !H by (now rewrite !upd_length). reflexivity. Qed.
Lemma apply_item_ext n it s t : state_eq n s t -> state_eq n (apply_item it s) (apply_item it t).
Proof. destruct it; simpl; [apply apply1_ext | apply apply2_ext]. Qed.
Lemma sem_ext n items : forall s t, state_eq n s t -> state_eq n (sem items s) (sem items t).
Proof. induction items as [|it r IH]; intros s t H; simpl; auto. apply IH. now apply apply_item_ext. Qed.
Lemma sem_app a b psi : sem (a ++ b) psi = sem b (sem a psi).
Proof. unfold sem. now rewrite fold_left_app. Qed.

(* ---- fusion laws ---- *)
Lemma fuse11 q A B psi b : q < length b ->
  apply1 q A (apply1 q B psi) b = apply1 q (mul2 A B) psi b.
Proof. intros H. unfold apply1, mul2. rewrite !upd_upd, !get_upd by assumption. ring. Qed.

Lemma apply1_id q psi b : apply1 q id2 psi b = psi b.
Proof.
  unfold apply1, id2. destruct (get b q) eqn:E; simpl.
  - rewrite <- E, upd_get. ring.
  - rewrite <- E, upd_get. ring.
Qed.

Lemma commute11 q r A B psi b : q <> r ->
  apply1 q A (apply1 r B psi) b = apply1 r B (apply1 q A psi) b.
Proof.
  intros H. unfold apply1.
  rewrite !(get_upd_ne b q r), !(get_upd_ne b r q) by auto.
  rewrite (upd_comm b q r false false), (upd_comm b q r false true), (upd_comm b q r true false), (upd_comm b q r true true) by auto.
  ring.
Qed.

Ltac gets := repeat first [ rewrite get_upd by (rewrite ?upd_length; assumption) | rewrite get_upd_ne by congruence ].
Ltac norm_upd q1 q2 := repeat first [ rewrite upd_upd | rewrite (upd_comm _ q2 q1) by congruence ].

(* a one-qubit gate on the first qubit of a later two-qubit gate: G . (A (x) I) *)
Lemma fuse21_first q1 q2 G A psi b : q1 <> q2 -> q1 < length b -> q2 < length b ->
  apply2 q1 q2 G (apply1 q1 A psi) b = apply2 q1 q2 (mul4 G (kron2 A id2)) psi b.
Proof.
  intros Hne H1 H2. unfold apply2, apply1, mul4, kron2, id2. cbv zeta. simpl fst; simpl snd.
  gets. norm_upd q1 q2. simpl. ring.
Qed.

(* a one-qubit gate on the second qubit of a later two-qubit gate: G . (I (x) A) *)
Lemma fuse21_second q1 q2 G A psi b : q1 <> q2 -> q1 < length b -> q2 < length b ->
  apply2 q1 q2 G (apply1 q2 A psi) b = apply2 q1 q2 (mul4 G (kron2 id2 A)) psi b.
Proof.
  intros Hne H1 H2. unfold apply2, apply1, mul4, kron2, id2. cbv zeta. simpl fst; simpl snd.
  gets. norm_upd q1 q2. simpl. ring.
Qed.

(* a one-qubit gate after a two-qubit gate *)
Lemma fuse12_first q1 q2 G A psi b : q1 <> q2 -> q1 < length b -> q2 < length b ->
  apply1 q1 A (apply2 q1 q2 G psi) b = apply2 q1 q2 (mul4 (kron2 A id2) G) psi b.
Proof.
  intros Hne H1 H2. unfold apply2, apply1, mul4, kron2, id2. cbv zeta. simpl fst; simpl snd.
  gets. norm_upd q1 q2. destruct (get b q1), (get b q2); simpl; ring.
Qed.

Lemma fuse12_second q1 q2 G A psi b : q1 <> q2 -> q1 < length b -> q2 < length b ->
  apply1 q2 A (apply2 q1 q2 G psi) b = apply2 q1 q2 (mul4 (kron2 id2 A) G) psi b.
Proof.
  intros Hne H1 H2. unfold apply2, apply1, mul4, kron2, id2. cbv zeta. simpl fst; simpl snd.
  gets. norm_upd q1 q2. destruct (get b q1), (get b q2); simpl; ring.
Qed.

(* two two-qubit gates on the same ordered pair *)
Lemma fuse22 q1 q2 G H psi b : q1 <> q2 -> q1 < length b -> q2 < length b ->
  apply2 q1 q2 G (apply2 q1 q2 H psi) b = apply2 q1 q2 (mul4 G H) psi b.
Proof.
  intros Hne H1 H2. unfold apply2, mul4. cbv zeta.
  gets. norm_upd q1 q2. ring.
Qed.

(* disjoint supports commute *)
Lemma commute12 q r1 r2 A G psi b : q <> r1 -> q <> r2 ->
  apply1 q A (apply2 r1 r2 G psi) b = apply2 r1 r2 G (apply1 q A psi) b.
Proof.
  intros H1 H2. unfold apply1, apply2. cbv zeta.
  repeat rewrite get_upd_ne by congruence.
  repeat first [ rewrite (upd_comm _ r1 q) by congruence | rewrite (upd_comm _ r2 q) by congruence ].
  ring.
Qed.

Lemma commute22 q1 q2 r1 r2 G H psi b : q1 <> r1 -> q1 <> r2 -> q2 <> r1 -> q2 <> r2 ->
  apply2 q1 q2 G (apply2 r1 r2 H psi) b = apply2 r1 r2 H (apply2 q1 q2 G psi) b.
Proof.
  intros A1 A2 A3 A4. unfold apply2. cbv zeta.
  repeat rewrite get_upd_ne by congruence.
  repeat first [ rewrite (upd_comm _ r1 q1) by congruence | rewrite (upd_comm _ r2 q1) by congruence
               | rewrite (upd_comm _ r1 q2) by congruence | rewrite (upd_comm _ r2 q2) by congruence ].
  ring.
Qed.

(* linearity in the state *)
Definition sadd (s t : state) : state := fun b => s b + t b.
Definition sscale (c : R) (s : state) : state := fun b => c * s b.
Lemma apply_item_add it s t b : apply_item it (sadd s t) b = sadd (apply_item it s) (apply_item it t) b.
Proof. destruct it; simpl; unfold apply1, apply2, sadd; cbv zeta; ring. Qed.
Lemma apply_item_scale it c s b : apply_item it (sscale c s) b = sscale c (apply_item it s) b.
Proof. destruct it; simpl; unfold apply1, apply2, sscale; cbv zeta; ring. Qed.

End S.

Arguments It1 {R} A q.
Arguments It2 {R} G q1 q2.
