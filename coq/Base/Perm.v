(* Permutations of qubit positions acting on bit lists (shared vocabulary for C08's relabelling clause).

   A permutation of the positions {0..n-1} is a function s : nat -> nat with  perm_on n s : it maps {0..n-1} into
   itself and is injective there (values outside {0..n-1} are irrelevant).  Its inverse on {0..n-1} is computed by
   search (inv_of n s); by the pigeonhole principle it is a two-sided inverse (inv_of_l, inv_of_r).

   CONVENTION.   permute s b   is the bit list whose position  s q  holds bit q of b :   get (permute s b) (s q) = get b q.
                 unpermute s b is the bit list whose position  i    holds bit s i of b : get (unpermute s b) i = get b (s i).
   Both keep the length; they are mutually inverse; and they commute with single-position updates:
                 upd (permute s b) (s q) v = permute s (upd b q v),      upd (unpermute s b) q v = unpermute s (upd b (s q) v). *)
From Coq Require Import List Bool Arith Lia Permutation.
Require Import QG.Base.State.
Import ListNotations.

(* two bit lists of the same length with the same bits are equal *)
Lemma bits_ext (a b : bits) : length a = length b -> (forall r, r < length a -> get a r = get b r) -> a = b.
Proof. intros L H. apply (nth_ext a b false false L). exact H. Qed.

Definition perm_on (n : nat) (s : nat -> nat) : Prop :=
  (forall i, i < n -> s i < n) /\ (forall i j, i < n -> j < n -> s i = s j -> i = j).

Definition inv_of (n : nat) (s : nat -> nat) (r : nat) : nat :=
  match find (fun i => s i =? r) (seq 0 n) with Some i => i | None => 0 end.

Lemma NoDup_map_inj_in {A B} (f : A -> B) (l : list A) :
  NoDup l -> (forall x y, In x l -> In y l -> f x = f y -> x = y) -> NoDup (map f l).
Proof.
  induction l as [|a r IH]; intros ND Hi; cbn [map]; [constructor|].
  apply NoDup_cons_iff in ND as [Ha ND]. constructor.
  - intros Hin. apply in_map_iff in Hin as (x & Hx & Hxin). apply Ha.
    rewrite <- (Hi x a); auto; [now right | now left].
  - apply IH; auto. intros x y Hx Hy. apply Hi; now right.
Qed.

(* pigeonhole: an injection of {0..n-1} into itself is onto *)
Lemma perm_surj n s : perm_on n s -> forall r, r < n -> exists i, i < n /\ s i = r.
Proof.
  intros [Hr Hi] r Hrn.
  assert (ND : NoDup (map s (seq 0 n))).
  { apply NoDup_map_inj_in; [apply seq_NoDup|]. intros x y Hx Hy. apply in_seq in Hx, Hy. apply Hi; lia. }
  assert (Inc : incl (seq 0 n) (map s (seq 0 n))).
  { apply NoDup_length_incl; auto.
    - rewrite map_length. lia.
    - intros y Hy. apply in_map_iff in Hy as (x & <- & Hx). apply in_seq in Hx. apply in_seq. specialize (Hr x). lia. }
  assert (Hin : In r (seq 0 n)) by (apply in_seq; lia).
  apply Inc in Hin. apply in_map_iff in Hin as (i & Hi' & Hin). apply in_seq in Hin. exists i. split; [lia | exact Hi'].
Qed.

(* the images of 0..n-1 are 0..n-1 in another order *)
Lemma perm_on_Permutation n s : perm_on n s -> Permutation (map s (seq 0 n)) (seq 0 n).
Proof.
  intros [Hr Hi]. apply NoDup_Permutation_bis.
  - apply NoDup_map_inj_in; [apply seq_NoDup|]. intros x y Hx Hy. apply in_seq in Hx, Hy. apply Hi; lia.
  - rewrite map_length. lia.
  - intros y Hy. apply in_map_iff in Hy as (x & <- & Hx). apply in_seq in Hx. apply in_seq. specialize (Hr x). lia.
Qed.

Lemma inv_of_l n s i : perm_on n s -> i < n -> inv_of n s (s i) = i.
Proof.
  intros [Hr Hi] Hin. unfold inv_of. destruct (find (fun i0 => s i0 =? s i) (seq 0 n)) as [j|] eqn:E.
  - apply find_some in E as [Hj Hs]. apply in_seq in Hj. apply Nat.eqb_eq in Hs. apply Hi; auto; lia.
  - exfalso. assert (H := find_none _ _ E i). cbv beta in H. rewrite Nat.eqb_refl in H.
    assert (In i (seq 0 n)) by (apply in_seq; lia). specialize (H H0). discriminate H.
Qed.

Lemma inv_of_r n s r : perm_on n s -> r < n -> inv_of n s r < n /\ s (inv_of n s r) = r.
Proof.
  intros Hp Hr. destruct (perm_surj n s Hp r Hr) as (i & Hi & <-). rewrite inv_of_l by auto. split; auto.
Qed.

Lemma inv_of_perm n s : perm_on n s -> perm_on n (inv_of n s).
Proof.
  intros Hp. split.
  - intros r Hr. now apply inv_of_r.
  - intros a b Ha Hb E. destruct (inv_of_r n s a Hp Ha) as [_ <-]. destruct (inv_of_r n s b Hp Hb) as [_ <-]. now rewrite E.
Qed.

(* re-indexing of a bit list: position r of (pull f b) holds bit (f r) of b *)
Definition pull (f : nat -> nat) (b : bits) : bits := map (fun r => get b (f r)) (seq 0 (length b)).
Definition unpermute (s : nat -> nat) (b : bits) : bits := pull s b.
Definition permute (s : nat -> nat) (b : bits) : bits := pull (inv_of (length b) s) b.

Lemma pull_length f b : length (pull f b) = length b.
Proof. unfold pull. now rewrite map_length, seq_length. Qed.
Lemma nth_map_seq {A} (g : nat -> A) n r d : r < n -> nth r (map g (seq 0 n)) d = g r.
Proof.
  intros H. rewrite (nth_indep _ d (g 0)) by (now rewrite map_length, seq_length).
  rewrite map_nth. now rewrite seq_nth by assumption.
Qed.
Lemma get_pull f b r : r < length b -> get (pull f b) r = get b (f r).
Proof. intros H. unfold pull, get at 1. now rewrite nth_map_seq. Qed.

(* if f and g are mutually inverse at q, updating position q before re-indexing by f = updating position g q afterwards *)
Lemma pull_upd f g b q v :
  q < length b -> g q < length b -> f (g q) = q -> (forall r, r < length b -> f r = q -> r = g q) ->
  pull f (upd b q v) = upd (pull f b) (g q) v.
Proof.
  intros Hq Hg Hfg Huniq. apply bits_ext.
  - now rewrite upd_length, !pull_length, upd_length.
  - intros r Hr. rewrite pull_length, upd_length in Hr. rewrite get_pull by (now rewrite upd_length).
    destruct (Nat.eq_dec r (g q)) as [->|Hne].
    + rewrite Hfg. rewrite !get_upd; auto. now rewrite pull_length.
    + assert (q <> f r) by (intros E; apply Hne, Huniq; auto).
      rewrite get_upd_ne by assumption. rewrite get_upd_ne by congruence. now rewrite get_pull.
Qed.

Lemma permute_length s b : length (permute s b) = length b. Proof. apply pull_length. Qed.
Lemma unpermute_length s b : length (unpermute s b) = length b. Proof. apply pull_length. Qed.

Lemma get_unpermute s b i : i < length b -> get (unpermute s b) i = get b (s i).
Proof. apply get_pull. Qed.
Lemma get_permute s b q : perm_on (length b) s -> q < length b -> get (permute s b) (s q) = get b q.
Proof.
  intros Hp Hq. unfold permute. rewrite get_pull by (now apply Hp). now rewrite inv_of_l.
Qed.

Lemma permute_upd s b q v : perm_on (length b) s -> q < length b ->
  upd (permute s b) (s q) v = permute s (upd b q v).
Proof.
  intros Hp Hq. unfold permute. rewrite upd_length. symmetry. apply pull_upd; auto.
  - now apply Hp.
  - now apply inv_of_l.
  - intros r Hr E. destruct (inv_of_r _ s r Hp Hr) as [_ <-]. now rewrite E.
Qed.

Lemma unpermute_upd s b q v : perm_on (length b) s -> q < length b ->
  upd (unpermute s b) q v = unpermute s (upd b (s q) v).
Proof.
  intros Hp Hq. unfold unpermute. symmetry.
  rewrite <- (inv_of_l (length b) s q Hp Hq) at 2.
  apply pull_upd.
  - now apply Hp.
  - now rewrite inv_of_l.
  - now rewrite inv_of_l.
  - intros r Hr E. rewrite inv_of_l by auto. apply Hp; auto.
Qed.

Lemma permute_unpermute s b : perm_on (length b) s -> permute s (unpermute s b) = b.
Proof.
  intros Hp. apply bits_ext.
  - now rewrite permute_length, unpermute_length.
  - intros r Hr. rewrite permute_length, unpermute_length in Hr.
    unfold permute. rewrite unpermute_length.
    destruct (inv_of_r _ s r Hp Hr) as [Hi Hs].
    rewrite get_pull by (now rewrite unpermute_length). rewrite get_unpermute by assumption. now rewrite Hs.
Qed.

Lemma unpermute_permute s b : perm_on (length b) s -> unpermute s (permute s b) = b.
Proof.
  intros Hp. apply bits_ext.
  - now rewrite unpermute_length, permute_length.
  - intros r Hr. rewrite unpermute_length, permute_length in Hr.
    rewrite get_unpermute by (now rewrite permute_length). now apply get_permute.
Qed.

(* the inverse permutation undoes it: permuting by the inverse is un-permuting *)
Lemma permute_inv s b : perm_on (length b) s -> permute (inv_of (length b) s) b = unpermute s b.
Proof.
  intros Hp. apply bits_ext.
  - now rewrite permute_length, unpermute_length.
  - intros r Hr. rewrite permute_length in Hr.
    rewrite get_unpermute by assumption.
    assert (H := get_permute (inv_of (length b) s) b (s r) (inv_of_perm _ _ Hp) (proj1 Hp r Hr)).
    rewrite inv_of_l in H by auto. exact H.
Qed.

Lemma permute_inj s a b : perm_on (length a) s -> length a = length b -> permute s a = permute s b -> a = b.
Proof.
  intros Hp L E. rewrite <- (unpermute_permute s a Hp). rewrite E. apply unpermute_permute. now rewrite <- L.
Qed.
