(* Product-state calculus on top of Base/State.v (used by C18).
   A product state is  b |-> PROD_q v q (b_q)  for a family of one-qubit factors v : nat -> bool -> R.
   A one-qubit gate updates one factor (pp_apply1); a diagonal two-qubit phase whose control factor is a basis
   state updates the target factor (pp_diag_basis).  Everything over an arbitrary commutative ring. *)
From Coq Require Import List Bool Arith Lia Ring.
Require Import QG.Base.State.
Import ListNotations.

Fixpoint bits_eqb (a b : bits) : bool :=
  match a, b with
  | [], [] => true
  | x :: a', y :: b' => Bool.eqb x y && bits_eqb a' b'
  | _, _ => false
  end.
Lemma bits_eqb_eq a b : bits_eqb a b = true <-> a = b.
Proof.
  revert b; induction a as [|x a IH]; intros [|y b]; simpl; split; try congruence; auto.
  - rewrite andb_true_iff, eqb_true_iff, IH. intros [-> ->]; reflexivity.
  - intros E; injection E as -> ->. rewrite eqb_reflx. simpl. now apply IH.
Qed.
Lemma bits_eqb_refl a : bits_eqb a a = true.
Proof. now apply bits_eqb_eq. Qed.

Lemma upd2_get b c t : upd (upd b c (get b c)) t (get b t) = b.
Proof. now rewrite !upd_get. Qed.

Section PP.
Variable R : Type.
Variables (rO rI : R) (radd rmul rsub : R -> R -> R) (ropp : R -> R).
Variable Rth : ring_theory rO rI radd rmul rsub ropp eq.
Add Ring Rpp : Rth.
Infix "[+]" := radd (at level 50, left associativity).
Infix "[*]" := rmul (at level 40, left associativity).

Notation fac := (bool -> R).
Definition fupd (v : nat -> fac) (q : nat) (f : fac) : nat -> fac := fun r => if Nat.eqb r q then f else v r.
Fixpoint pprod (v : nat -> fac) (q0 : nat) (b : bits) : R :=
  match b with [] => rI | x :: t => v q0 x [*] pprod v (S q0) t end.
Definition pp (v : nat -> fac) : state R := pprod v 0.
Definition one : fac := fun _ => rI.
Definition mv (A : m2 R) (f : fac) : fac := fun x => A x false [*] f false [+] A x true [*] f true.
Definition bas (x : bool) : fac := fun y => if Bool.eqb y x then rI else rO.
Definition ket (x : bits) : state R := fun b => if bits_eqb b x then rI else rO.
Fixpoint rpow (a : R) (n : nat) : R := match n with O => rI | S m => a [*] rpow a m end.

Lemma fupd_same v q f : fupd v q f q = f.
Proof. unfold fupd. now rewrite Nat.eqb_refl. Qed.
Lemma fupd_other v q f r : r <> q -> fupd v q f r = v r.
Proof. unfold fupd. intros H. apply Nat.eqb_neq in H. now rewrite H. Qed.

Lemma pprod_ext v w b : forall q0, (forall q x, q0 <= q < q0 + length b -> v q x = w q x) -> pprod v q0 b = pprod w q0 b.
Proof.
  induction b as [|y t IH]; intros q0 H; simpl; auto.
  rewrite (H q0 y) by (simpl; lia). rewrite (IH (S q0)); auto.
  intros q x Hq. apply H. simpl. lia.
Qed.

Lemma pprod_upd_const v b : forall q0 q x, (forall y z, v (q0 + q) y = v (q0 + q) z) ->
  pprod v q0 (upd b q x) = pprod v q0 b.
Proof.
  induction b as [|y t IH]; intros q0 [|q] x H; simpl; auto.
  - rewrite Nat.add_0_r in H. now rewrite (H x y).
  - rewrite IH; auto. intros. replace (S q0 + q) with (q0 + S q) by lia. apply H.
Qed.

Lemma pprod_factor v b : forall q0 q, q < length b ->
  pprod v q0 b = v (q0 + q) (get b q) [*] pprod (fupd v (q0 + q) one) q0 b.
Proof.
  induction b as [|y t IH]; intros q0 [|q] H; simpl in *; try lia.
  - rewrite Nat.add_0_r. rewrite fupd_same. unfold get; simpl.
    rewrite (pprod_ext (fupd v q0 one) v t (S q0)).
    + unfold one. ring.
    + intros r x Hr. rewrite fupd_other by lia. reflexivity.
  - unfold get; simpl. fold (get t q).
    rewrite (IH (S q0) q) by lia. replace (S q0 + q) with (q0 + S q) by lia.
    rewrite (fupd_other v (q0 + S q) one q0) by lia. ring.
Qed.

Lemma pprod_fupd v b q0 q f : q < length b ->
  pprod (fupd v (q0 + q) f) q0 b = f (get b q) [*] pprod (fupd v (q0 + q) one) q0 b.
Proof.
  intros H. rewrite (pprod_factor (fupd v (q0 + q) f) b q0 q H). rewrite fupd_same. f_equal.
  apply pprod_ext. intros r x _. unfold fupd. destruct (Nat.eqb r (q0 + q)); reflexivity.
Qed.

Lemma pp_factor v b q : q < length b -> pp v b = v q (get b q) [*] pp (fupd v q one) b.
Proof. intros H. unfold pp. exact (pprod_factor v b 0 q H). Qed.
Lemma pp_fupd v b q f : q < length b -> pp (fupd v q f) b = f (get b q) [*] pp (fupd v q one) b.
Proof. intros H. unfold pp. exact (pprod_fupd v b 0 q f H). Qed.
Lemma pp_one_upd v b q x : pp (fupd v q one) (upd b q x) = pp (fupd v q one) b.
Proof. unfold pp. apply pprod_upd_const. intros. simpl. now rewrite fupd_same. Qed.
Lemma pp_ext n v w : (forall q x, q < n -> v q x = w q x) -> state_eq R n (pp v) (pp w).
Proof. intros H b L. unfold pp. apply pprod_ext. intros q x Hq. apply H. lia. Qed.

(* a one-qubit gate acts on one factor *)
Lemma pp_apply1 q A v b : q < length b ->
  apply1 R radd rmul q A (pp v) b = pp (fupd v q (mv A (v q))) b.
Proof.
  intros H. unfold apply1.
  rewrite (pp_factor v (upd b q false) q), (pp_factor v (upd b q true) q) by (now rewrite upd_length).
  rewrite !get_upd by assumption. rewrite !pp_one_upd.
  rewrite (pp_fupd v b q (mv A (v q)) H).
  unfold mv.
  ring.
Qed.

(* a diagonal two-qubit phase D (control bit) (target bit), control factor a basis state *)
Lemma pp_diag_basis (D : bool -> bool -> R) c t xc v b : c <> t -> c < length b -> t < length b ->
  (forall y, v c y = bas xc y) ->
  D (get b c) (get b t) [*] pp v b = pp (fupd v t (fun y => D xc y [*] v t y)) b.
Proof.
  intros Hne Hc Ht Hb.
  destruct (Bool.eqb (get b c) xc) eqn:E.
  - apply eqb_prop in E. rewrite E. rewrite (pp_fupd v b t _ Ht). rewrite (pp_factor v b t Ht). ring.
  - rewrite (pp_factor v b c Hc). rewrite (pp_factor (fupd v t _) b c Hc).
    rewrite (fupd_other v t _ c Hne). rewrite !Hb. unfold bas. rewrite E. ring.
Qed.

(* the product of basis factors is the basis state *)
Lemma pprod_bas x : forall b q0, length b = length x ->
  pprod (fun q => bas (nth (q - q0) x false)) q0 b = ket x b.
Proof.
  induction x as [|x0 x IH]; intros [|y t] q0 L; simpl in L; try discriminate.
  - reflexivity.
  - simpl pprod. rewrite Nat.sub_diag. simpl nth.
    rewrite (pprod_ext _ (fun q => bas (nth (q - S q0) x false)) t (S q0)).
    + rewrite IH by lia. unfold ket, bas. simpl. destruct (Bool.eqb y x0); simpl; [|ring].
      destruct (bits_eqb t x); ring.
    + intros q z Hq. replace (q - q0) with (S (q - S q0)) by lia. reflexivity.
Qed.
Lemma pp_bas x : state_eq R (length x) (pp (fun q => bas (get x q))) (ket x).
Proof.
  intros b L. unfold pp. rewrite <- (pprod_bas x b 0 L). apply pprod_ext. intros q z _. unfold get. now rewrite Nat.sub_0_r.
Qed.

(* constant factors: the amplitude is a power *)
Lemma pprod_const (a : R) v b : forall q0, (forall q x, q0 <= q < q0 + length b -> v q x = a) -> pprod v q0 b = rpow a (length b).
Proof.
  induction b as [|y t IH]; intros q0 H; simpl; auto.
  rewrite (H q0 y) by (simpl; lia). rewrite (IH (S q0)); auto. intros q x Hq. apply H. simpl. lia.
Qed.

Lemma ket_length x b : length b <> length x -> ket x b = rO.
Proof.
  intros H. unfold ket. destruct (bits_eqb b x) eqn:E; auto. apply bits_eqb_eq in E. congruence.
Qed.
End PP.
