(* Result type used by every executable model: Ok value, or the Python exception class the code raises. *)
From Coq Require Import List.
Import ListNotations.

Inductive err := IndexError | ValueError | AssertionError | AttributeError | TypeError | FileNotFoundError | KeyError | OutOfFuel.
Inductive res (A : Type) := Ok (a : A) | Err (e : err).
Arguments Ok {A} a.
Arguments Err {A} e.

Definition rbind {A B} (x : res A) (f : A -> res B) : res B :=
  match x with Ok a => f a | Err e => Err e end.
Definition rmap {A B} (f : A -> B) (x : res A) : res B :=
  match x with Ok a => Ok (f a) | Err e => Err e end.
Notation "x <- e ;; f" := (rbind e (fun x => f)) (at level 61, e at next level, right associativity).

Definition is_ok {A} (x : res A) : bool := match x with Ok _ => true | Err _ => false end.
