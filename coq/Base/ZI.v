(* Gaussian integers: the executable scalar instance used by correspondence runs.
   numpy complex128 arithmetic on Gaussian integers below 2^53 is exact, so results can be compared with ==. *)
From Coq Require Import ZArith Ring.
Local Open Scope Z_scope.

Definition ZI := (Z * Z)%type.
Definition zi0 : ZI := (0, 0).
Definition zi1 : ZI := (1, 0).
Definition zii : ZI := (0, 1).
Definition ziadd (a b : ZI) : ZI := (fst a + fst b, snd a + snd b).
Definition zimul (a b : ZI) : ZI := (fst a * fst b - snd a * snd b, fst a * snd b + snd a * fst b).
Definition ziopp (a : ZI) : ZI := (- fst a, - snd a).
Definition zisub (a b : ZI) : ZI := ziadd a (ziopp b).
Definition ziconj (a : ZI) : ZI := (fst a, - snd a).
Definition zieqb (a b : ZI) : bool := Z.eqb (fst a) (fst b) && Z.eqb (snd a) (snd b).
(* |a|^2 as an integer: the Born weight *)
Definition zinorm2 (a : ZI) : Z := fst a * fst a + snd a * snd a.

Lemma ZI_ring : ring_theory zi0 zi1 ziadd zimul zisub ziopp eq.
Proof.
  constructor; intros; unfold ziadd, zimul, zisub, ziopp, zi0, zi1;
    repeat match goal with x : ZI |- _ => destruct x end; cbn [fst snd]; try (f_equal; ring); try reflexivity.
Qed.

Lemma zieqb_eq a b : zieqb a b = true <-> a = b.
Proof.
  destruct a, b. unfold zieqb. simpl. rewrite Bool.andb_true_iff, !Z.eqb_eq. split.
  - intros [-> ->]. reflexivity.
  - intros H. injection H as -> ->. auto.
Qed.

Lemma ziconj_mul a b : ziconj (zimul a b) = zimul (ziconj a) (ziconj b).
Proof. destruct a, b. unfold ziconj, zimul. simpl. f_equal; ring. Qed.
Lemma ziconj_add a b : ziconj (ziadd a b) = ziadd (ziconj a) (ziconj b).
Proof. destruct a, b. unfold ziconj, ziadd. simpl. f_equal; ring. Qed.
Lemma ziconj_invol a : ziconj (ziconj a) = a.
Proof. destruct a. unfold ziconj. simpl. f_equal; ring. Qed.
