(* Matrices, Kronecker products and finite sums over bit-list indices (shared by C01; reusable by C02/C03).
   An index of a 2^w-dimensional axis is the big-endian bit list of length w (first bit = most significant), i.e. the
   index x of numpy corresponds to the w-bit binary expansion of x; the row-major pairing (i, k) |-> i * 2^w2 + k of
   np.kron / reshape is list concatenation  bits(i) ++ bits(k)  (lemma val_app below ties this to arithmetic).
   Matrices are functions row -> column -> R together with an explicit width w (dimension 2^w); a width-0 matrix is the
   1x1 matrix (the scalar placeholder 1 of a layer).
   Materialisation (numpy allocating a fresh array) is modelled by [memoT]: tabulate into a complete binary tree and read
   back; semantically the identity on indices of the right length (memoT_get), operationally what makes vm_compute cheap. *)
From Coq Require Import List Bool Arith Lia Ring NArith.
Require Import QG.Base.State.
Import ListNotations.

(* ---------- complete binary trees = materialised arrays indexed by bit lists ---------- *)
Section Tree.
Variable T : Type.
Inductive tree := Lf (x : T) | Nd (l r : tree).
Fixpoint tab (w : nat) (f : bits -> T) : tree :=
  match w with
  | O => Lf (f [])
  | S w' => Nd (tab w' (fun b => f (false :: b))) (tab w' (fun b => f (true :: b)))
  end.
Fixpoint tget (t : tree) (b : bits) {struct t} : T :=
  match t with
  | Lf x => x
  | Nd l r => match b with [] => tget l [] | h :: b' => tget (if h then r else l) b' end
  end.
Definition memoT (w : nat) (f : bits -> T) : bits -> T := let t := tab w f in fun b => tget t b.

Lemma tget_tab w : forall f b, length b = w -> tget (tab w f) b = f b.
Proof.
  induction w as [|w IH]; intros f b L.
  - destruct b; [reflexivity | discriminate].
  - destruct b as [|h b]; [discriminate|]. simpl in L. injection L as L. simpl.
    destruct h; rewrite IH by assumption; reflexivity.
Qed.
Lemma memoT_get w f b : length b = w -> memoT w f b = f b.
Proof. intros L. unfold memoT. now apply tget_tab. Qed.
End Tree.
Arguments Lf {T} x. Arguments Nd {T} l r. Arguments tab {T} w f. Arguments tget {T} t b. Arguments memoT {T} w f.

(* all bit lists of length w in ascending index order, and the index value of a bit list *)
Fixpoint all_bits (w : nat) : list bits :=
  match w with O => [[]] | S w' => map (cons false) (all_bits w') ++ map (cons true) (all_bits w') end.
Definition bval (b : bits) : N := fold_left (fun a (x : bool) => (2 * a + (if x then 1 else 0))%N) b 0%N.

Lemma bval_app_gen : forall b a0, fold_left (fun a (x : bool) => (2 * a + (if x then 1 else 0))%N) b a0
   = (a0 * 2 ^ N.of_nat (length b) + bval b)%N.
Proof.
  induction b as [|h t IH]; intros a0.
  - simpl. unfold bval. simpl. lia.
  - unfold bval. cbn [fold_left length]. rewrite IH. rewrite (IH (2 * 0 + _)%N).
    rewrite Nat2N.inj_succ, N.pow_succ_r'. destruct h; lia.
Qed.
(* concatenation of bit lists = the row-major pairing i * 2^|k| + k used by np.kron and reshape *)
Lemma bval_app a b : bval (a ++ b) = (bval a * 2 ^ N.of_nat (length b) + bval b)%N.
Proof. unfold bval at 1. rewrite fold_left_app. apply bval_app_gen. Qed.

Lemma all_bits_length w b : In b (all_bits w) -> length b = w.
Proof.
  revert b; induction w as [|w IH]; intros b H; simpl in H.
  - destruct H as [<-|[]]. reflexivity.
  - apply in_app_or in H. destruct H as [H|H]; apply in_map_iff in H; destruct H as (c & <- & H); simpl; f_equal; auto.
Qed.

Fixpoint beq (a b : bits) : bool :=
  match a, b with [], [] => true | x :: a', y :: b' => Bool.eqb x y && beq a' b' | _, _ => false end.
Lemma beq_refl a : beq a a = true.
Proof. induction a as [|h t IH]; simpl; auto. now rewrite Bool.eqb_reflx, IH. Qed.
Lemma beq_eq a : forall b, beq a b = true -> a = b.
Proof.
  induction a as [|h t IH]; intros [|k b] H; simpl in H; try discriminate; auto.
  apply andb_prop in H. destruct H as [H1 H2]. apply Bool.eqb_prop in H1. f_equal; auto.
Qed.

Section M.
Variable R : Type.
Variables (rO rI : R) (radd rmul rsub : R -> R -> R) (ropp : R -> R).
Variable Rth : ring_theory rO rI radd rmul rsub ropp eq.
Add Ring RrM : Rth.
Infix "+" := radd. Infix "*" := rmul.
Notation state := (bits -> R) (only parsing).
Notation gmat := (bits -> bits -> R) (only parsing).

(* sum over all bit lists of length w *)
Fixpoint bsum (w : nat) (f : bits -> R) : R :=
  match w with O => f [] | S w' => bsum w' (fun b => f (false :: b)) + bsum w' (fun b => f (true :: b)) end.

(* np.kron(A, B) for A of width w1: index = (A-index) ++ (B-index) *)
Definition kron (w1 : nat) (A B : bits -> bits -> R) : bits -> bits -> R :=
  fun r c => A (firstn w1 r) (firstn w1 c) * B (skipn w1 r) (skipn w1 c).
(* M @ v  and  A @ B  for width w *)
Definition mv (w : nat) (M : bits -> bits -> R) (v : bits -> R) : bits -> R := fun r => bsum w (fun c => M r c * v c).
Definition mm (w : nat) (A B : bits -> bits -> R) : bits -> bits -> R := fun r c => bsum w (fun k => A r k * B k c).
Definition idm : bits -> bits -> R := fun r c => if beq r c then rI else rO.
(* fresh 2-D array of width w *)
Definition memo2 (w : nat) (M : bits -> bits -> R) : bits -> bits -> R :=
  let t := tab (w + w) (fun rc => M (firstn w rc) (skipn w rc)) in fun r c => tget t (r ++ c).

(* ---------- sums ---------- *)
Lemma bsum_ext w : forall f g, (forall b, length b = w -> f b = g b) -> bsum w f = bsum w g.
Proof.
  induction w as [|w IH]; intros f g H; simpl.
  - apply H. reflexivity.
  - f_equal; apply IH; intros b L; apply H; simpl; now rewrite L.
Qed.
Lemma bsum_scale w c : forall f, bsum w (fun b => c * f b) = c * bsum w f.
Proof. induction w as [|w IH]; intros f; simpl. reflexivity. rewrite !IH. ring. Qed.
Lemma bsum_scale_r w c : forall f, bsum w (fun b => f b * c) = bsum w f * c.
Proof. induction w as [|w IH]; intros f; simpl. reflexivity. rewrite !IH. ring. Qed.
Lemma bsum_plus w : forall f g, bsum w (fun b => f b + g b) = bsum w f + bsum w g.
Proof. induction w as [|w IH]; intros f g; simpl. reflexivity. rewrite !IH. ring. Qed.
Lemma bsum_zero w : bsum w (fun _ => rO) = rO.
Proof. induction w as [|w IH]; simpl. reflexivity. rewrite IH. ring. Qed.
(* sum over a product index = double sum *)
Lemma bsum_prod w1 : forall w2 f, bsum (w1 + w2) f = bsum w1 (fun a => bsum w2 (fun b => f (a ++ b))).
Proof. induction w1 as [|w1 IH]; intros w2 f; simpl. reflexivity. rewrite !IH. reflexivity. Qed.
Lemma bsum_swap w1 : forall w2 (f : bits -> bits -> R),
  bsum w1 (fun a => bsum w2 (fun b => f a b)) = bsum w2 (fun b => bsum w1 (fun a => f a b)).
Proof.
  induction w1 as [|w1 IH]; intros w2 f; simpl. reflexivity.
  rewrite !IH. rewrite <- bsum_plus. reflexivity.
Qed.
Lemma bsum_zero_ext w f : (forall b, f b = rO) -> bsum w f = rO.
Proof. intros H. rewrite (bsum_ext w f (fun _ => rO)) by (intros; apply H). apply bsum_zero. Qed.
(* a sum against a Kronecker delta picks one term *)
Lemma bsum_delta w : forall (x : bits) (f : bits -> R), length x = w ->
  bsum w (fun b => (if beq x b then rI else rO) * f b) = f x.
Proof.
  induction w as [|w IH]; intros x f L.
  - destruct x; [|discriminate]. simpl. ring.
  - destruct x as [|h x]; [discriminate|]. injection L as L. destruct h; simpl.
    + transitivity (rO + f (true :: x)); [|ring]. f_equal.
      * apply bsum_zero_ext. intros; ring.
      * apply (IH x (fun b => f (true :: b))). assumption.
    + transitivity (f (false :: x) + rO); [|ring]. f_equal.
      * apply (IH x (fun b => f (false :: b))). assumption.
      * apply bsum_zero_ext. intros; ring.
Qed.

(* ---------- firstn / skipn on concatenations of known length ---------- *)
Lemma firstn_app_exact {A} (a b : list A) w : length a = w -> firstn w (a ++ b) = a.
Proof. intros <-. rewrite firstn_app, Nat.sub_diag, firstn_all. simpl. apply app_nil_r. Qed.
Lemma skipn_app_exact {A} (a b : list A) w : length a = w -> skipn w (a ++ b) = b.
Proof. intros <-. rewrite skipn_app, Nat.sub_diag, skipn_all. reflexivity. Qed.

(* ---------- one einsum contraction step = Kronecker mat-vec ("ab,cd,bd->ac" on the row-major reshape) ---------- *)
Lemma kron_step w1 w2 A B v x :
  mv (w1 + w2) (kron w1 A B) v x =
  bsum w1 (fun b => A (firstn w1 x) b * mv w2 B (fun c => v (b ++ c)) (skipn w1 x)).
Proof.
  unfold mv, kron. rewrite bsum_prod. apply bsum_ext. intros b Lb.
  rewrite <- bsum_scale. apply bsum_ext. intros c Lc.
  rewrite firstn_app_exact, skipn_app_exact by assumption. ring.
Qed.

(* matrix-vector product is associative with the matrix product *)
Lemma mv_mm w A B v r : mv w (mm w A B) v r = mv w A (mv w B v) r.
Proof.
  unfold mv, mm.
  rewrite (bsum_ext w _ (fun c => bsum w (fun k => A r k * B k c * v c))) by (intros; now rewrite bsum_scale_r).
  rewrite bsum_swap. apply bsum_ext. intros k Lk. rewrite <- bsum_scale. apply bsum_ext. intros c Lc. ring.
Qed.
Lemma mv_ext w A B u v : (forall r c, length c = w -> A r c = B r c) -> (forall c, length c = w -> u c = v c) ->
  forall r, mv w A u r = mv w B v r.
Proof. intros HA Hv r. unfold mv. apply bsum_ext. intros c L. now rewrite HA, Hv. Qed.
Lemma mv_idm w v x : length x = w -> mv w idm v x = v x.
Proof. intros L. unfold mv, idm. now apply bsum_delta. Qed.
Lemma mv_add w M u v r : mv w M (fun b => u b + v b) r = mv w M u r + mv w M v r.
Proof. unfold mv. rewrite <- bsum_plus. apply bsum_ext. intros; ring. Qed.
Lemma mv_scale w M c v r : mv w M (fun b => c * v b) r = c * mv w M v r.
Proof. unfold mv. rewrite <- bsum_scale. apply bsum_ext. intros; ring. Qed.

Lemma memo2_get w M r c : length r = w -> length c = w -> memo2 w M r c = M r c.
Proof.
  intros Lr Lc. unfold memo2. rewrite tget_tab by (rewrite app_length; lia).
  now rewrite firstn_app_exact, skipn_app_exact.
Qed.

End M.
