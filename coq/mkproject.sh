#!/bin/sh
# regenerate _CoqProject and Makefile from the .v files present (Gen/ included once generated)
cd "$(dirname "$0")"
{ echo "-Q . QG"; echo "-arg -w -arg -deprecated-hint-without-locality,-deprecated-instance-without-locality,-notation-overridden,-ambiguous-paths"; find Base Sym Model Gen Proofs Props -name '*.v' 2>/dev/null | sort; } > _CoqProject.new
if ! cmp -s _CoqProject.new _CoqProject; then mv _CoqProject.new _CoqProject; coq_makefile -f _CoqProject -o Makefile >/dev/null; else rm _CoqProject.new; [ -f Makefile ] || coq_makefile -f _CoqProject -o Makefile >/dev/null; fi
