(* C12 x C13 — the integrator on the pulses pulse.py ships: both generated files together. *)
From Coq Require Import Reals Lra.
From Coquelicot Require Import Coquelicot.
Require Import QG.Model.Integrals QG.Model.Pulse QG.Gen.GenIntegrator QG.Gen.GenPulse.
Require Import QG.Proofs.Integrals QG.Proofs.IntegralsGen QG.Proofs.PulseGauss.
Open Scope R_scope.

Lemma identity_cont (x : R) : continuous identity x.
Proof. apply (ex_derive_continuous identity). unfold identity. auto_derive. exact I. Qed.

Lemma requires_of_pos (k : key) (theta a : R) : 0 < a -> integrate_requires k theta a.
Proof. intros Ha. unfold integrate_requires. lra. Qed.

Lemma constant_pulse_integrate (k : key) (theta a : R) : 0 < a ->
  is_RInt (fun t => g k (theta * ConstantPulse_parametrization (t / a))) 0 a
          (integrate_cold ConstantPulse_use_lookup ConstantPulse_parametrization k theta a).
Proof.
  intros Ha. apply (integrate_spec ConstantPulse_use_lookup ConstantPulse_parametrization k theta a).
  - now apply requires_of_pos.
  - intros x _. apply identity_cont.
  - intros _ x _. reflexivity.
Qed.

Lemma constant_pulse_numerical_integrate (k : key) (theta a : R) : 0 < a ->
  is_RInt (fun t => g k (theta * ConstantPulseNumerical_parametrization (t / a))) 0 a
          (integrate_cold ConstantPulseNumerical_use_lookup ConstantPulseNumerical_parametrization k theta a).
Proof.
  intros Ha. apply (integrate_spec ConstantPulseNumerical_use_lookup ConstantPulseNumerical_parametrization k theta a).
  - now apply requires_of_pos.
  - intros x _. apply identity_cont.
  - intros _ x _. reflexivity.
Qed.

Lemma gaussian_pulse_integrate (pdf cdf : R -> R -> R -> R) (loc scale : R) (k : key) (theta a : R) :
  (forall x, is_derive (fun y => cdf y loc scale) x (pdf x loc scale)) ->
  (forall x, 0 <= pdf x loc scale) ->
  (forall x, continuous (fun y => pdf y loc scale) x) ->
  validate_inputs_ok cdf loc scale ->
  0 < a ->
  is_RInt (fun t => g k (theta * GaussianPulse_parametrization cdf loc scale (t / a))) 0 a
          (integrate_cold GaussianPulse_use_lookup (GaussianPulse_parametrization cdf loc scale) k theta a).
Proof.
  intros Hd Hp Hc Hacc Ha.
  apply (integrate_spec GaussianPulse_use_lookup (GaussianPulse_parametrization cdf loc scale) k theta a).
  - now apply requires_of_pos.
  - intros x _. apply (F_cont pdf cdf loc scale); assumption.
  - unfold GaussianPulse_use_lookup. intros E. discriminate E.
Qed.
