(* C03 — the layered circuit classes (AlternativeCircuit = Standard / Efficient / One): every native instruction fills one
   complete layer (identity on the untouched qubits, the 4x4 matrix in the row of the control, the placeholder 1 in the
   row of the target); the slot semantics of these layers (C01: layers_sem, which the three backends compute) is the item
   semantics of the index class, hence the same Born theorem.  Ring-generic. *)
From Coq Require Import List Bool Arith ZArith Lia Ring.
Require Import QG.Base.State QG.Model.Backends QG.Proofs.BackendsSpec QG.Proofs.FrameSim QG.Model.NoiseFreeRun QG.Proofs.NoiseFreeRun.
Import ListNotations.

Section Layered.
Variable R : Type.
Variables (rO rI : R) (radd rmul rsub : R -> R -> R) (ropp : R -> R).
Variable Rth : ring_theory rO rI radd rmul rsub ropp eq.
Add Ring Rr : Rth.
Variable A : Type.
Variable K : consts R A.
Notation frame := (frame R). Notation state := (state R). Notation entry := (entry R).
Notation instr := (instr A).
Notation apply1 := (apply1 R radd rmul). Notation apply2 := (apply2 R radd rmul).
Notation sem := (sem R radd rmul).
Notation layer_items := (layer_items R). Notation layers_sem := (layers_sem R radd rmul).
Notation compile := (compile R rO rI radd rmul ropp A K).
Notation fstep := (fstep R rO rI radd rmul ropp A K).
Notation item_of := (item_of R rI rmul).
Notation layer_of := (layer_of R rO rI rmul).
Notation run_items_from := (run_items_from R rO rI radd rmul ropp A K).
Notation run_items := (run_items R rO rI radd rmul ropp A K).
Notation run_layers_from := (run_layers_from R rO rI radd rmul ropp A K).
Notation run_layers := (run_layers R rO rI radd rmul ropp A K).
Notation ideal_items := (ideal_items R rO rI radd rmul ropp A K).
Notation id_entry := (id_entry R rO rI). Notation ctl_of := (ctl_of A).

Definition is_En2 (e : entry) : Prop := match e with En2 _ => True | _ => False end.
Lemma layer_items_app_En2 : forall l1 s l2, Forall is_En2 l1 ->
  layer_items s (l1 ++ l2) = layer_items s l1 ++ layer_items (s + length l1) l2.
Proof.
  induction l1 as [|e l1 IH]; intros s l2 H; cbn [app length].
  - now rewrite Nat.add_0_r.
  - pose proof (Forall_inv H) as He. destruct e as [G| |]; try contradiction.
    cbn [BackendsSpec.layer_items]. rewrite IH by exact (Forall_inv_tail H). cbn [app]. now rewrite Nat.add_succ_r.
Qed.

Definition ids (l : list nat) : list entry := map (fun _ => id_entry) l.
Lemma ids_En2 l : Forall is_En2 (ids l).
Proof. induction l; constructor; simpl; auto. Qed.
Lemma ids_length l : length (ids l) = length l.
Proof. apply map_length. Qed.
Lemma ids_sem s l psi b : sem (layer_items s (ids l)) psi b = psi b.
Proof.
  apply (sem_all_ident R rO rI radd rmul rsub ropp Rth).
  induction l; constructor; auto. intros r c. reflexivity.
Qed.
Lemma map_ids (F : nat -> entry) l : (forall k, In k l -> F k = id_entry) -> map F l = ids l.
Proof. intros H. apply map_ext_in. exact H. Qed.

(* the shape of a layer holding one 2x2 matrix / one 4x4 matrix on the adjacent pair (q1, q1 + 1) stored in row ctl *)
Definition F1 (q : nat) (G : m2 R) : nat -> entry := fun k => if k =? q then En2 G else id_entry.
Definition F2 (q1 ctl : nat) (G : m4 R) : nat -> entry :=
  fun k => if k =? ctl then En4 G else if (k =? q1) || (k =? S q1) then EnOne else id_entry.
Lemma layer1_shape n q G : q < n ->
  map (F1 q G) (seq 0 n) = ids (seq 0 q) ++ En2 G :: ids (seq (S q) (n - S q)).
Proof.
  intros Hq. replace n with (q + S (n - S q)) at 1 by lia. rewrite seq_app, map_app. cbn [seq map Nat.add].
  unfold F1 at 2. rewrite Nat.eqb_refl.
  rewrite (map_ids _ (seq 0 q)), (map_ids _ (seq (S q) (n - S q))); auto.
  - intros k Hk. apply in_seq in Hk. unfold F1. destruct (Nat.eqb_spec k q); [lia | reflexivity].
  - intros k Hk. apply in_seq in Hk. unfold F1. destruct (Nat.eqb_spec k q); [lia | reflexivity].
Qed.
Lemma layer2_shape n q1 ctl G : S q1 < n -> ctl = q1 \/ ctl = S q1 ->
  map (F2 q1 ctl G) (seq 0 n) =
  ids (seq 0 q1) ++ (if ctl =? q1 then [En4 G; EnOne] else [EnOne; En4 G]) ++ ids (seq (S (S q1)) (n - S (S q1))).
Proof.
  intros Hq Hc. replace n with (q1 + S (S (n - S (S q1)))) at 1 by lia. rewrite seq_app, map_app. cbn [seq map Nat.add].
  rewrite (map_ids _ (seq 0 q1)), (map_ids _ (seq (S (S q1)) (n - S (S q1)))).
  - f_equal. unfold F2 at 1 2. rewrite !Nat.eqb_refl. cbn [orb]. rewrite Bool.orb_true_r.
    destruct Hc as [-> | ->].
    + rewrite Nat.eqb_refl. destruct (Nat.eqb_spec (S q1) q1); [lia | reflexivity].
    + rewrite Nat.eqb_refl. destruct (Nat.eqb_spec q1 (S q1)); [lia|]. destruct (Nat.eqb_spec (S q1) q1); [lia | reflexivity].
  - intros k Hk. apply in_seq in Hk. unfold F2.
    destruct (Nat.eqb_spec k ctl); [lia|]. destruct (Nat.eqb_spec k q1); [lia|]. destruct (Nat.eqb_spec k (S q1)); [lia | reflexivity].
  - intros k Hk. apply in_seq in Hk. unfold F2.
    destruct (Nat.eqb_spec k ctl); [lia|]. destruct (Nat.eqb_spec k q1); [lia|]. destruct (Nat.eqb_spec k (S q1)); [lia | reflexivity].
Qed.

Lemma layer1_sem n q (G : m2 R) psi b : q < n ->
  sem (layer_items 0 (map (F1 q G) (seq 0 n))) psi b = apply1 q G psi b.
Proof.
  intros Hq. rewrite layer1_shape by assumption.
  rewrite layer_items_app_En2 by apply ids_En2. rewrite ids_length, seq_length. cbn [Nat.add BackendsSpec.layer_items].
  rewrite sem_app. cbn [State.sem fold_left State.apply_item].
  change (fold_left (fun s0 it0 => State.apply_item R radd rmul it0 s0) ?l ?x) with (sem l x).
  rewrite ids_sem. unfold State.apply1. now rewrite !ids_sem.
Qed.
Lemma layer2_sem n q1 ctl (G : m4 R) psi b : S q1 < n -> ctl = q1 \/ ctl = S q1 ->
  sem (layer_items 0 (map (F2 q1 ctl G) (seq 0 n))) psi b = apply2 q1 (S q1) G psi b.
Proof.
  intros Hq Hc. rewrite layer2_shape by assumption.
  rewrite layer_items_app_En2 by apply ids_En2. rewrite ids_length, seq_length. cbn [Nat.add].
  rewrite sem_app.
  assert (E : forall phi, sem (layer_items q1 ((if ctl =? q1 then [En4 G; EnOne] else [EnOne; En4 G]) ++ ids (seq (S (S q1)) (n - S (S q1))))) phi b
                          = apply2 q1 (S q1) G phi b).
  { intros phi. destruct (ctl =? q1); cbn [app BackendsSpec.layer_items State.sem fold_left State.apply_item];
      change (fold_left (fun s0 it0 => State.apply_item R radd rmul it0 s0) ?l ?x) with (sem l x); now rewrite ids_sem. }
  rewrite E. unfold State.apply2. cbv zeta. now rewrite !ids_sem.
Qed.

(* these layers are well-formed layers over n qubits (what the backend theorems of C01 require) *)
Lemma wf_ids : forall l, wf_layer R (length l) (ids l).
Proof. induction l; cbn; constructor; auto. Qed.
Lemma wf_layer_app : forall l1 n1 n2 l2, wf_layer R n1 l1 -> wf_layer R n2 l2 -> wf_layer R (n1 + n2) (l1 ++ l2).
Proof. intros l1 n1 n2 l2 H1 H2. induction H1; cbn [app Nat.add]; try constructor; auto. Qed.
Lemma layer1_wf n q G : q < n -> wf_layer R n (map (F1 q G) (seq 0 n)).
Proof.
  intros Hq. rewrite layer1_shape by assumption. replace n with (q + S (n - S q)) at 1 by lia.
  apply wf_layer_app; [|constructor].
  - rewrite <- (seq_length q 0) at 1. apply wf_ids.
  - rewrite <- (seq_length (n - S q) (S q)) at 1. apply wf_ids.
Qed.
Lemma layer2_wf n q1 ctl G : S q1 < n -> ctl = q1 \/ ctl = S q1 -> wf_layer R n (map (F2 q1 ctl G) (seq 0 n)).
Proof.
  intros Hq Hc. rewrite layer2_shape by assumption. replace n with (q1 + S (S (n - S (S q1)))) at 1 by lia.
  apply wf_layer_app.
  - rewrite <- (seq_length q1 0) at 1. apply wf_ids.
  - destruct (ctl =? q1); cbn [app]; constructor; rewrite <- (seq_length (n - S (S q1)) (S (S q1))) at 1; apply wf_ids.
Qed.

(* one instruction: the layer means what the index class's item means *)
Lemma layer_of_sem n f fi x psi b : wf_instr n x -> adjacent_instr x ->
  sem (concat (map (layer_items 0) (layer_of n f fi (compile f fi x) (ctl_of x)))) psi b = sem (item_of f fi (compile f fi x)) psi b.
Proof.
  intros W Ad. destruct x as [q th|q|q|c t|c t]; cbn [wf_instr adjacent_instr] in W, Ad; cbn [NoiseFreeRun.compile ctl_of].
  - reflexivity.
  - cbn [NoiseFreeRun.layer_of NoiseFreeRun.item_of map concat]. rewrite app_nil_r. now apply (layer1_sem n q).
  - cbn [NoiseFreeRun.layer_of NoiseFreeRun.item_of map concat]. rewrite app_nil_r. now apply (layer1_sem n q).
  - destruct W as (Hc & Ht & Hne). unfold NoiseFreeRun.compile2. destruct (Nat.ltb_spec c t) as [L|L];
      cbn [NoiseFreeRun.layer_of NoiseFreeRun.item_of map concat]; rewrite app_nil_r.
    + assert (t = S c) by lia. subst t. apply (layer2_sem n c c); auto.
    + assert (c = S t) by lia. subst c. apply (layer2_sem n t (S t)); auto.
  - destruct W as (Hc & Ht & Hne). unfold NoiseFreeRun.compile2. destruct (Nat.ltb_spec c t) as [L|L];
      cbn [NoiseFreeRun.layer_of NoiseFreeRun.item_of map concat]; rewrite app_nil_r.
    + assert (t = S c) by lia. subst t. apply (layer2_sem n c c); auto.
    + assert (c = S t) by lia. subst c. apply (layer2_sem n t (S t)); auto.
Qed.

Lemma run_layers_sem_from n : forall p ff s t, Forall (wf_instr n) p -> Forall adjacent_instr p ->
  (forall b, s b = t b) -> forall b, layers_sem (run_layers_from n ff p) s b = sem (run_items_from ff p) t b.
Proof.
  induction p as [|x r IH]; intros ff s t W Ad H b; [apply H|].
  cbn [NoiseFreeRun.run_layers_from NoiseFreeRun.run_items_from]. unfold BackendsSpec.layers_sem.
  rewrite map_app, concat_app, !sem_app.
  apply (IH (fstep ff x)); [exact (Forall_inv_tail W) | exact (Forall_inv_tail Ad) |].
  intros c. rewrite (layer_of_sem n _ _ x s c (Forall_inv W) (Forall_inv Ad)).
  apply (sem_ext_all R radd rmul). exact H.
Qed.

(* the layers of a run (all phases zero at the start) mean exactly the item list of the index class *)
Theorem run_layers_sem n p psi : Forall (wf_instr n) p -> Forall adjacent_instr p ->
  forall b, layers_sem (run_layers n p) psi b = sem (run_items p) psi b.
Proof. intros W Ad b. apply (run_layers_sem_from n p); auto. Qed.

(* every layer of a run is a well-formed layer over n qubits *)
Lemma layer_of_wf n f fi x : wf_instr n x -> adjacent_instr x ->
  Forall (wf_layer R n) (layer_of n f fi (compile f fi x) (ctl_of x)).
Proof.
  intros W Ad. destruct x as [q th|q|q|c t|c t]; cbn [wf_instr adjacent_instr] in W, Ad; cbn [NoiseFreeRun.compile ctl_of].
  - constructor.
  - cbn [NoiseFreeRun.layer_of]. constructor; [|constructor]. now apply (layer1_wf n q).
  - cbn [NoiseFreeRun.layer_of]. constructor; [|constructor]. now apply (layer1_wf n q).
  - destruct W as (Hc & Ht & Hne). unfold NoiseFreeRun.compile2. destruct (Nat.ltb_spec c t) as [L|L];
      cbn [NoiseFreeRun.layer_of]; (constructor; [|constructor]).
    + assert (t = S c) by lia. subst t. apply (layer2_wf n c c); auto.
    + assert (c = S t) by lia. subst c. apply (layer2_wf n t (S t)); auto.
  - destruct W as (Hc & Ht & Hne). unfold NoiseFreeRun.compile2. destruct (Nat.ltb_spec c t) as [L|L];
      cbn [NoiseFreeRun.layer_of]; (constructor; [|constructor]).
    + assert (t = S c) by lia. subst t. apply (layer2_wf n c c); auto.
    + assert (c = S t) by lia. subst c. apply (layer2_wf n t (S t)); auto.
Qed.
Theorem run_layers_wf n p : Forall (wf_instr n) p -> Forall adjacent_instr p -> Forall (wf_layer R n) (run_layers n p).
Proof.
  intros W Ad. unfold NoiseFreeRun.run_layers. generalize (ff_one R rI). revert W Ad.
  induction p as [|x r IH]; intros W Ad ff; cbn [NoiseFreeRun.run_layers_from]; [constructor|].
  apply Forall_app. split.
  - apply layer_of_wf; [exact (Forall_inv W) | exact (Forall_inv Ad)].
  - apply IH; [exact (Forall_inv_tail W) | exact (Forall_inv_tail Ad)].
Qed.

(* Born weights of the layered classes *)
Theorem noise_free_born_layered cj : consts_ok R rI rmul ropp A K -> conj_ok R rI rmul ropp A K cj ->
  forall n p psi0, Forall (wf_instr n) p -> Forall adjacent_instr p ->
  forall b, length b = n ->
  nrm R rmul cj (layers_sem (run_layers n p) psi0 b) = nrm R rmul cj (sem (ideal_items p) psi0 b).
Proof.
  intros OK CJ n p psi0 W Ad b Hb. rewrite (run_layers_sem n p psi0 W Ad b).
  exact (noise_free_born_index R rO rI radd rmul rsub ropp Rth A K OK cj CJ n p psi0 W b Hb).
Qed.

End Layered.
