(* C12 — calculus about the specification side only (independent of the generated file):
   H k is an antiderivative of g k; change of variable; the closed value of int_0^a g_k(theta*(t/a)) dt. *)
From Coq Require Import Reals Lra Lia.
From Coquelicot Require Import Coquelicot.
Require Import QG.Model.Integrals.
Open Scope R_scope.

Lemma sin_half_sq (x : R) : sin (x / 2) ^ 2 = (1 - cos x) / 2.
Proof.
  replace x with (2 * (x / 2)) at 2 by field. rewrite cos_2a_sin. field.
Qed.

Lemma cos_half_sq (x : R) : cos (x / 2) ^ 2 = (1 + cos x) / 2.
Proof.
  replace x with (2 * (x / 2)) at 2 by field. rewrite cos_2a_cos. field.
Qed.

Lemma sin_sq_cos (x : R) : sin x ^ 2 = 1 - cos x ^ 2.
Proof. generalize (sin2_cos2 x). unfold Rsqr. intros E. simpl. lra. Qed.

Lemma cos2x_cos (x : R) : cos (2 * x) = 2 * cos x ^ 2 - 1.
Proof. rewrite cos_2a_cos. simpl. ring. Qed.

Lemma sin_half_double (x : R) : sin x = 2 * sin (x / 2) * cos (x / 2).
Proof. replace x with (2 * (x / 2)) at 1 by field. apply sin_2a. Qed.

(* H k is an antiderivative of g k, everywhere *)
Lemma H_derive (k : key) (x : R) : is_derive (H k) x (g k x).
Proof.
  destruct k; unfold H, g; auto_derive; try exact I.
  - (* sin^2 *) rewrite cos2x_cos, sin_sq_cos. field.
  - (* sin(x/2)^4 *)
    replace (sin (x / 2) ^ 4) with ((sin (x / 2) ^ 2) ^ 2) by ring.
    rewrite sin_half_sq, cos2x_cos. field.
  - (* sin x * sin(x/2)^2 ; H = sin(x/2)^4 *)
    rewrite (sin_half_double x). unfold Rdiv. field.
  - rewrite sin_half_sq. field.
  - rewrite cos2x_cos. field.
  - simpl. field.
  - ring.
  - rewrite cos_half_sq. field.
Qed.

Lemma g_continuous (k : key) (x : R) : continuous (g k) x.
Proof.
  apply (ex_derive_continuous (g k)). destruct k; unfold g; auto_derive; exact I.
Qed.

(* the specified integral for the constant pulse, theta <> 0 *)
Lemma spec_const_closed (k : key) (theta a : R) : theta <> 0 -> 0 < a ->
  is_RInt (fun t => g k (theta * (t / a))) 0 a (closed k theta a).
Proof.
  intros Hth Ha.
  assert (Ha' : a <> 0) by lra.
  pose (G := fun t : R => a / theta * H k (theta * (t / a))).
  replace (closed k theta a) with (G a - G 0).
  2:{ unfold G, closed. replace (theta * (a / a)) with theta by (field; lra).
      replace (theta * (0 / a)) with 0 by (field; lra). ring. }
  apply (is_RInt_derive G).
  - intros t _. unfold G.
    evar (d : R).
    assert (E : is_derive (fun t0 : R => a / theta * H k (theta * (t0 / a))) t d).
    { apply (is_derive_scal (fun t0 => H k (theta * (t0 / a))) t (a / theta)).
      apply (is_derive_comp (H k) (fun t0 => theta * (t0 / a))).
      - apply H_derive.
      - auto_derive. exact I. reflexivity. }
    replace (g k (theta * (t / a))) with d. exact E.
    unfold d. unfold scal; simpl; unfold mult; simpl. field. lra.
  - intros t _.
    apply (continuous_comp (fun t0 => theta * (t0 / a)) (g k)).
    + apply (ex_derive_continuous (fun t0 => theta * (t0 / a))). auto_derive. exact I.
    + apply g_continuous.
Qed.

(* theta = 0: the integrand is the constant g k 0 *)
Lemma spec_const_zero (k : key) (a : R) :
  is_RInt (fun t => g k (0 * (t / a))) 0 a (a * g k 0).
Proof.
  replace (a * g k 0) with (scal (a - 0) (g k 0)) by (unfold scal; simpl; unfold mult; simpl; ring).
  apply (is_RInt_ext (fun _ => g k 0)).
  - intros t _. f_equal. ring.
  - apply (@is_RInt_const R_CompleteNormedModule).
Qed.

(* the closed form tends to the theta = 0 value:  closed k theta a -> a * g k 0  as theta -> 0 *)
Lemma closed_limit (k : key) (a : R) :
  is_lim (fun theta => closed k theta a) 0 (a * g k 0).
Proof.
  assert (D := H_derive k 0).
  apply is_derive_Reals in D.
  apply is_lim_spec. intros eps. simpl.
  assert (Hpos : 0 < eps / (Rabs a + 1)).
  { apply Rdiv_lt_0_compat. apply eps. generalize (Rabs_pos a). lra. }
  destruct (D _ Hpos) as [delta Hd].
  exists delta. intros y Hy Hne.
  assert (Hy0 : y <> 0) by (intros E; apply Hne; now rewrite E).
  specialize (Hd y Hy0).
  assert (Hlt : Rabs y < delta).
  { unfold ball in Hy; simpl in Hy; unfold AbsRing_ball, abs, minus, plus, opp in Hy; simpl in Hy.
    rewrite Ropp_0, Rplus_0_r in Hy. exact Hy. }
  specialize (Hd Hlt). rewrite Rplus_0_l in Hd.
  unfold closed.
  replace (a / y * (H k y - H k 0) - a * g k 0) with (a * ((H k y - H k 0) / y - g k 0)) by (field; exact Hy0).
  rewrite Rabs_mult.
  apply Rle_lt_trans with (Rabs a * (eps / (Rabs a + 1))).
  - apply Rmult_le_compat_l. apply Rabs_pos. lra.
  - generalize (Rabs_pos a); intros Hp.
    replace (pos eps) with ((Rabs a + 1) * (eps / (Rabs a + 1))) at 2 by (field; lra).
    apply Rmult_lt_compat_r; lra.
Qed.

(* general pulse: continuity of the specified integrand on [0,a] when F is continuous on [0,1] *)
Lemma spec_integrand_continuous (F : R -> R) (k : key) (theta a t : R) :
  0 < a -> (forall x, 0 <= x <= 1 -> continuous F x) -> 0 <= t <= a ->
  continuous (fun t => spec_integrand F k theta a t) t.
Proof.
  intros Ha HF Ht. unfold spec_integrand.
  apply (continuous_comp (fun t0 => theta * F (t0 / a)) (g k)).
  - apply (continuous_scal_r theta (fun t0 => F (t0 / a))).
    apply (continuous_comp (fun t0 => t0 / a) F).
    + apply (ex_derive_continuous (fun t0 => t0 / a)). auto_derive. exact I.
    + apply HF. split.
      * apply Rmult_le_pos. lra. left. now apply Rinv_0_lt_compat.
      * apply (Rmult_le_reg_r a). lra. unfold Rdiv. rewrite Rmult_assoc, Rinv_l; lra.
  - apply g_continuous.
Qed.

Lemma spec_integrable (F : R -> R) (k : key) (theta a : R) :
  0 < a -> (forall x, 0 <= x <= 1 -> continuous F x) ->
  ex_RInt (fun t => spec_integrand F k theta a t) 0 a.
Proof.
  intros Ha HF. apply (@ex_RInt_continuous R_CompleteNormedModule).
  intros t Ht. rewrite Rmin_left, Rmax_right in Ht by lra.
  now apply spec_integrand_continuous.
Qed.
