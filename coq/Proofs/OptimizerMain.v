(* The optimizer as a whole: for every level 0..4, every qubit count and every well-formed gate list the model
   returns normally a list that is no longer, again well-formed, and the same linear operator. *)
From Coq Require Import List Bool Arith ZArith Lia Ring.
Require Import QG.Base.Res QG.Base.State QG.Model.Optimizer QG.Proofs.OptimizerSem QG.Proofs.OptimizerL13
  QG.Proofs.OptimizerL2 QG.Proofs.OptimizerL4.
Import ListNotations.

Section Main.
Variable R : Type.
Variables (rO rI : R) (radd rmul rsub : R -> R -> R) (ropp : R -> R).
Variable Rth : ring_theory rO rI radd rmul rsub ropp eq.

Notation mat := (mat R).
Notation mmul := (mmul R radd rmul).
Notation mkron := (mkron R rmul).
Notation mid2 := (mid2 R rO rI).
Notation mid4 := (mid4 R rO rI).
Notation mitem := (mat * list Z)%type.
Notation wfn := (wfn R).
Notation wf_in := (wf_in R).
Notation equiv := (equiv R rO rI radd rmul).
Notation den := (den R rO rI).
Notation eq_trans := (equiv_trans R rO rI radd rmul).
Notation L1 := (lvl1_spec R rO rI radd rmul rsub ropp Rth).
Notation L2 := (lvl2_spec R rO rI radd rmul rsub ropp Rth).
Notation L3 := (lvl3_spec R rO rI radd rmul rsub ropp Rth).
Notation L4 := (lvl4_spec R rO rI radd rmul rsub ropp Rth).

Variable n : nat.

Definition good (gl out : list mitem) : Prop :=
  length out <= length gl /\ Forall (wfn n) out /\ equiv n out gl /\ (gl <> [] -> out <> []).

Lemma good_trans a b c : good a b -> good b c -> good a c.
Proof.
  intros (A1 & A2 & A3 & A4) (B1 & B2 & B3 & B4). split; [lia|]. split; auto. split; [eapply eq_trans; eauto|auto].
Qed.

Lemma pipe1 gl : Forall (wfn n) gl -> exists r, opt1 mat mmul mid2 gl = Ok r /\ good gl r /\ noadj R r.
Proof. intros H. destruct (L1 n gl H) as (r & A & B & C & D & E & F). exists r. unfold good. auto 7. Qed.

Lemma pipe2 gl : Forall (wfn n) gl ->
  exists r, (r1 <- opt1 mat mmul mid2 gl ;; opt2 mat mmul mkron mid2 r1) = Ok r /\ good gl r.
Proof.
  intros H. destruct (pipe1 gl H) as (r1 & E1 & G1 & N1). rewrite E1. cbn [rbind].
  destruct (L2 n r1) as (r & A & B & C & D & E); auto. { apply G1. }
  exists r. split; auto. eapply good_trans; [exact G1|]. unfold good. auto.
Qed.

Lemma pipe3 gl : Forall (wfn n) gl ->
  exists r, (r1 <- opt1 mat mmul mid2 gl ;; r2 <- opt2 mat mmul mkron mid2 r1 ;; opt3 mat mmul mid4 r2) = Ok r /\ good gl r.
Proof.
  intros H. destruct (pipe2 gl H) as (r2 & E2 & G2).
  destruct (opt1 mat mmul mid2 gl) as [r1|]; [|discriminate]. cbn [rbind] in *. rewrite E2. cbn [rbind].
  destruct (L3 n r2) as (r & A & B & C & D & E). { apply G2. }
  exists r. split; auto. eapply good_trans; [exact G2|]. unfold good. auto.
Qed.

Lemma pipe4 gl : Forall (wfn n) gl -> gl <> [] ->
  exists r, (r1 <- opt1 mat mmul mid2 gl ;; r2 <- opt2 mat mmul mkron mid2 r1 ;; r3 <- opt3 mat mmul mid4 r2 ;;
             opt4 mat mmul mid2 n r3) = Ok r /\ length r <= length gl /\ Forall (wfn n) r /\ equiv n r gl.
Proof.
  intros H Hne. destruct (pipe3 gl H) as (r3 & E3 & G3).
  destruct (opt1 mat mmul mid2 gl) as [r1|]; [|discriminate]. cbn [rbind] in *.
  destruct (opt2 mat mmul mkron mid2 r1) as [r2|]; [|discriminate]. cbn [rbind] in *. rewrite E3. cbn [rbind].
  destruct G3 as (A1 & A2 & A3 & A4).
  destruct (L4 n r3) as (r & A & B & C & D); auto.
  exists r. split; auto. split; [lia|]. split; auto. eapply eq_trans; eauto.
Qed.

Lemma norm_items_spec (items : list mitem) : Forall (wf_in n) items ->
  Forall (wfn n) (map (norm_item mat) items) /\ map den (map (norm_item mat) items) = map den items.
Proof.
  induction items as [|it l IH]; intros H; simpl; auto.
  apply Forall_inv in H as Hi. apply Forall_inv_tail in H.
  destruct (wf_in_norm R rO rI n it Hi) as [W E]. destruct (IH H) as [W' E'].
  split; [constructor; auto|]. rewrite E, E'. reflexivity.
Qed.

Theorem optimize_sound level (items : list mitem) : level <= 4 -> Forall (wf_in n) items ->
  exists out, optimize mat mmul mkron mid2 mid4 level n items = Ok out /\ length out <= length items /\
    Forall (wfn n) out /\ equiv n out items.
Proof.
  intros Hl Hwf. destruct (norm_items_spec items Hwf) as [W E].
  assert (Q : equiv n (map (norm_item mat) items) items).
  { intros psi. unfold msem. rewrite E. apply state_eq_refl. }
  assert (Len : length (map (norm_item mat) items) = length items) by apply map_length.
  set (items' := map (norm_item mat) items) in *.
  assert (Z0 : exists out, Ok items' = Ok out /\ length out <= length items /\ Forall (wfn n) out /\ equiv n out items).
  { exists items'. repeat split; auto. lia. }
  unfold optimize. replace (Nat.ltb 4 level) with false by (symmetry; apply Nat.ltb_ge; lia).
  fold items'.
  destruct (Nat.leb (length items) 2) eqn:E2; [exact Z0|].
  destruct (Nat.eqb n 1) eqn:E1; [exact Z0|].
  apply Nat.leb_gt in E2.
  assert (Hne : items' <> []) by (intros K; rewrite K in Len; simpl in Len; lia).
  destruct level as [|[|[|[|[|level]]]]]; try lia.
  - exact Z0.
  - destruct (pipe1 items' W) as (r & A & (B1 & B2 & B3 & B4) & _).
    exists r. split; auto. split; [lia|]. split; auto. eapply eq_trans; eauto.
  - destruct (pipe2 items' W) as (r & A & (B1 & B2 & B3 & B4)).
    exists r. split; auto. split; [lia|]. split; auto. eapply eq_trans; eauto.
  - destruct (pipe3 items' W) as (r & A & (B1 & B2 & B3 & B4)).
    exists r. split; auto. split; [lia|]. split; auto. eapply eq_trans; eauto.
  - destruct (pipe4 items' W Hne) as (r & A & B1 & B2 & B3).
    exists r. split; auto. split; [lia|]. split; auto. eapply eq_trans; eauto.
Qed.

(* the same statement in the vocabulary of Base/State.v *)
Theorem optimize_sound_state level (items : list mitem) : level <= 4 -> Forall (wf_in n) items ->
  exists out, optimize mat mmul mkron mid2 mid4 level n items = Ok out /\ length out <= length items /\
    Forall (wf_item R n) (map den out) /\
    forall psi, state_eq R n (sem R radd rmul (map den out) psi) (sem R radd rmul (map den items) psi).
Proof.
  intros Hl Hwf. destruct (optimize_sound level items Hl Hwf) as (out & A & B & C & D).
  exists out. split; auto. split; auto. split; [|exact D].
  apply Forall_forall. intros x Hx. apply in_map_iff in Hx. destruct Hx as (it & <- & Hi).
  apply wfn_wf_item. rewrite Forall_forall in C. auto.
Qed.

Lemma wf_in_wf_item it : wf_in n it -> wf_item R n (den it).
Proof. intros H. destruct (wf_in_norm R rO rI n it H) as [W E]. rewrite <- E. now apply wfn_wf_item. Qed.

End Main.
