(* C18 — the phase-ring interface discharged for Coquelicot's complex numbers:
     e a k := cos(2 pi a / 2^k) + i sin(2 pi a / 2^k),   h := 1/sqrt 2.
   All laws of the record PhaseRing are proved here from the real-analysis library (no hypothesis is left). *)
From Coq Require Import Reals ZArith Lra Lia Ring Field List Bool.
From Coquelicot Require Import Complex.
Require Import QG.Base.Res QG.Base.State QG.Base.PathProd QG.Model.Bench QG.Proofs.BenchLists QG.Proofs.BenchSem
  QG.Proofs.BenchGHZ QG.Proofs.BenchQFT.
Local Open Scope R_scope.

Definition ang (a : Z) (k : nat) : R := 2 * PI * IZR a / 2 ^ k.
Definition Ce (a : Z) (k : nat) : C := (cos (ang a k), sin (ang a k)).
Definition Ch : C := RtoC (/ sqrt 2).

Lemma pow2_nz k : 2 ^ k <> 0.
Proof. apply pow_nonzero. lra. Qed.

Lemma ang_add a b k : ang (a + b) k = ang a k + ang b k.
Proof. unfold ang. rewrite plus_IZR. field. apply pow2_nz. Qed.
Lemma ang_scale a k : ang (2 * a) (S k) = ang a k.
Proof. unfold ang. rewrite mult_IZR. simpl. field. apply pow2_nz. Qed.

Lemma Ce_add a b k : Cmult (Ce a k) (Ce b k) = Ce (a + b) k.
Proof.
  unfold Ce, Cmult. simpl. rewrite ang_add, cos_plus, sin_plus. f_equal; ring.
Qed.
Lemma Ce_zero k : Ce 0 k = RtoC 1.
Proof.
  unfold Ce, ang, RtoC. replace (2 * PI * 0 / 2 ^ k) with 0 by (field; apply pow2_nz).
  now rewrite cos_0, sin_0.
Qed.
Lemma Ce_scale a k : Ce (2 * a) (S k) = Ce a k.
Proof. unfold Ce. now rewrite ang_scale. Qed.
Lemma Ce_half : Ce 1 1 = Copp (RtoC 1).
Proof.
  unfold Ce, ang, RtoC, Copp. simpl. replace (2 * PI * 1 / (2 * 1)) with PI by field.
  rewrite cos_PI, sin_PI. f_equal. ring.
Qed.
Lemma Ch_half : Cplus (Cmult Ch Ch) (Cmult Ch Ch) = RtoC 1.
Proof.
  unfold Ch. rewrite <- RtoC_mult, <- RtoC_plus. f_equal.
  assert (H : sqrt 2 * sqrt 2 = 2) by (apply sqrt_sqrt; lra).
  assert (N : sqrt 2 <> 0) by (intros E; rewrite E in H; lra).
  replace (/ sqrt 2 * / sqrt 2) with (/ (sqrt 2 * sqrt 2)) by (field; exact N). rewrite H. field.
Qed.

Definition C_ring_theory : ring_theory (RtoC 0) (RtoC 1) Cplus Cmult Cminus Copp eq := F_R C_field_theory.

Definition CPhase : PhaseRing :=
  {| pR := C; p0 := RtoC 0; p1 := RtoC 1; padd := Cplus; pmul := Cmult; psub := Cminus; popp := Copp;
     pth := C_ring_theory; pe := Ce; ph := Ch;
     pe_add := Ce_add; pe_zero := Ce_zero; pe_scale := Ce_scale; pe_half := Ce_half; ph_half := Ch_half |}.

(* Born weights in C *)
Lemma Cmod2_h : (Cmod Ch) ^ 2 = 1 / 2.
Proof.
  unfold Ch. rewrite Cmod_R. rewrite <- Rsqr_pow2, <- Rsqr_abs. unfold Rsqr.
  assert (H : sqrt 2 * sqrt 2 = 2) by (apply sqrt_sqrt; lra).
  assert (N : sqrt 2 <> 0) by (intros E; rewrite E in H; lra).
  replace (/ sqrt 2 * / sqrt 2) with (/ (sqrt 2 * sqrt 2)) by (field; exact N). rewrite H. lra.
Qed.
Lemma Cmod_Ce a k : Cmod (Ce a k) = 1.
Proof.
  unfold Cmod, Ce. simpl. rewrite !Rmult_1_r.
  replace (cos (ang a k) * cos (ang a k) + sin (ang a k) * sin (ang a k)) with 1.
  apply sqrt_1. pose proof (sin2_cos2 (ang a k)) as H. unfold Rsqr in H. lra.
Qed.
