(* Proofs about Model/Cache.v: the integration cache is transparent (cached = uncached after ANY history), the key is
   complete, integrators do not interfere, and sampling a gate is independent of the cache contents. *)
From Coq Require Import List Bool Arith Lia.
Require Import QG.Base.Res QG.Model.Cache.
Import ListNotations.

Section CacheProofs.
Variables I T A V P : Type.
Variables (I_eqb : I -> I -> bool) (T_eqb : T -> T -> bool) (A_eqb : A -> A -> bool).
Hypothesis I_eqb_spec : forall x y, I_eqb x y = true <-> x = y.
Hypothesis T_eqb_spec : forall x y, T_eqb x y = true <-> x = y.
Hypothesis A_eqb_spec : forall x y, A_eqb x y = true <-> x = y.
Variable known : I -> bool.
Variable a_pos : A -> bool.
Variable eval : P -> I -> T -> A -> res V.

Notation key := (option I * option T * option A)%type (only parsing).
Notation cache := (list ((option I * option T * option A) * V)) (only parsing).
Notation keqb := (key_eqb I T A I_eqb T_eqb A_eqb).
Notation look := (lookup I T A V I_eqb T_eqb A_eqb).
Notation stor := (store I T A V I_eqb T_eqb A_eqb).
Notation mkk := (mk_key I T A).
Notation integ_on := (integrate_on I T A V P I_eqb T_eqb A_eqb known a_pos eval).
Notation integr := (integrate I T A V P I_eqb T_eqb A_eqb known a_pos eval).
Notation uncach := (uncached I T A V P known a_pos eval).

(* ------------------------------------------------------------------ dictionary laws *)
Lemma opt_eqb_spec X (e : X -> X -> bool) (He : forall x y, e x y = true <-> x = y) (x y : option X) :
  opt_eqb e x y = true <-> x = y.
Proof.
  destruct x as [u|], y as [v|]; simpl; split; intro H; try discriminate; try reflexivity.
  - apply He in H. now subst.
  - injection H as ->. now apply He.
Qed.

Lemma keqb_spec (k1 k2 : key) : keqb k1 k2 = true <-> k1 = k2.
Proof.
  destruct k1 as [[i1 t1] a1], k2 as [[i2 t2] a2]. unfold key_eqb. cbn [fst snd].
  rewrite !andb_true_iff, (opt_eqb_spec _ _ I_eqb_spec), (opt_eqb_spec _ _ T_eqb_spec), (opt_eqb_spec _ _ A_eqb_spec).
  split.
  - intros [[-> ->] ->]. reflexivity.
  - intros H. injection H as -> -> ->. auto.
Qed.
Lemma keqb_refl k : keqb k k = true.
Proof. now apply keqb_spec. Qed.

Lemma lookup_store_same k v (c : cache) : look k (stor k v c) = Some v.
Proof.
  induction c as [|[k' v'] r IH]; simpl.
  - now rewrite keqb_refl.
  - destruct (keqb k k') eqn:E; simpl; rewrite E; auto.
Qed.
Lemma lookup_store_other k k2 v (c : cache) : keqb k2 k = false -> look k2 (stor k v c) = look k2 c.
Proof.
  intros Hne. induction c as [|[k' v'] r IH]; simpl.
  - now rewrite Hne.
  - destruct (keqb k k') eqn:E; simpl.
    + apply keqb_spec in E. subst k'. now rewrite Hne.
    + destruct (keqb k2 k'); auto.
Qed.

(* ================================================================== full key, one integrator *)
Section Full.
Variable sh : shape.
Hypothesis Hfull : sh = full_shape.

Lemma mk_key_full i th a : mkk sh i th a = (Some i, Some th, Some a).
Proof. subst sh. reflexivity. Qed.

(* key_complete, syntactic half: with the full key, equal keys mean equal arguments *)
Lemma mk_key_inj i th a i' th' a' : mkk sh i th a = mkk sh i' th' a' -> i = i' /\ th = th' /\ a = a'.
Proof. rewrite !mk_key_full. intros H. injection H as -> -> ->. auto. Qed.

(* the invariant: every entry is the uncached evaluation of its own key, and only validated keys are stored *)
Definition cache_inv (p : P) (c : cache) : Prop :=
  forall i th a v, look (mkk sh i th a) c = Some v -> eval p i th a = Ok v /\ known i = true /\ a_pos a = true.

Lemma cache_inv_nil p : cache_inv p [].
Proof. intros i th a v H. discriminate. Qed.

(* one call: the answer is the uncached answer (value or exception), and the invariant is kept *)
Lemma integrate_on_sound p c i th a :
  cache_inv p c ->
  match integ_on sh p c i th a with
  | Ok (v, c', _) => uncach p i th a = Ok v /\ cache_inv p c'
  | Err e => uncach p i th a = Err e
  end.
Proof.
  intros Hinv. unfold integrate_on, uncached.
  destruct (look (mkk sh i th a) c) as [v|] eqn:L.
  - destruct (Hinv _ _ _ _ L) as (He & Hk & Ha). rewrite Hk, Ha. simpl. auto.
  - destruct (known i) eqn:Hk; simpl; auto.
    destruct (a_pos a) eqn:Ha; simpl; auto.
    destruct (eval p i th a) as [y|e] eqn:He; simpl; auto.
    split; auto.
    intros i' th' a' v' H.
    destruct (keqb (mkk sh i' th' a') (mkk sh i th a)) eqn:E.
    + apply keqb_spec in E. apply mk_key_inj in E. destruct E as (-> & -> & ->).
      rewrite lookup_store_same in H. injection H as <-. auto.
    + rewrite lookup_store_other in H by exact E. apply Hinv. exact H.
Qed.

(* the recomputation flag is exactly "the key was absent" *)
Lemma integrate_on_flag p c i th a v c' b :
  integ_on sh p c i th a = Ok (v, c', b) -> b = match look (mkk sh i th a) c with Some _ => false | None => true end.
Proof.
  unfold integrate_on. destruct (look (mkk sh i th a) c).
  - intros H. now injection H as _ _ <-.
  - destruct (negb (known i)); [discriminate|]. destruct (negb (a_pos a)); [discriminate|].
    destruct (eval p i th a); simpl; [|discriminate]. intros H. now injection H as _ _ <-.
Qed.

(* states an integrator can be in: any sequence of calls (calls that raise leave the dictionary as it was) *)
Inductive reach (p : P) : cache -> Prop :=
| reach_new : reach p []
| reach_call c i th a v c' b : reach p c -> integ_on sh p c i th a = Ok (v, c', b) -> reach p c'.

Theorem cache_inv_reach p c : reach p c -> cache_inv p c.
Proof.
  induction 1 as [|c i th a v c' b Hr IH Hc].
  - apply cache_inv_nil.
  - pose proof (integrate_on_sound p c i th a IH) as S. rewrite Hc in S. apply S.
Qed.

Theorem cached_eq_uncached p c i th a :
  reach p c -> rmap (fun r => fst (fst r)) (integ_on sh p c i th a) = uncach p i th a.
Proof.
  intros Hr. pose proof (integrate_on_sound p c i th a (cache_inv_reach _ _ Hr)) as S.
  destruct (integ_on sh p c i th a) as [[[v c'] b]|e]; simpl.
  - symmetry. apply S.
  - symmetry. exact S.
Qed.

(* key_complete, semantic half: two requests that hit the same entry have the same uncached value, so equal angles with
   different durations (or equal durations with different angles) cannot be confused *)
Theorem key_complete p i th a i' th' a' :
  keqb (mkk sh i th a) (mkk sh i' th' a') = true -> uncach p i th a = uncach p i' th' a'.
Proof. intros E. apply keqb_spec in E. apply mk_key_inj in E. destruct E as (-> & -> & ->). reflexivity. Qed.
Theorem distinct_requests_distinct_keys i th a i' th' a' :
  (i <> i' \/ th <> th' \/ a <> a') -> keqb (mkk sh i th a) (mkk sh i' th' a') = false.
Proof.
  intros H. destruct (keqb (mkk sh i th a) (mkk sh i' th' a')) eqn:E; auto.
  apply keqb_spec in E. apply mk_key_inj in E. destruct E as (-> & -> & ->). destruct H as [H|[H|H]]; now elim H.
Qed.

(* ---------------------------------------------------------------- several integrators in one process *)
Hypothesis Hper : per_instance sh = true.
Notation wst := (wstep I T A V P I_eqb T_eqb A_eqb known a_pos eval sh).

Definition world_inv (w : world I T A V P) : Prop :=
  Forall (fun g => cache_inv (pulse _ _ _ _ _ g) (cache_of _ _ _ _ _ g)) (objs _ _ _ _ _ w).

Lemma nth_error_set_obj_same (l : list (integ I T A V P)) k g x :
  nth_error l k = Some x -> nth_error (set_obj I T A V P k g l) k = Some g.
Proof. revert k. induction l; intros [|k] H; simpl in *; try discriminate; auto. Qed.
Lemma nth_error_set_obj_other (l : list (integ I T A V P)) k j g :
  j <> k -> nth_error (set_obj I T A V P k g l) j = nth_error l j.
Proof. revert k j. induction l; intros [|k] [|j] H; simpl; auto. now elim H. Qed.
Lemma Forall_set_obj (Q : integ I T A V P -> Prop) l k g : Forall Q l -> Q g -> Forall Q (set_obj I T A V P k g l).
Proof.
  intros Hl Hg. revert k. induction Hl; intros [|k]; simpl; constructor; auto.
Qed.

(* instances_disjoint: a call on integrator k leaves every other integrator (and nothing else exists) untouched *)
Theorem instances_disjoint w k i th a w' out :
  wst w (WInt I T A P k i th a) = Ok (w', out) ->
  (forall j, j <> k -> nth_error (objs _ _ _ _ _ w') j = nth_error (objs _ _ _ _ _ w) j) /\
  shared _ _ _ _ _ w' = shared _ _ _ _ _ w /\ length (objs _ _ _ _ _ w') = length (objs _ _ _ _ _ w).
Proof.
  unfold wstep. destruct (nth_error (objs _ _ _ _ _ w) k) as [g|] eqn:N; [|discriminate].
  rewrite Hper. destruct (integr sh g i th a) as [[[v g'] b]|e]; simpl; [|discriminate].
  intros H. injection H as <- _. cbn [objs shared]. repeat split.
  - intros j Hj. now apply nth_error_set_obj_other.
  - clear N. generalize (objs _ _ _ _ _ w). intros l. revert k. induction l; intros [|k]; simpl; auto.
Qed.
Theorem new_keeps_others w p w' out :
  wst w (WNew I T A P p) = Ok (w', out) ->
  forall j g, nth_error (objs _ _ _ _ _ w) j = Some g -> nth_error (objs _ _ _ _ _ w') j = Some g.
Proof.
  simpl. intros H. injection H as <- _. cbn [objs]. intros j g Hj. rewrite nth_error_app1; auto.
  apply nth_error_Some. congruence.
Qed.

Lemma wstep_inv w o w' out : world_inv w -> wst w o = Ok (w', out) -> world_inv w'.
Proof.
  intros Hw. destruct o as [p|k i th a]; simpl.
  - intros H. injection H as <- _. unfold world_inv. cbn [objs]. apply Forall_app. split; auto.
    constructor; [apply cache_inv_nil|constructor].
  - destruct (nth_error (objs _ _ _ _ _ w) k) as [g|] eqn:N; [|discriminate].
    rewrite Hper. unfold integrate.
    assert (Hg : cache_inv (pulse _ _ _ _ _ g) (cache_of _ _ _ _ _ g)).
    { unfold world_inv in Hw. rewrite Forall_forall in Hw. apply Hw. eapply nth_error_In; eauto. }
    pose proof (integrate_on_sound _ _ i th a Hg) as S.
    destruct (integ_on sh (pulse _ _ _ _ _ g) (cache_of _ _ _ _ _ g) i th a) as [[[v c'] b]|e]; simpl; [|discriminate].
    intros H. injection H as <- _. unfold world_inv. cbn [objs]. apply Forall_set_obj; auto. cbn [pulse cache_of]. apply S.
Qed.

(* worlds reachable by any history of constructions and calls (raising calls change nothing) *)
Inductive wreach : world I T A V P -> Prop :=
| wreach_empty : wreach (empty_world I T A V P)
| wreach_step w o w' out : wreach w -> wst w o = Ok (w', out) -> wreach w'.
Theorem world_inv_reach w : wreach w -> world_inv w.
Proof.
  induction 1.
  - constructor.
  - eapply wstep_inv; eauto.
Qed.

(* whatever happened before, on whichever integrators: a call returns the uncached value for ITS integrator's pulse *)
Theorem world_cached_eq_uncached w k g i th a :
  wreach w -> nth_error (objs _ _ _ _ _ w) k = Some g ->
  rmap (fun r => match snd r with Some (v, _) => Some v | None => None end) (wst w (WInt I T A P k i th a))
  = rmap Some (uncach (pulse _ _ _ _ _ g) i th a).
Proof.
  intros Hr N. simpl. rewrite N, Hper. unfold integrate.
  assert (Hg : cache_inv (pulse _ _ _ _ _ g) (cache_of _ _ _ _ _ g)).
  { pose proof (world_inv_reach _ Hr) as Hw. unfold world_inv in Hw. rewrite Forall_forall in Hw. apply Hw. eapply nth_error_In; eauto. }
  pose proof (integrate_on_sound _ _ i th a Hg) as S.
  destruct (integ_on sh (pulse _ _ _ _ _ g) (cache_of _ _ _ _ _ g) i th a) as [[[v c'] b]|e]; simpl.
  - destruct S as [-> _]. reflexivity.
  - rewrite S. reflexivity.
Qed.

(* ---------------------------------------------------------------- sampling *)
Section Sampling.
Variables G D X Mx : Type.
Variable draw : D -> G -> X * G.
Notation prog := (prog I T A V D X Mx).
Notation runp := (run_prog I T A V P I_eqb T_eqb A_eqb known a_pos eval sh G D X Mx draw).
Notation runu := (run_prog_uncached I T A V P known a_pos eval G D X Mx draw).
Notation runps := (run_progs I T A V P I_eqb T_eqb A_eqb known a_pos eval sh G D X Mx draw).

Definition integ_inv (g : integ I T A V P) : Prop := cache_inv (pulse _ _ _ _ _ g) (cache_of _ _ _ _ _ g).

(* sampling against an integrator whose cache satisfies the invariant = sampling without any cache:
   same matrix (or same exception), same successor generator state; pulse kept, invariant kept *)
Lemma run_prog_sound (pr : prog) : forall g r, integ_inv g ->
  match runp pr g r with
  | Ok (m, r', g') => runu pr (pulse _ _ _ _ _ g) r = Ok (m, r') /\ pulse _ _ _ _ _ g' = pulse _ _ _ _ _ g /\ integ_inv g'
  | Err e => runu pr (pulse _ _ _ _ _ g) r = Err e
  end.
Proof.
  induction pr as [m|i th a k IH|d k IH]; intros g r Hg; simpl.
  - auto.
  - unfold integrate.
    pose proof (integrate_on_sound _ _ i th a Hg) as S.
    destruct (integ_on sh (pulse _ _ _ _ _ g) (cache_of _ _ _ _ _ g) i th a) as [[[v c'] b]|e]; simpl.
    + destruct S as [-> Hc']. simpl.
      specialize (IH v (mkInteg I T A V P (pulse _ _ _ _ _ g) c') r Hc').
      cbn [pulse] in IH. exact IH.
    + rewrite S. reflexivity.
  - destruct (draw d r) as [x r']. apply IH. exact Hg.
Qed.

(* sample_history_free: two integrators for the same pulse in ANY two reachable cache states give the same matrix and the
   same successor generator state from the same generator state *)
Theorem sample_history_free (pr : prog) g1 g2 r :
  integ_inv g1 -> integ_inv g2 -> pulse _ _ _ _ _ g1 = pulse _ _ _ _ _ g2 ->
  rmap (fun x => (fst (fst x), snd (fst x))) (runp pr g1 r) = rmap (fun x => (fst (fst x), snd (fst x))) (runp pr g2 r).
Proof.
  intros H1 H2 Hp.
  pose proof (run_prog_sound pr g1 r H1) as S1. pose proof (run_prog_sound pr g2 r H2) as S2. rewrite Hp in S1.
  destruct (runp pr g1 r) as [[[m1 r1] g1']|e1], (runp pr g2 r) as [[[m2 r2] g2']|e2]; simpl.
  - destruct S1 as [S1 _], S2 as [S2 _]. rewrite S1 in S2. now injection S2 as -> ->.
  - destruct S1 as [S1 _]. rewrite S1 in S2. discriminate.
  - destruct S2 as [S2 _]. rewrite S1 in S2. discriminate.
  - rewrite S1 in S2. now injection S2 as ->.
Qed.

Lemma run_progs_inv ps : forall g r ms r' g', integ_inv g -> runps ps g r = Ok (ms, r', g') ->
  integ_inv g' /\ pulse _ _ _ _ _ g' = pulse _ _ _ _ _ g.
Proof.
  induction ps as [|pr rest IH]; intros g r ms r' g' Hg; simpl.
  - intros H. injection H as _ _ <-. auto.
  - pose proof (run_prog_sound pr g r Hg) as S.
    destruct (runp pr g r) as [[[m r1] g1]|e]; simpl; [|discriminate].
    destruct S as (_ & Hp & Hg1).
    destruct (runps rest g1 r1) as [[[ms2 r2] g2]|e] eqn:E; simpl; [|discriminate].
    intros H. injection H as _ _ <-. destruct (IH _ _ _ _ _ Hg1 E) as [Hi Hp2]. split; auto. congruence.
Qed.

(* after ANY sequence of gates sampled from a gate set (warm cache, other angles, other durations), re-seeding the
   generator to r and sampling pr gives what a newly built gate set for the same pulse gives from r *)
Theorem sample_after_any_history (hist : list prog) (pr : prog) p r0 r ms r1 g1 :
  runps hist (new_integ I T A V P p) r0 = Ok (ms, r1, g1) ->
  rmap (fun x => (fst (fst x), snd (fst x))) (runp pr g1 r)
  = rmap (fun x => (fst (fst x), snd (fst x))) (runp pr (new_integ I T A V P p) r).
Proof.
  intros H. assert (Hn : integ_inv (new_integ I T A V P p)) by apply cache_inv_nil.
  destruct (run_progs_inv _ _ _ _ _ _ Hn H) as [Hi Hp]. apply sample_history_free; auto.
Qed.

(* a whole seeded sequence is reproduced by the same (now warm) gate set *)
Theorem sequence_reproducible (ps : list prog) : forall g1 g2 r, integ_inv g1 -> integ_inv g2 ->
  pulse _ _ _ _ _ g1 = pulse _ _ _ _ _ g2 ->
  rmap (fun x => (fst (fst x), snd (fst x))) (runps ps g1 r) = rmap (fun x => (fst (fst x), snd (fst x))) (runps ps g2 r).
Proof.
  induction ps as [|pr rest IH]; intros g1 g2 r H1 H2 Hp; simpl; auto.
  pose proof (sample_history_free pr g1 g2 r H1 H2 Hp) as E.
  pose proof (run_prog_sound pr g1 r H1) as S1. pose proof (run_prog_sound pr g2 r H2) as S2.
  destruct (runp pr g1 r) as [[[m1 r1] g1']|e1], (runp pr g2 r) as [[[m2 r2] g2']|e2]; simpl in *; try discriminate.
  - injection E as <- <-. destruct S1 as (_ & P1 & I1), S2 as (_ & P2 & I2).
    assert (Hp' : pulse _ _ _ _ _ g1' = pulse _ _ _ _ _ g2') by congruence.
    specialize (IH g1' g2' r1 I1 I2 Hp').
    destruct (runps rest g1' r1) as [[[a1 b1] c1]|e1], (runps rest g2' r1) as [[[a2 b2] c2]|e2]; simpl in *; try discriminate.
    + now injection IH as <- <-.
    + exact IH.
  - injection E as ->. reflexivity.
Qed.
End Sampling.
End Full.

(* ================================================================== what goes wrong without the full key / per-object dict *)
(* a key without the duration confuses two durations: the second request returns the first one's value *)
Theorem key_without_a_collides sh p i th a1 a2 v1 v2 :
  uses_a sh = false -> known i = true -> a_pos a1 = true -> a_pos a2 = true ->
  eval p i th a1 = Ok v1 -> eval p i th a2 = Ok v2 -> v1 <> v2 ->
  exists c1, integ_on sh p [] i th a1 = Ok (v1, c1, true) /\ integ_on sh p c1 i th a2 = Ok (v1, c1, false) /\
             uncach p i th a2 = Ok v2.
Proof.
  intros Hs Hk H1 H2 E1 E2 Hne. exists [(mkk sh i th a1, v1)].
  assert (Hkey : mkk sh i th a2 = mkk sh i th a1) by (unfold mk_key; now rewrite Hs).
  unfold integrate_on, uncached. simpl. rewrite Hk, H1, H2, E1, E2. simpl. rewrite Hkey, keqb_refl. auto.
Qed.
Theorem key_without_theta_collides sh p i th1 th2 a v1 v2 :
  uses_theta sh = false -> known i = true -> a_pos a = true ->
  eval p i th1 a = Ok v1 -> eval p i th2 a = Ok v2 -> v1 <> v2 ->
  exists c1, integ_on sh p [] i th1 a = Ok (v1, c1, true) /\ integ_on sh p c1 i th2 a = Ok (v1, c1, false) /\
             uncach p i th2 a = Ok v2.
Proof.
  intros Hs Hk Ha E1 E2 Hne. exists [(mkk sh i th1 a, v1)].
  assert (Hkey : mkk sh i th2 a = mkk sh i th1 a) by (unfold mk_key; now rewrite Hs).
  unfold integrate_on, uncached. simpl. rewrite Hk, Ha, E1, E2. simpl. rewrite Hkey, keqb_refl. auto.
Qed.
(* a dictionary shared by all integrators hands one pulse's integral to another pulse *)
Theorem shared_cache_collides sh p1 p2 i th a v1 v2 :
  per_instance sh = false -> known i = true -> a_pos a = true ->
  eval p1 i th a = Ok v1 -> eval p2 i th a = Ok v2 -> v1 <> v2 ->
  exists w out, wexec I T A V P I_eqb T_eqb A_eqb known a_pos eval sh (empty_world I T A V P)
                  [WNew I T A P p1; WNew I T A P p2; WInt I T A P 0 i th a; WInt I T A P 1 i th a] = Ok (w, out) /\
                nth 3 out None = Some (v1, false) /\ uncach p2 i th a = Ok v2.
Proof.
  intros Hs Hk Ha E1 E2 Hne.
  unfold wexec, wstep, empty_world. cbn. rewrite Hs. unfold integrate_on. cbn.
  rewrite Hk, Ha, E1. cbn. rewrite keqb_refl. cbn.
  eexists _, _. split; [reflexivity|]. split; [reflexivity|].
  unfold uncached. now rewrite Hk, Ha.
Qed.
End CacheProofs.
