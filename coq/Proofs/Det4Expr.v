(* determinant of a 4x4 expression leaf as an expression (Leibniz formula), generated text *)
From Coq Require Import QArith List.
Require Import QG.Sym.Expr.
Import ListNotations.
Definition mdet4 (m : mexpr) : expr :=
  match m with
  | MLeaf [[x00;x01;x02;x03];[x10;x11;x12;x13];[x20;x21;x22;x23];[x30;x31;x32;x33]] => (EAdd (EAdd (EAdd (EAdd (EAdd (EAdd (EAdd (EAdd (EAdd (EAdd (EAdd (EAdd (EAdd (EAdd (EAdd (EAdd (EAdd (EAdd (EAdd (EAdd (EAdd (EAdd (EAdd (EMul (EMul (EMul x00 x11) x22) x33) (ENeg (EMul (EMul (EMul x00 x11) x23) x32))) (ENeg (EMul (EMul (EMul x00 x12) x21) x33))) (EMul (EMul (EMul x00 x12) x23) x31)) (EMul (EMul (EMul x00 x13) x21) x32)) (ENeg (EMul (EMul (EMul x00 x13) x22) x31))) (ENeg (EMul (EMul (EMul x01 x10) x22) x33))) (EMul (EMul (EMul x01 x10) x23) x32)) (EMul (EMul (EMul x01 x12) x20) x33)) (ENeg (EMul (EMul (EMul x01 x12) x23) x30))) (ENeg (EMul (EMul (EMul x01 x13) x20) x32))) (EMul (EMul (EMul x01 x13) x22) x30)) (EMul (EMul (EMul x02 x10) x21) x33)) (ENeg (EMul (EMul (EMul x02 x10) x23) x31))) (ENeg (EMul (EMul (EMul x02 x11) x20) x33))) (EMul (EMul (EMul x02 x11) x23) x30)) (EMul (EMul (EMul x02 x13) x20) x31)) (ENeg (EMul (EMul (EMul x02 x13) x21) x30))) (ENeg (EMul (EMul (EMul x03 x10) x21) x32))) (EMul (EMul (EMul x03 x10) x22) x31)) (EMul (EMul (EMul x03 x11) x20) x32)) (ENeg (EMul (EMul (EMul x03 x11) x22) x30))) (ENeg (EMul (EMul (EMul x03 x12) x20) x31))) (EMul (EMul (EMul x03 x12) x21) x30))
  | _ => EVar 4999
  end.
