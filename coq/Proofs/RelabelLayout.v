(* C08, relabelling clause, part 6: the rank layout IS the layout of C14's simulator model.
   Model/SimRun.v (tied to simulator._process_layout / run / _measurament by C14's correspondence run) sorts the used
   labels (sortN) and finds the internal index of a label with list.index (index_of).  Here: in the sorted list of
   distinct used labels the index of a label is its rank, so the measured positions that C14_marginal_correct speaks of
   (positions_of (f_meas f) (f_used f)) are  map (rank L) M  for L = the used labels and M = the measured labels. *)
From Coq Require Import List Bool NArith Arith Lia Sorted Permutation.
Require Import QG.Base.Res QG.Model.FixCounts QG.Model.SimRun QG.Proofs.SimRunKeys QG.Proofs.SimRunProofs QG.Proofs.RelabelRank.
Import ListNotations.

Lemma insN_sorted x l : StronglySorted N.le l -> StronglySorted N.le (insN x l).
Proof.
  induction l as [|y r IH]; intros S; cbn [insN].
  - constructor; constructor.
  - apply StronglySorted_inv in S as [Sr Fy]. destruct (N.leb_spec x y) as [H|H].
    + constructor; [constructor; auto|]. constructor; auto.
      rewrite Forall_forall in *. intros z Hz. specialize (Fy z Hz). lia.
    + constructor; auto. rewrite Forall_forall in *. intros z Hz.
      apply (Permutation_in _ (insN_perm x r)) in Hz. destruct Hz as [<-|Hz]; [lia | auto].
Qed.
Lemma sortN_sorted l : StronglySorted N.le (sortN l).
Proof. induction l as [|x r IH]; cbn [sortN fold_right]; [constructor|]. fold (sortN r). now apply insN_sorted. Qed.

Lemma rank_cons a l q : rank (a :: l) q = ((if a <? q then 1 else 0) + rank l q)%nat.
Proof. unfold rank. cbn [filter]. destruct (a <? q); reflexivity. Qed.

(* list.index in a sorted list of distinct labels = rank *)
Lemma index_of_sorted S q : StronglySorted N.le S -> NoDup S -> In q S ->
  index_of q S = Some (rank (map N.to_nat S) (N.to_nat q)).
Proof.
  induction S as [|y r IH]; intros St ND Hin; [destruct Hin|].
  apply StronglySorted_inv in St as [Sr Fy]. apply NoDup_cons_iff in ND as [Hy NDr].
  cbn [index_of map]. rewrite rank_cons. destruct (N.eqb_spec q y) as [->|Hne].
  - replace (N.to_nat y <? N.to_nat y) with false by (symmetry; apply Nat.ltb_irrefl).
    f_equal. unfold rank. cbn [Nat.add].
    clear IH Hin Sr NDr Hy. induction r as [|z r IHr]; cbn [map filter length]; auto.
    apply Forall_cons_iff in Fy as [Hz Fr].
    replace (N.to_nat z <? N.to_nat y) with false by (symmetry; apply Nat.ltb_ge; lia). auto.
  - destruct Hin as [E|Hin]; [congruence|].
    rewrite (IH Sr NDr Hin). cbn [option_map]. f_equal.
    rewrite Forall_forall in Fy. specialize (Fy q Hin).
    replace (N.to_nat y <? N.to_nat q) with true by (symmetry; apply Nat.ltb_lt; lia). reflexivity.
Qed.

Lemma NoDup_map_to_nat l : NoDup l -> NoDup (map N.to_nat l).
Proof. intros ND. apply Perm.NoDup_map_inj_in; auto. intros x y _ _ E. lia. Qed.

(* the layout computed by the simulator model: internal index = rank among the used labels *)
Theorem process_layout_rank data used meas n :
  Forall wf_instr data -> process_layout data = Ok (used, meas, n) ->
  let L := map N.to_nat used in
  NoDup L /\ n = length L /\
  (forall q, In q used -> index_of q used = Some (rank L (N.to_nat q))) /\
  positions_of meas used = map (rank L) (map (fun qc => N.to_nat (fst qc)) meas).
Proof.
  intros Fw H L.
  destruct (process_layout_inv data used meas n Fw H) as (ND & Fm & Hn).
  assert (St : StronglySorted N.le used).
  { unfold process_layout in H. destruct (layout_loop data [] []) as [[u m]|e]; cbn [rbind] in H; [|discriminate].
    injection H as <- _ _. apply sortN_sorted. }
  split; [now apply NoDup_map_to_nat|]. split; [unfold L; now rewrite map_length|]. split.
  - intros q Hq. now apply index_of_sorted.
  - unfold positions_of. rewrite map_map. apply map_ext_in. intros qc Hqc.
    rewrite Forall_forall in Fm. now rewrite (index_of_sorted used (fst qc) St ND (Fm qc Hqc)).
Qed.
