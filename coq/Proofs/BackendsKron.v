(* C01 — Kronecker products of entry lists: extensional equality of (width, matrix) pairs, associativity, units,
   ft.reduce(np.kron, l) = right-nested product, kron of a concatenation, and the bridge
   kron_is_slots:  (kron of a well-formed layer) @ psi  =  slot semantics of the layer. *)
From Coq Require Import List Bool Arith Lia Ring.
Require Import QG.Base.Res QG.Base.State QG.Base.Mat QG.Model.Backends QG.Proofs.BackendsSpec.
Import ListNotations.

Section Kron.
Variable R : Type.
Variables (rO rI : R) (radd rmul rsub : R -> R -> R) (ropp : R -> R).
Variable Rth : ring_theory rO rI radd rmul rsub ropp eq.
Add Ring RrK : Rth.
Infix "+" := radd. Infix "*" := rmul.
Notation entry := (entry R).
Notation wmat := (nat * (bits -> bits -> R))%type (only parsing).
Notation kron := (kron R rmul).
Notation bsum := (bsum R radd).
Notation mv := (mv R radd rmul).
Notation wkron := (wkron R rmul).
Notation ofE := (ofE R rI).
Notation sem := (sem R radd rmul).

Definition meq (w : nat) (A B : bits -> bits -> R) : Prop :=
  forall r c, length r = w -> length c = w -> A r c = B r c.
Definition weq (A B : wmat) : Prop := fst A = fst B /\ meq (fst A) (snd A) (snd B).
Definition one : bits -> bits -> R := fun _ _ => rI.
(* np.kron without the materialisation *)
Definition pkron (A B : wmat) : wmat := ((fst A + fst B)%nat, kron (fst A) (snd A) (snd B)).
(* right-nested Kronecker product with the 1x1 unit *)
Definition kronW (l : list wmat) : wmat := fold_right pkron (0, one) l.
Definition widths (l : list wmat) : nat := fold_right (fun a acc => (fst a + acc)%nat) 0 l.

Lemma weq_refl A : weq A A. Proof. split; [reflexivity | intros r c _ _; reflexivity]. Qed.
Lemma weq_sym A B : weq A B -> weq B A.
Proof. intros [H1 H2]. split; [auto|]. intros r c Lr Lc. symmetry. apply H2; congruence. Qed.
Lemma weq_trans A B C : weq A B -> weq B C -> weq A C.
Proof.
  intros [H1 H2] [H3 H4]. split; [congruence|]. intros r c Lr Lc. rewrite H2 by assumption. apply H4; congruence.
Qed.

Lemma firstn_len {A} (l : list A) a b : length l = (a + b)%nat -> length (firstn a l) = a.
Proof. intros H. rewrite firstn_length. lia. Qed.
Lemma skipn_len {A} (l : list A) a b : length l = (a + b)%nat -> length (skipn a l) = b.
Proof. intros H. rewrite skipn_length. lia. Qed.

Lemma pkron_weq A A' B B' : weq A A' -> weq B B' -> weq (pkron A B) (pkron A' B').
Proof.
  intros [H1 H2] [H3 H4]. split; cbn [pkron fst snd]; [congruence|].
  intros r c Lr Lc. unfold Mat.kron. rewrite <- H1.
  rewrite H2, H4; auto; try (eapply firstn_len; eassumption); try (eapply skipn_len; eassumption).
Qed.
Lemma wkron_weq A B : weq (wkron A B) (pkron A B).
Proof.
  split; [reflexivity|]. cbn [Backends.wkron pkron fst snd]. intros r c Lr Lc. now apply memo2_get.
Qed.
Lemma skipn_add {A} a : forall b (l : list A), skipn (a + b)%nat l = skipn b (skipn a l).
Proof. induction a as [|a IH]; intros b l; [reflexivity|]. destruct l; [now rewrite !skipn_nil | apply IH]. Qed.

Lemma pkron_assoc A B C : weq (pkron (pkron A B) C) (pkron A (pkron B C)).
Proof.
  destruct A as [wa a], B as [wb b], C as [wc c0]. split; cbn [pkron fst snd]; [lia|].
  intros r c _ _. unfold Mat.kron.
  rewrite !firstn_firstn, !Nat.min_l by lia.
  rewrite <- !firstn_skipn_comm, !skipn_add. ring.
Qed.
Lemma pkron_unit_r A : weq (pkron A (0, one)) A.
Proof.
  destruct A as [wa a]. split; cbn [pkron fst snd]; [lia|].
  intros r c Lr Lc. unfold Mat.kron, one. rewrite !firstn_all2 by lia. ring.
Qed.
Lemma pkron_unit_l A : weq (pkron (0, one) A) A.
Proof.
  destruct A as [wa a]. split; cbn [pkron fst snd]; [lia|].
  intros r c Lr Lc. unfold Mat.kron, one. cbn [skipn]. ring.
Qed.

(* ft.reduce(np.kron, x :: r) is the right-nested product *)
Lemma fold_left_wkron r : forall x, weq (fold_left wkron r x) (kronW (x :: r)).
Proof.
  induction r as [|a r IH]; intros x; cbn [fold_left].
  - apply weq_sym, pkron_unit_r.
  - eapply weq_trans; [apply IH|]. change (kronW (wkron x a :: r)) with (pkron (wkron x a) (kronW r)).
    change (kronW (x :: a :: r)) with (pkron x (pkron a (kronW r))).
    eapply weq_trans; [apply pkron_weq; [apply wkron_weq | apply weq_refl]|]. apply pkron_assoc.
Qed.
Lemma reduce_kron_spec l : l <> [] -> exists M, reduce_kron R rmul l = Ok M /\ weq M (kronW l).
Proof. destruct l as [|x r]; [congruence|]. intros _. eexists. split; [reflexivity|]. apply fold_left_wkron. Qed.

Lemma kronW_app l1 l2 : weq (kronW (l1 ++ l2)) (pkron (kronW l1) (kronW l2)).
Proof.
  induction l1 as [|a l1 IH]; cbn [app].
  - apply weq_sym, pkron_unit_l.
  - change (kronW (a :: l1 ++ l2)) with (pkron a (kronW (l1 ++ l2))). change (kronW (a :: l1)) with (pkron a (kronW l1)).
    eapply weq_trans; [apply pkron_weq; [apply weq_refl | apply IH]|]. apply weq_sym, pkron_assoc.
Qed.
Lemma kronW_weq_list l l' : Forall2 weq l l' -> weq (kronW l) (kronW l').
Proof. induction 1 as [|a b l l' Hab Hl IH]; [apply weq_refl|]. change (weq (pkron a (kronW l)) (pkron b (kronW l'))). now apply pkron_weq. Qed.
Lemma kronW_concat ls : weq (kronW (map kronW ls)) (kronW (concat ls)).
Proof.
  induction ls as [|l ls IH]; cbn [map concat]; [apply weq_refl|].
  change (kronW (kronW l :: map kronW ls)) with (pkron (kronW l) (kronW (map kronW ls))).
  eapply weq_trans; [apply pkron_weq; [apply weq_refl | apply IH]|]. apply weq_sym, kronW_app.
Qed.
Lemma fst_kronW l : fst (kronW l) = widths l.
Proof. induction l as [|a l IH]; [reflexivity|]. change (fst (kronW (a :: l))) with (fst a + fst (kronW l))%nat. rewrite IH. reflexivity. Qed.

Lemma mv_meq w A B u v r : meq w A B -> length r = w -> (forall c, length c = w -> u c = v c) -> mv w A u r = mv w B v r.
Proof. intros HA Lr Hv. unfold Mat.mv. apply bsum_ext. intros c Lc. now rewrite HA, Hv. Qed.

(* ---------- bit-list bookkeeping for slots ---------- *)
Lemma get_app_r pre : forall l k, get (pre ++ l) (length pre + k)%nat = get l k.
Proof. unfold get. induction pre as [|h t IH]; intros l k; [reflexivity | apply IH]. Qed.
Lemma upd_app_r pre : forall l k v, upd (pre ++ l) (length pre + k)%nat v = pre ++ upd l k v.
Proof. induction pre as [|h t IH]; intros l k v; [reflexivity|]. cbn [app length Nat.add upd]. now rewrite IH. Qed.
Lemma get_mid pre x c : get (pre ++ x :: c) (length pre) = x.
Proof. rewrite <- (Nat.add_0_r (length pre)). now rewrite get_app_r. Qed.
Lemma upd_mid pre x c v : upd (pre ++ x :: c) (length pre) v = pre ++ v :: c.
Proof. rewrite <- (Nat.add_0_r (length pre)). now rewrite upd_app_r. Qed.
Lemma get_mid1 pre x y c : get (pre ++ x :: y :: c) (S (length pre)) = y.
Proof. rewrite <- (Nat.add_1_r (length pre)). now rewrite get_app_r. Qed.
Lemma upd_mid1 pre x y c v : upd (pre ++ x :: y :: c) (S (length pre)) v = pre ++ x :: v :: c.
Proof. rewrite <- (Nat.add_1_r (length pre)). now rewrite upd_app_r. Qed.

Lemma sem_cons it r psi : sem (it :: r) psi = sem r (apply_item R radd rmul it psi).
Proof. reflexivity. Qed.

(* ---------- the Kronecker product of a well-formed layer acts slot by slot ---------- *)
Lemma slots_gen m l : wf_layer R m l -> forall pre suf psi, length suf = m ->
  sem (layer_items R (length pre) l) psi (pre ++ suf)
  = bsum m (fun c => snd (kronW (map ofE l)) suf c * psi (pre ++ c)).
Proof.
  induction 1 as [|n A l Hl IH|n G l Hl IH|n G l Hl IH]; intros pre suf psi L.
  - destruct suf; [|discriminate]. cbn. unfold one. ring.
  - destruct suf as [|x suf]; [discriminate|]. injection L as L.
    cbn [layer_items map kronW fold_right]. fold (kronW (map ofE l)). rewrite sem_cons.
    replace (S (length pre)) with (length (pre ++ [x])) by (rewrite app_length; simpl; lia).
    replace (pre ++ x :: suf) with ((pre ++ [x]) ++ suf) by (rewrite <- app_assoc; reflexivity).
    rewrite IH by assumption. cbn [Mat.bsum]. rewrite <- (bsum_plus R rO rI radd rmul rsub ropp Rth). apply bsum_ext. intros c Lc.
    cbn [pkron snd fst Backends.ofE]. unfold Mat.kron. cbn [firstn skipn hd]. cbn [apply_item]. unfold apply1.
    rewrite <- !app_assoc. cbn [app]. rewrite !get_mid, !upd_mid. ring.
  - destruct suf as [|x [|y suf]]; try discriminate. injection L as L.
    cbn [layer_items map kronW fold_right]. fold (kronW (map ofE l)). rewrite sem_cons.
    replace (S (S (length pre))) with (length (pre ++ [x; y])) by (rewrite app_length; simpl; lia).
    replace (pre ++ x :: y :: suf) with ((pre ++ [x; y]) ++ suf) by (rewrite <- app_assoc; reflexivity).
    rewrite IH by assumption. cbn [Mat.bsum]. rewrite <- !(bsum_plus R rO rI radd rmul rsub ropp Rth). apply bsum_ext. intros c Lc.
    cbn [pkron snd fst Backends.ofE]. unfold Mat.kron, one. cbn [firstn skipn nth Nat.add]. cbn [apply_item]. unfold apply2. cbv zeta.
    rewrite <- !app_assoc. cbn [app]. rewrite !get_mid, !get_mid1, !upd_mid.
    rewrite !upd_mid1. ring.
  - destruct suf as [|x [|y suf]]; try discriminate. injection L as L.
    cbn [layer_items map kronW fold_right]. fold (kronW (map ofE l)). rewrite sem_cons.
    replace (S (S (length pre))) with (length (pre ++ [x; y])) by (rewrite app_length; simpl; lia).
    replace (pre ++ x :: y :: suf) with ((pre ++ [x; y]) ++ suf) by (rewrite <- app_assoc; reflexivity).
    rewrite IH by assumption. cbn [Mat.bsum]. rewrite <- !(bsum_plus R rO rI radd rmul rsub ropp Rth). apply bsum_ext. intros c Lc.
    cbn [pkron snd fst Backends.ofE]. unfold Mat.kron, one. cbn [firstn skipn nth Nat.add]. cbn [apply_item]. unfold apply2. cbv zeta.
    rewrite <- !app_assoc. cbn [app]. rewrite !get_mid, !get_mid1, !upd_mid.
    rewrite !upd_mid1. ring.
Qed.

(* kron_is_slots: (A_1 (x) ... (x) A_k) @ psi, the Kronecker wording of the property, is the slot semantics *)
Theorem kron_is_slots n l psi : wf_layer R n l ->
  state_eq R n (mv n (snd (kronW (map ofE l))) psi) (sem (layer_items R 0 l) psi).
Proof.
  intros H b L. symmetry. exact (slots_gen n l H [] b psi L).
Qed.
Lemma widths_wf n l : wf_layer R n l -> widths (map ofE l) = n.
Proof. unfold widths. induction 1; simpl in *; lia. Qed.

End Kron.
