(* C17 — facts about the translator vocabulary of Model/Hellinger.v (what the primitives compute on well-shaped input). *)
From Coq Require Import Reals List Arith Lra Lia.
Require Import QG.Base.Res QG.Model.Hellinger.
Import ListNotations.
Local Open Scope R_scope.

Lemma map2_length {A B C} (f : A -> B -> C) a b : length a = length b -> length (map2 f a b) = length a.
Proof. revert b. induction a as [|x a IH]; intros [|y b] L; simpl in *; try discriminate; auto. Qed.

Lemma vsqrt_length v : length (vsqrt v) = length v.
Proof. apply map_length. Qed.

Lemma vpow_length v k : length (vpow v k) = length v.
Proof. apply map_length. Qed.

(* equal shapes: no broadcasting, no exception *)
Lemma vbin_eqlen op a b : length a = length b -> vbin op a b = Ok (map2 op a b).
Proof. intros L. unfold vbin. rewrite L, Nat.eqb_refl. reflexivity. Qed.

(* the accumulation loop over a whole array is its sum (left fold = right fold over the reals) *)
Lemma for_range_sum_gen l : forall pre h,
  fold_left (fun (acc : res R) (i : nat) => a <- acc ;; (x <- vget (pre ++ l) i ;; Ok (a + x)))
            (seq (length pre) (length l)) (Ok h) = Ok (h + sumR l).
Proof.
  induction l as [|y l IH]; intros pre h.
  - simpl. f_equal. lra.
  - cbn [length seq fold_left rbind].
    assert (vget (pre ++ y :: l) (length pre) = Ok y) as E.
    { unfold vget. rewrite nth_error_app2 by lia. rewrite Nat.sub_diag. reflexivity. }
    rewrite E. cbn [rbind].
    replace (pre ++ y :: l) with ((pre ++ [y]) ++ l) by (rewrite <- app_assoc; reflexivity).
    replace (S (length pre)) with (length (pre ++ [y])) by (rewrite app_length; simpl; lia).
    rewrite IH. f_equal. simpl. lra.
Qed.

Lemma for_range_sum l h :
  for_range (length l) (fun (i : nat) (a : R) => x <- vget l i ;; Ok (a + x)) h = Ok (h + sumR l).
Proof. unfold for_range. exact (for_range_sum_gen l [] h). Qed.

(* the array expression of the source is the vector of squared differences of square roots *)
Lemma sqdiff_vocab p q : vpow (map2 Rminus (vsqrt q) (vsqrt p)) 2 = sqdiff p q.
Proof.
  unfold vpow, vsqrt, sqdiff. revert q. induction p as [|a p IH]; intros [|b q]; simpl; auto.
  f_equal. apply IH.
Qed.

(* the same with the operands of the subtraction exchanged (squares do not see the sign) *)
Lemma sqdiff_vocab_swapped p q : vpow (map2 Rminus (vsqrt p) (vsqrt q)) 2 = sqdiff p q.
Proof.
  unfold vpow, vsqrt, sqdiff. revert q. induction p as [|a p IH]; intros [|b q]; simpl; auto.
  f_equal; [ring | apply IH].
Qed.
