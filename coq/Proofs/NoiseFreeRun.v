(* C03 — lifting the per-method frame facts to WHOLE noise-free runs of the index-based circuit class.
   Ring-generic part: everything in this file holds over an arbitrary commutative ring with the named constants of
   Model/NoiseFreeRun.v (consts) satisfying consts_ok (i^2 = -1 and "the named inverses are inverses"); the Born
   statement needs a multiplicative conjugation mapping every unit constant to its named inverse.
   What the item list / compile have to do with circuit.py and gates.py is NOT proved here: that is the reflection
   check of Proofs/NoiseFreeRunRefl.v over the regenerated model. *)
From Coq Require Import List Bool Arith ZArith Lia Ring.
Require Import QG.Base.State QG.Model.Backends QG.Proofs.FrameSim QG.Model.NoiseFreeRun.
Import ListNotations.

Section Lift.
Variable R : Type.
Variables (rO rI : R) (radd rmul rsub : R -> R -> R) (ropp : R -> R).
Variable Rth : ring_theory rO rI radd rmul rsub ropp eq.
Add Ring Rr : Rth.
Variable A : Type.
Variable K : consts R A.
Infix "+" := radd. Infix "*" := rmul.
Notation frame := (frame R). Notation sstate := (FrameSim.sstate R). Notation state := (state R).
Notation instr := (instr A).
Notation ci := (k_i K).
Notation apply1 := (apply1 R radd rmul). Notation apply2 := (apply2 R radd rmul).
Notation apply_item := (apply_item R radd rmul). Notation sem := (sem R radd rmul).
Notation Inv := (Inv R rI rmul).
Notation iq := (iq R rI ropp A K). Notation gph_val := (gph_val R rI ropp A K). Notation gph_inv := (gph_inv R rI ropp A K).
Notation gate1 := (gate1 R rO rI radd rmul ropp A K). Notation gate2 := (gate2 R rO rI radd rmul ropp A K).
Notation compile := (compile R rO rI radd rmul ropp A K). Notation compile2 := (compile2 R rO rI radd rmul ropp A K).
Notation fstep := (fstep R rO rI radd rmul ropp A K). Notation nf_step := (nf_step R rO rI radd rmul ropp A K).
Notation item_of := (item_of R rI rmul).
Notation run_items_from := (run_items_from R rO rI radd rmul ropp A K).
Notation run_items := (run_items R rO rI radd rmul ropp A K).
Notation ideal_item := (ideal_item R rO rI radd rmul ropp A K). Notation ideal_items := (ideal_items R rO rI radd rmul ropp A K).
Notation oriented_item := (oriented_item R rO rI radd rmul ropp A K).
Notation iscal := (iscal R rI ropp A K). Notation gscalar := (gscalar R rI rmul ropp A K).
Notation s_one := (s_one R rI). Notation ff_one := (ff_one R rI).

(* what the theorems need of the constants *)
Record consts_ok : Prop := mkOk {
  ok_i : ci * ci = ropp rI;
  ok_w1 : k_w1 K * k_w1i K = rI;
  ok_w3 : k_w3 K * k_w3i K = rI;
  ok_e : forall th, k_e K th * k_ei K th = rI;
  ok_a : forall th, k_a K th * k_ai K th = rI
}.
Hypothesis OK : consts_ok.

Lemma i_mi : ci * ropp ci = rI.
Proof. transitivity (ropp (ci * ci)); [ring|]. rewrite (ok_i OK). ring. Qed.
Lemma mi_i : ropp ci * ci = rI.
Proof. transitivity (ropp (ci * ci)); [ring|]. rewrite (ok_i OK). ring. Qed.
Lemma gph_unit g : gph_val g * gph_inv g = rI.
Proof. destruct g; cbn [NoiseFreeRun.gph_val NoiseFreeRun.gph_inv]; [ring | apply i_mi | apply mi_i | apply (ok_w1 OK) | apply (ok_w3 OK)]. Qed.

Lemma iq_0 : iq 0 = rI. Proof. reflexivity. Qed.
Lemma iq_1 : iq 1 = ci. Proof. reflexivity. Qed.
Lemma iq_m1 : iq (-1) = ropp ci. Proof. reflexivity. Qed.
Lemma iq_3 : iq 3 = ropp ci. Proof. reflexivity. Qed.
Lemma iq_m3 : iq (-3) = ci. Proof. reflexivity. Qed.
(* the shifts of the table are inverted by the opposite shifts *)
Lemma shift_c_unit k lt : iq (c_shift_c (choose2 k lt)) * iq (- c_shift_c (choose2 k lt)) = rI.
Proof.
  destruct k, lt; cbn [choose2 c_shift_c Z.opp Pos.succ]; rewrite ?iq_0, ?iq_1, ?iq_m1, ?iq_3, ?iq_m3;
    first [apply i_mi | apply mi_i | ring].
Qed.
Lemma shift_t_unit k lt : iq (c_shift_t (choose2 k lt)) * iq (- c_shift_t (choose2 k lt)) = rI.
Proof.
  destruct k, lt; cbn [choose2 c_shift_t Z.opp Pos.succ]; rewrite ?iq_0, ?iq_1, ?iq_m1, ?iq_3, ?iq_m3;
    first [apply i_mi | apply mi_i | ring].
Qed.

(* ---- the frame and its inverse ---- *)
Definition frames_ok (f fi : frame) : Prop := forall q, f q * fi q = rI.
Lemma frames_ok_one : frames_ok (f_one R rI) (f_one R rI).
Proof. intros q. unfold f_one. ring. Qed.
Lemma frames_ok_fupd f fi q u ui : frames_ok f fi -> u * ui = rI -> frames_ok (fupd R f q u) (fupd R fi q ui).
Proof. intros H Hu x. unfold fupd. destruct (Nat.eqb x q); auto. Qed.
Lemma unit_mul a ai b bi : a * ai = rI -> b * bi = rI -> (a * b) * (ai * bi) = rI.
Proof. intros Ha Hb. transitivity ((a * ai) * (b * bi)); [ring|]. rewrite Ha, Hb. ring. Qed.

Lemma fstep_ok f fi x : frames_ok f fi -> frames_ok (fst (fstep (f, fi) x)) (snd (fstep (f, fi) x)).
Proof.
  intros H. destruct x as [q th|q|q|c t|c t]; cbn [NoiseFreeRun.fstep NoiseFreeRun.compile fst snd]; auto.
  - apply frames_ok_fupd; auto. apply unit_mul; [apply H | apply (ok_e OK)].
  - unfold NoiseFreeRun.compile2. destruct (c <? t); cbn [fst snd];
      repeat apply frames_ok_fupd; auto; apply unit_mul; auto using shift_c_unit, shift_t_unit.
  - unfold NoiseFreeRun.compile2. destruct (c <? t); cbn [fst snd];
      repeat apply frames_ok_fupd; auto; apply unit_mul; auto using shift_c_unit, shift_t_unit.
Qed.

(* ---- nf_step is FrameSim's sim_step on the compiled operation (the inverse frame apart, for rz) ---- *)
Lemma nf_step_sim s x :
  s_f R (nf_step s x) = s_f R (sim_step R rI radd rmul s (compile (s_f R s) (s_fi R s) x)) /\
  s_psi R (nf_step s x) = s_psi R (sim_step R rI radd rmul s (compile (s_f R s) (s_fi R s) x)) /\
  (match x with NRz _ _ => True | _ => s_fi R (nf_step s x) = s_fi R (sim_step R rI radd rmul s (compile (s_f R s) (s_fi R s) x)) end).
Proof.
  destruct x as [q th|q|q|c t|c t]; cbn [NoiseFreeRun.nf_step NoiseFreeRun.fstep NoiseFreeRun.compile fst snd s_f s_fi s_psi sim_step]; auto.
  - unfold NoiseFreeRun.nf_step, NoiseFreeRun.fstep. cbn [NoiseFreeRun.compile]. unfold NoiseFreeRun.compile2. destruct (c <? t); cbn; auto.
  - unfold NoiseFreeRun.nf_step, NoiseFreeRun.fstep. cbn [NoiseFreeRun.compile]. unfold NoiseFreeRun.compile2. destruct (c <? t); cbn; auto.
Qed.

(* ---- (1) the item semantics IS the frame-simulator semantics ---- *)
Lemma item_of_sem f fi psi o :
  sem (item_of f fi o) psi = s_psi R (sim_step R rI radd rmul {| s_f := f; s_fi := fi; s_psi := psi |} o).
Proof. destruct o; reflexivity. Qed.

Lemma run_is_framed_from : forall p f fi psi,
  sem (run_items_from (f, fi) p) psi = s_psi R (fold_left nf_step p {| s_f := f; s_fi := fi; s_psi := psi |}).
Proof.
  induction p as [|x r IH]; intros f fi psi; [reflexivity|].
  cbn [NoiseFreeRun.run_items_from fold_left fst snd]. rewrite sem_app, item_of_sem.
  rewrite (surjective_pairing (fstep (f, fi) x)). rewrite IH. reflexivity.
Qed.
Theorem run_is_framed p psi : sem (run_items p) psi = s_psi R (fold_left nf_step p (s_one psi)).
Proof. apply run_is_framed_from. Qed.

(* ---- (2) one instruction preserves the invariant ---- *)
Lemma nf_step_inv n g f fi psi ideal x :
  wf_instr n x -> frames_ok f fi -> Inv n g f psi ideal ->
  Inv n (g * iscal x) (s_f R (nf_step {| s_f := f; s_fi := fi; s_psi := psi |} x))
        (s_psi R (nf_step {| s_f := f; s_fi := fi; s_psi := psi |} x)) (apply_item (oriented_item x) ideal).
Proof.
  intros W F I. destruct x as [q th|q|q|c t|c t]; cbn [wf_instr] in W.
  - cbn. apply (stepz R rO rI radd rmul rsub ropp Rth); auto. apply (ok_a OK).
  - cbn [NoiseFreeRun.nf_step NoiseFreeRun.fstep NoiseFreeRun.compile fst snd s_f s_fi s_psi sim_step NoiseFreeRun.iscal NoiseFreeRun.oriented_item NoiseFreeRun.ideal_item State.apply_item].
    apply (step1 R rO rI radd rmul rsub ropp Rth); auto.
  - cbn [NoiseFreeRun.nf_step NoiseFreeRun.fstep NoiseFreeRun.compile fst snd s_f s_fi s_psi sim_step NoiseFreeRun.iscal NoiseFreeRun.oriented_item NoiseFreeRun.ideal_item State.apply_item].
    apply (step1 R rO rI radd rmul rsub ropp Rth); auto.
  - destruct W as (Hc & Ht & Hne).
    unfold NoiseFreeRun.nf_step, NoiseFreeRun.fstep. cbn [NoiseFreeRun.compile NoiseFreeRun.iscal NoiseFreeRun.oriented_item s_f s_fi s_psi].
    unfold NoiseFreeRun.compile2. destruct (c <? t) eqn:E; cbn [fst snd s_f s_fi s_psi sim_step State.apply_item];
      apply (step2 R rO rI radd rmul rsub ropp Rth); auto; apply unit_mul; auto using shift_c_unit, shift_t_unit.
  - destruct W as (Hc & Ht & Hne).
    unfold NoiseFreeRun.nf_step, NoiseFreeRun.fstep. cbn [NoiseFreeRun.compile NoiseFreeRun.iscal NoiseFreeRun.oriented_item s_f s_fi s_psi].
    unfold NoiseFreeRun.compile2. destruct (c <? t) eqn:E; cbn [fst snd s_f s_fi s_psi sim_step State.apply_item];
      apply (step2 R rO rI radd rmul rsub ropp Rth); auto; apply unit_mul; auto using shift_c_unit, shift_t_unit.
Qed.

Lemma nf_step_frames f fi psi x :
  s_f R (nf_step {| s_f := f; s_fi := fi; s_psi := psi |} x) = fst (fstep (f, fi) x) /\
  s_fi R (nf_step {| s_f := f; s_fi := fi; s_psi := psi |} x) = snd (fstep (f, fi) x).
Proof. split; reflexivity. Qed.

(* the frames of a run do not depend on the state *)
Lemma nf_frames_fold : forall p f fi psi,
  s_f R (fold_left nf_step p {| s_f := f; s_fi := fi; s_psi := psi |}) = fst (fold_left fstep p (f, fi)) /\
  s_fi R (fold_left nf_step p {| s_f := f; s_fi := fi; s_psi := psi |}) = snd (fold_left fstep p (f, fi)).
Proof.
  induction p as [|x r IH]; intros f fi psi; [split; reflexivity|]. cbn [fold_left].
  rewrite (surjective_pairing (fstep (f, fi) x)). apply IH.
Qed.

(* ---- whole programs: invariant with the ORIENTED ideal items ---- *)
Lemma run_invariant_from n : forall p f fi psi ideal g,
  Forall (wf_instr n) p -> frames_ok f fi -> Inv n g f psi ideal ->
  let s' := fold_left nf_step p {| s_f := f; s_fi := fi; s_psi := psi |} in
  Inv n (fold_left (fun g x => g * iscal x) p g) (s_f R s') (s_psi R s') (sem (map oriented_item p) ideal) /\
  frames_ok (s_f R s') (s_fi R s').
Proof.
  induction p as [|x r IH]; intros f fi psi ideal g W F I; cbn [fold_left map]; [split; assumption|].
  pose proof (Forall_inv W) as Wx. pose proof (Forall_inv_tail W) as Wr.
  pose proof (nf_step_inv n g f fi psi ideal x Wx F I) as Ix.
  pose proof (fstep_ok f fi x F) as Fx.
  destruct (nf_step_frames f fi psi x) as [E1 E2].
  set (s1 := nf_step {| s_f := f; s_fi := fi; s_psi := psi |} x) in *.
  replace s1 with {| s_f := s_f R s1; s_fi := s_fi R s1; s_psi := s_psi R s1 |} by (destruct s1; reflexivity).
  apply IH; auto.
Qed.

(* ---- oriented two-qubit items are the textbook gates on (control, target) ---- *)
Lemma apply2_swap q1 q2 (G : m4 R) psi b : q1 <> q2 ->
  apply2 q2 q1 (fun r c => G (snd r, fst r) (snd c, fst c)) psi b = apply2 q1 q2 G psi b.
Proof.
  intros H. unfold State.apply2. cbv zeta. cbn [fst snd].
  rewrite (upd_comm b q2 q1 false false), (upd_comm b q2 q1 false true), (upd_comm b q2 q1 true false), (upd_comm b q2 q1 true true) by auto.
  ring.
Qed.
Lemma gate2_swap k r c : gate2 k 1 r c = gate2 k 0 (snd r, fst r) (snd c, fst c).
Proof. destruct k, r as [[|] [|]], c as [[|] [|]]; reflexivity. Qed.

Lemma oriented_is_ideal n x psi b : wf_instr n x -> apply_item (oriented_item x) psi b = apply_item (ideal_item x) psi b.
Proof.
  intros W. destruct x as [q th|q|q|c t|c t]; try reflexivity; cbn [wf_instr] in W; destruct W as (_ & _ & Hne);
    cbn [NoiseFreeRun.oriented_item NoiseFreeRun.ideal_item]; destruct (c <? t); try reflexivity; cbn [State.apply_item];
    rewrite <- (apply2_swap c t) by auto; unfold State.apply2; cbv zeta; rewrite !gate2_swap; reflexivity.
Qed.
Lemma oriented_sem n : forall p s t, Forall (wf_instr n) p -> state_eq R n s t ->
  state_eq R n (sem (map oriented_item p) s) (sem (ideal_items p) t).
Proof.
  induction p as [|x r IH]; intros s t W H; [exact H|].
  cbn [map NoiseFreeRun.ideal_items State.sem fold_left]. apply IH; [exact (Forall_inv_tail W)|].
  intros b Hb. rewrite (oriented_is_ideal n x s b (Forall_inv W)). now apply (apply_item_ext R radd rmul n).
Qed.

(* ---- (2) the run invariant: frame(b) * simulated(b) = g * ideal(b), g the product of the unit constants ---- *)
Theorem run_invariant n p psi0 : Forall (wf_instr n) p ->
  Inv n (gscalar p) (s_f R (fold_left nf_step p (s_one psi0))) (sem (run_items p) psi0) (sem (ideal_items p) psi0).
Proof.
  intros W. rewrite run_is_framed.
  destruct (run_invariant_from n p (f_one R rI) (f_one R rI) psi0 psi0 rI W frames_ok_one (Inv_init R rO rI radd rmul rsub ropp Rth n psi0)) as [I _].
  intros b Hb. etransitivity; [exact (I b Hb)|]. f_equal. apply (oriented_sem n p psi0 psi0 W); auto. intros c _. reflexivity.
Qed.
Theorem run_frames_ok n p psi0 : Forall (wf_instr n) p ->
  frames_ok (s_f R (fold_left nf_step p (s_one psi0))) (s_fi R (fold_left nf_step p (s_one psi0))).
Proof.
  intros W.
  exact (proj2 (run_invariant_from n p (f_one R rI) (f_one R rI) psi0 psi0 rI W frames_ok_one (Inv_init R rO rI radd rmul rsub ropp Rth n psi0))).
Qed.

(* ---- the compiled program satisfies FrameSim's side conditions along the run ---- *)
Lemma compiled_wf n s x : wf_instr n x -> frames_ok (s_f R s) (s_fi R s) ->
  wf_op R rI rmul n s (compile (s_f R s) (s_fi R s) x).
Proof.
  intros W F. destruct x as [q th|q|q|c t|c t]; cbn [wf_instr] in W; cbn [NoiseFreeRun.compile wf_op].
  - split; [exact W | apply (ok_a OK)].
  - split; [exact W | apply F].
  - split; [exact W | apply F].
  - destruct W as (Hc & Ht & Hne). unfold NoiseFreeRun.compile2. destruct (c <? t); cbn [wf_op];
      repeat split; auto; apply unit_mul; auto using shift_c_unit, shift_t_unit.
  - destruct W as (Hc & Ht & Hne). unfold NoiseFreeRun.compile2. destruct (c <? t); cbn [wf_op];
      repeat split; auto; apply unit_mul; auto using shift_c_unit, shift_t_unit.
Qed.

(* ---- (3) Born weights ---- *)
Section Born.
Variable cj : R -> R.
Hypothesis cj_mul : forall x y, cj (x * y) = cj x * cj y.
Hypothesis cj_one : cj rI = rI.
Hypothesis cj_opp : forall x, cj (ropp x) = ropp (cj x).
(* conjugation inverts the unit constants *)
Hypothesis cj_i : cj ci = ropp ci.
Hypothesis cj_w1 : cj (k_w1 K) = k_w1i K.
Hypothesis cj_w3 : cj (k_w3 K) = k_w3i K.
Hypothesis cj_e : forall th, cj (k_e K th) = k_ei K th.
Hypothesis cj_a : forall th, cj (k_a K th) = k_ai K th.
Notation nrm := (nrm R rmul cj).

Lemma cj_gph g : cj (gph_val g) = gph_inv g.
Proof.
  destruct g; cbn [NoiseFreeRun.gph_val NoiseFreeRun.gph_inv]; auto.
  rewrite cj_opp, cj_i. ring.
Qed.
Lemma nrm_iscal x : nrm (iscal x) = rI.
Proof.
  unfold FrameSim.nrm. destruct x as [q th|q|q|c t|c t]; cbn [NoiseFreeRun.iscal]; try (rewrite cj_gph; apply gph_unit).
  (* ai * cj ai = cj (a * ai) = 1 *)
  transitivity (cj (k_a K th * k_ai K th)).
  - rewrite cj_mul, cj_a. ring.
  - rewrite (ok_a OK). apply cj_one.
Qed.
Lemma nrm_gscalar_from p : forall g, nrm g = rI -> nrm (fold_left (fun g x => g * iscal x) p g) = rI.
Proof.
  induction p as [|x r IH]; intros g Hg; [exact Hg|]. cbn [fold_left]. apply IH.
  rewrite (nrm_mul R rO rI radd rmul rsub ropp Rth cj cj_mul). rewrite Hg, nrm_iscal. ring.
Qed.
Lemma nrm_gscalar p : nrm (gscalar p) = rI.
Proof. apply nrm_gscalar_from. unfold FrameSim.nrm. rewrite cj_one. ring. Qed.

(* the inverse frame is the conjugate frame, all along *)
Definition frames_cj (f fi : frame) : Prop := forall q, cj (f q) = fi q.
Lemma frames_cj_fupd f fi q u ui : frames_cj f fi -> cj u = ui -> frames_cj (fupd R f q u) (fupd R fi q ui).
Proof. intros H Hu x. unfold fupd. destruct (Nat.eqb x q); auto. Qed.
Lemma cj_shift_c k lt : cj (iq (c_shift_c (choose2 k lt))) = iq (- c_shift_c (choose2 k lt)).
Proof.
  destruct k, lt; cbn [choose2 c_shift_c Z.opp Pos.succ]; rewrite ?iq_0, ?iq_1, ?iq_m1, ?iq_3, ?iq_m3; auto.
  - rewrite cj_opp, cj_i. ring.
  - rewrite cj_opp, cj_i. ring.
Qed.
Lemma cj_shift_t k lt : cj (iq (c_shift_t (choose2 k lt))) = iq (- c_shift_t (choose2 k lt)).
Proof.
  destruct k, lt; cbn [choose2 c_shift_t Z.opp Pos.succ]; rewrite ?iq_0, ?iq_1, ?iq_m1, ?iq_3, ?iq_m3; auto.
Qed.
Lemma fstep_cj f fi x : frames_cj f fi -> frames_cj (fst (fstep (f, fi) x)) (snd (fstep (f, fi) x)).
Proof.
  intros H. destruct x as [q th|q|q|c t|c t]; cbn [NoiseFreeRun.fstep NoiseFreeRun.compile fst snd]; auto.
  - apply frames_cj_fupd; auto. rewrite cj_mul, H, cj_e. reflexivity.
  - unfold NoiseFreeRun.compile2. destruct (c <? t); cbn [fst snd];
      repeat apply frames_cj_fupd; auto; rewrite cj_mul, H; f_equal; auto using cj_shift_c, cj_shift_t.
  - unfold NoiseFreeRun.compile2. destruct (c <? t); cbn [fst snd];
      repeat apply frames_cj_fupd; auto; rewrite cj_mul, H; f_equal; auto using cj_shift_c, cj_shift_t.
Qed.
Lemma run_frames_cj : forall p f fi psi, frames_cj f fi ->
  frames_cj (s_f R (fold_left nf_step p {| s_f := f; s_fi := fi; s_psi := psi |})) (s_fi R (fold_left nf_step p {| s_f := f; s_fi := fi; s_psi := psi |})).
Proof.
  induction p as [|x r IH]; intros f fi psi H; [exact H|]. cbn [fold_left].
  set (s1 := nf_step {| s_f := f; s_fi := fi; s_psi := psi |} x).
  replace s1 with {| s_f := fst (fstep (f, fi) x); s_fi := snd (fstep (f, fi) x); s_psi := s_psi R s1 |} by reflexivity.
  apply IH. now apply fstep_cj.
Qed.

(* the simulated Born weights are the ideal circuit's, basis state by basis state *)
Theorem noise_free_born n p psi0 : Forall (wf_instr n) p ->
  forall b, length b = n -> nrm (sem (run_items p) psi0 b) = nrm (sem (ideal_items p) psi0 b).
Proof.
  intros W.
  apply (born_invisible R rO rI radd rmul rsub ropp Rth cj cj_mul cj_one n (gscalar p)
           (s_f R (fold_left nf_step p (s_one psi0)))).
  - now apply run_invariant.
  - apply nrm_gscalar.
  - intros q. unfold FrameSim.nrm.
    pose proof (run_frames_cj p (f_one R rI) (f_one R rI) psi0 (fun _ => cj_one) q) as Hq.
    change {| s_f := f_one R rI; s_fi := f_one R rI; s_psi := psi0 |} with (s_one psi0) in Hq.
    rewrite Hq. apply (run_frames_ok n p psi0 W).
Qed.
End Born.

(* the same with the hypotheses on the conjugation bundled *)
Record conj_ok (cj : R -> R) : Prop := mkConj {
  cjo_mul : forall x y, cj (x * y) = cj x * cj y;
  cjo_one : cj rI = rI;
  cjo_opp : forall x, cj (ropp x) = ropp (cj x);
  cjo_i : cj ci = ropp ci;
  cjo_w1 : cj (k_w1 K) = k_w1i K;
  cjo_w3 : cj (k_w3 K) = k_w3i K;
  cjo_e : forall th, cj (k_e K th) = k_ei K th;
  cjo_a : forall th, cj (k_a K th) = k_ai K th
}.
Theorem noise_free_born_index cj : conj_ok cj -> forall n p psi0, Forall (wf_instr n) p ->
  forall b, length b = n ->
  nrm R rmul cj (sem (run_items p) psi0 b) = nrm R rmul cj (sem (ideal_items p) psi0 b).
Proof. intros [h1 h2 h3 h4 h5 h6 h7 h8]. exact (noise_free_born cj h1 h2 h3 h4 h5 h6 h7 h8). Qed.

End Lift.
