(* C15: save/load round trips of the DeviceParameters model (Model/DevParams.v). *)
From Coq Require Import List Bool Arith Lia.
Require Import QG.Base.Res QG.Model.DevParams QG.Proofs.DevParamsArrays.
Import ListNotations.

Section P.
Variable V : Type.
Variables M MJ : Type.
Variable mjson : M -> MJ.
Variable mload : MJ -> M.
(* trusted fact about the json module: dumping what was loaded from a dump gives the same text *)
Hypothesis json_idem : forall m, mjson (mload (mjson m)) = mjson m.

Notation arr := (arr V).
Notation obj := (obj V M).
Notation fs := (fs V MJ).
Notation cycle := (cycle V M MJ mjson mload).
Notation cycles := (cycles V M MJ mjson mload).
Notation py_eq := (py_eq V M MJ mjson).

(* ------------------------------------------------------------------ specification predicates *)
(* a genuine ndarray with at least one entry: every dimension positive, as many values as the shape says *)
Definition wf_arr (a : arr) : Prop := Forall (fun n => 1 <= n) (shape a) /\ length (data a) = prod_dims (shape a).

(* domain of the JSON round trip: complete, every attribute a non-empty array of any rank *)
Definition json_ok (o : obj) : Prop :=
  (forall k, exists a, get8 k (fields o) = Some a /\ wf_arr a) /\ metadata o <> None.

(* which table sizes survive the text format for n qubits *)
Definition table_ok (n r c : nat) : Prop := (n = 1 /\ 1 <= r /\ 1 <= c) \/ (2 <= r /\ 2 <= c).
Definition field_ok (n : nat) (k : fld) (a : arr) : Prop :=
  match k with
  | Pint | Tint => exists r c, shape a = [r; c] /\ table_ok n r c /\ length (data a) = r * c
  | Dt => shape a = [1] /\ length (data a) = 1
  | _ => shape a = [n] /\ length (data a) = n
  end.
(* domain of the text round trip: n >= 1 qubits, per-qubit vectors of length n, dt of length 1, r x c tables *)
Definition text_ok (o : obj) : Prop :=
  1 <= nr_of_qubits V M o /\ (forall k, exists a, get8 k (fields o) = Some a /\ field_ok (nr_of_qubits V M o) k a) /\
  metadata o <> None.

(* the shape of a parameter object for a layout: distinct labels, tables of size max(layout)+1 *)
Definition params_ok (o : obj) : Prop :=
  let n := length (layout o) in let m := list_max (layout o) + 1 in
  1 <= n /\ NoDup (layout o) /\ metadata o <> None /\
  forall k, exists a, get8 k (fields o) = Some a /\
    match k with
    | Pint | Tint => shape a = [m; m] /\ length (data a) = m * m
    | Dt => shape a = [1] /\ length (data a) = 1
    | _ => shape a = [n] /\ length (data a) = n
    end.

(* what a round trip must preserve: every array (shape and values), the layout, __eq__, completeness *)
Definition same (o' o : obj) : Prop :=
  fields o' = fields o /\ layout o' = layout o /\ py_eq o' o /\ is_complete V M o' = true.

(* ------------------------------------------------------------------ helpers *)
Lemma all_some (o : obj) (Q : fld -> arr -> Prop) :
  (forall k, exists a, get8 k (fields o) = Some a /\ Q k a) ->
  exists a1 a2 a3 a4 a5 a6 a7 a8, fields o = R8 (Some a1) (Some a2) (Some a3) (Some a4) (Some a5) (Some a6) (Some a7) (Some a8) /\
    Q T1 a1 /\ Q T2 a2 /\ Q P a3 /\ Q Rout a4 /\ Q Pint a5 /\ Q Tint a6 /\ Q Tm a7 /\ Q Dt a8.
Proof.
  intros H.
  destruct (H T1) as [a1 [E1 Q1]], (H T2) as [a2 [E2 Q2]], (H P) as [a3 [E3 Q3]], (H Rout) as [a4 [E4 Q4]],
           (H Pint) as [a5 [E5 Q5]], (H Tint) as [a6 [E6 Q6]], (H Tm) as [a7 [E7 Q7]], (H Dt) as [a8 [E8 Q8]].
  exists a1, a2, a3, a4, a5, a6, a7, a8. destruct (fields o); cbn in *. subst. repeat split; assumption.
Qed.

Local Arguments np_array : simpl never.
Local Arguments tolist : simpl never.
Local Arguments savetxt : simpl never.
Local Arguments loadtxt : simpl never.
Local Arguments chunks : simpl never.

(* ------------------------------------------------------------------ JSON *)
Lemma json_cycle_ok : forall (f : fs) (o : obj), json_ok o ->
  exists f' o', cycle AsJson (f, o) = Done (f', o') /\ same o' o /\ json_ok o'.
Proof.
  intros f [lay flds meta] [Hf Hm].
  destruct (all_some _ (fun _ a => wf_arr a) Hf) as (a1 & a2 & a3 & a4 & a5 & a6 & a7 & a8 & E & W1 & W2 & W3 & W4 & W5 & W6 & W7 & W8).
  cbn in E, Hm. subst flds. destruct meta as [m|]; [|congruence].
  unfold cycle, save, load, save_to_json, load_from_json. cbn.
  destruct W1, W2, W3, W4, W5, W6, W7, W8.
  rewrite !np_array_tolist by assumption. cbn.
  eexists. eexists. split; [reflexivity|]. split.
  - unfold same, DevParams.py_eq, canon. cbn. rewrite json_idem. repeat split.
  - split; [|cbn; congruence]. intros k. destruct k; cbn; eexists; (split; [reflexivity|]); split; assumption.
Qed.

(* ------------------------------------------------------------------ text files *)
Lemma squeeze_col : forall n, 2 <= n -> squeeze [n; 1] = [n].
Proof. intros n H. unfold squeeze. cbn. destruct (n =? 1) eqn:E; [apply Nat.eqb_eq in E; lia | reflexivity]. Qed.
Lemma squeeze_tab : forall r c, 2 <= r -> 2 <= c -> squeeze [r; c] = [r; c].
Proof.
  intros r c Hr Hc. unfold squeeze. cbn.
  destruct (r =? 1) eqn:E; [apply Nat.eqb_eq in E; lia|]. destruct (c =? 1) eqn:E2; [apply Nat.eqb_eq in E2; lia|]. reflexivity.
Qed.

(* a vector of length n >= 1: written as a column, read back (squeezed); wrapped when n = 1 *)
Lemma vec_save : forall n (a : arr), shape a = [n] -> savetxt V a = Done (chunks V 1 n (data a)).
Proof. intros n [s d] H. cbn in H. subst. reflexivity. Qed.
Lemma vec_load_many : forall n (a : arr), 2 <= n -> shape a = [n] -> length (data a) = n ->
  loadtxt V false (chunks V 1 n (data a)) = Done a.
Proof.
  intros n [s d] Hn H L. cbn in *. subst s. rewrite loadtxt_chunks by lia. rewrite squeeze_col by lia. reflexivity.
Qed.
Lemma vec_load_one : forall (a : arr), shape a = [1] -> length (data a) = 1 ->
  obind (loadtxt V false (chunks V 1 1 (data a))) (fun x => Done (wrap V x)) = Done a.
Proof. intros [s d] H L. cbn in *. subst s. rewrite loadtxt_chunks by lia. reflexivity. Qed.
Lemma tab_save : forall r c (a : arr), shape a = [r; c] -> savetxt V a = Done (chunks V c r (data a)).
Proof. intros r c [s d] H. cbn in H. subst. reflexivity. Qed.
Lemma tab_load_nd2 : forall r c (a : arr), 1 <= r -> 1 <= c -> shape a = [r; c] -> length (data a) = r * c ->
  loadtxt V true (chunks V c r (data a)) = Done a.
Proof. intros r c [s d] Hr Hc H L. cbn in *. subst s. rewrite loadtxt_chunks by lia. reflexivity. Qed.
Lemma tab_load_plain : forall r c (a : arr), 2 <= r -> 2 <= c -> shape a = [r; c] -> length (data a) = r * c ->
  loadtxt V false (chunks V c r (data a)) = Done a.
Proof.
  intros r c [s d] Hr Hc H L. cbn in *. subst s. rewrite loadtxt_chunks by lia. rewrite squeeze_tab by lia. reflexivity.
Qed.

Lemma text_cycle_ok : forall (f : fs) (o : obj), text_ok o ->
  exists f' o', cycle AsTexts (f, o) = Done (f', o') /\ same o' o /\ text_ok o'.
Proof.
  intros f [lay flds meta] (Hn & Hf & Hm). unfold nr_of_qubits in *. cbn [layout] in *.
  destruct (all_some _ _ Hf) as (a1 & a2 & a3 & a4 & a5 & a6 & a7 & a8 & E & W1 & W2 & W3 & W4 & W5 & W6 & W7 & W8).
  cbn in E, Hm. subst flds. destruct meta as [m|]; [|congruence].
  cbn [field_ok] in *.
  destruct W1 as [S1 L1], W2 as [S2 L2], W3 as [S3 L3], W4 as [S4 L4], W7 as [S7 L7], W8 as [S8 L8].
  destruct W5 as (r5 & c5 & S5 & T5 & L5), W6 as (r6 & c6 & S6 & T6 & L6).
  unfold cycle, save, load, save_to_texts. cbn.
  rewrite (vec_save _ _ S1); cbn. rewrite (vec_save _ _ S2); cbn. rewrite (vec_save _ _ S3); cbn.
  rewrite (vec_save _ _ S4); cbn. rewrite (tab_save _ _ _ S5); cbn. rewrite (tab_save _ _ _ S6); cbn.
  rewrite (vec_save _ _ S8); cbn. rewrite (vec_save _ _ S7); cbn.
  unfold load_from_texts, nr_of_qubits. cbn.
  assert (Hsame : forall o' : obj, fields o' = R8 (Some a1) (Some a2) (Some a3) (Some a4) (Some a5) (Some a6) (Some a7) (Some a8) ->
            layout o' = lay -> metadata o' = Some (mload (mjson m)) ->
            same o' (mkObj lay (R8 (Some a1) (Some a2) (Some a3) (Some a4) (Some a5) (Some a6) (Some a7) (Some a8)) (Some m)) /\ text_ok o').
  { intros [lay' flds' meta'] Ef El Em. cbn in Ef, El, Em. subst. split.
    - unfold same, DevParams.py_eq, canon. cbn. rewrite json_idem. repeat split.
    - split; [exact Hn|]. split; [|cbn; congruence]. unfold nr_of_qubits. cbn [layout fields].
      intros k. destruct k; cbn; eexists; (split; [reflexivity|]); cbn; eauto 8. }
  destruct (length lay =? 1) eqn:En.
  - apply Nat.eqb_eq in En. rewrite En in *. cbn.
    rewrite (vec_load_one _ S1 L1), (vec_load_one _ S2 L2), (vec_load_one _ S3 L3), (vec_load_one _ S4 L4),
            (vec_load_one _ S7 L7), (vec_load_one _ S8 L8).
    assert (1 <= r5 /\ 1 <= c5 /\ 1 <= r6 /\ 1 <= c6) as (? & ? & ? & ?) by (unfold table_ok in *; lia).
    rewrite (tab_load_nd2 _ _ _ H H0 S5 L5), (tab_load_nd2 _ _ _ H1 H2 S6 L6). cbn.
    eexists. eexists. split; [reflexivity|]. apply Hsame; reflexivity.
  - apply Nat.eqb_neq in En. assert (H2n : 2 <= length lay) by lia. cbn.
    rewrite (vec_load_many _ _ H2n S1 L1), (vec_load_many _ _ H2n S2 L2), (vec_load_many _ _ H2n S3 L3),
            (vec_load_many _ _ H2n S4 L4), (vec_load_many _ _ H2n S7 L7), (vec_load_one _ S8 L8).
    assert (2 <= r5 /\ 2 <= c5 /\ 2 <= r6 /\ 2 <= c6) as (? & ? & ? & ?) by (unfold table_ok in *; lia).
    rewrite (tab_load_plain _ _ _ H H0 S5 L5), (tab_load_plain _ _ _ H1 H2 S6 L6). cbn.
    eexists. eexists. split; [reflexivity|]. apply Hsame; reflexivity.
Qed.

(* ------------------------------------------------------------------ repeated cycles *)
Lemma same_trans : forall o2 o1 o : obj, same o2 o1 -> same o1 o -> same o2 o.
Proof.
  intros o2 o1 o (A1 & A2 & A3 & A4) (B1 & B2 & B3 & B4). unfold same, DevParams.py_eq in *.
  repeat split; try congruence.
Qed.
Lemma same_refl : forall o : obj, is_complete V M o = true -> same o o.
Proof. intros o H. unfold same, DevParams.py_eq. repeat split; assumption. Qed.

Lemma json_ok_complete : forall o : obj, json_ok o -> is_complete V M o = true.
Proof.
  intros [lay flds meta] [Hf Hm].
  destruct (all_some _ _ Hf) as (a1 & a2 & a3 & a4 & a5 & a6 & a7 & a8 & E & _). cbn in *. subst.
  destruct meta; [reflexivity | congruence].
Qed.
Lemma text_ok_complete : forall o : obj, text_ok o -> is_complete V M o = true.
Proof.
  intros [lay flds meta] (_ & Hf & Hm).
  destruct (all_some _ _ Hf) as (a1 & a2 & a3 & a4 & a5 & a6 & a7 & a8 & E & _). cbn in *. subst.
  destruct meta; [reflexivity | congruence].
Qed.

Lemma json_cycles_ok : forall k (f : fs) (o : obj), json_ok o ->
  exists f' o', cycles AsJson k (f, o) = Done (f', o') /\ same o' o.
Proof.
  induction k; intros f o H.
  - exists f, o. split; [reflexivity | apply same_refl, json_ok_complete, H].
  - destruct (json_cycle_ok f o H) as (f1 & o1 & E & S & H1).
    destruct (IHk f1 o1 H1) as (f2 & o2 & E2 & S2).
    exists f2, o2. split; [|eapply same_trans; eassumption].
    cbn [DevParams.cycles]. rewrite E. exact E2.
Qed.
Lemma text_cycles_ok : forall k (f : fs) (o : obj), text_ok o ->
  exists f' o', cycles AsTexts k (f, o) = Done (f', o') /\ same o' o.
Proof.
  induction k; intros f o H.
  - exists f, o. split; [reflexivity | apply same_refl, text_ok_complete, H].
  - destruct (text_cycle_ok f o H) as (f1 & o1 & E & S & H1).
    destruct (IHk f1 o1 H1) as (f2 & o2 & E2 & S2).
    exists f2, o2. split; [|eapply same_trans; eassumption].
    cbn [DevParams.cycles]. rewrite E. exact E2.
Qed.

(* ------------------------------------------------------------------ layouts *)
Lemma list_max_ge : forall l x, In x l -> x <= list_max l.
Proof. intros l x H. pose proof (proj1 (list_max_le l (list_max l)) (le_n _)) as F. rewrite Forall_forall in F. auto. Qed.

Lemma nodup_length_max : forall l, NoDup l -> length l <= list_max l + 1.
Proof.
  intros l H. replace (list_max l + 1) with (length (seq 0 (S (list_max l)))) by (rewrite seq_length; lia).
  apply NoDup_incl_length; [exact H|]. intros x Hx. apply in_seq. pose proof (list_max_ge l x Hx). lia.
Qed.

Lemma params_ok_text_ok : forall o : obj, params_ok o -> text_ok o.
Proof.
  intros o (Hn & Hnd & Hm & Hf). unfold text_ok, nr_of_qubits. split; [exact Hn|]. split; [|exact Hm].
  pose proof (nodup_length_max _ Hnd) as Hle.
  intros k. destruct (Hf k) as [a [E Q]]. exists a. split; [exact E|].
  destruct k; cbn [field_ok]; try exact Q.
  - destruct Q as [S L]. eexists. eexists. split; [exact S|]. split; [|exact L]. unfold table_ok. lia.
  - destruct Q as [S L]. eexists. eexists. split; [exact S|]. split; [|exact L]. unfold table_ok. lia.
Qed.

Lemma params_ok_json_ok : forall o : obj, params_ok o -> json_ok o.
Proof.
  intros o (Hn & Hnd & Hm & Hf). split; [|exact Hm].
  intros k. destruct (Hf k) as [a [E Q]]. exists a. split; [exact E|]. unfold wf_arr.
  destruct k; destruct Q as [S L]; rewrite S, L; cbn; (split; [repeat constructor; lia | lia]).
Qed.

Lemma params_ok_same : forall o' o : obj, same o' o -> params_ok o -> params_ok o'.
Proof.
  intros o' o (Ef & El & _ & C) (Hn & Hnd & Hm & Hf). unfold params_ok. rewrite El, Ef.
  split; [exact Hn|]. split; [exact Hnd|]. split; [|exact Hf].
  unfold is_complete in C. apply andb_true_iff in C. destruct C as [_ C]. destruct (metadata o'); [congruence | discriminate].
Qed.

(* any sequence of formats, starting from a well-shaped parameter object *)
Lemma params_cycles_seq_ok : forall fms (f : fs) (o : obj), params_ok o ->
  exists f' o', cycles_seq V M MJ mjson mload fms (f, o) = Done (f', o') /\ same o' o.
Proof.
  induction fms as [|fm fms IH]; intros f o H.
  - exists f, o. split; [reflexivity | apply same_refl, text_ok_complete, params_ok_text_ok, H].
  - assert (C : exists f1 o1, cycle fm (f, o) = Done (f1, o1) /\ same o1 o).
    { destruct fm.
      - destruct (json_cycle_ok f o (params_ok_json_ok _ H)) as (f1 & o1 & E & S & _). eauto.
      - destruct (text_cycle_ok f o (params_ok_text_ok _ H)) as (f1 & o1 & E & S & _). eauto. }
    destruct C as (f1 & o1 & E & S).
    destruct (IH f1 o1 (params_ok_same _ _ S H)) as (f2 & o2 & E2 & S2).
    exists f2, o2. split; [|eapply same_trans; eassumption].
    cbn [DevParams.cycles_seq]. rewrite E. exact E2.
Qed.

(* ------------------------------------------------------------------ missing files, failed loads *)
Definition text_files_missing (f : fs) : Prop := (exists k, get8 k (texts f) = None) \/ metafile f = None.

Lemma missing_json : forall (f : fs) (o : obj), jsonfile f = None ->
  load_from_json V M MJ mload f o = (o, Raise (Py FileNotFoundError)).
Proof. intros f o H. unfold load_from_json. rewrite H. reflexivity. Qed.

Lemma missing_texts : forall (f : fs) (o : obj), text_files_missing f ->
  load_from_texts V M MJ mload f o = (o, Raise (Py FileNotFoundError)).
Proof.
  intros f o H. unfold load_from_texts.
  assert (E : all8 is_some (texts f) && is_some (metafile f) = false).
  { destruct H as [[k Hk] | Hm].
    - destruct (texts f) as [x1 x2 x3 x4 x5 x6 x7 x8]. destruct k; cbn in Hk; subst; unfold all8; cbn;
        repeat match goal with |- context [is_some ?x] => destruct x; cbn end; reflexivity.
    - rewrite Hm. cbn. apply andb_false_r. }
  rewrite E. reflexivity.
Qed.

(* the attribute assignments never touch metadata, and keep the layout *)
Lemma assign_all_meta : forall steps (o o' : obj) r, assign_all V M steps o = (o', r) -> metadata o' = metadata o /\ layout o' = layout o.
Proof.
  unfold assign_all. intros steps.
  assert (G : forall st o' r, fold_left (assign_one V M) steps st = (o', r) -> metadata o' = metadata (fst st) /\ layout o' = layout (fst st)).
  { induction steps as [|[k a] steps IH]; intros [o1 r1] o' r H; cbn in *.
    - inversion H; subst. split; reflexivity.
    - apply IH in H. destruct r1; [destruct a|]; cbn in *; exact H. }
  intros o o' r H. apply (G _ _ _ H).
Qed.

Lemma set8_get8 : forall (A : Type) k k' (v : A) r, get8 k' (set8 k v r) = if match k, k' with
   | T1, T1 | T2, T2 | P, P | Rout, Rout | Pint, Pint | Tint, Tint | Tm, Tm | Dt, Dt => true | _, _ => false end then v else get8 k' r.
Proof. intros A k k' v r. destruct k, k'; reflexivity. Qed.

Lemma assign_raise : forall steps (o : obj) x, fold_left (assign_one V M) steps (o, Raise x) = (o, Raise x).
Proof. induction steps as [|s steps IH]; intros; cbn; [reflexivity | apply IH]. Qed.

(* when every assignment succeeds, every assigned attribute is set and no set attribute is lost *)
Lemma assign_all_done : forall steps (o o' : obj), assign_all V M steps o = (o', Done tt) ->
  forall k, (In k (map fst steps) \/ is_some (get8 k (fields o)) = true) -> is_some (get8 k (fields o')) = true.
Proof.
  unfold assign_all. induction steps as [|[k0 a] steps IH]; intros o o' H k Hk; cbn in *.
  - inversion H; subst. destruct Hk as [[]|Hk]. exact Hk.
  - destruct a as [a|x]; cbn in H.
    + apply (IH _ _ H). destruct Hk as [[Hk|Hk]|Hk].
      * right. subst. cbn. rewrite set8_get8. destruct k; reflexivity.
      * left. exact Hk.
      * right. cbn. rewrite set8_get8. destruct k0, k; try exact Hk; reflexivity.
    + rewrite assign_raise in H. discriminate.
Qed.

Lemma all8_get8 : forall (A : Type) (p : A -> bool) r, (forall k, p (get8 k r) = true) -> all8 p r = true.
Proof.
  intros A p r H. unfold all8.
  pose proof (H T1) as H1; pose proof (H T2) as H2; pose proof (H P) as H3; pose proof (H Rout) as H4;
  pose proof (H Pint) as H5; pose proof (H Tint) as H6; pose proof (H Tm) as H7; pose proof (H Dt) as H8.
  cbn in *. rewrite H1, H2, H3, H4, H5, H6, H7, H8. reflexivity.
Qed.

(* after the eight assignments and the metadata assignment the verification cannot fail *)
Lemma verify_after : forall steps (o o1 : obj) m, assign_all V M steps o = (o1, Done tt) ->
  (forall k, In k (map fst steps)) ->
  verify V M (set_meta V M m o1, Done tt) = (set_meta V M m o1, Done tt).
Proof.
  intros steps o o1 m H Hall. unfold verify.
  replace (is_complete V M (set_meta V M m o1)) with true; [reflexivity|].
  unfold is_complete. cbn. rewrite andb_true_r. symmetry. apply all8_get8.
  intros k. apply (assign_all_done _ _ _ H). left. apply Hall.
Qed.

(* a load that raises leaves metadata (and the layout) as it was *)
Lemma failed_load_meta : forall fm (f : fs) (o o' : obj) x,
  load V M MJ mload fm f o = (o', Raise x) -> metadata o' = metadata o.
Proof.
  intros fm f o o' x H. destruct fm; cbn [load] in H.
  - unfold load_from_json in H. destruct (jsonfile f) as [d|]; [|inversion H; reflexivity].
    destruct (negb _); [inversion H; reflexivity|].
    destruct (assign_all _ _ _ _) as [o1 r1] eqn:E. pose proof (assign_all_meta _ _ _ _ E) as [Em _].
    destruct r1 as [[]|y]; [|inversion H; subst; exact Em].
    destruct (jmeta d) as [mj|]; [|inversion H; subst; exact Em].
    rewrite (verify_after _ _ _ _ E) in H; [discriminate|].
    intros k. destruct k; cbn; tauto.
  - unfold load_from_texts in H. destruct (negb _); [inversion H; reflexivity|].
    destruct (assign_all _ _ _ _) as [o1 r1] eqn:E. pose proof (assign_all_meta _ _ _ _ E) as [Em _].
    destruct r1 as [[]|y]; [|inversion H; subst; exact Em].
    destruct (metafile f) as [mj|]; [|inversion H; subst; exact Em].
    rewrite (verify_after _ _ _ _ E) in H; [discriminate|].
    intros k. destruct (nr_of_qubits V M o =? 1); destruct k; cbn; tauto.
Qed.

(* hence a failed load into a fresh object never reports itself complete *)
Lemma failed_load_incomplete : forall fm (f : fs) lay (o' : obj) x,
  load V M MJ mload fm f (init V M lay) = (o', Raise x) -> is_complete V M o' = false.
Proof.
  intros fm f lay o' x H. apply failed_load_meta in H. unfold is_complete. rewrite H. cbn. apply andb_false_r.
Qed.

(* and a successful load always does *)
Lemma ok_load_complete : forall fm (f : fs) (o o' : obj),
  load V M MJ mload fm f o = (o', Done tt) -> is_complete V M o' = true.
Proof.
  intros fm f o o' H.
  assert (G : forall st, verify V M st = (o', Done tt) -> is_complete V M o' = true).
  { intros [o1 [[]|y]] Hv; cbn in Hv; [|discriminate]. destruct (is_complete V M o1) eqn:C; inversion Hv; subst; exact C. }
  destruct fm; cbn [load] in H.
  - unfold load_from_json in H. destruct (jsonfile f) as [d|]; [|discriminate].
    destruct (negb _); [discriminate|]. destruct (assign_all _ _ _ _) as [o1 [[]|y]]; [|discriminate].
    destruct (jmeta d); [|discriminate]. apply (G _ H).
  - unfold load_from_texts in H. destruct (negb _); [discriminate|].
    destruct (assign_all _ _ _ _) as [o1 [[]|y]]; [|discriminate].
    destruct (metafile f); [|discriminate]. apply (G _ H).
Qed.

End P.
