(* C08, subset clause, part 5: the same statements in the vocabulary of C14 (the simulator's _measurament).
   C14_marginal_correct: the value returned under key t is  msum final n pos t  = the sum of final[i] over the basis
   indices i (ascending) whose n-character binary numeral spells t at the measured positions pos.  Here: msum is the key
   weight marg of RelabelSum.v for the weight function b |-> final[value of b]; hence
   - msum_subset_is_marginal: the dictionary of a run measuring the sub-selection pos'[idx_0], pos'[idx_1], ... is the
     marginal of the dictionary of the run measuring pos' (same final vector: measure instructions are no operations);
   - msum_relabel: final vectors that agree through a permutation of the bit positions give the same dictionary. *)
From Coq Require Import List Bool NArith Arith Lia Reals Lra RealField.
Require Import QG.Base.State QG.Base.Mat QG.Base.Perm QG.Base.Res QG.Model.FixCounts QG.Model.SimRun
  QG.Proofs.FixCountsKeys QG.Proofs.SimRunKeys QG.Proofs.SimRunProofs QG.Proofs.RelabelSum.
Import ListNotations.
Local Open Scope R_scope.

Lemma all_keys_all_bits n : all_keys n = all_bits n.
Proof. induction n as [|n IH]; cbn [all_keys all_bits]; [reflexivity|]. now rewrite IH. Qed.
Lemma key_eqb_beq a : forall b, key_eqb a b = beq a b.
Proof. induction a as [|x a IH]; intros [|y b]; cbn [key_eqb beq]; auto; now rewrite IH. Qed.

Notation lsumR := (lsum R 0 Rplus).
Lemma fold_left_lsum l a : fold_left Rplus l a = a + lsumR l.
Proof. revert a. induction l as [|x r IH]; intros a; cbn [fold_left lsum]; [lra|]. rewrite IH. lra. Qed.
Lemma lsum_filter {A} (p : A -> bool) (g : A -> R) l :
  lsumR (map g (filter p l)) = lsumR (map (fun i => if p i then g i else 0) l).
Proof. induction l as [|x r IH]; cbn [filter map lsum]; auto. destruct (p x); cbn [map lsum]; rewrite IH; lra. Qed.

(* the weight of a bit list = the entry of the probability vector at its index value *)
Definition weights_of (final : list R) : bits -> R := fun b => nth (N.to_nat (bval b)) final 0.

Lemma msum_is_marg final n pos t : (0 < n)%nat -> msum final n pos t = marg R 0 Rplus n (weights_of final) pos t.
Proof.
  intros Hn. unfold marg. rewrite (bsum_lsum R 0 1 Rplus Rmult Rminus Ropp RTheory).
  rewrite <- all_keys_all_bits, <- binary_vector_all_keys by assumption. rewrite binary_vector_seq, map_map.
  unfold msum. rewrite fold_left_lsum, lsum_filter, Rplus_0_l. f_equal. apply map_ext. intros i.
  rewrite key_eqb_beq. unfold spell, weights_of.
  change (bval (enc n (N.of_nat i))) with (val (enc n (N.of_nat i))). rewrite val_enc, Nat2N.id. reflexivity.
Qed.

(* measuring a sub-selection of the measured positions: the returned value under key t is the sum of the values that
   measuring all of pos' returns under the keys t' (all strings of |pos'| characters) whose characters at idx spell t *)
Theorem msum_subset_is_marginal final n pos' idx t : (0 < n)%nat -> Forall (fun k => (k < length pos')%nat) idx ->
  msum final n (map (fun k => nth k pos' O) idx) t
  = rsum (map (fun t' => msum final n pos' t') (filter (fun t' => key_eqb (sel t' idx) t) (all_keys (length pos')))).
Proof.
  intros Hn F. rewrite msum_is_marg by assumption.
  rewrite (subset_is_marginal R 0 1 Rplus Rmult Rminus Ropp RTheory) by assumption.
  rewrite (bsum_lsum R 0 1 Rplus Rmult Rminus Ropp RTheory). rewrite <- all_keys_all_bits.
  unfold rsum. rewrite fold_left_lsum, lsum_filter, Rplus_0_l. f_equal. apply map_ext. intros t'.
  rewrite (key_eqb_beq (sel t' idx) t). rewrite (msum_is_marg final n pos' t' Hn). reflexivity.
Qed.

(* relabelling: probability vectors that agree through the permutation s of the bit positions give the same values on
   the s-images of the measured positions *)
Theorem msum_relabel final final' n s pos t : (0 < n)%nat -> perm_on n s -> Forall (fun q => (q < n)%nat) pos ->
  (forall b, length b = n -> weights_of final' (permute s b) = weights_of final b) ->
  msum final' n (map s pos) t = msum final n pos t.
Proof.
  intros Hn Hp F H. rewrite !msum_is_marg by assumption.
  now apply (marg_relabel R 0 1 Rplus Rmult Rminus Ropp RTheory).
Qed.
