(* C16: fix_counts completes and bit-reverses any outcome table — proofs over the model in Model/FixCounts.v *)
From Coq Require Import List Bool NArith ZArith Arith Lia Permutation.
Require Import QG.Base.Res QG.Model.FixCounts QG.Proofs.FixCountsKeys.
Import ListNotations.
Local Open Scope N_scope.

Section P.
Variable V : Type.
Variable vzero : V.
Notation tab := (list (list bool * V)).
Notation kval kv := (val (fst kv)).

Fixpoint lookup (k : list bool) (t : tab) : option V :=
  match t with [] => None | (k', v) :: r => if key_eqb k k' then Some v else lookup k r end.

(* ---------- dict_of is the identity on lists with distinct keys ---------- *)
Lemma dict_set_fresh k v (d : tab) : ~ In k (map fst d) -> dict_set V k v d = d ++ [(k, v)].
Proof.
  induction d as [|[k' v'] d IH]; intros H; simpl; auto.
  simpl in H. rewrite key_eqb_neq by (intros ->; apply H; now left).
  f_equal. apply IH. intros Hin. apply H. now right.
Qed.

Lemma dict_of_acc (l acc : tab) : NoDup (map fst (acc ++ l)) ->
  fold_left (fun d kv => dict_set V (fst kv) (snd kv) d) l acc = acc ++ l.
Proof.
  revert acc. induction l as [|[k v] l IH]; intros acc H; simpl.
  - now rewrite app_nil_r.
  - rewrite dict_set_fresh.
    + rewrite IH; rewrite <- app_assoc; simpl; auto.
    + rewrite map_app in H. simpl in H. apply NoDup_remove_2 in H. intros Hin. apply H. apply in_or_app. now left.
Qed.

Lemma dict_of_nodup (l : tab) : NoDup (map fst l) -> dict_of V l = l.
Proof. intros H. unfold dict_of. now rewrite dict_of_acc. Qed.

(* ---------- strictly ascending tables ---------- *)
Fixpoint asc_from (x : Z) (c : tab) : Prop :=
  match c with [] => True | kv :: r => (x < Z.of_N (kval kv))%Z /\ asc_from (Z.of_N (kval kv)) r end.
Definition last_val (c : tab) (x : N) : N := last (map (fun kv => kval kv) c) x.
Definition lenn (n : nat) (c : tab) : Prop := Forall (fun kv : list bool * V => length (fst kv) = n) c.

Lemma in_kvals (c : tab) kv : In kv c -> In (kval kv) (map (fun kv0 : list bool * V => kval kv0) c).
Proof. intros H. exact (in_map (fun kv0 : list bool * V => kval kv0) c kv H). Qed.

Lemma asc_from_weaken x y c : (y <= x)%Z -> asc_from x c -> asc_from y c.
Proof. destruct c as [|kv r]; simpl; auto. intros H [H1 H2]. split; auto. lia. Qed.

Lemma asc_from_all x c : asc_from x c -> Forall (fun kv => (x < Z.of_N (kval kv))%Z) c.
Proof.
  revert x. induction c as [|kv r IH]; intros x H; constructor; simpl in H; destruct H as [H1 H2]; auto.
  apply IH in H2. eapply Forall_impl; [|exact H2]. simpl. intros; lia.
Qed.

Lemma last_indep {A} (l : list A) a x y : last (a :: l) x = last (a :: l) y.
Proof.
  revert a. induction l as [|b l IH]; intros a; auto.
  change (last (a :: b :: l) x) with (last (b :: l) x). change (last (a :: b :: l) y) with (last (b :: l) y). apply IH.
Qed.
Lemma last_cons_default {A} (l : list A) y x : last (y :: l) x = last l y.
Proof. destruct l as [|a l]; auto. change (last (y :: a :: l) x) with (last (a :: l) x). apply last_indep. Qed.

Lemma last_val_cons kv r x : last_val (kv :: r) x = last_val r (kval kv).
Proof. unfold last_val. simpl map. apply last_cons_default. Qed.

Lemma last_val_nonempty c x y : c <> [] -> last_val c x = last_val c y.
Proof. destruct c as [|kv r]; [congruence|]. intros _. now rewrite !last_val_cons. Qed.

Lemma asc_last_ge x c : asc_from (Z.of_N x) c -> c <> [] -> x < last_val c x.
Proof.
  revert x. induction c as [|kv r IH]; intros x H Hne; [congruence|]. simpl in H. destruct H as [H1 H2].
  rewrite last_val_cons. destruct r as [|kv' r'].
  - unfold last_val. simpl. lia.
  - specialize (IH (kval kv) H2). assert (kv' :: r' <> []) by congruence. apply IH in H. lia.
Qed.

Lemma asc_le_last c x kv : asc_from (Z.of_N x) c -> In kv c -> kval kv <= last_val c x.
Proof.
  revert x. induction c as [|a r IH]; intros x RA Hin; [contradiction|]. simpl in RA. destruct RA as [R1 R2].
  rewrite last_val_cons. destruct Hin as [<-|Hin].
  - destruct r as [|b r']. { unfold last_val; simpl; lia. }
    assert (Eb : b :: r' <> []) by congruence. pose proof (asc_last_ge _ _ R2 Eb). lia.
  - apply (IH (kval a)); auto.
Qed.

Lemma asc_app_last x c ky v : asc_from x c -> (x < Z.of_N (val ky))%Z ->
  (c <> [] -> last_val c 0 < val ky) -> asc_from x (c ++ [(ky, v)]).
Proof.
  revert x. induction c as [|kv r IH]; intros x H Hx HL; simpl.
  - split; auto.
  - simpl in H. destruct H as [H1 H2]. split; auto.
    assert (E : kv :: r <> []) by congruence. specialize (HL E). rewrite last_val_cons in HL.
    apply IH; auto.
    + destruct r as [|kv' r']. { unfold last_val in HL. simpl in HL. lia. }
      assert (E2 : kv' :: r' <> []) by congruence. pose proof (asc_last_ge _ _ H2 E2). lia.
    + intros Hr. rewrite (last_val_nonempty r 0 (kval kv) Hr). exact HL.
Qed.

Lemma last_val_app c ky v x : last_val (c ++ [(ky, v)]) x = val ky.
Proof. unfold last_val. rewrite map_app. simpl. apply last_last. Qed.

Lemma last_some (c : tab) x : c <> [] ->
  exists kl, last (map (fun kv => Some (fst kv)) c) None = Some kl /\ val kl = last_val c x /\ In kl (map fst c).
Proof.
  revert x. induction c as [|kv r IH]; intros x H; [congruence|].
  destruct r as [|kv' r'].
  - exists (fst kv). simpl. unfold last_val. simpl. auto.
  - assert (E : kv' :: r' <> []) by congruence. destruct (IH (kval kv) E) as (kl & H1 & H2 & H3).
    exists kl. rewrite last_val_cons. split; [|split].
    + change (last (map (fun kv0 : list bool * V => Some (fst kv0)) (kv :: kv' :: r')) None) with (last (map (fun kv0 : list bool * V => Some (fst kv0)) (kv' :: r')) None). exact H1.
    + exact H2.
    + right. exact H3.
Qed.

(* ---------- insertion sort ---------- *)
Lemma ins_sorted_in kv a (l : tab) : In kv (ins_sorted V a l) <-> kv = a \/ In kv l.
Proof.
  assert (S : kv = a <-> a = kv) by (split; congruence).
  induction l as [|b l IH]; cbn [ins_sorted].
  - simpl. tauto.
  - destruct (str_ltb (fst b) (fst a)); cbn [In]; rewrite ?IH; tauto.
Qed.

Lemma sort_items_in kv (l : tab) : In kv (sort_items V l) <-> In kv l.
Proof.
  induction l as [|a l IH]; simpl; [tauto|]. unfold sort_items in *. simpl. rewrite ins_sorted_in, IH. intuition.
Qed.

Lemma ins_sorted_asc n x a (l : tab) : length (fst a) = n -> lenn n l -> asc_from x l -> (x < Z.of_N (kval a))%Z ->
  ~ In (kval a) (map (fun kv => kval kv) l) -> asc_from x (ins_sorted V a l).
Proof.
  intros Ha. revert x. induction l as [|b l IH]; intros x HL H Hx Hn; simpl.
  - auto.
  - pose proof (Forall_inv HL) as Hb. pose proof (Forall_inv_tail HL) as HL'. simpl in H. destruct H as [H1 H2].
    rewrite str_ltb_val by congruence.
    destruct (N.ltb_spec (kval b) (kval a)) as [Hlt|Hge]; simpl.
    + split; auto. apply IH; auto. lia. intros Hin. apply Hn. simpl. now right.
    + split; auto. split; auto.
      assert (kval a <> kval b) by (intros E; apply Hn; simpl; left; congruence). lia.
Qed.

Lemma lenn_in n (c : tab) kv : lenn n c -> In kv c -> length (fst kv) = n.
Proof. intros H. unfold lenn in H. rewrite Forall_forall in H. apply H. Qed.
Lemma lenn_sort n (l : tab) : lenn n l -> lenn n (sort_items V l).
Proof. intros H. apply Forall_forall. intros kv Hkv. apply (proj1 (sort_items_in _ _)) in Hkv. exact (lenn_in n l kv H Hkv). Qed.

Lemma sort_items_asc n (l : tab) : lenn n l -> NoDup (map (fun kv => kval kv) l) -> asc_from (-1) (sort_items V l).
Proof.
  induction l as [|a l IH]; intros HL HN; simpl; auto.
  pose proof (Forall_inv HL) as Ha. pose proof (Forall_inv_tail HL) as HL'. simpl in Ha.
  simpl in HN. apply NoDup_cons_iff in HN as [HN1 HN2].
  change (sort_items V (a :: l)) with (ins_sorted V a (sort_items V l)).
  apply (ins_sorted_asc n); auto.
  - now apply lenn_sort.
  - lia.
  - intros Hin. apply in_map_iff in Hin as (kv & E & Hkv). apply (proj1 (sort_items_in _ _)) in Hkv.
    apply HN1. rewrite <- E. now apply in_kvals.
Qed.

(* ---------- the gap loop as a cursor function ---------- *)
Fixpoint fill (n f : nat) (x : N) (rest : tab) : res tab :=
  match f with
  | O => Ok rest
  | S f' =>
      match rest with
      | [] => Err IndexError
      | (k1, v1) :: r =>
          x1 <- pyint2 k1 ;;
          if N.eqb x1 (x + 1) then rmap (cons (k1, v1)) (fill n f' (x + 1) r)
          else rmap (cons (enc n (x + 1), vzero)) (fill n f' (x + 1) rest)
      end
  end.

Lemma rmap_rmap {A B C} (g : B -> C) (h : A -> B) (z : res A) : rmap g (rmap h z) = rmap (fun a => g (h a)) z.
Proof. destruct z; reflexivity. Qed.
Lemma rmap_ext {A B} (g h : A -> B) (z : res A) : (forall a, g a = h a) -> rmap g z = rmap h z.
Proof. intros H. destruct z; simpl; auto. now rewrite H. Qed.

Lemma nth_error_pre {A} (pre : list A) x rest : nth_error (pre ++ x :: rest) (length pre) = Some x.
Proof. induction pre; simpl; auto. Qed.
Lemma nth_error_pre1 {A} (pre : list A) x rest : nth_error (pre ++ x :: rest) (length pre + 1) = nth_error rest 0.
Proof. induction pre; simpl; auto. Qed.
Lemma insert_at_pre (pre : tab) x y rest : insert_at V (length pre + 1) y (pre ++ x :: rest) = pre ++ x :: y :: rest.
Proof. induction pre; simpl. { destruct rest; reflexivity. } now rewrite IHpre. Qed.

Lemma enc_nonempty n x : enc n x <> [].
Proof.
  unfold enc, zfill. intros H. apply app_eq_nil in H as [_ H]. destruct x as [|p]; simpl in H; try discriminate.
  destruct p; simpl in H; try discriminate; apply app_eq_nil in H as [_ H]; discriminate.
Qed.

Lemma pyint2_ok k : k <> [] -> pyint2 k = Ok (val k).
Proof. destruct k; [congruence | reflexivity]. Qed.

Lemma fill_loop_fill n f : forall j (pre : tab) k0 v0 rest, length pre = j -> k0 <> [] ->
  fill_loop V vzero n f j (pre ++ (k0, v0) :: rest) = rmap (fun o => pre ++ (k0, v0) :: o) (fill n f (val k0) rest).
Proof.
  induction f as [|f IH]; intros j pre k0 v0 rest Hj Hk0; cbn [fill_loop fill].
  - reflexivity.
  - subst j. rewrite nth_error_pre1, nth_error_pre.
    destruct rest as [|[k1 v1] r]; cbn [nth_error]. { reflexivity. }
    destruct (list_eq_dec Bool.bool_dec k1 []) as [->|Hk1]. { reflexivity. }
    rewrite (pyint2_ok k1 Hk1), (pyint2_ok k0 Hk0). cbn [rbind].
    destruct (N.eqb_spec (val k1) (val k0 + 1)) as [E|E].
    + replace (pre ++ (k0, v0) :: (k1, v1) :: r) with ((pre ++ [(k0, v0)]) ++ (k1, v1) :: r) by (now rewrite <- app_assoc).
      rewrite IH; [| rewrite app_length; simpl; lia | exact Hk1].
      rewrite rmap_rmap, <- E. apply rmap_ext. intros a. now rewrite <- app_assoc.
    + rewrite insert_at_pre.
      replace (pre ++ (k0, v0) :: (enc n (val k0 + 1), vzero) :: (k1, v1) :: r)
        with ((pre ++ [(k0, v0)]) ++ (enc n (val k0 + 1), vzero) :: (k1, v1) :: r) by (now rewrite <- app_assoc).
      rewrite IH; [| rewrite app_length; simpl; lia | apply enc_nonempty].
      rewrite rmap_rmap, val_enc. apply rmap_ext. intros a. now rewrite <- app_assoc.
Qed.

(* ---------- extension relation between successive tables ---------- *)
Definition ext (c c' : tab) : Prop :=
  (forall kv, In kv c -> In kv c') /\
  (forall kv, In kv c' -> In kv c \/ (snd kv = vzero /\ ~ In (fst kv) (map fst c))).

Lemma ext_refl c : ext c c. Proof. split; auto. Qed.
Lemma ext_trans a b c : ext a b -> ext b c -> ext a c.
Proof.
  intros [A1 A2] [B1 B2]. split; auto. intros kv H. apply B2 in H as [H|[H1 H2]].
  - auto.
  - right. split; auto. intros Hin. apply H2. apply in_map_iff in Hin as (kv' & E & Hkv').
    rewrite <- E. apply in_map. auto.
Qed.
Lemma ext_cons_new k (c : tab) : ~ In k (map fst c) -> ext c ((k, vzero) :: c).
Proof. intros H. split; simpl; auto. intros kv [<-|Hin]; auto. Qed.
Lemma ext_app_new k (c : tab) : ~ In k (map fst c) -> ext c (c ++ [(k, vzero)]).
Proof.
  intros H. split; intros kv Hin. { apply in_or_app; auto. }
  apply in_app_or in Hin as [Hin|[<-|[]]]; auto.
Qed.

Lemma in_nseq y a f : In y (nseq a f) -> a <= y < a + N.of_nat f.
Proof.
  revert a. induction f as [|f IH]; intros a H; simpl in H; [contradiction|].
  destruct H as [<-|H]. lia. apply IH in H. lia.
Qed.

Lemma nseq_nodup a f : NoDup (nseq a f).
Proof.
  revert a. induction f as [|f IH]; intros a; simpl; constructor; auto.
  intros H. apply in_nseq in H. lia.
Qed.

Lemma fill_spec n (Hn : (0 < n)%nat) : forall f x (rest : tab),
  lenn n rest -> asc_from (Z.of_N x) rest -> last_val rest x = x + N.of_nat f -> x + N.of_nat f < 2 ^ N.of_nat n ->
  exists out, fill n f x rest = Ok out /\ map (fun kv => kval kv) out = nseq (x + 1) f /\ lenn n out /\ ext rest out.
Proof.
  induction f as [|f IH]; intros x rest HL HA Hlast Hb.
  - assert (rest = []).
    { destruct rest as [|kv r]; auto. assert (E : kv :: r <> []) by congruence.
      pose proof (asc_last_ge _ _ HA E). lia. }
    subst. exists []. simpl. repeat split; auto; try constructor.
  - destruct rest as [|[k1 v1] r].
    { unfold last_val in Hlast. simpl in Hlast. lia. }
    pose proof (Forall_inv HL) as Hk1. pose proof (Forall_inv_tail HL) as HL'. simpl in Hk1. simpl in HA. destruct HA as [HA1 HA2].
    cbn [fill]. assert (Hp : pyint2 k1 = Ok (val k1)) by (destruct k1; [simpl in Hk1; lia | reflexivity]).
    rewrite Hp. cbn [rbind].
    destruct (N.eqb_spec (val k1) (x + 1)) as [E|E].
    + destruct (IH (x + 1) r) as (out & H1 & H2 & H3 & H4 & H5); auto.
      * now rewrite <- E.
      * rewrite last_val_cons in Hlast. simpl in Hlast. rewrite <- E. lia.
      * lia.
      * exists ((k1, v1) :: out). rewrite H1. simpl. repeat split.
        -- rewrite H2, E. reflexivity.
        -- constructor; auto.
        -- intros kv [<-|Hin]; simpl; auto.
        -- intros kv [<-|Hin]; simpl; auto. destruct (H5 _ Hin) as [Hin2|[Hz Hnin]]; auto.
           right. split; auto. intros [Ek|Hin']; [|contradiction].
           assert (In (kval kv) (map (fun kv0 : list bool * V => kval kv0) out)) by (now apply in_kvals).
           rewrite H2 in H. apply in_nseq in H. rewrite <- Ek in H. lia.
    + assert (Hgt : x + 1 < val k1) by lia.
      destruct (IH (x + 1) ((k1, v1) :: r)) as (out & H1 & H2 & H3 & H4 & H5); auto.
      * simpl. split; auto. lia.
      * rewrite (last_val_nonempty _ (x + 1) x) by congruence. lia.
      * lia.
      * exists ((enc n (x + 1), vzero) :: out). rewrite H1. simpl. repeat split.
        -- rewrite H2, val_enc. reflexivity.
        -- constructor; auto. simpl. apply enc_len; auto. lia.
        -- intros kv Hin. right. apply H4. exact Hin.
        -- intros kv [<-|Hin].
           ++ right. simpl. split; auto.
              assert (Fa : Forall (fun kv => (Z.of_N (x + 1) < Z.of_N (kval kv))%Z) ((k1, v1) :: r)).
              { apply asc_from_all. simpl. split; auto. lia. }
              intros Hin. change (In (enc n (x + 1)) (map fst ((k1, v1) :: r))) in Hin.
              apply in_map_iff in Hin as (kv' & Ek & Hkv'). rewrite Forall_forall in Fa. apply Fa in Hkv'.
              rewrite Ek, val_enc in Hkv'. lia.
           ++ apply H5 in Hin. exact Hin.
Qed.

(* ---------- lookup vs membership on tables with distinct keys ---------- *)
Lemma lookup_in k v (l : tab) : NoDup (map fst l) -> In (k, v) l -> lookup k l = Some v.
Proof.
  induction l as [|[k' v'] l IH]; intros HN Hin; simpl in *; [contradiction|].
  inversion HN; subst. destruct Hin as [E|Hin].
  - injection E as -> ->. now rewrite key_eqb_refl.
  - rewrite key_eqb_neq. auto. intros ->. match goal with H : ~ In _ _ |- _ => apply H end.
    change k' with (fst (k', v)). now apply in_map.
Qed.
Lemma lookup_none k (l : tab) : ~ In k (map fst l) -> lookup k l = None.
Proof.
  induction l as [|[k' v'] l IH]; intros H; simpl in *; auto.
  rewrite key_eqb_neq by (intros ->; apply H; now left). apply IH. intros Hin. apply H. now right.
Qed.

Lemma rev_inj_keys (a b : list bool) : rev a = rev b -> a = b.
Proof. intros H. rewrite <- (rev_involutive a), <- (rev_involutive b). now f_equal. Qed.

Lemma pow2_pos n : 0 < 2 ^ N.of_nat n.
Proof. assert (2 ^ N.of_nat n <> 0) by (apply N.pow_nonzero; lia). lia. Qed.

(* ---------- main theorem ---------- *)
Theorem fix_counts_spec n (t : tab) :
  (0 < n)%nat -> t <> [] -> NoDup (map fst t) -> lenn n t ->
  exists out, fix_counts V vzero t n = Ok out /\ map fst out = all_keys n /\
    forall k, In k (all_keys n) ->
      lookup k out = Some (match lookup (rev k) t with Some v => v | None => vzero end).
Proof.
  intros Hn Hne HN HL.
  set (mir := map (fun kv : list bool * V => (rev (fst kv), snd kv)) t).
  assert (Mkeys : map fst mir = map (@rev bool) (map fst t)) by (unfold mir; rewrite !map_map; reflexivity).
  assert (MN : NoDup (map fst mir)).
  { rewrite Mkeys. apply FinFun.Injective_map_NoDup; auto. intros a b. apply rev_inj_keys. }
  assert (ML : lenn n mir).
  { unfold mir, lenn. rewrite Forall_map. eapply Forall_impl; [|exact HL]. simpl. intros a Ha. now rewrite rev_length. }
  assert (MV : NoDup (map (fun kv : list bool * V => kval kv) mir)).
  { assert (E : map (fun kv : list bool * V => kval kv) mir = map val (map fst mir)) by (now rewrite map_map). rewrite E.
    clear E. revert MN ML. generalize mir as l. induction l as [|a l IH]; intros MN ML; simpl; constructor.
    - inversion MN; inversion ML; subst. intros Hin. apply in_map_iff in Hin as (k' & Ek & Hk').
      assert (k' = fst a).
      { apply val_inj; auto. apply in_map_iff in Hk' as (kv' & <- & Hkv'). rewrite Forall_forall in H6. rewrite (H6 _ Hkv'). auto. }
      subst. auto.
    - inversion MN; inversion ML; subst. auto. }
  unfold fix_counts. fold mir. rewrite (dict_of_nodup mir MN).
  set (counts := sort_items V mir).
  assert (CA : asc_from (-1) counts) by (apply (sort_items_asc n); auto).
  assert (CL : lenn n counts).
  { now apply lenn_sort. }
  assert (CE : ext mir counts).
  { split; intros kv Hkv. now apply (proj2 (sort_items_in _ _)). left. now apply (proj1 (sort_items_in _ _)). }
  assert (Cne : counts <> []).
  { destruct t as [|a t']; [congruence|]. intros E.
    assert (In (rev (fst a), snd a) counts) by (apply (proj2 (sort_items_in _ _)); unfold mir; simpl; now left).
    rewrite E in H. contradiction. }
  destruct counts as [|[kf vf] cr] eqn:Ecounts; [congruence|].
  pose proof (Forall_inv CL) as Hkf. pose proof (Forall_inv_tail CL) as CL'. simpl in Hkf.
  assert (Hpf : pyint2 kf = Ok (val kf)) by (destruct kf; [simpl in Hkf; lia | reflexivity]).
  rewrite Hpf. cbn [rbind].
  set (top := 2 ^ N.of_nat n - 1).
  assert (Htop : top + 1 = 2 ^ N.of_nat n).
  { unfold top. pose proof (pow2_pos n). lia. }
  (* counts1 = (k0, v0) :: rest1 with val k0 = 0 *)
  assert (S1 : exists k0 v0 rest1,
     (if N.eqb (val kf) 0 then (kf, vf) :: cr else (enc n 0, vzero) :: (kf, vf) :: cr) = (k0, v0) :: rest1 /\
     val k0 = 0 /\ length k0 = n /\ lenn n rest1 /\ asc_from 0 rest1 /\ ext ((kf, vf) :: cr) ((k0, v0) :: rest1)).
  { simpl in CA. destruct CA as [CA1 CA2]. destruct (N.eqb_spec (val kf) 0) as [E|E].
    - exists kf, vf, cr. split; [reflexivity|]. split; [exact E|]. split; [exact Hkf|]. split; [exact CL'|].
      split; [rewrite E in CA2; exact CA2 | apply ext_refl].
    - exists (enc n 0), vzero, ((kf, vf) :: cr). split; [reflexivity|]. split; [apply val_enc|].
      split; [apply enc_len; auto; apply pow2_pos|]. split; [exact CL|]. split; [simpl; split; auto; lia|].
      split.
      + intros kv Hin. now right.
      + intros kv [<-|Hin]; auto. right. split; auto. intros Hin. change (In (enc n 0) (map fst ((kf, vf) :: cr))) in Hin.
        apply in_map_iff in Hin as (kv' & Ek & Hkv').
        assert (Fa : Forall (fun kv => (0 < Z.of_N (kval kv))%Z) ((kf, vf) :: cr)).
        { apply asc_from_all. simpl. split; auto. lia. }
        rewrite Forall_forall in Fa. apply Fa in Hkv'. rewrite Ek, val_enc in Hkv'. lia. }
  destruct S1 as (k0 & v0 & rest1 & E1 & Hk0v & Hk0l & RL1 & RA1 & EX1). rewrite E1. clear E1.
  assert (c1ne : (k0, v0) :: rest1 <> []) by congruence.
  destruct (last_some ((k0, v0) :: rest1) 0 c1ne) as (kl & Hlast & Hklv & Hklin).
  rewrite Hlast.
  assert (Hkll : length kl = n).
  { apply in_map_iff in Hklin as (kv & <- & Hkv). destruct Hkv as [<-|Hkv]; auto. exact (lenn_in n rest1 kv RL1 Hkv). }
  assert (Hpl : pyint2 kl = Ok (val kl)) by (destruct kl; [simpl in Hkll; lia | reflexivity]).
  rewrite Hpl. cbn [rbind]. fold top.
  assert (Hklb : val kl <= top).
  { pose proof (val_bound kl) as B. rewrite Hkll in B. lia. }
  (* counts2 = (k0, v0) :: rest2 with last value top *)
  assert (S2 : exists rest2,
     (if N.eqb (val kl) top then (k0, v0) :: rest1 else ((k0, v0) :: rest1) ++ [(enc n top, vzero)]) = (k0, v0) :: rest2 /\
     lenn n rest2 /\ asc_from 0 rest2 /\ last_val rest2 0 = top /\ ext ((k0, v0) :: rest1) ((k0, v0) :: rest2)).
  { rewrite last_val_cons in Hklv. simpl fst in Hklv. rewrite Hk0v in Hklv. destruct (N.eqb_spec (val kl) top) as [E|E].
    - exists rest1. split; [reflexivity|]. split; [exact RL1|]. split; [exact RA1|]. split; [congruence | apply ext_refl].
    - exists (rest1 ++ [(enc n top, vzero)]). assert (Hlt : val kl < top) by lia.
      split; [reflexivity|]. split; [|split; [|split; [|split]]].
      + apply Forall_app. split; auto. constructor; auto. simpl. apply enc_len; auto. lia.
      + apply asc_app_last; auto. rewrite val_enc. lia. intros _. rewrite val_enc. lia.
      + rewrite last_val_app. apply val_enc.
      + intros kv Hin. change ((k0, v0) :: rest1 ++ [(enc n top, vzero)]) with (((k0, v0) :: rest1) ++ [(enc n top, vzero)]).
        apply in_or_app. now left.
      + intros kv Hin. change ((k0, v0) :: rest1 ++ [(enc n top, vzero)]) with (((k0, v0) :: rest1) ++ [(enc n top, vzero)]) in Hin.
        apply in_app_or in Hin as [Hin|[<-|[]]]; auto. right. split; auto. intros Hin.
        apply in_map_iff in Hin as (kv' & Ek & Hkv').
        assert (kval kv' <= val kl).
        { rewrite Hklv. destruct Hkv' as [<-|Hkv']. simpl. lia.
          apply (asc_le_last rest1 0 kv' RA1 Hkv'). }
        simpl in Ek. rewrite Ek, val_enc in H. lia. }
  destruct S2 as (rest2 & E2 & RL2 & RA2 & Hl2 & EX2). rewrite E2. clear E2.
  assert (k0 <> []) by (destruct k0; [simpl in Hk0l; lia | congruence]).
  pose proof (fill_loop_fill n (N.to_nat top) 0 [] k0 v0 rest2 eq_refl H) as FLF. cbn [app] in FLF. rewrite FLF. rewrite Hk0v.
  destruct (fill_spec n Hn (N.to_nat top) 0 rest2) as (out & F1 & F2 & F3 & F4); auto.
  { rewrite N2Nat.id. lia. }
  { rewrite N2Nat.id. lia. }
  rewrite F1. cbn [rmap rbind app].
  set (final := (k0, v0) :: out).
  assert (FV : map (fun kv : list bool * V => kval kv) final = nseq 0 (Nat.pow 2 n)).
  { unfold final. simpl map. rewrite Hk0v, F2.
    replace (Nat.pow 2 n) with (S (N.to_nat top)). reflexivity.
    apply Nat2N.inj. rewrite Nat2N.inj_succ, N2Nat.id, Nat2N.inj_pow. simpl N.of_nat. lia. }
  assert (FL : lenn n final) by (constructor; auto).
  assert (FK : map fst final = all_keys n).
  { apply (keys_eq_by_val n).
    - unfold lenn in FL. rewrite Forall_map. exact FL.
    - apply Forall_forall. apply all_keys_len.
    - rewrite all_keys_val, map_map. exact FV. }
  assert (FN : NoDup (map fst final)).
  { apply (NoDup_map_inv val). rewrite map_map. change (NoDup (map (fun kv : list bool * V => kval kv) final)). rewrite FV. apply nseq_nodup. }
  rewrite (dict_of_nodup final FN).
  exists final. split; [reflexivity|]. split; [exact FK|].
  assert (EXF : ext mir final).
  { eapply ext_trans; [exact CE|]. eapply ext_trans; [exact EX1|]. eapply ext_trans; [exact EX2|].
    destruct F4 as [G1 G2]. split.
    - intros kv [<-|Hin]; [now left | right; auto].
    - intros kv [<-|Hin]; [left; now left|]. destruct (G2 _ Hin) as [Hin2|[Hz Hnin]]; [left; now right|].
      destruct (list_eq_dec Bool.bool_dec (fst kv) k0) as [Ek|NEk].
      + exfalso. assert (Hv : In (kval kv) (map (fun kv0 : list bool * V => kval kv0) out)) by (now apply in_kvals).
        rewrite F2 in Hv. apply in_nseq in Hv. rewrite Ek, Hk0v in Hv. lia.
      + right. split; auto. intros [E'|Hin']; [simpl in E'; congruence | contradiction]. }
  intros k Hk. rewrite <- FK in Hk. apply in_map_iff in Hk as ([k' v] & Ek & Hkv). simpl in Ek. subst k'.
  rewrite (lookup_in k v final FN Hkv). f_equal.
  destruct EXF as [_ EXF2]. apply EXF2 in Hkv as [Hin|[Hz Hnin]].
  - unfold mir in Hin. apply in_map_iff in Hin as ([k' v'] & E & Hin'). simpl in E. injection E as E1 E2. subst v'.
    assert (k' = rev k) by (rewrite <- E1; now rewrite rev_involutive). subst k'.
    now rewrite (lookup_in (rev k) v t HN Hin').
  - simpl in Hz, Hnin. rewrite lookup_none; auto. intros Hin. apply Hnin. rewrite Mkeys.
    rewrite <- (rev_involutive k). now apply in_map.
Qed.

End P.

(* ---------- applying fix_counts twice ---------- *)
Section Twice.
Variable V : Type.
Variable vzero : V.
Notation tab := (list (list bool * V)).

Lemma all_keys_nodup n : NoDup (all_keys n).
Proof. apply (NoDup_map_inv val). rewrite all_keys_val. apply nseq_nodup. Qed.

Lemma all_keys_nonempty n : all_keys n <> [].
Proof. intros E. pose proof (all_keys_length n) as L. rewrite E in L. simpl in L. pose proof (Nat.pow_nonzero 2 n). lia. Qed.

Theorem fix_counts_twice n (t : tab) :
  (0 < n)%nat -> t <> [] -> NoDup (map fst t) -> lenn V n t ->
  exists out1 out2, fix_counts V vzero t n = Ok out1 /\ fix_counts V vzero out1 n = Ok out2 /\
    map fst out2 = all_keys n /\
    forall k, In k (all_keys n) ->
      lookup V k out2 = Some (match lookup V k t with Some v => v | None => vzero end).
Proof.
  intros Hn Hne HN HL.
  destruct (fix_counts_spec V vzero n t Hn Hne HN HL) as (out1 & E1 & K1 & L1).
  assert (N1 : NoDup (map fst out1)) by (rewrite K1; apply all_keys_nodup).
  assert (ne1 : out1 <> []).
  { intros E. rewrite E in K1. simpl in K1. symmetry in K1. now apply all_keys_nonempty in K1. }
  assert (LL1 : lenn V n out1).
  { unfold lenn. apply Forall_forall. intros kv Hkv. apply all_keys_len. rewrite <- K1. now apply in_map. }
  destruct (fix_counts_spec V vzero n out1 Hn ne1 N1 LL1) as (out2 & E2 & K2 & L2).
  exists out1, out2. repeat split; auto.
  intros k Hk. rewrite (L2 k Hk). f_equal.
  assert (Hr : In (rev k) (all_keys n)).
  { apply in_all_keys. rewrite rev_length. now apply all_keys_len. }
  rewrite (L1 _ Hr), rev_involutive. reflexivity.
Qed.
End Twice.
