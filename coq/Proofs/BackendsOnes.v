(* C01 — BackendForOnes: divide-and-conquer Kronecker product, the low-qubit regime, the identity scanner. *)
From Coq Require Import List Bool Arith Lia Ring.
Require Import QG.Base.Res QG.Base.State QG.Base.Mat QG.Model.Backends QG.Proofs.BackendsSpec QG.Proofs.BackendsKron
  QG.Proofs.BackendsContract QG.Proofs.BackendsEff.
Import ListNotations.

Section Ones.
Variable R : Type.
Variables (rO rI : R) (radd rmul rsub : R -> R -> R) (ropp : R -> R).
Variable Rth : ring_theory rO rI radd rmul rsub ropp eq.
Add Ring RrO : Rth.
Notation entry := (entry R).
Notation wmat := (nat * (bits -> bits -> R))%type (only parsing).
Notation leg := (nat * option (bits -> bits -> R))%type (only parsing).
Notation ofE := (ofE R rI).
Notation mv := (mv R radd rmul).
Notation sem := (sem R radd rmul).
Notation kronW := (kronW R rI rmul).
Notation pkron := (pkron R rmul).
Notation wkron := (wkron R rmul).
Notation weq := (weq R).
Notation meq := (meq R).
Notation wf_layer := (wf_layer R).
Notation layer_items := (layer_items R).
Notation layers_sem := (layers_sem R radd rmul).
Notation plan_ok := (plan_ok R radd rmul).
Notation state_eq := (state_eq R).
Notation leg_mat := (leg_mat R rO rI).
Notation kronecker := (kronecker R rmul).
Notation kron_of := (kron_of R rmul).
Notation kronW_app := (kronW_app R rO rI radd rmul rsub ropp Rth).
Notation fold_left_wkron := (fold_left_wkron R rO rI radd rmul rsub ropp Rth).

Variable is_id : entry -> bool.
Hypothesis is_id_sound : forall e, is_id e = true -> exists A, e = En2 A /\ forall r c, A r c = id2 R rO rI r c.

Lemma half_split k : 4 <= k -> 1 <= k / 2 /\ k / 2 < k.
Proof.
  intros H. pose proof (Nat.div_mod k 2 ltac:(lia)) as E. pose proof (Nat.mod_upper_bound k 2 ltac:(lia)) as U. lia.
Qed.

(* _kronecker computes the Kronecker product of its (non-empty) argument *)
Lemma kronecker_spec : forall fuel (l : list wmat), length l <= fuel -> l <> [] ->
  exists M, kronecker fuel l = Ok M /\ weq M (kronW l).
Proof.
  induction fuel as [|f IH]; intros l Hl Hne.
  - destruct l; [congruence | simpl in Hl; lia].
  - destruct l as [|a [|b [|c [|d r]]]]; [congruence| | | |].
    + eexists. split; [reflexivity|]. apply (fold_left_wkron [] a).
    + eexists. split; [reflexivity|]. apply (fold_left_wkron [b] a).
    + eexists. split; [reflexivity|]. apply (fold_left_wkron [b; c] a).
    + cbn [Backends.kronecker]. remember (a :: b :: c :: d :: r) as l eqn:El.
      assert (L4 : 4 <= length l) by (subst l; simpl; lia).
      destruct (half_split (length l) L4) as [B1 B2].
      destruct (IH (firstn (length l / 2) l)) as (x & Ex & Wx).
      { rewrite firstn_length. lia. }
      { intros C. apply (f_equal (@length _)) in C. rewrite firstn_length in C. cbn [length] in C. lia. }
      destruct (IH (skipn (length l / 2) l)) as (y & Ey & Wy).
      { rewrite skipn_length. lia. }
      { intros C. apply (f_equal (@length _)) in C. rewrite skipn_length in C. cbn [length] in C. lia. }
      rewrite Ex. cbn [rbind]. rewrite Ey. cbn [rbind]. eexists. split; [reflexivity|].
      eapply weq_trans; [apply wkron_weq|]. eapply weq_trans; [apply pkron_weq; eassumption|].
      eapply weq_trans; [apply weq_sym, kronW_app|]. rewrite firstn_skipn. apply weq_refl.
Qed.
Lemma kron_of_spec (l : list wmat) : l <> [] -> exists M, kron_of l = Ok M /\ weq M (kronW l).
Proof. intros H. apply kronecker_spec; auto. Qed.

Notation ones_low := (ones_low R rI rmul).
Lemma ones_low_ok n l : 1 <= n -> wf_layer n l -> exists p, ones_low n l = Ok p /\ plan_ok n l p.
Proof.
  intros Hn Hl. unfold Backends.ones_low.
  destruct (kron_of_spec (map ofE l) (wf_nonempty R rI n l Hl Hn)) as (m & Hm & [Hm1 Hm2]).
  rewrite (kron_layer_width R rI rmul n l Hl) in Hm1. rewrite Hm. cbn [rbind]. rewrite Hm1, Nat.eqb_refl.
  eexists. split; [reflexivity|]. apply (matvec_ok R rO rI radd rmul rsub ropp Rth); [assumption|]. now rewrite <- Hm1.
Qed.

(* ---------- list helpers ---------- *)
Lemma set_last_app {A} (f : A -> A) (l : list A) x : set_last f (l ++ [x]) = Ok (l ++ [f x]).
Proof.
  induction l as [|y l IH]; [reflexivity|]. cbn [app].
  destruct (l ++ [x]) as [|z r] eqn:E; [destruct l; discriminate|].
  change (set_last f (y :: z :: r)) with (rmap (cons y) (set_last f (z :: r))). rewrite IH. reflexivity.
Qed.
Lemma firstn_plus {A} a : forall b (l : list A), firstn (a + b) l = firstn a l ++ firstn b (skipn a l).
Proof. induction a as [|a IH]; intros b l; [reflexivity|]. destruct l; [now rewrite !firstn_nil|]. cbn [Nat.add firstn skipn app]. now rewrite IH. Qed.
Lemma slice_cat {A} a b c (p : list A) : a <= b -> b <= c -> slice a b p ++ slice b c p = slice a c p.
Proof.
  intros H1 H2. unfold slice. replace (c - a) with ((b - a) + (c - b)) by lia. rewrite firstn_plus. f_equal. f_equal.
  rewrite <- skipn_add. f_equal. lia.
Qed.
Lemma slice_full {A} (p : list A) : slice 0 (length p) p = p.
Proof. unfold slice. rewrite Nat.sub_0_r. cbn [skipn]. apply firstn_all. Qed.
Lemma slice_nonempty {A} a b (p : list A) : a < b -> b <= length p -> slice a b p <> [].
Proof. intros H1 H2 C. apply (f_equal (@length _)) in C. unfold slice in C. rewrite firstn_length, skipn_length in C. cbn [length] in C. lia. Qed.

Notation zip_legs := (zip_legs R).
Lemma zip_legs_app c1 : forall s1 n1 l1 c2 s2 n2 l2, zip_legs c1 s1 n1 = Ok l1 -> zip_legs c2 s2 n2 = Ok l2 ->
  zip_legs (c1 ++ c2) (s1 ++ s2) (n1 ++ n2) = Ok (l1 ++ l2).
Proof.
  induction c1 as [|b c1 IH]; intros s1 n1 l1 c2 s2 n2 l2 H1 H2.
  - destruct s1; [|discriminate H1]. destruct n1; [|discriminate H1].
    injection H1 as <-. exact H2.
  - destruct s1 as [|w s1]; [destruct b; discriminate H1|]. destruct b; cbn [Backends.zip_legs app] in *.
    + destruct (zip_legs c1 s1 n1) as [r|e] eqn:E; [|discriminate H1]. cbn [rbind] in H1. injection H1 as <-.
      rewrite (IH s1 n1 r c2 s2 n2 l2 E H2). reflexivity.
    + destruct n1 as [|c n1]; [discriminate H1|]. cbn [app]. destruct (fst c =? w); [|discriminate H1].
      destruct (zip_legs c1 s1 n1) as [r|e] eqn:E; [|discriminate H1]. cbn [rbind] in H1. injection H1 as <-.
      rewrite (IH s1 n1 r c2 s2 n2 l2 E H2). reflexivity.
Qed.
Definition legs_of (ms : list wmat) : list leg := map (fun a : wmat => (fst a, Some (snd a))) ms.
Lemma zip_false cs : zip_legs (map (fun _ => false) cs) (map fst cs) cs = Ok (legs_of cs).
Proof. induction cs as [|c cs IH]; [reflexivity|]. cbn [map Backends.zip_legs]. rewrite Nat.eqb_refl, IH. reflexivity. Qed.
Lemma zip_legs_width c : forall s ch legs, zip_legs c s ch = Ok legs -> fold_right Nat.add 0 s = legs_width R legs.
Proof.
  induction c as [|b c IH]; intros s ch legs H.
  - destruct s; [|discriminate H]. destruct ch; [|discriminate H]. injection H as <-. reflexivity.
  - destruct s as [|w s]; [destruct b; discriminate H|]. destruct b; cbn [Backends.zip_legs] in H.
    + destruct (zip_legs c s ch) as [r|e] eqn:E; [|discriminate H]. injection H as <-. cbn. f_equal. exact (IH s ch r E).
    + destruct ch as [|x ch]; [discriminate H|]. destruct (fst x =? w); [|discriminate H].
      destruct (zip_legs c s ch) as [r|e] eqn:E; [|discriminate H]. injection H as <-. cbn. f_equal. exact (IH s ch r E).
Qed.
Lemma zip_all_true c : forall s ch legs, zip_legs c s ch = Ok legs -> forallb (fun b => b) c = true ->
  Forall (fun lg : leg => snd lg = None) legs.
Proof.
  induction c as [|b c IH]; intros s ch legs H T.
  - destruct s; [|discriminate H]. destruct ch; [|discriminate H]. injection H as <-. constructor.
  - destruct b; [|discriminate T]. destruct s as [|w s]; [discriminate H|]. cbn [Backends.zip_legs] in H.
    destruct (zip_legs c s ch) as [r|e] eqn:E; [|discriminate H]. injection H as <-. constructor; [reflexivity|].
    exact (IH s ch r E T).
Qed.

(* ---------- identities ---------- *)
Notation idm := (idm R rO rI).
Lemma beq_app a : forall a' b b', length a = length a' -> beq (a ++ b) (a' ++ b') = beq a a' && beq b b'.
Proof.
  induction a as [|x a IH]; intros [|x' a'] b b' L; try discriminate; [reflexivity|].
  cbn [app beq]. injection L as L. rewrite (IH a' b b' L). now rewrite andb_assoc.
Qed.
Lemma idm_kron w1 w2 : weq (pkron (w1, idm) (w2, idm)) ((w1 + w2)%nat, idm).
Proof.
  split; [reflexivity|]. cbn [BackendsKron.pkron fst snd]. intros r c Lr Lc. unfold Mat.kron, Mat.idm.
  rewrite <- (firstn_skipn w1 r) at 3. rewrite <- (firstn_skipn w1 c) at 3.
  rewrite beq_app by (rewrite !firstn_length; lia).
  destruct (beq (firstn w1 r) (firstn w1 c)), (beq (skipn w1 r) (skipn w1 c)); cbn [andb]; ring.
Qed.
Lemma ofE_ident A : (forall r c, A r c = id2 R rO rI r c) -> weq (ofE (En2 A)) (1, idm).
Proof.
  intros H. split; [reflexivity|]. cbn [Backends.ofE fst snd]. intros r c Lr Lc.
  destruct r as [|x [|? ?]]; try discriminate. destruct c as [|y [|? ?]]; try discriminate.
  cbn [hd]. rewrite H. unfold id2, Mat.idm. cbn [beq]. now rewrite andb_true_r.
Qed.
Lemma contractI_allNone legs : Forall (fun lg : leg => snd lg = None) legs -> forall psi x,
  length x = legs_width R legs -> contractI R radd rmul legs psi x = psi x.
Proof.
  induction 1 as [|[w o] legs Ho _ IH]; intros psi x L.
  - destruct x; [reflexivity | discriminate].
  - cbn [snd] in Ho. subst o. rewrite legs_width_cons in L. cbn [fst] in L. cbn [Backends.contractI]. cbv zeta.
    rewrite memoT_get by (eapply firstn_len; eassumption). rewrite memoT_get by (eapply skipn_len; eassumption).
    rewrite IH by (eapply skipn_len; eassumption). now rewrite firstn_skipn.
Qed.

(* ---------- the split of a prototype into 1..4 chunks ---------- *)
Notation split := (split R rmul).
Ltac divfacts t k := pose proof (Nat.div_mod t k ltac:(lia)); pose proof (Nat.mod_upper_bound t k ltac:(lia)).

Lemma kronW_segs (segs : list (list wmat)) (cs : list wmat) p :
  Forall2 (fun s c => weq c (kronW s)) segs cs -> concat segs = p -> weq (kronW cs) (kronW p).
Proof.
  intros HF Hc. eapply weq_trans; [apply kronW_weq_list with (l' := map kronW segs)|].
  - clear -HF. induction HF; constructor; auto.
  - subst p. apply (kronW_concat R rO rI radd rmul rsub ropp Rth).
Qed.

Lemma split_spec t3 st shp' : 3 <= t3 -> proto R st <> [] -> shp R st = shp' ++ [widths R (proto R st)] ->
  exists cs, cs <> [] /\ length cs <= length (proto R st) /\ weq (kronW cs) (kronW (proto R st)) /\
    split t3 st = Ok {| noc := noc R st ++ cs; shp := shp' ++ map fst cs; col := col R st ++ map (fun _ => false) (tl cs);
                        proto := proto R st; lastid := lastid R st |}.
Proof.
  intros Ht3 Hp Hs. unfold Backends.split. set (p := proto R st) in *. set (t := length p).
  assert (Tpos : 1 <= t) by (subst t; destruct p; [congruence | simpl; lia]).
  assert (MK : forall c1 : wmat, set_last (fun _ => fst c1) (shp R st) = Ok (shp' ++ [fst c1]))
    by (intros c1; rewrite Hs; exact (set_last_app (fun _ => fst c1) shp' (widths R p))).
  destruct (Nat.leb_spec 19 t) as [C19|C19]; [|destruct (Nat.leb_spec t3 t) as [C3|C3]].
  - divfacts t 4. divfacts (2 * t) 4. divfacts (3 * t) 4.
    destruct (kron_of_spec (slice 0 (t / 4) p)) as (c1 & E1 & W1); [apply slice_nonempty; lia|].
    destruct (kron_of_spec (slice (t / 4) (2 * t / 4) p)) as (c2 & E2 & W2); [apply slice_nonempty; lia|].
    destruct (kron_of_spec (slice (2 * t / 4) (3 * t / 4) p)) as (c3 & E3 & W3); [apply slice_nonempty; lia|].
    destruct (kron_of_spec (slice (3 * t / 4) t p)) as (c4 & E4 & W4); [apply slice_nonempty; lia|].
    rewrite E1, E2, E3, E4. cbn [rbind]. rewrite MK. cbn [rbind].
    exists [c1; c2; c3; c4]. split; [discriminate|]. split; [simpl; fold t; lia|]. split.
    + apply kronW_segs with (segs := [slice 0 (t / 4) p; slice (t / 4) (2 * t / 4) p; slice (2 * t / 4) (3 * t / 4) p; slice (3 * t / 4) t p]).
      * repeat (constructor; [assumption|]); constructor.
      * cbn [concat]. rewrite app_nil_r. rewrite !slice_cat by lia. apply slice_full.
    + cbn [map tl]. rewrite <- app_assoc. reflexivity.
  - divfacts t 3. divfacts (2 * t) 3.
    destruct (kron_of_spec (slice 0 (t / 3) p)) as (c1 & E1 & W1); [apply slice_nonempty; lia|].
    destruct (kron_of_spec (slice (t / 3) (2 * t / 3) p)) as (c2 & E2 & W2); [apply slice_nonempty; lia|].
    destruct (kron_of_spec (slice (2 * t / 3) t p)) as (c3 & E3 & W3); [apply slice_nonempty; lia|].
    rewrite E1, E2, E3. cbn [rbind]. rewrite MK. cbn [rbind].
    exists [c1; c2; c3]. split; [discriminate|]. split; [simpl; fold t; lia|]. split.
    + apply kronW_segs with (segs := [slice 0 (t / 3) p; slice (t / 3) (2 * t / 3) p; slice (2 * t / 3) t p]).
      * repeat (constructor; [assumption|]); constructor.
      * cbn [concat]. rewrite app_nil_r. rewrite !slice_cat by lia. apply slice_full.
    + cbn [map tl]. rewrite <- app_assoc. reflexivity.
  - destruct (Nat.leb_spec 8 t) as [C8|C8].
    + divfacts t 2.
      destruct (kron_of_spec (slice 0 (t / 2) p)) as (c1 & E1 & W1); [apply slice_nonempty; lia|].
      destruct (kron_of_spec (slice (t / 2) t p)) as (c2 & E2 & W2); [apply slice_nonempty; lia|].
      rewrite E1, E2. cbn [rbind]. rewrite MK. cbn [rbind].
      exists [c1; c2]. split; [discriminate|]. split; [simpl; fold t; lia|]. split.
      * apply kronW_segs with (segs := [slice 0 (t / 2) p; slice (t / 2) t p]).
        -- repeat (constructor; [assumption|]); constructor.
        -- cbn [concat]. rewrite app_nil_r. rewrite !slice_cat by lia. apply slice_full.
      * cbn [map tl]. rewrite <- app_assoc. reflexivity.
    + destruct (kron_of_spec p Hp) as (c & E & W). rewrite E. cbn [rbind].
      exists [c]. split; [discriminate|]. split; [simpl; fold t; lia|]. split.
      * apply kronW_segs with (segs := [p]); [repeat (constructor; [assumption|]); constructor | cbn [concat]; apply app_nil_r].
      * cbn [map tl]. rewrite app_nil_r. rewrite Hs. destruct W as [W1 _]. rewrite W1, fst_kronW. reflexivity.
Qed.

(* ---------- the scanner invariant ---------- *)
Lemma kronW_app_weq X X' Y Y' : weq (kronW X) (kronW X') -> weq (kronW Y) (kronW Y') -> weq (kronW (X ++ Y)) (kronW (X' ++ Y')).
Proof.
  intros H1 H2. eapply weq_trans; [apply kronW_app|]. eapply weq_trans; [apply pkron_weq; eassumption|]. apply weq_sym, kronW_app.
Qed.
Lemma kronW_pair a b c : weq (pkron a b) c -> weq (kronW [a; b]) (kronW [c]).
Proof.
  intros H. change (kronW [a; b]) with (pkron a (pkron b (0, one R rI))). change (kronW [c]) with (pkron c (0, one R rI)).
  eapply weq_trans; [apply weq_sym, (pkron_assoc R rO rI radd rmul rsub ropp Rth)|]. apply pkron_weq; [exact H | apply weq_refl].
Qed.
Lemma kronW_single a b : weq a b -> weq (kronW [a]) (kronW [b]).
Proof. intros H. apply kronW_weq_list. constructor; [exact H | constructor]. Qed.
Lemma legs_of_mats' ms : weq (kronW (map leg_mat (legs_of ms))) (kronW ms).
Proof. apply kronW_weq_list. induction ms as [|[w a] ms IH]; [constructor|]. constructor; [apply weq_refl | exact IH]. Qed.
Lemma widths_app (a b : list wmat) : widths R (a ++ b) = widths R a + widths R b.
Proof. unfold widths. induction a as [|x a IH]; [reflexivity|]. cbn [app fold_right]. rewrite IH. lia. Qed.

Notation step := (step R rI rmul is_id).
Definition Inv (pre : list entry) (st : sstate R) : Prop :=
  exists col' shp' w legs',
    col R st = col' ++ [lastid R st] /\ shp R st = shp' ++ [w] /\ zip_legs col' shp' (noc R st) = Ok legs' /\
    (length col' + (if lastid R st then 1 else length (proto R st)) <= length pre) /\
    (if lastid R st then weq (kronW (map leg_mat legs' ++ [(w, idm)])) (kronW (map ofE pre))
     else proto R st <> [] /\ widths R (proto R st) = w /\
          weq (kronW (map leg_mat legs' ++ proto R st)) (kronW (map ofE pre))).

Lemma step_inv pre m st : Inv pre st -> exists st', step m st = Ok st' /\ Inv (pre ++ [m]) st'.
Proof.
  intros (col' & shp' & w & legs' & Hc & Hs & Hz & Hlen & Hw). unfold Backends.step.
  destruct (lastid R st) eqn:EL; destruct (is_id m) eqn:EI.
  - (* identity after identities *)
    rewrite Hs, set_last_app. cbn [rbind]. eexists. split; [reflexivity|].
    exists col', shp', (S w), legs'. cbn [col shp noc proto lastid]. split; [|split; [|split; [|split]]]; auto.
    + rewrite app_length. cbn [length]. lia.
    + destruct (is_id_sound m EI) as (A & -> & HA). rewrite map_app. cbn [map].
      eapply weq_trans; [|apply kronW_app_weq; [exact Hw | apply weq_refl]]. rewrite <- app_assoc. cbn [app].
      apply kronW_app_weq; [apply weq_refl|]. apply weq_sym, kronW_pair.
      eapply weq_trans; [apply pkron_weq; [apply weq_refl | apply ofE_ident; exact HA]|].
      eapply weq_trans; [apply idm_kron|]. split; [cbn; lia | intros r c _ _; reflexivity].
  - (* a matrix after identities: open a new prototype *)
    eexists. split; [reflexivity|].
    exists (col' ++ [true]), (shp' ++ [w]), (widths R [ofE m]), (legs' ++ [(w, None)]). cbn [col shp noc proto lastid].
    split; [|split; [|split; [|split]]]; [| | | |split; [|split]].
    + now rewrite Hc.
    + rewrite Hs. unfold widths. cbn [fold_right]. now rewrite Nat.add_0_r.
    + rewrite <- (app_nil_r (noc R st)). apply zip_legs_app; [exact Hz | reflexivity].
    + rewrite !app_length. cbn [length]. lia.
    + discriminate.
    + reflexivity.
    + rewrite !map_app. cbn [map]. apply kronW_app_weq; [exact Hw | apply weq_refl].
  - (* identity after matrices: contract the prototype *)
    destruct Hw as (Hp & Hwd & Hw).
    destruct (split_spec 11 st shp' ltac:(lia) Hp) as (cs & Hcs & Lcs & Wcs & Es); [now rewrite Hwd|].
    rewrite Es. cbn [rbind]. eexists. split; [reflexivity|].
    exists (col' ++ map (fun _ => false) cs), (shp' ++ map fst cs), 1, (legs' ++ legs_of cs). cbn [col shp noc proto lastid].
    split; [|split; [|split; [|split]]].
    + rewrite Hc. destruct cs; [congruence|]. cbn [tl map]. now rewrite <- !app_assoc.
    + reflexivity.
    + apply zip_legs_app; [exact Hz | apply zip_false].
    + rewrite !app_length, map_length. cbn [length]. lia.
    + destruct (is_id_sound m EI) as (A & -> & HA). rewrite !map_app. cbn [map].
      apply kronW_app_weq; [|apply kronW_single, weq_sym, ofE_ident; exact HA].
      eapply weq_trans; [|exact Hw]. apply kronW_app_weq; [apply weq_refl|].
      eapply weq_trans; [apply legs_of_mats'|]. exact Wcs.
  - (* a matrix after matrices: extend the prototype *)
    destruct Hw as (Hp & Hwd & Hw).
    rewrite Hs, set_last_app. cbn [rbind]. eexists. split; [reflexivity|].
    exists col', shp', (w + fst (ofE m)), legs'. cbn [col shp noc proto lastid]. split; [|split; [|split; [|split]]]; [| | | |split; [|split]]; auto.
    + rewrite !app_length. cbn [length]. lia.
    + destruct (proto R st); discriminate.
    + rewrite widths_app, Hwd. unfold widths. cbn [fold_right]. lia.
    + rewrite map_app. cbn [map]. rewrite app_assoc. apply kronW_app_weq; [exact Hw | apply weq_refl].
Qed.

Lemma fold_inv rest : forall pre st, Inv pre st ->
  exists st', fold_left (fun acc m => s <- acc ;; step m s) rest (Ok st) = Ok st' /\ Inv (pre ++ rest) st'.
Proof.
  induction rest as [|m rest IH]; intros pre st H.
  - exists st. rewrite app_nil_r. auto.
  - destruct (step_inv pre m st H) as (st1 & E1 & H1). destruct (IH (pre ++ [m]) st1 H1) as (st' & E' & H').
    exists st'. split; [cbn [fold_left rbind]; rewrite E1; exact E'|]. now rewrite <- app_assoc in H'.
Qed.

(* ---------- from the final scanner state to the contraction ---------- *)
Lemma legs_width_mats legs : legs_width R legs = widths R (map leg_mat legs).
Proof. unfold legs_width, widths. induction legs as [|[w o] legs IH]; [reflexivity|]. cbn [map fold_right fst BackendsContract.leg_mat]. now rewrite IH. Qed.

Lemma legs_sem n l legs : wf_layer n l -> weq (kronW (map leg_mat legs)) (kronW (map ofE l)) ->
  forall psi b, length b = n -> contractI R radd rmul legs psi b = sem (layer_items 0 l) psi b.
Proof.
  intros Hl [W1 W2] psi b Lb.
  assert (Wn : legs_width R legs = n).
  { rewrite legs_width_mats, <- fst_kronW with (rI := rI) (rmul := rmul), W1. now apply kron_layer_width. }
  rewrite (contractI_spec R rO rI radd rmul rsub ropp Rth) by congruence. rewrite Wn.
  assert (Fn : fst (kronW (map leg_mat legs)) = n) by (rewrite W1; now apply kron_layer_width).
  rewrite Fn in W2.
  rewrite (mv_meq R radd rmul n _ (snd (kronW (map ofE l))) psi psi b); auto.
  now apply (kron_is_slots R rO rI radd rmul rsub ropp Rth).
Qed.

Lemma kronW_filter l : weq (kronW (map ofE (filter (fun e => negb (isOne R e)) l))) (kronW (map ofE l)).
Proof.
  induction l as [|e l IH]; [apply weq_refl|]. cbn [filter]. destruct e; cbn [isOne negb map].
  - change (weq (pkron (ofE (En2 A)) (kronW (map ofE (filter (fun e => negb (isOne R e)) l)))) (pkron (ofE (En2 A)) (kronW (map ofE l)))).
    apply pkron_weq; [apply weq_refl | exact IH].
  - change (weq (pkron (ofE (En4 G)) (kronW (map ofE (filter (fun e => negb (isOne R e)) l)))) (pkron (ofE (En4 G)) (kronW (map ofE l)))).
    apply pkron_weq; [apply weq_refl | exact IH].
  - eapply weq_trans; [exact IH|]. apply weq_sym. apply (pkron_unit_l R rO rI radd rmul rsub ropp Rth).
Qed.

Lemma final_ok ms st : Inv ms st ->
  exists stF, (if lastid R st then Ok st else match proto R st with [] => Err AssertionError | _ => split 14 st end) = Ok stF /\
  exists legs, zip_legs (col R stF) (shp R stF) (noc R stF) = Ok legs /\
               weq (kronW (map leg_mat legs)) (kronW (map ofE ms)) /\ length (col R stF) <= length ms.
Proof.
  intros (col' & shp' & w & legs' & Hc & Hs & Hz & Hlen & Hw). destruct (lastid R st) eqn:EL.
  - exists st. split; [reflexivity|]. exists (legs' ++ [(w, None)]). split; [|split].
    + rewrite Hc, Hs, <- (app_nil_r (noc R st)). apply zip_legs_app; [exact Hz | reflexivity].
    + rewrite map_app. exact Hw.
    + rewrite Hc, app_length. cbn [length]. lia.
  - destruct Hw as (Hp & Hwd & Hw).
    destruct (split_spec 14 st shp' ltac:(lia) Hp) as (cs & Hcs & Lcs & Wcs & Es); [now rewrite Hwd|].
    assert (EM : match proto R st with [] => Err AssertionError | _ :: _ => split 14 st end = split 14 st)
      by (clear -Hp; destruct (proto R st); [congruence | reflexivity]).
    eexists. split; [rewrite EM; exact Es|].
    cbn [col shp noc]. exists (legs' ++ legs_of cs). split; [|split].
    + rewrite Hc. replace ((col' ++ [false]) ++ map (fun _ => false) (tl cs)) with (col' ++ map (fun _ => false) cs)
        by (destruct cs; [congruence|]; cbn [tl map]; now rewrite <- app_assoc).
      apply zip_legs_app; [exact Hz | apply zip_false].
    + rewrite map_app. eapply weq_trans; [|exact Hw]. apply kronW_app_weq; [apply weq_refl|].
      eapply weq_trans; [apply legs_of_mats'|]. exact Wcs.
    + rewrite Hc, !app_length, map_length. cbn [length]. destruct cs; [congruence|]. cbn [tl length] in *. lia.
Qed.

Notation ones_high := (ones_high R rI rmul is_id).
Lemma ones_high_ok n l : 1 <= n -> wf_layer n l -> length (filter (fun e => negb (isOne R e)) l) <= 26 ->
  exists p, ones_high n l = Ok p /\ plan_ok n l p.
Proof.
  intros Hn Hl H26. unfold Backends.ones_high.
  pose proof (kronW_filter l) as WF. set (ms := filter (fun e => negb (isOne R e)) l) in *.
  destruct (Nat.ltb_spec 26 (length ms)) as [C|_]; [lia|].
  destruct ms as [|m0 rest] eqn:Ems.
  { exfalso. destruct WF as [W1 _]. rewrite !fst_kronW in W1. rewrite (widths_wf R rI n l Hl) in W1. cbn in W1. lia. }
  set (st0 := {| noc := []; shp := [fst (ofE m0)]; col := [is_id m0]; proto := if is_id m0 then [] else [ofE m0]; lastid := is_id m0 |}).
  assert (I0 : Inv [m0] st0).
  { exists [], [], (fst (ofE m0)), []. subst st0. cbn [col shp noc proto lastid]. split; [reflexivity|]. split; [reflexivity|].
    split; [reflexivity|]. destruct (is_id m0) eqn:E0.
    - split; [cbn; lia|]. destruct (is_id_sound m0 E0) as (A & -> & HA). cbn [map app].
      apply kronW_single, weq_sym. apply ofE_ident. exact HA.
    - split; [cbn; lia|]. split; [discriminate|]. split; [unfold widths; cbn [fold_right]; lia | apply weq_refl]. }
  destruct (fold_inv rest [m0] st0 I0) as (st & Ef & If). cbn [app] in If.
  rewrite Ef. cbn [rbind].
  destruct (final_ok (m0 :: rest) st If) as (stF & EF & legs & Hz & Wl & Lc).
  rewrite EF. cbn [rbind].
  assert (Wl' : weq (kronW (map leg_mat legs)) (kronW (map ofE l))) by (eapply weq_trans; [exact Wl | exact WF]).
  assert (Wn : legs_width R legs = n).
  { destruct Wl' as [W1 _]. rewrite legs_width_mats, <- fst_kronW with (rI := rI) (rmul := rmul), W1. now apply kron_layer_width. }
  destruct (forallb (fun b => b) (col R stF)) eqn:EA.
  - eexists. split; [reflexivity|]. intros psi b Lb. cbn [Backends.exec1].
    rewrite <- (legs_sem n l legs Hl Wl' psi b Lb). symmetry. apply contractI_allNone; [|congruence].
    exact (zip_all_true _ _ _ _ Hz EA).
  - destruct (Nat.ltb_spec 26 (length (col R stF))) as [C|_]; [cbn [length] in *; lia|].
    rewrite (zip_legs_width _ _ _ _ Hz), Wn, Nat.eqb_refl, Hz. cbn [rbind]. eexists. split; [reflexivity|].
    intros psi b Lb. cbn [Backends.exec1]. rewrite memoT_get by assumption. exact (legs_sem n l legs Hl Wl' psi b Lb).
Qed.

Notation ones_plan := (ones_plan R rI rmul is_id).
Notation ones := (ones R rI radd rmul is_id).
(* ones_spec: BackendForOnes computes the layered product for every sound identity test, provided every layer has at most
   26 matrices (the code's assertion at backend.py:500) *)
Theorem ones_spec n ls psi :
  1 <= n -> ls <> [] -> Forall (wf_layer n) ls ->
  Forall (fun l => length (filter (fun e => negb (isOne R e)) l) <= 26) ls ->
  exists out, ones n ls psi = Ok out /\ state_eq n out (layers_sem ls psi).
Proof.
  intros Hn Hne Hwf H26. unfold Backends.ones.
  assert (P : exists ps, ones_plan n ls = Ok ps /\ Forall2 (plan_ok n) ls ps).
  { unfold Backends.ones_plan. destruct ls as [|l0 rest] eqn:Els; [congruence|]. rewrite <- Els in *. clear Els l0 rest.
    rewrite Forall_forall in Hwf, H26.
    destruct (n <=? 6).
    - apply mapM_ok. intros l Hin. apply ones_low_ok; auto.
    - apply mapM_ok. intros l Hin. apply ones_high_ok; auto. }
  destruct P as (ps & Ep & HF). rewrite Ep. cbn [rbind]. eexists. split; [reflexivity|].
  now apply (exec_ok R radd rmul).
Qed.

End Ones.
