(* C01 — "the index-based backend fed the same matrices item by item returns the same vector".
   items_of_layers reads the (matrix, qubit list) items off the layer shapes as a caller of BinaryBackend would
   ([q] for a 2x2 entry at slot q, [q, q+1] for a 4x4 block spanning slots q, q+1, placeholder on either side);
   their denotation is literally the item list of layers_sem, they are well-formed input of C02's optimizer, so by
   C02's optimize_sound every optimisation level keeps layers_sem; and, given the correctness of BinaryBackend's
   operator construction (C02_backend_full, here an explicit hypothesis), the index-based backend returns layers_sem,
   i.e. the same vector as every layer-based backend. *)
From Coq Require Import List Bool Arith ZArith Lia Ring.
Require Import QG.Base.Res QG.Base.State QG.Base.Mat QG.Model.Backends QG.Model.Optimizer QG.Model.Sparse.
Require Import QG.Proofs.BackendsSpec QG.Proofs.BackendsKron QG.Proofs.BackendsContract QG.Proofs.OptimizerSem QG.Proofs.OptimizerMain.
Import ListNotations.

Section Binary.
Variable R : Type.
Variables (rO rI : R) (radd rmul rsub : R -> R -> R) (ropp : R -> R).
Variable Rth : ring_theory rO rI radd rmul rsub ropp eq.
Notation entry := (entry R).
Notation mat := (mat R).
Notation mmul := (mmul R radd rmul).
Notation mkron := (mkron R rmul).
Notation mid2 := (mid2 R rO rI).
Notation mid4 := (mid4 R rO rI).
Notation mitem := (mat * list Z)%type.
Notation den := (den R rO rI).
Notation wf_in := (wf_in R).
Notation sem := (sem R radd rmul).
Notation wf_layer := (wf_layer R).
Notation layer_items := (layer_items R).
Notation layers_sem := (layers_sem R radd rmul).
Notation state_eq := (state_eq R).

(* the items a caller of BinaryBackend.statevector builds from a layer whose first entry sits on qubit q *)
Fixpoint layer_mitems (q : nat) (l : list entry) : list mitem :=
  match l with
  | [] => []
  | En2 A :: r => (M2 R A, [Z.of_nat q]) :: layer_mitems (S q) r
  | En4 G :: EnOne :: r => (M4 R G, [Z.of_nat q; Z.of_nat (S q)]) :: layer_mitems (S (S q)) r
  | EnOne :: En4 G :: r => (M4 R G, [Z.of_nat q; Z.of_nat (S q)]) :: layer_mitems (S (S q)) r
  | _ :: r => layer_mitems (S q) r
  end.
Definition items_of_layers (ls : list (list entry)) : list mitem := concat (map (layer_mitems 0) ls).

(* their denotation (OptimizerSem.den) is the item list of the slot semantics: definitional up to Z.to_nat (Z.of_nat q) *)
Lemma den_layer_mitems_len k : forall l, length l <= k -> forall q, map den (layer_mitems q l) = layer_items q l.
Proof.
  induction k as [|k IH]; intros l Hl q.
  - destruct l; [reflexivity | simpl in Hl; lia].
  - destruct l as [|e l]; [reflexivity|]. cbn [length] in Hl.
    assert (H1 : forall q', map den (layer_mitems q' l) = layer_items q' l) by (intros; apply IH; lia).
    destruct e as [A|G|].
    + cbn [layer_mitems BackendsSpec.layer_items map OptimizerSem.den]. now rewrite Nat2Z.id, H1.
    + destruct l as [|e2 l2]; [reflexivity|]. cbn [length] in Hl.
      assert (H2 : forall q', map den (layer_mitems q' l2) = layer_items q' l2) by (intros; apply IH; lia).
      destruct e2; cbn [layer_mitems BackendsSpec.layer_items map OptimizerSem.den]; try apply H1.
      now rewrite !Nat2Z.id, H2.
    + destruct l as [|e2 l2]; [reflexivity|]. cbn [length] in Hl.
      assert (H2 : forall q', map den (layer_mitems q' l2) = layer_items q' l2) by (intros; apply IH; lia).
      destruct e2; cbn [layer_mitems BackendsSpec.layer_items map OptimizerSem.den]; try apply H1.
      now rewrite !Nat2Z.id, H2.
Qed.
Lemma den_layer_mitems q l : map den (layer_mitems q l) = layer_items q l.
Proof. now apply (den_layer_mitems_len (length l)). Qed.

Lemma den_items_of_layers ls : map den (items_of_layers ls) = concat (map (layer_items 0) ls).
Proof.
  unfold items_of_layers. rewrite concat_map, map_map. f_equal. apply map_ext. intros l. apply den_layer_mitems.
Qed.

(* item-by-item application of the same matrices IS the specification of C01 *)
Theorem items_sem ls psi : sem (map den (items_of_layers ls)) psi = layers_sem ls psi.
Proof. unfold BackendsSpec.layers_sem. now rewrite den_items_of_layers. Qed.

(* a well-formed layer yields well-formed optimizer / BinaryBackend input *)
Lemma wf_layer_mitems n l : wf_layer n l -> forall q, Forall (wf_in (q + n)) (layer_mitems q l).
Proof.
  induction 1 as [|n A l Hl IH|n G l Hl IH|n G l Hl IH]; intros q.
  - constructor.
  - cbn [layer_mitems]. constructor.
    + cbn. lia.
    + replace (q + S n) with (S q + n) by lia. apply IH.
  - cbn [layer_mitems]. constructor.
    + cbn. lia.
    + replace (q + S (S n)) with (S (S q) + n) by lia. apply IH.
  - cbn [layer_mitems]. constructor.
    + cbn. lia.
    + replace (q + S (S n)) with (S (S q) + n) by lia. apply IH.
Qed.
Lemma wf_layer_mitems_ne n l q : wf_layer n l -> 1 <= n -> layer_mitems q l <> [].
Proof. intros H Hn. destruct H; cbn [layer_mitems]; try discriminate. lia. Qed.

Theorem items_wf n ls : Forall (wf_layer n) ls -> Forall (wf_in n) (items_of_layers ls).
Proof.
  intros H. unfold items_of_layers. induction H as [|l ls Hl _ IH]; [constructor|].
  cbn [map concat]. apply Forall_app. split; [|exact IH]. exact (wf_layer_mitems n l Hl 0).
Qed.
Theorem items_ne n ls : 1 <= n -> ls <> [] -> Forall (wf_layer n) ls -> items_of_layers ls <> [].
Proof.
  intros Hn Hne H. destruct H as [|l ls Hl _]; [congruence|]. unfold items_of_layers. cbn [map concat].
  pose proof (wf_layer_mitems_ne n l 0 Hl Hn) as N. destruct (layer_mitems 0 l); [congruence | discriminate].
Qed.
(* in the vocabulary of Base/State.v: the specification's items are well-formed items on n qubits *)
Theorem spec_items_wf n ls : Forall (wf_layer n) ls -> Forall (wf_item R n) (concat (map (layer_items 0) ls)).
Proof.
  intros H. rewrite <- den_items_of_layers. apply Forall_forall. intros x Hx. apply in_map_iff in Hx.
  destruct Hx as (it & <- & Hi). apply wf_in_wf_item.
  pose proof (items_wf n ls H) as W. rewrite Forall_forall in W. auto.
Qed.

(* the four facts about the items, bundled *)
Theorem items_spec n ls : Forall (wf_layer n) ls ->
  (forall psi, sem (map den (items_of_layers ls)) psi = layers_sem ls psi) /\
  Forall (wf_in n) (items_of_layers ls) /\
  Forall (wf_item R n) (concat (map (layer_items 0) ls)) /\
  (1 <= n -> ls <> [] -> items_of_layers ls <> []).
Proof.
  intros H. split; [|split; [|split]].
  - intros psi. apply items_sem.
  - now apply items_wf.
  - now apply spec_items_wf.
  - intros Hn Hne. now apply (items_ne n).
Qed.

(* C02's optimizer (any level 0..4, as run by BinaryBackend at level 4 and by the circuit classes) keeps layers_sem *)
Theorem optimize_layers level n ls : level <= 4 -> Forall (wf_layer n) ls ->
  exists out, optimize mat mmul mkron mid2 mid4 level n (items_of_layers ls) = Ok out /\
    length out <= length (items_of_layers ls) /\ Forall (wf_item R n) (map den out) /\
    forall psi, state_eq n (sem (map den out) psi) (layers_sem ls psi).
Proof.
  intros Hl H.
  destruct (optimize_sound_state R rO rI radd rmul rsub ropp Rth n level (items_of_layers ls) Hl (items_wf n ls H))
    as (out & E & L & W & S).
  exists out. repeat split; auto. intros psi. rewrite <- items_sem. apply S.
Qed.

(* ---- the index-based backend.  Its sparse-operator construction is C02's subject: C02_backend_full (Props/C02.v)
        enters as a hypothesis, for this ring and whatever entry-reading function the model is instantiated with. ---- *)
Section WithBackend.
Variable entry_mat : mat -> N -> N -> R.
Notation bin := (bin_statevector R rO radd rmul mat mmul mkron mid2 mid4 entry_mat).
Hypothesis bin_backend_correct : forall (n : nat) (items : list mitem) (psi : State.state R),
  items <> [] -> Forall (wf_in n) items ->
  exists out, bin n items psi = Ok out /\ state_eq n out (sem (map den items) psi).

Theorem binary_agrees n ls psi : 1 <= n -> ls <> [] -> Forall (wf_layer n) ls ->
  exists out, bin n (items_of_layers ls) psi = Ok out /\ state_eq n out (layers_sem ls psi).
Proof.
  intros Hn Hne H.
  destruct (bin_backend_correct n (items_of_layers ls) psi (items_ne n ls Hn Hne H) (items_wf n ls H)) as (out & E & S).
  exists out. split; [exact E|]. now rewrite <- items_sem.
Qed.

(* "returns the same vector" as any computation that meets the layered specification *)
Corollary binary_same_vector n ls psi o1 : 1 <= n -> ls <> [] -> Forall (wf_layer n) ls ->
  state_eq n o1 (layers_sem ls psi) ->
  exists o2, bin n (items_of_layers ls) psi = Ok o2 /\ state_eq n o1 o2.
Proof.
  intros Hn Hne H S1. destruct (binary_agrees n ls psi Hn Hne H) as (o2 & E & S2).
  exists o2. split; [exact E|]. eapply state_eq_trans; [exact S1 | apply state_eq_sym, S2].
Qed.

(* in particular the same vector as StandardBackend (std_spec); likewise for the other layer-based backends *)
Theorem binary_agrees_std n ls psi : 1 <= n -> ls <> [] -> Forall (wf_layer n) ls ->
  exists o2, bin n (items_of_layers ls) psi = Ok o2 /\ state_eq n o2 (layers_sem ls psi) /\
    exists o1, std R rI radd rmul n ls psi = Ok (OutVec o1) /\ state_eq n o1 o2.
Proof.
  intros Hn Hne H.
  destruct (std_spec R rO rI radd rmul rsub ropp Rth n ls psi Hn Hne H) as (o1 & E1 & S1).
  destruct (binary_agrees n ls psi Hn Hne H) as (o2 & E2 & S2).
  exists o2. split; [exact E2|]. split; [exact S2|]. exists o1. split; [exact E1|].
  eapply state_eq_trans; [exact S1 | apply state_eq_sym, S2].
Qed.
End WithBackend.

End Binary.
