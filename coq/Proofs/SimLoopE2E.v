(* C03 — the composed end-to-end theorem for the index class: C14's run model (validation, normalisation, marginalisation)
   around the noise-free shot nf_perform (Model/SimLoop.v) returns, under every key, the normalised sum of the IDEAL circuit's
   Born weights over the basis states whose bits at the measured qubits' ranks spell the key.
   Composition of: SimRunProofs.marginal_correct (= C14_marginal_correct), RelabelLayout.process_layout_rank
   (= C08_layout_is_rank), NoiseFreeRun.noise_free_born_index (= C03_noise_free_born_index), SimLoop.translate_wf and
   SimLoop.call_items_sem.  Nothing of those is re-proved here. *)
From Coq Require Import List Bool Arith NArith ZArith Lia Reals Lra.
Require Import QG.Base.Res QG.Base.State QG.Model.FixCounts QG.Model.SimRun QG.Model.NoiseFreeRun QG.Model.SimLoop.
Require Import QG.Proofs.FixCountsKeys QG.Proofs.FixCountsProofs QG.Proofs.SimRunKeys QG.Proofs.SimRunProofs.
Require Import QG.Proofs.RelabelRank QG.Proofs.RelabelLayout QG.Proofs.FrameSim QG.Proofs.NoiseFreeRun QG.Proofs.SimLoop.
Import ListNotations.
Local Open Scope R_scope.

(* the measured positions: rank of the k-th measured label among the used labels *)
Definition meas_ranks (f : front_out) : list nat :=
  map (rank (map N.to_nat (f_used f))) (map (fun qc : N * N => N.to_nat (fst qc)) (f_meas f)).
(* sum of g over the basis states (ascending) whose bits at positions pos spell t *)
Definition marginal_sum (g : bits -> R) (n : nat) (pos : list nat) (t : list bool) : R :=
  rsum (map g (filter (fun b => key_eqb (sel b pos) t) (binary_vector n))).

Lemma binary_vector_length n : length (binary_vector n) = Nat.pow 2 n.
Proof. now rewrite binary_vector_seq, map_length, seq_length. Qed.
Lemma binary_vector_len n b : (0 < n)%nat -> In b (binary_vector n) -> length b = n.
Proof. intros Hn. rewrite binary_vector_all_keys by auto. apply all_keys_len. Qed.

(* C14's msum on a vector indexed by the basis states = the sum over the matching basis states *)
Lemma msum_bv (g : bits -> R) n pos t : msum (map g (binary_vector n)) n pos t = marginal_sum g n pos t.
Proof.
  unfold msum, marginal_sum, rsum. rewrite binary_vector_seq, filter_map_comm, !map_map. f_equal.
  apply map_ext_in. intros i Hi. apply filter_In in Hi as [Hi _]. apply in_seq in Hi.
  rewrite (nth_map_lt _ _ _ _ O) by (rewrite seq_length; lia). rewrite seq_nth by lia. reflexivity.
Qed.

Section Core.
Variables (a : args) (f : front_out) (data : list qinstr).
Hypothesis Hf : front a = Ok f.
Hypothesis Hc : a_circ a = CData true data.
Hypothesis W : Forall wf_qiskit data.
Hypothesis NDm : NoDup (map fst (f_meas f)).
Variable perform : front_out -> res (list R).
Variables wsim wideal : bits -> R.
Hypothesis Hperf : perform f = Ok (map wsim (binary_vector (f_n f))).
Hypothesis Heq : forall b, length b = f_n f -> wsim b = wideal b.
Hypothesis Hnn : forall b, 0 <= wideal b.
Hypothesis Hpos : 0 < rsum (map wideal (binary_vector (f_n f))).

Lemma layout_of_front : process_layout data = Ok (f_used f, f_meas f, f_n f).
Proof. destruct (front_ok_inv a f Hf) as (d & Hd & Hl & _). rewrite Hc in Hd. injection Hd as <-. exact Hl. Qed.
Lemma data_wf_instr : Forall SimRunProofs.wf_instr data.
Proof. eapply Forall_impl; [|exact W]. apply wf_qiskit_wf_instr. Qed.
Lemma n_pos : (0 < f_n f)%nat.
Proof.
  destruct (front_ok_inv a f Hf) as (_ & _ & _ & Hne & _).
  destruct (process_layout_inv data _ _ _ data_wf_instr layout_of_front) as (_ & Fm & Hn).
  destruct (f_meas f) as [|[q c] r]; [congruence|]. apply Forall_cons_iff in Fm as [Hq _]. cbn [fst] in Hq.
  rewrite Hn. destruct (f_used f); [destruct Hq|simpl; lia].
Qed.

Theorem e2e_core :
  exists out, run_model R 0 Rplus Rdiv rpos a perform = Ok out /\
    forall t, length t = length (f_meas f) ->
      lookup R t out =
      Some (marginal_sum (fun b => wideal b / rsum (map wideal (binary_vector (f_n f)))) (f_n f) (meas_ranks f) t).
Proof.
  assert (Ep : map wsim (binary_vector (f_n f)) = map wideal (binary_vector (f_n f))).
  { apply map_ext_in. intros b Hb. apply Heq. now apply binary_vector_len; [apply n_pos|]. }
  rewrite Ep in Hperf.
  assert (Hwf : data_wf a). { unfold data_wf. rewrite Hc. exact data_wf_instr. }
  assert (Fp : Forall (Rle 0) (map wideal (binary_vector (f_n f)))).
  { apply Forall_forall. intros y Hy. apply in_map_iff in Hy as (b & <- & _). apply Hnn. }
  destruct (marginal_correct a f perform _ Hf Hwf NDm Hperf ltac:(now rewrite map_length, binary_vector_length) Fp Hpos)
    as (out & Er & Hl).
  exists out. split; [exact Er|]. intros t Lt. rewrite (Hl t Lt). f_equal.
  destruct (process_layout_rank data _ _ _ data_wf_instr layout_of_front) as (_ & _ & _ & Epos).
  rewrite Epos. fold (meas_ranks f). rewrite map_map. apply msum_bv.
Qed.
End Core.

(* ================================================================== over a ring with a conjugation *)
Section Ring.
Variable T : Type.
Variables (rO rI : T) (radd rmul rsub : T -> T -> T) (ropp : T -> T).
Variable Rth : ring_theory rO rI radd rmul rsub ropp eq.
Variable A : Type.
Variable K : consts T A.
Hypothesis OK : consts_ok T rI rmul ropp A K.
Variable cj : T -> T.
Hypothesis CJ : conj_ok T rI rmul ropp A K cj.
(* the Born rule on an amplitude: a non-negative real number that depends on x * cj x only *)
Variable born : T -> R.
Hypothesis born_nrm : forall x y, nrm T rmul cj x = nrm T rmul cj y -> born x = born y.
Hypothesis born_nonneg : forall x, 0 <= born x.
Variable D : Type.
Variables (theta : nat -> A) (dur : nat -> D).
Notation sem := (sem T radd rmul).
Notation run_items := (run_items T rO rI radd rmul ropp A K).
Notation ideal_items := (ideal_items T rO rI radd rmul ropp A K).
Notation call_items := (call_items T rO rI radd rmul ropp A D K).
Notation nf_perform := (nf_perform T rO rI radd rmul ropp A D K R born theta dur).

Theorem end_to_end (a : args) (f : front_out) (data : list qinstr) (psi0 : state T) :
  front a = Ok f -> a_circ a = CData true data -> Forall wf_qiskit data ->
  NoDup (map fst (f_meas f)) -> f_nqubit f = Z.of_nat (f_n f) ->
  exists prog, translate A D theta dur (f_used f) (f_nqubit f) data = Ok prog /\
    Forall (NoiseFreeRun.wf_instr (f_n f)) prog /\
    let ideal := fun b => born (sem (ideal_items prog) psi0 b) in
    let total := rsum (map ideal (binary_vector (f_n f))) in
    (0 < total ->
     exists out, run_model R 0 Rplus Rdiv rpos a (nf_perform data psi0) = Ok out /\
       forall t, length t = length (f_meas f) ->
         lookup R t out = Some (marginal_sum (fun b => ideal b / total) (f_n f) (meas_ranks f) t)).
Proof.
  intros Hf Hc W NDm Hnq.
  pose proof (layout_of_front a f data Hf Hc) as Hl.
  destruct (translate_wf A D theta dur data _ _ _ (f_nqubit f) W Hl ltac:(lia)) as (cs & Ecs & Fon & Et & Wp).
  exists (nf_prog A D cs). split; [exact Et|]. split; [exact Wp|]. cbv zeta. intros Hpos.
  apply (e2e_core a f data Hf Hc W NDm (nf_perform data psi0)
           (fun b => born (sem (call_items cs) psi0 b))
           (fun b => born (sem (ideal_items (nf_prog A D cs)) psi0 b))).
  - unfold SimLoop.nf_perform. rewrite Ecs. cbn [rbind]. rewrite Hnq, Nat2Z.id. reflexivity.
  - intros b Hb. apply born_nrm.
    rewrite (call_items_sem T rO rI radd rmul rsub ropp Rth A D K cs psi0 b).
    exact (noise_free_born_index T rO rI radd rmul rsub ropp Rth A K OK cj CJ (f_n f) _ psi0 Wp b Hb).
  - intros b. apply born_nonneg.
  - exact Hpos.
Qed.
End Ring.
