(* C18 — qft_product (the recursion of qft_rotations turns a basis state into a product state),
   qft_is_dft_rev (its amplitudes are the DFT matrix without the final qubit reversal), hrqft_zero. *)
From Coq Require Import List Bool Arith ZArith Lia Ring.
Require Import QG.Base.Res QG.Base.State QG.Base.PathProd QG.Model.Bench QG.Proofs.BenchLists QG.Proofs.BenchSem QG.Proofs.BenchGHZ.
Import ListNotations.

(* ---- integer values of bit lists; qubit 0 (first element) is the LEAST significant bit, as in qiskit ---- *)
Definition b2z (x : bool) : Z := if x then 1%Z else 0%Z.
Fixpoint val (b : bits) : Z := match b with [] => 0%Z | x :: t => (b2z x + 2 * val t)%Z end.
Fixpoint tp (j : nat) : Z := match j with O => 1%Z | S i => (2 * tp i)%Z end.   (* 2^j *)

Lemma val_firstn_S x : forall j, val (firstn (S j) x) = (val (firstn j x) + tp j * b2z (get x j))%Z.
Proof.
  induction x as [|y t IH]; intros j.
  - unfold get. destruct j; cbn [firstn val tp nth b2z]; lia.
  - destruct j as [|j].
    + unfold get. cbn [firstn val tp nth]. lia.
    + change (firstn (S (S j)) (y :: t)) with (y :: firstn (S j) t).
      change (firstn (S j) (y :: t)) with (y :: firstn j t).
      change (get (y :: t) (S j)) with (get t j).
      cbn [val tp]. rewrite IH. lia.
Qed.
Lemma val_app a : forall b, val (a ++ b) = (val a + tp (length a) * val b)%Z.
Proof. induction a as [|y t IH]; intros b; cbn [app val length tp]. lia. rewrite IH. lia. Qed.
Lemma val_split x j : val x = (val (firstn j x) + tp j * val (skipn j x))%Z.
Proof.
  revert j; induction x as [|y t IH]; intros [|j]; cbn [firstn skipn val tp]; try lia.
  rewrite (IH j) at 1. lia.
Qed.
Lemma val_firstn_zeros n : forall j, val (firstn j (repeat false n)) = 0%Z.
Proof. induction n as [|m IH]; intros [|j]; simpl; auto. rewrite IH. reflexivity. Qed.
Lemma val_rev_cons y t : val (rev (y :: t)) = (val (rev t) + tp (length t) * b2z y)%Z.
Proof. simpl rev. rewrite val_app, rev_length. simpl. lia. Qed.

Section QFT.
Variable P : PhaseRing.
Notation R := (pR P).
Notation rO := (p0 P). Notation rI := (p1 P).
Notation radd := (padd P). Notation rmul := (pmul P). Notation rsub := (psub P). Notation ropp := (popp P).
Notation e := (pe P). Notation h := (ph P).
Add Ring Rqft : (pth P).
Infix "[+]" := (padd P) (at level 50, left associativity).
Infix "[*]" := (pmul P) (at level 40, left associativity).
Notation seq_n n := (state_eq R n).
Notation ket x := (PathProd.ket R rO rI x).
Notation ket0 n := (PathProd.ket R rO rI (repeat false n)).
Notation pp v := (PathProd.pp R rI rmul v).
Notation bas x := (PathProd.bas R rO rI x).
Notation fupd := (PathProd.fupd R).
Notation HMat := (fun r c => interp R rO rI ropp e h (Hs r c)).

Lemma pp_ext_at n v w b : length b = n -> (forall q y, q < n -> v q y = w q y) -> pp v b = pp w b.
Proof. intros L Hq. now apply (pp_ext R rI rmul n v w Hq). Qed.

(* ---- phase arithmetic ---- *)
Lemma e_scale_pow i : forall a k, e (tp i * a)%Z (i + k) = e a k.
Proof.
  induction i as [|i IH]; intros a k; cbn [tp Nat.add].
  - f_equal. lia.
  - replace (2 * tp i * a)%Z with (2 * (tp i * a))%Z by lia. rewrite pe_scale. apply IH.
Qed.
Lemma e_one0 : e 1%Z 0 = rI.
Proof.
  rewrite <- (pe_scale P 1 0). change (2 * 1)%Z with (1 + 1)%Z. rewrite <- pe_add, pe_half. ring.
Qed.
Lemma e_nat0 (m : nat) : e (Z.of_nat m) 0 = rI.
Proof.
  induction m as [|m IH]. apply pe_zero.
  rewrite Nat2Z.inj_succ. unfold Z.succ. rewrite <- pe_add, IH, e_one0. ring.
Qed.
Lemma e_int a : e a 0 = rI.
Proof.
  destruct (Z_le_gt_dec 0 a) as [L|G].
  - rewrite <- (Z2Nat.id a L). apply e_nat0.
  - assert (E : e (- a)%Z 0 = rI) by (rewrite <- (Z2Nat.id (- a)) by lia; apply e_nat0).
    transitivity (e a 0 [*] e (- a)%Z 0). rewrite E; ring. apply e_inv.
Qed.
(* only the low j bits matter in the exponent of e(./2^j) *)
Lemma e_low x j : e (val x) j = e (val (firstn j x)) j.
Proof.
  rewrite (val_split x j) at 1. rewrite <- pe_add.
  pose proof (e_scale_pow j (val (skipn j x)) 0) as E. rewrite Nat.add_0_r in E. rewrite E, e_int. ring.
Qed.

(* ---- the factors produced by qft_rotations on the basis state x ---- *)
Definition qfac (x : bits) (q : nat) : bool -> R :=
  fun y => h [*] (if y then e (val (firstn (S q) x)) (S q) else rI).
(* target factor of qubit m after H and the controlled phases with controls i < j *)
Definition qstep (x : bits) (m j : nat) : bool -> R :=
  fun y => h [*] (if y then e (val (firstn j x) + tp m * b2z (get x m))%Z (S m) else rI).

Lemma fupd_fupd_ext n v q f g : seq_n n (pp (fupd (fupd v q f) q g)) (pp (fupd v q g)).
Proof. apply pp_ext. intros r x _. unfold PathProd.fupd. destruct (Nat.eqb r q); reflexivity. Qed.

Lemma H_on_basis x m y : mv R radd rmul HMat (bas (get x m)) y = qstep x m 0 y.
Proof.
  unfold mv, qstep, PathProd.bas. cbn [firstn val].
  destruct (get x m); cbn [b2z]; rewrite Z.add_0_l.
  - pose proof (e_scale_pow m 1%Z 1) as E. replace (m + 1) with (S m) in E by lia. rewrite E, pe_half.
    destruct y; simpl; ring.
  - rewrite Z.mul_0_r, pe_zero. destruct y; simpl; ring.
Qed.

Lemma cp_on_step x m j y : j < m ->
  (if get x j && y then ent_val P (Ew true (m - j)) else rI) [*] qstep x m j y = qstep x m (S j) y.
Proof.
  intros Hj. unfold qstep, ent_val. rewrite val_firstn_S.
  destruct (get x j); cbn [b2z andb].
  - destruct y; [|ring]. simpl interp.
    replace (val (firstn j x) + tp j * 1 + tp m * b2z (get x m))%Z with (tp j * 1 + (val (firstn j x) + tp m * b2z (get x m)))%Z by lia.
    pose proof (e_scale_pow j 1%Z (S (m - j))) as E. replace (j + S (m - j)) with (S m) in E by lia.
    rewrite <- (pe_add P (tp j * 1)%Z (val (firstn j x) + tp m * b2z (get x m))%Z), E. ring.
  - replace (val (firstn j x) + tp j * 0 + tp m * b2z (get x m))%Z with (val (firstn j x) + tp m * b2z (get x m))%Z by lia.
    ring.
Qed.

Lemma qstep_final x m y : qstep x m m y = qfac x m y.
Proof. unfold qstep, qfac. now rewrite val_firstn_S. Qed.

(* the loop  for i in range(m): cp(pi/2^(m-i), i, m)  on a product state whose factors i < m are basis states *)
Lemma cp_loop n x m v : m < n -> (forall q y, q < m -> v q y = bas (get x q) y) ->
  forall len j, j + len <= m ->
  seq_n n (csem P (map (fun i => CP (m - i) i m) (seq j len)) (pp (fupd v m (qstep x m j))))
          (pp (fupd v m (qstep x m (j + len)))).
Proof.
  intros Hm Hv. induction len as [|len IH]; intros j Hj.
  - simpl. rewrite Nat.add_0_r. apply state_eq_refl.
  - simpl map. rewrite csem_cons.
    eapply state_eq_trans; [apply csem_ext | replace (j + S len) with (S j + len) by lia; apply IH; lia].
    intros b L. rewrite gsem_CP, cp_act by lia.
    rewrite (pp_diag_basis R rO rI radd rmul rsub ropp (pth P)
               (fun c t => if c && t then ent_val P (Ew true (m - j)) else rI) j m (get x j)) by
      (try lia; intros y; rewrite fupd_other by lia; apply Hv; lia).
    rewrite fupd_same.
    rewrite (fupd_fupd_ext n v m _ _ b L).
    apply (pp_ext_at n _ _ b L). intros q y _. unfold PathProd.fupd. destruct (Nat.eqb q m); [|reflexivity].
    apply cp_on_step. lia.
Qed.

(* invariant of the recursion: qubits below m are still in the input basis state, the others carry their final
   factor and are never touched again *)
Lemma qft_rot_pp n x : forall m, m <= n -> forall v, (forall q y, q < m -> v q y = bas (get x q) y) ->
  seq_n n (csem P (qft_rotations m) (pp v)) (pp (fun q => if q <? m then qfac x q else v q)).
Proof.
  induction m as [|m IH]; intros Hm v Hv.
  - simpl. apply pp_ext. intros q y _. reflexivity.
  - cbn [qft_rotations]. rewrite csem_cons, csem_app.
    assert (S1 : seq_n n (gsem P (H m) (pp v)) (pp (fupd v m (qstep x m 0)))).
    { intros b L. rewrite gsem_H. rewrite (pp_apply1 R rO rI radd rmul rsub ropp (pth P)) by lia.
      apply (pp_ext_at n _ _ b L). intros q y _. unfold PathProd.fupd. destruct (Nat.eqb q m) eqn:E; [|reflexivity].
      transitivity (mv R radd rmul HMat (bas (get x m)) y).
      - unfold mv. rewrite !Hv by lia. reflexivity.
      - apply H_on_basis. }
    assert (S2 : seq_n n (csem P (map (fun i => CP (m - i) i m) (seq 0 m)) (gsem P (H m) (pp v)))
                         (pp (fupd v m (qfac x m)))).
    { eapply state_eq_trans; [apply csem_ext, S1|].
      eapply state_eq_trans; [apply (cp_loop n x m v) with (len := m) (j := 0); try lia; intros; apply Hv; lia|].
      apply pp_ext. intros q y _. unfold PathProd.fupd. destruct (Nat.eqb q m); [|reflexivity]. apply qstep_final. }
    eapply state_eq_trans; [apply csem_ext, S2|].
    eapply state_eq_trans; [apply IH; [lia|] |].
    + intros q y Hq. rewrite fupd_other by lia. apply Hv. lia.
    + apply pp_ext. intros q y _.
      destruct (q <? m) eqn:E1; destruct (q <? S m) eqn:E2; try reflexivity.
      * apply Nat.ltb_lt in E1. apply Nat.ltb_ge in E2. lia.
      * apply Nat.ltb_ge in E1. apply Nat.ltb_lt in E2. assert (q = m) by lia. subst q. now rewrite fupd_same.
      * apply Nat.ltb_ge in E2. rewrite fupd_other by lia. reflexivity.
Qed.

(* qft_product: qft_rotations n |x> is the product state with factors (|0> + e(X mod 2^(q+1) / 2^(q+1)) |1>) / sqrt 2 *)
Theorem qft_product n x : length x = n ->
  seq_n n (csem P (qft_rotations n) (ket x)) (pp (qfac x)).
Proof.
  intros L.
  eapply state_eq_trans; [apply csem_ext; apply state_eq_sym; rewrite <- L; apply (pp_bas R rO rI radd rmul rsub ropp (pth P))|].
  eapply state_eq_trans; [apply (qft_rot_pp n x n (le_n n)); intros; reflexivity|].
  apply pp_ext. intros q y Hq. apply Nat.ltb_lt in Hq. now rewrite Hq.
Qed.

(* the amplitudes of that product state: h^n e(X rev(Y) / 2^n) *)
Lemma qfac_amplitude n x : forall y q0, q0 + length y = n ->
  pprod R rI rmul (qfac x) q0 y = rpow R rI rmul h (length y) [*] e (val x * val (rev y))%Z n.
Proof.
  induction y as [|b t IH]; intros q0 Hq; cbn [length] in Hq.
  - simpl. rewrite Z.mul_0_r, pe_zero. ring.
  - cbn [pprod rpow length]. rewrite (IH (S q0)) by lia. rewrite val_rev_cons.
    replace (val x * (val (rev t) + tp (length t) * b2z b))%Z
      with (tp (length t) * (val x * b2z b) + val x * val (rev t))%Z by lia.
    rewrite <- pe_add. replace n with (length t + S q0) at 2 by lia. rewrite e_scale_pow.
    unfold qfac. destruct b; cbn [b2z].
    + rewrite Z.mul_1_r, (e_low x (S q0)). ring.
    + rewrite Z.mul_0_r, pe_zero. ring.
Qed.

Theorem qft_is_dft_rev n x y : length x = n -> length y = n ->
  csem P (qft n) (ket x) y = rpow R rI rmul h n [*] e (val x * val (rev y))%Z n.
Proof.
  intros Lx Ly. unfold qft. rewrite csem_app, csem_finish.
  rewrite (qft_product n x Lx y Ly). unfold PathProd.pp. rewrite (qfac_amplitude n x y 0) by lia. now rewrite Ly.
Qed.

(* ---- hadamard_reverse_qft_circ ---- *)
Notation unif := (pp (fun _ _ => h)).

Lemma qft_rot_zero n : seq_n n (csem P (qft_rotations n) (ket0 n)) unif.
Proof.
  eapply state_eq_trans; [apply qft_product, repeat_length|].
  apply pp_ext. intros q y _. unfold qfac. rewrite val_firstn_zeros, pe_zero. destruct y; ring.
Qed.

Lemma csem_fix n s l : (forall g, In g l -> seq_n n (gsem P g s) s) -> seq_n n (csem P l s) s.
Proof.
  induction l as [|g r IH]; intros Hl.
  - apply state_eq_refl.
  - rewrite csem_cons. eapply state_eq_trans; [apply csem_ext, Hl; now left|]. apply IH. intros g' Hg'. apply Hl. now right.
Qed.

Lemma unif_amp b : unif b = rpow R rI rmul h (length b).
Proof. unfold PathProd.pp. apply pprod_const. intros; reflexivity. Qed.

Lemma swaps_unif n : seq_n n (csem P (swap_registers n) unif) unif.
Proof.
  apply csem_fix. intros g Hg. unfold swap_registers in Hg. apply in_map_iff in Hg as [q [<- _]].
  intros b L. rewrite gsem_SWAP, swap_act. rewrite !unif_amp, !upd_length. reflexivity.
Qed.

Definition hz (j : nat) : nat -> bool -> R := fun q => if q <? j then bas false else (fun _ => h).

Lemma H_loop n : forall len j, j + len <= n ->
  seq_n n (csem P (map H (seq j len)) (pp (hz j))) (pp (hz (j + len))).
Proof.
  induction len as [|len IH]; intros j Hj.
  - simpl. rewrite Nat.add_0_r. apply state_eq_refl.
  - simpl map. rewrite csem_cons.
    eapply state_eq_trans; [apply csem_ext | replace (j + S len) with (S j + len) by lia; apply IH; lia].
    intros b L. rewrite gsem_H. rewrite (pp_apply1 R rO rI radd rmul rsub ropp (pth P)) by lia.
    apply (pp_ext_at n _ _ b L). intros q y _. unfold PathProd.fupd, hz.
    destruct (Nat.eqb q j) eqn:E.
    + apply Nat.eqb_eq in E. subst q. rewrite Nat.ltb_irrefl.
      replace (j <? S j) with true by (symmetry; apply Nat.ltb_lt; lia).
      unfold mv, PathProd.bas. destruct y; simpl.
      * ring.
      * rewrite <- (ph_half P). ring.
    + apply Nat.eqb_neq in E.
      destruct (q <? j) eqn:E1; destruct (q <? S j) eqn:E2; try reflexivity.
      * apply Nat.ltb_lt in E1. apply Nat.ltb_ge in E2. lia.
      * apply Nat.ltb_ge in E1. apply Nat.ltb_lt in E2. lia.
Qed.

Lemma hrqft_pre_zero n : seq_n n (csem P (hrqft_pre n) (ket0 n)) (ket0 n).
Proof.
  unfold hrqft_pre. rewrite !csem_app.
  eapply state_eq_trans; [apply csem_ext, csem_ext, qft_rot_zero|].
  eapply state_eq_trans; [apply csem_ext, swaps_unif|].
  eapply state_eq_trans; [apply csem_ext; apply (pp_ext R rI rmul n _ (hz 0)); intros; reflexivity|].
  eapply state_eq_trans; [apply (H_loop n n 0); lia|].
  eapply state_eq_trans; [|rewrite <- (repeat_length false n) at 1; apply (pp_bas R rO rI radd rmul rsub ropp (pth P))].
  apply pp_ext. intros q y Hq. unfold hz. simpl. apply Nat.ltb_lt in Hq. rewrite Hq.
  unfold get. now rewrite nth_repeat.
Qed.

Theorem hrqft_zero n : exists l, hrqft n = Ok l /\ seq_n n (csem P l (ket0 n)) (ket0 n).
Proof.
  exists (inverse_u (hrqft_pre n) ++ finish n). split. apply hrqft_ok.
  rewrite csem_app. intros b L. rewrite csem_finish.
  transitivity (csem P (inverse_u (hrqft_pre n)) (csem P (hrqft_pre n) (ket0 n)) b).
  - apply (csem_ext P n); [|exact L]. apply state_eq_sym, hrqft_pre_zero.
  - apply (inverse_undoes_u P n (hrqft_pre n) (hrqft_pre_wf n) (ket0 n) b L).
Qed.

End QFT.
