(* C03 — the builder state machine of the index class (Model/Builders.v: bstep, the model of BinaryCircuit tied to
   circuit.py by C11's correspondence) really appends the item list run_items: feeding it, instruction by instruction,
   the matrix the noise-free gate set returns (= the framed matrix, by the reflection check) as the token of the
   corresponding method call (X / SX / CNOT / ECR / Rz on INTERNAL indices), never raises, and its content — after the
   [q, -1] -> [q] normalisation statevector() performs — denotes exactly run_items p.  Composed with C02's bin_spec:
   BinaryBackend.statevector on that content returns sem (run_items p) psi0, whose Born weights are the ideal ones. *)
From Coq Require Import List Bool Arith ZArith Lia Ring.
Require Import QG.Base.Res QG.Base.State QG.Model.Backends QG.Model.Optimizer QG.Model.Sparse.
Require Import QG.Proofs.OptimizerSem QG.Proofs.SparseApply QG.Proofs.SparseMain.
Require Import QG.Model.Builders.
Require Import QG.Proofs.FrameSim QG.Model.NoiseFreeRun QG.Proofs.NoiseFreeRun.
Import ListNotations.

(* ---- Python list access at in-range natural indices ---- *)
Lemma pyidx_nat q len : q < len -> pyidx (Z.of_nat q) len = Ok q.
Proof.
  intros H. unfold pyidx.
  destruct (Z.leb_spec 0 (Z.of_nat q)); [|lia]. destruct (Z.ltb_spec (Z.of_nat q) (Z.of_nat len)); [|lia].
  cbn [andb]. now rewrite Nat2Z.id.
Qed.
Lemma lget_nat {T} (l : list T) q : q < length l -> exists x, lget l (Z.of_nat q) = Ok x.
Proof.
  intros H. unfold lget. rewrite pyidx_nat by assumption. cbn [rbind].
  destruct (nth_error l q) eqn:E; [eauto|]. apply nth_error_None in E. lia.
Qed.
Lemma set_nth_length {T} k (x : T) l : length (set_nth k x l) = length l.
Proof. revert k. induction l as [|y l IH]; intros [|k]; cbn; auto. Qed.
Lemma lset_nat {T} (l : list T) q x : q < length l -> lset l (Z.of_nat q) x = Ok (set_nth q x l).
Proof. intros H. unfold lset. now rewrite pyidx_nat. Qed.
Lemma ltb_nat c t : (Z.of_nat c <? Z.of_nat t)%Z = (c <? t).
Proof. destruct (Z.ltb_spec (Z.of_nat c) (Z.of_nat t)), (Nat.ltb_spec c t); auto; lia. Qed.

Section BL.
Variable R : Type.
Variables (rO rI : R) (radd rmul rsub : R -> R -> R) (ropp : R -> R).
Variable Rth : ring_theory rO rI radd rmul rsub ropp eq.
Variable A : Type.
Variable K : consts R A.
(* how the builder model records an rz angle symbolically (a + b*pi/2); irrelevant for what is appended *)
Variable ph : A -> Z * Z.
Notation frame := (frame R). Notation fop := (fop R). Notation instr := (NoiseFreeRun.instr A).
Notation M := (mat R).
Notation idM := (mid2 R rO rI).
Notation compile := (compile R rO rI radd rmul ropp A K).
Notation fstep := (fstep R rO rI radd rmul ropp A K).
Notation item_of := (item_of R rI rmul).
Notation run_items_from := (run_items_from R rO rI radd rmul ropp A K).
Notation run_items := (run_items R rO rI radd rmul ropp A K).
Notation den := (den R rO rI).
Notation bstep := (bstep M idM). Notation bexec := (bexec M idM).

(* the matrix object the gate-set call returned *)
Definition token (f fi : frame) (o : fop) : M :=
  match o with
  | OpZ _ _ _ _ _ => MBad R
  | Op1 _ q gam G => M2 R (framed1 R rI rmul f fi q gam G)
  | Op2 _ q1 q2 gam G _ ui1 _ ui2 => M4 R (framed2 R rI rmul f q1 q2 gam G ui1 ui2)
  end.
(* the public method call the simulator issues for a native instruction (index class: no identity padding) *)
Definition op_of (f fi : frame) (x : instr) : op M :=
  let tk := token f fi (compile f fi x) in
  match x with
  | NRz q th => ORz M (Z.of_nat q) (ph th)
  | NX q | NSX q => OX M tk (Z.of_nat q)
  | NCX c t => OCNOT M tk (Z.of_nat c) (Z.of_nat t)
  | NECR c t => OECR M tk (Z.of_nat c) (Z.of_nat t)
  end.
Fixpoint ops_from (ff : frame * frame) (p : list instr) : list (op M) :=
  match p with [] => [] | x :: r => op_of (fst ff) (snd ff) x :: ops_from (fstep ff x) r end.
Definition ops (p : list instr) : list (op M) := ops_from (ff_one R rI) p.

Definition den_items (l : list (M * list Z)) : list (item R) := map den (map (Builders.norm_item M) l).

Lemma cnot_phases_len phi c t n : length phi = n -> c < n -> t < n ->
  exists phi', cnot_phases phi (Z.of_nat c) (Z.of_nat t) = Ok phi' /\ length phi' = n.
Proof.
  intros L Hc Ht. unfold cnot_phases.
  destruct (lget_nat phi c ltac:(lia)) as [pc Ec]. rewrite Ec. cbn [rbind].
  destruct (Z.of_nat c <? Z.of_nat t)%Z.
  - rewrite lset_nat by lia. eexists; split; [reflexivity|]. now rewrite set_nth_length.
  - rewrite lset_nat by lia. cbn [rbind].
    destruct (lget_nat (set_nth c (padd (padd pc (quarter 1)) (quarter 2)) phi) t ltac:(rewrite set_nth_length; lia)) as [pk Ek].
    rewrite Ek. cbn [rbind]. rewrite lset_nat by (rewrite set_nth_length; lia).
    eexists; split; [reflexivity|]. now rewrite !set_nth_length.
Qed.

(* one method call: no exception, the bookkeeping sizes stay, the appended raw items denote item_of *)
Lemma bstep_appends n s f fi x : wf_instr n x -> b_n M s = n -> length (b_phi M s) = n ->
  exists s' new, bstep s (op_of f fi x) = Ok (s', None) /\ b_n M s' = n /\ length (b_phi M s') = n /\
    b_layout_arg M s' = b_layout_arg M s /\
    b_items M s' = b_items M s ++ new /\ den_items new = item_of f fi (compile f fi x) /\
    Forall (wf_in R n) (map (Builders.norm_item M) new).
Proof.
  intros W Hn Hl. destruct x as [q th|q|q|c t|c t]; cbn [wf_instr] in W; cbn [op_of Builders.bstep].
  - (* rz *)
    unfold rz_phases. destruct (lget_nat (b_phi M s) q ltac:(lia)) as [p0 E0]. rewrite E0. cbn [rbind].
    rewrite lset_nat by lia. cbn [rbind].
    eexists; exists []. split; [reflexivity|]. cbn [b_n b_phi b_items b_layout_arg]. rewrite set_nth_length, app_nil_r.
    repeat split; auto. constructor.
  - destruct (lget_nat (b_phi M s) q ltac:(lia)) as [p0 E0]. rewrite E0. cbn [rbind NoiseFreeRun.compile token b_apply].
    eexists; eexists. split; [reflexivity|]. cbn [b_n b_phi b_items b_layout_arg]. repeat split; eauto.
    + cbn. now rewrite Nat2Z.id.
    + cbn. constructor; [|constructor]. cbn. lia.
  - destruct (lget_nat (b_phi M s) q ltac:(lia)) as [p0 E0]. rewrite E0. cbn [rbind NoiseFreeRun.compile token b_apply].
    eexists; eexists. split; [reflexivity|]. cbn [b_n b_phi b_items b_layout_arg]. repeat split; eauto.
    + cbn. now rewrite Nat2Z.id.
    + cbn. constructor; [|constructor]. cbn. lia.
  - destruct W as (Hc & Ht & Hne). unfold b_two, read2.
    destruct (lget_nat (b_phi M s) c ltac:(lia)) as [pc Ec]. destruct (lget_nat (b_phi M s) t ltac:(lia)) as [pt Et].
    rewrite Ec, Et. cbn [rbind].
    destruct (cnot_phases_len (b_phi M s) c t n Hl Hc Ht) as (phi' & Ep & Lp). rewrite Ep. cbn [rbind].
    rewrite ltb_nat. cbn [NoiseFreeRun.compile]. unfold NoiseFreeRun.compile2.
    destruct (Nat.ltb_spec c t) as [L|L]; cbn [token b_apply].
    + destruct (Z.eqb_spec (Z.of_nat t) (-1)); [lia|].
      eexists; eexists. split; [reflexivity|]. cbn [b_n b_phi b_items b_layout_arg]. repeat split; eauto.
      * cbn. destruct (Z.eqb_spec (Z.of_nat t) (-1)); [lia|]. cbn. now rewrite !Nat2Z.id.
      * cbn. destruct (Z.eqb_spec (Z.of_nat t) (-1)); [lia|]. constructor; [|constructor]. cbn. lia.
    + destruct (Z.eqb_spec (Z.of_nat c) (-1)); [lia|].
      eexists; eexists. split; [reflexivity|]. cbn [b_n b_phi b_items b_layout_arg]. repeat split; eauto.
      * cbn. destruct (Z.eqb_spec (Z.of_nat c) (-1)); [lia|]. cbn. now rewrite !Nat2Z.id.
      * cbn. destruct (Z.eqb_spec (Z.of_nat c) (-1)); [lia|]. constructor; [|constructor]. cbn. lia.
  - destruct W as (Hc & Ht & Hne). unfold b_two, read2.
    destruct (lget_nat (b_phi M s) c ltac:(lia)) as [pc Ec]. destruct (lget_nat (b_phi M s) t ltac:(lia)) as [pt Et].
    rewrite Ec, Et. cbn [rbind].
    rewrite ltb_nat. cbn [NoiseFreeRun.compile]. unfold NoiseFreeRun.compile2.
    destruct (Nat.ltb_spec c t) as [L|L]; cbn [token b_apply].
    + destruct (Z.eqb_spec (Z.of_nat t) (-1)); [lia|].
      eexists; eexists. split; [reflexivity|]. cbn [b_n b_phi b_items b_layout_arg]. repeat split; eauto.
      * cbn. destruct (Z.eqb_spec (Z.of_nat t) (-1)); [lia|]. cbn. now rewrite !Nat2Z.id.
      * cbn. destruct (Z.eqb_spec (Z.of_nat t) (-1)); [lia|]. constructor; [|constructor]. cbn. lia.
    + destruct (Z.eqb_spec (Z.of_nat c) (-1)); [lia|].
      eexists; eexists. split; [reflexivity|]. cbn [b_n b_phi b_items b_layout_arg]. repeat split; eauto.
      * cbn. destruct (Z.eqb_spec (Z.of_nat c) (-1)); [lia|]. cbn. now rewrite !Nat2Z.id.
      * cbn. destruct (Z.eqb_spec (Z.of_nat c) (-1)); [lia|]. constructor; [|constructor]. cbn. lia.
Qed.

Lemma den_items_app a b : den_items (a ++ b) = den_items a ++ den_items b.
Proof. unfold den_items. now rewrite !map_app. Qed.

Lemma bexec_appends n : forall p ff s, Forall (wf_instr n) p -> b_n M s = n -> length (b_phi M s) = n ->
  exists s' new, bexec s (ops_from ff p) = Ok (s', []) /\ b_n M s' = n /\ b_layout_arg M s' = b_layout_arg M s /\
    b_items M s' = b_items M s ++ new /\ den_items new = run_items_from ff p /\
    Forall (wf_in R n) (map (Builders.norm_item M) new).
Proof.
  induction p as [|x r IH]; intros ff s W Hn Hl.
  - exists s, []. cbn. rewrite app_nil_r. repeat split; auto.
  - destruct (bstep_appends n s (fst ff) (snd ff) x (Forall_inv W) Hn Hl) as (s1 & new1 & E1 & Hn1 & Hl1 & La1 & I1 & D1 & W1).
    destruct (IH (fstep ff x) s1 (Forall_inv_tail W) Hn1 Hl1) as (s2 & new2 & E2 & Hn2 & La2 & I2 & D2 & W2).
    exists s2, (new1 ++ new2). cbn [ops_from]. unfold Builders.bexec in *. cbn [exec]. rewrite E1. cbn [rbind fst snd].
    rewrite E2. cbn [rbind fst snd]. repeat split; auto.
    + congruence.
    + rewrite I2, I1. now rewrite app_assoc.
    + rewrite den_items_app, D1, D2. reflexivity.
    + rewrite map_app. apply Forall_app. now split.
Qed.

(* a fresh BinaryCircuit(n, layout): the method calls of a well-formed program never raise; the content handed to the
   backend denotes run_items p and is well-formed input for BinaryBackend *)
Theorem builder_appends_run_items n layout p : Forall (wf_instr n) p ->
  exists s', bexec (b_init M n layout) (ops p) = Ok (s', []) /\
    map den (b_content M s') = run_items p /\ Forall (wf_in R n) (b_content M s').
Proof.
  intros W. destruct (bexec_appends n p (ff_one R rI) (b_init M n layout) W eq_refl (repeat_length _ n))
    as (s' & new & E & _ & _ & I & D & Wf).
  exists s'. split; [exact E|]. unfold b_content. rewrite I. cbn [b_init b_items app]. split; [exact D | exact Wf].
Qed.

(* composed with C02's backend theorem: the index backend, run on what the builder holds, returns the item semantics *)
Theorem builder_backend_run n layout p psi : Forall (wf_instr n) p -> run_items p <> [] ->
  exists s' out, bexec (b_init M n layout) (ops p) = Ok (s', []) /\
    bin_statevector R rO radd rmul M (mmul R radd rmul) (mkron R rmul) (mid2 R rO rI) (mid4 R rO rI) (entry_mat R rO)
      n (b_content M s') psi = Ok out /\
    state_eq R n out (sem R radd rmul (run_items p) psi).
Proof.
  intros W NE. destruct (builder_appends_run_items n layout p W) as (s' & E & D & Wf).
  assert (NE' : b_content M s' <> []) by (intros Z; rewrite Z in D; cbn in D; congruence).
  destruct (bin_spec R rO rI radd rmul rsub ropp Rth n (b_content M s') psi NE' Wf) as (out & Eo & So).
  exists s', out. rewrite D in So. auto.
Qed.

(* ---- layered classes: the method calls the simulator issues (one call per qubit k = 0..n-1: the gate on its qubit,
        I(k) elsewhere, nothing for the target of a two-qubit gate; rz: only Rz) and how a stored layer is read ---- *)
Definition layered_op_of (n : nat) (f fi : frame) (x : instr) : list (op M) :=
  let tk := token f fi (compile f fi x) in
  match x with
  | NRz q th => [ORz M (Z.of_nat q) (ph th)]
  | NX q | NSX q => map (fun k => if k =? q then OX M tk (Z.of_nat k) else OI M (Z.of_nat k)) (seq 0 n)
  | NCX c t => flat_map (fun k => if k =? c then [OCNOT M tk (Z.of_nat c) (Z.of_nat t)] else if k =? t then [] else [OI M (Z.of_nat k)]) (seq 0 n)
  | NECR c t => flat_map (fun k => if k =? c then [OECR M tk (Z.of_nat c) (Z.of_nat t)] else if k =? t then [] else [OI M (Z.of_nat k)]) (seq 0 n)
  end.
Fixpoint layered_ops_from (n : nat) (ff : frame * frame) (p : list instr) : list (op M) :=
  match p with [] => [] | x :: r => layered_op_of n (fst ff) (snd ff) x ++ layered_ops_from n (fstep ff x) r end.
Definition layered_ops (n : nat) (p : list instr) : list (op M) := layered_ops_from n (ff_one R rI) p.
Definition ent_den (e : Builders.entry M) : Backends.entry R :=
  match e with
  | Builders.En2 (M2 _ a) => Backends.En2 a
  | Builders.En4 (M4 _ g) => Backends.En4 g
  | _ => Backends.EnOne
  end.

(* ---- the builder's symbolic virtual phases and the frame move together ----
   E reads a symbolic phase a + b*pi/2 as a ring element (over C: exp(i * phase)); it only has to be multiplicative and
   to send quarter turns to powers of i and the recorded rz angle to the rz factor.  Then the frame at which every token
   above is framed IS the exponential of the phase list the builder holds at that moment — the phases the method
   passes to the gate set (the hand-off records: phi[i], phi[k]). *)
Section Track.
Add Ring RrT : Rth.
Variable E : Z * Z -> R.
Hypothesis E_add : forall p q, E (padd p q) = rmul (E p) (E q).
Hypothesis E_qm1 : E (quarter (-1)) = ropp (k_i K).
Hypothesis E_q1 : E (quarter 1) = k_i K.
Hypothesis E_q2 : E (quarter 2) = ropp rI.
Hypothesis E_ph : forall th, E (ph th) = k_e K th.
Notation iq := (iq R rI ropp A K).

Definition tracks (n : nat) (f : frame) (phi : list (Z * Z)) : Prop := forall q, q < n -> f q = E (nth q phi p0).

Lemma lget_nth {T} (l : list T) q d : q < length l -> lget l (Z.of_nat q) = Ok (nth q l d).
Proof.
  intros H. unfold lget. rewrite pyidx_nat by assumption. cbn [rbind]. now rewrite (nth_error_nth' l d H).
Qed.
Lemma nth_set_nth {T} : forall (l : list T) k q x d, q < length l -> nth k (set_nth q x l) d = if k =? q then x else nth k l d.
Proof.
  induction l as [|y l IH]; intros k q x d H; cbn in H; [lia|].
  destruct q as [|q], k as [|k]; cbn; auto. apply IH. lia.
Qed.

Lemma bstep_tracks n s f fi x s' : wf_instr n x -> b_n M s = n -> length (b_phi M s) = n -> tracks n f (b_phi M s) ->
  bstep s (op_of f fi x) = Ok (s', None) -> tracks n (fst (fstep (f, fi) x)) (b_phi M s').
Proof.
  intros W Hn Hl T. destruct x as [q th|q|q|c t|c t]; cbn [wf_instr] in W; cbn [op_of Builders.bstep].
  - unfold rz_phases. rewrite (lget_nth _ q p0) by lia. cbn [rbind]. rewrite lset_nat by lia. cbn [rbind].
    intros H. injection H as <-. cbn [b_phi NoiseFreeRun.fstep NoiseFreeRun.compile fst]. intros k Hk.
    rewrite nth_set_nth by lia. unfold fupd. destruct (k =? q) eqn:Ek; [|now apply T].
    rewrite E_add, E_ph, <- T by lia. reflexivity.
  - rewrite (lget_nth _ q p0) by lia. cbn [rbind NoiseFreeRun.compile token b_apply].
    intros H. injection H as <-. exact T.
  - rewrite (lget_nth _ q p0) by lia. cbn [rbind NoiseFreeRun.compile token b_apply].
    intros H. injection H as <-. exact T.
  - destruct W as (Hc & Ht & Hne). unfold b_two, read2, cnot_phases.
    rewrite (lget_nth _ c p0), (lget_nth _ t p0) by lia. cbn [rbind].
    rewrite ltb_nat. cbn [NoiseFreeRun.fstep NoiseFreeRun.compile]. unfold NoiseFreeRun.compile2.
    destruct (Nat.ltb_spec c t) as [L|L]; cbn [choose2 c_shift_c c_shift_t c_ctl_slot c_gph fst].
    + rewrite lset_nat by lia. cbn [rbind token b_apply]. destruct (Z.eqb_spec (Z.of_nat t) (-1)); [lia|].
      intros H. injection H as <-. cbn [b_phi]. intros k Hk. rewrite nth_set_nth by lia. unfold fupd.
      destruct (Nat.eqb_spec k t) as [->|Nt].
      * destruct (Nat.eqb_spec t c); [lia|]. rewrite <- T by lia. change (iq 0) with rI. ring.
      * destruct (Nat.eqb_spec k c) as [->|Nc]; [|now apply T].
        rewrite E_add, E_qm1, <- T by lia. reflexivity.
    + rewrite lset_nat by lia. cbn [rbind]. rewrite (lget_nth _ t p0) by (rewrite set_nth_length; lia). cbn [rbind].
      rewrite lset_nat by (rewrite set_nth_length; lia). cbn [rbind token b_apply].
      destruct (Z.eqb_spec (Z.of_nat c) (-1)); [lia|].
      intros H. injection H as <-. cbn [b_phi]. intros k Hk.
      rewrite !nth_set_nth by (rewrite ?set_nth_length; lia). unfold fupd.
      destruct (Nat.eqb_spec t c); [lia|].
      destruct (Nat.eqb_spec k c) as [->|Nc].
      * destruct (Nat.eqb_spec c t); [lia|]. rewrite !E_add, E_q1, E_q2, <- T by lia. change (iq 3) with (ropp (k_i K)). ring.
      * destruct (Nat.eqb_spec k t) as [->|Nt]; [|now apply T].
        rewrite E_add, E_q1, <- T by lia. reflexivity.
  - destruct W as (Hc & Ht & Hne). unfold b_two, read2.
    rewrite (lget_nth _ c p0), (lget_nth _ t p0) by lia. cbn [rbind].
    rewrite ltb_nat. cbn [NoiseFreeRun.fstep NoiseFreeRun.compile]. unfold NoiseFreeRun.compile2.
    destruct (Nat.ltb_spec c t) as [L|L]; cbn [choose2 c_shift_c c_shift_t c_ctl_slot c_gph fst token b_apply].
    + destruct (Z.eqb_spec (Z.of_nat t) (-1)); [lia|].
      intros H. injection H as <-. cbn [b_phi]. intros k Hk. unfold fupd.
      destruct (Nat.eqb_spec k t) as [->|Nt]; [rewrite <- T by lia; change (iq 0) with rI; ring|].
      destruct (Nat.eqb_spec k c) as [->|Nc]; [rewrite <- T by lia; change (iq 0) with rI; ring | now apply T].
    + destruct (Z.eqb_spec (Z.of_nat c) (-1)); [lia|].
      intros H. injection H as <-. cbn [b_phi]. intros k Hk. unfold fupd.
      destruct (Nat.eqb_spec k c) as [->|Nc]; [rewrite <- T by lia; change (iq 0) with rI; ring|].
      destruct (Nat.eqb_spec k t) as [->|Nt]; [rewrite <- T by lia; change (iq 0) with rI; ring | now apply T].
Qed.

Hypothesis E_0 : E p0 = rI.
Lemma bexec_tracks n : forall p ff s s', Forall (wf_instr n) p -> b_n M s = n -> length (b_phi M s) = n ->
  tracks n (fst ff) (b_phi M s) -> bexec s (ops_from ff p) = Ok (s', []) ->
  tracks n (fst (fold_left fstep p ff)) (b_phi M s').
Proof.
  induction p as [|x r IH]; intros ff s s' W Hn Hl T Ex.
  - cbn in Ex. injection Ex as <-. exact T.
  - destruct (bstep_appends n s (fst ff) (snd ff) x (Forall_inv W) Hn Hl) as (s1 & new1 & E1 & Hn1 & Hl1 & _).
    cbn [ops_from] in Ex. unfold Builders.bexec in Ex. cbn [exec] in Ex. rewrite E1 in Ex. cbn [rbind fst snd] in Ex.
    match type of Ex with rbind ?e _ = _ => destruct e as [[s2 outs]|e'] eqn:E2; [|discriminate] end.
    cbn [rbind fst snd] in Ex. injection Ex as <- ->.
    cbn [fold_left]. apply (IH (fstep ff x) s1 s2 (Forall_inv_tail W) Hn1 Hl1); [|exact E2].
    pose proof (bstep_tracks n s (fst ff) (snd ff) x s1 (Forall_inv W) Hn Hl T E1) as T1.
    now rewrite <- surjective_pairing in T1.
Qed.
(* a fresh circuit: all phases zero, frame of ones; after any well-formed program the frame is E of the builder's phases *)
Theorem builder_phases_track n layout p s' : Forall (wf_instr n) p ->
  bexec (b_init M n layout) (ops p) = Ok (s', []) ->
  tracks n (fst (fold_left fstep p (ff_one R rI))) (b_phi M s').
Proof.
  intros W Ex. apply (bexec_tracks n p (ff_one R rI) (b_init M n layout) s' W eq_refl (repeat_length _ n)); [|exact Ex].
  intros q Hq. cbn [ff_one fst b_init b_phi]. rewrite nth_repeat. unfold f_one. now rewrite E_0.
Qed.
End Track.

End BL.
