(* C03 — the builder state machine of the index class (Model/Builders.v: bstep, C11) fed the METHOD CALLS of the simulator's loop
   (Model/SimLoop.v), relaxation and bitflip included: the calls never raise, the content handed to the backend denotes
   call_items (identity matrices for relaxation / bitflip on their qubit, framed matrices otherwise), and BinaryBackend.statevector
   (C02_bin_spec) returns its semantics.  Extends Proofs/NoiseFreeRunBuilder.v (which covers X / SX / CNOT / ECR / Rz) by the two
   idle calls; the token of an idle call is the exact identity the noise-free gate set returns. *)
From Coq Require Import List Bool Arith ZArith NArith Lia Ring.
Require Import QG.Base.Res QG.Base.State QG.Model.Backends QG.Model.Optimizer QG.Model.Sparse.
Require Import QG.Proofs.OptimizerSem QG.Proofs.SparseApply QG.Proofs.SparseMain.
Require Import QG.Model.Builders.
Require Import QG.Proofs.FrameSim QG.Model.NoiseFreeRun QG.Proofs.NoiseFreeRun QG.Proofs.NoiseFreeRunBuilder.
Require Import QG.Model.SimRun QG.Model.SimLoop QG.Proofs.SimRunKeys QG.Proofs.SimLoop.
Import ListNotations.

Section CB.
Variable R : Type.
Variables (rO rI : R) (radd rmul rsub : R -> R -> R) (ropp : R -> R).
Variable Rth : ring_theory rO rI radd rmul rsub ropp eq.
Variables A D : Type.
Variable K : consts R A.
Variable ph : A -> Z * Z.
Notation frame := (frame R).
Notation M := (mat R).
Notation idM := (mid2 R rO rI).
Notation fstep := (fstep R rO rI radd rmul ropp A K).
Notation call := (call A D).
Notation call_items_from := (call_items_from R rO rI radd rmul ropp A D K).
Notation call_items := (call_items R rO rI radd rmul ropp A D K).
Notation op_of := (op_of R rO rI radd rmul ropp A K ph).
Notation den_items := (den_items R rO rI).
Notation bstep := (bstep M idM). Notation bexec := (bexec M idM).

(* the method calls as builder operations: relaxation / bitflip = apply(identity token, q) *)
Definition idle_op (q : nat) : op M := OApply M K2 (M2 R (id2 R rO rI)) (Z.of_nat q).
Fixpoint call_ops_from (ff : frame * frame) (cs : list call) : list (op M) :=
  match cs with
  | [] => []
  | c :: r =>
      match idle_qubit A D c with
      | Some q => idle_op q :: call_ops_from ff r
      | None =>
          match nf_of_call A D c with
          | x :: _ => op_of (fst ff) (snd ff) x :: call_ops_from (fstep ff x) r
          | [] => call_ops_from ff r
          end
      end
  end.
Definition call_ops (cs : list call) : list (op M) := call_ops_from (ff_one R rI) cs.

Definition call_wf (n : nat) (c : call) : Prop :=
  match c with
  | CRz v _ | C1 _ v _ | CRelax v _ _ | CBitflip v _ => v < n
  | C2 _ cv tv _ _ => cv < n /\ tv < n /\ cv <> tv
  end.
Lemma call_on_call_wf used c : call_on A D used c -> call_wf (length used) c.
Proof.
  destruct c as [v th|k v q|k cv tv c t|v d q|k q]; cbn [call_on call_wf]; intros H; auto.
  - eapply index_lt; eauto.
  - destruct H as (Hc & Ht & Hne). repeat split; try (eapply index_lt; eauto).
    intros ->. apply Hne. eapply index_of_inj; eauto.
  - eapply index_lt; eauto.
  - apply nth_error_Some. congruence.
Qed.

Lemma idle_step n s q : q < n -> b_n M s = n ->
  exists s', bstep s (idle_op q) = Ok (s', None) /\ b_n M s' = n /\ b_phi M s' = b_phi M s /\
    b_layout_arg M s' = b_layout_arg M s /\
    b_items M s' = b_items M s ++ [(M2 R (id2 R rO rI), [Z.of_nat q; (-1)%Z])].
Proof.
  intros Hq Hn. unfold idle_op. cbn [Builders.bstep b_apply rbind].
  eexists. split; [reflexivity|]. cbn [b_n b_phi b_layout_arg b_items]. auto.
Qed.

Lemma calls_appends n : forall cs ff s, Forall (call_wf n) cs -> b_n M s = n -> length (b_phi M s) = n ->
  exists s' new, bexec s (call_ops_from ff cs) = Ok (s', []) /\ b_n M s' = n /\ b_layout_arg M s' = b_layout_arg M s /\
    b_items M s' = b_items M s ++ new /\ den_items new = call_items_from ff cs /\
    Forall (wf_in R n) (map (Builders.norm_item M) new).
Proof.
  induction cs as [|c r IH]; intros ff s W Hn Hl.
  - exists s, []. cbn. rewrite app_nil_r. repeat split; auto.
  - pose proof (Forall_inv W) as Wc. pose proof (Forall_inv_tail W) as Wr.
    assert (Hop : forall x, nf_of_call A D c = [x] -> idle_qubit A D c = None -> NoiseFreeRun.wf_instr n x ->
              exists s' new, bexec s (call_ops_from ff (c :: r)) = Ok (s', []) /\ b_n M s' = n /\ b_layout_arg M s' = b_layout_arg M s /\
                b_items M s' = b_items M s ++ new /\ den_items new = call_items_from ff (c :: r) /\
                Forall (wf_in R n) (map (Builders.norm_item M) new)).
    { intros x Ex Ei Wx.
      destruct (bstep_appends R rO rI radd rmul ropp A K ph n s (fst ff) (snd ff) x Wx Hn Hl)
        as (s1 & new1 & E1 & Hn1 & Hl1 & La1 & I1 & D1 & W1).
      destruct (IH (fstep ff x) s1 Wr Hn1 Hl1) as (s2 & new2 & E2 & Hn2 & La2 & I2 & D2 & W2).
      exists s2, (new1 ++ new2). cbn [call_ops_from SimLoop.call_items_from]. rewrite Ei, Ex.
      unfold Builders.bexec in *. cbn [exec]. rewrite E1. cbn [rbind fst snd]. rewrite E2. cbn [rbind fst snd].
      repeat split; auto.
      - congruence.
      - rewrite I2, I1. now rewrite app_assoc.
      - unfold NoiseFreeRunBuilder.den_items in *. rewrite !map_app, D1, D2.
        cbn [NoiseFreeRun.run_items_from fold_left]. now rewrite app_nil_r.
      - rewrite map_app. apply Forall_app. now split. }
    assert (Hidle : forall q, idle_qubit A D c = Some q -> q < n ->
              exists s' new, bexec s (call_ops_from ff (c :: r)) = Ok (s', []) /\ b_n M s' = n /\ b_layout_arg M s' = b_layout_arg M s /\
                b_items M s' = b_items M s ++ new /\ den_items new = call_items_from ff (c :: r) /\
                Forall (wf_in R n) (map (Builders.norm_item M) new)).
    { intros q Ei Hq.
      destruct (idle_step n s q Hq Hn) as (s1 & E1 & Hn1 & Hp1 & La1 & I1).
      destruct (IH ff s1 Wr Hn1 ltac:(congruence)) as (s2 & new2 & E2 & Hn2 & La2 & I2 & D2 & W2).
      exists s2, ((M2 R (id2 R rO rI), [Z.of_nat q; (-1)%Z]) :: new2). cbn [call_ops_from SimLoop.call_items_from]. rewrite Ei.
      unfold Builders.bexec in *. cbn [exec]. rewrite E1. cbn [rbind fst snd]. rewrite E2. cbn [rbind fst snd].
      repeat split; auto.
      - congruence.
      - rewrite I2, I1, <- app_assoc. reflexivity.
      - unfold NoiseFreeRunBuilder.den_items in *. cbn [map]. rewrite D2. cbn. now rewrite Nat2Z.id.
      - cbn [map]. constructor; [|exact W2]. cbn. lia. }
    destruct c as [v th|k v q|k cv tv c t|v d q|k q]; cbn [call_wf] in Wc.
    + apply (Hop (NRz v th)); auto.
    + destruct k; [apply (Hop (NX v)) | apply (Hop (NSX v))]; auto.
    + destruct k; [apply (Hop (NCX cv tv)) | apply (Hop (NECR cv tv))]; auto.
    + apply (Hidle v); auto.
    + apply (Hidle k); auto.
Qed.

(* a fresh BinaryCircuit(n, layout) fed the calls of the loop: no exception; the content denotes call_items and is well-formed
   input for BinaryBackend; when it is not empty the backend returns its semantics on psi *)
Theorem calls_builder_backend n layout (cs : list call) psi : Forall (call_wf n) cs ->
  exists s', bexec (b_init M n layout) (call_ops cs) = Ok (s', []) /\
    map (den R rO rI) (b_content M s') = call_items cs /\ Forall (wf_in R n) (b_content M s') /\
    (call_items cs <> [] ->
     exists out, bin_statevector R rO radd rmul M (mmul R radd rmul) (mkron R rmul) (mid2 R rO rI) (mid4 R rO rI) (entry_mat R rO)
                   n (b_content M s') psi = Ok out /\
       state_eq R n out (sem R radd rmul (call_items cs) psi)).
Proof.
  intros W. destruct (calls_appends n cs (ff_one R rI) (b_init M n layout) W eq_refl (repeat_length _ n))
    as (s' & new & E & _ & _ & I & Dn & Wf).
  exists s'. split; [exact E|]. unfold b_content. rewrite I. cbn [b_init b_items app].
  split; [exact Dn|]. split; [exact Wf|]. intros NE.
  assert (NE' : map (Builders.norm_item M) new <> []).
  { intros Z. unfold NoiseFreeRunBuilder.den_items in Dn. rewrite Z in Dn. cbn in Dn. unfold SimLoop.call_items in NE. congruence. }
  destruct (bin_spec R rO rI radd rmul rsub ropp Rth n _ psi NE' Wf) as (out & Eo & So).
  exists out. split; [exact Eo|]. unfold NoiseFreeRunBuilder.den_items in Dn. rewrite Dn in So. exact So.
Qed.
End CB.
