(* Lemmas about the array / file primitives of Model/DevParams.v: chunks, savetxt -> loadtxt, tolist -> np.array. *)
From Coq Require Import List Bool Arith Lia.
Require Import QG.Base.Res QG.Model.DevParams.
Import ListNotations.

Section A.
Variable V : Type.
Notation arr := (arr V).
Notation chunks := (chunks V).

Lemma chunks_length : forall c r l, length (chunks c r l) = r.
Proof. induction r; intros; cbn; [reflexivity | rewrite IHr; reflexivity]. Qed.

Lemma chunks_concat : forall c r l, length l = r * c -> concat (chunks c r l) = l.
Proof.
  induction r; intros l H; cbn in *.
  - destruct l; [reflexivity | discriminate].
  - rewrite IHr. apply firstn_skipn. rewrite skipn_length. lia.
Qed.

Lemma chunks_rows : forall c r l, length l = r * c -> Forall (fun row => length row = c) (chunks c r l).
Proof.
  induction r; intros l H; cbn in *; constructor.
  - rewrite firstn_length. lia.
  - apply IHr. rewrite skipn_length. lia.
Qed.

Lemma filter_all {A} (f : A -> bool) (l : list A) : Forall (fun x => f x = true) l -> filter f l = l.
Proof. induction 1; cbn; [reflexivity | rewrite H, IHForall; reflexivity]. Qed.

Lemma forallb_Forall {A} (f : A -> bool) (l : list A) : Forall (fun x => f x = true) l -> forallb f l = true.
Proof. induction 1; cbn; [reflexivity | rewrite H, IHForall; reflexivity]. Qed.

(* reading back what savetxt wrote for an r x c block (r, c >= 1): the same values, shape squeezed unless ndmin=2 *)
Lemma loadtxt_chunks : forall nd c r l, 1 <= c -> 1 <= r -> length l = r * c ->
  loadtxt V nd (chunks c r l) = Done (mkArr (if nd then [r; c] else squeeze [r; c]) l).
Proof.
  intros nd c r l Hc Hr Hl. unfold loadtxt.
  pose proof (chunks_rows c r l Hl) as Hrows.
  rewrite filter_all.
  2:{ eapply Forall_impl; [|exact Hrows]. intros row Hrow. destruct row; cbn in *; [lia | reflexivity]. }
  pose proof (chunks_length c r l) as Hlen.
  destruct (chunks c r l) as [|r0 rest] eqn:E; [cbn in Hlen; lia|].
  assert (Hr0 : length r0 = c) by (inversion Hrows; assumption).
  rewrite Hr0. rewrite forallb_Forall.
  2:{ eapply Forall_impl; [|exact Hrows]. intros row Hrow. cbn. rewrite Hrow. apply Nat.eqb_refl. }
  rewrite Hlen. rewrite <- E. rewrite chunks_concat by exact Hl. reflexivity.
Qed.

(* ------------------------------------------------------------- JSON nesting *)
Lemma concat_opt_map_some : forall (l : list (list V)), concat_opt V (map Some l) = Some (concat l).
Proof. induction l; cbn; [reflexivity | rewrite IHl; reflexivity]. Qed.

Lemma prod_dims_cons : forall n s, prod_dims (n :: s) = n * prod_dims s.
Proof. reflexivity. Qed.

Lemma conform_tolist : forall s d, length d = prod_dims s -> conform V (tolist_sd V s d) s = Some d.
Proof.
  induction s as [|n s IH]; intros d H.
  - cbn in *. destruct d as [|v [|w d']]; cbn in *; try discriminate. reflexivity.
  - rewrite prod_dims_cons in H. cbn [tolist_sd conform].
    rewrite map_length, chunks_length, Nat.eqb_refl. rewrite map_map.
    pose proof (chunks_rows (prod_dims s) n d H) as Hrows.
    rewrite (map_ext_in _ Some).
    + rewrite concat_opt_map_some, chunks_concat by exact H. reflexivity.
    + intros row Hin. rewrite Forall_forall in Hrows. apply IH. apply Hrows. exact Hin.
Qed.

Lemma shape_of_tolist : forall s d, Forall (fun n => 1 <= n) s -> length d = prod_dims s ->
  shape_of V (tolist_sd V s d) = s.
Proof.
  induction s as [|n s IH]; intros d Hpos H.
  - cbn in *. destruct d as [|v d']; cbn in *; [discriminate | reflexivity].
  - rewrite prod_dims_cons in H. cbn [tolist_sd shape_of].
    rewrite map_length, chunks_length. f_equal.
    inversion Hpos as [|? ? Hn Hs]; subst.
    destruct n as [|n']; [lia|]. cbn [chunks map].
    apply IH; [exact Hs|]. rewrite firstn_length. nia.
Qed.

(* np.array(a.tolist()) = a for every array with positive dimensions *)
Lemma np_array_tolist : forall a : arr, Forall (fun n => 1 <= n) (shape a) -> length (data a) = prod_dims (shape a) ->
  np_array V (tolist V a) = Done a.
Proof.
  intros [s d] Hpos H. cbn in *. unfold np_array, tolist. cbn [shape data].
  rewrite shape_of_tolist by assumption. rewrite conform_tolist by assumption. reflexivity.
Qed.

End A.
