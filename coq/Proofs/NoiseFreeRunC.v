(* C03 — the ring-generic run theorems instantiated at Coquelicot's complex numbers with the constants the reflection
   statements talk about: i, 1/sqrt 2, e^{-i pi/4}, e^{-3 i pi/4}, rz(theta): frame factor e^{i theta}, ideal gate
   diag(e^{-i theta/2}, e^{i theta/2}); conjugation = Cconj.  All hypotheses of the generic theorems are discharged
   (this is also their non-vacuity), and the Born statement is restated with the modulus: |amplitude|^2. *)
From Coq Require Import Reals Lra Ring List Bool.
From Coquelicot Require Import Complex.
Require Import QG.Base.State QG.Proofs.FrameSim QG.Model.NoiseFreeRun QG.Proofs.NoiseFreeRun QG.Proofs.NoiseFreeRunLayered QG.Proofs.BackendsSpec.
Local Open Scope R_scope.

Definition C_ring : ring_theory (RtoC 0) (RtoC 1) Cplus Cmult Cminus Copp eq := F_R C_field_theory.

Definition cisR (t : R) : C := (cos t, sin t).
Lemma cisR_add s t : Cmult (cisR s) (cisR t) = cisR (s + t).
Proof. unfold cisR, Cmult. simpl. rewrite cos_plus, sin_plus. f_equal; ring. Qed.
Lemma cisR_0 : cisR 0 = RtoC 1.
Proof. unfold cisR, RtoC. now rewrite cos_0, sin_0. Qed.
Lemma cisR_unit t : Cmult (cisR t) (cisR (- t)) = RtoC 1.
Proof. rewrite cisR_add. replace (t + - t) with 0 by ring. apply cisR_0. Qed.
Lemma cisR_conj t : Cconj (cisR t) = cisR (- t).
Proof. unfold cisR, Cconj. simpl. now rewrite cos_neg, sin_neg. Qed.
Lemma Cconj_mult x y : Cconj (Cmult x y) = Cmult (Cconj x) (Cconj y).
Proof. destruct x, y. unfold Cconj, Cmult. simpl. f_equal; ring. Qed.
Lemma Cconj_opp x : Cconj (Copp x) = Copp (Cconj x).
Proof. destruct x. unfold Cconj, Copp. simpl. f_equal. Qed.
Lemma Cconj_one : Cconj (RtoC 1) = RtoC 1.
Proof. unfold Cconj, RtoC. simpl. f_equal. ring. Qed.

(* angles are real numbers *)
Definition KC : consts C R :=
  {| k_i := Ci; k_h := RtoC (/ sqrt 2);
     k_w1 := cisR (- (PI / 4)); k_w1i := cisR (- - (PI / 4));
     k_w3 := cisR (- (3 * PI / 4)); k_w3i := cisR (- - (3 * PI / 4));
     k_e := fun th => cisR th; k_ei := fun th => cisR (- th);
     k_a := fun th => cisR (- (th / 2)); k_ai := fun th => cisR (- - (th / 2)) |}.

Lemma KC_ok : consts_ok C (RtoC 1) Cmult Copp R KC.
Proof.
  constructor; cbn [KC k_i k_w1 k_w1i k_w3 k_w3i k_e k_ei k_a k_ai]; intros; try apply cisR_unit.
  unfold Ci, Cmult, Copp, RtoC. simpl. f_equal; ring.
Qed.
Lemma KC_conj : conj_ok C (RtoC 1) Cmult Copp R KC Cconj.
Proof.
  constructor; cbn [KC k_i k_w1 k_w1i k_w3 k_w3i k_e k_ei k_a k_ai]; intros; try apply cisR_conj.
  - apply Cconj_mult.
  - apply Cconj_one.
  - apply Cconj_opp.
  - unfold Ci, Cconj, Copp. simpl. f_equal. ring.
Qed.

(* x * conj x = |x|^2 *)
Lemma nrm_Cmod x : Cmult x (Cconj x) = RtoC (Cmod x ^ 2).
Proof.
  destruct x as [a b]. unfold Cmod, Cconj, Cmult, RtoC. cbn [fst snd].
  rewrite pow2_sqrt by nra. f_equal; ring.
Qed.
Lemma nrm_eq_Cmod x y : nrm C Cmult Cconj x = nrm C Cmult Cconj y -> Cmod x ^ 2 = Cmod y ^ 2.
Proof. unfold nrm. rewrite !nrm_Cmod. intros H. now apply RtoC_inj. Qed.

Notation semC := (sem C Cplus Cmult).
Notation run_itemsC := (run_items C (RtoC 0) (RtoC 1) Cplus Cmult Copp R KC).
Notation ideal_itemsC := (ideal_items C (RtoC 0) (RtoC 1) Cplus Cmult Copp R KC).
Notation run_layersC := (run_layers C (RtoC 0) (RtoC 1) Cplus Cmult Copp R KC).

(* index class: every program on indices < n with distinct pairs, every initial state, every basis state *)
Theorem noise_free_born_C n (p : list (instr R)) (psi0 : state C) : Forall (wf_instr n) p ->
  forall b, length b = n -> Cmod (semC (run_itemsC p) psi0 b) ^ 2 = Cmod (semC (ideal_itemsC p) psi0 b) ^ 2.
Proof.
  intros W b Hb. apply nrm_eq_Cmod.
  exact (noise_free_born_index C (RtoC 0) (RtoC 1) Cplus Cmult Cminus Copp C_ring R KC KC_ok Cconj KC_conj n p psi0 W b Hb).
Qed.
(* layered classes: adjacent pairs *)
Theorem noise_free_born_layered_C n (p : list (instr R)) (psi0 : state C) : Forall (wf_instr n) p -> Forall adjacent_instr p ->
  forall b, length b = n ->
  Cmod (layers_sem C Cplus Cmult (run_layersC n p) psi0 b) ^ 2 = Cmod (semC (ideal_itemsC p) psi0 b) ^ 2.
Proof.
  intros W Ad b Hb. apply nrm_eq_Cmod.
  exact (noise_free_born_layered C (RtoC 0) (RtoC 1) Cplus Cmult Cminus Copp C_ring R KC Cconj KC_ok KC_conj n p psi0 W Ad b Hb).
Qed.
