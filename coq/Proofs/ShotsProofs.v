(* Proofs for C09 over Model/Shots.v. *)
From Coq Require Import List NArith ZArith Bool Arith Lia Permutation.
Require Import QG.Base.Res QG.Model.Shots.
Import ListNotations.

(* ------------------------------------------------------------------ chunk size (pure arithmetic) *)
Lemma chunksize_pos shots W : (1 <= shots)%Z -> (2 <= W)%Z -> (1 <= chunksize shots W)%Z /\ (shots <= W * chunksize shots W)%Z.
Proof.
  intros HS HW. unfold chunksize. assert (Hd := Z.div_mod shots W ltac:(lia)). assert (Hm := Z.mod_pos_bound shots W ltac:(lia)).
  assert (Hq : (0 <= shots / W)%Z) by (apply Z.div_pos; lia).
  destruct (0 <? shots mod W)%Z eqn:E; [apply Z.ltb_lt in E | apply Z.ltb_ge in E]; split; try lia; nia.
Qed.
Lemma n_processes_ge2 cpu : (2 <= n_processes cpu)%Z.
Proof. unfold n_processes. lia. Qed.

(* ------------------------------------------------------------------ chunking covers every argument exactly once, in order *)
Lemma chunks_fuel_cover {A} cs : (1 <= cs)%nat -> forall fuel (l : list A), (length l <= fuel)%nat ->
  concat (chunks_fuel fuel cs l) = l /\ Forall (fun c => c <> [] /\ (length c <= cs)%nat) (chunks_fuel fuel cs l).
Proof.
  intros Hcs. induction fuel as [|f IH]; intros l Hl.
  - destruct l; [split; [reflexivity|constructor] | simpl in Hl; lia].
  - destruct l as [|x r]; [split; [reflexivity|constructor]|]. cbn [chunks_fuel].
    assert (Hlen : (length (skipn cs (x :: r)) <= f)%nat). { rewrite skipn_length. cbn [length] in *. lia. }
    destruct (IH _ Hlen) as [Hc Hf]. split.
    + cbn [concat]. rewrite Hc. apply firstn_skipn.
    + constructor; auto. split. { destruct cs; [lia|]. discriminate. } apply firstn_le_length.
Qed.
Theorem chunks_cover {A} cs (l : list A) : (1 <= cs)%nat ->
  concat (chunks cs l) = l /\ Forall (fun c => c <> [] /\ (length c <= cs)%nat) (chunks cs l).
Proof. intros H. apply chunks_fuel_cover; auto. Qed.

Lemma chunks_count_fuel {A} cs : (1 <= cs)%nat -> forall fuel (l : list A) W, (length l <= fuel)%nat -> (length l <= W * cs)%nat ->
  (length (chunks_fuel fuel cs l) <= W)%nat.
Proof.
  intros Hcs. induction fuel as [|f IH]; intros l W Hl HW; [simpl; lia|].
  destruct l as [|x r]; [simpl; lia|]. cbn [chunks_fuel length].
  destruct W as [|W]; [simpl in HW; lia|]. apply le_n_S. apply IH.
  - rewrite skipn_length. cbn [length] in *. lia.
  - rewrite skipn_length. cbn [length] in *. lia.
Qed.

Section Shots.
Variable V : Type.
Variable vzero : V.
Variable vadd : V -> V -> V.
Variable vdiv : V -> V -> V.
Variable vofZ : Z -> V.
Variable sample : Type.
Variable init : list sample -> N -> sample.
Variable shot : prog sample (list V).

Notation vec := (list V) (only parsing).
Notation vadd2 := (vadd2 V vadd).
Notation iadd := (iadd V vadd).
Notation zeros := (zeros V vzero).
Notation rp := (Shots.run_prog sample).
Notation single_shot := (single_shot V sample init shot).
Notation mean := (mean V vdiv vofZ).

(* ------------------------------------------------------------------ vectors *)
Lemma vadd2_length a b : length a = length b -> length (vadd2 a b) = length a.
Proof. revert b. induction a as [|x a IH]; intros [|y b] H; simpl in *; try discriminate; auto. Qed.
Lemma iadd_ok a b : length a = length b -> iadd a b = Ok (vadd2 a b).
Proof. intros H. unfold Shots.iadd. now rewrite H, Nat.eqb_refl. Qed.
Lemma zeros_length len : length (zeros len) = N.to_nat len.
Proof. apply repeat_length. Qed.

(* ------------------------------------------------------------------ reader programs read a finite, contiguous segment *)
Lemma run_prog_mono {A} (p : prog sample A) s pos : (pos <= snd (rp p s pos))%N.
Proof.
  revert pos. induction p as [a|k IH]; intros pos; cbn [Shots.run_prog snd]; [lia|].
  specialize (IH (s pos) (N.succ pos)). lia.
Qed.
(* the outcome depends only on the samples between the start position and the end position *)
Lemma run_prog_local {A} (p : prog sample A) s s' pos :
  (forall q, (pos <= q < snd (rp p s pos))%N -> s' q = s q) -> rp p s' pos = rp p s pos.
Proof.
  revert pos. induction p as [a|k IH]; intros pos H; cbn [Shots.run_prog] in *; [reflexivity|].
  assert (Hm := run_prog_mono (k (s pos)) s (N.succ pos)).
  rewrite (H pos) by lia. apply IH. intros q Hq. apply H. lia.
Qed.

(* ------------------------------------------------------------------ sequential mode *)
(* ghost description of a sequential run: per shot (Born vector, first position, position after the last sample) *)
Fixpoint seq_spec (n : nat) (s : N -> sample) (p : N) : list (list V * N * N) :=
  match n with
  | O => []
  | S k => let (v, p') := rp shot s p in (v, p, p') :: seq_spec k s p'
  end.
Definition seg_start (x : list V * N * N) : N := snd (fst x).
Definition seg_end (x : list V * N * N) : N := snd x.
Definition seg_vec (x : list V * N * N) : list V := fst (fst x).
Fixpoint last_end (l : list (list V * N * N)) (p : N) : N := match l with [] => p | x :: r => last_end r (seg_end x) end.
(* consecutive: every segment starts where the previous one ended *)
Fixpoint chained (l : list (list V * N * N)) (p : N) : Prop :=
  match l with [] => True | x :: r => seg_start x = p /\ (seg_start x <= seg_end x)%N /\ chained r (seg_end x) end.

Variable L : nat.
Hypothesis shot_len : forall s p, length (fst (rp shot s p)) = L.

Lemma seq_spec_chained n s p : chained (seq_spec n s p) p.
Proof.
  revert p. induction n as [|n IH]; intros p; cbn [seq_spec chained]; auto.
  destruct (rp shot s p) as [v p'] eqn:E. cbn [chained seg_start seg_end fst snd]. repeat split; auto.
  assert (H := run_prog_mono shot s p). rewrite E in H. exact H.
Qed.
Lemma seq_spec_local n s p : Forall (fun x => forall s', (forall q, (seg_start x <= q < seg_end x)%N -> s' q = s q) ->
                                               rp shot s' (seg_start x) = (seg_vec x, seg_end x)) (seq_spec n s p).
Proof.
  revert p. induction n as [|n IH]; intros p; cbn [seq_spec]; [constructor|].
  destruct (rp shot s p) as [v p'] eqn:E. constructor; auto.
  cbn [seg_start seg_end seg_vec fst snd]. intros s' H. rewrite <- E. apply run_prog_local. now rewrite E.
Qed.
Lemma seq_spec_length n s p : length (seq_spec n s p) = n.
Proof. revert p. induction n as [|n IH]; intros p; cbn [seq_spec]; auto. destruct (rp shot s p). simpl. now rewrite IH. Qed.

Lemma seq_loop_spec n : forall s p r log, length r = L ->
  seq_loop V vadd sample init shot (repeat None n) (mkgen sample s p) r log =
  Ok (fold_left vadd2 (map seg_vec (seq_spec n s p)) r, mkgen sample s (last_end (seq_spec n s p) p), rev log ++ map seg_vec (seq_spec n s p)).
Proof.
  induction n as [|n IH]; intros s p r log Hr; cbn [repeat seq_loop seq_spec].
  - cbn [map fold_left last_end]. now rewrite app_nil_r.
  - unfold Shots.single_shot. cbn [g_str g_pos]. assert (Hl := shot_len s p).
    destruct (rp shot s p) as [v p'] eqn:E. cbn [fst] in Hl.
    rewrite iadd_ok by congruence. cbn [rbind]. rewrite IH by (rewrite vadd2_length; congruence).
    cbn [map fold_left last_end seg_vec seg_end fst snd rev]. rewrite <- app_assoc. reflexivity.
Qed.

(* seq_mean: the sequential result is the arithmetic mean of the S per-shot vectors; shot i reads the stream segment
   [start_i, end_i); the segments are consecutive (hence pairwise disjoint), begin at the generator's position and
   end at its final position; a shot's vector is a function of the samples in its own segment only. *)
Theorem seq_mean shots len s p : (0 <= shots)%Z -> N.to_nat len = L ->
  let spec := seq_spec (Z.to_nat shots) s p in
  perform_seq V vzero vadd vdiv vofZ sample init shot shots len (mkgen sample s p) =
    Ok (mean shots (fold_left vadd2 (map seg_vec spec) (zeros len)), mkgen sample s (last_end spec p), map seg_vec spec)
  /\ length spec = Z.to_nat shots /\ chained spec p
  /\ Forall (fun x => forall s', (forall q, (seg_start x <= q < seg_end x)%N -> s' q = s q) ->
                                 rp shot s' (seg_start x) = (seg_vec x, seg_end x)) spec.
Proof.
  intros HS Hlen spec. split; [|split; [apply seq_spec_length|split; [apply seq_spec_chained|apply seq_spec_local]]].
  unfold perform_seq. rewrite seq_loop_spec by (rewrite zeros_length; exact Hlen). cbn [rbind rev app]. reflexivity.
Qed.

(* consecutive segments are pairwise disjoint: an earlier one ends before a later one starts *)
Lemma chained_le l p : chained l p -> (p <= last_end l p)%N.
Proof. revert p. induction l as [|x r IH]; intros p H; cbn [chained last_end] in *; [lia|]. destruct H as (H1 & H2 & H3). specialize (IH _ H3). lia. Qed.
Lemma chained_disjoint l p : chained l p -> forall i j, (i < j < length l)%nat ->
  (seg_end (nth i l ([], 0, 0)) <= seg_start (nth j l ([], 0, 0)))%N.
Proof.
  revert p. induction l as [|x r IH]; intros p H i j Hij; [simpl in Hij; lia|].
  cbn [chained] in H. destruct H as (H1 & H2 & H3). destruct j as [|j]; [lia|]. destruct i as [|i]; cbn [nth].
  - clear IH. revert H3. generalize (seg_end x). clear - Hij. revert j Hij. induction r as [|y r IHr]; intros j Hij e H; [simpl in Hij; lia|].
    cbn [chained] in H. destruct H as (H1 & H2 & H3). destruct j as [|j]; cbn [nth]; [lia|].
    specialize (IHr j ltac:(cbn [length] in *; lia) _ H3). lia.
  - apply (IH _ H3). cbn [length] in Hij. lia.
Qed.

(* ------------------------------------------------------------------ the accumulated sum does not depend on the order *)
Hypothesis add_comm : forall x y, vadd x y = vadd y x.
Hypothesis add_assoc : forall x y z, vadd x (vadd y z) = vadd (vadd x y) z.

Lemma vadd2_rcomm a x y : vadd2 (vadd2 a x) y = vadd2 (vadd2 a y) x.
Proof.
  revert x y. induction a as [|u a IH]; intros x y; [reflexivity|].
  destruct x as [|v x], y as [|w y]; cbn [Shots.vadd2]; try reflexivity.
  rewrite IH. f_equal. rewrite <- !add_assoc. f_equal. apply add_comm.
Qed.
Theorem sum_order (l l' : list (list V)) a : Permutation l l' -> fold_left vadd2 l a = fold_left vadd2 l' a.
Proof.
  intros P. revert a. induction P; intros a; cbn [fold_left]; auto.
  - now rewrite vadd2_rcomm.
  - now rewrite IHP1.
Qed.

(* ------------------------------------------------------------------ parallel mode *)
Definition seed_at (s : N -> sample) (p : N) : list sample := [s p; s (p + 1)%N; s (p + 2)%N; s (p + 3)%N].
Definition shot_of_seed (sd : list sample) : list V := fst (rp shot (init sd) 0%N).

Lemma draw_seeds_spec n : forall s p,
  draw_seeds sample n (mkgen sample s p) =
  (map (fun i => seed_at s (p + 4 * N.of_nat i)%N) (seq 0 n), mkgen sample s (p + 4 * N.of_nat n)%N).
Proof.
  induction n as [|n IH]; intros s p; cbn [draw_seeds seq map].
  - f_equal. f_equal. lia.
  - unfold draw_seed. cbn [g_str g_pos]. rewrite IH. f_equal.
    + f_equal. { unfold seed_at. repeat f_equal; lia. }
      rewrite <- seq_shift, map_map. apply map_ext. intros i. f_equal. lia.
    + f_equal. lia.
Qed.

(* a seeded shot ignores the generator of the process that runs it *)
Lemma single_shot_seeded sd g : fst (single_shot (Some sd) g) = shot_of_seed sd.
Proof. unfold Shots.single_shot, shot_of_seed, reseed. cbn [g_str g_pos]. now destruct (rp shot (init sd) 0%N). Qed.
Lemma run_chunk_spec c g : fst (run_chunk V sample init shot c g) = map shot_of_seed c.
Proof.
  revert g. induction c as [|sd r IH]; intros g; cbn [run_chunk map]; [reflexivity|].
  assert (H := single_shot_seeded sd g). destruct (single_shot (Some sd) g) as [v g1]. cbn [fst] in H. subst v.
  specialize (IH g1). destruct (run_chunk V sample init shot r g1) as [vs g2]. cbn [fst] in *. now rewrite IH.
Qed.
Lemma exec_loop_spec order chs assign ws :
  exec_loop V sample init shot order chs assign ws = map (fun c => (c, map shot_of_seed (nth c chs []))) order.
Proof.
  revert ws. induction order as [|c r IH]; intros ws; cbn [exec_loop map]; [reflexivity|].
  assert (H := run_chunk_spec (nth c chs []) (ws (assign c))).
  destruct (run_chunk V sample init shot (nth c chs []) (ws (assign c))) as [vs g']. cbn [fst] in H. subst vs. now rewrite IH.
Qed.
Lemma find_chunk_spec (f : nat -> list (list V)) order c : In c order ->
  find_chunk V c (map (fun c => (c, f c)) order) = f c.
Proof.
  induction order as [|c' r IH]; intros H; [destruct H|]. cbn [map find_chunk].
  destruct (Nat.eqb_spec c c') as [->|Hne]; auto. destruct H as [H|H]; [congruence|auto].
Qed.

Lemma acc_list_spec vs : forall r log, length r = L -> Forall (fun v => length v = L) vs ->
  acc_list V vadd vs r log = Ok (fold_left vadd2 vs r, rev vs ++ log).
Proof.
  induction vs as [|v rest IH]; intros r log Hr F; cbn [acc_list fold_left rev app]; [reflexivity|].
  apply Forall_cons_iff in F as [Hv F]. rewrite iadd_ok by congruence. cbn [rbind].
  rewrite IH by (auto; rewrite vadd2_length; congruence). now rewrite <- app_assoc.
Qed.
Lemma deliver_loop_spec (f : nat -> list (list V)) out deliver :
  (forall c, In c deliver -> find_chunk V c out = f c) -> (forall c, Forall (fun v => length v = L) (f c)) ->
  forall r log, length r = L ->
  deliver_loop V vadd deliver out r log = Ok (fold_left vadd2 (flat_map f deliver) r, rev log ++ flat_map f deliver).
Proof.
  intros Hf Hlen. induction deliver as [|c rest IH]; intros r log Hr; cbn [deliver_loop flat_map fold_left].
  - now rewrite app_nil_r.
  - rewrite Hf by (left; reflexivity). rewrite acc_list_spec by auto. cbn [rbind fst snd].
    rewrite IH.
    + rewrite fold_left_app, rev_app_distr, rev_involutive, <- app_assoc. reflexivity.
    + intros c' Hc'. apply Hf. now right.
    + clear - Hr Hlen shot_len. specialize (Hlen c). revert r Hr. induction (f c) as [|v vs IHv]; intros r Hr; cbn [fold_left]; auto.
      apply Forall_cons_iff in Hlen as [Hv Hl]. apply IHv; auto. rewrite vadd2_length; congruence.
Qed.

Lemma nth_map_lt' {A B} (f : A -> B) l i d d' : (i < length l)%nat -> nth i (map f l) d = f (nth i l d').
Proof. revert i. induction l as [|a l IH]; intros [|i] H; simpl in *; try lia; auto. apply IH. lia. Qed.
Lemma nth_seq_all {A} (l : list (list A)) : map (fun c => nth c l []) (seq 0 (length l)) = l.
Proof.
  apply nth_ext with (d := []) (d' := []). { now rewrite map_length, seq_length. }
  intros i Hi. rewrite map_length, seq_length in Hi.
  rewrite (nth_map_lt' _ _ _ _ O) by (now rewrite seq_length). now rewrite seq_nth.
Qed.
Lemma flat_map_chunks (g : list sample -> list V) (chs : list (list (list sample))) :
  flat_map (fun c => map g (nth c chs [])) (seq 0 (length chs)) = map g (concat chs).
Proof.
  rewrite flat_map_concat_map, <- (map_map (fun c => nth c chs []) (map g)), nth_seq_all.
  rewrite concat_map. reflexivity.
Qed.

(* pool_independent + pool_sum_order.  For every worker assignment, execution order, delivery order (both permutations
   of the chunk indices) and every family of worker generators:
   - the parent draws seed_i from positions p+4i .. p+4i+3 of its own stream, in shot order, and ends at p+4S;
   - the vector delivered for shot i is shot_of_seed seed_i: a function of that seed alone (the right-hand side does not
     mention the schedule or the workers' generators);
   - the delivered vectors are a permutation of the S per-shot vectors: every shot exactly once;
   - the accumulated mean equals the mean in shot order. *)
Theorem pool_run shots len cpu s p sc ws :
  (1 <= shots)%Z -> N.to_nat len = L ->
  let W := n_processes cpu in
  let cs := chunksize shots W in
  let seeds := map (fun i => seed_at s (p + 4 * N.of_nat i)%N) (seq 0 (Z.to_nat shots)) in
  let chs := chunks (Z.to_nat cs) seeds in
  Permutation (sc_exec sc) (seq 0 (length chs)) -> Permutation (sc_deliver sc) (seq 0 (length chs)) ->
  exists log,
    perform_par V vzero vadd vdiv vofZ sample init shot shots len cpu (mkgen sample s p) sc ws =
      Ok (mean shots (fold_left vadd2 (map shot_of_seed seeds) (zeros len)), mkgen sample s (p + 4 * N.of_nat (Z.to_nat shots))%N, log)
    /\ log = flat_map (fun c => map shot_of_seed (nth c chs [])) (sc_deliver sc)
    /\ Permutation log (map shot_of_seed seeds)
    /\ concat chs = seeds /\ (length chs <= Z.to_nat W)%nat.
Proof.
  intros HS Hlen W cs seeds chs Pe Pd.
  destruct (chunksize_pos shots W HS (n_processes_ge2 cpu)) as [Hc1 Hc2]. fold cs in Hc1, Hc2.
  destruct (chunks_cover (Z.to_nat cs) seeds ltac:(lia)) as [Hcov _]. fold chs in Hcov.
  set (f := fun c => map shot_of_seed (nth c chs [])).
  assert (Hflat : flat_map f (seq 0 (length chs)) = map shot_of_seed seeds).
  { unfold f. rewrite flat_map_chunks. now rewrite Hcov. }
  assert (Pf : Permutation (flat_map f (sc_deliver sc)) (map shot_of_seed seeds)).
  { rewrite <- Hflat. now apply Permutation_flat_map. }
  exists (flat_map f (sc_deliver sc)). split; [|split; [reflexivity|split; [exact Pf|split; [exact Hcov|]]]].
  - unfold perform_par. fold W. fold cs. rewrite draw_seeds_spec. fold seeds. fold chs.
    rewrite exec_loop_spec. fold f.
    rewrite (deliver_loop_spec f).
    + cbn [rbind fst snd rev app]. f_equal. f_equal. f_equal. f_equal. apply sum_order. exact Pf.
    + intros c Hc. apply find_chunk_spec. eapply Permutation_in; [symmetry; exact Pe|]. eapply Permutation_in; [exact Pd|exact Hc].
    + intros c. unfold f. apply Forall_forall. intros v Hv. apply in_map_iff in Hv as (sd & <- & _). apply shot_len.
    + rewrite zeros_length. exact Hlen.
  - unfold chs, chunks. apply chunks_count_fuel; try lia.
    unfold seeds. rewrite map_length, seq_length. nia.
Qed.

End Shots.

(* two different shots take their seeds from disjoint positions of the parent's stream *)
Lemma seed_positions_disjoint (p : N) (i j : nat) (a b : N) : i <> j -> (a < 4)%N -> (b < 4)%N ->
  (p + 4 * N.of_nat i + a <> p + 4 * N.of_nat j + b)%N.
Proof. intros. lia. Qed.
