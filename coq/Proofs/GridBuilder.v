(* C03 — the GRID builder state machine (Model/Builders.v: gstep, the model of the legacy fixed-depth class Circuit, tied to
   circuit.py by C11's correspondence) follows the LAYERED one (lstep, AlternativeCircuit) column by column.
   Circuit keeps a depth x nqubit grid and two counters (j = current column, s = qubits written in it; when s == nqubit the NEXT
   call moves on to column j + 1), AlternativeCircuit a layer under construction (_mp, _s) that is appended to _mp_list and reset when
   _s == nqubit.  Simulation relation Sim: same phases; the grid's columns are the completed layers, then the layer under
   construction, then untouched placeholder columns; (j, s) = (number of completed layers - 1, nqubit) right after a layer was
   completed, (number of completed layers, _s) otherwise.
     grid_follows_layered: any history without reset() on which the layered builder succeeds and ends on a completed layer
       (_s = 0), whose CNOT / ECR act on neighbouring indices (Circuit asserts it) and which completes at most `depth` layers, is
       executed by a fresh Circuit(nqubit, depth) without exception, and its columns are exactly the layers, followed by
       depth - (number of layers) placeholder columns.
   Generic in the matrix tokens; no ring.  Used with the histories of Proofs/SimLoopLayeredCalls.v (shot_exec, which rests on the
   `fill` lemmas of Proofs/SimLoopLayeredFill.v). *)
From Coq Require Import List Bool Arith ZArith Lia.
Require Import QG.Base.Res QG.Model.Builders QG.Proofs.NoiseFreeRunBuilder.
Import ListNotations.

(* ---- lists ---- *)
Lemma pyidx_lt i len k : pyidx i len = Ok k -> k < len.
Proof.
  unfold pyidx. destruct (Z.leb_spec 0 i), (Z.ltb_spec i (Z.of_nat len)), (Z.ltb_spec i 0), (Z.leb_spec (- Z.of_nat len) i);
    cbn [andb]; try discriminate; try lia; intros Q; injection Q as <-; lia.
Qed.
Lemma lset_inv {T} (l : list T) i x l' : lset l i x = Ok l' -> exists k, pyidx i (length l) = Ok k /\ k < length l /\ l' = set_nth k x l.
Proof.
  unfold lset. destruct (pyidx i (length l)) as [k|e] eqn:E; cbn [rbind]; [|discriminate].
  intros H. injection H as <-. exists k. split; [reflexivity|]. split; [now apply pyidx_lt in E | reflexivity].
Qed.
Lemma lget_idx {T} (l : list T) i k d : pyidx i (length l) = Ok k -> lget l i = Ok (nth k l d).
Proof.
  intros E. unfold lget. rewrite E. cbn [rbind]. apply pyidx_lt in E. now rewrite (nth_error_nth' l d E).
Qed.
Lemma Forall_set_nth {T} (P : T -> Prop) x : forall l k, Forall P l -> P x -> Forall P (set_nth k x l).
Proof.
  induction l as [|y l IH]; intros [|k] F Hx; cbn [set_nth]; auto.
  - constructor; [exact Hx | exact (Forall_inv_tail F)].
  - constructor; [exact (Forall_inv F) | apply IH; [exact (Forall_inv_tail F) | exact Hx]].
Qed.
Lemma nth_app_default {T} (l : list T) d c : nth c (l ++ [d]) d = nth c l d.
Proof.
  destruct (Nat.lt_ge_cases c (length l)) as [H|H].
  - now rewrite app_nth1.
  - rewrite app_nth2 by assumption. rewrite (nth_overflow l d H). destruct (c - length l) as [|[|m]]; reflexivity.
Qed.
Lemma nth_app_tail {T} (l : list T) x y d c : c <> length l -> nth c (l ++ [x]) d = nth c (l ++ [y]) d.
Proof.
  intros N. destruct (Nat.lt_ge_cases c (length l)) as [H|H].
  - now rewrite !app_nth1.
  - rewrite !app_nth2 by assumption. destruct (c - length l) as [|[|m]] eqn:E; [lia | reflexivity | reflexivity].
Qed.
Lemma map_nth_seq {T} (d : T) : forall l m, length l <= m -> map (fun c => nth c l d) (seq 0 m) = l ++ repeat d (m - length l).
Proof.
  induction l as [|x l IH]; intros m H.
  - cbn [length app]. rewrite Nat.sub_0_r. rewrite <- (seq_length m 0) at 2. generalize (seq 0 m). intros s.
    induction s as [|c s IHs]; [reflexivity|]. cbn [map length repeat]. rewrite IHs. now destruct c.
  - destruct m as [|m]; [cbn in H; lia|]. cbn [seq map nth length app Nat.sub]. f_equal.
    rewrite <- seq_shift, map_map. cbn [nth]. apply IH. cbn in H. lia.
Qed.
Lemma map_repeat' {S T} (f : S -> T) x n : map f (repeat x n) = repeat (f x) n.
Proof. induction n as [|n IH]; [reflexivity|]. cbn [repeat map]. now rewrite IH. Qed.
Lemma nth_repeat' {T} (a : T) m n : nth n (repeat a m) a = a.
Proof. revert n. induction m as [|m IH]; intros [|n]; cbn [repeat nth]; auto. Qed.
Lemma filter_split_length {T} (f : T -> bool) l : length (filter f l) + length (filter (fun x => negb (f x)) l) = length l.
Proof. induction l as [|x l IH]; [reflexivity|]. cbn [filter]. destruct (f x); cbn [negb length]; lia. Qed.

Section GB.
Variable M : Type.
Variable idM : M.
Notation gstate := (gstate M). Notation lstate := (lstate M).
Notation gstep := (gstep M idM). Notation lstep := (lstep M idM).
Notation gexec := (gexec M idM). Notation lexec := (lexec M idM).
Notation bentry := (Builders.entry M).
Notation blank n := (repeat (@EnOne M) n).

(* column c of the grid circuit[qubit][column] *)
Definition col (grid : list (list bentry)) (c : nat) : list bentry := map (fun row => nth c row EnOne) grid.

Lemma g_place_ok (grid : list (list bentry)) i k j e : pyidx i (length grid) = Ok k -> j < length (nth k grid []) ->
  g_place M grid i j e = Ok (set_nth k (set_nth j e (nth k grid [])) grid).
Proof.
  intros E Hj. unfold g_place. rewrite (lget_idx grid i k [] E). cbn [rbind]. rewrite lset_nat by assumption. cbn [rbind].
  unfold lset. rewrite E. reflexivity.
Qed.
Lemma col_place : forall (grid : list (list bentry)) k j e c, k < length grid -> j < length (nth k grid []) ->
  col (set_nth k (set_nth j e (nth k grid [])) grid) c = if c =? j then set_nth k e (col grid c) else col grid c.
Proof.
  induction grid as [|row g IH]; intros k j e c Hk Hj; [cbn in Hk; lia|]. destruct k as [|k].
  - cbn [nth set_nth col map] in *. rewrite (nth_set_nth row c j e EnOne Hj). destruct (c =? j); reflexivity.
  - cbn [nth set_nth col map length] in *. fold (col g c). fold (col (set_nth k (set_nth j e (nth k g [])) g) c).
    rewrite IH by (auto; lia). destruct (c =? j); reflexivity.
Qed.

(* ---- the simulation relation ---- *)
Definition Sim (n depth : nat) (g : gstate) (l : lstate) : Prop :=
  g_n M g = n /\ g_depth M g = depth /\ l_n M l = n /\ g_phi M g = l_phi M l /\ length (l_mp M l) = n /\
  length (g_grid M g) = n /\ Forall (fun row => length row = depth) (g_grid M g) /\
  (l_s M l = 0 -> l_mp M l = blank n) /\
  ((l_s M l = 0 /\ l_mplist M l = [] /\ g_j M g = 0 /\ g_s M g = 0) \/
   (l_s M l = 0 /\ g_s M g = n /\ S (g_j M g) = length (l_mplist M l)) \/
   (0 < l_s M l /\ g_s M g = l_s M l /\ g_j M g = length (l_mplist M l))) /\
  (forall c, c < depth -> col (g_grid M g) c = nth c (l_mplist M l ++ [l_mp M l]) (blank n)).

Lemma Sim_init n depth bk : Sim n depth (g_init M n depth) (l_init M n bk).
Proof.
  unfold Sim. cbn [g_init l_init g_n g_depth l_n g_phi l_phi l_mp g_grid l_s l_mplist g_j g_s]. rewrite !repeat_length.
  repeat split; auto.
  - apply Forall_forall. intros row H. apply repeat_spec in H. subst row. apply repeat_length.
  - intros c Hc. unfold col. rewrite map_repeat'. cbn [app]. rewrite nth_repeat'.
    destruct c as [|[|c]]; reflexivity.
Qed.

(* where the next write goes *)
Lemma pos_cases n depth g l w : Sim n depth g l -> 1 <= w -> l_s M l + w <= n ->
  (g_s M g < g_n M g /\ g_j M g = length (l_mplist M l) /\ g_s M g = l_s M l) \/
  (g_s M g = g_n M g /\ S (g_j M g) = length (l_mplist M l) /\ l_s M l = 0).
Proof.
  intros (Hn & _ & _ & _ & _ & _ & _ & _ & P & _) Hw Hs. rewrite Hn.
  destruct P as [(a & b & c & d)|[(a & b & c)|(a & b & c)]].
  - left. rewrite b, c, d, a. cbn. repeat split; lia.
  - right. auto.
  - left. repeat split; auto; lia.
Qed.

(* one slot written: entry e at index i of the layer under construction / of the target column, width w *)
Lemma sim_write n depth g l i e w phi' mp' g' : Sim n depth g l -> (w = 1 \/ w = 2) ->
  lset (l_mp M l) i e = Ok mp' -> l_s M l + w <= n -> length (l_mplist M l) < depth ->
  g_n M g' = n -> g_depth M g' = depth -> g_j M g' = length (l_mplist M l) -> g_s M g' = l_s M l + w -> g_phi M g' = phi' ->
  g_place M (g_grid M g) i (length (l_mplist M l)) e = Ok (g_grid M g') ->
  Sim n depth g' (l_bump M l phi' mp' w).
Proof.
  intros (Hn & Hd & Ln & Hp & Lm & Lg & Fr & Hb & P & Hc) Hw Es Hs Hlt G1 G2 G3 G4 G5 G6.
  destruct (lset_inv _ _ _ _ Es) as (k & Ek & Hk & ->). rewrite Lm in Ek, Hk.
  assert (Lrow : length (nth k (g_grid M g) []) = depth).
  { rewrite Forall_forall in Fr. apply Fr. apply nth_In. lia. }
  rewrite (g_place_ok (g_grid M g) i k (length (l_mplist M l)) e) in G6 by (rewrite ?Lg, ?Lrow; auto).
  injection G6 as G6.
  assert (Cols : forall c, c < depth -> col (g_grid M g') c = nth c (l_mplist M l ++ [set_nth k e (l_mp M l)]) (blank n)).
  { intros c Hcd. rewrite <- G6, col_place by (rewrite ?Lg, ?Lrow; lia). rewrite (Hc c Hcd).
    destruct (Nat.eqb_spec c (length (l_mplist M l))) as [->|N].
    - now rewrite !nth_middle.
    - now apply nth_app_tail. }
  unfold l_bump. cbv zeta. rewrite Ln.
  destruct (Nat.eqb_spec (l_s M l + w) n) as [E|N]; unfold Sim;
    cbn [l_n l_phi l_mp l_s l_mplist].
  - rewrite repeat_length, app_length. cbn [length]. repeat split; auto.
    + rewrite <- G6. now rewrite set_nth_length.
    + rewrite <- G6. apply Forall_set_nth; [exact Fr|]. now rewrite set_nth_length.
    + right. left. repeat split; lia.
    + intros c Hcd. rewrite nth_app_default. now apply Cols.
  - rewrite set_nth_length. repeat split; auto.
    + rewrite <- G6. now rewrite set_nth_length.
    + rewrite <- G6. apply Forall_set_nth; [exact Fr|]. now rewrite set_nth_length.
    + intros Z. lia.
    + right. right. repeat split; lia.
Qed.

(* apply / I / X / SX / bitflip / relaxation / depolarizing *)
Lemma sim_apply n depth g l t i l' : Sim n depth g l -> l_apply M l K2 t i = Ok l' ->
  l_s M l + 1 <= n -> length (l_mplist M l) < depth ->
  exists g', g_apply M g K2 t i = Ok g' /\ Sim n depth g' l'.
Proof.
  intros S E Hs Hlt. unfold l_apply in E. destruct (lset (l_mp M l) i (En2 t)) as [mp'|e] eqn:Es; cbn [rbind] in E; [|discriminate].
  injection E as <-.
  pose proof S as (Hn & Hd & Ln & Hp & Lm & Lg & Fr & Hb & P & Hc).
  destruct (lset_inv _ _ _ _ Es) as (k & Ek & Hk & Emp). rewrite Lm in Ek, Hk.
  assert (Lrow : length (nth k (g_grid M g) []) = depth).
  { rewrite Forall_forall in Fr. apply Fr. apply nth_In. lia. }
  unfold g_apply.
  destruct (pos_cases n depth g l 1 S ltac:(lia) Hs) as [(a & b & c)|(a & b & c)].
  - destruct (Nat.ltb_spec (g_s M g) (g_n M g)); [|lia].
    rewrite b, (g_place_ok (g_grid M g) i k _ (En2 t)) by (rewrite ?Lg, ?Lrow; auto). cbn [rbind].
    eexists. split; [reflexivity|].
    apply (sim_write n depth g l i (En2 t) 1 (l_phi M l) mp'); auto; cbn [g_n g_depth g_j g_s g_phi g_grid]; try lia; auto.
    rewrite (g_place_ok (g_grid M g) i k _ (En2 t)) by (rewrite ?Lg, ?Lrow; auto). reflexivity.
  - destruct (Nat.ltb_spec (g_s M g) (g_n M g)); [lia|]. destruct (Nat.eqb_spec (g_s M g) (g_n M g)); [|lia].
    rewrite b, (g_place_ok (g_grid M g) i k _ (En2 t)) by (rewrite ?Lg, ?Lrow; auto). cbn [rbind].
    eexists. split; [reflexivity|].
    apply (sim_write n depth g l i (En2 t) 1 (l_phi M l) mp'); auto; cbn [g_n g_depth g_j g_s g_phi g_grid]; try lia; auto.
    rewrite (g_place_ok (g_grid M g) i k _ (En2 t)) by (rewrite ?Lg, ?Lrow; auto). reflexivity.
Qed.

(* CNOT / ECR on neighbouring indices *)
Lemma sim_two n depth g l cnot t i k l' : Sim n depth g l -> Z.abs (i - k) = 1%Z -> l_two M l cnot t i k = Ok l' ->
  l_s M l + 2 <= n -> length (l_mplist M l) < depth ->
  exists g', g_two M g cnot t i k = Ok g' /\ Sim n depth g' l'.
Proof.
  intros S Ad E Hs Hlt. unfold l_two in E.
  destruct (read2 (l_phi M l) i k) as [u|e] eqn:Er; cbn [rbind] in E; [|discriminate].
  destruct (lset (l_mp M l) i (En4 t)) as [mp'|e] eqn:Es; cbn [rbind] in E; [|discriminate].
  destruct (if cnot then cnot_phases (l_phi M l) i k else Ok (l_phi M l)) as [phi'|e] eqn:Ep; cbn [rbind] in E; [|discriminate].
  injection E as <-.
  pose proof S as (Hn & Hd & Ln & Hp & Lm & Lg & Fr & Hb & P & Hc).
  destruct (lset_inv _ _ _ _ Es) as (q & Ek & Hk & Emp). rewrite Lm in Ek, Hk.
  assert (Lrow : length (nth q (g_grid M g) []) = depth).
  { rewrite Forall_forall in Fr. apply Fr. apply nth_In. lia. }
  unfold g_two. rewrite Ad, Z.eqb_refl. cbn [negb]. rewrite Hp, Er, Ep. cbn [rbind].
  destruct (pos_cases n depth g l 2 S ltac:(lia) Hs) as [(a & b & c)|(a & b & c)].
  - destruct (Nat.ltb_spec (g_s M g) (g_n M g)); [|lia].
    rewrite b, (g_place_ok (g_grid M g) i q _ (En4 t)) by (rewrite ?Lg, ?Lrow; auto). cbn [rbind].
    eexists. split; [reflexivity|].
    apply (sim_write n depth g l i (En4 t) 2 phi' mp'); auto; cbn [g_n g_depth g_j g_s g_phi g_grid]; try lia; auto.
    rewrite (g_place_ok (g_grid M g) i q _ (En4 t)) by (rewrite ?Lg, ?Lrow; auto). reflexivity.
  - destruct (Nat.ltb_spec (g_s M g) (g_n M g)); [lia|]. destruct (Nat.eqb_spec (g_s M g) (g_n M g)); [|lia].
    rewrite b, (g_place_ok (g_grid M g) i q _ (En4 t)) by (rewrite ?Lg, ?Lrow; auto). cbn [rbind].
    eexists. split; [reflexivity|].
    apply (sim_write n depth g l i (En4 t) 2 phi' mp'); auto; cbn [g_n g_depth g_j g_s g_phi g_grid]; try lia; auto.
    rewrite (g_place_ok (g_grid M g) i q _ (En4 t)) by (rewrite ?Lg, ?Lrow; auto). reflexivity.
Qed.

(* ---- what the layered builder's counters do along a history without reset(): nqubit stays, the number of columns in use
        (completed layers + the one under construction) never decreases, an overfull layer (_s > nqubit) stays overfull ---- *)
Definition cols_needed (l : lstate) : nat := length (l_mplist M l) + (if l_s M l =? 0 then 0 else 1).
Definition mono (l l' : lstate) : Prop :=
  l_n M l' = l_n M l /\ cols_needed l <= cols_needed l' /\ (l_n M l < l_s M l -> l_n M l' < l_s M l').
Lemma mono_refl l : mono l l.
Proof. unfold mono. auto. Qed.
Lemma mono_trans a b c : mono a b -> mono b c -> mono a c.
Proof. unfold mono. intros (A1 & A2 & A3) (B1 & B2 & B3). repeat split; [congruence | lia | ]. intros H. apply B3, A3, H. Qed.
Lemma bump_mono l phi mp w : 1 <= w -> mono l (l_bump M l phi mp w).
Proof.
  intros Hw. unfold mono, l_bump, cols_needed. cbv zeta.
  destruct (Nat.eqb_spec (l_s M l + w) (l_n M l)); cbn [l_n l_s l_mplist]; rewrite ?app_length; cbn [length];
    destruct (Nat.eqb_spec (l_s M l) 0); try destruct (Nat.eqb_spec (l_s M l + w) 0); cbn [Nat.eqb]; repeat split; lia.
Qed.
(* what a successful write tells about the state before it *)
Lemma bump_post n depth l phi mp w : l_n M l = n -> 1 <= w ->
  l_s M (l_bump M l phi mp w) <= n -> cols_needed (l_bump M l phi mp w) <= depth ->
  l_s M l + w <= n /\ length (l_mplist M l) < depth.
Proof.
  intros Ln Hw. unfold l_bump, cols_needed. cbv zeta. rewrite Ln.
  destruct (Nat.eqb_spec (l_s M l + w) n); cbn [l_s l_mplist]; rewrite ?app_length; cbn [length Nat.eqb].
  - lia.
  - destruct (Nat.eqb_spec (l_s M l + w) 0); lia.
Qed.

Definition no_reset (o : op M) : Prop := is_reset M o = false.
Lemma lstep_mono l o l' r : lstep l o = Ok (l', r) -> no_reset o -> mono l l'.
Proof.
  assert (Ap : forall g t i l1, l_apply M l g t i = Ok l1 -> mono l l1).
  { intros g t i l1. unfold l_apply. destruct g; try discriminate.
    destruct (lset (l_mp M l) i (En2 t)); cbn [rbind]; [|discriminate]. intros H. injection H as <-. now apply bump_mono. }
  assert (Tw : forall c t i k l1, l_two M l c t i k = Ok l1 -> mono l l1).
  { intros c t i k l1. unfold l_two. destruct (read2 (l_phi M l) i k); cbn [rbind]; [|discriminate].
    destruct (lset (l_mp M l) i (En4 t)); cbn [rbind]; [|discriminate].
    destruct (if c then cnot_phases (l_phi M l) i k else Ok (l_phi M l)); cbn [rbind]; [|discriminate].
    intros H. injection H as <-. apply bump_mono. lia. }
  destruct o as [g t i|g t i j|i|i th|t i|t i k|t i k| |]; cbn [Builders.lstep]; intros E NR.
  - destruct (l_apply M l g t i) as [l1|] eqn:E1; cbn [rbind] in E; [|discriminate]. injection E as <- _. eauto.
  - discriminate.
  - destruct (l_apply M l K2 idM i) as [l1|] eqn:E1; cbn [rbind] in E; [|discriminate]. injection E as <- _. eauto.
  - destruct (rz_phases (l_phi M l) i th); cbn [rbind] in E; [|discriminate]. injection E as <- _. unfold mono, cols_needed. cbn. auto.
  - destruct (lget (l_phi M l) i); cbn [rbind] in E; [|discriminate].
    destruct (l_apply M l K2 t i) as [l1|] eqn:E1; cbn [rbind] in E; [|discriminate]. injection E as <- _. eauto.
  - destruct (l_two M l true t i k) as [l1|] eqn:E1; cbn [rbind] in E; [|discriminate]. injection E as <- _. eauto.
  - destruct (l_two M l false t i k) as [l1|] eqn:E1; cbn [rbind] in E; [|discriminate]. injection E as <- _. eauto.
  - unfold l_eval in E. cbn [rbind fst snd] in E. injection E as <- _. apply mono_refl.
  - discriminate.
Qed.
Lemma lexec_mono : forall h l l' ev, lexec l h = Ok (l', ev) -> Forall no_reset h -> mono l l'.
Proof.
  unfold Builders.lexec. induction h as [|o r IH]; intros l l' ev E F; cbn [exec] in E.
  - injection E as <- _. apply mono_refl.
  - destruct (lstep l o) as [[l1 oc]|] eqn:E1; cbn [rbind fst snd] in E; [|discriminate].
    destruct (exec M lstate _ lstep l1 r) as [[l2 e2]|] eqn:E2; cbn [rbind fst snd] in E; [|discriminate].
    injection E as <- _. eapply mono_trans; [exact (lstep_mono _ _ _ _ E1 (Forall_inv F)) | exact (IH _ _ _ E2 (Forall_inv_tail F))].
Qed.

(* Circuit.CNOT / ECR assert abs(i - k) == 1 *)
Definition adj_op (o : op M) : Prop :=
  match o with OCNOT _ _ i k | OECR _ _ i k => Z.abs (i - k) = 1%Z | _ => True end.

(* ---- one step ---- *)
Lemma sim_step n depth g l o l' : Sim n depth g l -> lstep l o = Ok (l', None) -> no_reset o -> adj_op o ->
  l_s M l' <= n -> cols_needed l' <= depth ->
  exists g', gstep g o = Ok (g', None) /\ Sim n depth g' l'.
Proof.
  intros S E NR Ad Hs Hc. pose proof S as (Hn & Hd & Ln & Hp & Lm & Lg & Fr & Hb & P & Hcol).
  assert (Ap : forall t i l1, l_apply M l K2 t i = Ok l1 -> l_s M l1 <= n -> cols_needed l1 <= depth ->
                 exists g', g_apply M g K2 t i = Ok g' /\ Sim n depth g' l1).
  { intros t i l1 E1 H1 H2. pose proof E1 as E1'. unfold l_apply in E1'.
    destruct (lset (l_mp M l) i (En2 t)); cbn [rbind] in E1'; [|discriminate]. injection E1' as <-.
    destruct (bump_post n depth _ _ _ 1 Ln ltac:(lia) H1 H2). now apply (sim_apply n depth g l t i). }
  assert (Tw : forall c t i k l1, Z.abs (i - k) = 1%Z -> l_two M l c t i k = Ok l1 -> l_s M l1 <= n -> cols_needed l1 <= depth ->
                 exists g', g_two M g c t i k = Ok g' /\ Sim n depth g' l1).
  { intros c t i k l1 A1 E1 H1 H2. pose proof E1 as E1'. unfold l_two in E1'.
    destruct (read2 (l_phi M l) i k); cbn [rbind] in E1'; [|discriminate].
    destruct (lset (l_mp M l) i (En4 t)); cbn [rbind] in E1'; [|discriminate].
    destruct (if c then cnot_phases (l_phi M l) i k else Ok (l_phi M l)); cbn [rbind] in E1'; [|discriminate]. injection E1' as <-.
    destruct (bump_post n depth _ _ _ 2 Ln ltac:(lia) H1 H2). now apply (sim_two n depth g l c t i k). }
  destruct o as [gk t i|gk t i j|i|i th|t i|t i k|t i k| |]; cbn [Builders.lstep Builders.gstep adj_op] in *.
  - destruct (l_apply M l gk t i) as [l1|] eqn:E1; cbn [rbind] in E; [|discriminate]. injection E as ->.
    destruct gk; try (unfold l_apply in E1; discriminate).
    destruct (Ap t i l' E1 Hs Hc) as (g' & Eg & Sg). rewrite Eg. cbn [rbind]. eauto.
  - discriminate.
  - destruct (l_apply M l K2 idM i) as [l1|] eqn:E1; cbn [rbind] in E; [|discriminate]. injection E as ->.
    destruct (Ap idM i l' E1 Hs Hc) as (g' & Eg & Sg). rewrite Eg. cbn [rbind]. eauto.
  - rewrite Hp. destruct (rz_phases (l_phi M l) i th) as [phi|]; cbn [rbind] in *; [|discriminate]. injection E as <-.
    eexists. split; [reflexivity|]. unfold Sim. cbn [g_n g_depth l_n g_phi l_phi l_mp g_grid l_s l_mplist g_j g_s]. repeat split; auto.
  - rewrite Hp. destruct (lget (l_phi M l) i); cbn [rbind] in *; [|discriminate].
    destruct (l_apply M l K2 t i) as [l1|] eqn:E1; cbn [rbind] in E; [|discriminate]. injection E as ->.
    destruct (Ap t i l' E1 Hs Hc) as (g' & Eg & Sg). rewrite Eg. cbn [rbind]. eauto.
  - destruct (l_two M l true t i k) as [l1|] eqn:E1; cbn [rbind] in E; [|discriminate]. injection E as ->.
    destruct (Tw true t i k l' Ad E1 Hs Hc) as (g' & Eg & Sg). rewrite Eg. cbn [rbind]. eauto.
  - destruct (l_two M l false t i k) as [l1|] eqn:E1; cbn [rbind] in E; [|discriminate]. injection E as ->.
    destruct (Tw false t i k l' Ad E1 Hs Hc) as (g' & Eg & Sg). rewrite Eg. cbn [rbind]. eauto.
  - unfold l_eval in E. cbn [rbind fst snd] in E. discriminate.
  - discriminate.
Qed.

(* ---- histories ---- *)
Lemma sim_exec n depth : forall h g l l', Sim n depth g l -> lexec l h = Ok (l', []) -> Forall no_reset h -> Forall adj_op h ->
  l_s M l' <= n -> cols_needed l' <= depth ->
  exists g', gexec g h = Ok (g', []) /\ Sim n depth g' l'.
Proof.
  unfold Builders.lexec, Builders.gexec. induction h as [|o r IH]; intros g l l' S E NR Ad Hs Hc; cbn [exec] in *.
  - injection E as <-. eauto.
  - destruct (lstep l o) as [[l1 oc]|] eqn:E1; cbn [rbind fst snd] in E; [|discriminate].
    destruct (exec M lstate _ lstep l1 r) as [[l2 e2]|] eqn:E2; cbn [rbind fst snd] in E; [|discriminate].
    injection E as -> E3. destruct oc as [c|]; [discriminate|]. subst e2.
    pose proof (lstep_mono _ _ _ _ E1 (Forall_inv NR)) as (M1 & _ & _).
    pose proof (lexec_mono r l1 l' [] E2 (Forall_inv_tail NR)) as (M2 & M3 & M4).
    pose proof S as (_ & _ & Ln & _).
    destruct (sim_step n depth g l o l1 S E1 (Forall_inv NR) (Forall_inv Ad)) as (g1 & Eg1 & S1).
    + destruct (Nat.le_gt_cases (l_s M l1) n) as [H|H]; [exact H|]. rewrite <- Ln, <- M1 in H. apply M4 in H. lia.
    + lia.
    + destruct (IH g1 l1 l' S1 E2 (Forall_inv_tail NR) (Forall_inv_tail Ad) Hs Hc) as (g' & Eg & Sg).
      exists g'. rewrite Eg1. cbn [rbind fst snd]. rewrite Eg. cbn [rbind fst snd]. auto.
Qed.

Theorem grid_follows_layered n depth bk h l' : lexec (l_init M n bk) h = Ok (l', []) -> Forall no_reset h -> Forall adj_op h ->
  l_s M l' = 0 -> length (l_mplist M l') <= depth ->
  exists g', gexec (g_init M n depth) h = Ok (g', []) /\ g_n M g' = n /\ g_depth M g' = depth /\
    g_content M g' = l_mplist M l' ++ repeat (blank n) (depth - length (l_mplist M l')).
Proof.
  intros E NR Ad Hs Hd.
  destruct (sim_exec n depth h _ _ l' (Sim_init n depth bk) E NR Ad) as (g' & Eg & S).
  - lia.
  - unfold cols_needed. rewrite Hs. cbn [Nat.eqb]. lia.
  - exists g'. split; [exact Eg|]. destruct S as (Hn & Hdp & Ln & Hp & Lm & Lg & Fr & Hb & P & Hcol).
    split; [exact Hn|]. split; [exact Hdp|].
    unfold g_content, g_columns. rewrite Hdp. rewrite <- (map_nth_seq (blank n) (l_mplist M l') depth Hd).
    apply map_ext_in. intros c Hc. apply in_seq in Hc. fold (col (g_grid M g') c). rewrite Hcol by lia.
    rewrite (Hb Hs). apply nth_app_default.
Qed.
End GB.
