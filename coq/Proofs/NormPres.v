(* C03 — norm preservation of the state semantics of Base/State.v at Coquelicot's complex numbers.

   nrm2 n psi = sum over all bit lists b of length n of |psi b|^2  (Base/Mat.v: bsum, real-valued).
   unitary2 U / unitary4 G: entrywise  sum_k conj(U k i) * U k j = delta i j.
   - bsum_pair / bsum_quad: a sum over all bit lists of length n, reorganised into blocks of the two (four) bit lists
     that differ only at position q (positions q1 <> q2): every block is counted twice (four times), hence the factor;
   - block2 / block4: a unitary matrix preserves the squared norm of a 2-vector (4-vector);
   - apply1_norm / apply2_norm / sem_norm: apply1 with a unitary 2x2 matrix on q < n, apply2 with a unitary 4x4 matrix
     on distinct q1, q2 < n, and every list of such items preserve nrm2 n. *)
From Coq Require Import List Bool Arith Lia Reals Lra RealField Ring Permutation.
From Coquelicot Require Import Complex.
Require Import QG.Base.State QG.Base.Mat QG.Base.Perm QG.Proofs.RelabelSum QG.Proofs.FrameSim QG.Model.NoiseFreeRun QG.Proofs.NoiseFreeRunC.
Import ListNotations.
Local Open Scope R_scope.

Notation bsumR := (bsum R Rplus).
Notation RT := (R) (only parsing).

(* ================================================================== sums over bit lists, in blocks *)
Definition flip (q : nat) (b : bits) : bits := upd b q (negb (get b q)).
Lemma flip_length q b : length (flip q b) = length b.
Proof. apply upd_length. Qed.
Lemma flip_flip q b : (q < length b)%nat -> flip q (flip q b) = b.
Proof. intros H. unfold flip. rewrite get_upd by assumption. rewrite upd_upd, negb_involutive. apply upd_get. Qed.

Lemma bsum_flip n q (f : bits -> R) : (q < n)%nat -> bsumR n (fun b => f (flip q b)) = bsumR n f.
Proof.
  intros H. apply (bsum_reindex R 0 1 Rplus Rmult Rminus Ropp RTheory).
  - intros b L. now rewrite flip_length.
  - intros a b La Lb E. rewrite <- (flip_flip q a), <- (flip_flip q b) by lia. now rewrite E.
Qed.
Lemma flip_cases q b (f : bits -> R) : f b + f (flip q b) = f (upd b q false) + f (upd b q true).
Proof.
  unfold flip. pose proof (upd_get b q) as U. destruct (get b q); cbn [negb]; rewrite U; lra.
Qed.

(* every block {b[q:=0], b[q:=1]} is met by exactly two b *)
Lemma bsum_pair n q (f : bits -> R) : (q < n)%nat ->
  bsumR n f = bsumR n (fun b => (f (upd b q false) + f (upd b q true)) / 2).
Proof.
  intros H. transitivity ((bsumR n f + bsumR n (fun b => f (flip q b))) * / 2).
  { rewrite bsum_flip by assumption. lra. }
  rewrite <- (bsum_plus R 0 1 Rplus Rmult Rminus Ropp RTheory), <- (bsum_scale_r R 0 1 Rplus Rmult Rminus Ropp RTheory).
  apply bsum_ext. intros b _. rewrite flip_cases. reflexivity.
Qed.

(* every block {b[q1:=x][q2:=y]} is met by exactly four b *)
Lemma bsum_quad n q1 q2 (f : bits -> R) : (q1 < n)%nat -> (q2 < n)%nat -> q1 <> q2 ->
  bsumR n f = bsumR n (fun b => (f (upd (upd b q1 false) q2 false) + f (upd (upd b q1 false) q2 true)
                               + f (upd (upd b q1 true) q2 false) + f (upd (upd b q1 true) q2 true)) / 4).
Proof.
  intros H1 H2 Hne. rewrite (bsum_pair n q2 f H2).
  rewrite (bsum_pair n q1 _ H1). apply bsum_ext. intros b _.
  rewrite !(upd_comm b q1 q2) by assumption. lra.
Qed.

(* ================================================================== unitary blocks *)
Local Open Scope C_scope.
Lemma Cconj_plus x y : Cconj (x + y) = Cconj x + Cconj y.
Proof. destruct x, y. unfold Cconj, Cplus. cbn [fst snd]. f_equal. ring. Qed.

Definition unitary2 (U : m2 C) : Prop :=
  forall i j, Cconj (U false i) * U false j + Cconj (U true i) * U true j = if Bool.eqb i j then 1 else 0.
Definition s4 (f : bool * bool -> C) : C := f (false, false) + f (false, true) + f (true, false) + f (true, true).
Definition pair_eqb (i j : bool * bool) : bool := Bool.eqb (fst i) (fst j) && Bool.eqb (snd i) (snd j).
Definition unitary4 (G : m4 C) : Prop :=
  forall i j, s4 (fun k => Cconj (G k i) * G k j) = if pair_eqb i j then 1 else 0.

Lemma Cmod2 x : RtoC (Cmod x ^ 2) = x * Cconj x.
Proof. symmetry. apply nrm_Cmod. Qed.

Lemma block2 (U : m2 C) (x y : C) : unitary2 U ->
  (Cmod (U false false * x + U false true * y)%C ^ 2 + Cmod (U true false * x + U true true * y)%C ^ 2
   = Cmod x ^ 2 + Cmod y ^ 2)%R.
Proof.
  intros H. apply RtoC_inj. rewrite !RtoC_plus, !Cmod2, !Cconj_plus, !Cconj_mult.
  pose proof (H false false) as H00. pose proof (H false true) as H01.
  pose proof (H true false) as H10. pose proof (H true true) as H11. cbn [Bool.eqb] in *.
  transitivity (x * Cconj x * (Cconj (U false false) * U false false + Cconj (U true false) * U true false)
              + y * Cconj x * (Cconj (U false false) * U false true + Cconj (U true false) * U true true)
              + x * Cconj y * (Cconj (U false true) * U false false + Cconj (U true true) * U true false)
              + y * Cconj y * (Cconj (U false true) * U false true + Cconj (U true true) * U true true)).
  { ring. }
  rewrite H00, H01, H10, H11. ring.
Qed.

Definition rs4 (f : bool * bool -> R) : R := (f (false, false) + f (false, true) + f (true, false) + f (true, true))%R.
Lemma block4 (G : m4 C) (x : bool * bool -> C) : unitary4 G ->
  rs4 (fun k => (Cmod (s4 (fun j => (G k j * x j)%C)) ^ 2)%R) = rs4 (fun j => (Cmod (x j) ^ 2)%R).
Proof.
  intros H. apply RtoC_inj. unfold rs4. rewrite !RtoC_plus, !Cmod2. unfold s4 at 1 2 3 4 5 6 7 8.
  rewrite !Cconj_plus, !Cconj_mult.
  set (M := fun j j' => s4 (fun k => Cconj (G k j) * G k j')).
  assert (HM : forall j j', M j j' = if pair_eqb j j' then 1 else 0) by (intros; apply H).
  transitivity (s4 (fun j => s4 (fun j' => x j' * Cconj (x j) * M j j'))).
  { unfold M, s4. ring. }
  clearbody M. unfold s4. rewrite !HM. cbn [pair_eqb fst snd Bool.eqb andb]. ring.
Qed.

(* ================================================================== apply1 / apply2 / sem preserve the squared norm *)
Local Open Scope R_scope.
Definition nrm2 (n : nat) (psi : state C) : R := bsumR n (fun b => Cmod (psi b) ^ 2).

Lemma apply1_norm n q (U : m2 C) (psi : state C) : (q < n)%nat -> unitary2 U ->
  nrm2 n (apply1 C Cplus Cmult q U psi) = nrm2 n psi.
Proof.
  intros Hq HU. unfold nrm2.
  rewrite (bsum_pair n q _ Hq), (bsum_pair n q (fun b => Cmod (psi b) ^ 2) Hq).
  apply bsum_ext. intros b Lb. f_equal. unfold apply1.
  rewrite !get_upd by lia. rewrite !upd_upd. now apply block2.
Qed.

Lemma apply2_norm n q1 q2 (G : m4 C) (psi : state C) : (q1 < n)%nat -> (q2 < n)%nat -> q1 <> q2 -> unitary4 G ->
  nrm2 n (apply2 C Cplus Cmult q1 q2 G psi) = nrm2 n psi.
Proof.
  intros H1 H2 Hne HG. unfold nrm2.
  rewrite (bsum_quad n q1 q2 _ H1 H2 Hne), (bsum_quad n q1 q2 (fun b => Cmod (psi b) ^ 2) H1 H2 Hne).
  apply bsum_ext. intros b Lb. f_equal. unfold apply2. cbv zeta.
  assert (L1 : (q1 < length b)%nat) by lia. assert (L2 : (q2 < length b)%nat) by lia.
  repeat first [ rewrite get_upd by (rewrite ?upd_length; assumption) | rewrite get_upd_ne by congruence ].
  repeat first [ rewrite upd_upd | rewrite (upd_comm _ q2 q1) by congruence ].
  exact (block4 G (fun xy => psi (upd (upd b q1 (fst xy)) q2 (snd xy))) HG).
Qed.

Definition unitary_item (it : item C) : Prop :=
  match it with It1 A _ => unitary2 A | It2 G _ _ => unitary4 G end.
Lemma apply_item_norm n (it : item C) psi : wf_item C n it -> unitary_item it ->
  nrm2 n (apply_item C Cplus Cmult it psi) = nrm2 n psi.
Proof.
  destruct it as [A q|G q1 q2]; cbn [wf_item unitary_item apply_item].
  - intros Hq HU. now apply apply1_norm.
  - intros (H1 & H2 & Hne) HG. now apply apply2_norm.
Qed.
Theorem sem_norm n (items : list (item C)) : Forall (wf_item C n) items -> Forall unitary_item items ->
  forall psi, nrm2 n (semC items psi) = nrm2 n psi.
Proof.
  induction items as [|it r IH]; intros W U psi; [reflexivity|].
  apply Forall_cons_iff in W as [W1 W]. apply Forall_cons_iff in U as [U1 U].
  change (semC (it :: r) psi) with (semC r (apply_item C Cplus Cmult it psi)).
  rewrite IH by assumption. now apply apply_item_norm.
Qed.

(* ================================================================== the ideal gates at the constants KC are unitary *)
Lemma sqrt2_inv_sq : / sqrt 2 * / sqrt 2 = / 2.
Proof. rewrite <- Rinv_mult. now rewrite sqrt_sqrt by lra. Qed.

Ltac unit_entries :=
  cbn; unfold Cmult, Cplus, Cconj, Copp, RtoC, Ci; cbn [fst snd];
  pose proof sqrt2_inv_sq as Hs; generalize dependent (/ sqrt 2); intros s Hs;
  f_equal; nra.

Lemma X_unitary : unitary2 (gate1 C (RtoC 0) (RtoC 1) Cplus Cmult Copp R KC KX).
Proof. intros [|] [|]; unit_entries. Qed.
Lemma SX_unitary : unitary2 (gate1 C (RtoC 0) (RtoC 1) Cplus Cmult Copp R KC KSX).
Proof. intros [|] [|]; unit_entries. Qed.
Lemma CX_unitary : unitary4 (gate2 C (RtoC 0) (RtoC 1) Cplus Cmult Copp R KC KCX 0).
Proof. intros [[|] [|]] [[|] [|]]; unfold s4; unit_entries. Qed.
Lemma ECR_unitary : unitary4 (gate2 C (RtoC 0) (RtoC 1) Cplus Cmult Copp R KC KECR 0).
Proof. intros [[|] [|]] [[|] [|]]; unfold s4; unit_entries. Qed.

Lemma cisR_conj_unit t : Cmult (Cconj (cisR t)) (cisR t) = RtoC 1.
Proof. rewrite cisR_conj, Cmult_comm. apply cisR_unit. Qed.
Lemma Cconj_zero : Cconj (RtoC 0) = RtoC 0.
Proof. unfold Cconj, RtoC. cbn [fst snd]. f_equal. ring. Qed.
Lemma rz_unitary (a e : R) : unitary2 (diag2 C (RtoC 0) (cisR a) (Cmult (cisR a) (cisR e))).
Proof.
  rewrite cisR_add. intros [|] [|]; unfold diag2; cbn [Bool.eqb]; rewrite ?cisR_conj_unit, ?Cconj_zero; ring.
Qed.

(* ================================================================== the ideal circuit preserves the squared norm *)
Notation ideal_itemC := (ideal_item C (RtoC 0) (RtoC 1) Cplus Cmult Copp R KC).
Lemma ideal_item_wf n (x : instr R) : wf_instr n x -> wf_item C n (ideal_itemC x).
Proof. destruct x; cbn [wf_instr ideal_item wf_item]; auto. Qed.
Lemma ideal_item_unitary (x : instr R) : unitary_item (ideal_itemC x).
Proof.
  destruct x; cbn [ideal_item unitary_item KC k_a k_e].
  - apply rz_unitary.
  - apply X_unitary.
  - apply SX_unitary.
  - apply CX_unitary.
  - apply ECR_unitary.
Qed.
Theorem ideal_norm n (p : list (instr R)) (psi : state C) : Forall (wf_instr n) p ->
  nrm2 n (semC (ideal_itemsC p) psi) = nrm2 n psi.
Proof.
  intros W. apply sem_norm; unfold ideal_items; apply Forall_map.
  - eapply Forall_impl; [|exact W]. apply ideal_item_wf.
  - apply Forall_forall. intros x _. apply ideal_item_unitary.
Qed.
