(* C08 — "own parameters" for the executable models of the simulator's instruction loop (Model/SimLoop.v: index class;
   Model/SimLoopLayered.v: layered classes), which checks/c03_simloop*.py tie to simulator.py by exact call-sequence correspondence.

   (1) calls_are_own: on data accepted by _process_layout the calls of one shot are, instruction by instruction and in order,
       the calls own_calls writes down FROM THE INSTRUCTION'S OWN QUBITS: internal index = rank of the label among the used
       labels, the label(s) whose table entries are passed = the instruction's own label(s) in the order (control, target),
       the rz angle / delay duration of the instruction's own position; measure / barrier / other instructions and delays on
       unused labels issue nothing; then one bitflip per internal qubit k < nqubit carrying the k-th used label.
   (2) calls_own_params: per constructor, the argument tokens (call_args: the values the correspondence run compares with the real
       arguments) are the table entries at the call's own label(s), the indices are the ranks of these labels.
   (3) the same for the layered branch: groups_are_own / lcalls_own. *)
From Coq Require Import List Bool Arith NArith ZArith Lia Sorted Permutation.
Require Import QG.Base.Res QG.Base.State QG.Model.FixCounts QG.Model.SimRun QG.Model.NoiseFreeRun QG.Model.SimLoop QG.Model.SimLoopLayered.
Require Import QG.Proofs.FrameSim QG.Proofs.SimRunKeys QG.Proofs.SimRunProofs QG.Proofs.SimLoop QG.Proofs.RelabelRank QG.Proofs.RelabelLayout.
Import ListNotations.

(* the used labels as naturals (the label type of Proofs/Relabel*.v) and the rank of a label among them *)
Definition labels (used : list N) : list nat := map N.to_nat used.
Definition rk (used : list N) (q : N) : nat := rank (labels used) (N.to_nat q).

(* the layout _process_layout returns: distinct labels, list.index = rank *)
Definition rank_layout (used : list N) : Prop :=
  NoDup used /\ forall q, In q used -> index_of q used = Some (rk used q).

Lemma process_layout_rank_layout data used meas n :
  Forall wf_qiskit data -> process_layout data = Ok (used, meas, n) -> rank_layout used /\ n = length used.
Proof.
  intros W H.
  assert (Wi : Forall SimRunProofs.wf_instr data) by (eapply Forall_impl; [|exact W]; apply wf_qiskit_wf_instr).
  destruct (process_layout_inv data used meas n Wi H) as (ND & _ & Hn).
  destruct (process_layout_rank data used meas n Wi H) as (_ & _ & Hi & _).
  split; [split; [exact ND | exact Hi] | exact Hn].
Qed.

Lemma rank_layout_nth used k q : rank_layout used -> nth_error used k = Some q -> In q used /\ k = rk used q.
Proof.
  intros [ND Hi] E. assert (Hin : In q used) by (eapply nth_error_In; eauto). split; [exact Hin|].
  specialize (Hi q Hin). apply index_of_nth in Hi.
  assert (Hk : (k < length used)%nat) by (apply nth_error_Some; congruence).
  assert (Hr : (rk used q < length used)%nat) by (apply nth_error_Some; congruence).
  apply (proj1 (NoDup_nth_error used) ND k (rk used q) Hk). congruence.
Qed.

Section Own.
Variables A D : Type.
Variable theta : nat -> A.
Variable dur : nat -> D.
Notation call := (call A D).
Notation apply_loop := (apply_loop A D theta dur).

(* ================================================================== index class *)
(* what the instruction x at position j of circ.data makes the loop do, written from x's own qubits *)
Definition own_calls (used : list N) (jx : nat * qinstr) : list call :=
  let j := fst jx in let x := snd jx in
  match iname x with
  | OpRz => match iqs x with [q] => [CRz (rk used q) (theta j)] | _ => [] end
  | OpSx => match iqs x with [q] => [C1 KSX (rk used q) q] | _ => [] end
  | OpX => match iqs x with [q] => [C1 KX (rk used q) q] | _ => [] end
  | OpCx => match iqs x with [c; t] => [C2 KCX (rk used c) (rk used t) c t] | _ => [] end
  | OpEcr => match iqs x with [c; t] => [C2 KECR (rk used c) (rk used t) c t] | _ => [] end
  | OpDelay => match iqs x with [q] => if memN q used then [CRelax (rk used q) (dur j) q] else [] | _ => [] end
  | OpMeasure | OpBarrier | OpOther => []
  end.
(* for k in range(nqubit): bitflip(k, tm[layout[k]], rout[layout[k]]) -- EVERY internal qubit, measured or not *)
Definition own_readout (used : list N) (k cnt : nat) : list call := map (fun i => CBitflip i (nth i used 0%N)) (seq k cnt).

Lemma lindex_rank used q : rank_layout used -> In q used -> lindex q used = Ok (rk used q).
Proof. intros [_ Hi] H. unfold lindex. now rewrite (Hi q H). Qed.

Lemma own_step used jx : rank_layout used -> wf_qiskit (snd jx) -> covered used (snd jx) ->
  exists a, pre_step used jx = Ok a /\ apply_loop used a = Ok (own_calls used jx).
Proof.
  intros RL. destruct jx as [j x]. cbn [snd]. unfold wf_qiskit, covered, SimLoop.pre_step, own_calls. cbn [fst snd].
  destruct (iname x) eqn:En; cbn [is_delay is_barrier]; intros W C.
  - (* delay *) destruct W as (q & Eq). rewrite Eq. cbn [negb]. rewrite andb_true_r.
    destruct (memN q used) eqn:Em.
    + apply memN_In in Em. eexists. split; [reflexivity|]. rewrite apply_loop_one. unfold SimLoop.app_step. cbn [fst snd]. rewrite En.
      unfold one_qubit. rewrite Eq, (lindex_rank used q RL Em). reflexivity.
    + eexists. split; reflexivity.
  - (* measure *) destruct W as (q & c & Eq & Ec). rewrite Eq, Ec in *.
    rewrite (lindex_rank used q RL C). cbn [rbind]. eexists. split; reflexivity.
  - (* barrier *) destruct (iqs x) as [|q r]; [congruence|]. cbn [negb]. rewrite andb_false_r. eexists. split; reflexivity.
  - (* rz *) destruct W as (q & Eq). rewrite Eq in *. rewrite (memN_true _ _ C). cbn [negb andb].
    eexists. split; [reflexivity|]. rewrite apply_loop_one. unfold SimLoop.app_step. cbn [fst snd]. rewrite En.
    unfold one_qubit. rewrite Eq, (lindex_rank used q RL C). reflexivity.
  - (* sx *) destruct W as (q & Eq). rewrite Eq in *. rewrite (memN_true _ _ C). cbn [negb andb].
    eexists. split; [reflexivity|]. rewrite apply_loop_one. unfold SimLoop.app_step. cbn [fst snd]. rewrite En.
    unfold one_qubit. rewrite Eq, (lindex_rank used q RL C). reflexivity.
  - (* x *) destruct W as (q & Eq). rewrite Eq in *. rewrite (memN_true _ _ C). cbn [negb andb].
    eexists. split; [reflexivity|]. rewrite apply_loop_one. unfold SimLoop.app_step. cbn [fst snd]. rewrite En.
    unfold one_qubit. rewrite Eq, (lindex_rank used q RL C). reflexivity.
  - (* cx *) destruct W as (c & t & Eq & Hne). rewrite Eq in *. destruct C as [Cc Ct].
    rewrite (memN_true _ _ Cc), (memN_true _ _ Ct). cbn [andb].
    eexists. split; [reflexivity|]. rewrite apply_loop_one. unfold SimLoop.app_step. cbn [fst snd]. rewrite En.
    unfold two_qubit. rewrite Eq, (lindex_rank used c RL Cc). cbn [rbind]. rewrite (lindex_rank used t RL Ct). reflexivity.
  - (* ecr *) destruct W as (c & t & Eq & Hne). rewrite Eq in *. destruct C as [Cc Ct].
    rewrite (memN_true _ _ Cc), (memN_true _ _ Ct). cbn [andb].
    eexists. split; [reflexivity|]. rewrite apply_loop_one. unfold SimLoop.app_step. cbn [fst snd]. rewrite En.
    unfold two_qubit. rewrite Eq, (lindex_rank used c RL Cc). cbn [rbind]. rewrite (lindex_rank used t RL Ct). reflexivity.
  - (* any other name *) destruct (iqs x) as [|q r]; [congruence|]. cbn [negb]. rewrite andb_true_r.
    destruct (memN q used).
    + eexists. split; [reflexivity|]. rewrite apply_loop_one. unfold SimLoop.app_step. cbn [fst snd]. rewrite En. reflexivity.
    + eexists. split; reflexivity.
Qed.

Lemma own_body used (l : list (nat * qinstr)) : rank_layout used ->
  Forall (fun jx => wf_qiskit (snd jx) /\ covered used (snd jx)) l ->
  exists d, preprocess used l = Ok d /\ apply_loop used d = Ok (flat_map (own_calls used) l).
Proof.
  intros RL. induction 1 as [|jx r [W C] _ (d & Ep & Ea)].
  - exists []. split; reflexivity.
  - destruct (own_step used jx RL W C) as (a & E1 & E2).
    exists (a ++ d). cbn [preprocess flat_map]. rewrite E1. cbn [rbind]. rewrite Ep. cbn [rbind].
    split; [reflexivity|]. rewrite apply_loop_app, E2. cbn [rbind]. rewrite Ea. reflexivity.
Qed.

Lemma own_readout_ok used : forall cnt k, (k + cnt <= length used)%nat ->
  readout A D used k cnt = Ok (own_readout used k cnt).
Proof.
  induction cnt as [|c IH]; intros k H; cbn [readout]; [reflexivity|].
  destruct (nth_error used k) as [q|] eqn:E; [|apply nth_error_None in E; lia].
  rewrite (IH (S k)) by lia. cbn [rbind]. unfold own_readout. cbn [seq map].
  now rewrite (nth_error_nth _ _ 0%N E).
Qed.

(* (1) the calls of one shot, as a function of the instruction list *)
Theorem calls_are_own data used meas n nq :
  Forall wf_qiskit data -> process_layout data = Ok (used, meas, n) -> (nq <= Z.of_nat n)%Z ->
  translate_calls A D theta dur used nq data
  = Ok (flat_map (own_calls used) (numbered data) ++ own_readout used 0 (Z.to_nat nq)).
Proof.
  intros W Hl Hn. destruct (process_layout_rank_layout data used meas n W Hl) as [RL En].
  pose proof (layout_covers _ _ _ _ Hl) as C.
  assert (F : Forall (fun jx => wf_qiskit (snd jx) /\ covered used (snd jx)) (numbered data)).
  { apply (numbered_snd data (fun x => wf_qiskit x /\ covered used x)). rewrite Forall_forall in *. intros x Hx. auto. }
  destruct (own_body used _ RL F) as (d & Ep & Ea).
  unfold translate_calls. rewrite Ep. cbn [rbind]. rewrite Ea. cbn [rbind].
  rewrite own_readout_ok by lia. reflexivity.
Qed.

(* (2) per call: own table entries, own indices *)
Definition own_params (used : list N) (c : call) : Prop :=
  match c with
  | CRz v th => (v < length used)%nat /\ call_args A D c = [Ttheta th] /\ call_indices A D c = [v]
  | C1 _ v q => In q used /\ call_indices A D c = [rk used q] /\ call_args A D c = [Tp q; TT1 q; TT2 q]
  | C2 _ cv tv c' t =>
      In c' used /\ In t used /\ c' <> t /\ call_indices A D c = [rk used c'; rk used t] /\
      call_args A D c = [Ttint c' t; Tpint c' t; Tp c'; Tp t; TT1 c'; TT2 c'; TT1 t; TT2 t]
  | CRelax v d q => In q used /\ call_indices A D c = [rk used q] /\ call_args A D c = [Ttime d; TT1 q; TT2 q]
  | CBitflip k q => nth_error used k = Some q /\ In q used /\ call_indices A D c = [rk used q] /\ call_args A D c = [Ttm q; Trout q]
  end.

Lemma index_in q used i : index_of q used = Some i -> In q used.
Proof. intros H. apply index_of_nth in H. eapply nth_error_In; eauto. Qed.

Lemma call_on_own used c : rank_layout used -> call_on A D used c -> own_params used c.
Proof.
  intros RL. pose proof RL as [ND Hi].
  destruct c as [v th|k v q|k cv tv c t|v d q|k q]; cbn [call_on own_params call_args call_indices]; intros H.
  - auto.
  - pose proof (index_in _ _ _ H) as Hin. rewrite (Hi q Hin) in H. injection H as <-. auto.
  - destruct H as (Hc & Ht & Hne). pose proof (index_in _ _ _ Hc) as Ic. pose proof (index_in _ _ _ Ht) as It.
    rewrite (Hi c Ic) in Hc. rewrite (Hi t It) in Ht. injection Hc as <-. injection Ht as <-. auto 6.
  - pose proof (index_in _ _ _ H) as Hin. rewrite (Hi q Hin) in H. injection H as <-. auto.
  - destruct (rank_layout_nth used k q RL H) as [Hin ->]. auto.
Qed.

Theorem calls_own_params data used meas n nq :
  Forall wf_qiskit data -> process_layout data = Ok (used, meas, n) -> (nq <= Z.of_nat n)%Z ->
  exists cs, translate_calls A D theta dur used nq data = Ok cs /\ Forall (call_on A D used) cs /\ Forall (own_params used) cs /\
    cs = flat_map (own_calls used) (numbered data) ++ own_readout used 0 (Z.to_nat nq).
Proof.
  intros W Hl Hn. destruct (translate_wf A D theta dur data used meas n nq W Hl Hn) as (cs & E & F & _).
  destruct (process_layout_rank_layout data used meas n W Hl) as [RL _].
  exists cs. split; [exact E|]. split; [exact F|]. split.
  - eapply Forall_impl; [|exact F]. intros c. now apply call_on_own.
  - rewrite (calls_are_own data used meas n nq W Hl Hn) in E. now injection E as <-.
Qed.

(* ================================================================== layered classes *)
Notation group := (group A D).
Notation lcall := (lcall A D).
Notation apply_loop_l := (apply_loop_l A D theta dur).

(* the per-instruction loop, written from the instruction's own labels (label = index in the layered branch) *)
Definition own_groups (used : list N) (jx : nat * qinstr) : list group :=
  let j := fst jx in let x := snd jx in
  match iname x with
  | OpRz => match iqs x with [q] => [GRz (N.to_nat q) (theta j)] | _ => [] end
  | OpSx => match iqs x with [q] => [G1 KSX (N.to_nat q)] | _ => [] end
  | OpX => match iqs x with [q] => [G1 KX (N.to_nat q)] | _ => [] end
  | OpCx => match iqs x with [c; t] => [G2 KCX (N.to_nat c) (N.to_nat t)] | _ => [] end
  | OpEcr => match iqs x with [c; t] => [G2 KECR (N.to_nat c) (N.to_nat t)] | _ => [] end
  | OpDelay => match iqs x with [q] => if memN q used then [GRelax (N.to_nat q) (dur j)] else [] | _ => [] end
  | OpMeasure | OpBarrier | OpOther => []
  end.

Lemma apply_loop_l_app a b :
  apply_loop_l (a ++ b) = (x <- apply_loop_l a ;; y <- apply_loop_l b ;; Ok (x ++ y)).
Proof.
  induction a as [|jx r IH]; cbn [app SimLoopLayered.apply_loop_l rbind].
  - destruct (apply_loop_l b); reflexivity.
  - destruct (app_step_l A D theta dur jx) as [ca|e]; cbn [rbind]; [|reflexivity]. rewrite IH.
    destruct (apply_loop_l r) as [cr|e]; cbn [rbind]; [|reflexivity].
    destruct (apply_loop_l b) as [cb|e]; cbn [rbind]; [|reflexivity]. now rewrite app_assoc.
Qed.
Lemma apply_loop_l_one jx : apply_loop_l [jx] = (a <- app_step_l A D theta dur jx ;; Ok (a ++ [])).
Proof. reflexivity. Qed.

Lemma own_lstep used jx : wf_qiskit (snd jx) -> covered used (snd jx) ->
  exists a, pre_step used jx = Ok a /\ apply_loop_l a = Ok (own_groups used jx).
Proof.
  destruct jx as [j x]. cbn [snd]. unfold wf_qiskit, covered, SimLoop.pre_step, own_groups. cbn [fst snd].
  destruct (iname x) eqn:En; cbn [is_delay is_barrier]; intros W C.
  - destruct W as (q & Eq). rewrite Eq. cbn [negb]. rewrite andb_true_r.
    destruct (memN q used) eqn:Em.
    + eexists. split; [reflexivity|]. rewrite apply_loop_l_one. unfold SimLoopLayered.app_step_l. cbn [fst snd]. rewrite En.
      unfold one_label. rewrite Eq. reflexivity.
    + eexists. split; reflexivity.
  - destruct W as (q & c & Eq & Ec). rewrite Eq, Ec in *.
    destruct (lindex_in q used C) as (i & El & _). rewrite El. cbn [rbind]. eexists. split; reflexivity.
  - destruct (iqs x) as [|q r]; [congruence|]. cbn [negb]. rewrite andb_false_r. eexists. split; reflexivity.
  - destruct W as (q & Eq). rewrite Eq in *. rewrite (memN_true _ _ C). cbn [negb andb].
    eexists. split; [reflexivity|]. rewrite apply_loop_l_one. unfold SimLoopLayered.app_step_l. cbn [fst snd]. rewrite En.
    unfold one_label. rewrite Eq. reflexivity.
  - destruct W as (q & Eq). rewrite Eq in *. rewrite (memN_true _ _ C). cbn [negb andb].
    eexists. split; [reflexivity|]. rewrite apply_loop_l_one. unfold SimLoopLayered.app_step_l. cbn [fst snd]. rewrite En.
    unfold one_label. rewrite Eq. reflexivity.
  - destruct W as (q & Eq). rewrite Eq in *. rewrite (memN_true _ _ C). cbn [negb andb].
    eexists. split; [reflexivity|]. rewrite apply_loop_l_one. unfold SimLoopLayered.app_step_l. cbn [fst snd]. rewrite En.
    unfold one_label. rewrite Eq. reflexivity.
  - destruct W as (c & t & Eq & Hne). rewrite Eq in *. destruct C as [Cc Ct].
    rewrite (memN_true _ _ Cc), (memN_true _ _ Ct). cbn [andb].
    eexists. split; [reflexivity|]. rewrite apply_loop_l_one. unfold SimLoopLayered.app_step_l. cbn [fst snd]. rewrite En.
    unfold two_labels. rewrite Eq. reflexivity.
  - destruct W as (c & t & Eq & Hne). rewrite Eq in *. destruct C as [Cc Ct].
    rewrite (memN_true _ _ Cc), (memN_true _ _ Ct). cbn [andb].
    eexists. split; [reflexivity|]. rewrite apply_loop_l_one. unfold SimLoopLayered.app_step_l. cbn [fst snd]. rewrite En.
    unfold two_labels. rewrite Eq. reflexivity.
  - destruct (iqs x) as [|q r]; [congruence|]. cbn [negb]. rewrite andb_true_r.
    destruct (memN q used).
    + eexists. split; [reflexivity|]. rewrite apply_loop_l_one. unfold SimLoopLayered.app_step_l. cbn [fst snd]. rewrite En. reflexivity.
    + eexists. split; reflexivity.
Qed.

Lemma own_lbody used (l : list (nat * qinstr)) :
  Forall (fun jx => wf_qiskit (snd jx) /\ covered used (snd jx)) l ->
  exists d, preprocess used l = Ok d /\ apply_loop_l d = Ok (flat_map (own_groups used) l).
Proof.
  induction 1 as [|jx r [W C] _ (d & Ep & Ea)].
  - exists []. split; reflexivity.
  - destruct (own_lstep used jx W C) as (a & E1 & E2).
    exists (a ++ d). cbn [preprocess flat_map]. rewrite E1. cbn [rbind]. rewrite Ep. cbn [rbind].
    split; [reflexivity|]. rewrite apply_loop_l_app, E2. cbn [rbind]. rewrite Ea. reflexivity.
Qed.

(* (3a) the groups of one shot, as a function of the instruction list (any layout the data is accepted with) *)
Theorem groups_are_own data used meas n nq :
  Forall wf_qiskit data -> process_layout data = Ok (used, meas, n) ->
  translate_calls_layered A D theta dur used nq data
  = Ok (calls_of_groups A D (Z.to_nat nq) (flat_map (own_groups used) (numbered data))).
Proof.
  intros W Hl. pose proof (layout_covers _ _ _ _ Hl) as C.
  assert (F : Forall (fun jx => wf_qiskit (snd jx) /\ covered used (snd jx)) (numbered data)).
  { apply (numbered_snd data (fun x => wf_qiskit x /\ covered used x)). rewrite Forall_forall in *. intros x Hx. auto. }
  destruct (own_lbody used _ F) as (d & Ep & Ea).
  unfold translate_calls_layered, translate_groups. rewrite Ep. cbn [rbind]. rewrite Ea. reflexivity.
Qed.

(* (3b) per call of the layered branch: the label whose table entries are passed IS the index the call acts on (the branch
   indexes the tables with the loop variable k when k == q, and with q_trg for the target); the two-qubit call sits on the
   control's iteration and names (control, target) in this order; I(k) carries nothing *)
Definition own_lparams (nq : nat) (c : lcall) : Prop :=
  match c with
  | LI k => (k < nq)%nat
  | LC (CRz _ th as c') => call_args A D c' = [Ttheta th]
  | LC (C1 _ v q as c') => q = N.of_nat v /\ call_args A D c' = [Tp (N.of_nat v); TT1 (N.of_nat v); TT2 (N.of_nat v)]
  | LC (C2 _ cv tv c0 t as c') =>
      c0 = N.of_nat cv /\ t = N.of_nat tv /\
      call_args A D c' = [Ttint (N.of_nat cv) (N.of_nat tv); Tpint (N.of_nat cv) (N.of_nat tv); Tp (N.of_nat cv); Tp (N.of_nat tv);
                          TT1 (N.of_nat cv); TT2 (N.of_nat cv); TT1 (N.of_nat tv); TT2 (N.of_nat tv)]
  | LC (CRelax v d q as c') => q = N.of_nat v /\ call_args A D c' = [Ttime d; TT1 (N.of_nat v); TT2 (N.of_nat v)]
  | LC (CBitflip k q as c') => q = N.of_nat k /\ (k < nq)%nat /\ call_args A D c' = [Ttm (N.of_nat k); Trout (N.of_nat k)]
  end.

Lemma group_calls_own nq g : Forall (own_lparams nq) (group_calls A D nq g).
Proof.
  destruct g as [q th|k1 q|k2 c t|q d]; cbn [group_calls].
  - repeat constructor.
  - apply Forall_forall. intros x Hx. apply in_map_iff in Hx as (k & <- & Hk). apply in_seq in Hk.
    destruct (k =? q); cbn [own_lparams call_args]; auto. lia.
  - apply Forall_forall. intros x Hx. apply in_flat_map in Hx as (k & Hk & Hx). apply in_seq in Hk.
    destruct (k =? c).
    + destruct Hx as [<-|[]]. cbn [own_lparams call_args]. auto.
    + destruct (k =? t); [destruct Hx|]. destruct Hx as [<-|[]]. cbn [own_lparams]. lia.
  - apply Forall_forall. intros x Hx. apply in_map_iff in Hx as (k & <- & Hk). apply in_seq in Hk.
    destruct (k =? q); cbn [own_lparams call_args]; auto. lia.
Qed.

Theorem lcalls_own nq (gs : list group) : Forall (own_lparams nq) (calls_of_groups A D nq gs).
Proof.
  unfold calls_of_groups. apply Forall_app. split.
  - apply Forall_forall. intros x Hx. apply in_flat_map in Hx as (g & _ & Hx).
    pose proof (group_calls_own nq g) as F. rewrite Forall_forall in F. auto.
  - unfold readout_l. apply Forall_forall. intros x Hx. apply in_map_iff in Hx as (k & <- & Hk). apply in_seq in Hk.
    cbn [own_lparams call_args]. repeat split. lia.
Qed.

(* within the loop of one instruction on in-range labels: exactly one gate-set carrying call, on the operated (control) qubit's
   own iteration, every other iteration is I(k) (the target's iteration of a two-qubit gate issues nothing) *)
Definition is_LC (c : lcall) : bool := match c with LC _ => true | LI _ => false end.
Lemma filter_map_none {T} (f g : nat -> T) (p : T -> bool) q : forall m b, (q < b)%nat ->
  (forall k, k <> q -> p (g k) = false) ->
  filter p (map (fun k => if k =? q then f k else g k) (seq b m)) = [].
Proof.
  induction m as [|m IH]; intros b Hb Hg; cbn [seq map filter]; auto.
  destruct (Nat.eqb_spec b q) as [E|_]; [lia|]. rewrite Hg by lia. apply IH; auto.
Qed.
Lemma filter_map_eqb {T} (f g : nat -> T) (p : T -> bool) q : forall m a, (a <= q < a + m)%nat ->
  (forall k, k <> q -> p (g k) = false) -> p (f q) = true ->
  filter p (map (fun k => if k =? q then f k else g k) (seq a m)) = [f q].
Proof.
  induction m as [|m IH]; intros a Hq Hg Hf; [lia|]. cbn [seq map filter].
  destruct (Nat.eqb_spec a q) as [->|Hne].
  - rewrite Hf. f_equal. apply filter_map_none; auto.
  - rewrite Hg by auto. apply IH; auto. lia.
Qed.

Theorem group_one_call nq (g : group) :
  match g with
  | GRz q th => group_calls A D nq g = [LC (CRz q th)]
  | G1 k q => (q < nq)%nat -> filter is_LC (group_calls A D nq g) = [LC (C1 k q (N.of_nat q))]
  | G2 k c t => (c < nq)%nat -> filter is_LC (group_calls A D nq g) = [LC (C2 k c t (N.of_nat c) (N.of_nat t))]
  | GRelax q d => (q < nq)%nat -> filter is_LC (group_calls A D nq g) = [LC (CRelax q d (N.of_nat q))]
  end.
Proof.
  destruct g as [q th|k1 q|k2 c t|q d]; cbn [group_calls]; auto.
  - intros Hq. apply (filter_map_eqb (fun k => LC (C1 k1 k (N.of_nat k))) (fun k => LI k) is_LC q nq 0); auto. lia.
  - intros Hc.
    assert (E0 : forall m b, (c < b)%nat ->
      filter is_LC (flat_map (fun k => if k =? c then [LC (C2 k2 k t (N.of_nat k) (N.of_nat t))] else if k =? t then [] else [@LI A D k]) (seq b m)) = []).
    { induction m as [|m IHm]; intros b Hb; cbn [seq flat_map]; auto.
      rewrite filter_app. destruct (Nat.eqb_spec b c) as [E|_]; [lia|]. rewrite IHm by lia. destruct (b =? t); reflexivity. }
    assert (E : forall m a, (a <= c < a + m)%nat ->
      filter is_LC (flat_map (fun k => if k =? c then [LC (C2 k2 k t (N.of_nat k) (N.of_nat t))] else if k =? t then [] else [@LI A D k]) (seq a m))
      = [LC (C2 k2 c t (N.of_nat c) (N.of_nat t))]).
    { induction m as [|m IH]; intros a Ha; [lia|]. cbn [seq flat_map]. rewrite filter_app.
      destruct (Nat.eqb_spec a c) as [->|Hne].
      - cbn [filter is_LC app]. f_equal. apply E0. lia.
      - rewrite IH by lia. destruct (a =? t); reflexivity. }
    apply E. lia.
  - intros Hq. apply (filter_map_eqb (fun k => LC (CRelax k d (N.of_nat k))) (fun k => LI k) is_LC q nq 0); auto. lia.
Qed.
End Own.

(* reading of the vocabulary (every clause holds by unfolding definitions) *)
Ltac voc := repeat match goal with |- _ /\ _ => split | |- forall _, _ => intro end; try reflexivity; try (split; let H := fresh in intros H; exact H).
Lemma own_params_vocabulary :
  forall (A D : Type) (theta : nat -> A) (dur : nat -> D) (used : list N),
  (forall v th, own_params A D used (CRz v th) <->
     (v < List.length used)%nat /\ call_args A D (CRz v th) = [Ttheta th] /\ call_indices A D (CRz v th) = [v]) /\
  (forall k v q, own_params A D used (C1 k v q) <->
     In q used /\ call_indices A D (C1 k v q) = [rk used q] /\ call_args A D (C1 k v q) = [Tp q; TT1 q; TT2 q]) /\
  (forall k cv tv c t, own_params A D used (C2 k cv tv c t) <->
     In c used /\ In t used /\ c <> t /\ call_indices A D (C2 k cv tv c t) = [rk used c; rk used t] /\
     call_args A D (C2 k cv tv c t) = [Ttint c t; Tpint c t; Tp c; Tp t; TT1 c; TT2 c; TT1 t; TT2 t]) /\
  (forall v d q, own_params A D used (CRelax v d q) <->
     In q used /\ call_indices A D (CRelax v d q) = [rk used q] /\ call_args A D (CRelax v d q) = [Ttime d; TT1 q; TT2 q]) /\
  (forall k q, own_params A D used (CBitflip k q) <->
     nth_error used k = Some q /\ In q used /\ call_indices A D (CBitflip k q) = [rk used q] /\ call_args A D (CBitflip k q) = [Ttm q; Trout q]) /\
  (forall q, rk used q = rank (labels used) (N.to_nat q)) /\ labels used = map N.to_nat used /\
  (forall j q, own_calls A D theta dur used (j, mkinstr OpRz [q] []) = [CRz (rk used q) (theta j)] /\
     own_calls A D theta dur used (j, mkinstr OpSx [q] []) = [C1 KSX (rk used q) q] /\
     own_calls A D theta dur used (j, mkinstr OpX [q] []) = [C1 KX (rk used q) q] /\
     own_calls A D theta dur used (j, mkinstr OpDelay [q] []) = (if memN q used then [CRelax (rk used q) (dur j) q] else [])) /\
  (forall j c t, own_calls A D theta dur used (j, mkinstr OpCx [c; t] []) = [C2 KCX (rk used c) (rk used t) c t] /\
     own_calls A D theta dur used (j, mkinstr OpEcr [c; t] []) = [C2 KECR (rk used c) (rk used t) c t]) /\
  (forall j qs cs, own_calls A D theta dur used (j, mkinstr OpMeasure qs cs) = [] /\ own_calls A D theta dur used (j, mkinstr OpBarrier qs cs) = [] /\
     own_calls A D theta dur used (j, mkinstr OpOther qs cs) = []) /\
  (forall k cnt, own_readout A D used k cnt = map (fun i => CBitflip i (nth i used 0%N)) (seq k cnt)).
Proof. voc. Qed.
Lemma own_lparams_vocabulary :
  forall (A D : Type) (theta : nat -> A) (dur : nat -> D) (nq : nat) (used : list N),
  (forall k, own_lparams A D nq (LI k) <-> (k < nq)%nat) /\
  (forall k v q, own_lparams A D nq (LC (C1 k v q)) <->
     q = N.of_nat v /\ call_args A D (C1 k v q) = [Tp (N.of_nat v); TT1 (N.of_nat v); TT2 (N.of_nat v)]) /\
  (forall k cv tv c t, own_lparams A D nq (LC (C2 k cv tv c t)) <->
     c = N.of_nat cv /\ t = N.of_nat tv /\
     call_args A D (C2 k cv tv c t) = [Ttint (N.of_nat cv) (N.of_nat tv); Tpint (N.of_nat cv) (N.of_nat tv); Tp (N.of_nat cv); Tp (N.of_nat tv);
                                       TT1 (N.of_nat cv); TT2 (N.of_nat cv); TT1 (N.of_nat tv); TT2 (N.of_nat tv)]) /\
  (forall v d q, own_lparams A D nq (LC (CRelax v d q)) <-> q = N.of_nat v /\ call_args A D (CRelax v d q) = [Ttime d; TT1 (N.of_nat v); TT2 (N.of_nat v)]) /\
  (forall k q, own_lparams A D nq (LC (CBitflip k q)) <->
     q = N.of_nat k /\ (k < nq)%nat /\ call_args A D (CBitflip k q) = [Ttm (N.of_nat k); Trout (N.of_nat k)]) /\
  (forall j c t, own_groups A D theta dur used (j, mkinstr OpCx [c; t] []) = [G2 KCX (N.to_nat c) (N.to_nat t)] /\
     own_groups A D theta dur used (j, mkinstr OpEcr [c; t] []) = [G2 KECR (N.to_nat c) (N.to_nat t)]) /\
  (forall j q, own_groups A D theta dur used (j, mkinstr OpSx [q] []) = [G1 KSX (N.to_nat q)] /\
     own_groups A D theta dur used (j, mkinstr OpX [q] []) = [G1 KX (N.to_nat q)] /\
     own_groups A D theta dur used (j, mkinstr OpRz [q] []) = [GRz (N.to_nat q) (theta j)] /\
     own_groups A D theta dur used (j, mkinstr OpDelay [q] []) = (if memN q used then [GRelax (N.to_nat q) (dur j)] else [])).
Proof. voc. Qed.

Lemma calls_own_params_layered :
  forall (A D : Type) (theta : nat -> A) (dur : nat -> D),
  (forall (data : list SimRun.instr) (used : list N) (meas : list (N * N)) (n : nat) (nq : Z),
   Forall wf_qiskit data -> process_layout data = Ok (used, meas, n) ->
   translate_calls_layered A D theta dur used nq data
   = Ok (calls_of_groups A D (Z.to_nat nq) (flat_map (own_groups A D theta dur used) (numbered data)))) /\
  (forall (nq : nat) (gs : list (group A D)), Forall (own_lparams A D nq) (calls_of_groups A D nq gs)) /\
  (forall (nq : nat) (g : group A D),
   match g with
   | GRz q th => group_calls A D nq g = [LC (CRz q th)]
   | G1 k q => (q < nq)%nat -> filter (is_LC A D) (group_calls A D nq g) = [LC (C1 k q (N.of_nat q))]
   | G2 k c t => (c < nq)%nat -> filter (is_LC A D) (group_calls A D nq g) = [LC (C2 k c t (N.of_nat c) (N.of_nat t))]
   | GRelax q d => (q < nq)%nat -> filter (is_LC A D) (group_calls A D nq g) = [LC (CRelax q d (N.of_nat q))]
   end).
Proof.
  intros A D theta dur. split; [exact (groups_are_own A D theta dur)|]. split; [exact (lcalls_own A D) | exact (group_one_call A D)].
Qed.
