(* C08 — the hand-off of Model/SimLoopOwn.v (instr_of_call + Builders.do_instr + bstep: which gate-set method a BinaryCircuit method
   calls, in which order it passes its arguments and phases, where the matrix is placed, how the phases move) re-derived and compared
   with the table gen_handoff that checks/circuit_trace.py regenerates from circuit.py on every run. *)
From Coq Require Import List String Bool ZArith QArith.
Require Import QG.Sym.Expr QG.Model.Handoff QG.Gen.GenCircuit QG.Model.SimLoop QG.Model.SimLoopOwn.
Import ListNotations.
Close Scope Q_scope.
Open Scope string_scope.

(* an argument of the trace: variable v (0 = phi[i], 1 = phi[k], 2.. the method's parameters), or -phi *)
Definition arg_code (e : expr) : option Z :=
  match e with
  | EVar v => Some (Z.of_nat v)
  | ENeg (EVar v) => Some (1000 + Z.of_nat v)%Z
  | _ => None
  end.
Fixpoint arg_codes (l : list expr) : option (list Z) :=
  match l with
  | [] => Some []
  | e :: r => match arg_code e, arg_codes r with Some a, Some b => Some (a :: b) | _, _ => None end
  end.
(* a phase expression of the trace as (marker, quarter turns): phi[i] = (100, 0), phi[k] = (101, 0), theta = (1000, 0), pi/2 = (0, 1) *)
Fixpoint pev (e : expr) : option (Z * Z) :=
  match e with
  | EVar 0 => Some (100, 0)%Z | EVar 1 => Some (101, 0)%Z | EVar 10 => Some (1000, 0)%Z
  | EPi => Some (0, 2)%Z
  | EDiv EPi (EQ q) => if Qeq_bool q (2#1) then Some (0, 1)%Z else None
  | EAdd a b => match pev a, pev b with Some x, Some y => Some (fst x + fst y, snd x + snd y)%Z | _, _ => None end
  | ESub a b => match pev a, pev b with Some x, Some y => Some (fst x - fst y, snd x - snd y)%Z | _, _ => None end
  | _ => None
  end.
Definition pair_eqb (a b : Z * Z) : bool := Z.eqb (fst a) (fst b) && Z.eqb (snd a) (snd b).
Definition phi_ok (after : list (Z * Z)) (w : nat * expr) : bool :=
  match pev (snd w) with Some p => pair_eqb p (nth (fst w) after (0, 0)%Z) | None => false end.
(* positions the method does not write keep their marker *)
Definition untouched_ok (after : list (Z * Z)) (writes : list (nat * expr)) : bool :=
  forallb (fun j => existsb (fun w => Nat.eqb (fst w) j) writes || pair_eqb (nth j after (0, 0)%Z) (100 + Z.of_nat j, 0)%Z) [0; 1]%nat.

Definition used_by_simulator (h : handoff) : bool :=
  String.eqb (h_cls h) "BinaryCircuit" && negb (String.eqb (h_meth h) "depolarizing") && negb (String.eqb (h_meth h) "I").
Definition tie_ok (h : handoff) : bool :=
  (if String.eqb (h_gate h) "" then match own_trace (h_meth h) (h_lt h) with None => true | Some _ => false end
   else match own_trace (h_meth h) (h_lt h), arg_codes (h_args h) with
        | Some (g, a, pl), Some a' => String.eqb g (h_gate h) && zlist_eqb a a' && zlist_eqb pl (map Z.of_nat (h_place h))
        | _, _ => false
        end) &&
  match own_trace_phi (h_meth h) (h_lt h) with
  | Some after => forallb (phi_ok after) (h_phi h) && untouched_ok after (h_phi h)
  | None => false
  end.

Lemma own_handoff_tied :
  forallb (fun h => negb (used_by_simulator h) || tie_ok h) gen_handoff = true /\
  map (fun h => (h_meth h, h_lt h)) (filter used_by_simulator gen_handoff)
  = [("CNOT", true); ("CNOT", false); ("ECR", true); ("ECR", false); ("X", true); ("SX", true); ("relaxation", true); ("bitflip", true); ("Rz", true)].
Proof. split; vm_compute; reflexivity. Qed.
