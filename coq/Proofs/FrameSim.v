(* C03 — circuit level, over an arbitrary commutative ring: a simulator that keeps virtual-Z phases in a diagonal frame and
   applies "framed" gates computes, up to the frame and a global scalar, exactly what the ideal circuit computes.
   Frames are functions qubit -> R giving the diagonal entry for bit 1 (entry for bit 0 is 1), with explicit inverses. *)
From Coq Require Import List Bool Arith Lia Ring.
Require Import QG.Base.State.
Import ListNotations.

Section FrameSim.
Variable R : Type.
Variables (rO rI : R) (radd rmul rsub : R -> R -> R) (ropp : R -> R).
Variable Rth : ring_theory rO rI radd rmul rsub ropp eq.
Add Ring Rr : Rth.
Infix "+" := radd. Infix "*" := rmul.
Notation state := (state R). Notation m2 := (m2 R). Notation m4 := (m4 R).
Notation apply1 := (apply1 R radd rmul). Notation apply2 := (apply2 R radd rmul).

Definition frame := nat -> R.
Definition pb (f : frame) (q : nat) (v : bool) : R := if v then f q else rI.
(* fr f s b = product over the positions j of b of pb f (s + j) b_j *)
Fixpoint fr (f : frame) (s : nat) (b : bits) : R :=
  match b with [] => rI | h :: t => pb f s h * fr f (S s) t end.
Definition fupd (f : frame) (q : nat) (u : R) : frame := fun x => if Nat.eqb x q then u else f x.

Lemma fr_clear f s b q : q < length b -> fr f s b = fr f s (upd b q false) * pb f (Nat.add s q) (get b q).
Proof.
  revert s q. induction b as [|h t IH]; intros s q Hq; simpl in Hq; [lia|].
  destruct q as [|q].
  - cbn [upd fr]. unfold get. cbn [nth]. rewrite Nat.add_0_r. unfold pb. destruct h; ring.
  - cbn [upd fr]. rewrite (IH (S s) q) by lia. unfold get. cbn [nth]. replace (Nat.add s (S q)) with (Nat.add (S s) q) by lia. ring.
Qed.

Lemma fr_agree f f' s b : (forall j, j < length b -> nth j b false = true -> f (Nat.add s j) = f' (Nat.add s j)) -> fr f s b = fr f' s b.
Proof.
  revert s. induction b as [|h t IH]; intros s H; simpl; auto.
  rewrite (IH (S s)).
  - destruct h; unfold pb; auto. specialize (H 0). simpl in H. rewrite Nat.add_0_r in H. rewrite H; auto; lia.
  - intros j Hj Hn. specialize (H (S j)). simpl in H. replace (Nat.add (S s) j) with (Nat.add s (S j)) by lia. apply H; auto; lia.
Qed.

Lemma get_upd_clear b q : q < length b -> get (upd b q false) q = false.
Proof. apply get_upd. Qed.

(* ---- the invariant: frame * simulated amplitude = scalar * ideal amplitude ---- *)
Definition Inv (n : nat) (g : R) (f : frame) (sim ideal : state) : Prop :=
  forall b, length b = n -> fr f 0 b * sim b = g * ideal b.

(* a one-qubit gate written in the frame of its qubit: G r c = gam * (1/p(r)) * K r c * p(c) *)
Definition framed1 (f fi : frame) (q : nat) (gam : R) (K : m2) : m2 :=
  fun r c => gam * pb fi q r * K r c * pb f q c.

Lemma step1 n g f fi q gam K sim ideal :
  q < n -> f q * fi q = rI -> Inv n g f sim ideal ->
  Inv n (g * gam) f (apply1 q (framed1 f fi q gam K) sim) (apply1 q K ideal).
Proof.
  intros Hq Hu HI b Hb. unfold apply1, framed1.
  assert (Hl : q < length b) by lia.
  pose proof (HI (upd b q false) ltac:(now rewrite upd_length)) as I0.
  pose proof (HI (upd b q true) ltac:(now rewrite upd_length)) as I1.
  pose proof (fr_clear f 0 b q Hl) as C. simpl in C.
  pose proof (fr_clear f 0 (upd b q true) q ltac:(now rewrite upd_length)) as C1. simpl in C1.
  rewrite upd_upd, get_upd in C1 by assumption. unfold pb in C1 at 1.
  set (F0 := fr f 0 (upd b q false)) in *.
  assert (E : forall r, pb f q r * pb fi q r = rI) by (intros [|]; unfold pb; [exact Hu | ring]).
  transitivity (gam * K (get b q) false * (pb f q (get b q) * pb fi q (get b q)) * (F0 * sim (upd b q false))
              + gam * K (get b q) true * (pb f q (get b q) * pb fi q (get b q)) * (F0 * f q * sim (upd b q true))).
  { rewrite C. change (pb f q false) with rI. change (pb f q true) with (f q). ring. }
  rewrite E. rewrite <- C1. rewrite I0, I1. ring.
Qed.

(* a two-qubit gate between the old frame (f at q1, q2) and a new frame (u1, u2 at q1, q2) *)
Definition pb2 (a b : R) (v : bool * bool) : R := (if fst v then a else rI) * (if snd v then b else rI).
Definition framed2 (f : frame) (q1 q2 : nat) (gam : R) (K : m4) (ui1 ui2 : R) : m4 :=
  fun r c => gam * pb2 ui1 ui2 r * K r c * pb2 (f q1) (f q2) c.

Lemma fr_clear2 f b q1 q2 : q1 <> q2 -> q1 < length b -> q2 < length b ->
  fr f 0 b = fr f 0 (upd (upd b q1 false) q2 false) * pb2 (f q1) (f q2) (get b q1, get b q2).
Proof.
  intros Hne H1 H2. rewrite (fr_clear f 0 b q1 H1). rewrite (fr_clear f 0 (upd b q1 false) q2) by (now rewrite upd_length).
  rewrite get_upd_ne by auto. unfold pb2, pb. simpl. ring.
Qed.

Lemma step2 n g f q1 q2 gam K u1 ui1 u2 ui2 sim ideal :
  q1 < n -> q2 < n -> q1 <> q2 -> u1 * ui1 = rI -> u2 * ui2 = rI -> Inv n g f sim ideal ->
  Inv n (g * gam) (fupd (fupd f q1 u1) q2 u2) (apply2 q1 q2 (framed2 f q1 q2 gam K ui1 ui2) sim) (apply2 q1 q2 K ideal).
Proof.
  intros H1 H2 Hne Hu1 Hu2 HI b Hb. set (f' := fupd (fupd f q1 u1) q2 u2).
  assert (L1 : q1 < length b) by lia. assert (L2 : q2 < length b) by lia.
  set (b00 := upd (upd b q1 false) q2 false).
  assert (Hf1 : f' q1 = u1). { unfold f', fupd. rewrite (proj2 (Nat.eqb_neq q1 q2) Hne), Nat.eqb_refl. reflexivity. }
  assert (Hf2 : f' q2 = u2). { unfold f', fupd. now rewrite Nat.eqb_refl. }
  assert (A : fr f' 0 b00 = fr f 0 b00).
  { apply fr_agree. intros j Hj Hn. simpl. unfold f', fupd.
    destruct (Nat.eqb j q2) eqn:E2. { apply Nat.eqb_eq in E2. subst j. unfold b00 in Hn. change (get (upd (upd b q1 false) q2 false) q2 = true) in Hn. rewrite get_upd in Hn by (now rewrite upd_length). discriminate. }
    destruct (Nat.eqb j q1) eqn:E1. { apply Nat.eqb_eq in E1. subst j. unfold b00 in Hn. change (get (upd (upd b q1 false) q2 false) q1 = true) in Hn. rewrite get_upd_ne, get_upd in Hn by auto. discriminate. }
    reflexivity. }
  pose proof (fr_clear2 f' b q1 q2 Hne L1 L2) as C. fold b00 in C. rewrite A, Hf1, Hf2 in C.
  (* the four updated bit lists all clear to b00 *)
  assert (CC : forall c1 c2, fr f 0 (upd (upd b q1 c1) q2 c2) = fr f 0 b00 * pb2 (f q1) (f q2) (c1, c2)).
  { intros c1 c2. rewrite (fr_clear2 f (upd (upd b q1 c1) q2 c2) q1 q2 Hne) by (now rewrite !upd_length).
    assert (X1 : upd (upd (upd (upd b q1 c1) q2 c2) q1 false) q2 false = b00).
    { unfold b00. rewrite (upd_comm (upd b q1 c1) q2 q1) by auto. rewrite upd_upd. now rewrite upd_upd. }
    assert (X2 : get (upd (upd b q1 c1) q2 c2) q1 = c1) by (rewrite get_upd_ne by auto; now apply get_upd).
    assert (X3 : get (upd (upd b q1 c1) q2 c2) q2 = c2) by (apply get_upd; now rewrite upd_length).
    now rewrite X1, X2, X3. }
  assert (II : forall c1 c2, fr f 0 b00 * pb2 (f q1) (f q2) (c1, c2) * sim (upd (upd b q1 c1) q2 c2) = g * ideal (upd (upd b q1 c1) q2 c2)).
  { intros c1 c2. rewrite <- CC. apply HI. now rewrite !upd_length. }
  assert (E : pb2 u1 u2 (get b q1, get b q2) * pb2 ui1 ui2 (get b q1, get b q2) = rI).
  { unfold pb2. simpl. destruct (get b q1), (get b q2).
    - transitivity ((u1 * ui1) * (u2 * ui2)). ring. rewrite Hu1, Hu2. ring.
    - transitivity (u1 * ui1). ring. exact Hu1.
    - transitivity (u2 * ui2). ring. exact Hu2.
    - ring. }
  unfold apply2, framed2. cbv zeta. set (r := (get b q1, get b q2)) in *. fold f'.
  transitivity ((pb2 u1 u2 r * pb2 ui1 ui2 r) * gam *
     (K r (false, false) * (fr f 0 b00 * pb2 (f q1) (f q2) (false, false) * sim (upd (upd b q1 false) q2 false))
    + K r (false, true) * (fr f 0 b00 * pb2 (f q1) (f q2) (false, true) * sim (upd (upd b q1 false) q2 true))
    + K r (true, false) * (fr f 0 b00 * pb2 (f q1) (f q2) (true, false) * sim (upd (upd b q1 true) q2 false))
    + K r (true, true) * (fr f 0 b00 * pb2 (f q1) (f q2) (true, true) * sim (upd (upd b q1 true) q2 true)))).
  { rewrite C. ring. }
  rewrite E, !II. ring.
Qed.

(* a virtual rotation: the frame entry of q is multiplied by e; the ideal circuit applies diag(a, a * e) *)
Definition diag2 (x y : R) : m2 := fun r c => if Bool.eqb r c then (if r then y else x) else rO.

Lemma stepz n g f q e a ai sim ideal :
  q < n -> a * ai = rI -> Inv n g f sim ideal ->
  Inv n (g * ai) (fupd f q (f q * e)) sim (apply1 q (diag2 a (a * e)) ideal).
Proof.
  intros Hq Ha HI b Hb. assert (Hl : q < length b) by lia. set (f' := fupd f q (f q * e)).
  assert (A : fr f' 0 (upd b q false) = fr f 0 (upd b q false)).
  { apply fr_agree. intros j Hj Hn. simpl. unfold f', fupd. destruct (Nat.eqb j q) eqn:E; auto.
    apply Nat.eqb_eq in E. subst j. change (get (upd b q false) q = true) in Hn. rewrite get_upd in Hn by assumption. discriminate. }
  pose proof (fr_clear f' 0 b q Hl) as C'. simpl in C'. rewrite A in C'.
  pose proof (fr_clear f 0 b q Hl) as C. simpl in C.
  assert (Hf : f' q = f q * e) by (unfold f', fupd; now rewrite Nat.eqb_refl).
  pose proof (HI b Hb) as I.
  unfold apply1, diag2. destruct (get b q) eqn:Eg; simpl.
  - assert (Hb1 : upd b q true = b) by (rewrite <- Eg; apply upd_get). rewrite Hb1.
    rewrite C'. unfold pb. rewrite Hf. rewrite C in I. unfold pb in I.
    transitivity (e * (fr f 0 (upd b q false) * f q * sim b)). ring. rewrite I.
    transitivity (g * (a * ai) * e * ideal b). rewrite Ha. ring. ring.
  - assert (Hb0 : upd b q false = b) by (rewrite <- Eg; apply upd_get). rewrite !Hb0 in *.
    rewrite C'. unfold pb. rewrite C in I. unfold pb in I.
    transitivity (fr f 0 b * rI * sim b). ring. rewrite I.
    transitivity (g * (a * ai) * ideal b). rewrite Ha. ring. ring.
Qed.

(* ---- programs ---- *)
Inductive fop :=
| OpZ (q : nat) (e a ai : R)
| Op1 (q : nat) (gam : R) (K : m2)
| Op2 (q1 q2 : nat) (gam : R) (K : m4) (u1 ui1 u2 ui2 : R).

Record sstate := { s_f : frame; s_fi : frame; s_psi : state }.
Definition sim_step (s : sstate) (o : fop) : sstate :=
  match o with
  | OpZ q e _ _ => {| s_f := fupd (s_f s) q (s_f s q * e); s_fi := s_fi s; s_psi := s_psi s |}
  | Op1 q gam K => {| s_f := s_f s; s_fi := s_fi s; s_psi := apply1 q (framed1 (s_f s) (s_fi s) q gam K) (s_psi s) |}
  | Op2 q1 q2 gam K u1 ui1 u2 ui2 =>
      {| s_f := fupd (fupd (s_f s) q1 u1) q2 u2; s_fi := fupd (fupd (s_fi s) q1 ui1) q2 ui2;
         s_psi := apply2 q1 q2 (framed2 (s_f s) q1 q2 gam K ui1 ui2) (s_psi s) |}
  end.
Definition ideal_step (psi : state) (o : fop) : state :=
  match o with
  | OpZ q e a _ => apply1 q (diag2 a (a * e)) psi
  | Op1 q _ K => apply1 q K psi
  | Op2 q1 q2 _ K _ _ _ _ => apply2 q1 q2 K psi
  end.
Definition scalar_of (o : fop) : R := match o with OpZ _ _ _ ai => ai | Op1 _ gam _ => gam | Op2 _ _ gam _ _ _ _ _ => gam end.
(* side conditions: indices in range, distinct pair, inverses really are inverses; the inverse frame is only READ by
   one-qubit gates, so OpZ must come with the inverse of e folded into s_fi by the caller: we require the invariant
   f q * fi q = 1 on the qubits one-qubit gates act on *)
Definition wf_op (n : nat) (s : sstate) (o : fop) : Prop :=
  match o with
  | OpZ q e a ai => q < n /\ a * ai = rI
  | Op1 q gam K => q < n /\ s_f s q * s_fi s q = rI
  | Op2 q1 q2 gam K u1 ui1 u2 ui2 => q1 < n /\ q2 < n /\ q1 <> q2 /\ u1 * ui1 = rI /\ u2 * ui2 = rI
  end.

Fixpoint wf_prog (n : nat) (s : sstate) (p : list fop) : Prop :=
  match p with [] => True | o :: r => wf_op n s o /\ wf_prog n (sim_step s o) r end.

Theorem frame_simulation n : forall p s g ideal,
  wf_prog n s p -> Inv n g (s_f s) (s_psi s) ideal ->
  Inv n (fold_left (fun x o => x * scalar_of o) p g) (s_f (fold_left sim_step p s)) (s_psi (fold_left sim_step p s)) (fold_left ideal_step p ideal).
Proof.
  induction p as [|o r IH]; intros s g ideal W I; simpl in *; auto.
  destruct W as [Wo Wr]. apply IH; auto.
  destruct o as [q e a ai|q gam K|q1 q2 gam K u1 ui1 u2 ui2]; simpl in *.
  - destruct Wo as [Hq Ha]. now apply stepz.
  - destruct Wo as [Hq Hu]. now apply step1.
  - destruct Wo as (H1 & H2 & Hne & Hu1 & Hu2). now apply step2.
Qed.

(* start: all phases zero, i.e. the trivial frame *)
Definition f_one : frame := fun _ => rI.
Lemma fr_one s b : fr f_one s b = rI.
Proof. revert s. induction b as [|h t IH]; intros s; simpl; auto. rewrite IH. unfold pb, f_one. destruct h; ring. Qed.
Lemma Inv_init n psi : Inv n rI f_one psi psi.
Proof. intros b _. rewrite fr_one. ring. Qed.

(* ---- Born weights do not see the frame or the global scalar ---- *)
Variable cj : R -> R.
Hypothesis cj_mul : forall x y, cj (x * y) = cj x * cj y.
Hypothesis cj_one : cj rI = rI.
Definition nrm (x : R) : R := x * cj x.
Lemma nrm_mul x y : nrm (x * y) = nrm x * nrm y.
Proof. unfold nrm. rewrite cj_mul. ring. Qed.
Lemma nrm_fr f s b : (forall q, nrm (f q) = rI) -> nrm (fr f s b) = rI.
Proof.
  intros H. revert s. induction b as [|h t IH]; intros s; simpl.
  - unfold nrm. rewrite cj_one. ring.
  - rewrite nrm_mul, IH. unfold pb. destruct h. rewrite H. ring. unfold nrm. rewrite cj_one. ring.
Qed.
Theorem born_invisible n g f sim ideal :
  Inv n g f sim ideal -> nrm g = rI -> (forall q, nrm (f q) = rI) ->
  forall b, length b = n -> nrm (sim b) = nrm (ideal b).
Proof.
  intros I Hg Hf b Hb. pose proof (I b Hb) as E. apply (f_equal nrm) in E. rewrite !nrm_mul in E.
  rewrite (nrm_fr f 0 b Hf), Hg in E. transitivity (rI * nrm (sim b)). ring. rewrite E. ring.
Qed.

End FrameSim.
