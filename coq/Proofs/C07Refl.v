(* C07 — reflection lemmas over the regenerated gate model (recompiled whenever coq/Gen/GenGates.v changes). *)
From Coq Require Import QArith Qreals List String Bool Reals Lra.
From Coquelicot Require Import Complex.
Require Import QG.Sym.Expr QG.Sym.ExprEq QG.Sym.Norm QG.Sym.Mat QG.Sym.Sound QG.Sym.Subst.
Require Import QG.Model.GateModel QG.Model.Composite QG.Proofs.GateRefl QG.Gen.GenGates.
Import ListNotations.
Close Scope Q_scope.
Open Scope string_scope.

Definition cf : config := config_of gen_phase_vars.
Definition vi (name : string) : nat := var_index name gen_varnames.

(* ---- 1. at p = 0, T1 = T2 = 0 every stochastic block and the drift vanish, for all angles, samples, integrals ---- *)
Lemma sq_zero_D : forall rho, respects rho (ep_defs gen_sq_zero) -> interpM rho (ep_D gen_sq_zero) = interpM rho (zero_mat 2).
Proof. apply (mrefl_under_defs cf). vm_compute. reflexivity. Qed.
Lemma sq_zero_N : forall rho, respects rho (ep_defs gen_sq_zero) -> interpM rho (ep_N gen_sq_zero) = interpM rho (zero_mat 2).
Proof. apply (mrefl_under_defs cf). vm_compute. reflexivity. Qed.
Lemma cr_zero_D : forall rho, respects rho (ep_defs gen_cr_zero) -> interpM rho (ep_D gen_cr_zero) = interpM rho (zero_mat 4).
Proof. apply (mrefl_under_defs cf). vm_compute. reflexivity. Qed.
Lemma cr_zero_N : forall rho, respects rho (ep_defs gen_cr_zero) -> interpM rho (ep_N gen_cr_zero) = interpM rho (zero_mat 4).
Proof. apply (mrefl_under_defs cf). vm_compute. reflexivity. Qed.
Lemma depol_zero_N : forall rho, interpM rho gen_depol_zero_N = interpM rho (zero_mat 2).
Proof. apply (mexpr_eq_sound cf). vm_compute. reflexivity. Qed.

(* ---- 2. the unitary part is the hard-coded noise-free matrix of gates.py ---- *)
Lemma sq_U_is_nf : forall rho, interpM rho (ep_U gen_sq_zero) = interpM rho gen_nf_single_qubit_gate.
Proof. apply (mexpr_eq_sound cf). vm_compute. reflexivity. Qed.
Lemma cr_U_is_nf : forall rho, interpM rho (ep_U gen_cr_zero) = interpM rho gen_nf_CR.
Proof. apply (mexpr_eq_sound cf). vm_compute. reflexivity. Qed.
(* the unitary part does not depend on the decision path (noise parameters) *)
Lemma sq_U_all_paths : forallb (fun p => mexpr_eqb cf (ep_U p) (ep_U gen_sq_zero)) gen_sq_paths = true.
Proof. vm_compute. reflexivity. Qed.
Lemma cr_U_all_paths : forallb (fun p => mexpr_eqb cf (ep_U p) (ep_U gen_cr_zero)) gen_cr_paths = true.
Proof. vm_compute. reflexivity. Qed.
(* X and SX forward to the general rotation with theta = pi, pi/2 and unchanged phase and noise parameters *)
Lemma fwd_X : gen_fwd_X = [EPi; EVar (vi "phi"); EVar (vi "p"); EVar (vi "T1"); EVar (vi "T2")].
Proof. apply exprs_beq_eq. vm_compute. reflexivity. Qed.
Lemma fwd_SX_rest : tl gen_fwd_SX = [EVar (vi "phi"); EVar (vi "p"); EVar (vi "T1"); EVar (vi "T2")].
Proof. apply exprs_beq_eq. vm_compute. reflexivity. Qed.
Lemma fwd_SX_angle : forall rho, interpC rho (hd (EQ (0#1)%Q) gen_fwd_SX) = interpC rho (EDiv EPi (EQ (2#1)%Q)).
Proof. intros rho. vm_compute hd. reflexivity. Qed.
Lemma nf_X_is_U_pi : forall rho, interpM rho gen_nf_X = interpM rho (msubst [(vi "theta", EPi)] gen_nf_single_qubit_gate).
Proof. apply (mexpr_eq_sound cf). vm_compute. reflexivity. Qed.
Lemma nf_SX_is_U_halfpi : forall rho, interpM rho gen_nf_SX = interpM rho (msubst [(vi "theta", EDiv EPi (EQ (2#1)%Q))] gen_nf_single_qubit_gate).
Proof. apply (mexpr_eq_sound cf). vm_compute. reflexivity. Qed.

(* ---- 3. exact samplers at zero noise ---- *)
(* relaxation(Dt, 0, 0): the second sample is drawn with standard deviation sqrt(1 - exp(0)) = 0, hence is 0 *)
Definition relax_zero_G : mexpr := fst (fst gen_relax_zero).
Definition relax_zero_defs := snd gen_relax_zero.
Definition relax_zero_samplers := snd (fst gen_relax_zero).
Definition second_sample : nat := match relax_zero_samplers with [_; SNormal v _ _] => v | _ => 4999 end.
Definition second_std : expr := match relax_zero_samplers with [_; SNormal _ _ s] => s | _ => EVar 4999 end.
(* the standard deviation of the second draw is an opaque sqrt(1 - o) with o = exp(0 * _) *)
Definition rz_sqrt : option (nat * nat) :=
  match second_std with
  | EVar v => match lookup_def v relax_zero_defs with Some (OSqrt (ESub (EQ q) (EVar o))) => if Qeq_bool q (1#1)%Q then Some (v, o) else None | _ => None end
  | _ => None end.
Definition rz_ok : bool :=
  match rz_sqrt with
  | Some (v, o) => match lookup_def o relax_zero_defs with Some (OExpReal (EMul (EQ q) _)) => q_is_zero q | _ => false end
  | None => false end.
Lemma rz_ok_true : rz_ok = true. Proof. vm_compute. reflexivity. Qed.
Lemma relax_zero_std : forall rho, respects rho relax_zero_defs -> interpC rho second_std = interpC rho (EQ (0#1)%Q).
Proof.
  intros rho R. pose proof rz_ok_true as K. unfold rz_ok, rz_sqrt in K.
  destruct second_std as [| | |v| | | | | | | | | | |] eqn:E; try discriminate.
  destruct (lookup_def v relax_zero_defs) as [[e|e|e|e|k a b]|] eqn:L1; try discriminate.
  destruct e as [| | | |x y|x y| | | | | | | | |]; try discriminate. destruct x; try discriminate. destruct y; try discriminate.
  destruct (Qeq_bool q (1#1)%Q) eqn:Q1; try discriminate.
  destruct (lookup_def v0 relax_zero_defs) as [[e|e|e|e|k a b]|] eqn:L2; try discriminate.
  destruct e; try discriminate. destruct e1; try discriminate.
  pose proof (respects_lookup _ _ _ _ R L1) as H1. pose proof (respects_lookup _ _ _ _ R L2) as H2. simpl in H1, H2.
  apply Qeq_bool_eq in Q1. apply Qeq_eqR in Q1.
  simpl. rewrite H1, H2. rewrite Q1, (q_is_zero_Q2R _ K). unfold Q2R. simpl.
  match goal with |- context [exp ?y] => replace y with 0%R by ring end. rewrite exp_0.
  match goal with |- RtoC (sqrt ?x) = _ => replace x with 0%R by lra end. rewrite sqrt_0. f_equal. lra.
Qed.
Lemma relax_zero_is_identity : forall rho, respects rho relax_zero_defs -> rho second_sample = 0%R ->
  interpM rho relax_zero_G = interpM rho (id_mat 2).
Proof.
  intros rho R S.
  pose proof (mexpr_eq_sound_subst cf [(second_sample, EQ (0#1)%Q)] (msubst (known_subst relax_zero_defs) relax_zero_G) (id_mat 2) eq_refl) as H.
  assert (E : mexpr_eqb cf (msubst (known_subst relax_zero_defs) relax_zero_G) (id_mat 2) = true \/ True) by (right; exact I).
  clear E.
  assert (Hs : env_of [(second_sample, EQ (0#1)%Q)] rho = rho).
  { apply FunctionalExtensionality.functional_extensionality. intros v. unfold env_of. simpl.
    destruct (Nat.eqb v second_sample) eqn:Ev; auto. apply Nat.eqb_eq in Ev. subst. simpl. unfold Q2R. simpl. rewrite S. lra. }
  transitivity (interpM rho (msubst (known_subst relax_zero_defs) relax_zero_G)).
  { rewrite interpM_msubst by apply known_subst_real. now rewrite (known_subst_env rho _ R). }
  rewrite <- Hs at 1. rewrite <- (interpM_msubst [(second_sample, EQ (0#1)%Q)] rho eq_refl).
  apply (mexpr_eq_sound cf). vm_compute. reflexivity.
Qed.
(* bitflip(tm, 0): e = sqrt(0 / Dtm) = 0, so the rotation angle e * W is 0 whatever W is *)
Definition bf_prod : option (nat * nat * nat) :=
  match find (fun vd => match snd vd with OProd (EMul (EVar _) (EVar _)) => true | _ => false end) gen_bitflip_zero_defs with
  | Some (u, OProd (EMul (EVar s) (EVar w))) => Some (u, s, w) | _ => None end.
Definition bf_ok : bool :=
  match bf_prod with
  | Some (u, s, w) => match lookup_def u gen_bitflip_zero_defs, lookup_def s gen_bitflip_zero_defs with
                      | Some (OProd (EMul (EVar s') (EVar _))), Some (OSqrt (EMul (EQ q) _)) =>
                          Nat.eqb s s' && q_is_zero q && mexpr_eqb cf (msubst [(u, EQ (0#1)%Q)] gen_bitflip_zero_G) (id_mat 2)
                      | _, _ => false end
  | None => false end.
Lemma bf_ok_true : bf_ok = true. Proof. vm_compute. reflexivity. Qed.
Lemma bitflip_zero_is_identity : forall rho, respects rho gen_bitflip_zero_defs ->
  interpM rho gen_bitflip_zero_G = interpM rho (id_mat 2).
Proof.
  intros rho R. pose proof bf_ok_true as K. unfold bf_ok in K.
  destruct bf_prod as [[[u s] w]|]; try discriminate.
  destruct (lookup_def u gen_bitflip_zero_defs) as [[e|e|e|e|k a b]|] eqn:L1; try discriminate.
  destruct e as [| | | | | |x y| | | | | | | |]; try discriminate. destruct x; try discriminate. destruct y; try discriminate.
  destruct (lookup_def s gen_bitflip_zero_defs) as [[e|e|e|e|k a b]|] eqn:L2; try discriminate.
  destruct e as [| | | | | |x y| | | | | | | |]; try discriminate. destruct x; try discriminate.
  apply andb_prop in K as [K E]. apply andb_prop in K as [K1 K2]. apply Nat.eqb_eq in K1. subst v.
  pose proof (respects_lookup _ _ _ _ R L1) as H1. pose proof (respects_lookup _ _ _ _ R L2) as H2. simpl in H1, H2.
  assert (Hu : rho u = 0%R).
  { rewrite H1, H2. rewrite (q_is_zero_Q2R _ K2). match goal with |- context [sqrt ?x] => replace x with 0%R by ring end. rewrite sqrt_0. ring. }
  assert (Hs : env_of [(u, EQ (0#1)%Q)] rho = rho).
  { apply FunctionalExtensionality.functional_extensionality. intros x. unfold env_of. simpl.
    destruct (Nat.eqb x u) eqn:Ev; auto. apply Nat.eqb_eq in Ev. subst. simpl. unfold Q2R. simpl. rewrite Hu. lra. }
  rewrite <- Hs at 1. rewrite <- (interpM_msubst [(u, EQ (0#1)%Q)] rho eq_refl).
  now apply (mexpr_eq_sound cf).
Qed.

(* ---- 4. the noisy composite factories issue the same pulse sequences as the noise-free gate set ---- *)
(* same constituent factories in the same order, same product structure, and the same angle / phase / duration
   arguments (positions before the noise parameters); compared semantically *)
Definition geo_args (c : call) : list expr :=
  match c_fac c with FCR => firstn 3 (c_args c) | FX | FSX => firstn 1 (c_args c) | FSQ => firstn 2 (c_args c) | FRelax => firstn 1 (c_args c) end.
(* equal as written, or equal as complex numbers for all values *)
Definition expr_same (a b : expr) : bool := expr_beq a b || expr_eqb cf a b.
Fixpoint ptree_eqb (a b : ptree) : bool :=
  match a, b with
  | PSym k, PSym l => Nat.eqb k l
  | PMul a1 a2, PMul b1 b2 | PKron a1 a2, PKron b1 b2 => ptree_eqb a1 b1 && ptree_eqb a2 b2
  | PScale c a1, PScale d b1 => expr_same c d && ptree_eqb a1 b1
  | _, _ => false
  end.
Fixpoint all2 {A} (f : A -> A -> bool) (l1 l2 : list A) : bool :=
  match l1, l2 with [], [] => true | x :: r1, y :: r2 => f x y && all2 f r1 r2 | _, _ => false end.
Definition same_sequence (a b : composite) : bool :=
  ptree_eqb (cp_tree a) (cp_tree b) &&
  all2 (fun c d => factory_eqb (c_fac c) (c_fac d) && all2 expr_same (geo_args c) (geo_args d)) (cp_calls a) (cp_calls b).
Lemma same_sequences :
  same_sequence gen_comp_CNOT gen_nfcomp_CNOT = true /\ same_sequence gen_comp_CNOT_inv gen_nfcomp_CNOT_inv = true /\
  same_sequence gen_comp_ECR gen_nfcomp_ECR = true /\ same_sequence gen_comp_ECR_inv gen_nfcomp_ECR_inv = true.
Proof. vm_compute. repeat split. Qed.

(* ---- 5. T == 0 switches a relaxation channel off: on those paths nothing reads T1 (resp. T2) any more ---- *)
Definition path_reads (p : epath) (v : nat) : bool :=
  let vs := flat_map evars (flat_map (fun r => r) (leaf_rows (ep_D p) ++ leaf_rows (ep_N p))) in
  existsb (Nat.eqb v) (expand_vars (ep_defs p) 12 vs).
Definition sq_T_off : bool :=
  forallb (fun p => match ep_dec p with
                    | [d1; d2] => (negb d1 || negb (path_reads p (vi "T1"))) && (negb d2 || negb (path_reads p (vi "T2")))
                    | _ => false end) gen_sq_paths.
Definition cr_T_off : bool :=
  forallb (fun p => match ep_dec p with
                    | [d1; d2; d3; d4] => (negb d1 || negb (path_reads p (vi "T1c"))) && (negb d2 || negb (path_reads p (vi "T2c"))) &&
                                          (negb d3 || negb (path_reads p (vi "T1t"))) && (negb d4 || negb (path_reads p (vi "T2t")))
                    | _ => false end) gen_cr_paths.
Lemma T_zero_means_off : sq_T_off = true /\ cr_T_off = true /\ List.length gen_sq_paths = 4%nat /\ List.length gen_cr_paths = 16%nat.
Proof. vm_compute. repeat split. Qed.

(* ---- 6. with T1 = 0 the drift vanishes and the generator is i times a Hermitian matrix; U is unitary ---- *)
Definition t1_off_sq (p : epath) : bool := match ep_dec p with d1 :: _ => d1 | _ => false end.
Definition t1_off_cr (p : epath) : bool := match ep_dec p with [d1; _; d3; _] => d1 && d3 | _ => false end.
Definition antiherm_ok (n : nat) (p : epath) : bool :=
  mexpr_eqb cf (ep_D p) (zero_mat n) && mexpr_eqb cf (MDag (ep_N p)) (MScale (EQ (-1#1)%Q) (ep_N p)).
Lemma antihermitian_when_T1_off :
  forallb (fun p => negb (t1_off_sq p) || antiherm_ok 2 p) gen_sq_paths = true /\
  forallb (fun p => negb (t1_off_cr p) || antiherm_ok 4 p) gen_cr_paths = true /\
  mexpr_eqb cf (MDag gen_depol_N) (MScale (EQ (-1#1)%Q) gen_depol_N) = true.
Proof. vm_compute. repeat split. Qed.
Lemma U_unitary :
  (forall rho, interpM rho (MMul (MDag (ep_U gen_sq_zero)) (ep_U gen_sq_zero)) = interpM rho (id_mat 2)) /\
  (forall rho, interpM rho (MMul (MDag (ep_U gen_cr_zero)) (ep_U gen_cr_zero)) = interpM rho (id_mat 4)).
Proof. split; apply (mexpr_eq_sound cf); vm_compute; reflexivity. Qed.
(* exact samplers: the bit-flip matrix is unitary; the relaxation matrix with e1 = 0 is diagonal unitary once its
   second sample (drawn with variance 0) is 0 *)
Lemma bitflip_unitary : forall rho, interpM rho (MMul (MDag gen_bitflip_G) gen_bitflip_G) = interpM rho (id_mat 2).
Proof. apply (mexpr_eq_sound cf). vm_compute. reflexivity. Qed.
