(* C18 — list-level facts about the generators: inversion succeeds, shape unitary ++ barrier ++ measures,
   measurement wiring, well-formedness of every instruction. *)
From Coq Require Import List Bool Arith Lia.
Require Import QG.Base.Res QG.Base.State QG.Model.Bench.
Import ListNotations.

(* total inverse on unitary instructions *)
Definition ginv_u (g : gate) : gate :=
  match g with CP k c t => CPinv k c t | CPinv k c t => CP k c t | g => g end.
Definition inverse_u (l : list gate) : list gate := rev (map ginv_u l).

Lemma ginv_unitary g : is_unitary g = true -> ginv g = Ok (ginv_u g).
Proof. destruct g; simpl; intros; try discriminate; reflexivity. Qed.
Lemma inverse_unitary l : forallb is_unitary l = true -> inverse l = Ok (inverse_u l).
Proof.
  induction l as [|g r IH]; simpl; intros H; auto.
  apply andb_true_iff in H as [Hg Hr]. rewrite (IH Hr). simpl. rewrite (ginv_unitary g Hg). reflexivity.
Qed.
Lemma ginv_u_unitary g : is_unitary (ginv_u g) = is_unitary g.
Proof. destruct g; reflexivity. Qed.
Lemma inverse_u_unitary l : forallb is_unitary l = true -> forallb is_unitary (inverse_u l) = true.
Proof.
  intros H. unfold inverse_u. rewrite forallb_forall in *. intros g Hg. apply in_rev in Hg.
  apply in_map_iff in Hg as [g0 [<- Hg0]]. rewrite ginv_u_unitary. auto.
Qed.
Lemma ginv_u_invol g : ginv_u (ginv_u g) = g.
Proof. destruct g; reflexivity. Qed.

Lemma forallb_map_const {A} (f : A -> gate) l : (forall a, is_unitary (f a) = true) -> forallb is_unitary (map f l) = true.
Proof. intros H. induction l; simpl; auto. now rewrite H. Qed.

Lemma qft_rotations_unitary n : forallb is_unitary (qft_rotations n) = true.
Proof.
  induction n as [|m IH]; simpl; auto. rewrite forallb_app, IH, andb_true_r. now apply forallb_map_const.
Qed.
Lemma hrqft_pre_unitary n : forallb is_unitary (hrqft_pre n) = true.
Proof.
  unfold hrqft_pre, swap_registers. rewrite !forallb_app, qft_rotations_unitary. simpl.
  rewrite !forallb_map_const; auto.
Qed.
Lemma ghz_unitary_unitary n : forallb is_unitary (ghz_unitary n) = true.
Proof. unfold ghz_unitary. simpl. now apply forallb_map_const. Qed.

Lemma hrqft_ok n : hrqft n = Ok (inverse_u (hrqft_pre n) ++ finish n).
Proof. unfold hrqft. now rewrite (inverse_unitary _ (hrqft_pre_unitary n)). Qed.

(* measurement wiring *)
Lemma measures_unitary l : forallb is_unitary l = true -> measures_of l = [].
Proof.
  induction l as [|g r IH]; simpl; auto. intros H. apply andb_true_iff in H as [Hg Hr].
  unfold measures_of in *. simpl. rewrite (IH Hr). destruct g; simpl in *; try discriminate; reflexivity.
Qed.
Lemma measures_finish n : measures_of (finish n) = map (fun q => (q, q)) (seq 0 n).
Proof.
  unfold finish, measures_of. simpl. generalize 0. induction n as [|m IH]; intros s; simpl; auto. now rewrite IH.
Qed.
Lemma measures_shape u n : forallb is_unitary u = true -> measures_of (u ++ finish n) = map (fun q => (q, q)) (seq 0 n).
Proof.
  intros H. unfold measures_of. rewrite flat_map_app. fold (measures_of u). fold (measures_of (finish n)).
  now rewrite (measures_unitary u H), measures_finish.
Qed.

(* well-formedness *)
Lemma Forall_map_seq {A} (P : A -> Prop) (f : nat -> A) s len :
  (forall i, s <= i < s + len -> P (f i)) -> Forall P (map f (seq s len)).
Proof.
  revert s; induction len as [|l IH]; intros s H; simpl; constructor.
  - apply H. lia.
  - apply IH. intros i Hi. apply H. lia.
Qed.
Lemma wf_gate_mono n m g : n <= m -> wf_gate n g -> wf_gate m g.
Proof.
  intros L. destruct g; simpl; try lia.
  intros H. eapply Forall_impl; [|exact H]. simpl. intros; lia.
Qed.
Lemma qft_rotations_wf n : Forall (wf_gate n) (qft_rotations n).
Proof.
  induction n as [|m IH]; simpl; constructor.
  - simpl. lia.
  - apply Forall_app. split.
    + apply Forall_map_seq. intros i Hi. simpl. lia.
    + eapply Forall_impl; [|exact IH]. intros g. apply wf_gate_mono. lia.
Qed.
Lemma swap_registers_wf n : Forall (wf_gate n) (swap_registers n).
Proof.
  unfold swap_registers. apply Forall_map_seq. intros i Hi. simpl.
  assert (2 * (n / 2) <= n) by (apply Nat.mul_div_le; lia). lia.
Qed.
Lemma hrqft_pre_wf n : Forall (wf_gate n) (hrqft_pre n).
Proof.
  unfold hrqft_pre. rewrite !Forall_app. repeat split.
  - apply qft_rotations_wf.
  - apply swap_registers_wf.
  - apply Forall_map_seq. intros i Hi. simpl. lia.
Qed.
Lemma ginv_u_wf n g : wf_gate n g -> wf_gate n (ginv_u g).
Proof. destruct g; simpl; auto. Qed.
Lemma inverse_u_wf n l : Forall (wf_gate n) l -> Forall (wf_gate n) (inverse_u l).
Proof.
  intros H. unfold inverse_u. apply Forall_rev. rewrite Forall_forall in *. intros g Hg.
  apply in_map_iff in Hg as [g0 [<- Hg0]]. apply ginv_u_wf. auto.
Qed.
Lemma finish_wf n : Forall (wf_gate n) (finish n).
Proof.
  unfold finish. constructor.
  - simpl. rewrite Forall_forall. intros q Hq. apply in_seq in Hq. lia.
  - apply Forall_map_seq. intros i Hi. simpl. lia.
Qed.
Lemma ghz_unitary_wf n : 1 <= n -> Forall (wf_gate n) (ghz_unitary n).
Proof.
  intros Hn. unfold ghz_unitary. constructor.
  - simpl. lia.
  - apply Forall_map_seq. intros i Hi. simpl. lia.
Qed.

(* the three generators: shape, wiring, well-formedness in one statement *)
Definition good_shape (n : nat) (l : list gate) : Prop :=
  exists u, l = u ++ finish n /\ forallb is_unitary u = true /\ Forall (wf_gate n) l /\
            measures_of l = map (fun q => (q, q)) (seq 0 n).

Lemma good_shape_intro n u : forallb is_unitary u = true -> Forall (wf_gate n) u -> good_shape n (u ++ finish n).
Proof.
  intros Hu Hw. exists u. repeat split; auto.
  - apply Forall_app. split; auto. apply finish_wf.
  - now apply measures_shape.
Qed.

Lemma measure_same_index n : 1 <= n ->
  (exists l, hrqft n = Ok l /\ good_shape n l) /\ good_shape n (ghz n) /\ good_shape n (qft n).
Proof.
  intros Hn. repeat split.
  - exists (inverse_u (hrqft_pre n) ++ finish n). split. apply hrqft_ok.
    apply good_shape_intro. apply inverse_u_unitary, hrqft_pre_unitary. apply inverse_u_wf, hrqft_pre_wf.
  - unfold ghz. apply good_shape_intro. apply ghz_unitary_unitary. now apply ghz_unitary_wf.
  - unfold qft. apply good_shape_intro. apply qft_rotations_unitary. apply qft_rotations_wf.
Qed.
