(* C03 — norm preservation in the vocabulary of the end-to-end theorem (rsum over binary_vector), and the end-to-end
   theorem for a normalised initial state: total = 1, no positivity hypothesis, no division. *)
From Coq Require Import List Bool Arith NArith ZArith Lia Reals Lra RealField.
From Coquelicot Require Import Complex.
Require Import QG.Base.Res QG.Base.State QG.Base.Mat QG.Model.FixCounts QG.Model.SimRun QG.Model.NoiseFreeRun QG.Model.SimLoop.
Require Import QG.Proofs.FixCountsKeys QG.Proofs.FixCountsProofs QG.Proofs.SimRunKeys QG.Proofs.SimRunProofs QG.Proofs.RelabelSum QG.Proofs.RelabelMsum.
Require Import QG.Proofs.FrameSim QG.Proofs.NoiseFreeRun QG.Proofs.NoiseFreeRunC QG.Proofs.SimLoop QG.Proofs.SimLoopE2E QG.Proofs.SimLoopC QG.Proofs.NormPres.
Import ListNotations.
Local Open Scope R_scope.

(* the sum over the basis states in index order = the sum over all bit lists of length n *)
Lemma rsum_bv n (g : bits -> R) : (0 < n)%nat -> rsum (map g (binary_vector n)) = bsum R Rplus n g.
Proof.
  intros Hn. rewrite binary_vector_all_keys by assumption. rewrite all_keys_all_bits.
  rewrite (bsum_lsum R 0 1 Rplus Rmult Rminus Ropp RTheory). unfold rsum. rewrite fold_left_lsum. lra.
Qed.

(* NORM PRESERVATION: for every n, every well-formed program and every initial state *)
Theorem ideal_norm_rsum n (p : list (NoiseFreeRun.instr R)) (psi : state C) : Forall (NoiseFreeRun.wf_instr n) p ->
  rsum (map (fun b => Cmod (semC (ideal_itemsC p) psi b) ^ 2) (binary_vector n))
  = rsum (map (fun b => Cmod (psi b) ^ 2) (binary_vector n)).
Proof.
  intros W. destruct n as [|n].
  - destruct p as [|x r]; [reflexivity|]. apply Forall_inv in W. destruct x; cbn [NoiseFreeRun.wf_instr] in W; lia.
  - rewrite !rsum_bv by lia. exact (ideal_norm (S n) p psi W).
Qed.

Lemma marginal_sum_ext (g h : bits -> R) n pos t : (forall b, g b = h b) -> marginal_sum g n pos t = marginal_sum h n pos t.
Proof. intros E. unfold marginal_sum. f_equal. apply map_ext. intros b. apply E. Qed.

Theorem end_to_end_C_normalised (D : Type) (theta : nat -> R) (dur : nat -> D)
  (a : args) (f : front_out) (data : list qinstr) (psi0 : state C) :
  front a = Ok f -> a_circ a = CData true data -> Forall wf_qiskit data ->
  NoDup (map fst (f_meas f)) -> f_nqubit f = Z.of_nat (f_n f) ->
  rsum (map (fun b => Cmod (psi0 b) ^ 2) (binary_vector (f_n f))) = 1 ->
  exists prog, translate R D theta dur (f_used f) (f_nqubit f) data = Ok prog /\
    Forall (NoiseFreeRun.wf_instr (f_n f)) prog /\
    let ideal := fun b => Cmod (semC (ideal_itemsC prog) psi0 b) ^ 2 in
    rsum (map ideal (binary_vector (f_n f))) = 1 /\
    exists out, run_model R 0 Rplus Rdiv rpos a
                  (nf_perform C (RtoC 0) (RtoC 1) Cplus Cmult Copp R D KC R bornC theta dur data psi0) = Ok out /\
      forall t, length t = length (f_meas f) ->
        lookup R t out = Some (marginal_sum ideal (f_n f) (meas_ranks f) t).
Proof.
  intros Hf Hc W NDm Hnq Hpsi.
  destruct (end_to_end_C D theta dur a f data psi0 Hf Hc W NDm Hnq) as (prog & Et & Wp & H).
  exists prog. split; [exact Et|]. split; [exact Wp|]. cbv zeta in *.
  pose proof (ideal_norm_rsum (f_n f) prog psi0 Wp) as Hn. rewrite Hpsi in Hn.
  split; [exact Hn|]. rewrite Hn in H. destruct (H ltac:(lra)) as (out & Er & Hl).
  exists out. split; [exact Er|]. intros t Lt. rewrite (Hl t Lt). f_equal.
  apply marginal_sum_ext. intros b. field.
Qed.
