(* C03 — the choice table of Model/NoiseFreeRun.v IS what circuit.py + gates.py do.
   Everything in this file is decided by reflection (vm_compute) over the model REGENERATED from the sources on every run
   (Gen/GenCircuit.v: gen_handoff, one record per traced circuit-class method and direction; Gen/GenGates.v: gen_nf_*,
   the noise-free matrices as symbolic expressions), and is turned into equalities of complex matrices for ALL real
   phases by the proved soundness of the normaliser (Sym/Sound.v).  The ring-generic theorems about whole runs are in
   Proofs/NoiseFreeRun.v; they talk about `compile`, which is a function of the table checked here.

   For every two-qubit record h (all circuit classes, CNOT / ECR, both directions), with ch = choose2 kind (h_lt h):
     placement    the matrix is placed on [lower index; higher index], and the instruction's control sits in tensor
                  slot c_ctl_slot ch;
     writes       exp(i * (phase the method WRITES for i)) = exp(i * old phase of i) * i^(c_shift_c ch), same for k with
                  c_shift_t ch (a qubit the method does not write keeps its phase: shift 0);
     matrix       the noise-free matrix the gate set returns at the arguments the method PASSES equals
                  gph * (P(new_a) (x) P(new_b))^dagger  K  (P(old_a) (x) P(old_b)),  K = table2 kind (c_ctl_slot ch),
                  gph = c_gph ch — with the SPECIFIC constant of the table (HandoffRefl.frame_two_ok only says "one of").
   For X / SX: matrix at the passed argument = choose1 * P(phi)^dagger K P(phi), no phase written.
   For Rz: nothing is stored, exp(i * new phase) = exp(i * old phase) * exp(i * theta).
   The symbolic textbook tables (CX01t, ...) are the matrices CX01, ... of Proofs/C03Frames.v. *)
From Coq Require Import QArith List String Bool Reals Arith ZArith.
From Coquelicot Require Import Complex.
Require Import QG.Sym.Expr QG.Sym.ExprEq QG.Sym.Norm QG.Sym.Mat QG.Sym.Sound QG.Sym.Subst.
Require Import QG.Model.GateModel QG.Model.Handoff QG.Proofs.GateRefl QG.Proofs.C07Refl QG.Proofs.C03Frames QG.Proofs.HandoffRefl.
Require Import QG.Gen.GenGates QG.Gen.GenCircuit.
Require Import QG.Model.NoiseFreeRun.
Import ListNotations.
Close Scope Q_scope.
Open Scope string_scope.

(* ---- the table's symbols as expressions ---- *)
Definition gph_expr (g : gph) : expr :=
  match g with
  | GOne => z1 | GI => EI | GMI => mi
  | GW1 => cis (ENeg (pi_over 4)) | GW3 => cis (ENeg (EMul (q 3 4) EPi))
  end.
Definition iq_expr (k : Z) : expr :=
  match (k mod 4)%Z with 0%Z => z1 | 1%Z => EI | 2%Z => ENeg z1 | _ => mi end.
Definition ent_expr (e : ent) : expr :=
  match e with
  | E0 => z0 | E1 => z1 | Eh => rt2inv | Ehi => EMul rt2inv EI | Emhi => ENeg (EMul rt2inv EI)
  | Ep => EMul (EMul rt2inv rt2inv) (EAdd z1 EI) | Em => EMul (EMul rt2inv rt2inv) (EAdd z1 (ENeg EI))
  end.
Definition tab_mexpr (t : list (list ent)) : mexpr := MLeaf (map (map ent_expr) t).

(* the symbolic tables are the textbook matrices used by the gate-level and hand-off-level statements *)
Lemma tables_are_textbook :
  mexpr_eqb cf (tab_mexpr CX01t) CX01 && mexpr_eqb cf (tab_mexpr CX10t) CX10 &&
  mexpr_eqb cf (tab_mexpr ECR01t) ECR01 && mexpr_eqb cf (tab_mexpr ECR10t) ECR10 &&
  mexpr_eqb cf (tab_mexpr Xt) Xm && mexpr_eqb cf (tab_mexpr SXt) SXm = true.
Proof. vm_compute. reflexivity. Qed.

(* ---- one record against the table ---- *)
Definition kind2_of (m : string) : option kind2 :=
  if String.eqb m "CNOT" then Some KCX else if String.eqb m "ECR" then Some KECR else None.
Definition kind1_of (m : string) : option kind1 :=
  if String.eqb m "X" then Some KX else if String.eqb m "SX" then Some KSX else None.
Definition nat_opt_eqb (a : option nat) (b : nat) : bool := match a with Some x => Nat.eqb x b | None => false end.
(* exp(i * new phase of qubit s) = exp(i * old phase of qubit s) * i^k *)
Definition shift_ok (h : handoff) (s : nat) (k : Z) : bool :=
  expr_eqb cfc (cis (phi_new h s)) (EMul (cis (phi_old s)) (iq_expr k)).
Definition expected_two (h : handoff) (k : kind2) (ch : choice2) : mexpr :=
  match h_place h with
  | [a; b] => MScale (gph_expr (c_gph ch))
                (MMul (MDag (PP (phi_new h a) (phi_new h b))) (MMul (tab_mexpr (table2 k (c_ctl_slot ch))) (PP (phi_old a) (phi_old b))))
  | _ => MLeaf []
  end.
Definition choice2_ok (h : handoff) : bool :=
  match kind2_of (h_meth h) with
  | Some k =>
      let ch := choose2 k (h_lt h) in
      nats_eqb (h_place h) (if h_lt h then [0; 1] else [1; 0])%nat &&
      nat_opt_eqb (nth_error (h_place h) (c_ctl_slot ch)) 0 &&
      shift_ok h 0 (c_shift_c ch) && shift_ok h 1 (c_shift_t ch) &&
      mexpr_eqb cfc (traced_matrix h) (expected_two h k ch)
  | None => true
  end.
Definition expected_one (k : kind1) : mexpr :=
  MScale (gph_expr (choose1 k)) (MMul (MDag (Pm (phi_old 0))) (MMul (tab_mexpr (table1 k)) (Pm (phi_old 0)))).
Definition traced_one (h : handoff) (k : kind1) : mexpr :=
  msubst [(vi "phi", shiftv (argn h 0))] (match k with KX => gen_nf_X | KSX => gen_nf_SX end).
Definition choice1_ok (h : handoff) : bool :=
  match kind1_of (h_meth h) with
  | Some k => nats_eqb (h_place h) [0%nat] && Nat.eqb (List.length (h_phi h)) 0 && negb (h_lit h) &&
              mexpr_eqb cfc (traced_one h k) (expected_one k)
  | None => true
  end.
(* rz: no matrix; the frame entry is multiplied by exp(i theta) *)
Definition rz_ok (h : handoff) : bool :=
  if String.eqb (h_meth h) "Rz" then
    nats_eqb (h_place h) [] && String.eqb (h_gate h) "" &&
    expr_eqb cfc (cis (phi_new h 0)) (EMul (cis (phi_old 0)) (cis (shiftv (cv "theta")))) &&
    Nat.eqb (List.length (h_phi h)) 1
  else true.
Definition record_ok (h : handoff) : bool := choice2_ok h && choice1_ok h && rz_ok h.

(* every record of every circuit class agrees with the table; the index class has exactly its 4 + 2 + 1 records *)
Definition is_index (h : handoff) : bool := String.eqb (h_cls h) "BinaryCircuit".
Definition relevant (h : handoff) : bool :=
  match kind2_of (h_meth h), kind1_of (h_meth h) with None, None => String.eqb (h_meth h) "Rz" | _, _ => true end.
Lemma table_is_the_code :
  forallb record_ok gen_handoff = true /\
  List.length (filter (fun h => is_index h && relevant h) gen_handoff) = 7%nat /\
  List.length (filter relevant gen_handoff) = 28%nat.
Proof. vm_compute. repeat split; reflexivity. Qed.

(* what the boolean check means: equality of complex matrices for every valuation of the phases *)
Lemma table_is_the_code_sound h : In h gen_handoff ->
  forall k, kind2_of (h_meth h) = Some k ->
  forall rho, interpM rho (traced_matrix h) = interpM rho (expected_two h k (choose2 k (h_lt h))).
Proof.
  intros Hin k Hk rho. apply (mexpr_eq_sound cfc).
  pose proof (proj1 table_is_the_code) as T. rewrite forallb_forall in T. specialize (T h Hin).
  unfold record_ok, choice2_ok in T. rewrite Hk in T.
  repeat (apply andb_prop in T; destruct T as [T ?]). assumption.
Qed.
