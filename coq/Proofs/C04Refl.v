(* C04 — elementary noisy gates follow the Lindblad noisy-gate model: reflection lemmas over the regenerated model.
   Pointwise-in-time statements: every sample variable is replaced by ITS integrand function of the instantaneous
   angle x (here x is the gate's own angle variable theta), all other samples by 0. *)
From Coq Require Import QArith Qreals List String Bool Reals Lra.
From Coquelicot Require Import Complex.
Require Import QG.Sym.Expr QG.Sym.ExprEq QG.Sym.Norm QG.Sym.Mat QG.Sym.Sound QG.Sym.Subst.
Require Import QG.Model.GateModel QG.Model.Composite QG.Proofs.GateRefl QG.Proofs.C07Refl QG.Proofs.C05Refl QG.Gen.GenGates.
Import ListNotations.
Close Scope Q_scope.
Open Scope string_scope.

Definition th : expr := EVar (vi "theta").
Definition ph : expr := EVar (vi "phi").
Definition half (e : expr) : expr := EDiv e (EQ (2#1)%Q).
(* integrand functions of the instantaneous angle *)
Definition g3 : list expr := [ESin th; EPow (ESin (half th)) 2; E1].     (* X, Y, sigma-minus processes: sin w, sin^2(w/2), dW *)
Definition g2 : list expr := [ECos th; ESin th].                         (* Z processes *)
Definition g1 : list expr := [E1].                                       (* plain Wiener increments *)

(* Pauli / lowering operators *)
Definition mk2 (a b c d : expr) : mexpr := MLeaf [[a; b]; [c; d]].
Definition mI := ENeg EI.
Definition LX := mk2 E0 E1 E1 E0.
Definition LY := mk2 E0 mI EI E0.
Definition LZ := mk2 E1 E0 E0 (ENeg E1).
Definition LSm := mk2 E0 E1 E0 E0.          (* sigma-minus = |0><1| *)
Definition P1 := mk2 E0 E0 E0 E1.           (* sigma-plus sigma-minus = |1><1| *)
Definition Id2 := id_mat 2.

Definition sampler_vars (s : sampler) : list nat := match s with SNormal v _ _ => [v] | SMvn vs _ _ => vs end.
Definition all_sample_vars (p : epath) : list nat := flat_map sampler_vars (ep_samplers p).
(* substitution: group j := gs, every other sample := 0 *)
Definition group_subst (p : epath) (j : nat) (gs : list expr) : subst_map :=
  combine (sampler_vars (nth j (ep_samplers p) (SMvn [] [] []))) gs ++ map (fun v => (v, E0)) (all_sample_vars p).
Definition sqrt_vars (p : epath) : list nat := map fst (filter (fun vd => match snd vd with OSqrt _ => true | _ => false end) (ep_defs p)).
(* N restricted to group j equals i * s * U^dag L U for a strength s that is 0 or one of the path's sqrt variables *)
Definition block_strength (p : epath) (j : nat) (gs : list expr) (L : mexpr) : option expr :=
  let lhs := msubst (group_subst p j gs) (ep_N p) in
  let rhs s := MScale (EMul EI s) (MMul (MDag (ep_U p)) (MMul L (ep_U p))) in
  find (fun s => all_real (group_subst p j gs) && mexpr_eqb cf lhs (msubst (group_subst p j gs) (rhs s))) (E0 :: map EVar (sqrt_vars p)).
Definition is_some {A} (o : option A) : bool := match o with Some _ => true | None => false end.

(* ---- driven single-qubit gate: five Lindblad operators, in the order the code draws their samples ---- *)
Definition sq_blocks : list (list expr * mexpr) := [(g3, LX); (g3, LY); (g2, LZ); (g3, LSm); (g2, LZ)].
Definition sq_blocks_ok (p : epath) : bool :=
  Nat.eqb (List.length (ep_samplers p)) 5 &&
  forallb (fun jb => is_some (block_strength p (fst jb) (fst (snd jb)) (snd (snd jb)))) (combine (seq 0 5) sq_blocks).
Lemma interaction_picture_sq : forallb sq_blocks_ok gen_sq_paths = true.
Proof. vm_compute. reflexivity. Qed.

(* on the all-noise path the five strengths are three distinct sqrt variables: ed (X, Y, Z), e1 (sigma-minus), ep (Z dephasing) *)
Definition sq_full : epath := nth 0 gen_sq_paths gen_sq_zero.
Definition sq_strengths : list (option expr) := map (fun jb => block_strength sq_full (fst jb) (fst (snd jb)) (snd (snd jb))) (combine (seq 0 5) sq_blocks).
Definition strength_var (o : option expr) : nat := match o with Some (EVar v) => v | _ => 4999 end.
Definition v_ed : nat := Eval vm_compute in strength_var (nth 0 sq_strengths None).
Definition v_e1 : nat := Eval vm_compute in strength_var (nth 3 sq_strengths None).
Definition v_ep : nat := Eval vm_compute in strength_var (nth 4 sq_strengths None).
(* their definitions: ed = sqrt(p/4); e1 = sqrt(tg * (1/T1)); ep = sqrt((1/2) * (e2^2 - e1^2/2)), e2 = sqrt(tg * (1/T2)) *)
Definition def_of (p : epath) (v : nat) : option odef := lookup_def v (ep_defs p).
Definition e2_var : option nat := Eval vm_compute in find_e1 (ep_defs sq_full) (vi "T2").
Definition v_e2 : nat := Eval vm_compute in match e2_var with Some v => v | None => 4999%nat end.
Definition ed_arg : expr := Eval vm_compute in match def_of sq_full v_ed with Some (OSqrt e) => e | _ => EVar 4999 end.
Definition ep_arg : expr := Eval vm_compute in match def_of sq_full v_ep with Some (OSqrt e) => e | _ => EVar 4999 end.
Definition sq_full_defs : list (nat * odef) := Eval vm_compute in ep_defs sq_full.
Lemma sq_full_defs_eq : ep_defs sq_full = sq_full_defs. Proof. vm_compute. reflexivity. Qed.
Lemma ed_def : lookup_def v_ed sq_full_defs = Some (OSqrt ed_arg). Proof. vm_compute. reflexivity. Qed.
Lemma ep_def : lookup_def v_ep sq_full_defs = Some (OSqrt ep_arg). Proof. vm_compute. reflexivity. Qed.
Lemma e1_found : find_e1 sq_full_defs (vi "T1") = Some v_e1. Proof. vm_compute. reflexivity. Qed.
Lemma e2_found : find_e1 sq_full_defs (vi "T2") = Some v_e2. Proof. vm_compute. reflexivity. Qed.
Lemma ed_arg_spec : expr_eqb cf ed_arg (EDiv (EVar (vi "p")) (EQ (4#1)%Q)) = true. Proof. vm_compute. reflexivity. Qed.
Lemma ep_arg_spec : expr_eqb cf ep_arg (EMul (EQ (1#2)%Q) (ESub (EPow (EVar v_e2) 2) (EDiv (EPow (EVar v_e1) 2) (EQ (2#1)%Q)))) = true.
Proof. vm_compute. reflexivity. Qed.
Definition sq_strength_defs_ok : bool :=
  match def_of sq_full v_ed, find_e1 (ep_defs sq_full) (vi "T1"), e2_var, def_of sq_full v_ep with
  | Some (OSqrt ed_arg), Some e1v, Some e2v, Some (OSqrt ep_arg) =>
      expr_eqb cf ed_arg (EDiv (EVar (vi "p")) (EQ (4#1)%Q)) && Nat.eqb e1v v_e1 &&
      expr_eqb cf ep_arg (EMul (EQ (1#2)%Q) (ESub (EPow (EVar e2v) 2) (EDiv (EPow (EVar e1v) 2) (EQ (2#1)%Q)))) &&
      negb (Nat.eqb v_ed v_e1) && negb (Nat.eqb v_ed v_ep) && negb (Nat.eqb v_e1 v_ep)
  | _, _, _, _ => false end.
Lemma strengths_sq_defs : sq_strength_defs_ok = true.
Proof. vm_compute. reflexivity. Qed.
(* the three depolarising blocks share ed *)
Lemma strengths_sq_shared : strength_var (nth 1 sq_strengths None) = v_ed /\ strength_var (nth 2 sq_strengths None) = v_ed.
Proof. vm_compute. split; reflexivity. Qed.

(* ---- covariances: entry (a,b) of a sampler's covariance is the integrator key whose integrand is g_a * g_b ---- *)
Fixpoint lookup_key (k : string) (l : list (string * expr)) : option expr :=
  match l with [] => None | (k', e) :: r => if String.eqb k k' then Some e else lookup_key k r end.
Definition integrand_at_theta (key : string) : option expr :=
  option_map (subst [(vi "x", th)]) (lookup_key key gen_integrands).
Definition is_one (e : expr) : bool := expr_beq e E1.
Definition cov_entry_ok (p : epath) (dur : expr) (ga gb entry : expr) : bool :=
  if is_one ga && is_one gb then expr_same entry dur
  else match entry with
       | EVar v => match def_of p v with
                   | Some (OInt key _ _) => match integrand_at_theta key with Some lam => expr_eqb cf lam (EMul ga gb) | None => false end
                   | _ => false end
       | _ => false end.
Definition sampler_ok (p : epath) (dur : expr) (s : sampler) (gs : list expr) : bool :=
  match s with
  | SMvn vs mean cov =>
      Nat.eqb (List.length vs) (List.length gs) && forallb (fun m => expr_same m E0) mean && Nat.eqb (List.length cov) (List.length gs) &&
      forallb (fun ra => Nat.eqb (List.length (snd ra)) (List.length gs) &&
                         forallb (fun cb => cov_entry_ok p dur (fst ra) (fst cb) (snd cb)) (combine gs (snd ra))) (combine gs cov)
  | SNormal v mean std =>
      Nat.eqb (List.length gs) 1 && expr_same mean E0 &&
      match std with EVar o => match def_of p o with Some (OSqrt e) => expr_same e dur | _ => false end | _ => false end
  end.
Definition samplers_ok (p : epath) (dur : expr) (blocks : list (list expr * mexpr)) : bool :=
  Nat.eqb (List.length (ep_samplers p)) (List.length blocks) &&
  forallb (fun sb => sampler_ok p dur (fst sb) (fst (snd sb))) (combine (ep_samplers p) blocks).
Lemma covariance_is_ito_sq : forallb (fun p => samplers_ok p E1 sq_blocks) gen_sq_paths = true.
Proof. vm_compute. reflexivity. Qed.

(* ---- drift: minus one half of U^dag (L^dag L - L^2) U for L = sqrt(tg/T1) sigma-minus (the X, Y, Z operators square to the identity) ---- *)
Definition int_subst (p : epath) : subst_map :=
  flat_map (fun vd => match snd vd with OInt key _ _ => match integrand_at_theta key with Some lam => [(fst vd, lam)] | None => [] end | _ => [] end) (ep_defs p).
Definition drift_sq_ok (p : epath) : bool :=
  mexpr_eqb cf (msubst (int_subst p) (ep_D p))
               (MScale (EMul (EQ (-1#2)%Q) (EPow (sq_e1 p) 2)) (MMul (MDag (ep_U p)) (MMul P1 (ep_U p)))).
Lemma drift_sq : forallb drift_sq_ok gen_sq_paths = true.
Proof. vm_compute. reflexivity. Qed.
Lemma lindblad_drift_operators :
  (* L^dag L - L^2 for the five operators: 0 for X, Y, Z (unitary and Hermitian), |1><1| for sigma-minus *)
  mexpr_eqb cf (MAdd (MMul (MDag LX) LX) (MScale (EQ (-1#1)%Q) (MMul LX LX))) (zero_mat 2) = true /\
  mexpr_eqb cf (MAdd (MMul (MDag LY) LY) (MScale (EQ (-1#1)%Q) (MMul LY LY))) (zero_mat 2) = true /\
  mexpr_eqb cf (MAdd (MMul (MDag LZ) LZ) (MScale (EQ (-1#1)%Q) (MMul LZ LZ))) (zero_mat 2) = true /\
  mexpr_eqb cf (MAdd (MMul (MDag LSm) LSm) (MScale (EQ (-1#1)%Q) (MMul LSm LSm))) P1 = true.
Proof. vm_compute. repeat split. Qed.

(* ---- cross-resonance gate: ten Lindblad operators on two qubits ---- *)
Definition K (a b : mexpr) : mexpr := MKron a b.
Definition cr_blocks : list (list expr * mexpr) :=
  [(g2, K LSm Id2); (g3, K Id2 LSm); (g1, K LZ Id2); (g2, K Id2 LZ);
   (g2, K LX Id2); (g2, K LY Id2); (g1, K LZ Id2); (g3, K Id2 LX); (g3, K Id2 LY); (g2, K Id2 LZ)].
Definition cr_blocks_ok (p : epath) : bool :=
  Nat.eqb (List.length (ep_samplers p)) 10 &&
  forallb (fun jb => is_some (block_strength p (fst jb) (fst (snd jb)) (snd (snd jb)))) (combine (seq 0 10) cr_blocks).
Lemma interaction_picture_cr : forallb cr_blocks_ok gen_cr_paths = true.
Proof. vm_compute. reflexivity. Qed.
Lemma covariance_is_ito_cr : forallb (fun p => samplers_ok p cr_a cr_blocks) gen_cr_paths = true.
Proof. vm_compute. reflexivity. Qed.

Definition cr_full : epath := nth 0 gen_cr_paths gen_cr_zero.
Definition cr_strengths : list (option expr) := map (fun jb => block_strength cr_full (fst jb) (fst (snd jb)) (snd (snd jb))) (combine (seq 0 10) cr_blocks).
Definition c_e1c : nat := Eval vm_compute in strength_var (nth 0 cr_strengths None).
Definition c_e1t : nat := Eval vm_compute in strength_var (nth 1 cr_strengths None).
Definition c_epc : nat := Eval vm_compute in strength_var (nth 2 cr_strengths None).
Definition c_ept : nat := Eval vm_compute in strength_var (nth 3 cr_strengths None).
Definition c_ed : nat := Eval vm_compute in strength_var (nth 4 cr_strengths None).
Definition cr_strength_defs_ok : bool :=
  let d := ep_defs cr_full in
  match find_e1 d (vi "T1c"), find_e1 d (vi "T1t"), find_e1 d (vi "T2c"), find_e1 d (vi "T2t"), def_of cr_full c_epc, def_of cr_full c_ept, def_of cr_full c_ed with
  | Some a, Some b, Some e2c, Some e2t, Some (OSqrt epc), Some (OSqrt ept), Some (OSqrt edarg) =>
      Nat.eqb a c_e1c && Nat.eqb b c_e1t &&
      expr_eqb cf epc (EMul (EQ (1#2)%Q) (ESub (EPow (EVar e2c) 2) (EDiv (EPow (EVar a) 2) (EQ (2#1)%Q)))) &&
      expr_eqb cf ept (EMul (EQ (1#2)%Q) (ESub (EPow (EVar e2t) 2) (EDiv (EPow (EVar b) 2) (EQ (2#1)%Q)))) &&
      (* ed_cr = sqrt(p_cr * (1 / (4 a))) with the inverse opaque *)
      match edarg with
      | EMul (EVar pv) (EVar iv) => Nat.eqb pv (vi "p_cr") && match def_of cr_full iv with Some (OInv e) => expr_eqb cf e (EMul (EQ (4#1)%Q) cr_a) | _ => false end
      | _ => false end &&
      forallb (fun j => Nat.eqb (strength_var (nth j cr_strengths None)) c_ed) [5; 6; 7; 8; 9]%nat
  | _, _, _, _, _, _, _ => false end.
Lemma strengths_cr_defs : cr_strength_defs_ok = true.
Proof. vm_compute. reflexivity. Qed.

(* CR drift, pointwise: integrator values replaced by their integrands at theta and the duration a = t_cr/tg by 1 *)
Definition drift_cr_ok (p : epath) : bool :=
  mexpr_eqb cf (msubst ((vi "t_cr", tg) :: int_subst p) (ep_D p))
    (MAdd (MScale (EMul (EQ (-1#2)%Q) (EPow (cr_e1c p) 2)) (MMul (MDag (ep_U p)) (MMul (K P1 Id2) (ep_U p))))
          (MScale (EMul (EQ (-1#2)%Q) (EPow (cr_e1t p) 2)) (MMul (MDag (ep_U p)) (MMul (K Id2 P1) (ep_U p))))).
Lemma drift_cr : forallb drift_cr_ok gen_cr_paths = true.
Proof. vm_compute. reflexivity. Qed.

(* ---- exact samplers ---- *)
(* idle depolarisation: generator i * ed * (W1 X + W2 Y + W3 Z), three independent N(0, Dt/tg) draws, ed^2 = p/4 *)
Definition depol_path : epath := {| ep_dec := []; ep_U := Id2; ep_D := zero_mat 2; ep_N := gen_depol_N; ep_samplers := gen_depol_samplers; ep_defs := gen_depol_defs |}.
Definition depol_blocks : list (list expr * mexpr) := [(g1, LX); (g1, LY); (g1, LZ)].
Definition depol_dur : expr := EDiv (EVar (vi "Dt")) tg.
Definition depol_ok : bool :=
  forallb (fun jb => is_some (block_strength depol_path (fst jb) (fst (snd jb)) (snd (snd jb)))) (combine (seq 0 3) depol_blocks) &&
  samplers_ok depol_path depol_dur depol_blocks &&
  match block_strength depol_path 0 g1 LX with
  | Some (EVar v) => match def_of depol_path v with Some (OSqrt e) => expr_eqb cf e (EDiv (EVar (vi "p")) (EQ (4#1)%Q)) | _ => false end
  | _ => false end.
Lemma depolarizing_model : depol_ok = true.
Proof. vm_compute. reflexivity. Qed.
(* read-out bit flip: G = cos(u) I + i sin(u) X with u = e * W, W ~ N(0, tm/tg), e = sqrt(rout * (1 / (tm/tg))) *)
Definition bitflip_ok : bool :=
  match gen_bitflip_samplers, find (fun vd => match snd vd with OProd _ => true | _ => false end) gen_bitflip_defs with
  | [SNormal w mean (EVar so)], Some (u, OProd (EMul (EVar e) (EVar w'))) =>
      Nat.eqb w w' && expr_same mean E0 &&
      mexpr_eqb cf gen_bitflip_G (MAdd (MScale (ECos (EVar u)) Id2) (MScale (EMul EI (ESin (EVar u))) LX)) &&
      match lookup_def so gen_bitflip_defs, lookup_def e gen_bitflip_defs with
      | Some (OSqrt sarg), Some (OSqrt (EMul (EVar r) (EVar iv))) =>
          expr_same sarg (EDiv (EVar (vi "tm")) tg) && Nat.eqb r (vi "rout") &&
          match lookup_def iv gen_bitflip_defs with Some (OInv ie) => expr_same ie (EDiv (EVar (vi "tm")) tg) | _ => false end
      | _, _ => false end
  | _, _ => false end.
Lemma bitflip_model : bitflip_ok = true.
Proof. vm_compute. reflexivity. Qed.

(* ---- ScaledNoiseGates(s): the wrapped gate set is called with p * s and T / s ---- *)
Definition scaled_ok (m : string * list expr * list (nat * odef)) (name : string) (spec : list (nat -> expr)) : bool :=
  let '(callee, args, defs) := m in
  String.eqb callee name &&
  match find (fun vd => match snd vd with OInv (EVar v) => Nat.eqb v (vi "s") | _ => false end) defs with
  | Some (iv, _) => Nat.eqb (List.length args) (List.length spec) && forallb (fun ae => expr_same (fst ae) (snd ae iv)) (combine args spec)
  | None => Nat.eqb (List.length args) (List.length spec) && forallb (fun ae => expr_same (fst ae) (snd ae 4999%nat)) (combine args spec)
  end.
Definition same (n : string) : nat -> expr := fun _ => EVar (vi n).
Definition times_s (n : string) : nat -> expr := fun _ => EMul (EVar (vi n)) (EVar (vi "s")).
Definition over_s (n : string) : nat -> expr := fun iv => EMul (EVar (vi n)) (EVar iv).
Definition comp_spec : list (nat -> expr) :=
  [same "phc"; same "pht"; same "t"; times_s "p2"; times_s "pc"; times_s "pt"; over_s "T1c"; over_s "T2c"; over_s "T1t"; over_s "T2t"].
Lemma scaled_noise_gates :
  scaled_ok gen_scaled_X "X" [same "phi"; times_s "p"; over_s "T1"; over_s "T2"] &&
  scaled_ok gen_scaled_SX "SX" [same "phi"; times_s "p"; over_s "T1"; over_s "T2"] &&
  scaled_ok gen_scaled_single_qubit_gate "single_qubit_gate" [same "theta"; same "phi"; times_s "p"; over_s "T1"; over_s "T2"] &&
  scaled_ok gen_scaled_CR "CR" [same "theta"; same "phi"; same "t_cr"; times_s "p_cr"; over_s "T1c"; over_s "T2c"; over_s "T1t"; over_s "T2t"] &&
  scaled_ok gen_scaled_relaxation "relaxation" [same "Dt"; over_s "T1"; over_s "T2"] &&
  scaled_ok gen_scaled_depolarizing "depolarizing" [same "Dt"; times_s "p"] &&
  scaled_ok gen_scaled_bitflip "bitflip" [same "Dt"; times_s "p"] &&
  scaled_ok gen_scaled_CNOT "CNOT" comp_spec && scaled_ok gen_scaled_CNOT_inv "CNOT_inv" comp_spec &&
  scaled_ok gen_scaled_ECR "ECR" comp_spec && scaled_ok gen_scaled_ECR_inv "ECR_inv" comp_spec = true.
Proof. vm_compute. reflexivity. Qed.
(* Gates(pulse) forwards every method to its factory with the arguments unchanged and in order *)
Definition fwd_ok (m : list expr * list expr) : bool := exprs_beq (fst m) (snd m).
Lemma gates_forwarding :
  fwd_ok gen_gates_fwd_relaxation && fwd_ok gen_gates_fwd_bitflip && fwd_ok gen_gates_fwd_depolarizing && fwd_ok gen_gates_fwd_single_qubit_gate &&
  fwd_ok gen_gates_fwd_X && fwd_ok gen_gates_fwd_SX && fwd_ok gen_gates_fwd_CR && fwd_ok gen_gates_fwd_CNOT && fwd_ok gen_gates_fwd_CNOT_inv &&
  fwd_ok gen_gates_fwd_ECR && fwd_ok gen_gates_fwd_ECR_inv = true.
Proof. vm_compute. reflexivity. Qed.
