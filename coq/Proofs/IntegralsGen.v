(* C12 — lemmas about the GENERATED definitions (Gen/GenIntegrator.v, regenerated from integrator.py every run):
   the lambdas are the specified integrands / closed forms, and the three methods return the specified integral. *)
From Coq Require Import Reals Lra Lia String.
From Coquelicot Require Import Coquelicot.
Require Import QG.Model.Integrals QG.Proofs.Integrals QG.Gen.GenIntegrator.
Open Scope R_scope.

Lemma keys_agree (k : key) : GEN_key_string k = key_string k.
Proof. destruct k; reflexivity. Qed.

(* the name of each integrand, read as a formula at a = 1, is g *)
Lemma keyexpr_is_g (k : key) (x : R) : KEYEXPR k x 1 = g k x.
Proof.
  destruct k; unfold KEYEXPR, g;
    try replace (x / 1) with x by field; try replace (x / (2 * 1)) with (x / 2) by field; reflexivity.
Qed.

(* the lambdas of _INTEGRAL_LOOKUP take (angle * a, a) and evaluate g at the angle *)
Lemma lookup_is_g (k : key) (x a : R) : a <> 0 -> INTEGRAL k x a = g k (x / a).
Proof.
  intros Ha.
  destruct k; unfold INTEGRAL, INTEGRAL_K_sin2, INTEGRAL_K_sin4h, INTEGRAL_K_sin_sin2h, INTEGRAL_K_sin2h,
    INTEGRAL_K_cos2, INTEGRAL_K_sincos, INTEGRAL_K_sin, INTEGRAL_K_cos2h, g;
    try replace (x / (2 * a)) with (x / a / 2) by (field; exact Ha); reflexivity.
Qed.

(* the lambdas of _RESULT_LOOKUP are the closed value (a/theta)(H theta - H 0) *)
Lemma result_is_closed (k : key) (theta a : R) : theta <> 0 -> RESULT k theta a = closed k theta a.
Proof.
  intros Hth.
  destruct k; unfold RESULT, RESULT_K_sin2, RESULT_K_sin4h, RESULT_K_sin_sin2h, RESULT_K_sin2h,
    RESULT_K_cos2, RESULT_K_sincos, RESULT_K_sin, RESULT_K_cos2h, closed, H;
    try replace (2 * 0) with 0 by ring; try replace (0 / 2) with 0 by field;
    rewrite ?sin_0, ?cos_0; field; exact Hth.
Qed.

(* the closed forms are the integrals, in the argument convention of the code *)
Lemma analytic_closed_form (k : key) (theta a : R) : theta <> 0 -> 0 < a ->
  is_RInt (fun t => INTEGRAL k (theta * t) a) 0 a (RESULT k theta a).
Proof.
  intros Hth Ha. rewrite result_is_closed by exact Hth.
  apply (is_RInt_ext (fun t => g k (theta * (t / a)))).
  - intros t _. rewrite lookup_is_g by lra. f_equal. field. lra.
  - now apply spec_const_closed.
Qed.

(* _analytical_integration, both branches, is the specified integral for F = id *)
Lemma analytic_spec (k : key) (theta a : R) : 0 < a ->
  is_RInt (fun t => g k (theta * (t / a))) 0 a (analytical_integration k theta a).
Proof.
  intros Ha. unfold analytical_integration.
  destruct (Req_EM_T theta 0) as [E | NE].
  - subst theta. rewrite lookup_is_g by lra. replace (0 / a) with 0 by (field; lra). apply spec_const_zero.
  - rewrite result_is_closed by exact NE. now apply spec_const_closed.
Qed.

Lemma analytic_zero (k : key) (a : R) : 0 < a ->
  analytical_integration k 0 a = a * g k 0 /\ is_RInt (fun t => g k (0 * (t / a))) 0 a (analytical_integration k 0 a).
Proof.
  intros Ha. split; [| now apply analytic_spec].
  unfold analytical_integration. destruct (Req_EM_T 0 0) as [_ | NE]; [| now elim NE].
  rewrite lookup_is_g by lra. replace (0 / a) with 0 by (field; lra). reflexivity.
Qed.

(* the theta = 0 branch returns the limit of the closed form *)
Lemma analytic_zero_limit (k : key) (a : R) : 0 < a ->
  is_lim (fun theta => RESULT k theta a) 0 (analytical_integration k 0 a).
Proof.
  intros Ha. rewrite (proj1 (analytic_zero k a Ha)).
  apply (is_lim_ext_loc (fun theta => closed k theta a)).
  - exists (mkposreal 1 Rlt_0_1). intros y _ Hne. symmetry. apply result_is_closed.
    intros E. apply Hne. now rewrite E.
  - apply closed_limit.
Qed.

(* numerical route: the function handed to quad is the specified integrand, pointwise, for every F *)
Lemma numeric_is_spec (F : R -> R) (k : key) (theta a t : R) : a <> 0 ->
  quad_integrand F k theta a t = spec_integrand F k theta a t.
Proof.
  intros Ha. unfold quad_integrand, spec_integrand. rewrite lookup_is_g by exact Ha. f_equal. field. exact Ha.
Qed.

Lemma integrand_p_is_spec (F : R -> R) (k : key) (theta a t : R) : a <> 0 ->
  integrand_p F k theta a t = spec_integrand F k theta a t.
Proof.
  intros Ha. unfold integrand_p, spec_integrand. rewrite lookup_is_g by exact Ha. f_equal. field. exact Ha.
Qed.

Lemma scaled_param_ends (F : R -> R) (k : key) (theta a : R) : a <> 0 -> F 0 = 0 -> F 1 = 1 ->
  scaled_param F k theta a 0 = 0 /\ scaled_param F k theta a a = a * theta.
Proof.
  intros Ha F0 F1. unfold scaled_param. replace (0 / a) with 0 by (field; exact Ha).
  replace (a / a) with 1 by (field; exact Ha). rewrite F0, F1. split; ring.
Qed.

Lemma quad_bounds (k : key) (theta a : R) : quad_lower k theta a = 0 /\ quad_upper k theta a = a.
Proof. split; reflexivity. Qed.

Lemma numerical_eq_RInt (F : R -> R) (k : key) (theta a : R) : a <> 0 ->
  numerical_integration F k theta a = RInt (spec_integrand F k theta a) 0 a.
Proof.
  intros Ha. unfold numerical_integration, quad. apply RInt_ext. intros t _.
  apply (numeric_is_spec F k theta a t Ha).
Qed.

Lemma numerical_spec (F : R -> R) (k : key) (theta a : R) :
  0 < a -> (forall x, 0 <= x <= 1 -> continuous F x) ->
  is_RInt (spec_integrand F k theta a) 0 a (numerical_integration F k theta a).
Proof.
  intros Ha HF. rewrite numerical_eq_RInt by lra.
  apply (RInt_correct (spec_integrand F k theta a) 0 a). now apply spec_integrable.
Qed.

(* constant pulse: both routes integrate the same function and return the same number, for every theta *)
Lemma const_pulse_pointwise (k : key) (theta a t : R) : a <> 0 ->
  quad_integrand (fun x => x) k theta a t = INTEGRAL k (theta * t) a.
Proof.
  intros Ha. unfold quad_integrand. f_equal. field. exact Ha.
Qed.

Lemma const_pulse_agree (k : key) (theta a : R) : 0 < a ->
  numerical_integration (fun x => x) k theta a = analytical_integration k theta a.
Proof.
  intros Ha. rewrite numerical_eq_RInt by lra.
  apply is_RInt_unique. unfold spec_integrand. now apply analytic_spec.
Qed.

(* integrate on a cache miss *)
Lemma integrate_spec (use_lookup : bool) (F : R -> R) (k : key) (theta a : R) :
  integrate_requires k theta a ->
  (forall x, 0 <= x <= 1 -> continuous F x) ->
  (use_lookup = true -> forall x, 0 < x < 1 -> F x = x) ->
  is_RInt (spec_integrand F k theta a) 0 a (integrate_cold use_lookup F k theta a).
Proof.
  unfold integrate_requires. intros Hreq HF Hid.
  assert (Ha : 0 < a) by lra.
  unfold integrate_cold. destruct use_lookup.
  - apply (is_RInt_ext (fun t => g k (theta * (t / a)))).
    + rewrite Rmin_left, Rmax_right by lra. intros t Ht. unfold spec_integrand. rewrite Hid; auto.
      split.
      * apply Rdiv_lt_0_compat; lra.
      * apply (Rmult_lt_reg_r a). lra. unfold Rdiv. rewrite Rmult_assoc, Rinv_l; lra.
    + now apply analytic_spec.
  - now apply numerical_spec.
Qed.
