(* C18 — ghz_state: for every n >= 1 the GHZ circuit maps |0..0> to amplitude h at all-zeros and at all-ones and
   0 elsewhere. *)
From Coq Require Import List Bool Arith ZArith Lia Ring.
Require Import QG.Base.Res QG.Base.State QG.Base.PathProd QG.Model.Bench QG.Proofs.BenchLists QG.Proofs.BenchSem.
Import ListNotations.

(* boolean list facts *)
Definition allfalse (t : bits) : bool := forallb negb t.
Definition alleq (x : bool) (t : bits) : bool := forallb (Bool.eqb x) t.
(* after the Hadamard and j CNOTs: bits 0..j agree, the others are 0 *)
Definition ghzb (j : nat) (b : bits) : bool :=
  match b with [] => false | x :: t => alleq x (firstn j t) && allfalse (skipn j t) end.

Lemma firstn_upd_same t : forall j v, firstn j (upd t j v) = firstn j t.
Proof. induction t as [|y t IH]; intros [|j] v; simpl; auto. now rewrite IH. Qed.
Lemma skipn_upd_same t : forall j v, j < length t -> skipn j (upd t j v) = v :: skipn (S j) t.
Proof. induction t as [|y t IH]; intros [|j] v H; simpl in *; try lia; auto. apply IH. lia. Qed.
Lemma firstn_S_get t : forall j, j < length t -> firstn (S j) t = firstn j t ++ [get t j].
Proof.
  induction t as [|y t IH]; intros [|j] H; simpl in *; try lia; auto.
  unfold get; simpl. fold (get t j). f_equal. apply IH. lia.
Qed.
Lemma alleq_app x a b : alleq x (a ++ b) = alleq x a && alleq x b.
Proof. unfold alleq. apply forallb_app. Qed.
Lemma allfalse_repeat t : bits_eqb t (repeat false (length t)) = allfalse t.
Proof. induction t as [|y t IH]; simpl; auto. rewrite IH. destruct y; reflexivity. Qed.
Lemma alleq_repeat x t : alleq x t = bits_eqb t (repeat x (length t)).
Proof. induction t as [|y t IH]; simpl; auto. rewrite IH. destruct x, y; reflexivity. Qed.

Lemma ghzb_step j b : S j < length b ->
  ghzb j (upd b (S j) (xorb (get b (S j)) (get b 0))) = ghzb (S j) b.
Proof.
  destruct b as [|x t]; cbn [length]; intros H; [lia|].
  assert (Hj : j < length t) by lia.
  change (get (x :: t) (S j)) with (get t j). change (get (x :: t) 0) with x.
  cbn [upd ghzb].
  rewrite firstn_upd_same, (skipn_upd_same t j _ Hj).
  rewrite (firstn_S_get t j Hj), alleq_app.
  unfold allfalse, alleq. simpl.
  destruct (forallb (Bool.eqb x) (firstn j t)), (forallb negb (skipn (S j) t)), x, (get t j); reflexivity.
Qed.

Section GHZ.
Variable P : PhaseRing.
Notation R := (pR P).
Notation rO := (p0 P). Notation rI := (p1 P).
Notation radd := (padd P). Notation rmul := (pmul P). Notation ropp := (popp P).
Notation e := (pe P). Notation h := (ph P).
Add Ring Rghz : (pth P).
Infix "[+]" := (padd P) (at level 50, left associativity).
Infix "[*]" := (pmul P) (at level 40, left associativity).
Notation seq_n n := (state_eq R n).
Notation ket0 n := (ket R rO rI (repeat false n)).

Definition gst (j : nat) : state R := fun b => if ghzb j b then h else rO.

Lemma circ_items_finish n : circ_items R rO rI ropp e h (finish n) = [].
Proof.
  unfold finish, circ_items. simpl. generalize 0. induction n as [|m IH]; intros s; simpl; auto.
Qed.
Lemma csem_finish n psi : csem P (finish n) psi = psi.
Proof. unfold csem. now rewrite circ_items_finish. Qed.

Lemma ghz_start n : 1 <= n -> seq_n n (gsem P (H 0) (ket0 n)) (gst 0).
Proof.
  intros Hn b L. rewrite gsem_H, H_act. destruct b as [|x t]; simpl in L; [lia|].
  destruct n as [|m]; [lia|]. assert (Lt : length t = m) by lia.
  unfold gst, ket. simpl. rewrite <- Lt, allfalse_repeat. unfold allfalse.
  destruct (forallb negb t), x; simpl; ring.
Qed.

Lemma ghz_cx n j : S j < n -> seq_n n (gsem P (CX 0 (S j)) (gst j)) (gst (S j)).
Proof.
  intros Hj b L. rewrite gsem_CX, cx_act. unfold gst. rewrite ghzb_step by lia. reflexivity.
Qed.

Lemma ghz_loop n : forall len j, S j + len <= n ->
  seq_n n (csem P (map (fun t => CX 0 t) (seq (S j) len)) (gst j)) (gst (j + len)).
Proof.
  induction len as [|len IH]; intros j Hj.
  - simpl. rewrite Nat.add_0_r. apply state_eq_refl.
  - simpl map. rewrite csem_cons.
    eapply state_eq_trans.
    + apply csem_ext. apply ghz_cx. lia.
    + replace (j + S len) with (S j + len) by lia. apply IH. lia.
Qed.

Lemma ghz_final n b : 1 <= n -> length b = n ->
  ghzb (n - 1) b = bits_eqb b (repeat false n) || bits_eqb b (repeat true n).
Proof.
  intros Hn L. destruct b as [|x t]; simpl in L; [lia|].
  destruct n as [|m]; [lia|]. assert (Lt : length t = m) by lia.
  simpl. rewrite Nat.sub_0_r. rewrite <- Lt, firstn_all, skipn_all. simpl. rewrite andb_true_r.
  rewrite alleq_repeat. destruct x; simpl.
  - reflexivity.
  - now rewrite orb_false_r.
Qed.

Theorem ghz_state n b : 1 <= n -> length b = n ->
  csem P (ghz n) (ket0 n) b = if bits_eqb b (repeat false n) || bits_eqb b (repeat true n) then h else rO.
Proof.
  intros Hn L. unfold ghz. rewrite csem_app, csem_finish. unfold ghz_unitary. rewrite csem_cons.
  rewrite <- (ghz_final n b Hn L).
  assert (E : seq_n n (csem P (map (fun t => CX 0 t) (seq 1 (n - 1))) (gsem P (H 0) (ket0 n))) (gst (n - 1))).
  { eapply state_eq_trans.
    - apply csem_ext. now apply ghz_start.
    - replace (n - 1) with (0 + (n - 1)) at 2 by lia. apply ghz_loop. lia. }
  rewrite (E b L). reflexivity.
Qed.

End GHZ.
