(* Concrete linear algebra on 2x2 and 4x4 list-matrices over Coquelicot's C: associativity, dagger of a product,
   Kronecker mixed product, determinants and traces. Everything is proved by unfolding to entries and `ring`. *)
From Coq Require Import Reals List Lra.
From Coquelicot Require Import Complex.
Require Import QG.Sym.Expr.
Import ListNotations.
Open Scope C_scope.

Ltac mat_unfold := cbv [Cm_mul Cm_dag Cm_kron Cm_scale Cm_add lm_mul lm_dag lm_kron lm_scale lm_add lm_col lm_dot lm_ncols
                        map seq hd nth length combine fold_right fst snd flat_map app].
Ltac conj_push := repeat first [ rewrite Cconj_plus | rewrite Cconj_mult | rewrite Cconj_R | rewrite Cconj_invol ].
Ltac list_split := repeat match goal with |- cons _ _ = cons _ _ => f_equal end.
Ltac mat_eq := mat_unfold; list_split; conj_push; ring.

Definition I2 : Cmat := [[(RtoC 1); (RtoC 0)]; [(RtoC 0); (RtoC 1)]].
Definition I4 : Cmat := [[(RtoC 1); (RtoC 0); (RtoC 0); (RtoC 0)]; [(RtoC 0); (RtoC 1); (RtoC 0); (RtoC 0)]; [(RtoC 0); (RtoC 0); (RtoC 1); (RtoC 0)]; [(RtoC 0); (RtoC 0); (RtoC 0); (RtoC 1)]].
Definition Z2 : Cmat := [[(RtoC 0); (RtoC 0)]; [(RtoC 0); (RtoC 0)]].
Definition Z4 : Cmat := [[(RtoC 0); (RtoC 0); (RtoC 0); (RtoC 0)]; [(RtoC 0); (RtoC 0); (RtoC 0); (RtoC 0)]; [(RtoC 0); (RtoC 0); (RtoC 0); (RtoC 0)]; [(RtoC 0); (RtoC 0); (RtoC 0); (RtoC 0)]].

Definition sq2 (m : Cmat) : Prop := exists x00 x01 x10 x11 : C, m = [[x00; x01]; [x10; x11]].
Definition det2 (m : Cmat) : C :=
  match m with
  | [[x00; x01]; [x10; x11]] => x00 * x11 - x01 * x10
  | _ => RtoC 0
  end.
Definition tr2 (m : Cmat) : C :=
  match m with
  | [[x00; x01]; [x10; x11]] => x00 + x11
  | _ => RtoC 0
  end.
Lemma sq2_mul A B : sq2 A -> sq2 B -> sq2 (Cm_mul A B).
Proof. intros HA HB. destruct HA as (a00 & a01 & a10 & a11 & ->). destruct HB as (b00 & b01 & b10 & b11 & ->). mat_unfold. unfold sq2. do 4 eexists. reflexivity. Qed.
Lemma sq2_dag A : sq2 A -> sq2 (Cm_dag A).
Proof. intros HA. destruct HA as (a00 & a01 & a10 & a11 & ->). mat_unfold. unfold sq2. do 4 eexists. reflexivity. Qed.
Lemma sq2_scale c A : sq2 A -> sq2 (Cm_scale c A).
Proof. intros HA. destruct HA as (a00 & a01 & a10 & a11 & ->). mat_unfold. unfold sq2. do 4 eexists. reflexivity. Qed.
Lemma mul_assoc2 A B C : sq2 A -> sq2 B -> sq2 C -> Cm_mul (Cm_mul A B) C = Cm_mul A (Cm_mul B C).
Proof. intros HA HB HC. destruct HA as (a00 & a01 & a10 & a11 & ->). destruct HB as (b00 & b01 & b10 & b11 & ->). destruct HC as (c00 & c01 & c10 & c11 & ->). mat_eq. Qed.
Lemma dag_mul2 A B : sq2 A -> sq2 B -> Cm_dag (Cm_mul A B) = Cm_mul (Cm_dag B) (Cm_dag A).
Proof. intros HA HB. destruct HA as (a00 & a01 & a10 & a11 & ->). destruct HB as (b00 & b01 & b10 & b11 & ->). mat_eq. Qed.
Lemma dag_scale2 c A : sq2 A -> Cm_dag (Cm_scale c A) = Cm_scale (Cconj c) (Cm_dag A).
Proof. intros HA. destruct HA as (a00 & a01 & a10 & a11 & ->). mat_eq. Qed.
Lemma scale_mul2 c d A B : sq2 A -> sq2 B -> Cm_mul (Cm_scale c A) (Cm_scale d B) = Cm_scale (c * d) (Cm_mul A B).
Proof. intros HA HB. destruct HA as (a00 & a01 & a10 & a11 & ->). destruct HB as (b00 & b01 & b10 & b11 & ->). mat_eq. Qed.
Lemma scale_one2 A : sq2 A -> Cm_scale (RtoC 1) A = A.
Proof. intros HA. destruct HA as (a00 & a01 & a10 & a11 & ->). mat_eq. Qed.
Lemma mul_I2_r A : sq2 A -> Cm_mul A I2 = A.
Proof. intros HA. destruct HA as (a00 & a01 & a10 & a11 & ->). unfold I2. mat_eq. Qed.
Lemma mul_I2_l A : sq2 A -> Cm_mul I2 A = A.
Proof. intros HA. destruct HA as (a00 & a01 & a10 & a11 & ->). unfold I2. mat_eq. Qed.
Lemma dag_I2 : Cm_dag I2 = I2.
Proof. unfold I2. mat_eq. Qed.
Lemma sq2_I : sq2 I2.
Proof. unfold sq2, I2. do 4 eexists. reflexivity. Qed.
Lemma det2_mul A B : sq2 A -> sq2 B -> det2 (Cm_mul A B) = det2 A * det2 B.
Proof. intros HA HB. destruct HA as (a00 & a01 & a10 & a11 & ->). destruct HB as (b00 & b01 & b10 & b11 & ->). mat_unfold. cbv [det2]. ring. Qed.
Lemma det2_scale c A : sq2 A -> det2 (Cm_scale c A) = Cpown c 2%nat * det2 A.
Proof. intros HA. destruct HA as (a00 & a01 & a10 & a11 & ->). mat_unfold. cbv [det2 Cpown]. ring. Qed.
Lemma det2_I : det2 I2 = RtoC 1.
Proof. cbv [det2 I2]. ring. Qed.
Definition unitary2 (m : Cmat) : Prop := sq2 m /\ Cm_mul (Cm_dag m) m = I2.
Lemma unitary2_mul A B : unitary2 A -> unitary2 B -> unitary2 (Cm_mul A B).
Proof.
  intros [SA UA] [SB UB]. split. now apply sq2_mul.
  rewrite dag_mul2 by assumption.
  rewrite mul_assoc2; try apply sq2_dag; try apply sq2_mul; auto.
  rewrite <- (mul_assoc2 (Cm_dag A) A B); try apply sq2_dag; auto.
  rewrite UA, mul_I2_l by assumption. exact UB.
Qed.
Lemma unitary2_scale c A : c * Cconj c = RtoC 1 -> unitary2 A -> unitary2 (Cm_scale c A).
Proof.
  intros Hc [SA UA]. split. now apply sq2_scale.
  rewrite dag_scale2 by assumption. rewrite scale_mul2; try apply sq2_dag; auto.
  rewrite UA. replace (Cconj c * c) with (c * Cconj c) by ring. rewrite Hc. apply scale_one2. apply sq2_I.
Qed.
Lemma unitary2_I : unitary2 I2.
Proof. split. apply sq2_I. rewrite dag_I2. apply mul_I2_l. apply sq2_I. Qed.
Definition sq4 (m : Cmat) : Prop := exists x00 x01 x02 x03 x10 x11 x12 x13 x20 x21 x22 x23 x30 x31 x32 x33 : C, m = [[x00; x01; x02; x03]; [x10; x11; x12; x13]; [x20; x21; x22; x23]; [x30; x31; x32; x33]].
Definition det4 (m : Cmat) : C :=
  match m with
  | [[x00; x01; x02; x03]; [x10; x11; x12; x13]; [x20; x21; x22; x23]; [x30; x31; x32; x33]] => x00 * x11 * x22 * x33 - x00 * x11 * x23 * x32 - x00 * x12 * x21 * x33 + x00 * x12 * x23 * x31 + x00 * x13 * x21 * x32 - x00 * x13 * x22 * x31 - x01 * x10 * x22 * x33 + x01 * x10 * x23 * x32 + x01 * x12 * x20 * x33 - x01 * x12 * x23 * x30 - x01 * x13 * x20 * x32 + x01 * x13 * x22 * x30 + x02 * x10 * x21 * x33 - x02 * x10 * x23 * x31 - x02 * x11 * x20 * x33 + x02 * x11 * x23 * x30 + x02 * x13 * x20 * x31 - x02 * x13 * x21 * x30 - x03 * x10 * x21 * x32 + x03 * x10 * x22 * x31 + x03 * x11 * x20 * x32 - x03 * x11 * x22 * x30 - x03 * x12 * x20 * x31 + x03 * x12 * x21 * x30
  | _ => RtoC 0
  end.
Definition tr4 (m : Cmat) : C :=
  match m with
  | [[x00; x01; x02; x03]; [x10; x11; x12; x13]; [x20; x21; x22; x23]; [x30; x31; x32; x33]] => x00 + x11 + x22 + x33
  | _ => RtoC 0
  end.
Lemma sq4_mul A B : sq4 A -> sq4 B -> sq4 (Cm_mul A B).
Proof. intros HA HB. destruct HA as (a00 & a01 & a02 & a03 & a10 & a11 & a12 & a13 & a20 & a21 & a22 & a23 & a30 & a31 & a32 & a33 & ->). destruct HB as (b00 & b01 & b02 & b03 & b10 & b11 & b12 & b13 & b20 & b21 & b22 & b23 & b30 & b31 & b32 & b33 & ->). mat_unfold. unfold sq4. do 16 eexists. reflexivity. Qed.
Lemma sq4_dag A : sq4 A -> sq4 (Cm_dag A).
Proof. intros HA. destruct HA as (a00 & a01 & a02 & a03 & a10 & a11 & a12 & a13 & a20 & a21 & a22 & a23 & a30 & a31 & a32 & a33 & ->). mat_unfold. unfold sq4. do 16 eexists. reflexivity. Qed.
Lemma sq4_scale c A : sq4 A -> sq4 (Cm_scale c A).
Proof. intros HA. destruct HA as (a00 & a01 & a02 & a03 & a10 & a11 & a12 & a13 & a20 & a21 & a22 & a23 & a30 & a31 & a32 & a33 & ->). mat_unfold. unfold sq4. do 16 eexists. reflexivity. Qed.
Lemma mul_assoc4 A B C : sq4 A -> sq4 B -> sq4 C -> Cm_mul (Cm_mul A B) C = Cm_mul A (Cm_mul B C).
Proof. intros HA HB HC. destruct HA as (a00 & a01 & a02 & a03 & a10 & a11 & a12 & a13 & a20 & a21 & a22 & a23 & a30 & a31 & a32 & a33 & ->). destruct HB as (b00 & b01 & b02 & b03 & b10 & b11 & b12 & b13 & b20 & b21 & b22 & b23 & b30 & b31 & b32 & b33 & ->). destruct HC as (c00 & c01 & c02 & c03 & c10 & c11 & c12 & c13 & c20 & c21 & c22 & c23 & c30 & c31 & c32 & c33 & ->). mat_eq. Qed.
Lemma dag_mul4 A B : sq4 A -> sq4 B -> Cm_dag (Cm_mul A B) = Cm_mul (Cm_dag B) (Cm_dag A).
Proof. intros HA HB. destruct HA as (a00 & a01 & a02 & a03 & a10 & a11 & a12 & a13 & a20 & a21 & a22 & a23 & a30 & a31 & a32 & a33 & ->). destruct HB as (b00 & b01 & b02 & b03 & b10 & b11 & b12 & b13 & b20 & b21 & b22 & b23 & b30 & b31 & b32 & b33 & ->). mat_eq. Qed.
Lemma dag_scale4 c A : sq4 A -> Cm_dag (Cm_scale c A) = Cm_scale (Cconj c) (Cm_dag A).
Proof. intros HA. destruct HA as (a00 & a01 & a02 & a03 & a10 & a11 & a12 & a13 & a20 & a21 & a22 & a23 & a30 & a31 & a32 & a33 & ->). mat_eq. Qed.
Lemma scale_mul4 c d A B : sq4 A -> sq4 B -> Cm_mul (Cm_scale c A) (Cm_scale d B) = Cm_scale (c * d) (Cm_mul A B).
Proof. intros HA HB. destruct HA as (a00 & a01 & a02 & a03 & a10 & a11 & a12 & a13 & a20 & a21 & a22 & a23 & a30 & a31 & a32 & a33 & ->). destruct HB as (b00 & b01 & b02 & b03 & b10 & b11 & b12 & b13 & b20 & b21 & b22 & b23 & b30 & b31 & b32 & b33 & ->). mat_eq. Qed.
Lemma scale_one4 A : sq4 A -> Cm_scale (RtoC 1) A = A.
Proof. intros HA. destruct HA as (a00 & a01 & a02 & a03 & a10 & a11 & a12 & a13 & a20 & a21 & a22 & a23 & a30 & a31 & a32 & a33 & ->). mat_eq. Qed.
Lemma mul_I4_r A : sq4 A -> Cm_mul A I4 = A.
Proof. intros HA. destruct HA as (a00 & a01 & a02 & a03 & a10 & a11 & a12 & a13 & a20 & a21 & a22 & a23 & a30 & a31 & a32 & a33 & ->). unfold I4. mat_eq. Qed.
Lemma mul_I4_l A : sq4 A -> Cm_mul I4 A = A.
Proof. intros HA. destruct HA as (a00 & a01 & a02 & a03 & a10 & a11 & a12 & a13 & a20 & a21 & a22 & a23 & a30 & a31 & a32 & a33 & ->). unfold I4. mat_eq. Qed.
Lemma dag_I4 : Cm_dag I4 = I4.
Proof. unfold I4. mat_eq. Qed.
Lemma sq4_I : sq4 I4.
Proof. unfold sq4, I4. do 16 eexists. reflexivity. Qed.
Lemma det4_mul A B : sq4 A -> sq4 B -> det4 (Cm_mul A B) = det4 A * det4 B.
Proof. intros HA HB. destruct HA as (a00 & a01 & a02 & a03 & a10 & a11 & a12 & a13 & a20 & a21 & a22 & a23 & a30 & a31 & a32 & a33 & ->). destruct HB as (b00 & b01 & b02 & b03 & b10 & b11 & b12 & b13 & b20 & b21 & b22 & b23 & b30 & b31 & b32 & b33 & ->). mat_unfold. cbv [det4]. ring. Qed.
Lemma det4_scale c A : sq4 A -> det4 (Cm_scale c A) = Cpown c 4%nat * det4 A.
Proof. intros HA. destruct HA as (a00 & a01 & a02 & a03 & a10 & a11 & a12 & a13 & a20 & a21 & a22 & a23 & a30 & a31 & a32 & a33 & ->). mat_unfold. cbv [det4 Cpown]. ring. Qed.
Lemma det4_I : det4 I4 = RtoC 1.
Proof. cbv [det4 I4]. ring. Qed.
Definition unitary4 (m : Cmat) : Prop := sq4 m /\ Cm_mul (Cm_dag m) m = I4.
Lemma unitary4_mul A B : unitary4 A -> unitary4 B -> unitary4 (Cm_mul A B).
Proof.
  intros [SA UA] [SB UB]. split. now apply sq4_mul.
  rewrite dag_mul4 by assumption.
  rewrite mul_assoc4; try apply sq4_dag; try apply sq4_mul; auto.
  rewrite <- (mul_assoc4 (Cm_dag A) A B); try apply sq4_dag; auto.
  rewrite UA, mul_I4_l by assumption. exact UB.
Qed.
Lemma unitary4_scale c A : c * Cconj c = RtoC 1 -> unitary4 A -> unitary4 (Cm_scale c A).
Proof.
  intros Hc [SA UA]. split. now apply sq4_scale.
  rewrite dag_scale4 by assumption. rewrite scale_mul4; try apply sq4_dag; auto.
  rewrite UA. replace (Cconj c * c) with (c * Cconj c) by ring. rewrite Hc. apply scale_one4. apply sq4_I.
Qed.
Lemma unitary4_I : unitary4 I4.
Proof. split. apply sq4_I. rewrite dag_I4. apply mul_I4_l. apply sq4_I. Qed.
Lemma sq4_kron A B : sq2 A -> sq2 B -> sq4 (Cm_kron A B).
Proof. intros HA HB. destruct HA as (a00 & a01 & a10 & a11 & ->). destruct HB as (b00 & b01 & b10 & b11 & ->). mat_unfold. unfold sq4. do 16 eexists. reflexivity. Qed.
Lemma kron_mul A B C D : sq2 A -> sq2 B -> sq2 C -> sq2 D -> Cm_mul (Cm_kron A B) (Cm_kron C D) = Cm_kron (Cm_mul A C) (Cm_mul B D).
Proof. intros HA HB HC HD. destruct HA as (a00 & a01 & a10 & a11 & ->). destruct HB as (b00 & b01 & b10 & b11 & ->). destruct HC as (c00 & c01 & c10 & c11 & ->). destruct HD as (d00 & d01 & d10 & d11 & ->). mat_eq. Qed.
Lemma dag_kron A B : sq2 A -> sq2 B -> Cm_dag (Cm_kron A B) = Cm_kron (Cm_dag A) (Cm_dag B).
Proof. intros HA HB. destruct HA as (a00 & a01 & a10 & a11 & ->). destruct HB as (b00 & b01 & b10 & b11 & ->). mat_eq. Qed.
Lemma kron_I : Cm_kron I2 I2 = I4.
Proof. unfold I2, I4. mat_eq. Qed.
Lemma det4_kron A B : sq2 A -> sq2 B -> det4 (Cm_kron A B) = Cpown (det2 A) 2%nat * Cpown (det2 B) 2%nat.
Proof. intros HA HB. destruct HA as (a00 & a01 & a10 & a11 & ->). destruct HB as (b00 & b01 & b10 & b11 & ->). mat_unfold. cbv [det4 det2 Cpown]. ring. Qed.
Lemma unitary4_kron A B : unitary2 A -> unitary2 B -> unitary4 (Cm_kron A B).
Proof.
  intros [SA UA] [SB UB]. split. now apply sq4_kron.
  rewrite dag_kron by assumption. rewrite kron_mul; try apply sq2_dag; auto. rewrite UA, UB. apply kron_I.
Qed.
