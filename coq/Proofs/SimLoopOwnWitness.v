(* C08 — the hypothesis dir_kept of relabel_invariant_simloop cannot be dropped for an ARBITRARY gate set: exchanging the labels of
   control and target of one cx makes BinaryCircuit.CNOT call CNOT_inv instead of CNOT; a gate set whose CNOT_inv is unrelated to
   its CNOT (here: CNOT = identity matrix, CNOT_inv = zero matrix, integer scalars) gives another final state.  All other
   hypotheses of the theorem hold for the witness. *)
From Coq Require Import List Bool Arith NArith ZArith Lia.
Require Import QG.Base.Res QG.Base.State QG.Base.Perm QG.Model.SimRun QG.Model.NoiseFreeRun QG.Model.SimLoop QG.Model.SimLoopOwn.
Require Import QG.Proofs.OptimizerSem QG.Proofs.SimLoop QG.Proofs.RelabelRank QG.Proofs.SimLoopOwn QG.Proofs.SimLoopOwnRun QG.Proofs.SimLoopOwnRelabel.
Import ListNotations.

Definition w_data : list qinstr := [mkinstr OpCx [0%N; 1%N] []; mkinstr OpMeasure [0%N] [0%N]; mkinstr OpMeasure [1%N] [1%N]].
Definition w_pi (q : N) : N := if N.eqb q 0 then 1%N else if N.eqb q 1 then 0%N else q.
Definition w_id2 : m2 Z := fun r c => if Bool.eqb r c then 1%Z else 0%Z.
Definition w_g2 (k : kind2) (inv : bool) (p1 p2 : Z * Z) (a : list unit) : m4 Z :=
  fun r c => if inv then 0%Z else if Bool.eqb (fst r) (fst c) && Bool.eqb (snd r) (snd c) then 1%Z else 0%Z.
Definition w_psi (b : bits) : Z := match b with [false; false] => 1%Z | _ => 0%Z end.
Notation w_shot := (own_shot unit unit unit (fun _ => tt) (fun _ => (0, 0)%Z) (mat Z) (mid2 Z 0%Z 1%Z)
                      (gs Z unit (fun _ _ _ => w_id2) w_g2 (fun _ => w_id2) (fun _ => w_id2)) 2 None).

Lemma w_pi_inj : injN w_pi.
Proof.
  intros a b. unfold w_pi.
  destruct (N.eqb_spec a 0) as [->|Ha0], (N.eqb_spec b 0) as [->|Hb0]; try reflexivity;
    try destruct (N.eqb_spec b 1) as [->|Hb1]; try destruct (N.eqb_spec a 1) as [->|Ha1]; intros E; try reflexivity; try lia; congruence.
Qed.

Theorem relabel_needs_direction :
  injN w_pi /\ Forall wf_qiskit w_data /\ process_layout w_data = Ok ([0%N; 1%N], [(0%N, 0%N); (1%N, 1%N)], 2) /\
  ~ Forall (dir_kept w_pi) w_data /\
  (forall b, length b = 2 -> w_psi (permute (induced (labels [0%N; 1%N]) (pi_nat w_pi)) b) = w_psi b) /\
  exists cs cs' content content',
    process_layout (map (relabel_instr w_pi) w_data) = Ok ([0%N; 1%N], map (relabel_meas w_pi) [(0%N, 0%N); (1%N, 1%N)], 2) /\
    translate_calls unit unit (fun _ => tt) (fun _ => tt) [0%N; 1%N] 2 w_data = Ok cs /\
    translate_calls unit unit (fun _ => tt) (fun _ => tt) [0%N; 1%N] 2 (map (relabel_instr w_pi) w_data) = Ok cs' /\
    w_shot cs = Ok content /\ w_shot cs' = Ok content' /\
    sem Z Z.add Z.mul (map (den Z 0%Z 1%Z) content) w_psi [false; false] = 1%Z /\
    sem Z Z.add Z.mul (map (den Z 0%Z 1%Z) content') w_psi (permute (induced (labels [0%N; 1%N]) (pi_nat w_pi)) [false; false]) = 0%Z.
Proof.
  split; [exact w_pi_inj|]. split.
  { repeat (apply Forall_cons; [unfold wf_qiskit; cbn; eauto; try (do 2 eexists; split; [reflexivity|discriminate])|]). apply Forall_nil. }
  split; [vm_compute; reflexivity|]. split.
  { intros F. apply Forall_inv in F. vm_compute in F. discriminate F. }
  split.
  { intros [|x [|y [|z r]]] Hb; try discriminate Hb. destruct x, y; vm_compute; reflexivity. }
  do 4 eexists. repeat split; vm_compute; reflexivity.
Qed.

(* the statement of relabel_invariant_simloop WITHOUT dir_kept (amplitude clause), for every gate set: false *)
Definition relabel_any_direction_full : Prop :=
  forall (T : Type) (rO rI : T) (radd rmul rsub : T -> T -> T) (ropp : T -> T),
  ring_theory rO rI radd rmul rsub ropp eq ->
  forall (A D V : Type) (ph : A -> Z * Z)
         (g1 : kind1 -> Z * Z -> list V -> m2 T) (g2 : kind2 -> bool -> Z * Z -> Z * Z -> list V -> m4 T) (grelax gflip : list V -> m2 T)
         (piN : N -> N), injN piN ->
  forall val val' : tok A D -> V, (forall t, val' (relabel_tok A D piN t) = val t) ->
  forall (theta : nat -> A) (dur : nat -> D) (data : list qinstr) (used : list N) (meas : list (N * N)) (n : nat) (psi psi' : bits -> T),
  Forall wf_qiskit data -> process_layout data = Ok (used, meas, n) ->
  let L := labels used in let data' := map (relabel_instr piN) data in
  (forall b, length b = n -> psi' (permute (induced L (pi_nat piN)) b) = psi b) ->
  exists used' cs cs',
    process_layout data' = Ok (used', map (relabel_meas piN) meas, n) /\
    translate_calls A D theta dur used (Z.of_nat n) data = Ok cs /\
    translate_calls A D theta dur used' (Z.of_nat n) data' = Ok cs' /\
    forall layout layout' : option (list Z), exists content content',
      own_shot A D V val ph (mat T) (mid2 T rO rI) (gs T V g1 g2 grelax gflip) n layout cs = Ok content /\
      own_shot A D V val' ph (mat T) (mid2 T rO rI) (gs T V g1 g2 grelax gflip) n layout' cs' = Ok content' /\
      (forall b, length b = n ->
         sem T radd rmul (map (den T rO rI) content') psi' (permute (induced L (pi_nat piN)) b) = sem T radd rmul (map (den T rO rI) content) psi b).

Theorem relabel_any_direction_refuted : ~ relabel_any_direction_full.
Proof.
  intros H.
  destruct relabel_needs_direction as (Hinj & Wq & Hl & _ & Hpsi & cs0 & cs0' & c0 & c0' & Hl' & Ec & Ec' & Es & Es' & V1 & V0).
  specialize (H Z 0%Z 1%Z Z.add Z.mul Z.sub Z.opp InitialRing.Zth unit unit unit (fun _ => (0, 0)%Z)
                (fun _ _ _ => w_id2) w_g2 (fun _ => w_id2) (fun _ => w_id2) w_pi Hinj (fun _ => tt) (fun _ => tt) (fun _ => eq_refl)
                (fun _ => tt) (fun _ => tt) w_data _ _ 2 w_psi w_psi Wq Hl Hpsi).
  destruct H as (used' & cs & cs' & Hl2 & Ec2 & Ec2' & Sh).
  rewrite Hl' in Hl2. injection Hl2 as <-.
  change (Z.of_nat 2) with 2%Z in Ec2, Ec2'. rewrite Ec in Ec2. injection Ec2 as <-. rewrite Ec' in Ec2'. injection Ec2' as <-.
  destruct (Sh None None) as (content & content' & E1 & E2 & Hb).
  rewrite Es in E1. injection E1 as <-. rewrite Es' in E2. injection E2 as <-.
  specialize (Hb [false; false] eq_refl). rewrite V1, V0 in Hb. discriminate Hb.
Qed.
