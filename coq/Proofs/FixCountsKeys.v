(* Lemmas about binary keys: val / enc / string order. *)
From Coq Require Import List Bool NArith Arith Lia Permutation.
Require Import QG.Base.Res QG.Model.FixCounts.
Import ListNotations.
Local Open Scope N_scope.

Definition b2n (b : bool) : N := if b then 1 else 0.

Lemma fold_val_acc k a :
  fold_left (fun a (b : bool) => 2 * a + (if b then 1 else 0)) k a = a * 2 ^ N.of_nat (length k) + val k.
Proof.
  unfold val. revert a. induction k as [|b k IH]; intros a.
  - simpl. lia.
  - cbn [fold_left length]. rewrite IH. rewrite (IH (2 * 0 + _)).
    rewrite Nat2N.inj_succ, N.pow_succ_r'. destruct b; lia.
Qed.

Lemma val_cons b k : val (b :: k) = b2n b * 2 ^ N.of_nat (length k) + val k.
Proof. unfold val at 1. cbn [fold_left]. rewrite fold_val_acc. destruct b; simpl b2n; lia. Qed.

Lemma val_app a b : val (a ++ b) = val a * 2 ^ N.of_nat (length b) + val b.
Proof. unfold val at 1. rewrite fold_left_app. fold (val a). apply fold_val_acc. Qed.

Lemma val_nil : val [] = 0. Proof. reflexivity. Qed.

Lemma val_bound k : val k < 2 ^ N.of_nat (length k).
Proof.
  induction k as [|b k IH]. { reflexivity. }
  rewrite val_cons. cbn [length]. rewrite Nat2N.inj_succ, N.pow_succ_r'. destruct b; simpl b2n; lia.
Qed.

Lemma val_inj a b : length a = length b -> val a = val b -> a = b.
Proof.
  revert b. induction a as [|x a IH]; intros [|y b] HL HV; simpl in HL; try discriminate; auto.
  injection HL as HL. rewrite !val_cons in HV. rewrite HL in HV.
  pose proof (val_bound a) as Ba. pose proof (val_bound b) as Bb. rewrite HL in Ba.
  destruct x, y; simpl b2n in HV; try lia; f_equal; apply IH; auto; lia.
Qed.

Lemma val_repeat_false m : val (repeat false m) = 0.
Proof. induction m as [|m IH]; auto. Qed.

Lemma val_pos_bits p : val (pos_bits p) = Npos p.
Proof. induction p as [q IH|q IH|]; cbn [pos_bits]; try rewrite val_app, IH; simpl; try reflexivity; lia. Qed.

Lemma val_format_b x : val (format_b x) = x.
Proof. destruct x; [reflexivity | apply val_pos_bits]. Qed.

Lemma pos_bits_len p : 2 ^ N.of_nat (length (pos_bits p)) <= 2 * Npos p.
Proof.
  induction p as [q IH|q IH|]; cbn [pos_bits]; try rewrite app_length; cbn [length]; try rewrite Nat.add_1_r, Nat2N.inj_succ, N.pow_succ_r'; try lia.
Qed.

Lemma format_b_len n x : (0 < n)%nat -> x < 2 ^ N.of_nat n -> (length (format_b x) <= n)%nat.
Proof.
  intros Hn Hx. destruct x as [|p]. { simpl. lia. }
  simpl format_b. pose proof (pos_bits_len p) as H.
  destruct (le_lt_dec (length (pos_bits p)) n) as [|Hgt]; auto. exfalso.
  assert (2 ^ N.of_nat (S n) <= 2 ^ N.of_nat (length (pos_bits p))) by (apply N.pow_le_mono_r; lia).
  rewrite Nat2N.inj_succ, N.pow_succ_r' in H0. lia.
Qed.

Lemma val_enc n x : val (enc n x) = x.
Proof. unfold enc, zfill. rewrite val_app, val_repeat_false, val_format_b. lia. Qed.

Lemma enc_len n x : (0 < n)%nat -> x < 2 ^ N.of_nat n -> length (enc n x) = n.
Proof.
  intros Hn Hx. unfold enc, zfill. rewrite app_length, repeat_length.
  pose proof (format_b_len n x Hn Hx). lia.
Qed.

Lemma enc_val n k : (0 < n)%nat -> length k = n -> enc n (val k) = k.
Proof.
  intros Hn HL. apply val_inj.
  - rewrite enc_len; auto. rewrite <- HL. apply val_bound.
  - apply val_enc.
Qed.

Lemma key_eqb_eq a b : key_eqb a b = true <-> a = b.
Proof.
  revert b. induction a as [|x a IH]; intros [|y b]; simpl; split; intros H; try discriminate; auto.
  - apply andb_prop in H as [H1 H2]. apply eqb_prop in H1. apply IH in H2. congruence.
  - injection H as -> ->. rewrite eqb_reflx. simpl. now apply IH.
Qed.

Lemma key_eqb_refl a : key_eqb a a = true. Proof. now apply key_eqb_eq. Qed.
Lemma key_eqb_neq a b : a <> b -> key_eqb a b = false.
Proof. intros H. destruct (key_eqb a b) eqn:E; auto. apply key_eqb_eq in E. contradiction. Qed.

Lemma str_ltb_val a b : length a = length b -> str_ltb a b = (val a <? val b).
Proof.
  revert b. induction a as [|x a IH]; intros [|y b] HL; simpl in HL; try discriminate.
  - reflexivity.
  - injection HL as HL. cbn [str_ltb]. rewrite !val_cons, HL.
    pose proof (val_bound a) as Ba. pose proof (val_bound b) as Bb. rewrite HL in Ba.
    destruct x, y; cbn [Bool.eqb negb andb b2n].
    + rewrite IH by auto. destruct (N.ltb_spec (val a) (val b)), (N.ltb_spec (1 * 2 ^ N.of_nat (length b) + val a) (1 * 2 ^ N.of_nat (length b) + val b)); auto; lia.
    + symmetry. apply N.ltb_ge. lia.
    + symmetry. apply N.ltb_lt. lia.
    + rewrite IH by auto. destruct (N.ltb_spec (val a) (val b)), (N.ltb_spec (0 * 2 ^ N.of_nat (length b) + val a) (0 * 2 ^ N.of_nat (length b) + val b)); auto; lia.
Qed.

(* all n-bit keys in ascending order *)
Fixpoint all_keys (n : nat) : list key :=
  match n with O => [[]] | S m => map (cons false) (all_keys m) ++ map (cons true) (all_keys m) end.

Fixpoint nseq (x : N) (f : nat) : list N := match f with O => [] | S f' => x :: nseq (x + 1) f' end.

Lemma nseq_app x f g : nseq x (f + g) = nseq x f ++ nseq (x + N.of_nat f) g.
Proof.
  revert x. induction f as [|f IH]; intros x; cbn [nseq Nat.add app].
  - f_equal. lia.
  - rewrite IH. do 3 f_equal. lia.
Qed.

Lemma nseq_map_add x f d : map (fun y => d + y) (nseq x f) = nseq (d + x) f.
Proof. revert x. induction f as [|f IH]; intros x; cbn [nseq map]; auto. rewrite IH. do 2 f_equal. lia. Qed.

Lemma all_keys_len n k : In k (all_keys n) -> length k = n.
Proof.
  revert k. induction n as [|n IH]; intros k H; simpl in H.
  - destruct H as [<-|[]]. reflexivity.
  - apply in_app_or in H as [H|H]; apply in_map_iff in H as (k' & <- & H); simpl; f_equal; auto.
Qed.

Lemma all_keys_length n : length (all_keys n) = Nat.pow 2 n.
Proof. induction n as [|n IH]; auto. cbn [all_keys]. rewrite app_length, !map_length. rewrite IH. simpl. lia. Qed.

Lemma all_keys_val n : map val (all_keys n) = nseq 0 (Nat.pow 2 n).
Proof.
  induction n as [|n IH]. { reflexivity. }
  cbn [all_keys]. rewrite map_app, !map_map.
  replace (Nat.pow 2 (S n)) with (Nat.pow 2 n + Nat.pow 2 n)%nat by (simpl; lia).
  rewrite nseq_app. f_equal.
  - rewrite <- IH. apply map_ext_in. intros k Hk. rewrite val_cons. simpl. lia.
  - rewrite N.add_0_l. rewrite <- (N.add_0_r (N.of_nat (2 ^ n))). rewrite <- nseq_map_add, <- IH, map_map.
    apply map_ext_in. intros k Hk. rewrite val_cons. rewrite (all_keys_len _ _ Hk). simpl b2n.
    rewrite Nat2N.inj_pow. simpl N.of_nat. lia.
Qed.

Lemma in_all_keys n k : length k = n -> In k (all_keys n).
Proof.
  revert k. induction n as [|n IH]; intros k H.
  - destruct k; [now left | discriminate].
  - destruct k as [|b k]; [discriminate|]. injection H as H. simpl. apply in_or_app.
    destruct b; [right|left]; apply in_map; auto.
Qed.

(* two lists of n-bit keys with the same values are equal *)
Lemma keys_eq_by_val n (l1 l2 : list key) :
  Forall (fun k => length k = n) l1 -> Forall (fun k => length k = n) l2 -> map val l1 = map val l2 -> l1 = l2.
Proof.
  revert l2. induction l1 as [|a l1 IH]; intros [|b l2] F1 F2 H; simpl in H; try discriminate; auto.
  inversion F1; inversion F2; subst. injection H as H1 H2. f_equal.
  - apply val_inj; congruence.
  - apply IH; auto.
Qed.
