(* Lemmas for C14: the dictionary built by _measurament, selection of the measured positions, all 2^m keys. *)
From Coq Require Import List Bool NArith Arith Lia Permutation.
Require Import QG.Base.Res QG.Model.FixCounts QG.Model.SimRun QG.Proofs.FixCountsKeys QG.Proofs.FixCountsProofs.
Import ListNotations.

(* ------------------------------------------------------------------ binary_vector n = all n-character keys *)
Lemma nseqN_nseq x f : nseqN x f = nseq x f.
Proof. revert x. induction f as [|f IH]; intros x; cbn [nseqN nseq]; [reflexivity|]. now rewrite IH. Qed.

Lemma binary_vector_all_keys n : (0 < n)%nat -> binary_vector n = all_keys n.
Proof.
  intros Hn. unfold binary_vector. rewrite nseqN_nseq, <- all_keys_val, map_map.
  rewrite <- (map_id (all_keys n)) at 2. apply map_ext_in. intros k Hk.
  apply enc_val; auto. now apply all_keys_len.
Qed.

(* index form: the i-th entry is the n-character numeral of i *)
Lemma nseq_seq x f : nseq x f = map (fun i => (x + N.of_nat i)%N) (seq 0 f).
Proof.
  revert x. induction f as [|f IH]; intros x; cbn [nseq seq map]; auto.
  f_equal. { lia. } rewrite IH, <- seq_shift, map_map. apply map_ext. intros i. lia.
Qed.
Lemma binary_vector_seq n : binary_vector n = map (fun i => enc n (N.of_nat i)) (seq 0 (Nat.pow 2 n)).
Proof. unfold binary_vector. rewrite nseqN_nseq, nseq_seq, map_map. apply map_ext. intros i. f_equal. Qed.

(* ------------------------------------------------------------------ index_of / meas_positions *)
Lemma index_of_some q l : In q l -> exists i, index_of q l = Some i /\ (i < length l)%nat /\ nth_error l i = Some q.
Proof.
  induction l as [|y r IH]; intros H; [destruct H|]. cbn [index_of].
  destruct (N.eqb_spec q y) as [->|Hne].
  - exists O. repeat split; simpl; auto; lia.
  - destruct H as [H|H]; [congruence|]. destruct (IH H) as (i & E & L & Nt). exists (S i). rewrite E. repeat split; simpl; auto; lia.
Qed.
Lemma index_of_nth q l i : index_of q l = Some i -> nth_error l i = Some q.
Proof.
  revert i. induction l as [|y r IH]; intros i H; cbn [index_of] in H; [discriminate|].
  destruct (N.eqb_spec q y) as [->|Hne].
  - injection H as <-. reflexivity.
  - destruct (index_of q r) as [j|] eqn:E; [|discriminate]. injection H as <-. simpl. auto.
Qed.
Lemma index_of_inj q q' l i : index_of q l = Some i -> index_of q' l = Some i -> q = q'.
Proof. intros H1 H2. apply index_of_nth in H1, H2. congruence. Qed.

Definition positions_of (meas : list (N * N)) (used : list N) : list nat :=
  map (fun qc => match index_of (fst qc) used with Some i => i | None => O end) meas.

Lemma meas_positions_ok meas used :
  Forall (fun qc => In (fst qc) used) meas -> NoDup (map fst meas) ->
  meas_positions meas used = Ok (positions_of meas used) /\
  Forall (fun i => (i < length used)%nat) (positions_of meas used) /\ NoDup (positions_of meas used).
Proof.
  induction meas as [|[q c] r IH]; intros F ND.
  - repeat split; constructor.
  - apply Forall_cons_iff in F as [Hq F]. cbn [map fst] in ND. apply NoDup_cons_iff in ND as [Hn ND].
    destruct (IH F ND) as (E & L & D). cbn [fst] in Hq. destruct (index_of_some q used Hq) as (i & Ei & Li & _).
    cbn [meas_positions positions_of map fst]. rewrite Ei. fold (positions_of r used). rewrite E. cbn [rbind].
    repeat split; auto. constructor; auto.
    intros Hin. unfold positions_of in Hin. apply in_map_iff in Hin as ([q' c'] & Hq' & Hin'). cbn [fst] in Hq'.
    rewrite Forall_forall in F. specialize (F _ Hin'). cbn [fst] in F. destruct (index_of_some q' used F) as (j & Ej & _).
    rewrite Ej in Hq'. subst j. assert (q = q') by (eapply index_of_inj; eauto). subst q'.
    apply Hn. apply in_map_iff. exists (q, c'). auto.
Qed.

(* ------------------------------------------------------------------ select *)
Definition sel (s : list bool) (pos : list nat) : list bool := map (fun i => nth i s false) pos.

Lemma select_ok s pos : Forall (fun i => (i < length s)%nat) pos -> select s pos = Ok (sel s pos).
Proof.
  induction pos as [|i r IH]; intros F; [reflexivity|]. apply Forall_cons_iff in F as [Hi F].
  cbn [select sel map]. destruct (nth_error s i) as [b|] eqn:E.
  - rewrite (IH F). cbn [rbind]. f_equal. f_equal. symmetry. now apply nth_error_nth.
  - apply nth_error_None in E. lia.
Qed.
Lemma select_all_ok bv pos n : Forall (fun s => length s = n) bv -> Forall (fun i => (i < n)%nat) pos ->
  select_all bv pos = Ok (map (fun s => sel s pos) bv).
Proof.
  intros Fb Fp. induction bv as [|s r IH]; [reflexivity|]. apply Forall_cons_iff in Fb as [Hs Fb].
  cbn [select_all map]. rewrite select_ok by (rewrite Hs; exact Fp). cbn [rbind]. rewrite (IH Fb). reflexivity.
Qed.
Lemma sel_length s pos : length (sel s pos) = length pos.
Proof. apply map_length. Qed.

(* every target string is spelled by some n-character string when the positions are distinct *)
Fixpoint pidx (j : nat) (pos : list nat) : option nat :=
  match pos with [] => None | p :: r => if Nat.eqb j p then Some O else option_map S (pidx j r) end.
Lemma pidx_nth pos k : NoDup pos -> (k < length pos)%nat -> pidx (nth k pos O) pos = Some k.
Proof.
  revert k. induction pos as [|p r IH]; intros k ND L; [simpl in L; lia|].
  apply NoDup_cons_iff in ND as [Hn ND]. destruct k as [|k]; cbn [nth pidx].
  - now rewrite Nat.eqb_refl.
  - simpl in L. destruct (Nat.eqb_spec (nth k r O) p) as [E|_].
    + exfalso. apply Hn. rewrite <- E. apply nth_In. lia.
    + rewrite IH by (auto; lia). reflexivity.
Qed.
Lemma nth_map_lt {A B} (f : A -> B) l i d d' : (i < length l)%nat -> nth i (map f l) d = f (nth i l d').
Proof. revert i. induction l as [|a l IH]; intros [|i] H; simpl in *; try lia; auto. apply IH. lia. Qed.
Definition witness (n : nat) (pos : list nat) (t : list bool) : list bool :=
  map (fun j => match pidx j pos with Some k => nth k t false | None => false end) (seq 0 n).
Lemma witness_spells n pos t : NoDup pos -> Forall (fun i => (i < n)%nat) pos -> length t = length pos ->
  length (witness n pos t) = n /\ sel (witness n pos t) pos = t.
Proof.
  intros ND F L. split. { unfold witness. now rewrite map_length, seq_length. }
  apply nth_ext with (d := false) (d' := false). { now rewrite sel_length. }
  intros k Hk. rewrite sel_length in Hk. unfold sel.
  assert (Hp : (nth k pos O < n)%nat). { rewrite Forall_forall in F. apply F. now apply nth_In. }
  rewrite (nth_map_lt _ _ _ _ O) by lia. unfold witness.
  rewrite (nth_map_lt _ _ _ _ O) by (now rewrite seq_length).
  rewrite seq_nth by auto. cbn [Nat.add]. now rewrite pidx_nth.
Qed.

(* ------------------------------------------------------------------ the accumulating dictionary *)
Lemma NoDup_snoc {A} (l : list A) x : NoDup l -> ~ In x l -> NoDup (l ++ [x]).
Proof. intros ND H. apply (Permutation_NoDup (l := x :: l)). { apply Permutation_cons_append. } constructor; auto. Qed.

Section Dict.
Variable V : Type.
Variable vzero : V.
Variable vadd : V -> V -> V.
Notation tab := (list (list bool * V)) (only parsing).
Notation lookup := (lookup V).
Notation dict_acc := (dict_acc V vzero vadd).

Definition step (d : tab) (vk : V * list bool) : tab := dict_acc (snd vk) (fst vk) d.
Definition vals (k : list bool) (l : list (V * list bool)) : list V := map fst (filter (fun vk => key_eqb (snd vk) k) l).
Definition base (k : list bool) (d : tab) : V := match lookup k d with Some x => x | None => vzero end.

Lemma lookup_acc_same k v (d : tab) : lookup k (dict_acc k v d) = Some (vadd (base k d) v).
Proof.
  unfold base. induction d as [|[k' v'] r IH]; cbn [SimRun.dict_acc lookup].
  - now rewrite key_eqb_refl.
  - destruct (key_eqb k k') eqn:E; cbn [lookup]; rewrite E; auto.
Qed.
Lemma lookup_acc_other k k' v (d : tab) : k <> k' -> lookup k (dict_acc k' v d) = lookup k d.
Proof.
  intros Hne. induction d as [|[k2 v2] r IH]; cbn [SimRun.dict_acc lookup].
  - now rewrite key_eqb_neq.
  - destruct (key_eqb k' k2) eqn:E; cbn [lookup].
    + apply key_eqb_eq in E. subst k2. now rewrite key_eqb_neq.
    + destruct (key_eqb k k2); auto.
Qed.
Lemma keys_acc k v (d : tab) : map fst (dict_acc k v d) = if existsb (key_eqb k) (map fst d) then map fst d else map fst d ++ [k].
Proof.
  induction d as [|[k' v'] r IH]; cbn [SimRun.dict_acc map fst existsb app]; auto.
  destruct (key_eqb k k') eqn:E; cbn [map fst orb]; auto. rewrite IH. now destruct (existsb (key_eqb k) (map fst r)).
Qed.
Lemma existsb_key k l : existsb (key_eqb k) l = true <-> In k l.
Proof.
  rewrite existsb_exists. split.
  - intros (x & Hx & E). apply key_eqb_eq in E. now subst.
  - intros H. exists k. split; auto. apply key_eqb_refl.
Qed.
Lemma keys_acc_nodup k v (d : tab) : NoDup (map fst d) -> NoDup (map fst (dict_acc k v d)).
Proof.
  intros ND. rewrite keys_acc. destruct (existsb (key_eqb k) (map fst d)) eqn:E; auto.
  apply NoDup_snoc; auto. intros H. apply existsb_key in H. congruence.
Qed.
Lemma keys_acc_in k v (d : tab) x : In x (map fst (dict_acc k v d)) <-> x = k \/ In x (map fst d).
Proof.
  rewrite keys_acc. destruct (existsb (key_eqb k) (map fst d)) eqn:E.
  - apply existsb_key in E. split; [auto|]. intros [->|H]; auto.
  - rewrite in_app_iff. simpl. intuition.
Qed.

Lemma fold_lookup k (l : list (V * list bool)) (d : tab) :
  lookup k (fold_left step l d) =
  match lookup k d, vals k l with
  | None, [] => None
  | _, _ => Some (fold_left vadd (vals k l) (base k d))
  end.
Proof.
  revert d. induction l as [|[v k'] r IH]; intros d.
  - unfold vals, base. cbn. destruct (lookup k d); auto.
  - cbn [fold_left]. rewrite IH. unfold step. cbn [snd fst].
    destruct (key_eqb k' k) eqn:E.
    + apply key_eqb_eq in E. subst k'.
      assert (Hv : vals k ((v, k) :: r) = v :: vals k r). { unfold vals. cbn [filter snd]. now rewrite key_eqb_refl. }
      assert (Hb : base k (dict_acc k v d) = vadd (base k d) v). { unfold base at 1. now rewrite lookup_acc_same. }
      rewrite Hv, Hb, lookup_acc_same. cbn [fold_left]. destruct (lookup k d); reflexivity.
    + assert (Hne : k <> k') by (intros ->; rewrite key_eqb_refl in E; discriminate).
      assert (Hv : vals k ((v, k') :: r) = vals k r). { unfold vals. cbn [filter snd]. now rewrite E. }
      assert (Hb : base k (dict_acc k' v d) = base k d). { unfold base. now rewrite lookup_acc_other. }
      rewrite Hv, Hb, lookup_acc_other by auto. reflexivity.
Qed.

Lemma fold_keys_nodup (l : list (V * list bool)) (d : tab) : NoDup (map fst d) -> NoDup (map fst (fold_left step l d)).
Proof. revert d. induction l as [|vk r IH]; intros d ND; cbn [fold_left]; auto. apply IH. now apply keys_acc_nodup. Qed.
Lemma fold_keys_in (l : list (V * list bool)) (d : tab) x :
  In x (map fst (fold_left step l d)) <-> In x (map fst d) \/ In x (map snd l).
Proof.
  revert d. induction l as [|[v k] r IH]; intros d; cbn [fold_left map snd].
  - simpl. intuition.
  - rewrite IH. unfold step. cbn [snd fst]. rewrite keys_acc_in. simpl. intuition.
Qed.

(* the sum of all values is preserved, for a commutative monoid *)
Hypothesis add_comm : forall x y, vadd x y = vadd y x.
Hypothesis add_assoc : forall x y z, vadd x (vadd y z) = vadd (vadd x y) z.
Hypothesis add_0_l : forall x, vadd vzero x = x.

Lemma fold_add_acc l a : fold_left vadd l a = vadd a (fold_left vadd l vzero).
Proof.
  revert a. induction l as [|x r IH]; intros a; cbn [fold_left].
  - now rewrite add_comm, add_0_l.
  - rewrite IH, (IH (vadd vzero x)), add_0_l. now rewrite add_assoc.
Qed.
Definition tsum (d : tab) : V := fold_left vadd (map snd d) vzero.
Lemma tsum_acc k v (d : tab) : tsum (dict_acc k v d) = vadd (tsum d) v.
Proof.
  unfold tsum. induction d as [|[k' v'] r IH]; cbn [SimRun.dict_acc map snd fold_left].
  - now rewrite !add_0_l.
  - destruct (key_eqb k k'); cbn [map snd fold_left].
    + rewrite !add_0_l. rewrite (fold_add_acc _ (vadd v' v)), (fold_add_acc _ v').
      rewrite <- !add_assoc. f_equal. apply add_comm.
    + rewrite !add_0_l. rewrite (fold_add_acc _ v'). rewrite IH. rewrite (fold_add_acc (map snd r) v'). now rewrite add_assoc.
Qed.
Lemma tsum_fold (l : list (V * list bool)) (d : tab) : tsum (fold_left step l d) = fold_left vadd (map fst l) (tsum d).
Proof.
  revert d. induction l as [|[v k] r IH]; intros d; cbn [fold_left map fst]; auto.
  rewrite IH. unfold step. cbn [snd fst]. now rewrite tsum_acc.
Qed.
End Dict.
