(* C03 — the METHOD CALLS of the simulator's layered branch (Model/SimLoopLayered.v: groups = the per-instruction loops, then
   the read-out loop), relaxation and bitflip included, fed to the layered builder state machine (lstep) with the matrices the
   noise-free gate set returns as tokens (framed matrix at the frame of the moment; the exact identity for relaxation / bitflip):
     shot_exec        no exception; what the circuit object holds is shot_layers (one layer per sx / x / cx / ecr / delay, the
                      all-identity layer for a delay, and the final all-identity layer of the read-out); _s = 0;
     shot_layers_wf   these are well-formed layers over n qubits (hypothesis of C01_std_spec / C01_eff_spec / C01_ones_spec);
     shot_layers_sem  under C01's layers_sem they denote run_items of the noise-free program, amplitude by amplitude;
     backend_run_spec the model of AlternativeCircuit.statevector (psi0 itself when nothing is stored, else the class's backend
                      model) returns, on these layers, a vector state_eq to that semantics.
   Nothing of Proofs/NoiseFreeRunLayered.v or Proofs/Backends*.v is re-proved. *)
From Coq Require Import List Bool Arith ZArith NArith Lia Ring.
Require Import QG.Base.Res QG.Base.State QG.Model.Backends QG.Model.Optimizer QG.Model.Builders.
Require Import QG.Proofs.OptimizerSem QG.Proofs.BackendsSpec QG.Proofs.BackendsContract QG.Proofs.BackendsEffFull QG.Proofs.BackendsOnes.
Require Import QG.Proofs.FrameSim QG.Model.NoiseFreeRun QG.Proofs.NoiseFreeRun QG.Proofs.NoiseFreeRunBuilder QG.Proofs.NoiseFreeRunLayered.
Require Import QG.Model.SimRun QG.Model.SimLoop QG.Model.SimLoopLayered QG.Proofs.SimLoopLayeredFill QG.Proofs.SimLoopLayeredBuilder.
Import ListNotations.

Lemma map_flat_map {X Y Z} (f : Y -> Z) (g : X -> list Y) l : map f (flat_map g l) = flat_map (fun x => map f (g x)) l.
Proof. induction l as [|x l IH]; [reflexivity|]. cbn [flat_map]. now rewrite map_app, IH. Qed.

Section LCalls.
Variable R : Type.
Variables (rO rI : R) (radd rmul rsub : R -> R -> R) (ropp : R -> R).
Variable Rth : ring_theory rO rI radd rmul rsub ropp eq.
Variables A D : Type.
Variable K : consts R A.
Variable ph : A -> Z * Z.
Notation frame := (frame R). Notation instr := (NoiseFreeRun.instr A).
Notation M := (mat R).
Notation idM := (mid2 R rO rI).
Notation lstate := (lstate M).
Notation lexec := (lexec M idM).
Notation LInv := (LInv M).
Notation compile := (compile R rO rI radd rmul ropp A K).
Notation fstep := (fstep R rO rI radd rmul ropp A K).
Notation layer_of := (layer_of R rO rI rmul).
Notation item_of := (item_of R rI rmul).
Notation run_items_from := (run_items_from R rO rI radd rmul ropp A K).
Notation run_items := (run_items R rO rI radd rmul ropp A K).
Notation op_of := (op_of R rO rI radd rmul ropp A K ph).
Notation layered_op_of := (layered_op_of R rO rI radd rmul ropp A K ph).
Notation ent_den := (ent_den R).
Notation id_entry := (id_entry R rO rI).
Notation ids := (ids R rO rI).
Notation layers_sem := (layers_sem R radd rmul).
Notation sem := (sem R radd rmul).
Notation dens := (map (map ent_den)).
Notation group := (group A D). Notation lcall := (lcall A D).
Notation group_calls := (group_calls A D).
Notation instr_of_group := (instr_of_group A D).
Notation nf_prog_groups := (nf_prog_groups A D).

(* ---- the builder operation behind a call, at the frame (f, fi) its group starts with ---- *)
Definition idle_lop (q : nat) : op M := OApply M K2 idM (Z.of_nat q).
Definition lcall_op (f fi : frame) (c : lcall) : op M :=
  match c with
  | LI k => OI M (Z.of_nat k)
  | LC c' =>
      match idle_qubit A D c' with
      | Some q => idle_lop q
      | None => match nf_of_call A D c' with x :: _ => op_of f fi x | [] => OI M 0%Z end
      end
  end.
Definition gstep_ff (ff : frame * frame) (g : group) : frame * frame := fold_left fstep (instr_of_group g) ff.
Fixpoint group_ops_from (n : nat) (ff : frame * frame) (gs : list group) : list (op M) :=
  match gs with
  | [] => []
  | g :: r => map (lcall_op (fst ff) (snd ff)) (group_calls n g) ++ group_ops_from n (gstep_ff ff g) r
  end.
(* the whole shot: a fresh circuit object (all phases zero), the groups, the read-out loop *)
Definition shot_ops (n : nat) (gs : list group) : list (op M) :=
  group_ops_from n (ff_one R rI) gs ++ map (lcall_op (f_one R rI) (f_one R rI)) (readout_l A D n).

(* ---- what the object then holds ---- *)
Fixpoint call_layers_from (n : nat) (ff : frame * frame) (gs : list group) : list (list (Backends.entry R)) :=
  match gs with
  | [] => []
  | g :: r =>
      match instr_of_group g with
      | x :: _ => layer_of n (fst ff) (snd ff) (compile (fst ff) (snd ff) x) (ctl_of A x) ++ call_layers_from n (fstep ff x) r
      | [] => ids (seq 0 n) :: call_layers_from n ff r
      end
  end.
Definition shot_layers (n : nat) (gs : list group) : list (list (Backends.entry R)) :=
  call_layers_from n (ff_one R rI) gs ++ [ids (seq 0 n)].

Definition group_wf (n : nat) (g : group) : Prop :=
  match g with
  | GRz q _ | G1 _ q | GRelax q _ => q < n
  | G2 _ c t => c < n /\ t < n /\ c <> t
  end.
Definition group_adj (g : group) : Prop :=
  match g with G2 _ c t => c = S t \/ t = S c | _ => True end.

Lemma group_wf_instr n g : group_wf n g -> Forall (wf_instr n) (instr_of_group g).
Proof. destruct g as [q th|[|] q|[|] c t|q d]; cbn; intros H; try constructor; try apply Forall_nil; exact H. Qed.
Lemma group_adj_instr g : group_adj g -> Forall adjacent_instr (instr_of_group g).
Proof. destruct g as [q th|[|] q|[|] c t|q d]; cbn; intros H; try constructor; try apply Forall_nil; exact H. Qed.
Lemma groups_wf_prog n gs : Forall (group_wf n) gs -> Forall (wf_instr n) (nf_prog_groups gs).
Proof. induction 1 as [|g r Hg _ IH]; [constructor|]. cbn [SimLoopLayered.nf_prog_groups flat_map]. apply Forall_app. split; auto. now apply group_wf_instr. Qed.
Lemma groups_adj_prog gs : Forall group_adj gs -> Forall adjacent_instr (nf_prog_groups gs).
Proof. induction 1 as [|g r Hg _ IH]; [constructor|]. cbn [SimLoopLayered.nf_prog_groups flat_map]. apply Forall_app. split; auto. now apply group_adj_instr. Qed.

(* the operations of a gate group are layered_ops of its instruction *)
Lemma gate_group_ops n f fi g x : instr_of_group g = [x] ->
  map (lcall_op f fi) (group_calls n g) = layered_op_of n f fi x.
Proof.
  destruct g as [q th|k q|k c t|q d]; cbn [SimLoopLayered.instr_of_group SimLoopLayered.group_calls].
  - intros E. injection E as <-. reflexivity.
  - intros E. rewrite map_map. destruct k; injection E as <-; cbn [NoiseFreeRunBuilder.layered_op_of]; apply map_ext; intros j;
      (destruct (Nat.eqb_spec j q) as [->|N]; reflexivity).
  - intros E. rewrite map_flat_map. destruct k; injection E as <-; cbn [NoiseFreeRunBuilder.layered_op_of]; apply flat_map_ext; intros j;
      (destruct (Nat.eqb_spec j c) as [->|N]; [reflexivity|]); destruct (j =? t); reflexivity.
  - discriminate.
Qed.

Lemma idle_layer n s (o : nat -> op M) : 1 <= n -> (forall k, k < n -> o k = idle_lop k \/ o k = OI M (Z.of_nat k)) -> LInv n s ->
  exists s', lexec s (map o (seq 0 n)) = Ok (s', []) /\ LInv n s' /\ l_bk M s' = l_bk M s /\
    dens (l_mplist M s') = dens (l_mplist M s) ++ [ids (seq 0 n)].
Proof.
  intros Hn Ho Hi.
  destruct (layer_ones M idM n s o (fun _ => Builders.En2 idM) Hn) as (s' & E & Hi' & Hb & Hl); auto.
  - intros k Hk. destruct (Ho k Hk) as [-> | ->]; [now apply wr_ok_apply | now apply wr_ok_I].
  - exists s'. repeat split; try apply Hi'; auto. rewrite Hl, map_app. cbn [map]. now rewrite map_map.
Qed.

Lemma group_step n s ff g : group_wf n g -> LInv n s ->
  exists s', lexec s (map (lcall_op (fst ff) (snd ff)) (group_calls n g)) = Ok (s', []) /\ LInv n s' /\ l_bk M s' = l_bk M s /\
    dens (l_mplist M s') = dens (l_mplist M s) ++ call_layers_from n ff [g].
Proof.
  intros Wg Hi. destruct (instr_of_group g) as [|x r] eqn:Eg.
  - destruct g as [q th|[|] q|[|] c t|q d]; try discriminate. cbn [group_wf] in Wg.
    cbn [call_layers_from]. rewrite Eg. cbn [SimLoopLayered.group_calls]. rewrite map_map.
    apply idle_layer; [lia| |exact Hi]. intros k Hk. destruct (k =? q); [left|right]; reflexivity.
  - assert (r = []) by (destruct g as [q th|[|] q|[|] c t|q d]; cbn in Eg; congruence). subst r.
    rewrite (gate_group_ops n _ _ g x Eg). cbn [call_layers_from]. rewrite Eg, app_nil_r.
    apply (layered_instr_step R rO rI radd rmul ropp A K ph n s (fst ff) (snd ff) x); [|exact Hi].
    pose proof (group_wf_instr n g Wg) as F. rewrite Eg in F. exact (Forall_inv F).
Qed.

Lemma call_layers_cons n ff g r : call_layers_from n ff (g :: r) = call_layers_from n ff [g] ++ call_layers_from n (gstep_ff ff g) r.
Proof.
  unfold gstep_ff. cbn [call_layers_from]. destruct (instr_of_group g) as [|x l] eqn:Eg; [reflexivity|].
  assert (l = []) by (destruct g as [q th|[|] q|[|] c t|q d]; cbn in Eg; congruence). subst l.
  cbn [fold_left]. now rewrite app_nil_r.
Qed.

Lemma groups_exec n : forall gs ff s, Forall (group_wf n) gs -> LInv n s ->
  exists s', lexec s (group_ops_from n ff gs) = Ok (s', []) /\ LInv n s' /\ l_bk M s' = l_bk M s /\
    dens (l_mplist M s') = dens (l_mplist M s) ++ call_layers_from n ff gs.
Proof.
  induction gs as [|g r IH]; intros ff s W Hi.
  - exists s. cbn. rewrite app_nil_r. auto.
  - destruct (group_step n s ff g (Forall_inv W) Hi) as (s1 & E1 & Hi1 & Hb1 & Hl1).
    destruct (IH (gstep_ff ff g) s1 (Forall_inv_tail W) Hi1) as (s2 & E2 & Hi2 & Hb2 & Hl2).
    exists s2. cbn [group_ops_from]. rewrite (lexec_app M idM _ _ _ _ E1). split; [exact E2|]. split; [exact Hi2|]. split; [congruence|].
    rewrite Hl2, Hl1, (call_layers_cons n ff g r). symmetry. apply app_assoc.
Qed.

(* a fresh AlternativeCircuit(n, gates, backend) fed the calls of one shot *)
Theorem shot_exec n bk gs : 1 <= n -> Forall (group_wf n) gs ->
  exists s', lexec (l_init M n bk) (shot_ops n gs) = Ok (s', []) /\
    dens (l_content M s') = shot_layers n gs /\ l_s M s' = 0 /\ l_bk M s' = bk.
Proof.
  intros Hn W.
  destruct (groups_exec n gs (ff_one R rI) (l_init M n bk) W (LInv_init R n bk)) as (s1 & E1 & Hi1 & Hb1 & Hl1).
  destruct (idle_layer n s1 (fun k => idle_lop k) Hn ltac:(auto) Hi1) as (s2 & E2 & Hi2 & Hb2 & Hl2).
  exists s2. unfold shot_ops. rewrite (lexec_app M idM _ _ _ _ E1).
  unfold SimLoopLayered.readout_l. rewrite map_map. cbn [lcall_op idle_qubit]. split; [exact E2|].
  split; [|split; [apply Hi2 | rewrite Hb2, Hb1; reflexivity]].
  unfold l_content, shot_layers. rewrite Hl2, Hl1. reflexivity.
Qed.

(* ---- the seam to the correspondence run: shot_ops is a function of the FLAT call list the simulator issues (what
        checks/c03_simloop_layered.py compares with the real run): every call becomes one builder operation, at the frame reached by
        the gate calls before it ---- *)
Definition call_ff (ff : frame * frame) (c : lcall) : frame * frame :=
  match c with LC c' => fold_left fstep (nf_of_call A D c') ff | LI _ => ff end.
Fixpoint flat_ops_from (ff : frame * frame) (cs : list lcall) : list (op M) :=
  match cs with [] => [] | c :: r => lcall_op (fst ff) (snd ff) c :: flat_ops_from (call_ff ff c) r end.
Definition flat_ops (cs : list lcall) : list (op M) := flat_ops_from (ff_one R rI) cs.

(* calls whose operation does not look at the frame and that leave it alone: I, relaxation, bitflip *)
Definition quiet (c : lcall) : Prop :=
  match c with LI _ => True | LC c' => match idle_qubit A D c' with Some _ => True | None => False end end.
Lemma flat_quiet f0 fi0 : forall l ff rest, Forall quiet l ->
  flat_ops_from ff (l ++ rest) = map (lcall_op f0 fi0) l ++ flat_ops_from ff rest.
Proof.
  induction l as [|c l IH]; intros ff rest F; [reflexivity|]. cbn [app flat_ops_from map].
  pose proof (Forall_inv F) as Hc. rewrite <- (IH ff rest (Forall_inv_tail F)).
  destruct c as [c'|k]; cbn [quiet] in Hc; [|reflexivity].
  destruct c' as [v th|k v q|k cv tv c t|v d q|k q]; cbn [idle_qubit] in Hc; try contradiction; reflexivity.
Qed.

Lemma flat_group n g ff rest : group_wf n g ->
  flat_ops_from ff (group_calls n g ++ rest) = map (lcall_op (fst ff) (snd ff)) (group_calls n g) ++ flat_ops_from (gstep_ff ff g) rest.
Proof.
  destruct g as [q th|k q|k c t|q d]; cbn [group_wf SimLoopLayered.group_calls]; intros W.
  - reflexivity.
  - replace n with (q + S (n - S q)) by lia. rewrite seq_app, map_app. cbn [seq map Nat.add]. rewrite Nat.eqb_refl, <- app_assoc.
    rewrite (flat_quiet (fst ff) (snd ff)).
    2:{ apply Forall_forall. intros x Hx. apply in_map_iff in Hx as (j & <- & Hj). apply in_seq in Hj.
        destruct (Nat.eqb_spec j q); [lia | exact I]. }
    rewrite map_app. cbn [app map flat_ops_from]. rewrite <- app_assoc. cbn [app]. f_equal. f_equal.
    rewrite (flat_quiet (fst ff) (snd ff)).
    2:{ apply Forall_forall. intros x Hx. apply in_map_iff in Hx as (j & <- & Hj). apply in_seq in Hj.
        destruct (Nat.eqb_spec j q); [lia | exact I]. }
    destruct k; reflexivity.
  - destruct W as (Hc & Ht & Hne). replace n with (c + S (n - S c)) by lia. rewrite seq_app, !flat_map_app. cbn [seq flat_map Nat.add].
    rewrite Nat.eqb_refl, <- !app_assoc.
    assert (Q : forall l, ~ In c l -> Forall quiet (flat_map (fun k0 => if k0 =? c then [LC (C2 k k0 t (N.of_nat k0) (N.of_nat t))]
                                                                   else if k0 =? t then [] else [LI k0]) l)).
    { intros l Hl. apply Forall_forall. intros x Hx. apply in_flat_map in Hx as (j & Hj & Hx).
      destruct (Nat.eqb_spec j c) as [->|N]; [contradiction|]. destruct (j =? t); [destruct Hx|]. destruct Hx as [<-|[]]. exact I. }
    rewrite (flat_quiet (fst ff) (snd ff)) by (apply Q; rewrite in_seq; lia).
    rewrite !map_app. cbn [app map flat_ops_from]. rewrite <- !app_assoc. cbn [app]. f_equal. f_equal.
    rewrite (flat_quiet (fst ff) (snd ff)) by (apply Q; rewrite in_seq; lia).
    destruct k; reflexivity.
  - rewrite (flat_quiet (fst ff) (snd ff)); [reflexivity|].
    apply Forall_forall. intros x Hx. apply in_map_iff in Hx as (j & <- & Hj). destruct (j =? q); exact I.
Qed.

Theorem shot_ops_flat n gs : Forall (group_wf n) gs -> shot_ops n gs = flat_ops (calls_of_groups A D n gs).
Proof.
  intros W. unfold shot_ops, flat_ops, SimLoopLayered.calls_of_groups. generalize (ff_one R rI). induction W as [|g r Hg _ IH]; intros ff.
  - cbn [group_ops_from flat_map app]. rewrite <- (app_nil_r (readout_l A D n)) at 2.
    rewrite (flat_quiet (f_one R rI) (f_one R rI)); [now rewrite app_nil_r|].
    unfold SimLoopLayered.readout_l. apply Forall_forall. intros x Hx. apply in_map_iff in Hx as (j & <- & _). exact I.
  - cbn [group_ops_from flat_map]. rewrite <- !app_assoc, (flat_group n g ff _ Hg). f_equal. apply IH.
Qed.

(* ---- the layers: well-formed, and with the semantics of run_items ---- *)
Lemma ids_wf n : wf_layer R n (ids (seq 0 n)).
Proof. rewrite <- (seq_length n 0) at 1. apply wf_ids. Qed.
Lemma call_layers_wf n : forall gs ff, Forall (group_wf n) gs -> Forall group_adj gs ->
  Forall (wf_layer R n) (call_layers_from n ff gs).
Proof.
  induction gs as [|g r IH]; intros ff W Ad; [constructor|]. cbn [call_layers_from].
  pose proof (group_wf_instr n g (Forall_inv W)) as Fw. pose proof (group_adj_instr g (Forall_inv Ad)) as Fa.
  destruct (instr_of_group g) as [|x l].
  - constructor; [apply ids_wf | apply IH; [exact (Forall_inv_tail W) | exact (Forall_inv_tail Ad)]].
  - apply Forall_app. split.
    + apply (layer_of_wf R rO rI radd rmul ropp A K); [exact (Forall_inv Fw) | exact (Forall_inv Fa)].
    + apply IH; [exact (Forall_inv_tail W) | exact (Forall_inv_tail Ad)].
Qed.
Theorem shot_layers_wf n gs : Forall (group_wf n) gs -> Forall group_adj gs -> Forall (wf_layer R n) (shot_layers n gs).
Proof. intros W Ad. unfold shot_layers. apply Forall_app. split; [now apply call_layers_wf | constructor; [apply ids_wf | constructor]]. Qed.

Lemma layers_sem_app a b s c : layers_sem (a ++ b) s c = layers_sem b (layers_sem a s) c.
Proof. unfold BackendsSpec.layers_sem. now rewrite map_app, concat_app, sem_app. Qed.
Lemma ids_layer_sem n s b : layers_sem [ids (seq 0 n)] s b = s b.
Proof. unfold BackendsSpec.layers_sem. cbn [map concat]. rewrite app_nil_r. apply (ids_sem R rO rI radd rmul rsub ropp Rth). Qed.

Lemma call_layers_sem_from n : forall gs ff s t, Forall (group_wf n) gs -> Forall group_adj gs -> (forall b, s b = t b) ->
  forall b, layers_sem (call_layers_from n ff gs ++ [ids (seq 0 n)]) s b = sem (run_items_from ff (nf_prog_groups gs)) t b.
Proof.
  induction gs as [|g r IH]; intros ff s t W Ad H b.
  - cbn [call_layers_from app SimLoopLayered.nf_prog_groups flat_map NoiseFreeRun.run_items_from]. rewrite ids_layer_sem. apply H.
  - cbn [call_layers_from SimLoopLayered.nf_prog_groups flat_map]. fold (nf_prog_groups r).
    pose proof (group_wf_instr n g (Forall_inv W)) as Fw. pose proof (group_adj_instr g (Forall_inv Ad)) as Fa.
    destruct (instr_of_group g) as [|x l] eqn:Eg.
    + cbn [app]. change (ids (seq 0 n) :: call_layers_from n ff r ++ [ids (seq 0 n)])
        with ([ids (seq 0 n)] ++ (call_layers_from n ff r ++ [ids (seq 0 n)])).
      rewrite layers_sem_app. apply (IH ff); [exact (Forall_inv_tail W) | exact (Forall_inv_tail Ad) |].
      intros c. rewrite ids_layer_sem. apply H.
    + assert (l = []) by (destruct g as [q th|[|] q|[|] c0 t0|q d]; cbn in Eg; congruence). subst l.
      cbn [app NoiseFreeRun.run_items_from]. rewrite <- app_assoc, layers_sem_app, sem_app.
      apply (IH (fstep ff x)); [exact (Forall_inv_tail W) | exact (Forall_inv_tail Ad) |].
      intros c. unfold BackendsSpec.layers_sem.
      rewrite (layer_of_sem R rO rI radd rmul rsub ropp Rth A K n _ _ x s c (Forall_inv Fw) (Forall_inv Fa)).
      apply (sem_ext_all R radd rmul). exact H.
Qed.
Theorem shot_layers_sem n gs psi : Forall (group_wf n) gs -> Forall group_adj gs ->
  forall b, layers_sem (shot_layers n gs) psi b = sem (run_items (nf_prog_groups gs)) psi b.
Proof. intros W Ad b. apply (call_layers_sem_from n gs); auto. Qed.

(* the three facts about one shot's calls in one statement *)
Theorem calls_builder_layers n bk gs : 1 <= n -> Forall (group_wf n) gs -> Forall group_adj gs ->
  shot_ops n gs = flat_ops (calls_of_groups A D n gs) /\
  (exists s', lexec (l_init M n bk) (shot_ops n gs) = Ok (s', []) /\
     dens (l_content M s') = shot_layers n gs /\ l_s M s' = 0 /\ l_bk M s' = bk) /\
  Forall (wf_layer R n) (shot_layers n gs) /\ shot_layers n gs <> [] /\
  forall psi b, layers_sem (shot_layers n gs) psi b = sem (run_items (nf_prog_groups gs)) psi b.
Proof.
  intros Hn W Ad. split; [now apply shot_ops_flat|]. split; [now apply shot_exec|]. split; [now apply shot_layers_wf|].
  split; [unfold shot_layers; intros Z; apply app_eq_nil in Z as [_ Z]; discriminate|].
  intros psi b. now apply shot_layers_sem.
Qed.

(* ---- AlternativeCircuit.statevector: psi0 itself when nothing is stored, else the backend of the class ----
   EfficientBackend(nqubit) is constructed with min_chunk_size = 3, optimal_chunk_size = 4 (backend.py:103);
   is_id: BackendForOnes' identity test (any test that only accepts exact 2x2 identities, as in C01_ones_spec).
   StandardBackend's np.eye answer for an EMPTY list (OutEye) is unreachable here and mapped to TypeError. *)
Variable is_id : Backends.entry R -> bool.
Definition backend_run (bk : backend_kind) (n : nat) (ls : list (list (Backends.entry R))) (psi : state R) : res (state R) :=
  match ls with
  | [] => Ok psi
  | _ :: _ =>
      match bk with
      | BkStandard => match std R rI radd rmul n ls psi with Ok (OutVec s) => Ok s | Ok OutEye => Err TypeError | Err e => Err e end
      | BkEfficient => eff R rI radd rmul n 3 4 ls psi
      | BkOnes => ones R rI radd rmul is_id n ls psi
      end
  end.
(* the assertions of the backends themselves: EfficientBackend's 2 * (number of chunks) <= 26 in the many-chunk regime,
   BackendForOnes' at most 26 matrices per layer *)
Definition backend_ok (bk : backend_kind) (n : nat) : Prop :=
  match bk with
  | BkStandard => True
  | BkEfficient => 4 <= n -> 2 * 4 <= n -> 2 * eff_nchunks n 3 4 <= 26
  | BkOnes => n <= 26
  end.
Hypothesis is_id_sound : forall e, is_id e = true -> exists a, e = Backends.En2 a /\ forall r c, a r c = id2 R rO rI r c.

Lemma wf_layer_nonone n l : wf_layer R n l -> length (filter (fun e => negb (isOne R e)) l) <= n.
Proof. induction 1; cbn [filter isOne negb length]; lia. Qed.

Theorem backend_run_spec bk n ls psi : 1 <= n -> ls <> [] -> Forall (wf_layer R n) ls -> backend_ok bk n ->
  exists out, backend_run bk n ls psi = Ok out /\ state_eq R n out (layers_sem ls psi).
Proof.
  intros Hn NE Wf Hb. destruct ls as [|l0 rest]; [congruence|]. unfold backend_run.
  destruct bk; cbn [backend_ok] in Hb.
  - destruct (std_spec R rO rI radd rmul rsub ropp Rth n (l0 :: rest) psi Hn NE Wf) as (out & E & S). rewrite E. eauto.
  - exact (eff_spec_exact R rO rI radd rmul rsub ropp Rth n 3 4 (l0 :: rest) psi Hn ltac:(lia) ltac:(lia) NE Wf Hb).
  - apply (ones_spec R rO rI radd rmul rsub ropp Rth is_id is_id_sound n (l0 :: rest) psi Hn NE Wf).
    eapply Forall_impl; [|exact Wf]. intros l Hl. pose proof (wf_layer_nonone n l Hl). lia.
Qed.
End LCalls.
