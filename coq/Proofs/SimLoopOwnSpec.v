(* C08 — run_is_spec_index: for data accepted by _process_layout (with nqubit = number of used qubits) the modelled shot of the
   index class -- translate_calls (Model/SimLoop.v), the builder model of BinaryCircuit with an arbitrary deterministic gate set
   (Model/SimLoopOwn.v), BinaryBackend's model -- computes the abstract run of Proofs/RelabelMain.v on the PHYSICAL CIRCUIT
   own_circ read off the instruction list: one operation per rz / sx / x / cx / ecr instruction and per delay on a used label, on
   the instruction's own label(s), with the instruction's own angle / duration; measure, barrier and other instructions contribute
   nothing. *)
From Coq Require Import List Bool Arith NArith ZArith Lia.
Require Import QG.Base.Res QG.Base.State QG.Base.Perm QG.Model.FixCounts QG.Model.SimRun QG.Model.NoiseFreeRun QG.Model.SimLoop QG.Model.Builders QG.Model.SimLoopOwn.
Require Import QG.Model.Sparse QG.Proofs.OptimizerSem QG.Proofs.SparseApply QG.Proofs.SparseMain.
Require Import QG.Proofs.SimRunKeys QG.Proofs.SimRunProofs QG.Proofs.SimLoop.
Require Import QG.Proofs.Relabel QG.Proofs.RelabelRank QG.Proofs.RelabelMain QG.Proofs.RelabelLayout QG.Proofs.SimLoopOwn QG.Proofs.SimLoopOwnRun.
Import ListNotations.

Lemma rank_ltb L a b : In a L -> In b L -> (rank L a <? rank L b) = (a <? b).
Proof.
  intros Ha Hb. destruct (Nat.lt_trichotomy a b) as [H|[H|H]].
  - pose proof (rank_mono L a b Ha H) as X. transitivity true; [|symmetry]; apply Nat.ltb_lt; lia.
  - subst b. now rewrite !Nat.ltb_irrefl.
  - pose proof (rank_mono L b a Hb H) as X. transitivity false; [|symmetry]; apply Nat.ltb_ge; lia.
Qed.
Lemma N_ltb_nat a b : (N.to_nat a <? N.to_nat b) = (a <? b)%N.
Proof. destruct (Nat.ltb_spec (N.to_nat a) (N.to_nat b)), (N.ltb_spec a b); auto; lia. Qed.
Lemma in_labels q used : In q used -> In (N.to_nat q) (labels used).
Proof. intros H. unfold labels. now apply in_map. Qed.

Section Spec.
Variable R : Type.
Variables (rO rI : R) (radd rmul rsub : R -> R -> R) (ropp : R -> R).
Variable Rth : ring_theory rO rI radd rmul rsub ropp eq.
Variables A D V : Type.
Variable val : tok A D -> V.
Variable ph : A -> Z * Z.
Variable g1 : kind1 -> Z * Z -> list V -> m2 R.
Variable g2 : kind2 -> bool -> Z * Z -> Z * Z -> list V -> m4 R.
Variable grelax : list V -> m2 R.
Variable gflip : list V -> m2 R.
Variable theta : nat -> A.
Variable dur : nat -> D.

Notation M := (mat R).
Notation op1 := (op1 A V).
Notation op2 := (kind2 * bool)%type.
Notation pop := (pop op1 op2).
Notation own_run := (own_run R radd rmul A D V val ph g1 g2 grelax gflip).
Notation own_shot := (own_shot A D V val ph M (mid2 R rO rI) (gs R V g1 g2 grelax gflip)).
Notation pops_of_calls := (pops_of_calls A D V val).

(* the physical circuit: the operations of the instruction list, each on its own label(s) *)
Definition pops_annot (used : list N) (th : A) (du : D) (x : qinstr) : list pop :=
  match iname x with
  | OpRz => match iqs x with [q] => [P1 op1 op2 (O1rz A V th) (N.to_nat q)] | _ => [] end
  | OpSx => match iqs x with [q] => [P1 op1 op2 (O1g A V KSX) (N.to_nat q)] | _ => [] end
  | OpX => match iqs x with [q] => [P1 op1 op2 (O1g A V KX) (N.to_nat q)] | _ => [] end
  | OpCx => match iqs x with [c; t] => [P2 op1 op2 (KCX, (c <? t)%N) (N.to_nat c) (N.to_nat t)] | _ => [] end
  | OpEcr => match iqs x with [c; t] => [P2 op1 op2 (KECR, (c <? t)%N) (N.to_nat c) (N.to_nat t)] | _ => [] end
  | OpDelay => match iqs x with [q] => if memN q used then [P1 op1 op2 (O1relax A V (val (Ttime du))) (N.to_nat q)] else [] | _ => [] end
  | OpMeasure | OpBarrier | OpOther => []
  end.
(* the instruction at position j carries the angle theta j and the duration dur j *)
Definition own_pops (used : list N) (jx : nat * qinstr) : list pop := pops_annot used (theta (fst jx)) (dur (fst jx)) (snd jx).
Definition own_circ (used : list N) (data : list qinstr) : list pop := flat_map (own_pops used) (numbered data).

(* one instruction: its calls are body calls, and their operations are own_pops *)
Lemma own_calls_pops used jx : rank_layout used -> wf_qiskit (snd jx) -> covered used (snd jx) ->
  Forall (body_ok A D (labels used)) (own_calls A D theta dur used jx) /\
  pops_of_calls (labels used) (own_calls A D theta dur used jx) = own_pops used jx /\
  Forall (pop_on op1 op2 (labels used)) (own_pops used jx).
Proof.
  intros RL. assert (ND : NoDup (labels used)) by (apply NoDup_map_to_nat; exact (proj1 RL)).
  destruct jx as [j x]. cbn [snd]. unfold wf_qiskit, covered, own_calls, own_pops, pops_annot. cbn [fst snd].
  destruct (iname x) eqn:En; cbn [is_delay]; intros W C.
  - destruct W as (q & Eq). rewrite Eq. destruct (memN q used) eqn:Em.
    + apply memN_In in Em. pose proof (in_labels q used Em) as Hin.
      split; [repeat constructor; auto|]. split; [reflexivity|]. repeat constructor. exact Hin.
    + split; [constructor|]. split; [reflexivity|constructor].
  - split; [constructor|]. split; [reflexivity|constructor].
  - split; [constructor|]. split; [reflexivity|constructor].
  - destruct W as (q & Eq). rewrite Eq in *. pose proof (in_labels q used C) as Hin.
    split; [repeat constructor; cbn; unfold rk; now apply rank_lt|]. split.
    + unfold SimLoopOwnRun.pops_of_calls. cbn [flat_map SimLoopOwnRun.pop_of_call app]. unfold rk. now rewrite lab_rank.
    + repeat constructor. exact Hin.
  - destruct W as (q & Eq). rewrite Eq in *. pose proof (in_labels q used C) as Hin.
    split; [repeat constructor; auto|]. split; [reflexivity|]. repeat constructor. exact Hin.
  - destruct W as (q & Eq). rewrite Eq in *. pose proof (in_labels q used C) as Hin.
    split; [repeat constructor; auto|]. split; [reflexivity|]. repeat constructor. exact Hin.
  - destruct W as (c & t & Eq & Hne). rewrite Eq in *. destruct C as [Cc Ct].
    pose proof (in_labels c used Cc) as Hc. pose proof (in_labels t used Ct) as Ht.
    split; [repeat constructor; auto|]. split.
    + unfold SimLoopOwnRun.pops_of_calls. cbn [flat_map SimLoopOwnRun.pop_of_call app]. unfold rk. now rewrite rank_ltb, N_ltb_nat.
    + repeat constructor; auto.
  - destruct W as (c & t & Eq & Hne). rewrite Eq in *. destruct C as [Cc Ct].
    pose proof (in_labels c used Cc) as Hc. pose proof (in_labels t used Ct) as Ht.
    split; [repeat constructor; auto|]. split.
    + unfold SimLoopOwnRun.pops_of_calls. cbn [flat_map SimLoopOwnRun.pop_of_call app]. unfold rk. now rewrite rank_ltb, N_ltb_nat.
    + repeat constructor; auto.
  - split; [constructor|]. split; [reflexivity|constructor].
Qed.

Lemma own_body_pops used (l : list (nat * qinstr)) : rank_layout used ->
  Forall (fun jx => wf_qiskit (snd jx) /\ covered used (snd jx)) l ->
  Forall (body_ok A D (labels used)) (flat_map (own_calls A D theta dur used) l) /\
  pops_of_calls (labels used) (flat_map (own_calls A D theta dur used) l) = flat_map (own_pops used) l /\
  Forall (pop_on op1 op2 (labels used)) (flat_map (own_pops used) l).
Proof.
  intros RL. induction 1 as [|jx r [W C] _ (F1 & E & F2)].
  - repeat split; constructor.
  - destruct (own_calls_pops used jx RL W C) as (G1 & G2 & G3). cbn [flat_map]. split; [|split].
    + apply Forall_app. now split.
    + unfold SimLoopOwnRun.pops_of_calls in *. now rewrite flat_map_app, G2, E.
    + apply Forall_app. now split.
Qed.

(* run_is_spec_index *)
Theorem run_is_spec_index data used meas n :
  Forall wf_qiskit data -> process_layout data = Ok (used, meas, n) ->
  let L := labels used in let circ := own_circ used data in
  NoDup L /\ n = length L /\ Forall (pop_on op1 op2 L) circ /\
  exists cs, translate_calls A D theta dur used (Z.of_nat n) data = Ok cs /\ Forall (own_params A D used) cs /\
    forall (layout : option (list Z)) (psi : bits -> R),
    exists content, own_shot n layout cs = Ok content /\ Forall (wf_in R n) content /\
      (forall b, sem R radd rmul (map (den R rO rI) content) psi b = own_run L circ psi b) /\
      (content <> [] ->
       exists out, bin_statevector R rO radd rmul M (mmul R radd rmul) (mkron R rmul) (mid2 R rO rI) (mid4 R rO rI) (entry_mat R rO)
                     n content psi = Ok out /\
         state_eq R n out (own_run L circ psi)).
Proof.
  intros W Hl L circ. destruct (process_layout_rank_layout data used meas n W Hl) as [RL En].
  assert (ND : NoDup L) by (apply NoDup_map_to_nat; exact (proj1 RL)).
  assert (EnL : n = length L) by (unfold L, labels; now rewrite map_length).
  pose proof (layout_covers _ _ _ _ Hl) as C.
  assert (F : Forall (fun jx => wf_qiskit (snd jx) /\ covered used (snd jx)) (numbered data)).
  { apply (numbered_snd data (fun x => wf_qiskit x /\ covered used x)). rewrite Forall_forall in *. intros x Hx. auto. }
  destruct (own_body_pops used _ RL F) as (F1 & E & F2).
  split; [exact ND|]. split; [exact EnL|]. split; [exact F2|].
  destruct (calls_own_params A D theta dur data used meas n (Z.of_nat n) W Hl ltac:(lia)) as (cs & Ec & _ & Fo & Ecs).
  exists cs. split; [exact Ec|]. split; [exact Fo|]. intros layout psi.
  rewrite Nat2Z.id in Ecs. rewrite EnL in Ecs.
  destruct (own_run_is_spec R rO rI radd rmul rsub ropp Rth A D V val ph g1 g2 grelax gflip used _ layout psi RL F1)
    as (s' & _ & Es & Wf & Sem & Bk).
  rewrite E in Sem, Bk. fold L in Es, Wf, Sem, Bk. rewrite <- Ecs in Es. rewrite <- EnL in Es, Wf, Bk.
  exists (b_content M s'). split; [exact Es|]. split; [exact Wf|]. split; [exact Sem | exact Bk].
Qed.
End Spec.

(* reading of the vocabulary of run_is_spec_index (every equation holds by unfolding definitions) *)
Lemma run_is_spec_vocabulary (R : Type) (radd rmul : R -> R -> R) (A D V : Type) (val : tok A D -> V) (ph : A -> Z * Z)
  (g1 : kind1 -> Z * Z -> list V -> m2 R) (g2 : kind2 -> bool -> Z * Z -> Z * Z -> list V -> m4 R) (grelax gflip : list V -> m2 R)
  (theta : nat -> A) (dur : nat -> D) :
  (* the run: RelabelMain.run at the instantiation; all phases 0 at the start *)
  (forall L circ psi, own_run R radd rmul A D V val ph g1 g2 grelax gflip L circ psi
     = RelabelMain.run R radd rmul (qcal V) (pcal V) (Z * Z)%type (op1 A V) (kind2 * bool)%type (gate1 R A V g1 grelax) (next1 A V ph) (gate2 R V g2) next2
         (ro R V gflip) L (T1tab A D V val) (T2tab A D V val) circ p0 psi) /\
  (* the tables: a label's own entries, an ordered pair's own entries *)
  (forall q, T1tab A D V val q = mkqcal V (val (Tp (N.of_nat q))) (val (TT1 (N.of_nat q))) (val (TT2 (N.of_nat q))) (val (Ttm (N.of_nat q))) (val (Trout (N.of_nat q)))) /\
  (forall c t, T2tab A D V val c t = mkpcal V (val (Ttint (N.of_nat c) (N.of_nat t))) (val (Tpint (N.of_nat c) (N.of_nat t)))) /\
  (* one-qubit operations: own phase (negated, as circuit.py passes it), own p, T1, T2; a delay its own duration * dt *)
  (forall th p c, gate1 R A V g1 grelax (O1rz A V th) p c = None /\ next1 A V ph (O1rz A V th) p = padd p (ph th)) /\
  (forall k p c, gate1 R A V g1 grelax (O1g A V k) p c = Some (g1 k (pneg p) [c_p V c; c_T1 V c; c_T2 V c]) /\ next1 A V ph (O1g A V k) p = p) /\
  (forall dt p c, gate1 R A V g1 grelax (O1relax A V dt) p c = Some (grelax [dt; c_T1 V c; c_T2 V c]) /\ next1 A V ph (O1relax A V dt) p = p) /\
  (* two-qubit operations on the ordered pair (control, target): direction true = control index < target index *)
  (forall k pc pt cc ct c2, gate2 R V g2 (k, true) pc pt cc ct c2
     = g2 k false pc pt [c_tint V c2; c_pint V c2; c_p V cc; c_p V ct; c_T1 V cc; c_T2 V cc; c_T1 V ct; c_T2 V ct]) /\
  (forall pc pt cc ct c2, gate2 R V g2 (KCX, false) pc pt cc ct c2
     = swap4 (g2 KCX true pc pt [c_tint V c2; c_pint V c2; c_p V cc; c_p V ct; c_T1 V cc; c_T2 V cc; c_T1 V ct; c_T2 V ct])) /\
  (forall pc pt cc ct c2, gate2 R V g2 (KECR, false) pc pt cc ct c2
     = swap4 (g2 KECR true pt pc [c_tint V c2; c_pint V c2; c_p V ct; c_p V cc; c_T1 V ct; c_T2 V ct; c_T1 V cc; c_T2 V cc])) /\
  (forall (G : m4 R) r c, swap4 G r c = G (snd r, fst r) (snd c, fst c)) /\
  (forall pc pt, next2 (KCX, true) pc pt = (padd pc (quarter (-1)), pt) /\
                 next2 (KCX, false) pc pt = (padd (padd pc (quarter 1)) (quarter 2), padd pt (quarter 1)) /\
                 next2 (KECR, true) pc pt = (pc, pt) /\ next2 (KECR, false) pc pt = (pc, pt)) /\
  (* read-out: bitflip(tm, rout) of the label under the internal qubit *)
  (forall c, ro R V gflip c = gflip [c_tm V c; c_rout V c]) /\
  (* the physical circuit of an instruction list *)
  (forall used data, own_circ A D V val theta dur used data = flat_map (own_pops A D V val theta dur used) (numbered data)) /\
  (forall used j x, own_pops A D V val theta dur used (j, x) = pops_annot A D V val used (theta j) (dur j) x) /\
  (forall used th du q, pops_annot A D V val used th du (mkinstr OpRz [q] []) = [P1 (op1 A V) (kind2 * bool)%type (O1rz A V th) (N.to_nat q)] /\
     pops_annot A D V val used th du (mkinstr OpSx [q] []) = [P1 (op1 A V) (kind2 * bool)%type (O1g A V KSX) (N.to_nat q)] /\
     pops_annot A D V val used th du (mkinstr OpX [q] []) = [P1 (op1 A V) (kind2 * bool)%type (O1g A V KX) (N.to_nat q)] /\
     pops_annot A D V val used th du (mkinstr OpDelay [q] [])
       = (if memN q used then [P1 (op1 A V) (kind2 * bool)%type (O1relax A V (val (Ttime du))) (N.to_nat q)] else [])) /\
  (forall used th du c t, pops_annot A D V val used th du (mkinstr OpCx [c; t] []) = [P2 (op1 A V) (kind2 * bool)%type (KCX, (c <? t)%N) (N.to_nat c) (N.to_nat t)] /\
     pops_annot A D V val used th du (mkinstr OpEcr [c; t] []) = [P2 (op1 A V) (kind2 * bool)%type (KECR, (c <? t)%N) (N.to_nat c) (N.to_nat t)]) /\
  (forall used th du qs cs, pops_annot A D V val used th du (mkinstr OpMeasure qs cs) = [] /\ pops_annot A D V val used th du (mkinstr OpBarrier qs cs) = [] /\
     pops_annot A D V val used th du (mkinstr OpOther qs cs) = []).
Proof. repeat split. intros []; reflexivity. Qed.
