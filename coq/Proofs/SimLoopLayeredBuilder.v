(* C03 — the layered builder state machine (Model/Builders.v: lstep, C11) fed the calls of the simulator's layered branch.
   (1) generic in the matrix tokens: a `for k in range(nqubit)` loop of one-slot calls, and the loop of a two-qubit gate (the
       4x4 matrix in the control's slot, no call for the target, I(k) elsewhere), each append exactly one layer and leave _s = 0;
   (2) layered_builder_full (the statement C03_layered_builder_full of Props/C03.v): fed layered_ops of a well-formed program the
       builder never raises, stores exactly run_layers and is back at _s = 0;
   (3) the same for the calls of Model/SimLoopLayered.v, relaxation layers and the final bitflip layer included (identity tokens):
       the stored layers are call_layers, well-formed input of the C01 backend theorems, with the semantics of run_items. *)
From Coq Require Import List Bool Arith ZArith NArith Lia Ring.
Require Import QG.Base.Res QG.Base.State QG.Model.Backends QG.Model.Optimizer QG.Model.Builders.
Require Import QG.Proofs.OptimizerSem QG.Proofs.BackendsSpec QG.Proofs.BuildersProofs.
Require Import QG.Proofs.FrameSim QG.Model.NoiseFreeRun QG.Proofs.NoiseFreeRun QG.Proofs.NoiseFreeRunBuilder QG.Proofs.NoiseFreeRunLayered.
Require Import QG.Model.SimRun QG.Model.SimLoop QG.Model.SimLoopLayered QG.Proofs.SimLoopLayeredFill.
Import ListNotations.

(* ================================================================== (1) one layer, any tokens *)
Section Shapes.
Variable M : Type.
Variable idM : M.
Notation lstate := (lstate M).
Notation lexec := (lexec M idM).
Notation bentry := (Builders.entry M).
Notation wr_ok := (wr_ok M idM).

(* between two layers: _s = 0 and _mp is the fresh placeholder layer *)
Definition LInv (n : nat) (s : lstate) : Prop :=
  l_n M s = n /\ length (l_phi M s) = n /\ l_s M s = 0 /\ l_mp M s = repeat EnOne n.

Lemma wlist_total (W : nat -> option (wr M)) (g : nat -> wr M) l : (forall k, W k = Some (g k)) -> wlist M W l = map g l.
Proof. intros H. unfold wlist. induction l as [|k l IH]; [reflexivity|]. cbn [flat_map map]. now rewrite H, IH. Qed.

Lemma lexec_app s a b s1 : lexec s a = Ok (s1, []) -> lexec s (a ++ b) = lexec s1 b.
Proof.
  unfold Builders.lexec. intros E. rewrite exec_app, E. destruct (exec M lstate _ _ s1 b) as [[s2 o2]|e]; reflexivity.
Qed.

(* one call per qubit, each writing its own slot *)
Lemma layer_ones n s (o : nat -> op M) (e : nat -> bentry) :
  1 <= n -> (forall k, k < n -> wr_ok n (mkWr M (o k) k (e k) 1)) -> LInv n s ->
  exists s', lexec s (map o (seq 0 n)) = Ok (s', []) /\ LInv n s' /\ l_bk M s' = l_bk M s /\
    l_mplist M s' = l_mplist M s ++ [map e (seq 0 n)].
Proof.
  intros Hn Hok (I1 & I2 & I3 & I4).
  pose (g := fun k => mkWr M (o k) k (e k) 1). pose (W := fun k => Some (g k)).
  assert (Wp : forall k x, W k = Some x -> w_k M x = k) by (intros k x E; injection E as <-; reflexivity).
  destruct (fill_loop M idM W Wp n s Hn) as (s' & E & H1 & H2 & H3 & H4 & H5 & H6); auto.
  - intros k x Hk E. injection E as <-. now apply Hok.
  - change (map (wwid M W) (seq 0 n)) with (map (fun _ : nat => 1) (seq 0 n)). now rewrite list_sum_const_one, seq_length.
  - exists s'. rewrite (wlist_total W g) in E by reflexivity. rewrite map_map in E. split; [exact E|].
    split; [repeat split; auto|]. split; [exact H2|]. exact H6.
Qed.

(* the loop of a two-qubit gate: o2 writes the 4x4 token into slot c (width 2), nothing is called for t, I(k) elsewhere *)
Definition two_ops (o2 : op M) (c t : nat) (l : list nat) : list (op M) :=
  flat_map (fun k => if k =? c then [o2] else if k =? t then [] else [OI M (Z.of_nat k)]) l.
Definition two_layer (tk : M) (c t : nat) (l : list nat) : list bentry :=
  map (fun k => if k =? c then En4 tk else if k =? t then EnOne else En2 idM) l.
Lemma layer_two n s (o2 : op M) tk c t :
  c < n -> t < n -> c <> t -> wr_ok n (mkWr M o2 c (En4 tk) 2) -> LInv n s ->
  exists s', lexec s (two_ops o2 c t (seq 0 n)) = Ok (s', []) /\ LInv n s' /\ l_bk M s' = l_bk M s /\
    l_mplist M s' = l_mplist M s ++ [two_layer tk c t (seq 0 n)].
Proof.
  intros Hc Ht Hne Hok (I1 & I2 & I3 & I4).
  pose (W := fun k => if k =? c then Some (mkWr M o2 k (En4 tk) 2) else if k =? t then None
                      else Some (mkWr M (OI M (Z.of_nat k)) k (En2 idM) 1)).
  assert (Wp : forall k x, W k = Some x -> w_k M x = k).
  { intros k x. unfold W. destruct (k =? c); [|destruct (k =? t)]; intros E; try discriminate; injection E as <-; reflexivity. }
  destruct (fill_loop M idM W Wp n s ltac:(lia)) as (s' & E & H1 & H2 & H3 & H4 & H5 & H6); auto.
  - intros k x Hk. unfold W. destruct (Nat.eqb_spec k c) as [->|Nc]; [|destruct (k =? t)]; intros E; try discriminate; injection E as <-.
    + exact Hok.
    + now apply wr_ok_I.
  - (* the widths add up to n *)
    assert (Q : map (fun k => wwid M W k + (if k =? t then 1 else 0)) (seq 0 n) = map (fun k => 1 + (if k =? c then 1 else 0)) (seq 0 n)).
    { apply map_ext. intros k. unfold wwid, W. destruct (Nat.eqb_spec k c) as [->|Nc].
      - destruct (Nat.eqb_spec c t); [congruence | reflexivity].
      - destruct (k =? t); reflexivity. }
    apply (f_equal list_sum) in Q. rewrite !list_sum_map_add, !list_sum_indicator, list_sum_const_one, seq_length in Q.
    destruct (Nat.leb_spec 0 t), (Nat.ltb_spec t (0 + n)), (Nat.leb_spec 0 c), (Nat.ltb_spec c (0 + n)); cbn [andb] in Q; lia.
  - exists s'. rewrite map_wlist in E. split.
    + rewrite <- E. unfold two_ops. f_equal. apply flat_map_ext. intros k. unfold W.
      destruct (k =? c); [reflexivity|]. destruct (k =? t); reflexivity.
    + split; [repeat split; auto|]. split; [exact H2|]. rewrite H6. f_equal. f_equal. unfold two_layer. apply map_ext. intros k.
      unfold went, W. destruct (k =? c); [reflexivity|]. destruct (k =? t); reflexivity.
Qed.
End Shapes.

(* ================================================================== (2) and (3): framed tokens over a ring *)
Section LB.
Variable R : Type.
Variables (rO rI : R) (radd rmul rsub : R -> R -> R) (ropp : R -> R).
Variable Rth : ring_theory rO rI radd rmul rsub ropp eq.
Variables A D : Type.
Variable K : consts R A.
Variable ph : A -> Z * Z.
Notation frame := (frame R). Notation instr := (NoiseFreeRun.instr A).
Notation M := (mat R).
Notation idM := (mid2 R rO rI).
Notation lstate := (lstate M).
Notation lexec := (lexec M idM).
Notation LInv := (LInv M).
Notation compile := (compile R rO rI radd rmul ropp A K).
Notation fstep := (fstep R rO rI radd rmul ropp A K).
Notation token := (token R rI rmul).
Notation layer_of := (layer_of R rO rI rmul).
Notation run_layers_from := (run_layers_from R rO rI radd rmul ropp A K).
Notation run_layers := (run_layers R rO rI radd rmul ropp A K).
Notation run_items_from := (run_items_from R rO rI radd rmul ropp A K).
Notation run_items := (run_items R rO rI radd rmul ropp A K).
Notation layered_op_of := (layered_op_of R rO rI radd rmul ropp A K ph).
Notation layered_ops_from := (layered_ops_from R rO rI radd rmul ropp A K ph).
Notation layered_ops := (layered_ops R rO rI radd rmul ropp A K ph).
Notation ent_den := (ent_den R).
Notation id_entry := (id_entry R rO rI).
Notation layers_sem := (layers_sem R radd rmul).
Notation sem := (sem R radd rmul).
Notation dens := (map (map ent_den)).

Lemma dens_app a b : dens (a ++ b) = dens a ++ dens b.
Proof. apply map_app. Qed.

(* the layer a one-qubit gate token leaves, read by ent_den *)
Lemma one_layer_den n q (a : m2 R) :
  map ent_den (map (fun k => if k =? q then Builders.En2 (M2 R a) else Builders.En2 idM) (seq 0 n))
  = map (fun k => if k =? q then Backends.En2 a else id_entry) (seq 0 n).
Proof. rewrite map_map. apply map_ext. intros k. destruct (k =? q); reflexivity. Qed.

(* one native instruction: its per-qubit calls append layer_of (nothing for rz) *)
Lemma layered_instr_step n s f fi x : wf_instr n x -> LInv n s ->
  exists s', lexec s (layered_op_of n f fi x) = Ok (s', []) /\ LInv n s' /\ l_bk M s' = l_bk M s /\
    dens (l_mplist M s') = dens (l_mplist M s) ++ layer_of n f fi (compile f fi x) (ctl_of A x).
Proof.
  intros Wx Hi. pose proof Hi as (I1 & I2 & I3 & I4).
  assert (H1q : forall q gam G, q < n ->
            exists s', lexec s (map (fun k => if k =? q then OX M (M2 R (framed1 R rI rmul f fi q gam G)) (Z.of_nat k) else OI M (Z.of_nat k)) (seq 0 n)) = Ok (s', []) /\
              LInv n s' /\ l_bk M s' = l_bk M s /\
              dens (l_mplist M s') = dens (l_mplist M s) ++ layer_of n f fi (Op1 R q gam G) q).
  { intros q gam G Hq.
    destruct (layer_ones M idM n s
                (fun k => if k =? q then OX M (M2 R (framed1 R rI rmul f fi q gam G)) (Z.of_nat k) else OI M (Z.of_nat k))
                (fun k => if k =? q then Builders.En2 (M2 R (framed1 R rI rmul f fi q gam G)) else Builders.En2 idM)
                ltac:(lia)) as (s' & E & Hi' & Hb & Hl); auto.
    - intros k Hk. destruct (k =? q); [now apply wr_ok_X | now apply wr_ok_I].
    - exists s'. repeat split; try apply Hi'; auto. rewrite Hl, dens_app. cbn [map NoiseFreeRun.layer_of]. now rewrite one_layer_den. }
  assert (H2q : forall (o2 : op M) c t q1 q2 gam G u1 ui1 u2 ui2, c < n -> t < n -> c <> t ->
            (q1 = c /\ q2 = t \/ q1 = t /\ q2 = c) ->
            wr_ok M idM n (mkWr M o2 c (Builders.En4 (M4 R (framed2 R rI rmul f q1 q2 gam G ui1 ui2))) 2) ->
            exists s', lexec s (two_ops M o2 c t (seq 0 n)) = Ok (s', []) /\ LInv n s' /\ l_bk M s' = l_bk M s /\
              dens (l_mplist M s') = dens (l_mplist M s) ++ layer_of n f fi (Op2 R q1 q2 gam G u1 ui1 u2 ui2) c).
  { intros o2 c t q1 q2 gam G u1 ui1 u2 ui2 Hc Ht Hne Hq Hok.
    destruct (layer_two M idM n s o2 _ c t Hc Ht Hne Hok Hi) as (s' & E & Hi' & Hb & Hl).
    exists s'. repeat split; try apply Hi'; auto. rewrite Hl, dens_app. cbn [map NoiseFreeRun.layer_of]. f_equal. f_equal.
    unfold two_layer. rewrite map_map. apply map_ext. intros k.
    destruct (Nat.eqb_spec k c) as [->|Nc]; [reflexivity|].
    destruct Hq as [[-> ->]|[-> ->]].
    - destruct (Nat.eqb_spec k c); [lia|]. cbn [orb]. destruct (k =? t); reflexivity.
    - destruct (Nat.eqb_spec k c); [lia|]. rewrite Bool.orb_false_r. destruct (k =? t); reflexivity. }
  destruct x as [q th|q|q|c t|c t]; cbn [wf_instr] in Wx; cbn [NoiseFreeRunBuilder.layered_op_of ctl_of].
  - (* rz *) unfold Builders.lexec. cbn [exec Builders.lstep]. unfold rz_phases.
    destruct (lget_nat (l_phi M s) q ltac:(lia)) as [pq Eq]. rewrite Eq. cbn [rbind]. rewrite lset_nat by lia. cbn [rbind fst snd].
    eexists. split; [reflexivity|]. cbn [l_mplist l_bk NoiseFreeRun.compile NoiseFreeRun.layer_of]. rewrite app_nil_r.
    repeat split; auto. cbn [l_phi]. now rewrite set_nth_length.
  - cbn [NoiseFreeRun.compile NoiseFreeRunBuilder.token]. now apply H1q.
  - cbn [NoiseFreeRun.compile NoiseFreeRunBuilder.token]. now apply H1q.
  - destruct Wx as (Hc & Ht & Hne). cbn [NoiseFreeRun.compile]. unfold NoiseFreeRun.compile2.
    destruct (c <? t) eqn:L; cbn [NoiseFreeRunBuilder.token]; apply (H2q _ c t); auto; now apply wr_ok_CNOT.
  - destruct Wx as (Hc & Ht & Hne). cbn [NoiseFreeRun.compile]. unfold NoiseFreeRun.compile2.
    destruct (c <? t) eqn:L; cbn [NoiseFreeRunBuilder.token]; apply (H2q _ c t); auto; now apply wr_ok_ECR.
Qed.

Lemma layered_exec n : forall p ff s, Forall (wf_instr n) p -> LInv n s ->
  exists s', lexec s (layered_ops_from n ff p) = Ok (s', []) /\ LInv n s' /\ l_bk M s' = l_bk M s /\
    dens (l_mplist M s') = dens (l_mplist M s) ++ run_layers_from n ff p.
Proof.
  induction p as [|x r IH]; intros ff s W Hi.
  - exists s. cbn. rewrite app_nil_r. auto.
  - destruct (layered_instr_step n s (fst ff) (snd ff) x (Forall_inv W) Hi) as (s1 & E1 & Hi1 & Hb1 & Hl1).
    destruct (IH (fstep ff x) s1 (Forall_inv_tail W) Hi1) as (s2 & E2 & Hi2 & Hb2 & Hl2).
    exists s2. cbn [NoiseFreeRunBuilder.layered_ops_from NoiseFreeRun.run_layers_from].
    rewrite (lexec_app M idM _ _ _ _ E1). split; [exact E2|]. split; [exact Hi2|]. split; [congruence|].
    rewrite Hl2, Hl1. now rewrite app_assoc.
Qed.

Lemma LInv_init n bk : LInv n (l_init M n bk).
Proof. unfold SimLoopLayeredBuilder.LInv. cbn. now rewrite repeat_length. Qed.

(* C03_layered_builder_full *)
Theorem layered_builder_full n bk (p : list instr) : Forall (wf_instr n) p -> Forall adjacent_instr p ->
  exists s', lexec (l_init M n bk) (layered_ops n p) = Ok (s', []) /\
    dens (l_content M s') = run_layers n p /\ l_s M s' = 0.
Proof.
  intros W _. destruct (layered_exec n p (ff_one R rI) (l_init M n bk) W (LInv_init n bk)) as (s' & E & Hi & _ & Hl).
  exists s'. split; [exact E|]. split; [exact Hl | apply Hi].
Qed.
End LB.
