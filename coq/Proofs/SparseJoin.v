(* join_str, entry_of, list.remove and create_sparse of Model/Sparse.v in closed form.
   scat qs vs base writes vs[t] at position qs[t] of base; the 2N-character string join_str builds is
   (row ++ col) with row = scat q_used jr (scat q_n_used bi 0..0), col = scat q_used jc (scat q_n_used bi 0..0), where
   bi ++ bi is k_str and jr ++ jc is m_str.  Well-formed arguments never raise. *)
From Coq Require Import List Bool Arith ZArith NArith Lia.
Require Import QG.Base.Res QG.Base.State QG.Base.Mat QG.Model.Optimizer QG.Model.Sparse QG.Proofs.SparseBits.
Import ListNotations.

Fixpoint scat (qs : list nat) (vs : list bool) (base : bits) : bits :=
  match qs, vs with q :: qs', v :: vs' => scat qs' vs' (upd base q v) | _, _ => base end.

Lemma set_nth_upd (l : list bool) : forall i v, set_nth l i v = upd l i v.
Proof. induction l as [|h t IH]; intros [|i] v; cbn [set_nth upd]; auto. now rewrite IH. Qed.

Lemma scat_length qs : forall vs base, length (scat qs vs base) = length base.
Proof. induction qs as [|q qs IH]; intros [|v vs] base; cbn [scat]; auto. now rewrite IH, upd_length. Qed.

Lemma get_scat_notin p qs : forall vs base, ~ In p qs -> get (scat qs vs base) p = get base p.
Proof.
  induction qs as [|q qs IH]; intros [|v vs] base H; cbn [scat]; auto.
  rewrite IH by (intros K; apply H; now right). apply get_upd_ne. intros ->. apply H. now left.
Qed.

(* reading back what was written *)
Lemma gath_scat qs : forall vs base, NoDup qs -> length vs = length qs -> (forall q, In q qs -> q < length base) ->
  map (get (scat qs vs base)) qs = vs.
Proof.
  induction qs as [|q qs IH]; intros [|v vs] base ND L Hb; cbn [length] in L; try discriminate; auto.
  apply NoDup_cons_iff in ND as [Hn ND]. cbn [scat map]. f_equal.
  - rewrite get_scat_notin by assumption. apply get_upd. apply Hb. now left.
  - apply IH; auto. intros q' Hq'. rewrite upd_length. apply Hb. now right.
Qed.
Lemma gath_scat_other ps qs vs base : (forall p, In p ps -> ~ In p qs) ->
  map (get (scat qs vs base)) ps = map (get base) ps.
Proof. intros H. apply map_ext_in. intros p Hp. apply get_scat_notin. auto. Qed.

(* two strings of length n agree when they agree on a list of positions that covers 0..n-1 *)
Lemma eq_cover n (L : list nat) (b1 b2 : bits) : length b1 = n -> length b2 = n -> (forall p, p < n -> In p L) ->
  map (get b1) L = map (get b2) L -> b1 = b2.
Proof.
  intros L1 L2 C E. apply (nth_ext b1 b2 false false). { lia. } intros p Hp.
  assert (H : forall p, In p L -> get b1 p = get b2 p).
  { clear -E. induction L as [|a L IH]; intros p Hin; [destruct Hin|].
    cbn [map] in E. injection E as E1 E2. destruct Hin as [<-|Hin]; auto. }
  apply H. apply C. lia.
Qed.

Lemma app_eq_len {A} (a c b d : list A) : length a = length c -> a ++ b = c ++ d -> a = c /\ b = d.
Proof.
  revert c. induction a as [|x a IH]; intros [|y c] L E; cbn [length] in L; try discriminate; auto.
  cbn [app] in E. injection E as -> E. injection L as L. destruct (IH c L E) as [-> ->]. auto.
Qed.

(* ---- Python subscripts ---- *)
Lemma idx_nth {A} (l : list A) i d : i < length l -> idx l i = Ok (nth i l d).
Proof. intros H. unfold idx. now rewrite (nth_error_nth' l d H). Qed.

Lemma skipn_cons_nth {A} (s : list A) d : forall i, i < length s -> skipn i s = nth i s d :: skipn (S i) s.
Proof.
  induction s as [|h t IH]; intros [|i] H; cbn [length] in H; try lia.
  - reflexivity.
  - cbn [skipn nth]. apply IH. lia.
Qed.

Lemma py_index_ok len q : q < len -> py_index len (Z.of_nat q) = Ok q.
Proof.
  intros H.
  assert (E1 : (Z.of_nat q <? 0)%Z = false) by (apply Z.ltb_ge; lia).
  assert (E2 : (Z.of_nat len <=? Z.of_nat q)%Z = false) by (apply Z.leb_gt; lia).
  unfold py_index. cbv zeta. rewrite E1. cbv iota. rewrite E1, E2.
  cbn [orb]. now rewrite Nat2Z.id.
Qed.

Lemma upd_app_lo (row col : bits) q a : q < length row -> upd (row ++ col) q a = upd row q a ++ col.
Proof.
  revert q. induction row as [|h t IH]; intros [|q] H; cbn [length] in H; try lia; cbn [app upd]; auto.
  rewrite IH by lia. reflexivity.
Qed.
Lemma upd_app_hi (row col : bits) q a : upd (row ++ col) (length row + q) a = row ++ upd col q a.
Proof. induction row as [|h t IH]; cbn [length app upd Nat.add]; auto. now rewrite IH. Qed.

Section Sub.
Variable n : nat.
Variables row col : bits.
Hypothesis Lr : length row = n.
Hypothesis Lc : length col = n.

Lemma py_set_lo q a : q < n -> py_set (row ++ col) (Z.of_nat q) a = Ok (upd row q a ++ col).
Proof.
  intros H. unfold py_set. rewrite py_index_ok by (rewrite app_length; lia). cbn [rbind].
  rewrite set_nth_upd, upd_app_lo by lia. reflexivity.
Qed.
Lemma py_set_hi q a : q < n -> py_set (row ++ col) (Z.of_nat q + Z.of_nat n) a = Ok (row ++ upd col q a).
Proof.
  intros H. unfold py_set. rewrite <- Nat2Z.inj_add. rewrite py_index_ok by (rewrite app_length; lia). cbn [rbind].
  rewrite set_nth_upd. rewrite (Nat.add_comm q n), <- Lr, upd_app_hi. reflexivity.
Qed.
Lemma py_get_lo q : q < n -> py_get (row ++ col) (Z.of_nat q) = Ok (get row q).
Proof.
  intros H. unfold py_get. rewrite py_index_ok by (rewrite app_length; lia). cbn [rbind].
  rewrite (idx_nth _ _ false) by (rewrite app_length; lia). rewrite app_nth1 by lia. reflexivity.
Qed.
Lemma py_get_hi q : q < n -> py_get (row ++ col) (Z.of_nat q + Z.of_nat n) = Ok (get col q).
Proof.
  intros H. unfold py_get. rewrite <- Nat2Z.inj_add. rewrite py_index_ok by (rewrite app_length; lia). cbn [rbind].
  rewrite (idx_nth _ _ false) by (rewrite app_length; lia). rewrite app_nth2 by lia.
  replace (q + n - length row) with q by lia. reflexivity.
Qed.
End Sub.

(* ---- join_str ---- *)
Lemma join_assign_spec n k (s : list bool) : length s = k + k -> forall qs i row col,
  length row = n -> length col = n -> (forall q, In q qs -> q < n) -> i + length qs <= k ->
  join_assign n k s i (map Z.of_nat qs) (row ++ col) =
  Ok (scat qs (firstn (length qs) (skipn i s)) row ++ scat qs (firstn (length qs) (skipn (i + k) s)) col).
Proof.
  intros Ls. induction qs as [|q qs IH]; intros i row col Lr Lc Hq Hi; cbn [map join_assign length].
  - reflexivity.
  - cbn [length] in Hi.
    assert (Hqn : q < n) by (apply Hq; now left).
    rewrite (idx_nth s i false) by lia. cbn [rbind].
    rewrite (py_set_lo n row col) by auto. cbn [rbind].
    rewrite (idx_nth s (i + k) false) by lia. cbn [rbind].
    rewrite (py_set_hi n (upd row q (nth i s false)) col) by (rewrite ?upd_length; auto). cbn [rbind].
    rewrite IH; rewrite ?upd_length; auto; try lia.
    + rewrite (skipn_cons_nth s false i), (skipn_cons_nth s false (i + k)) by lia.
      cbn [firstn scat Nat.add]. reflexivity.
    + intros q' Hq'. apply Hq. now right.
Qed.

Lemma join_str_spec (qnu qs : list nat) (bi jr jc : bits) :
  length bi = length qnu -> length jr = length qs -> length jc = length qs ->
  (forall q, In q qnu -> q < length qnu + length qs) -> (forall q, In q qs -> q < length qnu + length qs) ->
  join_str (bi ++ bi) (jr ++ jc) (map Z.of_nat qnu) (map Z.of_nat qs) (length qnu) (length qs) =
  Ok (scat qs jr (scat qnu bi (repeat false (length qnu + length qs)))
      ++ scat qs jc (scat qnu bi (repeat false (length qnu + length qs)))).
Proof.
  intros Lb Lr Lc Hu Hq. unfold join_str. rewrite !map_length, !Nat.eqb_refl. cbn [negb orb].
  set (n := length qnu + length qs) in *.
  replace (repeat false (2 * n)) with (repeat false n ++ repeat false n) by (rewrite <- repeat_app; f_equal; lia).
  rewrite (join_assign_spec n (length qnu) (bi ++ bi)); rewrite ?app_length, ?repeat_length; auto; try lia.
  cbn [rbind].
  rewrite (join_assign_spec n (length qs) (jr ++ jc)); rewrite ?app_length, ?scat_length, ?repeat_length; auto; try lia.
  cbn [Nat.add skipn]. rewrite !firstn_app_exact, !skipn_app_exact by auto.
  rewrite <- Lb, <- Lc, !firstn_all. reflexivity.
Qed.

(* ---- entry_of: the gate entry read for the element (row, col) ---- *)
Definition ent (qs : list nat) (row col : bits) : N * N :=
  match qs with
  | [] => (0%N, 0%N)
  | [q] => (b2N (get row q), b2N (get col q))
  | qa :: qb :: _ => ((2 * b2N (get row qa) + b2N (get row qb))%N, (2 * b2N (get col qa) + b2N (get col qb))%N)
  end.

Lemma entry_of_spec n qs (row col : bits) : length row = n -> length col = n -> qs <> [] ->
  (forall q, In q qs -> q < n) -> entry_of (map Z.of_nat qs) n (row ++ col) = Ok (ent qs row col).
Proof.
  intros Lr Lc Hne Hq. destruct qs as [|qa [|qb r]]; [congruence| |].
  - unfold entry_of. cbn [map length Nat.eqb idx nth_error rbind].
    assert (qa < n) by (apply Hq; now left).
    rewrite (py_get_lo n row col), (py_get_hi n row col) by auto. reflexivity.
  - unfold entry_of. cbn [map length Nat.eqb idx nth_error rbind].
    assert (qa < n) by (apply Hq; now left). assert (qb < n) by (apply Hq; right; now left).
    rewrite !(py_get_lo n row col), !(py_get_hi n row col) by auto. reflexivity.
Qed.

(* ---- list.remove on range(n) ---- *)
Lemma py_remove_nat q : forall l, In q l -> NoDup l ->
  exists l', py_remove (Z.of_nat q) (map Z.of_nat l) = Ok (map Z.of_nat l') /\ NoDup l' /\
             (forall y, In y l' <-> In y l /\ y <> q) /\ S (length l') = length l.
Proof.
  induction l as [|y l IH]; intros Hin ND; [destruct Hin|].
  apply NoDup_cons_iff in ND as [Hn ND]. cbn [map py_remove].
  destruct (Z.eqb_spec (Z.of_nat q) (Z.of_nat y)) as [E|E].
  - apply Nat2Z.inj in E. subst y. exists l. split; [reflexivity|]. split; [assumption|]. split; [|reflexivity].
    intros z. cbn [In]. split.
    + intros Hz. split; [now right|]. intros ->. contradiction.
    + intros [[->|Hz] Hz']; [congruence|auto].
  - assert (q <> y) by (intros ->; congruence).
    destruct Hin as [->|Hin]; [congruence|].
    destruct (IH Hin ND) as (l' & E' & ND' & I' & L'). rewrite E'. cbn [rbind].
    exists (y :: l'). split; [reflexivity|]. split; [|split].
    + constructor; auto. intros K. apply I' in K. tauto.
    + intros z. cbn [In]. rewrite I'. split.
      * intros [->|[A B]]; auto.
      * intros [[->|A] B]; auto.
    + cbn [length]. lia.
Qed.

(* ---- create_sparse in closed form ---- *)
Lemma mapM_map_ok {A B C} (f : B -> res C) (g : A -> B) (h : A -> C) l :
  (forall x, In x l -> f (g x) = Ok (h x)) -> mapM f (map g l) = Ok (map h l).
Proof.
  induction l as [|x l IH]; intros H; cbn [map mapM]; auto.
  rewrite H by now left. cbn [rbind]. rewrite IH by (intros; apply H; now right). reflexivity.
Qed.

Definition sp_str (qnu qs : list nat) (bi j : bits) : bits :=
  scat qs j (scat qnu bi (repeat false (length qnu + length qs))).
Definition sparse_triples (qnu qs : list nat) : list (list bool * list bool * (N * N)) :=
  concat (map (fun bi => map (fun bj =>
      (sp_str qnu qs bi (firstn (length qs) bj), sp_str qnu qs bi (skipn (length qs) bj),
       ent qs (sp_str qnu qs bi (firstn (length qs) bj)) (sp_str qnu qs bi (skipn (length qs) bj))))
    (all_bits (length qs + length qs))) (all_bits (length qnu))).

Lemma sp_str_length qnu qs bi j : length (sp_str qnu qs bi j) = length qnu + length qs.
Proof. unfold sp_str. now rewrite !scat_length, repeat_length. Qed.

Lemma create_sparse_spec (qnu qs : list nat) : 0 < length qnu -> 0 < length qs ->
  (forall q, In q qnu -> q < length qnu + length qs) -> (forall q, In q qs -> q < length qnu + length qs) ->
  create_sparse (map Z.of_nat qs) (map Z.of_nat qnu) (map Z.of_nat qs) (length qnu + length qs)
  = Ok (sparse_triples qnu qs).
Proof.
  intros Hk Hm Hu Hq. unfold create_sparse. rewrite !map_length, Nat.eqb_refl. cbn [negb].
  set (k := length qnu) in *. set (m := length qs) in *.
  replace (2 * m) with (m + m) by lia.
  rewrite <- (bval_all_bits k).
  erewrite (mapM_map_ok _ bval). { cbn [rbind]. reflexivity. }
  intros bi Hbi. apply all_bits_length in Hbi.
  rewrite <- (bval_all_bits (m + m)).
  apply mapM_map_ok. intros bj Hbj. apply all_bits_length in Hbj.
  rewrite (bits_dup_bits k bi) by auto.
  rewrite (fmt_b_bval (m + m) bj) by (auto; lia).
  rewrite <- (firstn_skipn m bj) at 1.
  assert (L1 : length (firstn m bj) = m) by (rewrite firstn_length; lia).
  assert (L2 : length (skipn m bj) = m) by (rewrite skipn_length; lia).
  unfold k, m. rewrite join_str_spec by auto. cbn [rbind]. fold k m.
  rewrite (entry_of_spec (k + m)).
  - cbn [rbind]. unfold sp_str. fold k m.
    rewrite firstn_app_exact, skipn_app_exact by (rewrite !scat_length, repeat_length; reflexivity). reflexivity.
  - rewrite !scat_length, repeat_length; reflexivity.
  - rewrite !scat_length, repeat_length; reflexivity.
  - intros K. unfold m in Hm. rewrite K in Hm. cbn in Hm. lia.
  - exact Hq.
Qed.
