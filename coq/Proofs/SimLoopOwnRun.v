(* C08 — run_is_spec for the index class: the modelled shot (Model/SimLoopOwn.v: the calls of Model/SimLoop.v fed to the builder
   model of BinaryCircuit with an ARBITRARY deterministic gate set, then BinaryBackend's model) computes the abstract `run` of
   Proofs/RelabelMain.v -- the run for which C08_relabel_invariant / _marginal / C08_subset_is_marginal are proved -- at the
   instantiation written down here:
     labels      L = the used physical labels;  internal index = rank;
     cal         the label's own table entries (p, T1, T2, tm, rout);  cal2: the ordered pair's own (t_int, p_int);
     phases      the builder's symbolic phases a + b * pi/2, all zero at the start;
     op1         rz(angle) | X | SX | delay(duration * dt)    op2  (cx | ecr, direction),  direction = control label < target label
     gate1/2     the gate-set functions applied to the operation's OWN phases and OWN table entries, as circuit.py passes them;
                 the 4x4 matrix is read on the ordered pair (control, target): for control index > target index the code stores
                 CNOT_inv / ECR_inv(...) on [target, control], which is the slot-swapped matrix on (control, target);
     next1/2     circuit.py's phase updates (rz adds its angle; CNOT: -pi/2 on the control, resp. +3pi/2 and +pi/2; ECR: none);
     ro          gates.bitflip(tm, rout) of the label under each internal qubit. *)
From Coq Require Import List Bool Arith NArith ZArith Lia Ring.
Require Import QG.Base.Res QG.Base.State QG.Base.Perm QG.Model.FixCounts QG.Model.SimRun QG.Model.NoiseFreeRun QG.Model.SimLoop QG.Model.Builders QG.Model.SimLoopOwn.
Require Import QG.Model.Backends QG.Model.Optimizer QG.Model.Sparse QG.Proofs.OptimizerSem QG.Proofs.SparseApply QG.Proofs.SparseMain.
Require Import QG.Proofs.FrameSim QG.Proofs.NoiseFreeRun QG.Proofs.NoiseFreeRunBuilder QG.Proofs.SimRunKeys QG.Proofs.SimRunProofs QG.Proofs.SimLoop.
Require Import QG.Proofs.Relabel QG.Proofs.RelabelRank QG.Proofs.RelabelMain QG.Proofs.RelabelLayout QG.Proofs.SimLoopOwn.
Import ListNotations.

(* the 4x4 matrix with its two tensor slots exchanged *)
Definition swap4 {R} (G : m4 R) : m4 R := fun r c => G (snd r, fst r) (snd c, fst c).

Section OwnRun.
Variable R : Type.
Variables (rO rI : R) (radd rmul rsub : R -> R -> R) (ropp : R -> R).
Variable Rth : ring_theory rO rI radd rmul rsub ropp eq.
Variables A D V : Type.
Variable val : tok A D -> V.
Variable ph : A -> Z * Z.
(* THE GATE SET: any functions of the phases and argument values they are called with *)
Variable g1 : kind1 -> Z * Z -> list V -> m2 R.                    (* X / SX (-phi, p, T1, T2) *)
Variable g2 : kind2 -> bool -> Z * Z -> Z * Z -> list V -> m4 R.   (* CNOT / ECR (false), CNOT_inv / ECR_inv (true) *)
Variable grelax : list V -> m2 R.                                  (* relaxation(Dt, T1, T2) *)
Variable gflip : list V -> m2 R.                                   (* bitflip(tm, rout) *)

Notation M := (mat R).
Notation idM := (mid2 R rO rI).
Notation call := (call A D).
Notation sem := (sem R radd rmul).
Notation den := (den R rO rI).
Notation den_items := (den_items R rO rI).

Definition gs (c : gcall V) : M :=
  match c with
  | GOne k p a => M2 R (g1 k p a)
  | GTwo k inv p1 p2 a => M4 R (g2 k inv p1 p2 a)
  | GRelax a => M2 R (grelax a)
  | GFlip a => M2 R (gflip a)
  end.
Notation own_steps := (own_steps A D V val ph M idM gs).
Notation own_shot := (own_shot A D V val ph M idM gs).
Notation instr_of_call := (instr_of_call A D V val ph).

(* ---- the instantiation of the abstract run ---- *)
Record qcal := mkqcal { c_p : V; c_T1 : V; c_T2 : V; c_tm : V; c_rout : V }.
Record pcal := mkpcal { c_tint : V; c_pint : V }.
Definition T1tab (q : nat) : qcal :=
  let q' := N.of_nat q in mkqcal (val (Tp q')) (val (TT1 q')) (val (TT2 q')) (val (Ttm q')) (val (Trout q')).
Definition T2tab (c t : nat) : pcal := mkpcal (val (Ttint (N.of_nat c) (N.of_nat t))) (val (Tpint (N.of_nat c) (N.of_nat t))).
Inductive op1 := O1rz (th : A) | O1g (k : kind1) | O1relax (dt : V).   (* a delay carries ITS OWN value of duration * dt *)
Notation op2 := (kind2 * bool)%type.
Notation pop := (pop op1 op2).
Definition pair_args (cc ct : qcal) (c2 : pcal) : list V :=
  [c_tint c2; c_pint c2; c_p cc; c_p ct; c_T1 cc; c_T2 cc; c_T1 ct; c_T2 ct].
Definition gate1 (o : op1) (p : Z * Z) (c : qcal) : option (m2 R) :=
  match o with
  | O1rz _ => None
  | O1g k => Some (g1 k (pneg p) [c_p c; c_T1 c; c_T2 c])
  | O1relax dt => Some (grelax [dt; c_T1 c; c_T2 c])
  end.
Definition next1 (o : op1) (p : Z * Z) : Z * Z := match o with O1rz th => padd p (ph th) | _ => p end.
Definition gate2 (o : op2) (pc pt : Z * Z) (cc ct : qcal) (c2 : pcal) : m4 R :=
  let a := pair_args cc ct c2 in
  match o with
  | (k, true) => g2 k false pc pt a
  | (KCX, false) => swap4 (g2 KCX true pc pt a)
  | (KECR, false) => swap4 (g2 KECR true pt pc (swap_ct V a))
  end.
Definition next2 (o : op2) (pc pt : Z * Z) : (Z * Z) * (Z * Z) :=
  match o with
  | (KECR, _) => (pc, pt)
  | (KCX, true) => (padd pc (quarter (-1)), pt)
  | (KCX, false) => (padd (padd pc (quarter 1)) (quarter 2), padd pt (quarter 1))
  end.
Definition ro (c : qcal) : m2 R := gflip [c_tm c; c_rout c].

Notation internalise := (internalise R qcal pcal (Z * Z)%type op1 op2 gate1 next1 gate2 next2).
Definition own_run (L : list nat) (circ : list pop) (psi : bits -> R) : bits -> R :=
  RelabelMain.run R radd rmul qcal pcal (Z * Z)%type op1 op2 gate1 next1 gate2 next2 ro L T1tab T2tab circ p0 psi.

(* the physical circuit behind the calls: one operation per gate-set carrying call of the body, on its own label(s);
   an rz call names its label through its index *)
Definition pop_of_call (L : list nat) (c : call) : list pop :=
  match c with
  | CRz v th => [P1 op1 op2 (O1rz th) (lab L v)]
  | C1 k _ q => [P1 op1 op2 (O1g k) (N.to_nat q)]
  | C2 k cv tv c' t => [P2 op1 op2 (k, cv <? tv) (N.to_nat c') (N.to_nat t)]
  | CRelax _ d q => [P1 op1 op2 (O1relax (val (Ttime d))) (N.to_nat q)]
  | CBitflip _ _ => []
  end.
Definition pops_of_calls (L : list nat) (cs : list call) : list pop := flat_map (pop_of_call L) cs.

(* ---- item lists up to the state they denote ---- *)
Definition items_eqv (a b : list (item R)) : Prop := forall psi c, sem a psi c = sem b psi c.
Lemma eqv_refl a : items_eqv a a. Proof. intros psi c. reflexivity. Qed.
Lemma eqv_trans a b c : items_eqv a b -> items_eqv b c -> items_eqv a c.
Proof. intros H1 H2 psi x. now rewrite H1. Qed.
Lemma eqv_app_l a x y : items_eqv x y -> items_eqv (a ++ x) (a ++ y).
Proof. intros H psi c. rewrite !(sem_app R radd rmul). apply H. Qed.
Lemma eqv_app_r a x y : items_eqv x y -> items_eqv (x ++ a) (y ++ a).
Proof. intros H psi c. rewrite !(sem_app R radd rmul). apply sem_ext_pt. intros b. apply H. Qed.

Lemma internalise_ext idx circ : forall phi phi', (forall i, phi i = phi' i) ->
  internalise idx T1tab T2tab circ phi = internalise idx T1tab T2tab circ phi'.
Proof.
  induction circ as [|x r IH]; intros phi phi' H; [reflexivity|].
  destruct x as [o q|o c t]; cbn [Relabel.internalise]; cbv zeta.
  - rewrite (H (idx q)).
    rewrite (IH (fupd (Z * Z) phi (idx q) (next1 o (phi' (idx q)))) (fupd (Z * Z) phi' (idx q) (next1 o (phi' (idx q))))).
    + reflexivity.
    + intros i. unfold fupd. destruct (i =? idx q); auto.
  - rewrite (H (idx c)), (H (idx t)). f_equal. apply IH.
    intros i. unfold fupd. destruct (i =? idx t); auto. destruct (i =? idx c); auto.
Qed.

Definition phi_of (pl : list (Z * Z)) : nat -> Z * Z := fun i => nth i pl p0.

(* ---- a call of the body, as the builder needs it ---- *)
Definition body_ok (L : list nat) (c : call) : Prop :=
  match c with
  | CRz v _ => v < length L
  | C1 _ v q | CRelax v _ q => In (N.to_nat q) L /\ v = rank L (N.to_nat q)
  | C2 _ cv tv c' t => In (N.to_nat c') L /\ In (N.to_nat t) L /\ c' <> t /\ cv = rank L (N.to_nat c') /\ tv = rank L (N.to_nat t)
  | CBitflip _ _ => False
  end.

Notation do_instr := (do_instr M unit (gcall V) (fun g c => (gs c, g)) (bstate M) (list (M * list Z)) (bstep M idM) (b_phi M)).
Notation do_instrs := (do_instrs M unit (gcall V) (fun g c => (gs c, g)) (bstate M) (list (M * list Z)) (bstep M idM) (b_phi M)).

Lemma T1tab_id q : T1tab (N.to_nat q) = mkqcal (val (Tp q)) (val (TT1 q)) (val (TT2 q)) (val (Ttm q)) (val (Trout q)).
Proof. unfold T1tab. now rewrite N2Nat.id. Qed.
Lemma T2tab_id c t : T2tab (N.to_nat c) (N.to_nat t) = mkpcal (val (Ttint c t)) (val (Tpint c t)).
Proof. unfold T2tab. now rewrite !N2Nat.id. Qed.

Lemma norm_den1 (a : m2 R) q : den (Builders.norm_item M (M2 R a, [Z.of_nat q; (-1)%Z])) = It1 a q.
Proof. cbn. now rewrite Nat2Z.id. Qed.
Lemma norm_den2 (g : m4 R) q1 q2 : den (Builders.norm_item M (M4 R g, [Z.of_nat q1; Z.of_nat q2])) = It2 g q1 q2.
Proof. cbn. destruct (Z.eqb_spec (Z.of_nat q2) (-1)); [lia|]. cbn. now rewrite !Nat2Z.id. Qed.
Lemma norm_wf1 n (a : m2 R) q : q < n -> wf_in R n (Builders.norm_item M (M2 R a, [Z.of_nat q; (-1)%Z])).
Proof. intros H. cbn. lia. Qed.
Lemma norm_wf2 n (g : m4 R) q1 q2 : q1 < n -> q2 < n -> q1 <> q2 -> wf_in R n (Builders.norm_item M (M4 R g, [Z.of_nat q1; Z.of_nat q2])).
Proof. intros H1 H2 H3. cbn. destruct (Z.eqb_spec (Z.of_nat q2) (-1)); [lia|]. cbn. lia. Qed.

(* one method call of the body: no exception, sizes kept, and the appended items followed by the rest of the circuit at the NEW
   phases denote the operation followed by the rest at the old phases *)
Lemma own_step L s c : NoDup L -> body_ok L c -> b_n M s = length L -> length (b_phi M s) = length L ->
  exists s1 new1, do_instr (s, tt) (instr_of_call c) = Ok (s1, tt) /\ b_n M s1 = length L /\ length (b_phi M s1) = length L /\
    b_layout_arg M s1 = b_layout_arg M s /\ b_items M s1 = b_items M s ++ new1 /\
    Forall (wf_in R (length L)) (map (Builders.norm_item M) new1) /\
    forall rest, items_eqv (den_items new1 ++ internalise (rank L) T1tab T2tab rest (phi_of (b_phi M s1)))
                           (internalise (rank L) T1tab T2tab (pop_of_call L c ++ rest) (phi_of (b_phi M s))).
Proof.
  intros ND Hc Hn Hl. set (n := length L) in *.
  destruct c as [v th|k v q|k cv tv c t|v d q|k q]; cbn [body_ok] in Hc; cbn [SimLoopOwn.instr_of_call pop_of_call app].
  - (* Rz *)
    cbn [Builders.do_instr Builders.bstep]. unfold rz_phases. rewrite (lget_nth _ v p0) by lia. cbn [rbind].
    rewrite lset_nat by lia. cbn [rbind fst].
    eexists; exists []. split; [reflexivity|]. cbn [b_n b_phi b_items b_layout_arg fst]. rewrite set_nth_length, app_nil_r.
    repeat split; auto. { constructor. }
    intros rest. cbn [NoiseFreeRunBuilder.den_items map app Relabel.internalise]. cbv zeta.
    rewrite (proj2 (rank_lab L v ND Hc)). cbn [gate1 next1].
    rewrite (internalise_ext (rank L) rest _ (fupd (Z * Z) (phi_of (b_phi M s)) v (padd (phi_of (b_phi M s) v) (ph th)))); [apply eqv_refl|].
    intros i. unfold phi_of, fupd. now rewrite nth_set_nth by lia.
  - (* X / SX *)
    destruct Hc as [Hin ->]. pose proof (rank_lt L _ Hin) as Hv. set (v := rank L (N.to_nat q)) in *.
    cbn [Builders.do_instr]. rewrite (lget_nth _ v p0) by lia. cbn [rbind Builders.bstep]. rewrite (lget_nth _ v p0) by lia.
    cbn [rbind b_apply gs fst].
    eexists; eexists. split; [reflexivity|]. cbn [b_n b_phi b_items b_layout_arg fst]. repeat split; auto.
    { cbn [map]. constructor; [|constructor]. now apply norm_wf1. }
    intros rest. unfold NoiseFreeRunBuilder.den_items. cbn [map app]. rewrite norm_den1. cbn [Relabel.internalise]. cbv zeta. fold v.
    rewrite T1tab_id. cbn [gate1 next1 c_p c_T1 c_T2 targs call_args map].
    rewrite (internalise_ext (rank L) rest (fupd (Z * Z) (phi_of (b_phi M s)) v (phi_of (b_phi M s) v)) (phi_of (b_phi M s))); [apply eqv_refl|].
    intros i. unfold fupd. destruct (Nat.eqb_spec i v) as [->|]; reflexivity.
  - (* CNOT / ECR *)
    destruct Hc as (Hic & Hit & Hne & -> & ->).
    pose proof (rank_lt L _ Hic) as Hcv. pose proof (rank_lt L _ Hit) as Htv.
    assert (Hne' : rank L (N.to_nat c) <> rank L (N.to_nat t)).
    { intros E. apply rank_inj in E; auto. apply Hne. now apply N2Nat.inj. }
    set (cv := rank L (N.to_nat c)) in *. set (tv := rank L (N.to_nat t)) in *.
    set (pc := phi_of (b_phi M s) cv). set (pt := phi_of (b_phi M s) tv).
    destruct k.
    + (* CNOT *)
      cbn [Builders.do_instr]. rewrite (lget_nth _ cv p0), (lget_nth _ tv p0) by lia. cbn [rbind Builders.bstep].
      unfold b_two, read2, cnot_phases. rewrite (lget_nth _ cv p0), (lget_nth _ tv p0) by lia. cbn [rbind].
      rewrite ltb_nat. destruct (Nat.ltb_spec cv tv) as [Lt|Ge].
      * rewrite lset_nat by lia. cbn [rbind b_apply gs fst]. destruct (Z.eqb_spec (Z.of_nat tv) (-1)); [lia|].
        eexists; eexists. split; [reflexivity|]. cbn [b_n b_phi b_items b_layout_arg fst]. rewrite set_nth_length. repeat split; auto.
        { cbn [map]. constructor; [|constructor]. apply norm_wf2; lia. }
        intros rest. unfold NoiseFreeRunBuilder.den_items. cbn [map app]. rewrite norm_den2. cbn [Relabel.internalise]. cbv zeta. fold cv tv.
        rewrite !T1tab_id, T2tab_id. cbn [gate2 next2 pair_args c_tint c_pint c_p c_T1 c_T2 targs call_args map fst snd].
        fold pc pt.
        rewrite (internalise_ext (rank L) rest (phi_of (Builders.set_nth cv (padd (nth cv (b_phi M s) p0) (quarter (-1))) (b_phi M s)))
                   (fupd (Z * Z) (fupd (Z * Z) (phi_of (b_phi M s)) cv (padd pc (quarter (-1)))) tv pt)); [apply eqv_refl|].
        intros i. unfold phi_of, fupd, pc, pt, phi_of. rewrite nth_set_nth by lia.
        destruct (Nat.eqb_spec i tv) as [->|]; [destruct (Nat.eqb_spec tv cv); [lia|reflexivity]|reflexivity].
      * rewrite lset_nat by lia. cbn [rbind]. rewrite (lget_nth _ tv p0) by (rewrite set_nth_length; lia). cbn [rbind].
        rewrite lset_nat by (rewrite set_nth_length; lia). cbn [rbind b_apply gs fst]. destruct (Z.eqb_spec (Z.of_nat cv) (-1)); [lia|].
        eexists; eexists. split; [reflexivity|]. cbn [b_n b_phi b_items b_layout_arg fst]. rewrite !set_nth_length. repeat split; auto.
        { cbn [map]. constructor; [|constructor]. apply norm_wf2; lia. }
        intros rest. unfold NoiseFreeRunBuilder.den_items. cbn [map app]. rewrite norm_den2. cbn [Relabel.internalise]. cbv zeta. fold cv tv.
        rewrite !T1tab_id, T2tab_id. cbn [gate2 next2 pair_args c_tint c_pint c_p c_T1 c_T2 targs call_args map fst snd].
        fold pc pt.
        rewrite (internalise_ext (rank L) rest
                   (phi_of (Builders.set_nth tv (padd (nth tv (Builders.set_nth cv (padd (padd (nth cv (b_phi M s) p0) (quarter 1)) (quarter 2)) (b_phi M s)) p0) (quarter 1))
                                    (Builders.set_nth cv (padd (padd (nth cv (b_phi M s) p0) (quarter 1)) (quarter 2)) (b_phi M s))))
                   (fupd (Z * Z) (fupd (Z * Z) (phi_of (b_phi M s)) cv (padd (padd pc (quarter 1)) (quarter 2))) tv (padd pt (quarter 1)))).
        -- intros psi b. cbn [app]. unfold State.sem. cbn [fold_left State.apply_item].
           apply sem_ext_pt. intros b'. unfold swap4. symmetry. apply (apply2_swap R rO rI radd rmul rsub ropp Rth tv cv). auto.
        -- intros i. unfold phi_of, fupd, pc, pt, phi_of. rewrite !nth_set_nth by (rewrite ?set_nth_length; lia).
           destruct (Nat.eqb_spec tv cv); [lia|].
           destruct (Nat.eqb_spec i tv) as [->|]; [reflexivity|]. reflexivity.
    + (* ECR *)
      cbn [Builders.do_instr]. rewrite (lget_nth _ cv p0), (lget_nth _ tv p0) by lia. cbn [rbind Builders.bstep].
      unfold b_two, read2. rewrite (lget_nth _ cv p0), (lget_nth _ tv p0) by lia. cbn [rbind].
      rewrite ltb_nat. destruct (Nat.ltb_spec cv tv) as [Lt|Ge].
      * cbn [rbind b_apply gs fst]. destruct (Z.eqb_spec (Z.of_nat tv) (-1)); [lia|].
        eexists; eexists. split; [reflexivity|]. cbn [b_n b_phi b_items b_layout_arg fst]. repeat split; auto.
        { cbn [map]. constructor; [|constructor]. apply norm_wf2; lia. }
        intros rest. unfold NoiseFreeRunBuilder.den_items. cbn [map app]. rewrite norm_den2. cbn [Relabel.internalise]. cbv zeta. fold cv tv.
        rewrite !T1tab_id, T2tab_id. cbn [gate2 next2 pair_args c_tint c_pint c_p c_T1 c_T2 targs call_args map fst snd].
        fold pc pt.
        rewrite (internalise_ext (rank L) rest (fupd (Z * Z) (fupd (Z * Z) (phi_of (b_phi M s)) cv pc) tv pt) (phi_of (b_phi M s))); [apply eqv_refl|].
        intros i. unfold fupd, pc, pt. destruct (Nat.eqb_spec i tv) as [->|]; [reflexivity|]. destruct (Nat.eqb_spec i cv) as [->|]; reflexivity.
      * cbn [rbind b_apply gs fst]. destruct (Z.eqb_spec (Z.of_nat cv) (-1)); [lia|].
        eexists; eexists. split; [reflexivity|]. cbn [b_n b_phi b_items b_layout_arg fst]. repeat split; auto.
        { cbn [map]. constructor; [|constructor]. apply norm_wf2; lia. }
        intros rest. unfold NoiseFreeRunBuilder.den_items. cbn [map app]. rewrite norm_den2. cbn [Relabel.internalise]. cbv zeta. fold cv tv.
        rewrite !T1tab_id, T2tab_id. cbn [gate2 next2 pair_args c_tint c_pint c_p c_T1 c_T2 targs call_args map fst snd].
        fold pc pt.
        rewrite (internalise_ext (rank L) rest (fupd (Z * Z) (fupd (Z * Z) (phi_of (b_phi M s)) cv pc) tv pt) (phi_of (b_phi M s))).
        -- intros psi b. cbn [app]. unfold State.sem. cbn [fold_left State.apply_item].
           apply sem_ext_pt. intros b'. unfold swap4. symmetry. apply (apply2_swap R rO rI radd rmul rsub ropp Rth tv cv). auto.
        -- intros i. unfold fupd, pc, pt. destruct (Nat.eqb_spec i tv) as [->|]; [reflexivity|]. destruct (Nat.eqb_spec i cv) as [->|]; reflexivity.
  - (* relaxation *)
    destruct Hc as [Hin ->]. pose proof (rank_lt L _ Hin) as Hv. set (v := rank L (N.to_nat q)) in *.
    cbn [Builders.do_instr Builders.bstep rbind b_apply gs fst].
    eexists; eexists. split; [reflexivity|]. cbn [b_n b_phi b_items b_layout_arg fst]. repeat split; auto.
    { cbn [map]. constructor; [|constructor]. now apply norm_wf1. }
    intros rest. unfold NoiseFreeRunBuilder.den_items. cbn [map app]. rewrite norm_den1. cbn [Relabel.internalise]. cbv zeta. fold v.
    rewrite T1tab_id. cbn [gate1 next1 c_p c_T1 c_T2 targs call_args map].
    rewrite (internalise_ext (rank L) rest (fupd (Z * Z) (phi_of (b_phi M s)) v (phi_of (b_phi M s) v)) (phi_of (b_phi M s))); [apply eqv_refl|].
    intros i. unfold fupd. destruct (Nat.eqb_spec i v) as [->|]; reflexivity.
  - destruct Hc.
Qed.

Lemma den_items_app' a b : den_items (a ++ b) = den_items a ++ den_items b.
Proof. unfold NoiseFreeRunBuilder.den_items. now rewrite !map_app. Qed.

Lemma own_steps_cons s c r :
  own_steps s (c :: r) = (sg <- do_instr (s, tt) (instr_of_call c) ;; do_instrs sg (map instr_of_call r)).
Proof. reflexivity. Qed.

Lemma body_appends L : NoDup L -> forall cs s, Forall (body_ok L) cs -> b_n M s = length L -> length (b_phi M s) = length L ->
  exists s' new, own_steps s cs = Ok (s', tt) /\ b_n M s' = length L /\ length (b_phi M s') = length L /\
    b_layout_arg M s' = b_layout_arg M s /\ b_items M s' = b_items M s ++ new /\
    Forall (wf_in R (length L)) (map (Builders.norm_item M) new) /\
    items_eqv (den_items new) (internalise (rank L) T1tab T2tab (pops_of_calls L cs) (phi_of (b_phi M s))).
Proof.
  intros ND. induction cs as [|c r IH]; intros s F Hn Hl.
  - exists s, []. cbn. rewrite app_nil_r. repeat split; auto; try apply eqv_refl.
  - destruct (own_step L s c ND (Forall_inv F) Hn Hl) as (s1 & new1 & E1 & Hn1 & Hl1 & La1 & I1 & W1 & Q1).
    destruct (IH s1 (Forall_inv_tail F) Hn1 Hl1) as (s2 & new2 & E2 & Hn2 & Hl2 & La2 & I2 & W2 & Q2).
    exists s2, (new1 ++ new2). rewrite own_steps_cons, E1. cbn [rbind]. unfold SimLoopOwn.own_steps in E2. rewrite E2.
    repeat split; auto.
    + congruence.
    + rewrite I2, I1. now rewrite app_assoc.
    + rewrite map_app. apply Forall_app. now split.
    + rewrite den_items_app'. unfold pops_of_calls. cbn [flat_map]. fold (pops_of_calls L r).
      eapply eqv_trans; [apply eqv_app_l; exact Q2 | apply Q1].
Qed.

(* ---- the read-out loop ---- *)
Lemma readout_appends L used : labels used = L -> rank_layout used -> forall cnt k s, k + cnt <= length L ->
  b_n M s = length L ->
  exists s', own_steps s (own_readout A D used k cnt) = Ok (s', tt) /\ b_n M s' = length L /\ b_phi M s' = b_phi M s /\
    b_layout_arg M s' = b_layout_arg M s /\
    b_items M s' = b_items M s ++ map (fun i => (M2 R (ro (T1tab (lab L i))), [Z.of_nat i; (-1)%Z])) (seq k cnt).
Proof.
  intros EL RL. induction cnt as [|c IH]; intros k s Hk Hn.
  - exists s. cbn. rewrite app_nil_r. auto.
  - unfold own_readout. cbn [seq map]. rewrite own_steps_cons. cbn [SimLoopOwn.instr_of_call Builders.do_instr Builders.bstep rbind b_apply gs fst].
    set (s1 := mkB M (b_n M s) (b_layout_arg M s) (b_phi M s) (b_items M s ++ [(M2 R (gflip (targs A D V val (CBitflip k (nth k used 0%N)))), [Z.of_nat k; (-1)%Z])])).
    destruct (IH (S k) s1 ltac:(lia) Hn) as (s' & E & Hn' & Hp' & La' & I').
    exists s'. unfold SimLoopOwn.own_steps, own_readout in E. rewrite E. repeat split; auto.
    rewrite I'. subst s1. cbn [b_items]. rewrite <- app_assoc. cbn [app]. do 3 f_equal.
    assert (Hlen : k < length used) by (rewrite <- EL in Hk; unfold labels in Hk; rewrite map_length in Hk; lia).
    destruct (nth_error used k) as [q|] eqn:Eq; [|apply nth_error_None in Eq; lia].
    rewrite (nth_error_nth _ _ 0%N Eq). destruct (rank_layout_nth used k q RL Eq) as [Hin ->].
    unfold rk. rewrite EL. rewrite lab_rank by (rewrite <- EL; unfold labels; now apply in_map).
    rewrite T1tab_id. reflexivity.
Qed.

Lemma readout_den L n : n = length L ->
  den_items (map (fun i => (M2 R (ro (T1tab (lab L i))), [Z.of_nat i; (-1)%Z])) (seq 0 n)) = Relabel.readout R qcal n ro (lab L) T1tab.
Proof.
  intros _. unfold NoiseFreeRunBuilder.den_items, Relabel.readout. rewrite !map_map. apply map_ext. intros i. apply norm_den1.
Qed.
Lemma readout_wf n L : Forall (wf_in R n) (map (Builders.norm_item M) (map (fun i => (M2 R (ro (T1tab (lab L i))), [Z.of_nat i; (-1)%Z])) (seq 0 n))).
Proof.
  rewrite map_map. apply Forall_forall. intros x Hx. apply in_map_iff in Hx as (i & <- & Hi). apply in_seq in Hi. apply norm_wf1. lia.
Qed.

Lemma do_instrs_app sg a b : do_instrs sg (a ++ b) = (sg' <- do_instrs sg a ;; do_instrs sg' b).
Proof.
  revert sg. induction a as [|x r IH]; intros sg; cbn [app Builders.do_instrs rbind]; [reflexivity|].
  destruct (do_instr sg x) as [sg1|e]; cbn [rbind]; [apply IH | reflexivity].
Qed.

(* ---- body ++ read-out on a fresh builder ---- *)
Theorem own_run_is_spec used body layout psi :
  rank_layout used -> Forall (body_ok (labels used)) body ->
  let L := labels used in let n := length L in
  let cs := body ++ own_readout A D used 0 n in
  exists s', own_steps (b_init M n layout) cs = Ok (s', tt) /\
    own_shot n layout cs = Ok (b_content M s') /\
    Forall (wf_in R n) (b_content M s') /\
    (forall b, sem (map den (b_content M s')) psi b = own_run L (pops_of_calls L body) psi b) /\
    (b_content M s' <> [] ->
     exists out, bin_statevector R rO radd rmul M (mmul R radd rmul) (mkron R rmul) (mid2 R rO rI) (mid4 R rO rI) (entry_mat R rO)
                   n (b_content M s') psi = Ok out /\
       state_eq R n out (own_run L (pops_of_calls L body) psi)).
Proof.
  intros RL F L n cs.
  assert (ND : NoDup L) by (apply NoDup_map_to_nat; exact (proj1 RL)).
  destruct (body_appends L ND body (b_init M n layout) F eq_refl (repeat_length _ n)) as (s1 & new1 & E1 & Hn1 & Hl1 & La1 & I1 & W1 & Q1).
  destruct (readout_appends L used eq_refl RL n 0 s1 ltac:(lia) Hn1) as (s2 & E2 & Hn2 & Hp2 & La2 & I2).
  exists s2.
  assert (Es : own_steps (b_init M n layout) cs = Ok (s2, tt)).
  { unfold SimLoopOwn.own_steps, cs. rewrite map_app, do_instrs_app. unfold SimLoopOwn.own_steps in E1, E2. rewrite E1. cbn [rbind]. exact E2. }
  assert (Ec : b_content M s2 = map (Builders.norm_item M) new1 ++ map (Builders.norm_item M) (map (fun i => (M2 R (ro (T1tab (lab L i))), [Z.of_nat i; (-1)%Z])) (seq 0 n))).
  { unfold b_content. rewrite I2, I1. cbn [b_init b_items app]. now rewrite map_app. }
  assert (Esem : forall b, sem (map den (b_content M s2)) psi b = own_run L (pops_of_calls L body) psi b).
  { intros b. rewrite Ec, map_app. unfold own_run, RelabelMain.run.
    change (map den (map (Builders.norm_item M) new1)) with (den_items new1).
    change (map den (map (Builders.norm_item M) (map (fun i => (M2 R (ro (T1tab (lab L i))), [Z.of_nat i; (-1)%Z])) (seq 0 n))))
      with (den_items (map (fun i => (M2 R (ro (T1tab (lab L i))), [Z.of_nat i; (-1)%Z])) (seq 0 n))).
    rewrite (readout_den L n eq_refl). fold n.
    rewrite (internalise_ext (rank L) (pops_of_calls L body) (fun _ => p0) (phi_of (b_phi M (b_init M n layout)))).
    - apply (eqv_app_r _ _ _ Q1).
    - intros i. unfold phi_of. cbn [b_init b_phi]. now rewrite nth_repeat. }
  split; [exact Es|]. split.
  { unfold SimLoopOwn.own_shot, Builders.shot. unfold SimLoopOwn.own_steps in Es. rewrite Es. cbn [rbind fst Builders.bstep].
    unfold b_eval, b_content. destruct (b_items M s2); reflexivity. }
  split.
  { rewrite Ec. apply Forall_app. split; [exact W1 | apply readout_wf]. }
  split; [exact Esem|].
  intros NE.
  assert (Wf : Forall (wf_in R n) (b_content M s2)) by (rewrite Ec; apply Forall_app; split; [exact W1 | apply readout_wf]).
  destruct (bin_spec R rO rI radd rmul rsub ropp Rth n (b_content M s2) psi NE Wf) as (out & Eo & So).
  exists out. split; [exact Eo|]. intros b Hb. rewrite (So b Hb). apply Esem.
Qed.
End OwnRun.
