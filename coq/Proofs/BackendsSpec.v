(* C01 — specification vocabulary (well-formed layers, slot semantics of a layer list) and the properties of the
   specification itself: linearity in the state, irrelevance of identity entries. *)
From Coq Require Import List Bool Arith Lia Ring.
Require Import QG.Base.Res QG.Base.State QG.Base.Mat QG.Model.Backends.
Import ListNotations.

Section Spec.
Variable R : Type.
Variables (rO rI : R) (radd rmul rsub : R -> R -> R) (ropp : R -> R).
Variable Rth : ring_theory rO rI radd rmul rsub ropp eq.
Add Ring RrS : Rth.
Infix "+" := radd. Infix "*" := rmul.
Notation entry := (entry R).
Notation item := (item R).
Notation state := (bits -> R) (only parsing).
Notation sem := (sem R radd rmul).
Notation apply_item := (apply_item R radd rmul).

(* a layer covering n qubits: a concatenation of blocks [2x2] | [4x4; 1] | [1; 4x4] *)
Inductive wf_layer : nat -> list entry -> Prop :=
| wfl_nil : wf_layer 0 []
| wfl_2 n A l : wf_layer n l -> wf_layer (S n) (En2 A :: l)
| wfl_4a n G l : wf_layer n l -> wf_layer (S (S n)) (En4 G :: EnOne :: l)
| wfl_4b n G l : wf_layer n l -> wf_layer (S (S n)) (EnOne :: En4 G :: l).

(* slot semantics: entry k of the list sits on qubit q + k (a 4x4 block on the two qubits it spans) *)
Fixpoint layer_items (q : nat) (l : list entry) : list item :=
  match l with
  | [] => []
  | En2 A :: r => It1 A q :: layer_items (S q) r
  | En4 G :: EnOne :: r => It2 G q (S q) :: layer_items (S (S q)) r
  | EnOne :: En4 G :: r => It2 G q (S q) :: layer_items (S (S q)) r
  | _ :: r => layer_items (S q) r
  end.
Definition layers_sem (ls : list (list entry)) : state -> state := sem (concat (map (layer_items 0) ls)).

Lemma wf_layer_length n l : wf_layer n l -> length l = n.
Proof. induction 1; simpl; auto. Qed.

Lemma layers_sem_cons l ls psi : layers_sem (l :: ls) psi = layers_sem ls (sem (layer_items 0 l) psi).
Proof. unfold layers_sem. simpl. now rewrite sem_app. Qed.
Lemma layers_sem_nil psi : layers_sem [] psi = psi.
Proof. reflexivity. Qed.

(* pointwise-equal states stay pointwise equal *)
Lemma sem_ext_all items s t : (forall b, s b = t b) -> forall b, sem items s b = sem items t b.
Proof. intros H b. apply (sem_ext R radd rmul (length b)); [intros c _; apply H | reflexivity]. Qed.
Lemma layers_sem_ext n ls s t : state_eq R n s t -> state_eq R n (layers_sem ls s) (layers_sem ls t).
Proof. apply sem_ext. Qed.

(* ---- linearity ---- *)
Lemma sem_add items : forall s t b, sem items (sadd R radd s t) b = sadd R radd (sem items s) (sem items t) b.
Proof.
  induction items as [|it r IH]; intros s t b; [reflexivity|]. cbn [State.sem fold_left].
  change (fold_left (fun s0 it0 => apply_item it0 s0) r ?x) with (sem r x).
  rewrite (sem_ext_all r _ (sadd R radd (apply_item it s) (apply_item it t))).
  - apply IH.
  - intros c. apply (apply_item_add R rO rI radd rmul rsub ropp Rth).
Qed.
Lemma sem_scale items : forall c s b, sem items (sscale R rmul c s) b = sscale R rmul c (sem items s) b.
Proof.
  induction items as [|it r IH]; intros c s b; [reflexivity|]. cbn [State.sem fold_left].
  change (fold_left (fun s0 it0 => apply_item it0 s0) r ?x) with (sem r x).
  rewrite (sem_ext_all r _ (sscale R rmul c (apply_item it s))).
  - apply IH.
  - intros d. apply (apply_item_scale R rO rI radd rmul rsub ropp Rth).
Qed.

Theorem spec_linear ls :
  (forall s t b, layers_sem ls (sadd R radd s t) b = sadd R radd (layers_sem ls s) (layers_sem ls t) b) /\
  (forall c s b, layers_sem ls (sscale R rmul c s) b = sscale R rmul c (layers_sem ls s) b).
Proof. split; intros; [apply sem_add | apply sem_scale]. Qed.

(* ---- identity entries are irrelevant ---- *)
Definition is_ident2 (A : m2 R) : Prop := forall r c, A r c = id2 R rO rI r c.
Definition drop_ids (isb : m2 R -> bool) (items : list item) : list item :=
  filter (fun it => match it with It1 A _ => negb (isb A) | It2 _ _ _ => true end) items.

Lemma apply1_ident q A psi b : is_ident2 A -> apply1 R radd rmul q A psi b = psi b.
Proof.
  intros H. rewrite <- (apply1_id R rO rI radd rmul rsub ropp Rth q psi b).
  unfold apply1. now rewrite !H.
Qed.

Lemma sem_drop_ids isb : (forall A, isb A = true -> is_ident2 A) ->
  forall items psi b, sem (drop_ids isb items) psi b = sem items psi b.
Proof.
  intros H. induction items as [|it r IH]; intros psi b; [reflexivity|].
  cbn [drop_ids filter]. fold (drop_ids isb r).
  destruct it as [A q|G q1 q2].
  - destruct (isb A) eqn:E; cbn [negb].
    + rewrite IH. cbn [State.sem fold_left].
      change (fold_left (fun s0 it0 => apply_item it0 s0) r ?x) with (sem r x).
      apply sem_ext_all. intros c. symmetry. apply apply1_ident. now apply H.
    + cbn [State.sem fold_left]. apply IH.
  - cbn [State.sem fold_left]. apply IH.
Qed.

(* the items of exact-identity 2x2 entries (as recognised by any sound test isb) can be dropped from every layer *)
Theorem id_irrelevant isb : (forall A, isb A = true -> is_ident2 A) ->
  forall ls psi b, layers_sem ls psi b = sem (drop_ids isb (concat (map (layer_items 0) ls))) psi b.
Proof. intros H ls psi b. symmetry. now apply sem_drop_ids. Qed.

(* and a layer consisting of identities only is the identity map *)
Lemma sem_all_ident q l psi b :
  Forall (fun e => match e with En2 A => is_ident2 A | _ => False end) l -> sem (layer_items q l) psi b = psi b.
Proof.
  intros H. revert q psi. induction H as [|e l He _ IH]; intros q psi; [reflexivity|].
  destruct e as [A| |]; try contradiction. cbn [layer_items State.sem fold_left].
  change (fold_left (fun s0 it0 => apply_item it0 s0) (layer_items (S q) l) ?x) with (sem (layer_items (S q) l) x).
  rewrite IH. now apply apply1_ident.
Qed.

End Spec.
