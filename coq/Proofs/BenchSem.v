(* C18 — the phase-ring interface, the action of each gate of Model/Bench.v on a state in closed form, and
   inverse_undoes: the inverted circuit undoes the circuit. *)
From Coq Require Import List Bool Arith ZArith Lia Ring.
Require Import QG.Base.Res QG.Base.State QG.Base.PathProd QG.Model.Bench QG.Proofs.BenchLists.
Import ListNotations.

(* The phase-ring interface of DESIGN 2.2, bundled: a commutative ring with
     pe a k  standing for exp(2 pi i a / 2^k)   and   ph  standing for 1/sqrt 2.
   The laws are facts about complex numbers; Proofs/BenchC.v builds the instance over Coquelicot's C. *)
Record PhaseRing := {
  pR : Type;
  p0 : pR; p1 : pR; padd : pR -> pR -> pR; pmul : pR -> pR -> pR; psub : pR -> pR -> pR; popp : pR -> pR;
  pth : ring_theory p0 p1 padd pmul psub popp eq;
  pe : Z -> nat -> pR;
  ph : pR;
  pe_add : forall a b k, pmul (pe a k) (pe b k) = pe (a + b)%Z k;
  pe_zero : forall k, pe 0%Z k = p1;
  pe_scale : forall a k, pe (2 * a)%Z (S k) = pe a k;
  pe_half : pe 1%Z 1 = popp p1;
  ph_half : padd (pmul ph ph) (pmul ph ph) = p1
}.

Section BenchSem.
Variable P : PhaseRing.
Notation R := (pR P).
Notation rO := (p0 P). Notation rI := (p1 P).
Notation radd := (padd P). Notation rmul := (pmul P). Notation ropp := (popp P).
Notation e := (pe P). Notation h := (ph P).
Add Ring Rbs : (pth P).
Infix "[+]" := (padd P) (at level 50, left associativity).
Infix "[*]" := (pmul P) (at level 40, left associativity).

Definition csem (l : list gate) : state R -> state R := sem R radd rmul (circ_items R rO rI ropp e h l).
Definition gsem (g : gate) : state R -> state R := sem R radd rmul (gate_items R rO rI ropp e h g).
Definition ent_val (x : ent) : R := interp R rO rI ropp e h x.
Notation Hm := (fun r c => interp R rO rI ropp e h (Hs r c)).
Notation CPm pos k := (fun r c => interp R rO rI ropp e h (CPs pos k r c)).
Notation SWm := (fun r c => interp R rO rI ropp e h (SWs r c)).
Notation CXm := (fun r c => interp R rO rI ropp e h (CXs r c)).
Notation ap1 := (apply1 R radd rmul).
Notation ap2 := (apply2 R radd rmul).
Notation seq_n n := (state_eq R n).

Lemma csem_cons g l psi : csem (g :: l) psi = csem l (gsem g psi).
Proof. unfold csem, gsem. simpl circ_items. now rewrite sem_app. Qed.
Lemma csem_nil psi : csem [] psi = psi.
Proof. reflexivity. Qed.
Lemma csem_app a b psi : csem (a ++ b) psi = csem b (csem a psi).
Proof. unfold csem, circ_items. now rewrite flat_map_app, sem_app. Qed.
Lemma csem_ext n l s t : seq_n n s t -> seq_n n (csem l s) (csem l t).
Proof. apply sem_ext. Qed.
Lemma gsem_ext n g s t : seq_n n s t -> seq_n n (gsem g s) (gsem g t).
Proof. apply sem_ext. Qed.
Lemma csem_one g psi : csem [g] psi = gsem g psi.
Proof. now rewrite csem_cons. Qed.

Lemma gsem_H q psi : gsem (H q) psi = ap1 q Hm psi. Proof. reflexivity. Qed.
Lemma gsem_CP k c t psi : gsem (CP k c t) psi = ap2 c t (CPm true k) psi. Proof. reflexivity. Qed.
Lemma gsem_CPinv k c t psi : gsem (CPinv k c t) psi = ap2 c t (CPm false k) psi. Proof. reflexivity. Qed.
Lemma gsem_SWAP a b psi : gsem (SWAP a b) psi = ap2 a b SWm psi. Proof. reflexivity. Qed.
Lemma gsem_CX c t psi : gsem (CX c t) psi = ap2 c t CXm psi. Proof. reflexivity. Qed.

(* ---- closed forms of the gate actions ---- *)
Lemma H_act q psi b :
  ap1 q Hm psi b = h [*] psi (upd b q false) [+] (if get b q then ropp h else h) [*] psi (upd b q true).
Proof. unfold apply1. destruct (get b q); reflexivity. Qed.

Lemma cp_act pos k c t psi b : c <> t ->
  ap2 c t (CPm pos k) psi b = (if get b c && get b t then ent_val (Ew pos k) else rI) [*] psi b.
Proof.
  intros Hne. unfold apply2, ent_val. cbv zeta.
  assert (E : upd (upd b c (get b c)) t (get b t) = b) by apply upd2_get.
  destruct (get b c), (get b t); rewrite E; simpl; ring.
Qed.

Lemma swap_act a c psi b : ap2 a c SWm psi b = psi (upd (upd b a (get b c)) c (get b a)).
Proof. unfold apply2. cbv zeta. destruct (get b a), (get b c); simpl; ring. Qed.

Lemma cx_act c t psi b : ap2 c t CXm psi b = psi (upd b t (xorb (get b t) (get b c))).
Proof.
  unfold apply2. cbv zeta.
  assert (E : upd b c (get b c) = b) by apply upd_get.
  destruct (get b c), (get b t); rewrite E; simpl; ring.
Qed.

(* ---- derived phase facts ---- *)
Lemma e_inv a k : e a k [*] e (- a)%Z k = rI.
Proof. rewrite pe_add. replace (a + - a)%Z with 0%Z by lia. apply pe_zero. Qed.
Lemma w_cancel k : ent_val (Ew true k) [*] ent_val (Ew false k) = rI.
Proof. unfold ent_val. simpl. apply (e_inv 1 (S k)). Qed.

(* ---- each gate followed by its inverse is the identity on n-qubit states ---- *)
Lemma ginv_cancel n g psi : wf_gate n g -> seq_n n (gsem (ginv_u g) (gsem g psi)) psi.
Proof.
  intros W b L. destruct g as [q|k c t|k c t|a c|c t|qs|q c]; simpl ginv_u; simpl in W.
  - rewrite !gsem_H. rewrite H_act. rewrite !H_act. rewrite !upd_upd, !get_upd by lia.
    destruct (get b q) eqn:E.
    + transitivity ((h [*] h [+] h [*] h) [*] psi (upd b q true)); [ring|]. rewrite ph_half, <- E, upd_get. ring.
    + transitivity ((h [*] h [+] h [*] h) [*] psi (upd b q false)); [ring|]. rewrite ph_half, <- E, upd_get. ring.
  - rewrite gsem_CP, gsem_CPinv. rewrite !cp_act by lia.
    destruct (get b c && get b t); [|ring].
    transitivity ((ent_val (Ew true k) [*] ent_val (Ew false k)) [*] psi b); [ring|]. rewrite w_cancel. ring.
  - rewrite gsem_CP, gsem_CPinv. rewrite !cp_act by lia.
    destruct (get b c && get b t); [|ring].
    transitivity ((ent_val (Ew true k) [*] ent_val (Ew false k)) [*] psi b); [ring|]. rewrite w_cancel. ring.
  - rewrite !gsem_SWAP. rewrite !swap_act. f_equal.
    destruct W as (Ha & Hc & Hne).
    rewrite (get_upd _ c) by (rewrite upd_length; lia).
    rewrite (get_upd_ne _ c a) by congruence. rewrite (get_upd _ a) by lia.
    rewrite (upd_comm _ c a) by congruence.
    rewrite !upd_upd. apply upd2_get.
  - rewrite !gsem_CX. rewrite !cx_act. f_equal.
    destruct W as (Hc & Ht & Hne).
    rewrite (get_upd _ t) by lia. rewrite (get_upd_ne _ t c) by congruence. rewrite upd_upd.
    replace (xorb (xorb (get b t) (get b c)) (get b c)) with (get b t) by (destruct (get b t), (get b c); reflexivity).
    apply upd_get.
  - reflexivity.
  - reflexivity.
Qed.

Lemma inverse_u_cons g r : inverse_u (g :: r) = inverse_u r ++ [ginv_u g].
Proof. reflexivity. Qed.

Theorem inverse_undoes_u n l : Forall (wf_gate n) l ->
  forall psi, seq_n n (csem (inverse_u l) (csem l psi)) psi.
Proof.
  induction l as [|g r IH]; intros W psi.
  - intros b L. reflexivity.
  - rewrite inverse_u_cons, csem_cons, csem_app, csem_one.
    eapply state_eq_trans.
    + apply gsem_ext. apply IH. now apply Forall_inv_tail in W.
    + apply ginv_cancel. now apply Forall_inv in W.
Qed.

Lemma inverse_ok l : forall l', inverse l = Ok l' -> l' = inverse_u l.
Proof.
  induction l as [|g r IH]; simpl; intros l' E.
  - now injection E as <-.
  - destruct (inverse r) as [r'|] eqn:Er; simpl in E; [|discriminate].
    destruct g; simpl in E; try discriminate; injection E as <-; rewrite inverse_u_cons, (IH r' eq_refl); reflexivity.
Qed.

(* Qiskit's `inverse()` as modelled (it may refuse): whenever it succeeds on well-formed instructions,
   running the circuit and then its inverse gives back every n-qubit state. *)
Theorem inverse_undoes n l l' : Forall (wf_gate n) l -> inverse l = Ok l' ->
  forall psi, seq_n n (csem l' (csem l psi)) psi.
Proof. intros W E psi. rewrite (inverse_ok l l' E). now apply inverse_undoes_u. Qed.

End BenchSem.
