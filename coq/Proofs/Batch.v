(* C19 — proofs about Model/Batch.v: the merge writes exactly the group means to the targets and refuses without
   touching anything when an assertion fails; each runner calls the simulation once per argument. *)
From Coq Require Import List NArith ZArith Arith Bool Lia Permutation.
Require Import QG.Base.Res QG.Model.Batch.
Import ListNotations.

Lemma Forall2_impl_in {X Y} (P Q : X -> Y -> Prop) l1 l2 :
  (forall x y, In x l1 -> In y l2 -> P x y -> Q x y) -> Forall2 P l1 l2 -> Forall2 Q l1 l2.
Proof.
  intros H F. induction F; constructor.
  - apply H; simpl; auto.
  - apply IHF. intros a b Ha Hb. apply H; simpl; auto.
Qed.

Lemma Forall2_in_l {X Y} (P : X -> Y -> Prop) l1 l2 x :
  Forall2 P l1 l2 -> In x l1 -> exists y, In y l2 /\ P x y.
Proof.
  intros F. induction F; intros Hin; [destruct Hin|].
  destruct Hin as [->|Hin].
  - eexists. split; [left; reflexivity | assumption].
  - destruct (IHF Hin) as (y0 & Hy & Hp). exists y0. split; [right|]; assumption.
Qed.

Lemma Forall2_len {X Y} (P : X -> Y -> Prop) l1 l2 : Forall2 P l1 l2 -> length l1 = length l2.
Proof. induction 1; simpl; congruence. Qed.

Lemma nth_error_skipn' {X} (l : list X) : forall a i, nth_error (skipn a l) i = nth_error l (a + i).
Proof.
  induction l as [|x l IH]; intros [|a] i; simpl; auto.
  destruct i; reflexivity.
Qed.

Lemma nth_error_firstn' {X} (l : list X) : forall k i, (i < k)%nat -> nth_error (firstn k l) i = nth_error l i.
Proof.
  induction l as [|x l IH]; intros [|k] [|i] H; simpl; auto; try lia.
  apply IH. lia.
Qed.

Lemma In_slice {X} (l : list X) a b x : In x (slice l a b) -> In x l.
Proof.
  unfold slice. intros H.
  assert (In x (skipn a l)) as H1 by (rewrite <- (firstn_skipn (b - a) (skipn a l)); apply in_or_app; left; exact H).
  rewrite <- (firstn_skipn a l). apply in_or_app. right. exact H1.
Qed.

(* ====================================================================== file system *)
Section MergeProofs.
Variable V : Type.
Variable vadd : V -> V -> V.
Variable vdiv : V -> Z -> V.
Variable d : V.
Notation arr := (list V) (only parsing).
Notation fs := (list (N * list V)) (only parsing).
Notation lookup := (lookup V).
Notation write := (write V).
Notation isfile := (isfile V).
Notation load := (load V).
Notation zipw := (zipw V vadd).
Notation acc_loop := (acc_loop V vadd).
Notation merge_loop := (merge_loop V vadd vdiv).
Notation post_process_split := (post_process_split V vadd vdiv).
Notation is_mean := (is_mean V vadd vdiv d).

Lemma lookup_write_same p a f : lookup p (write p a f) = Some a.
Proof.
  induction f as [|[p' a'] r IH]; simpl.
  - now rewrite N.eqb_refl.
  - destruct (N.eqb p p') eqn:E; simpl; [now rewrite N.eqb_refl | now rewrite E].
Qed.

Lemma lookup_write_other p q a f : q <> p -> lookup q (write p a f) = lookup q f.
Proof.
  intros Hne. induction f as [|[p' a'] r IH]; simpl.
  - destruct (N.eqb q p) eqn:E; auto. apply N.eqb_eq in E. contradiction.
  - destruct (N.eqb p p') eqn:E; simpl.
    + apply N.eqb_eq in E. subst p'. destruct (N.eqb q p) eqn:E2; auto. apply N.eqb_eq in E2. contradiction.
    + destruct (N.eqb q p'); auto.
Qed.

Lemma isfile_true p f : isfile f p = true <-> exists a, lookup p f = Some a.
Proof. unfold Batch.isfile. destruct (lookup p f); split; intros H; eauto; try discriminate. now destruct H. Qed.

Lemma isfile_false p f : isfile f p = false <-> lookup p f = None.
Proof. unfold Batch.isfile. destruct (lookup p f); split; intros H; auto; discriminate. Qed.

(* ====================================================================== arrays *)
Lemma zipw_length a b : length a = length b -> length (zipw a b) = length a.
Proof. revert b. induction a as [|x a IH]; intros [|y b] L; simpl in *; try discriminate; auto. Qed.

Lemma zipw_nth a b i : length a = length b -> (i < length a)%nat -> nth i (zipw a b) d = vadd (nth i a d) (nth i b d).
Proof.
  revert b i. induction a as [|x a IH]; intros [|y b] i L Hi; simpl in *; try discriminate; try lia.
  destruct i; auto. apply IH; lia.
Qed.

Lemma fold_zipw_length arrs : forall a0, Forall (fun a => length a = length a0) arrs -> length (fold_left zipw arrs a0) = length a0.
Proof.
  induction arrs as [|a arrs IH]; intros a0 H; simpl; auto.
  apply Forall_inv in H as Ha. apply Forall_inv_tail in H.
  rewrite IH.
  - apply zipw_length. auto.
  - rewrite zipw_length by auto. exact H.
Qed.

Lemma fold_zipw_nth arrs : forall a0 i, Forall (fun a => length a = length a0) arrs -> (i < length a0)%nat ->
  nth i (fold_left zipw arrs a0) d = fold_left vadd (map (fun a => nth i a d) arrs) (nth i a0 d).
Proof.
  induction arrs as [|a arrs IH]; intros a0 i H Hi; simpl; auto.
  apply Forall_inv in H as Ha. apply Forall_inv_tail in H.
  rewrite IH.
  - rewrite zipw_nth by auto. reflexivity.
  - rewrite zipw_length by auto. exact H.
  - rewrite zipw_length by auto. exact Hi.
Qed.

(* what the inner accumulation loop returns *)
Lemma acc_loop_spec f srcs : forall a0 acc,
  acc_loop f a0 srcs = Ok acc ->
  exists arrs, Forall2 (fun s a => lookup s f = Some a) srcs arrs /\
               Forall (fun a => length a = length a0) arrs /\ acc = fold_left zipw arrs a0.
Proof.
  induction srcs as [|s r IH]; intros a0 acc H; simpl in H.
  - inversion H. exists []. repeat split; constructor.
  - unfold Batch.load in H. destruct (lookup s f) as [a|] eqn:E; simpl in H; [|discriminate].
    unfold add_into in H. destruct (Nat.eqb (length a0) (length a)) eqn:L; simpl in H; [|discriminate].
    apply Nat.eqb_eq in L. apply IH in H. destruct H as (arrs & F2 & FL & ->).
    exists (a :: arrs). repeat split.
    + constructor; auto.
    + constructor; auto. rewrite zipw_length in FL by auto. exact FL.
Qed.

Lemma acc_loop_complete f srcs : forall a0 arrs,
  Forall2 (fun s a => lookup s f = Some a) srcs arrs -> Forall (fun a => length a = length a0) arrs ->
  acc_loop f a0 srcs = Ok (fold_left zipw arrs a0).
Proof.
  induction srcs as [|s r IH]; intros a0 arrs F2 FL; inversion F2; subst; simpl; auto.
  unfold Batch.load. rewrite H1. simpl. unfold add_into.
  apply Forall_inv in FL as La. apply Forall_inv_tail in FL.
  rewrite <- La, Nat.eqb_refl. simpl. apply IH; auto. rewrite zipw_length by auto. exact FL.
Qed.

Lemma slice_cons {X} (l : list X) i k x :
  nth_error l i = Some x -> (1 <= k)%nat -> slice l i (i + k) = x :: slice l (i + 1) (i + k).
Proof.
  intros H Hk. unfold slice. replace (i + k - i)%nat with (S (k - 1)) by lia. replace (i + k - (i + 1))%nat with (k - 1)%nat by lia.
  revert i H. induction l as [|y l IH]; intros i H.
  - destruct i; discriminate.
  - destruct i; simpl in *.
    + inversion H. reflexivity.
    + apply IH. exact H.
Qed.

Lemma slice_length {X} (l : list X) i k : (i + k <= length l)%nat -> length (slice l i (i + k)) = k.
Proof. intros H. unfold slice. rewrite firstn_length, skipn_length. lia. Qed.

Lemma is_mean_intro a0 arrs split :
  Forall (fun a => length a = length a0) arrs ->
  is_mean (a0 :: arrs) split (map (fun x => vdiv x split) (fold_left zipw arrs a0)).
Proof.
  intros FL. unfold Batch.is_mean. rewrite map_length, fold_zipw_length by exact FL. split.
  - constructor; auto.
  - intros i Hi.
    rewrite (nth_indep _ d (vdiv d split)) by (rewrite map_length, fold_zipw_length; auto).
    rewrite (map_nth (fun x => vdiv x split)). rewrite fold_zipw_nth by auto. reflexivity.
Qed.

(* ====================================================================== the merge loop *)
Section Loop.
Variable sources : list N.
Variable split : Z.
Hypothesis split_gt1 : (1 < split)%Z.
Let k := Z.to_nat split.

Definition group (j i : nat) : list N := slice sources (i + j * k) (i + j * k + k).

Lemma merge_loop_ok f0 : forall targets f i f',
  (forall s, In s sources -> lookup s f = lookup s f0) ->
  (forall t, In t targets -> ~ In t sources) ->
  NoDup targets ->
  (i + k * length targets = length sources)%nat ->
  merge_loop f sources targets i split = (f', Ok tt) ->
  (forall j t, nth_error targets j = Some t ->
     exists arrs m, Forall2 (fun s a => lookup s f0 = Some a) (group j i) arrs /\ length arrs = k /\
                    lookup t f' = Some m /\ is_mean arrs split m) /\
  (forall p, ~ In p targets -> lookup p f' = lookup p f).
Proof.
  assert (1 <= k)%nat as Hk by (unfold k; lia).
  induction targets as [|t ts IH]; intros f i f' Hsrc Hdis Hnd Hlen H.
  - simpl in H. inversion H; subst. split; [intros [|j] t0 E; discriminate | auto].
  - cbn [Batch.merge_loop] in H. fold k in H.
    destruct (nth_error sources i) as [s0|] eqn:Es0; [|inversion H].
    destruct (load f s0) as [a0|e] eqn:El; cbn [rbind] in H; [|inversion H].
    destruct (acc_loop f a0 (slice sources (i + 1) (i + k))) as [acc|e] eqn:Ea; [|inversion H].
    apply NoDup_cons_iff in Hnd. destruct Hnd as [Hnt Hnd].
    assert (~ In t sources) as Hts by (apply Hdis; left; reflexivity).
    cbn [length] in Hlen.
    set (m := map (fun x => vdiv x split) acc) in *.
    apply IH in H; auto.
    + destruct H as [HA HB]. split.
      * intros [|j] t0 E.
        -- cbn in E. inversion E; subst t0.
           apply acc_loop_spec in Ea. destruct Ea as (arrs & F2 & FL & ->).
           exists (a0 :: arrs), m. split; [|split; [|split]].
           ++ unfold group. replace (i + 0 * k)%nat with i by lia. rewrite (slice_cons _ _ _ _ Es0 Hk).
              constructor.
              ** unfold Batch.load in El. destruct (lookup s0 f) eqn:E0; inversion El; subst.
                 rewrite <- Hsrc; [exact E0 | eapply nth_error_In; eassumption].
              ** eapply Forall2_impl_in; [|exact F2]. intros s a Hs _ Hl.
                 rewrite <- Hsrc; auto. eapply In_slice; eassumption.
           ++ simpl. f_equal. apply Forall2_len in F2. rewrite <- F2.
              replace (i + k)%nat with ((i + 1) + (k - 1))%nat by lia. rewrite slice_length; lia.
           ++ rewrite HB by exact Hnt. apply lookup_write_same.
           ++ apply is_mean_intro. exact FL.
        -- cbn in E. destruct (HA j t0 E) as (arrs & m' & F2 & La & Lt & Hm).
           exists arrs, m'. split; [|split; [|split]]; auto.
           unfold group in *. replace (i + S j * k)%nat with (i + k + j * k)%nat by lia. exact F2.
      * intros p Hp. rewrite HB by (intros Hin; apply Hp; right; exact Hin).
        apply lookup_write_other. intros ->. apply Hp. left. reflexivity.
    + intros s Hs. rewrite lookup_write_other; auto. intros ->. contradiction.
    + intros t0 Ht0. apply Hdis. right. exact Ht0.
    + lia.
Qed.

(* when every group consists of existing files of one shape the loop does not fail *)
Lemma merge_loop_complete : forall targets f i,
  (forall t, In t targets -> ~ In t sources) ->
  (i + k * length targets = length sources)%nat ->
  (forall j, (j < length targets)%nat -> exists a0 arrs, Forall2 (fun s a => lookup s f = Some a) (group j i) (a0 :: arrs) /\
                                                  Forall (fun a => length a = length a0) arrs) ->
  exists f', merge_loop f sources targets i split = (f', Ok tt).
Proof.
  assert (1 <= k)%nat as Hk by (unfold k; lia).
  induction targets as [|t ts IH]; intros f i Hdis Hlen Hg.
  - eexists. reflexivity.
  - cbn [Batch.merge_loop]. fold k. cbn [length] in Hlen.
    destruct (Hg 0%nat) as (a0 & arrs & F2 & FL); [simpl; lia|].
    unfold group in F2. replace (i + 0 * k)%nat with i in F2 by lia.
    destruct (nth_error sources i) as [s0|] eqn:Es0.
    2:{ apply nth_error_None in Es0. nia. }
    rewrite (slice_cons _ _ _ _ Es0 Hk) in F2. inversion F2; subst.
    unfold Batch.load at 1. rewrite H2. cbn [rbind].
    rewrite (acc_loop_complete f _ a0 arrs) by assumption.
    apply IH.
    + intros t0 Ht0. apply Hdis. right. exact Ht0.
    + lia.
    + intros j Hj. destruct (Hg (S j)) as (b0 & brrs & G2 & GL); [simpl; lia|].
      exists b0, brrs. split; auto.
      unfold group in *. replace (i + k + j * k)%nat with (i + S j * k)%nat by lia.
      eapply Forall2_impl_in; [|exact G2]. intros s a Hs _ Hl.
      rewrite lookup_write_other; auto. intros ->.
      apply (Hdis t); [left; reflexivity|]. eapply In_slice; eassumption.
Qed.
End Loop.

(* ====================================================================== the whole function *)
Lemma asserts_pass f sources targets split f' o :
  post_process_split f sources targets split = (f', o) ->
  (f' = f /\ o = Err AssertionError) \/
  ((split * Z.of_nat (length targets) = Z.of_nat (length sources))%Z /\
   (forall s, In s sources -> isfile f s = true) /\ (forall t, In t targets -> isfile f t = false) /\ (1 < split)%Z /\
   merge_loop f sources targets 0 split = (f', o)).
Proof.
  unfold Batch.post_process_split.
  destruct (Z.eqb _ _) eqn:E1; cbn [negb]; [|intros H; inversion H; auto].
  destruct (forallb _ sources) eqn:E2; cbn [negb]; [|intros H; inversion H; auto].
  destruct (existsb _ targets) eqn:E3; [intros H; inversion H; auto|].
  destruct (Z.ltb 1 split) eqn:E4; cbn [negb]; [|intros H; inversion H; auto].
  intros H. right. repeat split; auto.
  - apply Z.eqb_eq. exact E1.
  - intros s Hs. rewrite forallb_forall in E2. auto.
  - intros t Ht. destruct (isfile f t) eqn:Et; auto.
    assert (existsb (isfile f) targets = true) by (apply existsb_exists; eauto). congruence.
  - apply Z.ltb_lt. exact E4.
Qed.

Theorem merge_ok f sources targets split f' :
  NoDup targets ->
  post_process_split f sources targets split = (f', Ok tt) ->
  (1 < split)%Z /\
  (forall j t, nth_error targets j = Some t ->
     exists arrs m,
       Forall2 (fun s a => lookup s f = Some a) (slice sources (j * Z.to_nat split) (j * Z.to_nat split + Z.to_nat split)) arrs /\
       length arrs = Z.to_nat split /\ lookup t f' = Some m /\ is_mean arrs split m) /\
  (forall p, ~ In p targets -> lookup p f' = lookup p f) /\
  (forall s, In s sources -> lookup s f' = lookup s f).
Proof.
  intros Hnd H. apply asserts_pass in H. destruct H as [[_ H]|(A1 & A2 & A3 & A4 & H)]; [discriminate|].
  assert (forall t, In t targets -> ~ In t sources) as Hdis.
  { intros t Ht Hs. specialize (A2 t Hs). specialize (A3 t Ht). congruence. }
  apply (merge_loop_ok sources split A4 f) in H; auto; [|lia].
  destruct H as [HA HB]. split; [exact A4|]. split; [|split].
  - intros j t E. destruct (HA j t E) as (arrs & m & F2 & R). exists arrs, m. split; auto.
  - exact HB.
  - intros s Hs. apply HB. intros Ht. exact (Hdis s Ht Hs).
Qed.

(* the function does not refuse well-formed input: consistent counts, split > 1, fresh targets, and in every group
   existing source files of one common shape *)
Theorem merge_accepts f sources targets split :
  (split * Z.of_nat (length targets) = Z.of_nat (length sources))%Z -> (1 < split)%Z ->
  (forall t, In t targets -> isfile f t = false) ->
  (forall j, (j < length targets)%nat ->
     exists a0 arrs, Forall2 (fun s a => lookup s f = Some a)
                             (slice sources (j * Z.to_nat split) (j * Z.to_nat split + Z.to_nat split)) (a0 :: arrs) /\
                     Forall (fun a => length a = length a0) arrs) ->
  exists f', post_process_split f sources targets split = (f', Ok tt).
Proof.
  intros A1 A4 A3 Hg.
  assert (length sources = Z.to_nat split * length targets)%nat as Hlen by nia.
  assert (forall s, In s sources -> isfile f s = true) as A2.
  { intros s Hs. apply In_nth_error in Hs. destruct Hs as [i Hi].
    assert (i < length sources)%nat as Hil by (apply nth_error_Some; congruence).
    set (k := Z.to_nat split) in *. assert (1 <= k)%nat by (unfold k; lia).
    assert (i / k < length targets)%nat as Hj by (apply Nat.div_lt_upper_bound; lia).
    destruct (Hg (i / k)%nat Hj) as (a0 & arrs & F2 & _).
    assert (In s (slice sources (i / k * k) (i / k * k + k))) as Hin.
    { unfold slice. replace (i / k * k + k - i / k * k)%nat with k by lia.
      pose proof (Nat.div_mod i k ltac:(lia)) as DM. pose proof (Nat.mod_upper_bound i k ltac:(lia)) as MU.
      assert (nth_error (firstn k (skipn (i / k * k) sources)) (i mod k) = Some s) as E.
      { rewrite nth_error_firstn' by exact MU. rewrite nth_error_skipn'.
        replace (i / k * k + i mod k)%nat with i by lia. exact Hi. }
      eapply nth_error_In; exact E. }
    destruct (Forall2_in_l _ _ _ _ F2 Hin) as (a & _ & Ha). apply isfile_true. eauto. }
  unfold Batch.post_process_split.
  replace (Z.eqb _ _) with true by (symmetry; apply Z.eqb_eq; exact A1). cbn [negb].
  replace (forallb (isfile f) sources) with true by (symmetry; apply forallb_forall; exact A2). cbn [negb].
  replace (existsb (isfile f) targets) with false.
  2:{ symmetry. destruct (existsb (isfile f) targets) eqn:E; auto. apply existsb_exists in E. destruct E as (t & Ht & Et).
      rewrite A3 in Et by exact Ht. discriminate. }
  replace (Z.ltb 1 split) with true by (symmetry; apply Z.ltb_lt; exact A4). cbn [negb].
  apply merge_loop_complete.
  - exact A4.
  - intros t Ht Hs. specialize (A2 t Hs). specialize (A3 t Ht). congruence.
  - lia.
  - intros j Hj. unfold group. cbn [Nat.add]. apply Hg. exact Hj.
Qed.

(* refusal: any existing target, inconsistent counts, split <= 1 or a missing source => AssertionError, nothing written *)
Theorem merge_refuses f sources targets split :
  ((split * Z.of_nat (length targets) <> Z.of_nat (length sources))%Z \/
   (exists s, In s sources /\ isfile f s = false) \/
   (exists t, In t targets /\ isfile f t = true) \/
   (split <= 1)%Z) ->
  post_process_split f sources targets split = (f, Err AssertionError).
Proof.
  intros H. destruct (post_process_split f sources targets split) as [f' o] eqn:E.
  apply asserts_pass in E. destruct E as [[-> ->]|(A1 & A2 & A3 & A4 & _)]; [reflexivity|].
  exfalso. destruct H as [H|[(s & Hs & Es)|[(t & Ht & Et)|H]]].
  - contradiction.
  - rewrite A2 in Es by exact Hs. discriminate.
  - rewrite A3 in Et by exact Ht. discriminate.
  - lia.
Qed.
End MergeProofs.

(* ====================================================================== runners *)
Section RunnerProofs.
Variables A T L : Type.
Variable sim : A -> res (T * L).
Variable pool_order : list A -> nat -> nat -> list A.
Variable exec_order : list A -> option Z -> list A.

Definition all_succeed (args : list A) : Prop := forall a, In a args -> exists b, sim a = Ok b.

Lemma first_error_ok l : all_succeed l -> first_error T L (map sim l) = Ok tt.
Proof.
  induction l as [|a l IH]; intros H; simpl; auto.
  destruct (H a (or_introl eq_refl)) as [b ->]. apply IH. intros x Hx. apply H. right. exact Hx.
Qed.

(* chunksize >= 1 and processes >= 2 for every cpu count and every number of jobs *)
Theorem pool_runner_once cpu args :
  (forall l p c, (1 <= p)%nat -> (1 <= c)%nat -> Permutation (pool_order l p c) l) ->
  all_succeed args ->
  exists log, pool_runner A T L sim pool_order cpu args = (log, Ok tt) /\ Permutation log args.
Proof.
  intros Hperm Hok. unfold pool_runner.
  set (np := Nat.max (8 * cpu / 10) 2).
  set (cs := Nat.max 1 _).
  assert (2 <= np)%nat as Hnp by (unfold np; apply Nat.le_max_r).
  assert (1 <= cs)%nat as Hcs by (unfold cs; apply Nat.le_max_l). clearbody np cs.
  destruct (Nat.ltb np 1) eqn:E1; [apply Nat.ltb_lt in E1; lia|].
  destruct (Nat.ltb cs 1) eqn:E2; [apply Nat.ltb_lt in E2; lia|].
  exists (pool_order args np cs). split.
  - f_equal. apply first_error_ok. intros a Ha. apply Hok.
    eapply Permutation_in; [|exact Ha]. apply Hperm; lia.
  - apply Hperm; lia.
Qed.

Theorem executor_runner_once mw args :
  (forall l w, Permutation (exec_order l w) l) ->
  match mw with Some w => (0 < w)%Z | None => True end ->
  all_succeed args ->
  exists log, executor_runner A T L sim exec_order mw args = (log, Ok tt) /\ Permutation log args.
Proof.
  intros Hperm Hw Hok. unfold executor_runner. destruct mw as [w|].
  - destruct (Z.leb w 0) eqn:E; [apply Z.leb_le in E; lia|].
    eexists. split; [f_equal; apply first_error_ok; exact Hok | apply Hperm].
  - eexists. split; [f_equal; apply first_error_ok; exact Hok | apply Hperm].
Qed.

Theorem mock_runner_once args :
  all_succeed args -> mock_runner A T L sim args = (args, Ok tt).
Proof.
  induction args as [|a l IH]; intros H; simpl; auto.
  destruct (H a (or_introl eq_refl)) as [b ->]. rewrite IH; auto.
  intros x Hx. apply H. right. exact Hx.
Qed.
End RunnerProofs.

(* ====================================================================== reading of `is_mean` over the integers *)
Lemma sum_left_Z col : sum_left Z Z.add 0%Z col = fold_right Z.add 0%Z col.
Proof.
  destruct col as [|x r]; simpl; auto.
  revert x. induction r as [|y r IH]; intros x; simpl; [lia|]. rewrite IH. simpl. lia.
Qed.

Lemma is_mean_Z arrs count m :
  is_mean Z Z.add Z.div 0%Z arrs count m ->
  forall i, (i < length m)%nat -> nth i m 0%Z = (fold_right Z.add 0 (column Z i 0 arrs) / count)%Z.
Proof. intros [_ H] i Hi. rewrite H by exact Hi. now rewrite sum_left_Z. Qed.
