(* C03 — gate level: the noise-free matrices of gates.py (regenerated: the gen_nf definitions) are the textbook gates conjugated by
   the virtual-Z frames P(phi) = diag(1, e^{i phi}), up to a global phase. Decided by reflection for all phases. *)
From Coq Require Import QArith List String Bool Reals.
From Coquelicot Require Import Complex.
Require Import QG.Sym.Expr QG.Sym.ExprEq QG.Sym.Norm QG.Sym.Mat QG.Sym.Sound QG.Sym.Subst.
Require Import QG.Model.GateModel QG.Proofs.GateRefl QG.Proofs.C07Refl QG.Gen.GenGates.
Import ListNotations.
Close Scope Q_scope.
Open Scope string_scope.

Definition q (n d : Z) : expr := EQ (n # (Z.to_pos d))%Q.
Definition z0 := q 0 1. Definition z1 := q 1 1.
Definition cis (a : expr) : expr := EExp (EMul EI a).                   (* e^{i a} *)
Definition Pm (a : expr) : mexpr := MLeaf [[z1; z0]; [z0; cis a]].      (* frame of one qubit *)
Definition PP (a b : expr) : mexpr := MKron (Pm a) (Pm b).
Definition phc := EVar (vi "phc"). Definition pht := EVar (vi "pht"). Definition phi := EVar (vi "phi").
Definition pi_over (d : Z) : expr := EDiv EPi (q d 1).
Definition rt2inv : expr := EDiv z1 (ESqrt (q 2 1)).

(* textbook gates; first tensor slot = more significant index *)
Definition CX01 : mexpr := MLeaf [[z1;z0;z0;z0];[z0;z1;z0;z0];[z0;z0;z0;z1];[z0;z0;z1;z0]].   (* control = slot 0 *)
Definition CX10 : mexpr := MLeaf [[z1;z0;z0;z0];[z0;z0;z0;z1];[z0;z0;z1;z0];[z0;z1;z0;z0]].   (* control = slot 1 *)
Definition mi := ENeg EI.
Definition ECR01 : mexpr := MScale rt2inv (MLeaf [[z0;z0;z1;EI];[z0;z0;EI;z1];[z1;mi;z0;z0];[mi;z1;z0;z0]]).   (* control = slot 0 *)
Definition ECR10 : mexpr := MScale rt2inv (MLeaf [[z0;z1;z0;EI];[z1;z0;mi;z0];[z0;EI;z0;z1];[mi;z0;z1;z0]]).   (* control = slot 1 *)
Definition Xm : mexpr := MLeaf [[z0; z1]; [z1; z0]].
Definition SXm : mexpr := MScale (q 1 2) (MLeaf [[EAdd z1 EI; ESub z1 EI]; [ESub z1 EI; EAdd z1 EI]]).

(* CNOT(phc, pht) acts on (control, target):  i * (P(phc - pi/2) (x) P(pht))^dag CX (P(phc) (x) P(pht)) *)
Lemma cnot_frame : mexpr_eqb cf gen_nf_CNOT
  (MScale EI (MMul (MDag (PP (ESub phc (pi_over 2)) pht)) (MMul CX01 (PP phc pht)))) = true.
Proof. vm_compute. reflexivity. Qed.
(* CNOT_inv(phc, pht) acts on (target, control): e^{-3 i pi/4} (P(pht + pi/2) (x) P(phc + 3pi/2))^dag CX10 (P(pht) (x) P(phc)) *)
Lemma cnot_inv_frame : mexpr_eqb cf gen_nf_CNOT_inv
  (MScale (cis (ENeg (EMul (q 3 4) EPi))) (MMul (MDag (PP (EAdd pht (pi_over 2)) (EAdd phc (EMul (q 3 2) EPi)))) (MMul CX10 (PP pht phc)))) = true.
Proof. vm_compute. reflexivity. Qed.
(* ECR(phc, pht) acts on (control, target), no phase update *)
Lemma ecr_frame : mexpr_eqb cf gen_nf_ECR (MMul (MDag (PP phc pht)) (MMul ECR01 (PP phc pht))) = true.
Proof. vm_compute. reflexivity. Qed.
(* ECR_inv(a, b): first argument = phase of slot 0, the native control sits in slot 1 *)
Lemma ecr_inv_frame : mexpr_eqb cf gen_nf_ECR_inv (MMul (MDag (PP phc pht)) (MMul ECR10 (PP phc pht))) = true.
Proof. vm_compute. reflexivity. Qed.
(* the circuit classes call X(-phi), SX(-phi) *)
Definition at_minus_phi (m : mexpr) : mexpr := msubst [(vi "phi", ENeg phi)] m.
Lemma x_frame : mexpr_eqb cf (at_minus_phi gen_nf_X) (MScale mi (MMul (MDag (Pm phi)) (MMul Xm (Pm phi)))) = true.
Proof. vm_compute. reflexivity. Qed.
Lemma sx_frame : mexpr_eqb cf (at_minus_phi gen_nf_SX) (MScale (cis (ENeg (pi_over 4))) (MMul (MDag (Pm phi)) (MMul SXm (Pm phi)))) = true.
Proof. vm_compute. reflexivity. Qed.
(* idle gates of the noise-free set are the identity *)
Lemma nf_idle_identity : mexpr_eqb cf gen_nf_relaxation (id_mat 2) && mexpr_eqb cf gen_nf_bitflip (id_mat 2) && mexpr_eqb cf gen_nf_depolarizing (id_mat 2) = true.
Proof. vm_compute. reflexivity. Qed.
(* global phases have modulus one *)
Lemma frame_phases_unit :
  expr_eqb cf (EMul EI (EConj EI)) z1 && expr_eqb cf (EMul (cis (ENeg (EMul (q 3 4) EPi))) (EConj (cis (ENeg (EMul (q 3 4) EPi))))) z1 &&
  expr_eqb cf (EMul mi (EConj mi)) z1 && expr_eqb cf (EMul (cis (ENeg (pi_over 4))) (EConj (cis (ENeg (pi_over 4))))) z1 = true.
Proof. vm_compute. reflexivity. Qed.
