(* Level 2 of the optimizer: process_snippet and the snippet loop.
   process_snippet is sound on the snippets level 2 builds (one-qubit items, one two-qubit item, at most two
   one-qubit items on different qubits); opt2 is sound on lists without adjacent same-qubit one-qubit items
   (which is what level 1 returns). *)
From Coq Require Import List Bool Arith ZArith Lia Ring.
Require Import QG.Base.Res QG.Base.State QG.Model.Optimizer QG.Proofs.OptimizerSem QG.Proofs.OptimizerL13.
Import ListNotations.

Lemma idx_app_k {A} (p r : list A) k : idx (p ++ r) (length p + k) = idx r k.
Proof. unfold idx. rewrite nth_error_app2 by lia. now replace (length p + k - length p) with k by lia. Qed.
Lemma idx_app_0 {A} (p r : list A) : idx (p ++ r) (length p) = idx r 0.
Proof. rewrite <- (idx_app_k p r 0). f_equal. lia. Qed.
Lemma firstn_app_k {A} (p r : list A) k : firstn (length p + k) (p ++ r) = p ++ firstn k r.
Proof. apply firstn_app_2. Qed.
Lemma skipn_app_k {A} (p r : list A) k : skipn (length p + k) (p ++ r) = skipn k r.
Proof.
  rewrite skipn_app. replace (length p + k - length p) with k by lia.
  rewrite skipn_all2 by lia. reflexivity.
Qed.
Lemma last2_cases {A} (l : list A) : l = [] \/ (exists b, l = [b]) \/ (exists p a b, l = p ++ [a; b]).
Proof.
  destruct l as [|x l]; auto. right.
  destruct (exists_last (l := x :: l)) as (l1 & b & E); [discriminate|]. rewrite E.
  destruct l1 as [|y l1]; [left; exists b; reflexivity|]. right.
  destruct (exists_last (l := y :: l1)) as (l2 & a & E2); [discriminate|]. rewrite E2.
  exists l2, a, b. now rewrite <- app_assoc.
Qed.

Section L2.
Variable R : Type.
Variables (rO rI : R) (radd rmul rsub : R -> R -> R) (ropp : R -> R).
Variable Rth : ring_theory rO rI radd rmul rsub ropp eq.

Notation mat := (mat R).
Notation mmul := (mmul R radd rmul).
Notation mkron := (mkron R rmul).
Notation mid2 := (mid2 R rO rI).
Notation mid4 := (mid4 R rO rI).
Notation mitem := (mat * list Z)%type.
Notation wfn := (wfn R).
Notation equiv := (equiv R rO rI radd rmul).
Notation len_is := (len_is mat).
Notation noadj := (noadj R).
Notation M2 := (M2 R).
Notation M4 := (M4 R).

Variable n : nat.
Notation eq_app := (equiv_app R rO rI radd rmul n).
Notation eq_app_l := (equiv_app_l R rO rI radd rmul n).
Notation eq_app_r := (equiv_app_r R rO rI radd rmul n).
Notation eq_refl' := (equiv_refl R rO rI radd rmul n).
Notation eq_sym := (equiv_sym R rO rI radd rmul n).
Notation eq_trans := (equiv_trans R rO rI radd rmul n).
Notation L_bc := (law_before_c R rO rI radd rmul rsub ropp Rth n).
Notation L_bt := (law_before_t R rO rI radd rmul rsub ropp Rth n).
Notation L_bct := (law_before_ct R rO rI radd rmul rsub ropp Rth n).
Notation L_btc := (law_before_tc R rO rI radd rmul rsub ropp Rth n).
Notation L_ac := (law_after_c R rO rI radd rmul rsub ropp Rth n).
Notation L_at := (law_after_t R rO rI radd rmul rsub ropp Rth n).
Notation L_act := (law_after_ct R rO rI radd rmul rsub ropp Rth n).
Notation L_atc := (law_after_tc R rO rI radd rmul rsub ropp Rth n).
Notation L_comm := (law_comm11 R rO rI radd rmul rsub ropp Rth n).

Notation snippet_before := (snippet_before mat mmul mkron mid2).
Notation snippet_after := (snippet_after mat mmul mkron mid2).
Notation process_snippet := (process_snippet mat mmul mkron mid2).

(* one-qubit normalised item *)
Definition is1 (it : mitem) : Prop := exists a q, it = (M2 a, [q]) /\ (0 <= q < Z.of_nat n)%Z.
Lemma is1_wfn it : is1 it -> wfn n it.
Proof. intros (a & q & -> & H). exact H. Qed.
Lemma wfn_is1 it : wfn n it -> len_is 2 it = false -> is1 it.
Proof.
  intros H L. destruct (wfn_cases R n it H) as [(a & q & -> & Hq)|(g & q1 & q2 & -> & _)].
  - exists a, q. auto.
  - discriminate.
Qed.
Lemma is1_len it : is1 it -> len_is 2 it = false /\ len_is 1 it = true.
Proof. intros (a & q & -> & H). auto. Qed.

Ltac zcase a b := destruct (Z.eqb_spec a b); simpl.

(* ---------------------------------------------------------------- before the two-qubit gate *)
Ltac wf_tac := try (apply Forall_app; split); auto; repeat (constructor; auto).
Ltac zsplit := repeat (match goal with |- context[(?x =? ?y)%Z] => destruct (Z.eqb_spec x y); simpl; try lia end).
Ltac fin p := exists p; eexists; split; [rewrite <- ?app_assoc; reflexivity|]; split; [|split; [wf_tac; fail|rewrite ?app_length; simpl; lia]].
Ltac pick_before :=
  match goal with
  | |- exists p' g', Ok (?p ++ [(OptimizerSem.M4 _ _, _)]) = _ /\ _ => fin p
  | |- exists p' g', Ok (?p ++ [?A; ?B; (OptimizerSem.M4 _ _, _)]) = _ /\ _ => fin (p ++ [A; B])
  | |- exists p' g', Ok [(OptimizerSem.M4 _ _, _)] = _ /\ _ => fin (@nil mitem)
  | |- exists p' g', Ok [?B; (OptimizerSem.M4 _ _, _)] = _ /\ _ => fin [B]
  end.
Ltac eqv_before :=
  rewrite <- ?app_assoc; simpl; try apply eq_app_l; try apply equiv_cons;
  first [ apply equiv_refl | apply eq_sym; first [apply L_bct | apply L_btc | apply L_bc | apply L_bt]; auto; fail ].

Lemma before_spec (pre : list mitem) g c t (post : list mitem) :
  Forall is1 pre -> (0 <= c < Z.of_nat n)%Z -> (0 <= t < Z.of_nat n)%Z -> c <> t ->
  exists p' g', snippet_before (pre ++ (M4 g, [c; t]) :: post) (length pre) = Ok (p' ++ [(M4 g', [c; t])]) /\
    equiv n (p' ++ [(M4 g', [c; t])]) (pre ++ [(M4 g, [c; t])]) /\ Forall (wfn n) p' /\ length p' <= length pre.
Proof.
  intros Hpre Hc Ht Hct.
  destruct (last2_cases pre) as [->|[(B & ->)|(p0 & A & B & ->)]].
  - (* no item before *)
    fin (@nil mitem). apply equiv_refl.
  - (* one item before *)
    apply Forall_inv in Hpre. destruct Hpre as (b & qb & -> & Hqb).
    unfold Optimizer.snippet_before. simpl.
    zsplit; subst; pick_before; eqv_before.
  - (* at least two items before *)
    apply Forall_app in Hpre. destruct Hpre as [Hp0 HAB].
    apply Forall_inv in HAB as HA. apply Forall_inv_tail in HAB. apply Forall_inv in HAB as HB.
    destruct HA as (a & qa & -> & Hqa). destruct HB as (b & qb & -> & Hqb).
    assert (Wp0 : Forall (wfn n) p0) by (eapply Forall_impl; [|exact Hp0]; apply is1_wfn).
    rewrite <- !app_assoc. simpl app. rewrite app_length. simpl length.
    unfold Optimizer.snippet_before.
    replace (Nat.leb 2 (length p0 + 2)) with true by (symmetry; apply Nat.leb_le; lia).
    replace (length p0 + 2 - 2) with (length p0 + 0) by lia.
    replace (length p0 + 2 - 1) with (length p0 + 1) by lia.
    replace (length p0 + 2 + 1) with (length p0 + 3) by lia.
    rewrite !idx_app_k, !firstn_app_k. simpl. rewrite ?app_nil_r.
    zsplit; subst; pick_before; eqv_before.
Qed.

(* ---------------------------------------------------------------- after the two-qubit gate *)
Lemma py_last_app {A} (l : list A) x : py_last (l ++ [x]) = Ok x.
Proof.
  unfold py_last. destruct (l ++ [x]) eqn:E.
  - apply app_eq_nil in E. destruct E; discriminate.
  - rewrite <- E. rewrite app_length. simpl. replace (length l + 1 - 1) with (length l + 0) by lia.
    rewrite idx_app_k. reflexivity.
Qed.

Ltac pick_after ps0 :=
  rewrite <- ?app_assoc; simpl;
  match goal with
  | |- exists outp, Ok (ps0 ++ ?L) = _ /\ _ => exists L; split; [reflexivity|]; split; [|split; [wf_tac; fail|split; [simpl; lia|discriminate]]]
  end.
Ltac law_a := apply eq_sym; first [apply L_atc | apply L_act | apply L_ac | apply L_at]; auto; fail.
Ltac eqv_after :=
  first
  [ apply equiv_refl
  | law_a
  | match goal with
    | |- OptimizerSem.equiv _ _ _ _ _ _ [?F; ?Z] [?P; ?X; ?Y] =>
      first [ apply (eq_app_r [Z] [F] [P; X]); law_a
            | apply (eq_trans [F; Z] [P; Y; X] [P; X; Y]);
              [ apply (eq_app_r [X] [F] [P; Y]); law_a | apply equiv_cons; apply L_comm; lia ] ]
    end ].

Definition post_ok (post : list mitem) : Prop :=
  post = [] \/ (exists X, post = [X] /\ is1 X) \/ (exists X Y, post = [X; Y] /\ is1 X /\ is1 Y /\ snd X <> snd Y).

Lemma after_spec (pre : list mitem) g c t (post ps0 : list mitem) g' :
  post_ok post -> (0 <= c < Z.of_nat n)%Z -> (0 <= t < Z.of_nat n)%Z -> c <> t ->
  exists outp, snippet_after (pre ++ (M4 g, [c; t]) :: post) (length pre) (ps0 ++ [(M4 g', [c; t])]) = Ok (ps0 ++ outp) /\
    equiv n outp ((M4 g', [c; t]) :: post) /\ Forall (wfn n) outp /\ length outp <= S (length post) /\ outp <> [].
Proof.
  intros Hpost Hc Ht Hct.
  unfold Optimizer.snippet_after. rewrite py_last_app, removelast_last, app_length.
  destruct Hpost as [->|[(X & -> & HX)|(X & Y & -> & HX & HY & Hne)]]; simpl length.
  - replace (Nat.leb (length pre + 3) (length pre + 1)) with false by (symmetry; apply Nat.leb_gt; lia).
    replace (Nat.leb (length pre + 2) (length pre + 1)) with false by (symmetry; apply Nat.leb_gt; lia).
    exists [(M4 g', [c; t])]. split; [reflexivity|]. split; [apply equiv_refl|]. split; [wf_tac|split; [simpl; lia|discriminate]].
  - destruct HX as (x & qx & -> & Hqx).
    replace (Nat.leb (length pre + 3) (length pre + 2)) with false by (symmetry; apply Nat.leb_gt; lia).
    rewrite Nat.leb_refl.
    rewrite !idx_app_k, !idx_app_0. simpl.
    zsplit; subst; pick_after ps0; eqv_after.
  - destruct HX as (x & qx & -> & Hqx). destruct HY as (y & qy & -> & Hqy). simpl in Hne.
    assert (qx <> qy) by congruence.
    rewrite Nat.leb_refl.
    rewrite !idx_app_k, !idx_app_0. simpl.
    zsplit; subst; pick_after ps0; eqv_after.
Qed.

(* ---------------------------------------------------------------- process_snippet *)
Lemma last_loc_from_none (l : list mitem) : forall i loc,
  Forall (fun it => len_is 2 it = false) l -> last_loc_from mat i loc l = loc.
Proof.
  induction l as [|x l IH]; intros i loc H; simpl; auto.
  apply Forall_inv in H as Hx. apply Forall_inv_tail in H. rewrite Hx. apply IH. auto.
Qed.
Lemma last_loc_from_app (l1 l2 : list mitem) : forall i loc,
  last_loc_from mat i loc (l1 ++ l2) = last_loc_from mat (i + length l1) (last_loc_from mat i loc l1) l2.
Proof.
  induction l1 as [|x l1 IH]; intros i loc; simpl.
  - now rewrite Nat.add_0_r.
  - rewrite IH. f_equal. lia.
Qed.
Lemma is1_not2 (l : list mitem) : Forall is1 l -> Forall (fun it => len_is 2 it = false) l.
Proof. intros H. eapply Forall_impl; [|exact H]. intros it Hi. apply is1_len in Hi. tauto. Qed.
Lemma post_ok_is1 post : post_ok post -> Forall is1 post.
Proof.
  intros [->|[(X & -> & HX)|(X & Y & -> & HX & HY & _)]]; repeat constructor; auto.
Qed.

Lemma process_snippet_spec (pre : list mitem) g c t (post : list mitem) :
  Forall is1 pre -> post_ok post -> (0 <= c < Z.of_nat n)%Z -> (0 <= t < Z.of_nat n)%Z -> c <> t ->
  exists out, process_snippet (pre ++ (M4 g, [c; t]) :: post) = Ok out /\
    equiv n out (pre ++ (M4 g, [c; t]) :: post) /\ Forall (wfn n) out /\
    length out <= length (pre ++ (M4 g, [c; t]) :: post) /\ out <> [].
Proof.
  intros Hpre Hpost Hc Ht Hct.
  unfold Optimizer.process_snippet.
  assert (Hloc : last_loc mat (pre ++ (M4 g, [c; t]) :: post) = length pre).
  { unfold last_loc. rewrite last_loc_from_app. simpl.
    rewrite last_loc_from_none; auto. apply is1_not2. now apply post_ok_is1. }
  rewrite Hloc.
  destruct (before_spec pre g c t post Hpre Hc Ht Hct) as (p' & g' & E1 & Q1 & W1 & L1).
  rewrite E1. simpl.
  destruct (after_spec pre g c t post p' g' Hpost Hc Ht Hct) as (outp & E2 & Q2 & W2 & L2 & N2).
  rewrite E2. exists (p' ++ outp). split; [reflexivity|]. split; [|split; [|split]].
  - apply (eq_trans _ (p' ++ (M4 g', [c; t]) :: post)).
    + apply eq_app_l. exact Q2.
    + change (p' ++ (M4 g', [c; t]) :: post) with (p' ++ [(M4 g', [c; t])] ++ post).
      change (pre ++ (M4 g, [c; t]) :: post) with (pre ++ [(M4 g, [c; t])] ++ post).
      rewrite !app_assoc. apply eq_app_r. exact Q1.
  - apply Forall_app. auto.
  - rewrite !app_length. simpl. lia.
  - intros E. apply app_eq_nil in E. tauto.
Qed.

(* ---------------------------------------------------------------- the snippet loop *)
Notation count2 := (count2 mat).
Lemma count2_app (a b : list mitem) : count2 (a ++ b) = count2 a + count2 b.
Proof. unfold Optimizer.count2. now rewrite filter_app, app_length. Qed.
Lemma count2_is1 (l : list mitem) : Forall is1 l -> count2 l = 0.
Proof.
  induction l as [|x l IH]; intros H; auto.
  apply Forall_inv in H as Hx. apply Forall_inv_tail in H.
  unfold Optimizer.count2 in *. simpl. destruct (is1_len x Hx) as [-> _]. auto.
Qed.

Lemma find2_spec (gl : list mitem) : Forall (wfn n) gl -> 0 < count2 gl ->
  exists pre G rest, gl = pre ++ G :: rest /\ Forall is1 pre /\ len_is 2 G = true /\ find2 mat gl = Ok (length pre).
Proof.
  induction gl as [|x gl IH]; intros Hwf Hc.
  - unfold Optimizer.count2 in Hc. simpl in Hc. lia.
  - apply Forall_inv in Hwf as Hx. apply Forall_inv_tail in Hwf.
    simpl. destruct (len_is 2 x) eqn:E.
    + exists [], x, gl. repeat split; auto.
    + destruct IH as (pre & G & rest & -> & Hp & HG & Hf); auto.
      { unfold Optimizer.count2 in *. simpl in Hc. rewrite E in Hc. exact Hc. }
      exists (x :: pre), G, rest. rewrite Hf. simpl. repeat split; auto.
      constructor; auto. apply wfn_is1; auto.
Qed.

Lemma noadj_app_r (l1 l2 : list mitem) : noadj (l1 ++ l2) -> noadj l2.
Proof.
  induction l1 as [|x l1 IH]; auto.
  simpl. destruct (l1 ++ l2) eqn:E.
  - intros _. destruct l1; simpl in E; [subst; exact I|discriminate].
  - intros [_ H]. apply IH. exact H.
Qed.

Lemma take_snippet_spec (gl : list mitem) : Forall (wfn n) gl -> 0 < count2 gl -> noadj gl ->
  exists pre g c t post rest,
    take_snippet mat gl = Ok (pre ++ (M4 g, [c; t]) :: post) /\ gl = (pre ++ (M4 g, [c; t]) :: post) ++ rest /\
    Forall is1 pre /\ post_ok post /\ (0 <= c < Z.of_nat n)%Z /\ (0 <= t < Z.of_nat n)%Z /\ c <> t /\
    count2 gl = S (count2 rest).
Proof.
  intros Hwf Hc Hna.
  destruct (find2_spec gl Hwf Hc) as (pre & G & rest & -> & Hpre & HG & Hf).
  apply Forall_app in Hwf. destruct Hwf as [_ Hwf].
  apply Forall_inv in Hwf as WG. apply Forall_inv_tail in Hwf.
  destruct (wfn_len2 R n G WG HG) as (g & c & t & -> & Hc' & Ht' & Hct).
  apply noadj_app_r in Hna. apply (noadj_app_r [(M4 g, [c; t])]) in Hna.
  unfold Optimizer.take_snippet. rewrite Hf. cbn [rbind].
  replace (S (length pre)) with (length pre + 1) by lia.
  rewrite firstn_app_k, skipn_app_k. simpl firstn. simpl skipn.
  assert (C0 : forall post rest', post_ok post ->
     count2 (pre ++ (M4 g, [c; t]) :: post ++ rest') = S (count2 rest')).
  { intros post rest' Hp. rewrite count2_app, (count2_is1 pre Hpre).
    change ((M4 g, [c; t]) :: post ++ rest') with ([(M4 g, [c; t])] ++ post ++ rest').
    rewrite !count2_app, (count2_is1 post (post_ok_is1 post Hp)). reflexivity. }
  destruct rest as [|a rest].
  - exists pre, g, c, t, [], []. rewrite <- !app_assoc. simpl.
    repeat split; auto; try lia. left; auto. apply (C0 [] []). left; auto.
  - apply Forall_inv in Hwf as Wa. apply Forall_inv_tail in Hwf.
    destruct (len_is 1 a) eqn:Ea.
    + destruct (wfn_len1 R n a Wa Ea) as (xa & qa & -> & Hqa).
      assert (Ia : is1 (M2 xa, [qa])) by (exists xa, qa; auto).
      destruct rest as [|b rest].
      * exists pre, g, c, t, [(M2 xa, [qa])], []. rewrite <- !app_assoc. simpl.
        assert (P : post_ok [(M2 xa, [qa])]) by (right; left; eauto).
        repeat split; auto; try lia. apply (C0 _ [] P).
      * apply Forall_inv in Hwf as Wb. apply Forall_inv_tail in Hwf.
        destruct (len_is 1 b) eqn:Eb.
        -- destruct (wfn_len1 R n b Wb Eb) as (xb & qb & -> & Hqb).
           assert (P : post_ok [(M2 xa, [qa]); (M2 xb, [qb])]).
           { right; right. exists (M2 xa, [qa]), (M2 xb, [qb]). repeat split; auto.
             exists xb, qb; auto.
             simpl in Hna. destruct Hna as [Hna _]. intros E. apply Hna. split; auto. }
           exists pre, g, c, t, [(M2 xa, [qa]); (M2 xb, [qb])], rest. rewrite <- !app_assoc. simpl.
           repeat split; auto; try lia. apply (C0 _ rest P).
        -- assert (P : post_ok [(M2 xa, [qa])]) by (right; left; eauto).
           exists pre, g, c, t, [(M2 xa, [qa])], (b :: rest). rewrite <- !app_assoc. simpl.
           repeat split; auto; try lia. apply (C0 _ (b :: rest) P).
    + exists pre, g, c, t, [], (a :: rest). rewrite <- !app_assoc. simpl.
      repeat split; auto; try lia. left; auto. apply (C0 [] (a :: rest)). left; auto.
Qed.

Lemma opt2_loop_spec : forall k (gl : list mitem), k <= count2 gl -> Forall (wfn n) gl -> noadj gl ->
  exists out, opt2_loop mat mmul mkron mid2 k gl = Ok out /\ equiv n out gl /\ Forall (wfn n) out /\ length out <= length gl /\ (gl <> [] -> out <> []).
Proof.
  induction k as [|k IH]; intros gl Hk Hwf Hna.
  - exists gl. simpl. repeat split; auto; try apply equiv_refl.
  - destruct (take_snippet_spec gl Hwf) as (pre & g & c & t & post & rest & Et & Egl & Hpre & Hpost & Hc & Ht & Hct & Hcnt); auto; try lia.
    cbn [opt2_loop]. rewrite Et. simpl rbind.
    destruct (process_snippet_spec pre g c t post Hpre Hpost Hc Ht Hct) as (p & Ep & Qp & Wp & Lp & Np).
    rewrite Ep. simpl rbind.
    assert (Hsk : skipn (length (pre ++ (M4 g, [c; t]) :: post)) gl = rest).
    { rewrite Egl at 1. replace (length (pre ++ (M4 g, [c; t]) :: post)) with (length (pre ++ (M4 g, [c; t]) :: post) + 0) by lia.
      rewrite skipn_app_k. reflexivity. }
    rewrite Hsk.
    assert (Wr : Forall (wfn n) rest) by (rewrite Egl in Hwf; apply Forall_app in Hwf; tauto).
    assert (Nr : noadj rest) by (rewrite Egl in Hna; eapply noadj_app_r; eauto).
    destruct (IH rest) as (r & Er & Qr & Wrr & Lr & _); auto; try lia.
    rewrite Er. simpl. exists (p ++ r). split; [reflexivity|]. split; [|split; [|split]].
    + rewrite Egl. apply eq_app; auto.
    + apply Forall_app; auto.
    + rewrite Egl, !app_length. rewrite app_length in Lp. lia.
    + intros _ E. apply app_eq_nil in E. tauto.
Qed.

Theorem lvl2_spec (gl : list mitem) : Forall (wfn n) gl -> noadj gl ->
  exists out, opt2 mat mmul mkron mid2 gl = Ok out /\ equiv n out gl /\ Forall (wfn n) out /\ length out <= length gl /\ (gl <> [] -> out <> []).
Proof.
  intros Hwf Hna. unfold Optimizer.opt2.
  destruct (Nat.ltb 0 (count2 gl)).
  - apply opt2_loop_spec; auto.
  - exists gl. repeat split; auto; try apply equiv_refl.
Qed.

End L2.
