(* C08 — the last sentence of the property for the MODELLED SIMULATOR RUN of the index class (run_is_spec_index):
   relabel_invariant_simloop   relabelling the physical qubits of the instruction list by an injective piN, with tables permuted
                               accordingly and the initial state read through the induced permutation, leaves the amplitude of
                               every assignment of bits to physical qubits -- hence every marginal -- unchanged, PROVIDED piN keeps
                               the order of control and target of every cx / ecr (the code picks CNOT vs CNOT_inv, ECR vs ECR_inv
                               and different phase updates by the order of the internal indices; for an arbitrary gate set the two
                               directions are unrelated matrices);
   subset_is_marginal_simloop  two instruction lists with the same operations (measure instructions aside) and the same layout
                               give the same final state, and measuring a sub-selection gives the marginal. *)
From Coq Require Import List Bool Arith NArith ZArith Lia Permutation.
Require Import QG.Base.Res QG.Base.State QG.Base.Mat QG.Base.Perm QG.Model.FixCounts QG.Model.SimRun QG.Model.NoiseFreeRun QG.Model.SimLoop QG.Model.Builders QG.Model.SimLoopOwn.
Require Import QG.Model.Sparse QG.Proofs.OptimizerSem QG.Proofs.SparseApply QG.Proofs.SparseMain.
Require Import QG.Proofs.SimRunKeys QG.Proofs.SimRunProofs QG.Proofs.SimLoop.
Require Import QG.Proofs.Relabel QG.Proofs.RelabelRank QG.Proofs.RelabelSum QG.Proofs.RelabelMain QG.Proofs.RelabelLayout.
Require Import QG.Proofs.SimLoopOwn QG.Proofs.SimLoopOwnRun QG.Proofs.SimLoopOwnSpec.
Import ListNotations.

(* ================================================================== relabelling an instruction list *)
Definition relabel_instr (piN : N -> N) (x : qinstr) : qinstr := mkinstr (iname x) (map piN (iqs x)) (ics x).
Definition relabel_meas (piN : N -> N) (qc : N * N) : N * N := (piN (fst qc), snd qc).
Definition injN (piN : N -> N) : Prop := forall a b, piN a = piN b -> a = b.
(* the relabelling on the label type of Proofs/Relabel*.v *)
Definition pi_nat (piN : N -> N) (q : nat) : nat := N.to_nat (piN (N.of_nat q)).
(* the order of control and target is kept *)
Definition dir_kept (piN : N -> N) (x : qinstr) : Prop :=
  match iname x with
  | OpCx | OpEcr => match iqs x with [c; t] => (piN c <? piN t)%N = (c <? t)%N | _ => True end
  | _ => True
  end.

Section LayoutRelabel.
Variable piN : N -> N.
Hypothesis Hinj : injN piN.

Lemma memN_map q u : memN (piN q) (map piN u) = memN q u.
Proof.
  induction u as [|y r IH]; cbn [map memN]; [reflexivity|]. rewrite IH. f_equal.
  destruct (N.eqb_spec q y) as [->|Hne]; [apply N.eqb_refl|]. apply N.eqb_neq. intros E. apply Hne. now apply Hinj.
Qed.
Lemma add_used_map q u : add_used (piN q) (map piN u) = map piN (add_used q u).
Proof. unfold add_used. rewrite memN_map. destruct (memN q u); [reflexivity|]. now rewrite map_app. Qed.

Lemma layout_loop_relabel : forall data u m u1 m1, layout_loop data u m = Ok (u1, m1) ->
  layout_loop (map (relabel_instr piN) data) (map piN u) (map (relabel_meas piN) m) = Ok (map piN u1, map (relabel_meas piN) m1).
Proof.
  induction data as [|x rest IH]; intros u m u1 m1 H.
  - cbn in H. injection H as <- <-. reflexivity.
  - cbn [map layout_loop] in *. cbn [relabel_instr iname iqs ics].
    set (used1 := if is_delay (iname x) then u else match iqs x with [q] => add_used q u | [q1; q2] => add_used q2 (add_used q1 u) | _ => u end) in *.
    assert (E1 : (if is_delay (iname x) then map piN u
                  else match map piN (iqs x) with [q] => add_used q (map piN u) | [q1; q2] => add_used q2 (add_used q1 (map piN u)) | _ => map piN u end)
                 = map piN used1).
    { subst used1. destruct (is_delay (iname x)); [reflexivity|].
      destruct (iqs x) as [|q1 [|q2 [|q3 r]]]; cbn [map]; rewrite ?add_used_map; reflexivity. }
    rewrite E1. destruct (is_measure (iname x)).
    + destruct (iqs x) as [|q r1]; [discriminate|]. destruct (ics x) as [|c r2]; [discriminate|]. cbn [map].
      specialize (IH used1 (m ++ [(q, c)]) u1 m1 H). rewrite map_app in IH. exact IH.
    + exact (IH used1 m u1 m1 H).
Qed.

Theorem process_layout_relabel data used meas n : process_layout data = Ok (used, meas, n) ->
  exists used', process_layout (map (relabel_instr piN) data) = Ok (used', map (relabel_meas piN) meas, n) /\
    Permutation used' (map piN used).
Proof.
  unfold process_layout. destruct (layout_loop data [] []) as [[u m]|e] eqn:E; cbn [rbind]; [|discriminate].
  cbn [fst snd]. intros H. injection H as <- <- <-.
  pose proof (layout_loop_relabel data [] [] u m E) as E'. cbn [map] in E'. rewrite E'. cbn [rbind fst snd].
  assert (P : Permutation (sortN (map piN u)) (map piN (sortN u))).
  { etransitivity; [apply sortN_perm|]. apply Permutation_map. symmetry. apply sortN_perm. }
  exists (sortN (map piN u)). split; [|exact P].
  do 2 f_equal. rewrite (Permutation_length P). now rewrite map_length.
Qed.

Lemma wf_qiskit_relabel x : wf_qiskit x -> wf_qiskit (relabel_instr piN x).
Proof.
  unfold wf_qiskit. cbn [relabel_instr iname iqs ics]. destruct (iname x).
  - intros (q & ->). now exists (piN q).
  - intros (q & c & -> & ->). now exists (piN q), c.
  - intros H E. apply H. destruct (iqs x); [reflexivity|discriminate].
  - intros (q & ->). now exists (piN q).
  - intros (q & ->). now exists (piN q).
  - intros (q & ->). now exists (piN q).
  - intros (c & t & -> & Hne). exists (piN c), (piN t). split; [reflexivity|]. intros E. apply Hne. now apply Hinj.
  - intros (c & t & -> & Hne). exists (piN c), (piN t). split; [reflexivity|]. intros E. apply Hne. now apply Hinj.
  - intros H E. apply H. destruct (iqs x); [reflexivity|discriminate].
Qed.

Lemma pi_nat_to_nat q : pi_nat piN (N.to_nat q) = N.to_nat (piN q).
Proof. unfold pi_nat. now rewrite N2Nat.id. Qed.
Lemma labels_map used : map (pi_nat piN) (labels used) = labels (map piN used).
Proof. unfold labels. rewrite !map_map. apply map_ext. intros q. apply pi_nat_to_nat. Qed.
Lemma pi_nat_inj L : inj_on L (pi_nat piN).
Proof. intros a b _ _ E. unfold pi_nat in E. apply N2Nat.inj in E. apply Hinj in E. now apply Nat2N.inj. Qed.
End LayoutRelabel.

(* ================================================================== rank, lab and the run depend on the SET of labels only *)
Lemma filter_length_perm {T} (p : T -> bool) l l' : Permutation l l' -> length (filter p l) = length (filter p l').
Proof.
  induction 1 as [|x l l' _ IH|x y l|l l' l'' _ IH1 _ IH2]; cbn [filter]; auto.
  - destruct (p x); cbn [length]; now rewrite IH.
  - destruct (p x), (p y); reflexivity.
  - congruence.
Qed.
Lemma rank_perm L L' q : Permutation L L' -> rank L q = rank L' q.
Proof. intros P. unfold rank. now apply filter_length_perm. Qed.
Lemma lab_perm L L' k : Permutation L L' -> NoDup L -> k < length L -> lab L k = lab L' k.
Proof.
  intros P ND Hk. destruct (rank_lab L k ND Hk) as [Hin Hr].
  rewrite <- Hr at 2. rewrite (rank_perm L L' _ P). symmetry. apply lab_rank. eapply Permutation_in; eauto.
Qed.

Section RunPerm.
Variable R : Type.
Variables (radd rmul : R -> R -> R).
Variables (cal cal2 ph op1 op2 : Type).
Variable gate1 : op1 -> ph -> cal -> option (m2 R).
Variable next1 : op1 -> ph -> ph.
Variable gate2 : op2 -> ph -> ph -> cal -> cal -> cal2 -> m4 R.
Variable next2 : op2 -> ph -> ph -> ph * ph.
Variable ro : cal -> m2 R.
Notation internalise := (internalise R cal cal2 ph op1 op2 gate1 next1 gate2 next2).

Lemma internalise_idx_ext idx idx' T1 T2 circ : (forall q, idx q = idx' q) -> forall phi,
  internalise idx T1 T2 circ phi = internalise idx' T1 T2 circ phi.
Proof.
  intros H. induction circ as [|x r IH]; intros phi; [reflexivity|].
  destruct x as [o q|o c t]; cbn [Relabel.internalise]; cbv zeta.
  - rewrite <- (H q), IH. reflexivity.
  - rewrite <- (H c), <- (H t), IH. reflexivity.
Qed.

Lemma run_perm L L' T1 T2 circ ph0 psi : Permutation L L' -> NoDup L ->
  run R radd rmul cal cal2 ph op1 op2 gate1 next1 gate2 next2 ro L T1 T2 circ ph0 psi
  = run R radd rmul cal cal2 ph op1 op2 gate1 next1 gate2 next2 ro L' T1 T2 circ ph0 psi.
Proof.
  intros P ND. unfold run. rewrite <- (Permutation_length P).
  rewrite (internalise_idx_ext (rank L) (rank L') T1 T2 circ (fun q => rank_perm L L' q P)).
  do 2 f_equal. unfold Relabel.readout. apply map_ext_in. intros k Hk. apply in_seq in Hk.
  now rewrite (lab_perm L L' k P ND) by lia.
Qed.
End RunPerm.

Lemma numbered_map (f : qinstr -> qinstr) data : numbered (map f data) = map (fun jx => (fst jx, f (snd jx))) (numbered data).
Proof.
  unfold numbered. rewrite map_length. generalize 0 at 1 2. induction data as [|x r IH]; intros s; cbn [length seq combine map]; [reflexivity|].
  now rewrite IH.
Qed.

(* ================================================================== the two clauses *)
Section Clauses.
Variable R : Type.
Variables (rO rI : R) (radd rmul rsub : R -> R -> R) (ropp : R -> R).
Variable Rth : ring_theory rO rI radd rmul rsub ropp eq.
Variable W : Type.
Variables (wO wI : W) (wadd wmul wsub : W -> W -> W) (wopp : W -> W).
Variable Wth : ring_theory wO wI wadd wmul wsub wopp eq.
Variable born : R -> W.
Variables A D V : Type.
Variable ph : A -> Z * Z.
Variable g1 : kind1 -> Z * Z -> list V -> m2 R.
Variable g2 : kind2 -> bool -> Z * Z -> Z * Z -> list V -> m4 R.
Variable grelax : list V -> m2 R.
Variable gflip : list V -> m2 R.

Notation M := (mat R).
Notation op1 := (op1 A V).
Notation op2 := (kind2 * bool)%type.
Notation pop := (pop op1 op2).
Notation own_run val := (own_run R radd rmul A D V val ph g1 g2 grelax gflip).
Notation own_shot val := (own_shot A D V val ph M (mid2 R rO rI) (gs R V g1 g2 grelax gflip)).
Notation marg := (marg W wO wadd).
Notation sem := (sem R radd rmul).
Notation den := (den R rO rI).

Lemma marg_ext n (w w' : bits -> W) pos t : (forall b, length b = n -> w b = w' b) -> marg n w pos t = marg n w' pos t.
Proof. intros H. unfold RelabelSum.marg. apply bsum_ext. intros b Lb. now rewrite H. Qed.

(* ---------------------------------------------------------------- relabelling *)
Definition relabel_tok (piN : N -> N) (t : tok A D) : tok A D :=
  match t with
  | TT1 q => TT1 (piN q) | TT2 q => TT2 (piN q) | Tp q => Tp (piN q) | Trout q => Trout (piN q) | Ttm q => Ttm (piN q)
  | Tpint c t' => Tpint (piN c) (piN t') | Ttint c t' => Ttint (piN c) (piN t')
  | Ttime d => Ttime d | Ttheta a => Ttheta a
  end.

Section Relabel.
Variable piN : N -> N.
Hypothesis Hinj : injN piN.
Variables val val' : tok A D -> V.
Hypothesis Hval : forall t, val' (relabel_tok piN t) = val t.
Variable theta : nat -> A.
Variable dur : nat -> D.
Notation pin := (pi_nat piN).

Lemma T1tab_relabel q : T1tab A D V val' (pin q) = T1tab A D V val q.
Proof.
  unfold T1tab, pi_nat. rewrite N2Nat.id.
  now rewrite <- (Hval (Tp (N.of_nat q))), <- (Hval (TT1 (N.of_nat q))), <- (Hval (TT2 (N.of_nat q))),
              <- (Hval (Ttm (N.of_nat q))), <- (Hval (Trout (N.of_nat q))).
Qed.
Lemma T2tab_relabel c t : T2tab A D V val' (pin c) (pin t) = T2tab A D V val c t.
Proof.
  unfold T2tab, pi_nat. rewrite !N2Nat.id.
  now rewrite <- (Hval (Ttint (N.of_nat c) (N.of_nat t))), <- (Hval (Tpint (N.of_nat c) (N.of_nat t))).
Qed.

Lemma pops_relabel used used' th du x : (forall q, memN (piN q) used' = memN q used) -> dir_kept piN x ->
  pops_annot A D V val' used' th du (relabel_instr piN x) = map (relabel op1 op2 pin) (pops_annot A D V val used th du x).
Proof.
  intros Hm. unfold dir_kept, pops_annot. cbn [relabel_instr iname iqs]. destruct (iname x); intros Hd; try reflexivity.
  - destruct (iqs x) as [|q [|q2 r]]; try reflexivity. cbn [map]. rewrite Hm. destruct (memN q used); [|reflexivity].
    cbn [map relabel]. now rewrite pi_nat_to_nat, <- (Hval (Ttime du)).
  - destruct (iqs x) as [|q [|q2 r]]; try reflexivity. cbn [map relabel]. now rewrite pi_nat_to_nat.
  - destruct (iqs x) as [|q [|q2 r]]; try reflexivity. cbn [map relabel]. now rewrite pi_nat_to_nat.
  - destruct (iqs x) as [|q [|q2 r]]; try reflexivity. cbn [map relabel]. now rewrite pi_nat_to_nat.
  - destruct (iqs x) as [|c [|t [|q3 r]]]; try reflexivity. cbn [map relabel]. now rewrite !pi_nat_to_nat, Hd.
  - destruct (iqs x) as [|c [|t [|q3 r]]]; try reflexivity. cbn [map relabel]. now rewrite !pi_nat_to_nat, Hd.
Qed.

Lemma circ_relabel used used' data : Permutation used' (map piN used) -> Forall (dir_kept piN) data ->
  own_circ A D V val' theta dur used' (map (relabel_instr piN) data)
  = map (relabel op1 op2 pin) (own_circ A D V val theta dur used data).
Proof.
  intros P Fd.
  assert (Hm : forall q, memN (piN q) used' = memN q used).
  { intros q. rewrite <- (memN_map piN Hinj q used).
    destruct (memN (piN q) used') eqn:E1, (memN (piN q) (map piN used)) eqn:E2; auto.
    - apply memN_In in E1. apply (Permutation_in _ P) in E1. apply memN_In in E1. congruence.
    - apply memN_In in E2. apply (Permutation_in _ (Permutation_sym P)) in E2. apply memN_In in E2. congruence. }
  unfold own_circ. rewrite numbered_map.
  assert (Fn : Forall (fun jx => dir_kept piN (snd jx)) (numbered data)) by (now apply numbered_snd).
  induction Fn as [|jx r Hd _ IH]; [reflexivity|].
  cbn [map flat_map]. rewrite map_app, IH. f_equal. unfold own_pops. cbn [fst snd]. now apply pops_relabel.
Qed.

Theorem relabel_invariant_simloop data used meas n (psi psi' : bits -> R) :
  Forall wf_qiskit data -> process_layout data = Ok (used, meas, n) -> Forall (dir_kept piN) data ->
  let L := labels used in let data' := map (relabel_instr piN) data in
  (forall b, length b = n -> psi' (permute (induced L pin) b) = psi b) ->
  exists used' cs cs',
    process_layout data' = Ok (used', map (relabel_meas piN) meas, n) /\ Permutation (labels used') (map pin L) /\
    translate_calls A D theta dur used (Z.of_nat n) data = Ok cs /\
    translate_calls A D theta dur used' (Z.of_nat n) data' = Ok cs' /\
    perm_on n (induced L pin) /\
    (forall q, In q L -> induced L pin (rank L q) = rank (labels used') (pin q)) /\
    forall layout layout', exists content content',
      own_shot val n layout cs = Ok content /\ own_shot val' n layout' cs' = Ok content' /\
      (forall b, length b = n -> sem (map den content') psi' (permute (induced L pin) b) = sem (map den content) psi b) /\
      (forall Mq t, Forall (fun q => In q L) Mq ->
         marg n (fun b => born (sem (map den content') psi' b)) (map (rank (labels used')) (map pin Mq)) t
         = marg n (fun b => born (sem (map den content) psi b)) (map (rank L) Mq) t).
Proof.
  intros Wq Hl Fd L data' Hpsi.
  destruct (process_layout_relabel piN Hinj data used meas n Hl) as (used' & Hl' & P).
  assert (Wq' : Forall wf_qiskit data').
  { unfold data'. apply Forall_forall. intros x Hx. apply in_map_iff in Hx as (x0 & <- & Hx0). apply wf_qiskit_relabel; auto.
    rewrite Forall_forall in Wq. auto. }
  destruct (run_is_spec_index R rO rI radd rmul rsub ropp Rth A D V val ph g1 g2 grelax gflip theta dur data used meas n Wq Hl)
    as (ND & En & Fp & cs & Ec & _ & Sh).
  destruct (run_is_spec_index R rO rI radd rmul rsub ropp Rth A D V val' ph g1 g2 grelax gflip theta dur data' used' _ n Wq' Hl')
    as (ND' & En' & Fp' & cs' & Ec' & _ & Sh').
  fold L in ND, En, Fp, Sh.
  assert (PL : Permutation (labels used') (map pin L)).
  { unfold L. rewrite (labels_map piN). unfold labels. now apply Permutation_map. }
  assert (NDp : NoDup (map pin L)) by (eapply Permutation_NoDup; eauto).
  assert (Hp : perm_on n (induced L pin)) by (rewrite En; apply induced_perm; auto; apply (pi_nat_inj piN Hinj)).
  assert (Hind : forall q, In q L -> induced L pin (rank L q) = rank (labels used') (pin q)).
  { intros q Hq. rewrite (induced_spec L pin q Hq). symmetry. now apply rank_perm. }
  exists used', cs, cs'. split; [exact Hl'|]. split; [exact PL|]. split; [exact Ec|]. split; [exact Ec'|].
  split; [exact Hp|]. split; [exact Hind|].
  intros layout layout'.
  destruct (Sh layout psi) as (content & Es & _ & Sem & _). destruct (Sh' layout' psi') as (content' & Es' & _ & Sem' & _).
  exists content, content'. split; [exact Es|]. split; [exact Es'|].
  (* the relabelled run on the labels map pin L *)
  assert (Erun : forall b, own_run val' (labels used') (own_circ A D V val' theta dur used' data') psi' b
                 = run R radd rmul (qcal V) (pcal V) (Z * Z)%type op1 op2 (gate1 R A V g1 grelax) (next1 A V ph) (gate2 R V g2) next2 (ro R V gflip)
                     (map pin L) (T1tab A D V val') (T2tab A D V val') (map (relabel op1 op2 pin) (own_circ A D V val theta dur used data)) p0 psi' b).
  { intros b. unfold SimLoopOwnRun.own_run. rewrite (run_perm R radd rmul _ _ _ _ _ _ _ _ _ _ (labels used') (map pin L) _ _ _ _ _ PL ND').
    unfold data'. now rewrite (circ_relabel used used' data (proj2 (conj I P)) Fd). }
  assert (Hbits : forall b, length b = n -> sem (map den content') psi' (permute (induced L pin) b) = sem (map den content) psi b).
  { intros b Lb. rewrite Sem', Sem, Erun. unfold SimLoopOwnRun.own_run.
    apply (relabel_invariant_bits R rO rI radd rmul rsub ropp Rth); auto.
    - apply (pi_nat_inj piN Hinj).
    - intros q _. apply T1tab_relabel.
    - intros c t _ _. apply T2tab_relabel.
    - intros b0 Lb0. apply Hpsi. congruence.
    - congruence. }
  split; [exact Hbits|].
  intros Mq t FM.
  rewrite (marg_ext n _ (fun b => born (run R radd rmul (qcal V) (pcal V) (Z * Z)%type op1 op2 (gate1 R A V g1 grelax) (next1 A V ph) (gate2 R V g2) next2 (ro R V gflip)
                     (map pin L) (T1tab A D V val') (T2tab A D V val') (map (relabel op1 op2 pin) (own_circ A D V val theta dur used data)) p0 psi' b)))
    by (intros b _; now rewrite Sem', Erun).
  rewrite (marg_ext n (fun b => born (sem (map den content) psi b)) (fun b => born (own_run val L (own_circ A D V val theta dur used data) psi b)))
    by (intros b _; now rewrite Sem).
  replace (map (rank (labels used')) (map pin Mq)) with (map (rank (map pin L)) (map pin Mq))
    by (apply map_ext; intros q; symmetry; now apply rank_perm).
  rewrite En. unfold SimLoopOwnRun.own_run.
  apply (relabel_invariant_marginal R rO rI radd rmul rsub ropp Rth W wO wI wadd wmul wsub wopp Wth born); auto.
  - apply (pi_nat_inj piN Hinj).
  - intros q _. apply T1tab_relabel.
  - intros c0 t0 _ _. apply T2tab_relabel.
  - intros b0 Lb0. apply Hpsi. congruence.
Qed.
End Relabel.

(* ---------------------------------------------------------------- measuring a subset *)
Section Subset.
Variable val : tok A D -> V.
(* the operations of a circuit: its non-measure instructions, each with its own angle and duration *)
Definition ops_of (theta : nat -> A) (dur : nat -> D) (data : list qinstr) : list (A * D * qinstr) :=
  map (fun jx => (theta (fst jx), dur (fst jx), snd jx)) (filter (fun jx : nat * qinstr => negb (is_measure (iname (snd jx)))) (numbered data)).

Lemma own_circ_ops theta dur used data :
  own_circ A D V val theta dur used data
  = flat_map (fun adx : A * D * qinstr => pops_annot A D V val used (fst (fst adx)) (snd (fst adx)) (snd adx)) (ops_of theta dur data).
Proof.
  unfold own_circ, ops_of. induction (numbered data) as [|jx r IH]; [reflexivity|].
  cbn [flat_map filter]. destruct (is_measure (iname (snd jx))) eqn:E; cbn [negb map flat_map].
  - rewrite <- IH. unfold own_pops, pops_annot. destruct (iname (snd jx)); try discriminate. reflexivity.
  - rewrite <- IH. reflexivity.
Qed.

Theorem subset_is_marginal_simloop theta dur theta' dur' data data' used meas meas' n (idx : list nat) :
  Forall wf_qiskit data -> Forall wf_qiskit data' ->
  process_layout data = Ok (used, meas, n) -> process_layout data' = Ok (used, meas', n) ->
  ops_of theta dur data = ops_of theta' dur' data' ->
  let L := labels used in
  let Mq := map (fun qc => N.to_nat (fst qc)) meas in let Mq' := map (fun qc => N.to_nat (fst qc)) meas' in
  exists cs cs',
    translate_calls A D theta dur used (Z.of_nat n) data = Ok cs /\
    translate_calls A D theta' dur' used (Z.of_nat n) data' = Ok cs' /\
    forall layout layout' psi, exists content content',
      own_shot val n layout cs = Ok content /\ own_shot val n layout' cs' = Ok content' /\
      (forall b, sem (map den content') psi b = sem (map den content) psi b) /\
      (Mq' = map (fun k => nth k Mq 0) idx -> Forall (fun k => k < length Mq) idx -> forall t,
         marg n (fun b => born (sem (map den content') psi b)) (map (rank L) Mq') t
         = bsum W wadd (length Mq) (fun t' => if beq (bsel t' idx) t
                                              then marg n (fun b => born (sem (map den content) psi b)) (map (rank L) Mq) t' else wO)).
Proof.
  intros Wq Wq' Hl Hl' Hops L Mq Mq'.
  destruct (run_is_spec_index R rO rI radd rmul rsub ropp Rth A D V val ph g1 g2 grelax gflip theta dur data used meas n Wq Hl)
    as (ND & En & _ & cs & Ec & _ & Sh).
  destruct (run_is_spec_index R rO rI radd rmul rsub ropp Rth A D V val ph g1 g2 grelax gflip theta' dur' data' used meas' n Wq' Hl')
    as (_ & _ & _ & cs' & Ec' & _ & Sh').
  exists cs, cs'. split; [exact Ec|]. split; [exact Ec'|]. intros layout layout' psi.
  destruct (Sh layout psi) as (content & Es & _ & Sem & _). destruct (Sh' layout' psi) as (content' & Es' & _ & Sem' & _).
  exists content, content'. split; [exact Es|]. split; [exact Es'|].
  assert (Eq : forall b, sem (map den content') psi b = sem (map den content) psi b).
  { intros b. rewrite Sem', Sem. now rewrite (own_circ_ops theta' dur' used data'), (own_circ_ops theta dur used data), Hops. }
  split; [exact Eq|]. intros EM Fi t.
  rewrite (marg_ext n _ (fun b => born (sem (map den content) psi b))) by (intros b _; now rewrite Eq).
  rewrite EM, En. fold L.
  apply (subset_is_marginal_physical W wO wI wadd wmul wsub wopp Wth L _ Mq idx t Fi).
Qed.
End Subset.
End Clauses.

Lemma simloop_clauses_vocabulary :
  forall (A D : Type) (piN : N -> N) (theta : nat -> A) (dur : nat -> D),
  (injN piN <-> forall a b, piN a = piN b -> a = b) /\
  (forall x, relabel_instr piN x = mkinstr (iname x) (map piN (iqs x)) (ics x)) /\
  (forall qc, relabel_meas piN qc = (piN (fst qc), snd qc)) /\
  (forall q, pi_nat piN q = N.to_nat (piN (N.of_nat q))) /\
  (forall c t cs, dir_kept piN (mkinstr OpCx [c; t] cs) <-> (piN c <? piN t)%N = (c <? t)%N) /\
  (forall c t cs, dir_kept piN (mkinstr OpEcr [c; t] cs) <-> (piN c <? piN t)%N = (c <? t)%N) /\
  (forall q, relabel_tok A D piN (TT1 q) = TT1 (piN q) /\ relabel_tok A D piN (TT2 q) = TT2 (piN q) /\ relabel_tok A D piN (Tp q) = Tp (piN q) /\
             relabel_tok A D piN (Ttm q) = Ttm (piN q) /\ relabel_tok A D piN (Trout q) = Trout (piN q)) /\
  (forall c t, relabel_tok A D piN (Ttint c t) = Ttint (piN c) (piN t) /\ relabel_tok A D piN (Tpint c t) = Tpint (piN c) (piN t)) /\
  (forall d a, relabel_tok A D piN (Ttime d) = Ttime d /\ relabel_tok A D piN (Ttheta a) = Ttheta a) /\
  (forall data, ops_of A D theta dur data
     = map (fun jx : nat * SimRun.instr => (theta (fst jx), dur (fst jx), snd jx))
           (filter (fun jx : nat * SimRun.instr => negb (is_measure (iname (snd jx)))) (numbered data))).
Proof. voc. Qed.
