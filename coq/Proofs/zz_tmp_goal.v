(* join_str, entry_of, list.remove and create_sparse of Model/Sparse.v in closed form.
   scat qs vs base writes vs[t] at position qs[t] of base; the 2N-character string join_str builds is
   (row ++ col) with row = scat q_used jr (scat q_n_used bi 0..0), col = scat q_used jc (scat q_n_used bi 0..0), where
   bi ++ bi is k_str and jr ++ jc is m_str.  Well-formed arguments never raise. *)
From Coq Require Import List Bool Arith ZArith NArith Lia.
Require Import QG.Base.Res QG.Base.State QG.Base.Mat QG.Model.Optimizer QG.Model.Sparse QG.Proofs.SparseBits.
Import ListNotations.

Fixpoint scat (qs : list nat) (vs : list bool) (base : bits) : bits :=
  match qs, vs with q :: qs', v :: vs' => scat qs' vs' (upd base q v) | _, _ => base end.

Lemma set_nth_upd (l : list bool) : forall i v, set_nth l i v = upd l i v.
Proof. induction l as [|h t IH]; intros [|i] v; cbn [set_nth upd]; auto. now rewrite IH. Qed.

Lemma scat_length qs : forall vs base, length (scat qs vs base) = length base.
Proof. induction qs as [|q qs IH]; intros [|v vs] base; cbn [scat]; auto. now rewrite IH, upd_length. Qed.

Lemma get_scat_notin p qs : forall vs base, ~ In p qs -> get (scat qs vs base) p = get base p.
Proof.
  induction qs as [|q qs IH]; intros [|v vs] base H; cbn [scat]; auto.
  rewrite IH by (intros K; apply H; now right). apply get_upd_ne. intros ->. apply H. now left.
Qed.

(* reading back what was written *)
Lemma gath_scat qs : forall vs base, NoDup qs -> length vs = length qs -> (forall q, In q qs -> q < length base) ->
  map (get (scat qs vs base)) qs = vs.
Proof.
  induction qs as [|q qs IH]; intros [|v vs] base ND L Hb; cbn [length] in L; try discriminate; auto.
  apply NoDup_cons_iff in ND as [Hn ND]. cbn [scat map]. f_equal.
  - rewrite get_scat_notin by assumption. apply get_upd. apply Hb. now left.
  - apply IH; auto. intros q' Hq'. rewrite upd_length. apply Hb. now right.
Qed.
Lemma gath_scat_other ps qs vs base : (forall p, In p ps -> ~ In p qs) ->
  map (get (scat qs vs base)) ps = map (get base) ps.
Proof. intros H. apply map_ext_in. intros p Hp. apply get_scat_notin. auto. Qed.

(* two strings of length n agree when they agree on a list of positions that covers 0..n-1 *)
Lemma eq_cover n (L : list nat) (b1 b2 : bits) : length b1 = n -> length b2 = n -> (forall p, p < n -> In p L) ->
  map (get b1) L = map (get b2) L -> b1 = b2.
Proof.
  intros L1 L2 C E. apply (nth_ext b1 b2 false false). { lia. } intros p Hp.
  assert (H : forall p, In p L -> get b1 p = get b2 p).
  { clear -E. induction L as [|a L IH]; intros p Hin; [destruct Hin|].
    cbn [map] in E. injection E as E1 E2. destruct Hin as [<-|Hin]; auto. }
  apply H. apply C. lia.
Qed.

Lemma app_eq_len {A} (a c b d : list A) : length a = length c -> a ++ b = c ++ d -> a = c /\ b = d.
Proof.
  revert c. induction a as [|x a IH]; intros [|y c] L E; cbn [length] in L; try discriminate; auto.
  cbn [app] in E. injection E as -> E. injection L as L. destruct (IH c L E) as [-> ->]. auto.
Qed.

(* ---- Python subscripts ---- *)
Lemma idx_nth {A} (l : list A) i d : i < length l -> idx l i = Ok (nth i l d).
Proof. intros H. unfold idx. now rewrite (nth_error_nth' l d H). Qed.

Lemma skipn_cons_nth {A} (s : list A) d : forall i, i < length s -> skipn i s = nth i s d :: skipn (S i) s.
Proof.
  induction s as [|h t IH]; intros [|i] H; cbn [length] in H; try lia.
  - reflexivity.
  - cbn [skipn nth]. apply IH. lia.
Qed.

Lemma py_index_ok len q : q < len -> py_index len (Z.of_nat q) = Ok q.
Proof.
  intros H. unfold py_index.
  replace (Z.of_nat q <? 0)%Z with false by (symmetry; apply Z.ltb_ge; lia).
  replace (Z.of_nat len <=? Z.of_nat q)%Z with false by (symmetry; apply Z.leb_gt; lia).
Show. 
