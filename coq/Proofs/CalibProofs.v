(* C20: what load_from_backend (Model/Calib.v) puts where. *)
From Coq Require Import List Bool Arith Lia.
Require Import QG.Base.Res QG.Model.DevParams QG.Model.Calib QG.Proofs.DevParamsArrays QG.Proofs.DevParamsProofs.
Import ListNotations.

Section P.
Variable V : Type.
Variable M : Type.
Variable vzero : V.
Notation backend := (backend V M).
Notation load_from_backend := (load_from_backend V M vzero).

(* ------------------------------------------------------------------ specification vocabulary *)
(* the backend's native two-qubit gate as the code picks it: the first 'ecr' or 'cx' in basis order *)
Fixpoint native_gate (l : list gname) : option gname :=
  match l with [] => None | G_ecr :: _ => Some G_ecr | G_cx :: _ => Some G_cx | G_other :: r => native_gate r end.

(* value of the ordered pair (i,j) in a property dict *)
Definition pair_eqb (a b : nat * nat) : bool := (fst a =? fst b) && (snd a =? snd b).
Definition pair_lookup (i j : nat) (es : list ((nat * nat) * (V * V))) : option (V * V) :=
  option_map snd (find (fun e => pair_eqb (fst e) (i, j)) es).

(* position k of the vector holds g(layout[k]) *)
Definition holds (g : nat -> option V) (lay : list nat) (a : option (arr V)) : Prop :=
  exists d, a = Some (mkArr [length lay] d) /\ map Some d = map g lay.

(* the domain of the property: a backend object whose calibration data cover the requested qubits *)
Definition covered (b : backend) (lay : list nat) : Prop :=
  kind b <> NotABackend /\ lay <> [] /\ cfg_dt b <> None /\
  Forall (fun q => q_t1 b q <> None /\ q_t2 b q <> None /\ q_xerr b q <> None /\ q_roerr b q <> None /\ q_rolen b q <> None) lay.

(* a property dict: distinct keys, a two-qubit gate acts on two different qubits *)
Definition dict_ok (es : list ((nat * nat) * (V * V))) : Prop :=
  NoDup (map fst es) /\ Forall (fun e => fst (fst e) <> snd (fst e)) es.

(* ------------------------------------------------------------------ lookups *)
Lemma lookups_done : forall g lay d, lookups V g lay = Done d -> map Some d = map g lay /\ length d = length lay.
Proof.
  induction lay as [|q r IH]; intros d H; cbn in *.
  - inversion H; subst. split; reflexivity.
  - destruct (g q) as [v|] eqn:E; [|discriminate].
    destruct (lookups V g r) as [vs|x] eqn:E2; cbn in H; [|discriminate].
    inversion H; subst. destruct (IH vs eq_refl) as [A B]. cbn. rewrite A, B. split; reflexivity.
Qed.

Lemma lookups_total : forall g lay, Forall (fun q => g q <> None) lay -> exists d, lookups V g lay = Done d.
Proof.
  induction lay as [|q r IH]; intros H; cbn.
  - eauto.
  - inversion H as [|? ? Hq Hr]; subst. destruct (g q) as [v|]; [|congruence].
    destruct (IH Hr) as [d E]. rewrite E. cbn. eauto.
Qed.

Lemma find_native_spec : forall (b : backend) l,
  find_native V M b l = match native_gate l with
                        | None => Done None
                        | Some g => match gate_props b g with Some e => Done (Some e) | None => Raise BackendPropertyError end
                        end.
Proof. induction l as [|g l IH]; cbn; [reflexivity|]. destruct g; cbn; try reflexivity. exact IH. Qed.

(* ------------------------------------------------------------------ the tables *)
Lemma set_nth_length : forall i v (l : list V), length (set_nth V i v l) = length l.
Proof. intros i v l. revert i. induction l; intros [|i]; cbn; auto. Qed.
Lemma nth_set_nth_eq : forall i v (l : list V) d, i < length l -> nth i (set_nth V i v l) d = v.
Proof. intros i v l. revert i. induction l; intros [|i] d H; cbn in *; try lia; auto. apply IHl. lia. Qed.
Lemma nth_set_nth_neq : forall i k v (l : list V) d, i <> k -> nth k (set_nth V i v l) d = nth k l d.
Proof. intros i k v l. revert i k. induction l; intros [|i] [|k] d H; cbn in *; try congruence; auto. Qed.

Lemma fill_length : forall m es pt, length (fst (fill V m es pt)) = length (fst pt) /\ length (snd (fill V m es pt)) = length (snd pt).
Proof.
  unfold fill. induction es as [|e es IH]; intros pt; cbn [fold_left]; [split; reflexivity|].
  destruct (IH (fill_step V m pt e)) as [A B]. rewrite A, B. destruct e as [[a b] [er ln]]. unfold fill_step.
  destruct ((m - 1 <? a) || (m - 1 <? b)); cbn [fst snd]; rewrite ?set_nth_length; split; reflexivity.
Qed.

Lemma index_inj : forall m a b i j, b < m -> j < m -> a * m + b = i * m + j -> a = i /\ b = j.
Proof. intros. assert (a = i) by nia. subst. lia. Qed.

Lemma fill_spec : forall m es pz tz, 1 <= m -> NoDup (map fst es) -> length pz = m * m -> length tz = m * m ->
  forall i j, i < m -> j < m ->
  nth (i * m + j) (fst (fill V m es (pz, tz))) vzero =
    match pair_lookup i j es with Some (e, _) => e | None => nth (i * m + j) pz vzero end /\
  nth (i * m + j) (snd (fill V m es (pz, tz))) vzero =
    match pair_lookup i j es with Some (_, l) => l | None => nth (i * m + j) tz vzero end.
Proof.
  intros m. unfold fill, pair_lookup. induction es as [|[[a b] [er ln]] es IH]; intros pz tz Hm Hnd Lp Lt i j Hi Hj.
  - cbn. split; reflexivity.
  - cbn [fold_left map fst] in *. inversion Hnd as [|? ? Hnotin Hnd']; subst.
    cbn [find fst]. unfold fill_step at 2 4. cbn [fst snd].
    destruct ((m - 1 <? a) || (m - 1 <? b)) eqn:Eout.
    + (* skipped entry: it cannot be the pair (i,j) *)
      assert (Hne : pair_eqb (a, b) (i, j) = false).
      { unfold pair_eqb. cbn. apply orb_true_iff in Eout. destruct Eout as [E|E]; apply Nat.ltb_lt in E.
        - destruct (a =? i) eqn:Ea; [apply Nat.eqb_eq in Ea; lia | reflexivity].
        - destruct (b =? j) eqn:Eb; [apply Nat.eqb_eq in Eb; lia | apply andb_false_r]. }
      rewrite Hne. apply IH; assumption.
    + apply orb_false_iff in Eout. destruct Eout as [Ea Eb]. apply Nat.ltb_ge in Ea, Eb.
      assert (Hidx : a * m + b < m * m) by nia.
      destruct (pair_eqb (a, b) (i, j)) eqn:Eq.
      * unfold pair_eqb in Eq. cbn in Eq. apply andb_true_iff in Eq. destruct Eq as [E1 E2].
        apply Nat.eqb_eq in E1, E2. subst a b. cbn [option_map snd].
        (* the remaining entries do not mention (i,j) *)
        assert (Hnone : find (fun e : nat * nat * (V * V) => pair_eqb (fst e) (i, j)) es = None).
        { clear -Hnotin. induction es as [|[[a b] v] es IH]; cbn in *; [reflexivity|].
          destruct (pair_eqb (a, b) (i, j)) eqn:E.
          - unfold pair_eqb in E. cbn in E. apply andb_true_iff in E. destruct E as [E1 E2].
            apply Nat.eqb_eq in E1, E2. subst. exfalso. apply Hnotin. left. reflexivity.
          - apply IH. intros H. apply Hnotin. right. exact H. }
        destruct (IH (set_nth V (i * m + j) er pz) (set_nth V (i * m + j) ln tz) Hm Hnd') with (i := i) (j := j) as [A B];
          rewrite ?set_nth_length; try assumption.
        rewrite Hnone in A, B. cbn in A, B. rewrite A, B.
        split; apply nth_set_nth_eq; lia.
      * destruct (IH (set_nth V (a * m + b) er pz) (set_nth V (a * m + b) ln tz) Hm Hnd') with (i := i) (j := j) as [A B];
          rewrite ?set_nth_length; try assumption.
        rewrite A, B.
        assert (Hneq : a * m + b <> i * m + j).
        { intros H. apply index_inj in H; try lia. destruct H; subst. unfold pair_eqb in Eq. cbn in Eq.
          rewrite !Nat.eqb_refl in Eq. discriminate. }
        destruct (option_map snd (find _ es)) as [[e l]|]; split; try reflexivity; apply nth_set_nth_neq; exact Hneq.
Qed.

Lemma nth_repeat_zero : forall k n, nth k (repeat vzero n) vzero = vzero.
Proof. intros k n. revert k. induction n; intros [|k]; cbn; auto. Qed.

Lemma pair_lookup_diag : forall es i, Forall (fun e : nat * nat * (V * V) => fst (fst e) <> snd (fst e)) es -> pair_lookup i i es = None.
Proof.
  intros es i H. unfold pair_lookup. induction H as [|[[a b] v] es Hab _ IH]; cbn in *; [reflexivity|].
  destruct (pair_eqb (a, b) (i, i)) eqn:E; [|exact IH].
  unfold pair_eqb in E. cbn in E. apply andb_true_iff in E. destruct E as [E1 E2]. apply Nat.eqb_eq in E1, E2. congruence.
Qed.

(* ------------------------------------------------------------------ the three statements *)
(* shape of a successful run *)
Lemma load_done_inv : forall lay (b : backend) o, load_from_backend lay b = Done o ->
  exists t1 t2 p rout dt tm es,
    lookups V (q_t1 b) lay = Done t1 /\ lookups V (q_t2 b) lay = Done t2 /\ lookups V (q_xerr b) lay = Done p /\
    lookups V (q_roerr b) lay = Done rout /\ cfg_dt b = Some dt /\ lookups V (q_rolen b) lay = Done tm /\
    lay <> [] /\ kind b <> NotABackend /\
    (exists g, native_gate (basis b) = Some g /\ gate_props b g = Some es) /\
    let m := list_max lay + 1 in
    let z := repeat vzero (m * m) in
    let pt := if 1 <? m then fill V m es (z, z) else (z, z) in
    o = mkObj lay (R8 (vec V t1) (vec V t2) (vec V p) (vec V rout) (Some (mkArr [m; m] (fst pt))) (Some (mkArr [m; m] (snd pt)))
                      (vec V tm) (vec V [dt])) (Some (meta b lay)).
Proof.
  intros lay b o H. unfold Calib.load_from_backend in H.
  assert (Hk : kind b <> NotABackend) by (destruct (kind b); congruence).
  assert (H' : obind (lookups V (q_t1 b) lay) (fun t1 =>
    obind (lookups V (q_t2 b) lay) (fun t2 =>
    obind (lookups V (q_xerr b) lay) (fun p =>
    obind (lookups V (q_roerr b) lay) (fun rout =>
    match cfg_dt b with
    | None => Raise (Py AttributeError)
    | Some dt =>
      obind (lookups V (q_rolen b) lay) (fun tm =>
      match lay with
      | [] => Raise (Py ValueError)
      | _ =>
        let m := list_max lay + 1 in
        obind (find_native V M b (basis b)) (fun info =>
        match info with
        | None => Raise (Py ValueError)
        | Some es =>
            let z := repeat vzero (m * m) in
            let pt := if 1 <? m then fill V m es (z, z) else (z, z) in
            Done (mkObj lay
                    (R8 (vec V t1) (vec V t2) (vec V p) (vec V rout)
                        (Some (mkArr [m; m] (fst pt))) (Some (mkArr [m; m] (snd pt)))
                        (vec V tm) (vec V [dt]))
                    (Some (meta b lay)))
        end)
      end)
    end)))) = Done o) by (destruct (kind b); [exact H | exact H | discriminate]).
  clear H.
  destruct (lookups V (q_t1 b) lay) as [t1|] eqn:E1; cbn in H'; [|discriminate].
  destruct (lookups V (q_t2 b) lay) as [t2|] eqn:E2; cbn in H'; [|discriminate].
  destruct (lookups V (q_xerr b) lay) as [p|] eqn:E3; cbn in H'; [|discriminate].
  destruct (lookups V (q_roerr b) lay) as [rout|] eqn:E4; cbn in H'; [|discriminate].
  destruct (cfg_dt b) as [dt|] eqn:E5; [|discriminate].
  destruct (lookups V (q_rolen b) lay) as [tm|] eqn:E6; cbn in H'; [|discriminate].
  assert (Hl : lay <> []) by (destruct lay; [discriminate | congruence]).
  assert (H'' : obind (find_native V M b (basis b)) (fun info =>
        match info with
        | None => Raise (Py ValueError)
        | Some es =>
            let m := list_max lay + 1 in
            let z := repeat vzero (m * m) in
            let pt := if 1 <? m then fill V m es (z, z) else (z, z) in
            Done (mkObj lay
                    (R8 (vec V t1) (vec V t2) (vec V p) (vec V rout)
                        (Some (mkArr [m; m] (fst pt))) (Some (mkArr [m; m] (snd pt)))
                        (vec V tm) (vec V [dt]))
                    (Some (meta b lay)))
        end) = Done o) by (destruct lay; [congruence | exact H']).
  clear H'. rewrite find_native_spec in H''.
  destruct (native_gate (basis b)) as [g|] eqn:Eg; [|discriminate].
  destruct (gate_props b g) as [es|] eqn:Ees; [|discriminate]. cbn in H''.
  exists t1, t2, p, rout, dt, tm, es. repeat (split; [first [assumption | reflexivity]|]).
  split; [exists g; split; [reflexivity | exact Ees]|].
  cbv zeta. inversion H''. reflexivity.
Qed.

(* per_qubit: position k of T1, T2, p, rout, tm holds the backend's value of physical qubit layout[k]; dt holds dt *)
Lemma per_qubit : forall lay (b : backend) o, load_from_backend lay b = Done o ->
  layout o = lay /\
  holds (q_t1 b) lay (get8 T1 (fields o)) /\ holds (q_t2 b) lay (get8 T2 (fields o)) /\
  holds (q_xerr b) lay (get8 P (fields o)) /\ holds (q_roerr b) lay (get8 Rout (fields o)) /\
  holds (q_rolen b) lay (get8 Tm (fields o)) /\
  (exists dt, cfg_dt b = Some dt /\ get8 Dt (fields o) = Some (mkArr [1] [dt])).
Proof.
  intros lay b o H. destruct (load_done_inv _ _ _ H) as (t1 & t2 & p & rout & dt & tm & es & E1 & E2 & E3 & E4 & E5 & E6 & _ & _ & _ & Eo).
  cbv zeta in Eo. subst o. cbn.
  apply lookups_done in E1, E2, E3, E4, E6.
  destruct E1 as [A1 L1], E2 as [A2 L2], E3 as [A3 L3], E4 as [A4 L4], E6 as [A6 L6].
  unfold holds, vec. split; [reflexivity|].
  split; [exists t1; rewrite <- L1; split; [reflexivity | assumption]|].
  split; [exists t2; rewrite <- L2; split; [reflexivity | assumption]|].
  split; [exists p; rewrite <- L3; split; [reflexivity | assumption]|].
  split; [exists rout; rewrite <- L4; split; [reflexivity | assumption]|].
  split; [exists tm; rewrite <- L6; split; [reflexivity | assumption]|].
  exists dt. split; [exact E5 | reflexivity].
Qed.

(* tables: size max(layout)+1 in both directions; entry [i][j] is the native gate's (error, length) when the ordered
   pair (i,j) has a calibration of that gate, and 0 otherwise *)
Lemma tables : forall lay (b : backend) o, load_from_backend lay b = Done o ->
  exists g es pd td, native_gate (basis b) = Some g /\ gate_props b g = Some es /\
    let m := list_max lay + 1 in
    get8 Pint (fields o) = Some (mkArr [m; m] pd) /\ get8 Tint (fields o) = Some (mkArr [m; m] td) /\
    length pd = m * m /\ length td = m * m /\
    (dict_ok es -> forall i j, i < m -> j < m ->
       nth (i * m + j) pd vzero = match pair_lookup i j es with Some (e, _) => e | None => vzero end /\
       nth (i * m + j) td vzero = match pair_lookup i j es with Some (_, l) => l | None => vzero end).
Proof.
  intros lay b o H. destruct (load_done_inv _ _ _ H) as (t1 & t2 & p & rout & dt & tm & es & _ & _ & _ & _ & _ & _ & _ & _ & [g [Eg Ees]] & Eo).
  cbv zeta in Eo. subst o. cbn [fields get8 rPint rTint].
  set (m := list_max lay + 1). set (z := repeat vzero (m * m)).
  exists g, es. eexists. eexists. split; [exact Eg|]. split; [exact Ees|]. cbv zeta.
  split; [reflexivity|]. split; [reflexivity|].
  assert (Lz : length z = m * m) by apply repeat_length.
  destruct (1 <? m) eqn:Em.
  - destruct (fill_length m es (z, z)) as [A B]. cbn in A, B. split; [rewrite A; exact Lz|]. split; [rewrite B; exact Lz|].
    intros [Hnd _] i j Hi Hj.
    destruct (fill_spec m es z z ltac:(lia) Hnd Lz Lz i j Hi Hj) as [A' B']. rewrite A', B'.
    unfold z. rewrite nth_repeat_zero. split; reflexivity.
  - apply Nat.ltb_ge in Em. assert (m = 1) by lia. cbn [fst snd]. split; [exact Lz|]. split; [exact Lz|].
    intros [_ Hdiag] i j Hi Hj. assert (i = 0) by lia. assert (j = 0) by lia. subst i j.
    rewrite (pair_lookup_diag es 0 Hdiag). unfold z. rewrite nth_repeat_zero. split; reflexivity.
Qed.

(* acceptance: on the property's domain, with a supported native gate, the import succeeds *)
Lemma accepts : forall lay (b : backend) g es, covered b lay -> native_gate (basis b) = Some g -> gate_props b g = Some es ->
  exists o, load_from_backend lay b = Done o.
Proof.
  intros lay b g es (Hk & Hl & Hdt & Hq) Eg Ees. unfold Calib.load_from_backend.
  destruct (lookups_total (q_t1 b) lay) as [t1 E1]; [eapply Forall_impl; [|exact Hq]; cbn; tauto|].
  destruct (lookups_total (q_t2 b) lay) as [t2 E2]; [eapply Forall_impl; [|exact Hq]; cbn; tauto|].
  destruct (lookups_total (q_xerr b) lay) as [p E3]; [eapply Forall_impl; [|exact Hq]; cbn; tauto|].
  destruct (lookups_total (q_roerr b) lay) as [rout E4]; [eapply Forall_impl; [|exact Hq]; cbn; tauto|].
  destruct (lookups_total (q_rolen b) lay) as [tm E6]; [eapply Forall_impl; [|exact Hq]; cbn; tauto|].
  rewrite E1, E2, E3, E4. cbn. destruct (cfg_dt b) as [dt|]; [|congruence]. rewrite E6. cbn.
  rewrite find_native_spec, Eg, Ees. cbn.
  destruct lay; [congruence|]. destruct (kind b); try congruence; eauto.
Qed.

(* rejects: an object of an unsupported type, or a backend without 'ecr'/'cx' in its basis, gives ValueError *)
Lemma rejects_type : forall lay (b : backend), kind b = NotABackend -> load_from_backend lay b = Raise (Py ValueError).
Proof. intros lay b H. unfold Calib.load_from_backend. rewrite H. reflexivity. Qed.

Lemma rejects_gate : forall lay (b : backend), covered b lay -> native_gate (basis b) = None ->
  load_from_backend lay b = Raise (Py ValueError).
Proof.
  intros lay b (Hk & Hl & Hdt & Hq) Eg. unfold Calib.load_from_backend.
  destruct (lookups_total (q_t1 b) lay) as [t1 E1]; [eapply Forall_impl; [|exact Hq]; cbn; tauto|].
  destruct (lookups_total (q_t2 b) lay) as [t2 E2]; [eapply Forall_impl; [|exact Hq]; cbn; tauto|].
  destruct (lookups_total (q_xerr b) lay) as [p E3]; [eapply Forall_impl; [|exact Hq]; cbn; tauto|].
  destruct (lookups_total (q_roerr b) lay) as [rout E4]; [eapply Forall_impl; [|exact Hq]; cbn; tauto|].
  destruct (lookups_total (q_rolen b) lay) as [tm E6]; [eapply Forall_impl; [|exact Hq]; cbn; tauto|].
  rewrite E1, E2, E3, E4. cbn. destruct (cfg_dt b) as [dt|]; [|congruence]. rewrite E6. cbn.
  rewrite find_native_spec, Eg. cbn.
  destruct lay; [congruence|]. destruct (kind b); try congruence; reflexivity.
Qed.

(* the imported object is a well-shaped parameter object for the layout: with distinct labels it is in the domain of
   C15's round-trip theorems *)
Lemma load_params_ok : forall lay (b : backend) o, NoDup lay -> load_from_backend lay b = Done o -> params_ok V M o.
Proof.
  intros lay b o Hnd H. destruct (load_done_inv _ _ _ H) as (t1 & t2 & p & rout & dt & tm & es & E1 & E2 & E3 & E4 & E5 & E6 & Hl & _ & _ & Eo).
  cbv zeta in Eo. subst o. unfold params_ok. cbn [layout fields metadata].
  apply lookups_done in E1, E2, E3, E4, E6.
  destruct E1 as [_ L1], E2 as [_ L2], E3 as [_ L3], E4 as [_ L4], E6 as [_ L6].
  split; [destruct lay; [congruence | cbn; lia]|]. split; [exact Hnd|]. split; [discriminate|].
  set (m := list_max lay + 1). set (z := repeat vzero (m * m)).
  assert (Lz : length z = m * m) by apply repeat_length.
  assert (Lf : length (fst (if 1 <? m then fill V m es (z, z) else (z, z))) = m * m /\
               length (snd (if 1 <? m then fill V m es (z, z) else (z, z))) = m * m).
  { destruct (1 <? m); [|split; exact Lz]. destruct (fill_length m es (z, z)) as [A B]. cbn in A, B. rewrite A, B. split; exact Lz. }
  destruct Lf as [Lf1 Lf2].
  intros k. destruct k; cbn; unfold vec; eexists; (split; [reflexivity|]); cbn; split; try reflexivity; try congruence; assumption.
Qed.

End P.
