(* Soundness of the boolean checker of Model/Composite.v w.r.t. the readable specification. *)
From Coq Require Import QArith List Bool Arith Permutation Lia.
Require Import QG.Sym.Expr QG.Sym.ExprEq QG.Model.GateModel QG.Model.Composite.
Import ListNotations.

Lemma call_ok_sound pcr q0 q1 c s : call_ok pcr q0 q1 c s = true -> call_spec pcr q0 q1 c s.
Proof.
  unfold call_ok, call_spec. destruct (c_fac c), s; try discriminate;
  destruct (c_args c) as [|a0 [|a1 [|a2 [|a3 [|a4 [|a5 [|a6 [|a7 [|a8 l]]]]]]]]]; try discriminate; intros H;
  repeat match goal with H : _ && _ = true |- _ => apply andb_prop in H; destruct H end;
  repeat match goal with H : expr_beq _ _ = true |- _ => apply expr_beq_eq in H; subst end;
  repeat match goal with H : phase_own_b _ _ _ = true |- _ => unfold phase_own_b in H; apply andb_prop in H; destruct H as [?Hm ?Hn]; apply negb_true_iff in Hn end;
  unfold phase_own; eauto 8.
Qed.

Lemma insert_nat_perm x l : Permutation (insert_nat x l) (x :: l).
Proof.
  induction l as [|y r IH]; simpl; auto. destruct (Nat.leb x y); auto.
  rewrite IH. apply perm_swap.
Qed.
Lemma sort_nat_perm l : Permutation (sort_nat l) l.
Proof. induction l as [|x l IH]; simpl; auto. rewrite insert_nat_perm. now constructor. Qed.
Lemma list_nat_eqb_eq a : forall b, list_nat_eqb a b = true -> a = b.
Proof.
  induction a as [|x a IH]; intros [|y b] H; simpl in H; try discriminate; auto.
  apply andb_prop in H as [H1 H2]. apply Nat.eqb_eq in H1. f_equal; auto.
Qed.

Theorem own_params_ok_sound cp pcr q0 q1 : own_params_ok cp pcr q0 q1 = true -> own_params_spec cp pcr q0 q1.
Proof.
  unfold own_params_ok, own_params_spec. intros H.
  apply andb_prop in H as [H H3]. apply andb_prop in H as [H1 H2].
  split; [|split].
  - intros E. apply negb_true_iff, Nat.eqb_neq in H1. apply H1.
    rewrite <- (map_length fst). now rewrite E.
  - apply list_nat_eqb_eq in H2. rewrite <- H2. symmetry. apply sort_nat_perm.
  - intros k s Hin. rewrite forallb_forall in H3. specialize (H3 _ Hin). simpl in H3.
    destruct (nth_error (cp_calls cp) k) as [c|]; [|discriminate].
    exists c. split; auto. now apply call_ok_sound.
Qed.
