(* C03 — the composed end-to-end theorem for the LAYERED circuit classes (StandardCircuit / EfficientCircuit / OneCircuit =
   AlternativeCircuit with the Standard / Efficient / ForOnes backend): C14's run model around the noise-free layered shot
   nf_perform_layered returns, under every key, the normalised sum of the IDEAL circuit's Born weights over the basis states whose
   bits at the measured qubits' ranks spell the key.
   The shot is the whole chain of models: the calls of the layered branch of the loop (Model/SimLoopLayered.v) -> the builder state
   machine lstep (Model/Builders.v, C11) on the noise-free tokens -> the stored layers -> the class's backend model (Model/Backends.v,
   C01) -> Born rule.  Composition of: SimLoopE2E.e2e_core (C14 marginal_correct + C08 layout_is_rank), translate_layered_wf,
   shot_exec / shot_layers_wf / shot_layers_sem / backend_run_spec (C01 std_spec / eff_spec_exact / ones_spec) and
   noise_free_born_index.  Nothing of those is re-proved here. *)
From Coq Require Import List Bool Arith NArith ZArith Lia Reals Lra.
Require Import QG.Base.Res QG.Base.State QG.Model.FixCounts QG.Model.SimRun QG.Model.Backends QG.Model.Builders.
Require Import QG.Model.NoiseFreeRun QG.Model.SimLoop QG.Model.SimLoopLayered.
Require Import QG.Proofs.OptimizerSem QG.Proofs.BackendsSpec.
Require Import QG.Proofs.FixCountsKeys QG.Proofs.FixCountsProofs QG.Proofs.SimRunKeys QG.Proofs.SimRunProofs.
Require Import QG.Proofs.RelabelRank QG.Proofs.RelabelLayout QG.Proofs.FrameSim QG.Proofs.NoiseFreeRun QG.Proofs.NoiseFreeRunBuilder.
Require Import QG.Proofs.SimLoop QG.Proofs.SimLoopE2E.
Require Import QG.Proofs.SimLoopLayeredBuilder QG.Proofs.SimLoopLayeredCalls QG.Proofs.SimLoopLayered.
Import ListNotations.

(* ================================================================== the layered shot *)
Section Shot.
Variable T : Type.
Variables (rO rI : T) (radd rmul : T -> T -> T) (ropp : T -> T).
Variables A D : Type.
Variable K : consts T A.
Variable ph : A -> Z * Z.                          (* how the builder records an rz angle symbolically; irrelevant for the result *)
Variable is_id : Backends.entry T -> bool.         (* BackendForOnes' identity test *)
Variable V : Type.
Variable born : T -> V.
Notation M := (mat T).
(* _single_shot (492-518) with the noise-free gate set and a layered class, as the `perform` argument of SimRun.run_model:
   the calls of the loop on the layout and nqubit run() derived; a fresh AlternativeCircuit(nqubit, gates, backend) executes them
   (shot_ops: every call with the matrix the noise-free gate set returns as its token); statevector(psi0) hands the stored
   _mp_list to the class's backend; Born rule entry by entry, in the order of the basis states. *)
Definition nf_perform_layered (bk : backend_kind) (theta : nat -> A) (dur : nat -> D) (data : list qinstr) (psi0 : state T)
  (f : front_out) : res (list V) :=
  gs <- translate_groups A D theta dur (f_used f) data ;;
  let n := Z.to_nat (f_nqubit f) in
  r <- lexec M (mid2 T rO rI) (l_init M n bk) (shot_ops T rO rI radd rmul ropp A D K ph n gs) ;;
  out <- backend_run T rI radd rmul is_id bk n (map (map (ent_den T)) (l_content M (fst r))) psi0 ;;
  Ok (map (fun b => born (out b)) (binary_vector n)).
End Shot.

Local Open Scope R_scope.
Section Ring.
Variable T : Type.
Variables (rO rI : T) (radd rmul rsub : T -> T -> T) (ropp : T -> T).
Variable Rth : ring_theory rO rI radd rmul rsub ropp eq.
Variable A : Type.
Variable K : consts T A.
Hypothesis OK : consts_ok T rI rmul ropp A K.
Variable cj : T -> T.
Hypothesis CJ : conj_ok T rI rmul ropp A K cj.
Variable born : T -> R.
Hypothesis born_nrm : forall x y, nrm T rmul cj x = nrm T rmul cj y -> born x = born y.
Hypothesis born_nonneg : forall x, 0 <= born x.
Variable D : Type.
Variables (theta : nat -> A) (dur : nat -> D).
Variable ph : A -> Z * Z.
Variable is_id : Backends.entry T -> bool.
Hypothesis is_id_sound : forall e, is_id e = true -> exists a, e = Backends.En2 a /\ forall r c, a r c = id2 T rO rI r c.
Notation sem := (sem T radd rmul).
Notation ideal_items := (ideal_items T rO rI radd rmul ropp A K).
Notation nf_perform_layered := (nf_perform_layered T rO rI radd rmul ropp A D K ph is_id R born).

Theorem end_to_end_layered (bk : backend_kind) (a : args) (f : front_out) (data : list qinstr) (psi0 : state T) :
  front a = Ok f -> a_circ a = CData true data -> Forall wf_qiskit data ->
  NoDup (map fst (f_meas f)) -> f_nqubit f = Z.of_nat (f_n f) ->
  f_used f = id_layout (f_n f) -> Forall adjacent_q data -> backend_ok bk (f_n f) ->
  exists prog, translate_layered A D theta dur (f_used f) data = Ok prog /\
    Forall (NoiseFreeRun.wf_instr (f_n f)) prog /\ Forall NoiseFreeRun.adjacent_instr prog /\
    let ideal := fun b => born (sem (ideal_items prog) psi0 b) in
    let total := rsum (map ideal (binary_vector (f_n f))) in
    (0 < total ->
     exists out, run_model R 0 Rplus Rdiv rpos a (nf_perform_layered bk theta dur data psi0) = Ok out /\
       forall t, length t = length (f_meas f) ->
         lookup R t out = Some (marginal_sum (fun b => ideal b / total) (f_n f) (meas_ranks f) t)).
Proof.
  intros Hf Hc W NDm Hnq Hid Ad Hbk.
  pose proof (layout_of_front a f data Hf Hc) as Hl.
  destruct (translate_layered_wf A D theta dur data _ _ _ W Hl Hid Ad) as (gs & Egs & Fw & Fa & _ & Et & Wp & Ap).
  exists (nf_prog_groups A D gs). split; [exact Et|]. split; [exact Wp|]. split; [exact Ap|]. cbv zeta. intros Hpos.
  pose proof (n_pos a f data Hf Hc W NDm) as Hn.
  destruct (shot_exec T rO rI radd rmul ropp A D K ph (f_n f) bk gs ltac:(lia) Fw) as (s' & Ex & Hd & _ & _).
  destruct (backend_run_spec T rO rI radd rmul rsub ropp Rth is_id is_id_sound bk (f_n f) (shot_layers T rO rI radd rmul ropp A D K (f_n f) gs) psi0
              ltac:(lia)) as (out & Eo & So); auto.
  { unfold shot_layers. intros Z. apply app_eq_nil in Z as [_ Z]. discriminate. }
  { now apply (shot_layers_wf T rO rI radd rmul ropp A D K). }
  apply (e2e_core a f data Hf Hc W NDm (nf_perform_layered bk theta dur data psi0)
           (fun b => born (out b))
           (fun b => born (sem (ideal_items (nf_prog_groups A D gs)) psi0 b))).
  - unfold SimLoopLayeredE2E.nf_perform_layered. rewrite Egs. cbn [rbind]. rewrite Hnq, Nat2Z.id, Ex. cbn [rbind fst].
    rewrite Hd, Eo. cbn [rbind]. reflexivity.
  - intros b Hb. apply born_nrm. rewrite (So b Hb).
    rewrite (shot_layers_sem T rO rI radd rmul rsub ropp Rth A D K (f_n f) gs psi0 Fw Fa b).
    exact (noise_free_born_index T rO rI radd rmul rsub ropp Rth A K OK cj CJ (f_n f) _ psi0 Wp b Hb).
  - intros b. apply born_nonneg.
  - exact Hpos.
Qed.
End Ring.
