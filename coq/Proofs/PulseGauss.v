(* C13 — Gaussian pulses: theorems about the GENERATED formulas (Gen/GenPulse.v) under the trusted facts about
   scipy.stats.norm (for the given loc, scale): cdf' = pdf, pdf >= 0, pdf continuous. *)
From Coq Require Import Reals Lra List.
From Coquelicot Require Import Coquelicot.
Require Import QG.Model.Pulse QG.Gen.GenPulse.
Open Scope R_scope.

Section Gauss.
Variables pdf cdf : R -> R -> R -> R.
Variables loc scale : R.
(* trusted facts about scipy.stats.norm at these loc, scale *)
Hypothesis cdf_derive : forall x, is_derive (fun y => cdf y loc scale) x (pdf x loc scale).
Hypothesis pdf_nonneg : forall x, 0 <= pdf x loc scale.
Hypothesis pdf_cont : forall x, continuous (fun y => pdf y loc scale) x.
(* the constructor's check *)
Hypothesis accepted : validate_inputs_ok cdf loc scale.

Let f := GaussianPulse_waveform pdf cdf loc scale.
Let F := GaussianPulse_parametrization cdf loc scale.
Let D := validate_denominator cdf loc scale.

Lemma cdf_RInt (a b : R) : is_RInt (fun y => pdf y loc scale) a b (cdf b loc scale - cdf a loc scale).
Proof.
  apply (is_RInt_derive (fun y => cdf y loc scale) (fun y => pdf y loc scale)).
  - intros x _. apply cdf_derive.
  - intros x _. apply pdf_cont.
Qed.

Lemma cdf_mono (a b : R) : a <= b -> cdf a loc scale <= cdf b loc scale.
Proof.
  intros Hab.
  assert (0 <= cdf b loc scale - cdf a loc scale).
  { apply (is_RInt_ge_0 (fun y => pdf y loc scale) a b _ Hab (cdf_RInt a b)). intros x _. apply pdf_nonneg. }
  lra.
Qed.

Lemma D_pos : D > 0.
Proof.
  assert (Hne : D <> 0) by exact accepted.
  assert (Hge : cdf 0 loc scale <= cdf 1 loc scale) by (apply cdf_mono; lra).
  unfold D, validate_denominator in *. lra.
Qed.

Lemma D_eq : D = cdf 1 loc scale - cdf 0 loc scale.
Proof. reflexivity. Qed.

Lemma f_eq (x : R) : f x = pdf x loc scale / D.
Proof. reflexivity. Qed.

Lemma F_eq (x : R) : F x = (cdf x loc scale - cdf 0 loc scale) / D.
Proof. reflexivity. Qed.

Lemma F_0 : F 0 = 0.
Proof. rewrite F_eq. generalize D_pos. intros. field. lra. Qed.

Lemma F_1 : F 1 = 1.
Proof.
  generalize D_pos. unfold F, GaussianPulse_parametrization, gaussian_parametrization, D, validate_denominator.
  intros. field. lra.
Qed.

Lemma f_nonneg (x : R) : 0 <= f x.
Proof.
  rewrite f_eq. apply Rmult_le_pos. apply pdf_nonneg. left. apply Rinv_0_lt_compat. apply D_pos.
Qed.

Lemma F_derive (x : R) : is_derive F x (f x).
Proof.
  apply (is_derive_ext (fun y => / D * (cdf y loc scale - cdf 0 loc scale))).
  - intros t. rewrite F_eq. unfold Rdiv. apply Rmult_comm.
  - replace (f x) with (scal (/ D) (pdf x loc scale - 0)).
    2:{ rewrite f_eq. unfold scal; simpl; unfold mult; simpl. unfold Rdiv. ring. }
    apply (is_derive_scal (fun y => cdf y loc scale - cdf 0 loc scale) x (/ D)).
    apply (is_derive_minus (fun y => cdf y loc scale) (fun _ => cdf 0 loc scale) x).
    + apply cdf_derive.
    + apply (@is_derive_const R_AbsRing R_NormedModule).
Qed.

Lemma f_cont (x : R) : continuous f x.
Proof.
  apply (continuous_ext (fun y => / D * pdf y loc scale)).
  - intros t. rewrite f_eq. unfold Rdiv. apply Rmult_comm.
  - apply (continuous_scal_r (/ D) (fun y => pdf y loc scale)). apply pdf_cont.
Qed.

Lemma F_cont (x : R) : continuous F x.
Proof. apply (ex_derive_continuous F). exists (f x). apply F_derive. Qed.

Lemma f_RInt (a b : R) : is_RInt f a b (F b - F a).
Proof.
  apply (is_RInt_derive F f).
  - intros x _. apply F_derive.
  - intros x _. apply f_cont.
Qed.

Lemma F_mono (x y : R) : x <= y -> F x <= F y.
Proof.
  intros Hxy.
  assert (0 <= F y - F x).
  { apply (is_RInt_ge_0 f x y _ Hxy (f_RInt x y)). intros t _. apply f_nonneg. }
  lra.
Qed.

Lemma f_normalised : is_RInt f 0 1 1.
Proof.
  assert (E : is_RInt f 0 1 (F 1 - F 0)) by apply f_RInt.
  rewrite F_0, F_1 in E. replace (1 - 0) with 1 in E by ring. exact E.
Qed.

Lemma F_running (x : R) : is_RInt f 0 x (F x).
Proof.
  assert (E : is_RInt f 0 x (F x - F 0)) by apply f_RInt.
  rewrite F_0 in E. replace (F x - 0) with (F x) in E by ring. exact E.
Qed.

Lemma F_range (x : R) : 0 <= x <= 1 -> 0 <= F x <= 1.
Proof.
  intros [H0 H1]. generalize (F_mono 0 x H0) (F_mono x 1 H1). rewrite F_0, F_1. tauto.
Qed.

Lemma gaussian_valid_pair : valid_pair f F.
Proof.
  unfold valid_pair. split; [| split; [| split; [| split; [| split]]]].
  - intros x _. apply f_nonneg.
  - apply f_normalised.
  - apply F_0.
  - apply F_1.
  - intros x y [_ Hxy] _. now apply F_mono.
  - intros x _. apply F_running.
Qed.

End Gauss.
