(* C13 — the validation predicates of Pulse.__init__ (hand model Model/Pulse.v): completeness on exactly valid pairs,
   soundness in the eps/grid reading, and a refutation of the literal reading. *)
From Coq Require Import Reals Lra Lia List.
From Coquelicot Require Import Coquelicot.
Require Import QG.Model.Pulse.
Import ListNotations.
Open Scope R_scope.

Lemma linspace_in (lo hi : R) (n : nat) (x : R) :
  (2 <= n)%nat -> lo <= hi -> In x (linspace lo hi n) -> lo <= x <= hi.
Proof.
  intros Hn Hlh Hin. unfold linspace in Hin. apply in_map_iff in Hin. destruct Hin as [i [Hx Hi]].
  apply in_seq in Hi. subst x.
  assert (Hm : 0 < INR (n - 1)). { apply lt_0_INR. lia. }
  assert (Hi0 : 0 <= INR i) by apply pos_INR.
  assert (Hi1 : INR i <= INR (n - 1)). { apply le_INR. lia. }
  set (m := INR (n - 1)) in *. set (d := hi - lo).
  assert (Hd : 0 <= d) by (unfold d; lra).
  assert (Hq : 0 <= d / m). { apply Rmult_le_pos. exact Hd. left. now apply Rinv_0_lt_compat. }
  split.
  - assert (0 <= INR i * (d / m)) by (apply Rmult_le_pos; assumption). lra.
  - assert (INR i * (d / m) <= m * (d / m)) by (apply Rmult_le_compat_r; assumption).
    replace (m * (d / m)) with d in H by (field; lra). unfold d in *. lra.
Qed.

Lemma linspace_ends (lo hi : R) (n : nat) : (2 <= n)%nat -> In lo (linspace lo hi n) /\ In hi (linspace lo hi n).
Proof.
  intros Hn. unfold linspace. split; apply in_map_iff.
  - exists 0%nat. split. simpl. ring. apply in_seq. lia.
  - exists (n - 1)%nat. split. 2:{ apply in_seq. lia. }
    assert (Hm : 0 < INR (n - 1)). { apply lt_0_INR. lia. }
    field. lra.
Qed.

Section V.
Variable eps : R.
Variable n : nat.
Hypothesis eps_pos : 0 < eps.
Hypothesis eps_small : eps <= 1 / 2.
Hypothesis n_ge_2 : (2 <= n)%nat.

(* an exactly valid pair passes all three checks (quad exact) *)
Lemma validate_complete (f F : R -> R) : valid_pair f F -> validate eps n f F.
Proof.
  intros [Hf [Hint [F0 [F1 [Hmono Hrun]]]]].
  unfold validate, pulse_is_valid, parametrization_is_valid, are_compatible.
  split; [| split].
  - split.
    + rewrite (is_RInt_unique f 0 1 1 Hint). replace (1 - 1) with 0 by ring. rewrite Rabs_R0. exact eps_pos.
    + apply Forall_forall. intros x Hx. apply Rle_ge. apply Hf.
      apply (linspace_in 0 1 n x n_ge_2); [lra | exact Hx].
  - split; [| split].
    + rewrite F0. replace (0 - 0) with 0 by ring. rewrite Rabs_R0. exact eps_pos.
    + rewrite F1. replace (1 - 1) with 0 by ring. rewrite Rabs_R0. exact eps_pos.
    + apply Forall_forall. intros x Hx. apply Rle_ge.
      assert (Hr : 0 <= x <= 1 - eps) by (apply (linspace_in 0 (1 - eps) n x n_ge_2); [lra | exact Hx]).
      apply Hmono; lra.
  - apply Forall_forall. intros x Hx.
    assert (Hr : eps <= x <= 1 - eps) by (apply (linspace_in eps (1 - eps) n x n_ge_2); [lra | exact Hx]).
    rewrite (is_RInt_unique f 0 x (F x)). 2:{ apply Hrun. lra. }
    replace (F x - F x) with 0 by ring. rewrite Rabs_R0. lra.
Qed.

(* soundness in the eps/grid reading: a pair that passes is within eps at every sampled place *)
Lemma validate_sound_at_grid (f F : R -> R) : validate eps n f F ->
  Rabs (RInt f 0 1 - 1) < eps /\
  (forall x, In x (linspace 0 1 n) -> 0 <= f x) /\
  Rabs (F 0) < eps /\ Rabs (F 1 - 1) < eps /\
  (forall x, In x (linspace 0 (1 - eps) n) -> F x <= F (x + eps)) /\
  (forall x, In x (linspace eps (1 - eps) n) -> Rabs (RInt f 0 x - F x) <= eps).
Proof.
  intros [[H1 H2] [[H3 [H4 H5]] H6]].
  split; [exact H1 |]. split.
  { intros x Hx. apply Rge_le. revert x Hx. now apply Forall_forall. }
  split. { replace (F 0) with (F 0 - 0) by ring. exact H3. }
  split; [exact H4 |]. split.
  { intros x Hx. apply Rge_le. revert x Hx. now apply Forall_forall. }
  intros x Hx. apply Rnot_gt_le. revert x Hx. now apply Forall_forall.
Qed.

(* ... equivalently: a pair that is off by more than eps at a sampled place is rejected *)
Lemma validate_rejects (f F : R -> R) :
  ( Rabs (RInt f 0 1 - 1) >= eps \/
    (exists x, In x (linspace 0 1 n) /\ f x < 0) \/
    Rabs (F 0) >= eps \/ Rabs (F 1 - 1) >= eps \/
    (exists x, In x (linspace 0 (1 - eps) n) /\ F (x + eps) < F x) \/
    (exists x, In x (linspace eps (1 - eps) n) /\ Rabs (RInt f 0 x - F x) > eps) ) ->
  ~ validate eps n f F.
Proof.
  intros Hbad Hv. destruct (validate_sound_at_grid f F Hv) as [A [B [C [D [E G]]]]].
  destruct Hbad as [H | [[x [Hx H]] | [H | [H | [[x [Hx H]] | [x [Hx H]]]]]]].
  - lra.
  - specialize (B x Hx). lra.
  - lra.
  - lra.
  - specialize (E x Hx). lra.
  - specialize (G x Hx). lra.
Qed.

(* the literal reading "every pair that passes is exactly valid" is false: f = 1, F x = x + eps/2 passes *)
Lemma validate_sound_literal_refuted : ~ validate_sound_literal eps n.
Proof.
  intros Hlit.
  assert (Hv : validate eps n (fun _ => 1) (fun x => x + eps / 2)).
  { assert (Hc : forall x, RInt (fun _ : R => 1) 0 x = x).
    { intros x. rewrite (is_RInt_unique (fun _ : R => 1) 0 x x). reflexivity.
      replace x with (scal (x - 0) 1) at 2 by (unfold scal; simpl; unfold mult; simpl; ring).
      apply (@is_RInt_const R_CompleteNormedModule). }
    unfold validate, pulse_is_valid, parametrization_is_valid, are_compatible.
    split; [| split].
    - split.
      + rewrite Hc. replace (1 - 1) with 0 by ring. rewrite Rabs_R0. exact eps_pos.
      + apply Forall_forall. intros x _. lra.
    - split; [| split].
      + replace (0 + eps / 2 - 0) with (eps / 2) by ring. rewrite Rabs_pos_eq; lra.
      + replace (1 + eps / 2 - 1) with (eps / 2) by ring. rewrite Rabs_pos_eq; lra.
      + apply Forall_forall. intros x _. lra.
    - apply Forall_forall. intros x _. rewrite Hc.
      replace (x - (x + eps / 2)) with (- (eps / 2)) by ring. rewrite Rabs_Ropp, Rabs_pos_eq; lra. }
  destruct (Hlit _ _ Hv) as [_ [_ [F0 _]]]. lra.
Qed.

End V.
