(* C07 — semantic composition: from the reflection lemmas (C07Refl) to statements about sampled matrices,
   with scipy.linalg.expm abstract (Section hypotheses = the trusted facts about it). *)
From Coq Require Import QArith Qreals List String Bool Reals Lra.
From Coquelicot Require Import Complex.
Require Import QG.Sym.Expr QG.Sym.ExprEq QG.Sym.Norm QG.Sym.Mat QG.Sym.Sound QG.Sym.Subst.
Require Import QG.Model.GateModel QG.Model.Composite QG.Proofs.GateRefl QG.Proofs.MatAlg QG.Proofs.C07Refl QG.Gen.GenGates.
Import ListNotations.
Close Scope Q_scope.
Open Scope C_scope.

(* the value of a sampled elementary gate: U @ expm(D) @ expm(N)  (the tracer checks the source has exactly this shape) *)
Definition sample (expm : Cmat -> Cmat) (rho : env) (p : epath) : Cmat :=
  Cm_mul (Cm_mul (interpM rho (ep_U p)) (expm (interpM rho (ep_D p)))) (expm (interpM rho (ep_N p))).

Lemma RtoC_Q0 : RtoC (Q2R (0#1)) = 0. Proof. unfold Q2R. simpl. f_equal. lra. Qed.
Lemma RtoC_Q1 : RtoC (Q2R (1#1)) = 1. Proof. unfold Q2R. simpl. f_equal. lra. Qed.
Lemma interp_zero2 rho : interpM rho (zero_mat 2) = Z2.
Proof. cbn. rewrite RtoC_Q0. reflexivity. Qed.
Lemma interp_zero4 rho : interpM rho (zero_mat 4) = Z4.
Proof. cbn. rewrite RtoC_Q0. reflexivity. Qed.
Lemma interp_id2 rho : interpM rho (id_mat 2) = I2.
Proof. cbn. rewrite RtoC_Q0, RtoC_Q1. reflexivity. Qed.
Lemma interp_id4 rho : interpM rho (id_mat 4) = I4.
Proof. cbn. rewrite RtoC_Q0, RtoC_Q1. reflexivity. Qed.

(* leaves of the right shape interpret to square matrices *)
Definition is_leaf2 (m : mexpr) : bool := match m with MLeaf [[_; _]; [_; _]] => true | _ => false end.
Definition is_leaf4 (m : mexpr) : bool :=
  match m with MLeaf [[_; _; _; _]; [_; _; _; _]; [_; _; _; _]; [_; _; _; _]] => true | _ => false end.
Lemma leaf2_sq rho m : is_leaf2 m = true -> sq2 (interpM rho m).
Proof.
  destruct m as [rows| | | | |]; try discriminate.
  destruct rows as [|[|a [|b [|? ?]]] [|[|c [|d [|? ?]]] [|? ?]]]; try discriminate. intros _.
  cbn. unfold sq2. do 4 eexists. reflexivity.
Qed.
Lemma leaf4_sq rho m : is_leaf4 m = true -> sq4 (interpM rho m).
Proof.
  destruct m as [rows| | | | |]; try discriminate.
  destruct rows as [|[|a0 [|a1 [|a2 [|a3 [|? ?]]]]] [|[|b0 [|b1 [|b2 [|b3 [|? ?]]]]] [|[|c0 [|c1 [|c2 [|c3 [|? ?]]]]] [|[|d0 [|d1 [|d2 [|d3 [|? ?]]]]] [|? ?]]]]]; try discriminate.
  intros _. cbn. unfold sq4. do 16 eexists. reflexivity.
Qed.
Lemma sq_U_leaf : is_leaf2 (ep_U gen_sq_zero) = true. Proof. vm_compute. reflexivity. Qed.
Lemma cr_U_leaf : is_leaf4 (ep_U gen_cr_zero) = true. Proof. vm_compute. reflexivity. Qed.

Section ZeroNoise.
Variable expm : Cmat -> Cmat.
Hypothesis expm_zero2 : expm Z2 = I2.      (* trusted: scipy.linalg.expm of the zero matrix is the identity *)
Hypothesis expm_zero4 : expm Z4 = I4.

(* general single-qubit rotation at p = 0, T1 = T2 = 0: every sample is the noise-free matrix, for all theta, phi *)
Theorem zero_noise_sq rho : respects rho (ep_defs gen_sq_zero) ->
  sample expm rho gen_sq_zero = interpM rho gen_nf_single_qubit_gate.
Proof.
  intros R. unfold sample. rewrite (sq_zero_D rho R), (sq_zero_N rho R), interp_zero2, expm_zero2.
  assert (SU : sq2 (interpM rho (ep_U gen_sq_zero))) by (apply leaf2_sq, sq_U_leaf).
  rewrite (mul_I2_r _ SU), (mul_I2_r _ SU). apply sq_U_is_nf.
Qed.
(* cross-resonance gate at zero noise *)
Theorem zero_noise_cr rho : respects rho (ep_defs gen_cr_zero) ->
  sample expm rho gen_cr_zero = interpM rho gen_nf_CR.
Proof.
  intros R. unfold sample. rewrite (cr_zero_D rho R), (cr_zero_N rho R), interp_zero4, expm_zero4.
  assert (SU : sq4 (interpM rho (ep_U gen_cr_zero))) by (apply leaf4_sq, cr_U_leaf).
  rewrite (mul_I4_r _ SU), (mul_I4_r _ SU). apply cr_U_is_nf.
Qed.
(* idle depolarisation at p = 0 *)
Theorem zero_noise_depol rho : expm (interpM rho gen_depol_zero_N) = I2.
Proof. rewrite depol_zero_N, interp_zero2. exact expm_zero2. Qed.
End ZeroNoise.

(* X and SX are the general rotation at theta = pi, pi/2 (lemmas fwd_X, fwd_SX_rest, fwd_SX_angle); their noise-free matrices agree *)
Theorem zero_noise_X_SX_matrices rho :
  interpM rho gen_nf_X = interpM (env_of [(vi "theta", EPi)] rho) gen_nf_single_qubit_gate /\
  interpM rho gen_nf_SX = interpM (env_of [(vi "theta", EDiv EPi (EQ (2#1)%Q))] rho) gen_nf_single_qubit_gate.
Proof.
  split.
  - rewrite nf_X_is_U_pi. apply interpM_msubst. reflexivity.
  - rewrite nf_SX_is_U_halfpi. apply interpM_msubst. reflexivity.
Qed.

(* ---- composite gates: the product tree over constituent matrices ---- *)
Fixpoint interpT (S : nat -> Cmat) (rho : env) (t : ptree) : Cmat :=
  match t with
  | PSym k => S k
  | PMul a b => Cm_mul (interpT S rho a) (interpT S rho b)
  | PKron a b => Cm_kron (interpT S rho a) (interpT S rho b)
  | PScale c a => Cm_scale (interpC rho c) (interpT S rho a)
  end.

(* the noise-free constituent of a call: the hard-coded matrix of gates.py at the call's own arguments *)
Definition nf_of (f : factory) : mexpr :=
  match f with FCR => gen_nf_CR | FX => gen_nf_X | FSX => gen_nf_SX | FSQ => gen_nf_single_qubit_gate | FRelax => gen_nf_relaxation end.
Open Scope string_scope.
Definition params_of (f : factory) : list nat :=
  match f with
  | FCR => map vi ["theta"; "phi"; "t_cr"; "p_cr"; "T1c"; "T2c"; "T1t"; "T2t"]
  | FX | FSX => map vi ["phi"; "p"; "T1"; "T2"]
  | FSQ => map vi ["theta"; "phi"; "p"; "T1"; "T2"]
  | FRelax => map vi ["Dt"; "T1"; "T2"]
  end.
Close Scope string_scope.
Definition call_mexpr (c : call) : mexpr := msubst (combine (params_of (c_fac c)) (c_args c)) (nf_of (c_fac c)).
Fixpoint tree_mexpr (calls : list call) (t : ptree) : mexpr :=
  match t with
  | PSym k => match nth_error calls k with Some c => call_mexpr c | None => MLeaf [] end
  | PMul a b => MMul (tree_mexpr calls a) (tree_mexpr calls b)
  | PKron a b => MKron (tree_mexpr calls a) (tree_mexpr calls b)
  | PScale c a => MScale c (tree_mexpr calls a)
  end.
Fixpoint tree_syms_ok (n : nat) (t : ptree) : bool :=
  match t with
  | PSym k => Nat.ltb k n
  | PMul a b | PKron a b => tree_syms_ok n a && tree_syms_ok n b
  | PScale _ a => tree_syms_ok n a
  end.

Lemma interpT_tree_mexpr calls S rho t :
  tree_syms_ok (List.length calls) t = true ->
  (forall k c, nth_error calls k = Some c -> S k = interpM rho (call_mexpr c)) ->
  interpT S rho t = interpM rho (tree_mexpr calls t).
Proof.
  intros Hok HS. induction t as [k|a IHa b IHb|a IHa b IHb|c a IHa]; simpl in *.
  - destruct (nth_error calls k) as [c|] eqn:E.
    + now apply HS.
    + apply Nat.ltb_lt in Hok. apply nth_error_None in E. exfalso. apply (PeanoNat.Nat.lt_irrefl k). eapply PeanoNat.Nat.lt_le_trans; eauto.
  - apply andb_prop in Hok as [H1 H2]. now rewrite IHa, IHb.
  - apply andb_prop in Hok as [H1 H2]. now rewrite IHa, IHb.
  - now rewrite IHa.
Qed.

(* the pulse sequence of each noisy composite factory, evaluated with noise-free constituents at its own angle / phase
   arguments, is the noise-free composite gate of gates.py *)
Lemma comp_products_are_nf :
  mexpr_eqb cf (tree_mexpr (cp_calls gen_comp_CNOT) (cp_tree gen_comp_CNOT)) gen_nf_CNOT = true /\
  mexpr_eqb cf (tree_mexpr (cp_calls gen_comp_CNOT_inv) (cp_tree gen_comp_CNOT_inv)) gen_nf_CNOT_inv = true /\
  mexpr_eqb cf (tree_mexpr (cp_calls gen_comp_ECR) (cp_tree gen_comp_ECR)) gen_nf_ECR = true /\
  mexpr_eqb cf (tree_mexpr (cp_calls gen_comp_ECR_inv) (cp_tree gen_comp_ECR_inv)) gen_nf_ECR_inv = true.
Proof. vm_compute. repeat split. Qed.
Lemma comp_syms_ok :
  tree_syms_ok (List.length (cp_calls gen_comp_CNOT)) (cp_tree gen_comp_CNOT) = true /\
  tree_syms_ok (List.length (cp_calls gen_comp_CNOT_inv)) (cp_tree gen_comp_CNOT_inv) = true /\
  tree_syms_ok (List.length (cp_calls gen_comp_ECR)) (cp_tree gen_comp_ECR) = true /\
  tree_syms_ok (List.length (cp_calls gen_comp_ECR_inv)) (cp_tree gen_comp_ECR_inv) = true.
Proof. vm_compute. repeat split. Qed.

Definition constituents_noise_free (cp : composite) (S : nat -> Cmat) (rho : env) : Prop :=
  forall k c, nth_error (cp_calls cp) k = Some c -> S k = interpM rho (call_mexpr c).

Theorem zero_noise_composites rho S :
  (constituents_noise_free gen_comp_CNOT S rho -> interpT S rho (cp_tree gen_comp_CNOT) = interpM rho gen_nf_CNOT) /\
  (constituents_noise_free gen_comp_CNOT_inv S rho -> interpT S rho (cp_tree gen_comp_CNOT_inv) = interpM rho gen_nf_CNOT_inv) /\
  (constituents_noise_free gen_comp_ECR S rho -> interpT S rho (cp_tree gen_comp_ECR) = interpM rho gen_nf_ECR) /\
  (constituents_noise_free gen_comp_ECR_inv S rho -> interpT S rho (cp_tree gen_comp_ECR_inv) = interpM rho gen_nf_ECR_inv).
Proof.
  destruct comp_products_are_nf as (P1 & P2 & P3 & P4). destruct comp_syms_ok as (O1 & O2 & O3 & O4).
  split; [|split; [|split]]; intros H.
  - rewrite (interpT_tree_mexpr _ S rho _ O1 H). now apply (mexpr_eq_sound cf).
  - rewrite (interpT_tree_mexpr _ S rho _ O2 H). now apply (mexpr_eq_sound cf).
  - rewrite (interpT_tree_mexpr _ S rho _ O3 H). now apply (mexpr_eq_sound cf).
  - rewrite (interpT_tree_mexpr _ S rho _ O4 H). now apply (mexpr_eq_sound cf).
Qed.

(* ---- unitarity when relaxation is off ---- *)
Section Unitary.
Variable expm : Cmat -> Cmat.
Hypothesis expm_zero2 : expm Z2 = I2.
Hypothesis expm_zero4 : expm Z4 = I4.
(* trusted: the exponential of an anti-Hermitian matrix is unitary *)
Hypothesis expm_antiherm2 : forall A, sq2 A -> Cm_dag A = Cm_scale (- (1)) A -> unitary2 (expm A).
Hypothesis expm_antiherm4 : forall A, sq4 A -> Cm_dag A = Cm_scale (- (1)) A -> unitary4 (expm A).

Lemma RtoC_Qm1 : RtoC (Q2R (-1#1)) = - (1). Proof. unfold Q2R. simpl. unfold RtoC, Copp. simpl. f_equal; lra. Qed.

Lemma unitary2_U rho : unitary2 (interpM rho (ep_U gen_sq_zero)).
Proof.
  split. apply leaf2_sq, sq_U_leaf. pose proof (proj1 U_unitary rho) as H. cbn [interpM] in H. rewrite interp_id2 in H. exact H.
Qed.
Lemma unitary4_U rho : unitary4 (interpM rho (ep_U gen_cr_zero)).
Proof.
  split. apply leaf4_sq, cr_U_leaf. pose proof (proj2 U_unitary rho) as H. cbn [interpM] in H. rewrite interp_id4 in H. exact H.
Qed.

(* every decision path of the single-qubit factory with T1 == 0 samples a unitary matrix, for all angles, phases,
   p, T2 and all sample values *)
Theorem unitary_sq_T1_off rho p : In p gen_sq_paths -> t1_off_sq p = true -> is_leaf2 (ep_N p) = true ->
  unitary2 (sample expm rho p).
Proof.
  intros Hin Hoff Hleaf. destruct antihermitian_when_T1_off as (A1 & _ & _).
  rewrite forallb_forall in A1. specialize (A1 _ Hin). rewrite Hoff in A1. simpl in A1.
  unfold antiherm_ok in A1. apply andb_prop in A1 as [AD AN].
  pose proof sq_U_all_paths as HU. rewrite forallb_forall in HU. specialize (HU _ Hin).
  unfold sample.
  rewrite (mexpr_eq_sound cf _ _ HU rho), (mexpr_eq_sound cf _ _ AD rho), interp_zero2, expm_zero2.
  rewrite mul_I2_r by (apply leaf2_sq, sq_U_leaf).
  apply unitary2_mul. apply unitary2_U.
  apply expm_antiherm2. now apply leaf2_sq.
  pose proof (mexpr_eq_sound cf _ _ AN rho) as H. cbn [interpM interpC] in H. rewrite RtoC_Qm1 in H. exact H.
Qed.
Theorem unitary_cr_T1_off rho p : In p gen_cr_paths -> t1_off_cr p = true -> is_leaf4 (ep_N p) = true ->
  unitary4 (sample expm rho p).
Proof.
  intros Hin Hoff Hleaf. destruct antihermitian_when_T1_off as (_ & A1 & _).
  rewrite forallb_forall in A1. specialize (A1 _ Hin). rewrite Hoff in A1. simpl in A1.
  unfold antiherm_ok in A1. apply andb_prop in A1 as [AD AN].
  pose proof cr_U_all_paths as HU. rewrite forallb_forall in HU. specialize (HU _ Hin).
  unfold sample.
  rewrite (mexpr_eq_sound cf _ _ HU rho), (mexpr_eq_sound cf _ _ AD rho), interp_zero4, expm_zero4.
  rewrite mul_I4_r by (apply leaf4_sq, cr_U_leaf).
  apply unitary4_mul. apply unitary4_U.
  apply expm_antiherm4. now apply leaf4_sq.
  pose proof (mexpr_eq_sound cf _ _ AN rho) as H. cbn [interpM interpC] in H. rewrite RtoC_Qm1 in H. exact H.
Qed.
Lemma paths_N_leaves : forallb (fun p => is_leaf2 (ep_N p)) gen_sq_paths = true /\ forallb (fun p => is_leaf4 (ep_N p)) gen_cr_paths = true
  /\ is_leaf2 gen_depol_N = true.
Proof. vm_compute. repeat split. Qed.
Theorem unitary_depol rho : unitary2 (expm (interpM rho gen_depol_N)).
Proof.
  destruct antihermitian_when_T1_off as (_ & _ & A). destruct paths_N_leaves as (_ & _ & L).
  apply expm_antiherm2. now apply leaf2_sq.
  pose proof (mexpr_eq_sound cf _ _ A rho) as H. cbn [interpM interpC] in H. rewrite RtoC_Qm1 in H. exact H.
Qed.
Theorem unitary_bitflip rho : unitary2 (interpM rho gen_bitflip_G).
Proof.
  split. apply leaf2_sq. vm_compute. reflexivity.
  pose proof (bitflip_unitary rho) as H. cbn [interpM] in H. rewrite interp_id2 in H. exact H.
Qed.
End Unitary.

(* a product tree of unitary constituents with unit scale factors is unitary *)
Fixpoint tree_dim (dimf : nat -> nat) (t : ptree) : option nat :=
  match t with
  | PSym k => Some (dimf k)
  | PMul a b => match tree_dim dimf a, tree_dim dimf b with
                | Some 2%nat, Some 2%nat => Some 2%nat | Some 4%nat, Some 4%nat => Some 4%nat | _, _ => None end
  | PKron a b => match tree_dim dimf a, tree_dim dimf b with Some 2%nat, Some 2%nat => Some 4%nat | _, _ => None end
  | PScale _ a => tree_dim dimf a
  end.
Fixpoint tree_scales (t : ptree) : list expr :=
  match t with PSym _ => [] | PMul a b | PKron a b => tree_scales a ++ tree_scales b | PScale c a => c :: tree_scales a end.
Definition unitaryd (d : nat) (m : Cmat) : Prop := match d with 2%nat => unitary2 m | 4%nat => unitary4 m | _ => False end.

Theorem unitary_tree S rho dimf t d :
  tree_dim dimf t = Some d ->
  (forall k, unitaryd (dimf k) (S k)) ->
  Forall (fun c => interpC rho c * Cconj (interpC rho c) = 1) (tree_scales t) ->
  unitaryd d (interpT S rho t).
Proof.
  intros Hd HS. revert d Hd. induction t as [k|a IHa b IHb|a IHa b IHb|c a IHa]; intros d Hd Hsc; simpl in *.
  - injection Hd as <-. apply HS.
  - apply Forall_app in Hsc as [Ha Hb].
    destruct (tree_dim dimf a) as [[|[|[|[|[|?]]]]]|]; try discriminate;
    destruct (tree_dim dimf b) as [[|[|[|[|[|?]]]]]|]; try discriminate; injection Hd as <-.
    + apply unitary2_mul; [apply (IHa 2%nat) | apply (IHb 2%nat)]; auto.
    + apply unitary4_mul; [apply (IHa 4%nat) | apply (IHb 4%nat)]; auto.
  - apply Forall_app in Hsc as [Ha Hb].
    destruct (tree_dim dimf a) as [[|[|[|?]]]|]; try discriminate;
    destruct (tree_dim dimf b) as [[|[|[|?]]]|]; try discriminate; injection Hd as <-.
    apply unitary4_kron; [apply (IHa 2%nat) | apply (IHb 2%nat)]; auto.
  - pose proof (Forall_inv Hsc) as Hc. pose proof (Forall_inv_tail Hsc) as Hr.
    destruct d as [|[|[|[|[|?]]]]]; try (specialize (IHa _ Hd Hr); simpl in IHa; contradiction).
    + apply unitary2_scale; auto. apply (IHa 2%nat); auto.
    + apply unitary4_scale; auto. apply (IHa 4%nat); auto.
Qed.

(* the four composite trees are well-dimensioned and their scale factors (-i, i) have modulus one *)
Definition fac_dim (f : factory) : nat := match f with FCR => 4%nat | _ => 2%nat end.
Definition comp_dimf (cp : composite) (k : nat) : nat := match nth_error (cp_calls cp) k with Some c => fac_dim (c_fac c) | None => 0%nat end.
Definition scales_unit (cp : composite) : bool :=
  forallb (fun c => expr_eqb cf (EMul c (EConj c)) (EQ (1#1)%Q)) (tree_scales (cp_tree cp)).
Lemma comp_trees_typed :
  (tree_dim (comp_dimf gen_comp_CNOT) (cp_tree gen_comp_CNOT) = Some 4%nat /\ scales_unit gen_comp_CNOT = true) /\
  (tree_dim (comp_dimf gen_comp_CNOT_inv) (cp_tree gen_comp_CNOT_inv) = Some 4%nat /\ scales_unit gen_comp_CNOT_inv = true) /\
  (tree_dim (comp_dimf gen_comp_ECR) (cp_tree gen_comp_ECR) = Some 4%nat /\ scales_unit gen_comp_ECR = true) /\
  (tree_dim (comp_dimf gen_comp_ECR_inv) (cp_tree gen_comp_ECR_inv) = Some 4%nat /\ scales_unit gen_comp_ECR_inv = true).
Proof. vm_compute. repeat split. Qed.

Lemma scales_unit_sound cp rho : scales_unit cp = true ->
  Forall (fun c => interpC rho c * Cconj (interpC rho c) = 1) (tree_scales (cp_tree cp)).
Proof.
  unfold scales_unit. intros Hs. rewrite forallb_forall in Hs. apply Forall_forall. intros c Hc.
  pose proof (expr_eq_sound cf _ _ (Hs c Hc) rho) as E. cbn [interpC] in E. rewrite RtoC_Q1 in E. exact E.
Qed.

Theorem unitary_composites rho S :
  ((forall k, unitaryd (comp_dimf gen_comp_CNOT k) (S k)) -> unitary4 (interpT S rho (cp_tree gen_comp_CNOT))) /\
  ((forall k, unitaryd (comp_dimf gen_comp_CNOT_inv k) (S k)) -> unitary4 (interpT S rho (cp_tree gen_comp_CNOT_inv))) /\
  ((forall k, unitaryd (comp_dimf gen_comp_ECR k) (S k)) -> unitary4 (interpT S rho (cp_tree gen_comp_ECR))) /\
  ((forall k, unitaryd (comp_dimf gen_comp_ECR_inv k) (S k)) -> unitary4 (interpT S rho (cp_tree gen_comp_ECR_inv))).
Proof.
  destruct comp_trees_typed as ((D1 & U1) & (D2 & U2) & (D3 & U3) & (D4 & U4)).
  split; [|split; [|split]]; intros H.
  - apply (unitary_tree S rho _ _ 4%nat D1 H). now apply scales_unit_sound.
  - apply (unitary_tree S rho _ _ 4%nat D2 H). now apply scales_unit_sound.
  - apply (unitary_tree S rho _ _ 4%nat D3 H). now apply scales_unit_sound.
  - apply (unitary_tree S rho _ _ 4%nat D4 H). now apply scales_unit_sound.
Qed.
