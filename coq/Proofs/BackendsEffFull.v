(* C01 — EfficientBackend at full strength: the exact number of operands _chunk_list produces (eff_nchunks), hence
   eff_spec under the code's own 26-letter assertion, and the converse (the assertion fires exactly when it says). *)
From Coq Require Import List Bool Arith Lia Ring.
Require Import QG.Base.Res QG.Base.State QG.Base.Mat QG.Model.Backends QG.Proofs.BackendsSpec QG.Proofs.BackendsKron
  QG.Proofs.BackendsContract QG.Proofs.BackendsEff.
Import ListNotations.

(* number of chunks EfficientBackend._chunk_list(l, mn, op) returns for len(l) = n >= 2*op, op >= 1:
   range(0, n, op) gives ceil(n/op) slices, the last one of length op (n mod op = 0) or n mod op; it is merged into its
   predecessor when shorter than mn (this also happens for n mod op = 0 when op < mn). *)
Definition eff_nchunks (n mn op : nat) : nat :=
  let q := n / op in let r := n mod op in
  let cnt := if r =? 0 then q else q + 1 in
  let last := if r =? 0 then op else r in
  if last <? mn then cnt - 1 else cnt.

(* ---------- arithmetic ---------- *)
Lemma pred_div n op : 1 <= op -> 1 <= n ->
  (n - 1) / op = (if n mod op =? 0 then n / op - 1 else n / op) /\
  n - (n - 1) / op * op = (if n mod op =? 0 then op else n mod op).
Proof.
  intros Ho Hn. pose proof (Nat.div_mod n op ltac:(lia)) as E. pose proof (Nat.mod_upper_bound n op ltac:(lia)) as U.
  set (q := n / op) in *. set (r := n mod op) in *.
  destruct (Nat.eqb_spec r 0) as [Z|Z].
  - assert (Q : 1 <= q) by (destruct q; [nia | lia]).
    assert (D : (n - 1) / op = q - 1).
    { symmetry. apply (Nat.div_unique (n - 1) op (q - 1) (op - 1)); [lia | nia]. }
    rewrite D. split; [reflexivity | nia].
  - assert (D : (n - 1) / op = q).
    { symmetry. apply (Nat.div_unique (n - 1) op q (r - 1)); [lia | nia]. }
    rewrite D. split; [reflexivity | nia].
Qed.

Lemma eff_nchunks_alt n mn op : 1 <= op -> 1 <= n ->
  eff_nchunks n mn op = (if n - (n - 1) / op * op <? mn then (n - 1) / op else (n - 1) / op + 1).
Proof.
  intros Ho Hn. destruct (pred_div n op Ho Hn) as [D L]. rewrite L, D. unfold eff_nchunks. cbv zeta.
  pose proof (Nat.div_mod n op ltac:(lia)) as E.
  destruct (Nat.eqb_spec (n mod op) 0) as [Z|Z].
  - assert (Q : 1 <= n / op) by (destruct (n / op); [nia | lia]).
    destruct (op <? mn); lia.
  - destruct (n mod op <? mn); lia.
Qed.

(* the operand count never exceeds the sufficient bound of eff_spec *)
Lemma eff_nchunks_le n mn op : 1 <= op -> eff_nchunks n mn op <= n / op + 1.
Proof. intros Ho. unfold eff_nchunks. cbv zeta. destruct (n mod op =? 0); destruct (_ <? mn); lia. Qed.

(* ---------- the slices ---------- *)
Section Chunks.
Context {A : Type}.

(* [l[i:i+opt] for i in range(0, len(l), opt)] for a non-empty l: (len-1)/opt full slices, then the rest *)
Lemma chunks_of_shape opt : 1 <= opt -> forall fuel (l : list A), length l <= fuel -> l <> [] ->
  exists before last, chunks_of fuel opt l = before ++ [last] /\
    length before = (length l - 1) / opt /\ length last = length l - (length l - 1) / opt * opt.
Proof.
  intros Ho. induction fuel as [|f IH]; intros l Hl Hne.
  - destruct l; [congruence | simpl in Hl; lia].
  - destruct l as [|x l]; [congruence|]. cbn [chunks_of]. remember (x :: l) as xl eqn:E.
    assert (L1 : 1 <= length xl) by (subst xl; simpl; lia).
    destruct (le_lt_dec (length xl) opt) as [Hs|Hs].
    + assert (Z : skipn opt xl = []) by (apply skipn_all2; assumption).
      assert (C0 : chunks_of f opt (skipn opt xl) = []) by (rewrite Z; destruct f; reflexivity).
      rewrite C0. exists [], (firstn opt xl). split; [reflexivity|].
      assert (D : (length xl - 1) / opt = 0) by (apply Nat.div_small; lia).
      rewrite D, firstn_length. cbn [length]. lia.
    + assert (Ls : length (skipn opt xl) <= f) by (rewrite skipn_length; subst xl; cbn [length] in *; lia).
      assert (Ns : skipn opt xl <> []).
      { intros C. apply (f_equal (@length _)) in C. rewrite skipn_length in C. cbn [length] in C. lia. }
      destruct (IH (skipn opt xl) Ls Ns) as (before & last & Ec & Lb & Ll).
      rewrite Ec. exists (firstn opt xl :: before), last. split; [reflexivity|].
      rewrite skipn_length in Lb, Ll.
      assert (D : (length xl - 1) / opt = (length xl - opt - 1) / opt + 1).
      { replace (length xl - 1) with ((length xl - opt - 1) + 1 * opt) by lia. now rewrite Nat.div_add by lia. }
      rewrite D. cbn [length]. split; [lia|]. rewrite Ll. nia.
Qed.

(* _chunk_list returns exactly eff_nchunks (len l) mn opt chunks *)
Lemma chunk_list_count (l : list A) mn opt cs : 1 <= opt -> 2 * opt <= length l ->
  chunk_list l mn opt = Ok cs -> length cs = eff_nchunks (length l) mn opt.
Proof.
  intros Ho Hl. rewrite eff_nchunks_alt by lia. unfold chunk_list.
  destruct (Nat.ltb_spec (length l) (2 * opt)) as [C|_]; [lia|].
  destruct (Nat.eqb_spec opt 0) as [C|_]; [lia|].
  assert (Ne : l <> []) by (destruct l; [simpl in Hl; lia | discriminate]).
  destruct (chunks_of_shape opt Ho (length l) l (le_n _) Ne) as (before & last & Ec & Lb & Ll).
  rewrite Ec, rev_app_distr. cbn [rev app].
  assert (K : 1 <= (length l - 1) / opt) by (apply Nat.div_le_lower_bound; lia).
  destruct (rev before) as [|prev bb] eqn:Er.
  { apply (f_equal (@length _)) in Er. rewrite rev_length in Er. cbn [length] in Er. lia. }
  assert (Lbb : length before = S (length bb)).
  { rewrite <- (rev_length before), Er. reflexivity. }
  rewrite <- Ll.
  destruct (length last <? mn); intros H; inversion H; clear H.
  - rewrite app_length, rev_length. cbn [length]. lia.
  - rewrite app_length. cbn [length]. lia.
Qed.
End Chunks.

Section EffFull.
Variable R : Type.
Variables (rO rI : R) (radd rmul rsub : R -> R -> R) (ropp : R -> R).
Variable Rth : ring_theory rO rI radd rmul rsub ropp eq.
Notation entry := (entry R).
Notation ofE := (ofE R rI).
Notation kronW := (kronW R rI rmul).
Notation weq := (weq R).
Notation wf_layer := (wf_layer R).
Notation layers_sem := (layers_sem R radd rmul).
Notation plan_ok := (plan_ok R radd rmul).
Notation state_eq := (state_eq R).
Notation reduce_arr := (reduce_arr R rI rmul).
Notation eff_high := (eff_high R rI rmul).
Notation eff_plan := (eff_plan R rI rmul).
Notation eff := (eff R rI radd rmul).

(* the high regime: the chunks reduce without error and there are eff_nchunks operands *)
Lemma eff_high_operands n mn op l : 1 <= op -> 2 * op <= n -> wf_layer n l ->
  exists cs ms, chunk_list l mn op = Ok cs /\ mapM (reduce_arr true) cs = Ok ms /\ concat cs = l /\
    Forall2 (fun c m => weq m (kronW (map ofE c))) cs ms /\ length ms = eff_nchunks n mn op.
Proof.
  intros Ho H2 Hl. pose proof (wf_layer_length R n l Hl) as Ll.
  destruct (chunk_list_spec l mn op Ho ltac:(lia)) as (cs & Ec & Hc & Hne & _).
  destruct (mapM_ok (reduce_arr true) (fun c m => weq m (kronW (map ofE c))) cs) as (ms & Em & HF).
  { intros c Hin. rewrite Forall_forall in Hne. apply (reduce_arr_ok R rO rI radd rmul rsub ropp Rth); [now apply Hne | now left]. }
  exists cs, ms. repeat split; auto.
  assert (Lm : length ms = length cs) by (clear -HF; induction HF; simpl; congruence).
  rewrite Lm, <- Ll. apply chunk_list_count; auto; lia.
Qed.

Lemma eff_high_ok_full n mn op l : 1 <= op -> 2 * op <= n -> 2 * eff_nchunks n mn op <= 26 -> wf_layer n l ->
  exists p, eff_high n mn op l = Ok p /\ plan_ok n l p.
Proof.
  intros Ho H2 H26 Hl. unfold Backends.eff_high.
  destruct (eff_high_operands n mn op l Ho H2 Hl) as (cs & ms & Ec & Em & Hc & HF & Lm).
  rewrite Ec. cbn [rbind]. rewrite Em. cbn [rbind].
  apply (many_ok R rO rI radd rmul rsub ropp Rth n l cs ms); auto. lia.
Qed.

(* converse: when the count exceeds 13 the code's assertion fires on every well-formed layer *)
Lemma eff_high_assert n mn op l : 1 <= op -> 2 * op <= n -> 26 < 2 * eff_nchunks n mn op -> wf_layer n l ->
  eff_high n mn op l = Err AssertionError.
Proof.
  intros Ho H2 H26 Hl. unfold Backends.eff_high.
  destruct (eff_high_operands n mn op l Ho H2 Hl) as (cs & ms & Ec & Em & Hc & HF & Lm).
  rewrite Ec. cbn [rbind]. rewrite Em. cbn [rbind]. unfold many_matrices.
  destruct (Nat.ltb_spec 26 (2 * length ms)) as [_|C]; [reflexivity | lia].
Qed.

(* eff_spec with the exact operand count: every regime of EfficientBackend computes the layered product whenever the
   code's assertion 2 * nr_of_matrices <= 26 holds (it only matters in the many-chunk regime 4 <= n, 2*opt <= n) *)
Theorem eff_spec_exact n mn op ls psi :
  1 <= n -> 1 <= mn -> 1 <= op -> ls <> [] -> Forall (wf_layer n) ls ->
  (4 <= n -> 2 * op <= n -> 2 * eff_nchunks n mn op <= 26) ->
  exists out, eff n mn op ls psi = Ok out /\ state_eq n out (layers_sem ls psi).
Proof.
  intros Hn Hmn Ho Hne Hwf H26. unfold Backends.eff.
  assert (P : exists ps, eff_plan n mn op ls = Ok ps /\ Forall2 (plan_ok n) ls ps).
  { unfold Backends.eff_plan. destruct ls as [|l0 rest] eqn:Els; [congruence|]. rewrite <- Els in *. clear Els l0 rest.
    rewrite Forall_forall in Hwf.
    destruct (Nat.ltb_spec n 4) as [C|C].
    - apply mapM_ok. intros l Hin. apply (eff_low_ok R rO rI radd rmul rsub ropp Rth); auto.
    - destruct (Nat.leb_spec (2 * op) n) as [D|D].
      + apply mapM_ok. intros l Hin. apply eff_high_ok_full; auto.
      + apply mapM_ok. intros l Hin. apply (eff_medium_ok R rO rI radd rmul rsub ropp Rth); auto. }
  destruct P as (ps & Ep & HF). rewrite Ep. cbn [rbind]. eexists. split; [reflexivity|].
  now apply (exec_ok R radd rmul).
Qed.

(* and the hypothesis is necessary: otherwise the call raises the AssertionError of backend.py:180 *)
Theorem eff_assert_exact n mn op ls psi :
  4 <= n -> 1 <= op -> 2 * op <= n -> ls <> [] -> Forall (wf_layer n) ls ->
  26 < 2 * eff_nchunks n mn op ->
  eff n mn op ls psi = Err AssertionError.
Proof.
  intros Hn Ho H2 Hne Hwf H26. unfold Backends.eff, Backends.eff_plan.
  destruct ls as [|l0 rest]; [congruence|].
  destruct (Nat.ltb_spec n 4) as [C|_]; [lia|].
  destruct (Nat.leb_spec (2 * op) n) as [_|D]; [|lia].
  cbn [mapM]. rewrite (eff_high_assert n mn op l0 Ho H2 H26 (Forall_inv Hwf)). reflexivity.
Qed.

End EffFull.
