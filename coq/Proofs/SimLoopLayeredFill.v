(* C03 — how the layered builder state machine (Model/Builders.v: lstep, the model of AlternativeCircuit tied to circuit.py by
   C11's correspondence) fills ONE layer: a run of method calls that each write one slot of _mp and advance _s by the width of
   what they wrote (1 for apply / I / X / SX / bitflip / relaxation, 2 for CNOT / ECR) appends, when the widths add up to nqubit,
   exactly one layer to _mp_list -- the fresh placeholder layer with the written slots -- and leaves _s = 0, _mp = [1] * nqubit.
   Generic in the matrix tokens; no ring. *)
From Coq Require Import List Bool Arith ZArith Lia.
Require Import QG.Base.Res QG.Model.Builders QG.Proofs.NoiseFreeRunBuilder.
Import ListNotations.

Lemma set_nth_app_len {T} (pre : list T) x y rest : set_nth (length pre) x (pre ++ y :: rest) = pre ++ x :: rest.
Proof. induction pre as [|z pre IH]; cbn; [reflexivity | now rewrite IH]. Qed.

(* sums of indicator functions over an interval *)
Lemma list_sum_cons x l : list_sum (x :: l) = x + list_sum l.
Proof. reflexivity. Qed.
Lemma list_sum_map_add {T} (f g : T -> nat) l : list_sum (map (fun k => f k + g k) l) = list_sum (map f l) + list_sum (map g l).
Proof. induction l as [|x l IH]; [reflexivity|]. cbn [map]. rewrite !list_sum_cons, IH. lia. Qed.
Lemma list_sum_indicator x : forall m a,
  list_sum (map (fun k => if k =? x then 1 else 0) (seq a m)) = if (a <=? x) && (x <? a + m) then 1 else 0.
Proof.
  induction m as [|m IH]; intros a; cbn [seq map].
  - destruct (Nat.leb_spec a x), (Nat.ltb_spec x (a + 0)); cbn; auto; lia.
  - rewrite list_sum_cons, IH. destruct (Nat.eqb_spec a x), (Nat.leb_spec (S a) x), (Nat.ltb_spec x (S a + m)), (Nat.leb_spec a x), (Nat.ltb_spec x (a + S m));
      cbn; auto; lia.
Qed.
Lemma list_sum_const_one {T} (l : list T) : list_sum (map (fun _ => 1) l) = length l.
Proof. induction l as [|x l IH]; [reflexivity|]. cbn [map length]. now rewrite list_sum_cons, IH. Qed.

Section Fill.
Variable M : Type.
Variable idM : M.
Notation lstate := (lstate M).
Notation lstep := (lstep M idM). Notation lexec := (lexec M idM).
Notation bentry := (Builders.entry M).

(* one slot-writing call: the operation, the slot, the entry written, the width *)
Record wr := mkWr { w_op : op M; w_k : nat; w_e : bentry; w_w : nat }.
Definition wr_ok (n : nat) (x : wr) : Prop :=
  1 <= w_w x /\
  forall s, l_n M s = n -> length (l_phi M s) = n -> length (l_mp M s) = n ->
    exists phi', length phi' = n /\
      lstep s (w_op x) = Ok (l_bump M s phi' (set_nth (w_k x) (w_e x) (l_mp M s)) (w_w x), None).
Definition wsum (ws : list wr) : nat := list_sum (map w_w ws).
Definition wfold (ws : list wr) (mp : list bentry) : list bentry := fold_left (fun mp x => set_nth (w_k x) (w_e x) mp) ws mp.

Lemma fill n : forall ws s, ws <> [] -> Forall (wr_ok n) ws -> l_n M s = n -> length (l_phi M s) = n -> length (l_mp M s) = n ->
  l_s M s + wsum ws = n ->
  exists s', lexec s (map w_op ws) = Ok (s', []) /\ l_n M s' = n /\ l_bk M s' = l_bk M s /\ length (l_phi M s') = n /\
    l_s M s' = 0 /\ l_mp M s' = repeat EnOne n /\ l_mplist M s' = l_mplist M s ++ [wfold ws (l_mp M s)].
Proof.
  induction ws as [|x r IH]; intros s NE F Hn Hp Hm Hs; [congruence|].
  pose proof (Forall_inv F) as [Hw Hstep]. pose proof (Forall_inv_tail F) as Fr.
  destruct (Hstep s Hn Hp Hm) as (phi' & Lp & E).
  unfold Builders.lexec in *. cbn [map exec]. rewrite E. cbn [rbind fst snd].
  unfold wsum in Hs. cbn [map] in Hs. rewrite list_sum_cons in Hs.
  destruct r as [|y r'].
  - cbn [map exec rbind fst snd] in *. change (list_sum []) with 0 in Hs. unfold l_bump. cbv zeta. rewrite Hn.
    destruct (Nat.eqb_spec (l_s M s + w_w x) n) as [_|N]; [|lia].
    eexists. split; [reflexivity|]. cbn [l_n l_bk l_phi l_s l_mp l_mplist]. repeat split; auto.
  - pose proof (Forall_inv Fr) as [Hwy _].
    assert (Hlt : l_s M s + w_w x < n). { cbn [map] in Hs. rewrite list_sum_cons in Hs. lia. }
    set (s1 := l_bump M s phi' (set_nth (w_k x) (w_e x) (l_mp M s)) (w_w x)).
    assert (E1 : s1 = mkL M (l_n M s) (l_bk M s) phi' (l_s M s + w_w x) (set_nth (w_k x) (w_e x) (l_mp M s)) (l_mplist M s)).
    { unfold s1, l_bump. cbv zeta. rewrite Hn. destruct (Nat.eqb_spec (l_s M s + w_w x) n); [lia | reflexivity]. }
    destruct (IH s1) as (s' & E2 & Hn' & Hb' & Hp' & Hs' & Hm' & Hl').
    + discriminate.
    + exact Fr.
    + rewrite E1. exact Hn.
    + rewrite E1. exact Lp.
    + rewrite E1. cbn [l_mp]. now rewrite set_nth_length.
    + rewrite E1. cbn [l_s]. unfold wsum. lia.
    + rewrite E2. cbn [rbind fst snd]. exists s'. split; [reflexivity|].
      rewrite E1 in Hb', Hl'. cbn [l_bk l_mplist l_mp] in Hb', Hl'. repeat split; auto.
Qed.

(* ---- the calls of a `for k in range(nqubit)` loop: at most one write per position k, into slot k ---- *)
Variable W : nat -> option wr.
Hypothesis W_pos : forall k x, W k = Some x -> w_k x = k.
Definition wlist (l : list nat) : list wr := flat_map (fun k => match W k with Some x => [x] | None => [] end) l.
Definition went (k : nat) : bentry := match W k with Some x => w_e x | None => EnOne end.
Definition wwid (k : nat) : nat := match W k with Some x => w_w x | None => 0 end.

Lemma wfold_app a b mp : wfold (a ++ b) mp = wfold b (wfold a mp).
Proof. apply fold_left_app. Qed.
Lemma wfold_seq : forall m a pre, length pre = a ->
  wfold (wlist (seq a m)) (pre ++ repeat EnOne m) = pre ++ map went (seq a m).
Proof.
  induction m as [|m IH]; intros a pre Hl; [reflexivity|].
  cbn [seq repeat map]. unfold wlist. cbn [flat_map]. fold (wlist (seq (S a) m)). rewrite wfold_app.
  unfold went at 1. destruct (W a) as [x|] eqn:E.
  - cbn [wfold fold_left]. rewrite (W_pos a x E), <- Hl, set_nth_app_len.
    change (pre ++ w_e x :: repeat EnOne m) with (pre ++ [w_e x] ++ repeat EnOne m). rewrite app_assoc.
    rewrite (IH (S (length pre)) (pre ++ [w_e x])) by (rewrite app_length; cbn [length]; lia).
    now rewrite <- app_assoc.
  - cbn [wfold fold_left].
    change (pre ++ EnOne :: repeat EnOne m) with (pre ++ [EnOne] ++ repeat EnOne m). rewrite app_assoc.
    rewrite (IH (S a) (pre ++ [EnOne])) by (rewrite app_length; cbn [length]; lia).
    now rewrite <- app_assoc.
Qed.
Lemma wsum_wlist l : wsum (wlist l) = list_sum (map wwid l).
Proof.
  unfold wsum, wlist. induction l as [|k l IH]; [reflexivity|]. cbn [flat_map map list_sum]. rewrite map_app, list_sum_app, IH.
  rewrite list_sum_cons. f_equal. unfold wwid. destruct (W k); cbn; lia.
Qed.
Lemma map_wlist l : map w_op (wlist l) = flat_map (fun k => match W k with Some x => [w_op x] | None => [] end) l.
Proof.
  unfold wlist. induction l as [|k l IH]; [reflexivity|]. cbn [flat_map]. rewrite map_app, IH. destruct (W k); reflexivity.
Qed.
Lemma wlist_ok n l : (forall k x, In k l -> W k = Some x -> wr_ok n x) -> Forall (wr_ok n) (wlist l).
Proof.
  intros H. apply Forall_forall. intros x Hx. apply in_flat_map in Hx as (k & Hk & Hx).
  destruct (W k) as [y|] eqn:E; [|destruct Hx]. destruct Hx as [<-|[]]. eauto.
Qed.

(* a fresh layer (_s = 0, _mp = placeholders) filled by such a loop whose widths add up to n *)
Theorem fill_loop n s : 1 <= n -> (forall k x, k < n -> W k = Some x -> wr_ok n x) -> list_sum (map wwid (seq 0 n)) = n ->
  l_n M s = n -> length (l_phi M s) = n -> l_s M s = 0 -> l_mp M s = repeat EnOne n ->
  exists s', lexec s (map w_op (wlist (seq 0 n))) = Ok (s', []) /\ l_n M s' = n /\ l_bk M s' = l_bk M s /\ length (l_phi M s') = n /\
    l_s M s' = 0 /\ l_mp M s' = repeat EnOne n /\ l_mplist M s' = l_mplist M s ++ [map went (seq 0 n)].
Proof.
  intros Hn1 Hok Hsum Hn Hp Hs Hm.
  assert (NE : wlist (seq 0 n) <> []).
  { intros Z. pose proof (wsum_wlist (seq 0 n)) as Q. rewrite Z, Hsum in Q. cbn in Q. lia. }
  destruct (fill n (wlist (seq 0 n)) s NE) as (s' & E & H1 & H2 & H3 & H4 & H5 & H6); auto.
  - apply wlist_ok. intros k x Hk. apply in_seq in Hk. apply Hok. lia.
  - rewrite Hm. apply repeat_length.
  - rewrite Hs, wsum_wlist. exact Hsum.
  - exists s'. repeat split; auto. rewrite H6, Hm. f_equal. f_equal. exact (wfold_seq n 0 [] eq_refl).
Qed.
End Fill.

(* ---- the slot-writing calls ---- *)
Section Writes.
Variable M : Type.
Variable idM : M.
Notation wr_ok := (wr_ok M idM).

Lemma wr_ok_I n k : k < n -> wr_ok n (mkWr M (OI M (Z.of_nat k)) k (En2 idM) 1).
Proof.
  intros Hk. split; [cbn; lia|]. intros s Hn Hp Hm. exists (l_phi M s). split; [exact Hp|].
  cbn [w_op w_k w_e w_w Builders.lstep]. unfold l_apply. rewrite lset_nat by lia. reflexivity.
Qed.
Lemma wr_ok_apply n k t : k < n -> wr_ok n (mkWr M (OApply M K2 t (Z.of_nat k)) k (En2 t) 1).
Proof.
  intros Hk. split; [cbn; lia|]. intros s Hn Hp Hm. exists (l_phi M s). split; [exact Hp|].
  cbn [w_op w_k w_e w_w Builders.lstep]. unfold l_apply. rewrite lset_nat by lia. reflexivity.
Qed.
Lemma wr_ok_X n k t : k < n -> wr_ok n (mkWr M (OX M t (Z.of_nat k)) k (En2 t) 1).
Proof.
  intros Hk. split; [cbn; lia|]. intros s Hn Hp Hm. exists (l_phi M s). split; [exact Hp|].
  cbn [w_op w_k w_e w_w Builders.lstep]. destruct (lget_nat (l_phi M s) k ltac:(lia)) as [p E]. rewrite E. cbn [rbind].
  unfold l_apply. rewrite lset_nat by lia. reflexivity.
Qed.
Lemma wr_ok_CNOT n c t tk : c < n -> t < n -> wr_ok n (mkWr M (OCNOT M tk (Z.of_nat c) (Z.of_nat t)) c (En4 tk) 2).
Proof.
  intros Hc Ht. split; [cbn; lia|]. intros s Hn Hp Hm.
  destruct (cnot_phases_len (l_phi M s) c t n Hp Hc Ht) as (phi' & Ep & Lp). exists phi'. split; [exact Lp|].
  cbn [w_op w_k w_e w_w Builders.lstep]. unfold l_two, read2.
  destruct (lget_nat (l_phi M s) c ltac:(lia)) as [pc Ec]. destruct (lget_nat (l_phi M s) t ltac:(lia)) as [pt Et].
  rewrite Ec, Et. cbn [rbind]. rewrite lset_nat by lia. cbn [rbind]. rewrite Ep. reflexivity.
Qed.
Lemma wr_ok_ECR n c t tk : c < n -> t < n -> wr_ok n (mkWr M (OECR M tk (Z.of_nat c) (Z.of_nat t)) c (En4 tk) 2).
Proof.
  intros Hc Ht. split; [cbn; lia|]. intros s Hn Hp Hm. exists (l_phi M s). split; [exact Hp|].
  cbn [w_op w_k w_e w_w Builders.lstep]. unfold l_two, read2.
  destruct (lget_nat (l_phi M s) c ltac:(lia)) as [pc Ec]. destruct (lget_nat (l_phi M s) t ltac:(lia)) as [pt Et].
  rewrite Ec, Et. cbn [rbind]. rewrite lset_nat by lia. reflexivity.
Qed.
End Writes.
