(* bin_spec: the BinaryBackend.statevector model (optimise at level 4, then build and apply one operator per item)
   returns normally on every non-empty well-formed item list and computes sem items psi. *)
From Coq Require Import List Bool Arith ZArith NArith Lia Ring.
Require Import QG.Base.Res QG.Base.State QG.Base.Mat QG.Model.Optimizer QG.Model.Sparse.
Require Import QG.Proofs.OptimizerSem QG.Proofs.OptimizerMain QG.Proofs.SparseBits QG.Proofs.SparseJoin QG.Proofs.SparseApply.
Import ListNotations.

Section Main.
Variable R : Type.
Variables (rO rI : R) (radd rmul rsub : R -> R -> R) (ropp : R -> R).
Variable Rth : ring_theory rO rI radd rmul rsub ropp eq.

Notation mat := (mat R).
Notation mitem := (mat * list Z)%type.
Notation wfn := (wfn R).
Notation wf_in := (wf_in R).
Notation den := (den R rO rI).
Notation coo := (coo_apply R rO radd rmul).
Notation emat := (entry_mat R rO).
Notation seqn := (state_eq R).
Notation sem := (sem R radd rmul).
Notation apply_item := (apply_item R radd rmul).

(* dense_is_apply + sparse_is_apply for the items the optimizer returns *)
Theorem item_operator_is_apply n (it : mitem) : wfn n it ->
  exists op, item_operator n (snd it) = Ok op /\
    forall psi b, length b = n -> coo (snd op) (emat (fst it)) psi b = apply_item (den it) psi b.
Proof.
  intros W. destruct (wfn_cases R n it W) as [(a & q & -> & Hq)|(g & q1 & q2 & -> & H1 & H2 & H3)]; cbn [fst snd den].
  - replace [q] with [Z.of_nat (Z.to_nat q)] by (now rewrite Z2Nat.id by lia).
    apply (item_operator_apply1 R rO rI radd rmul rsub ropp Rth). lia.
  - replace [q1; q2] with [Z.of_nat (Z.to_nat q1); Z.of_nat (Z.to_nat q2)] by (now rewrite !Z2Nat.id by lia).
    apply (item_operator_apply2 R rO rI radd rmul rsub ropp Rth); lia.
Qed.

Definition bin_step n (acc : res (State.state R)) (it : mitem) : res (State.state R) :=
  p <- acc ;; op <- item_operator n (snd it) ;; Ok (coo (snd op) (emat (fst it)) p).

Lemma bin_fold n (opt : list mitem) : Forall (wfn n) opt -> forall p s, seqn n p s ->
  exists out, fold_left (bin_step n) opt (Ok p) = Ok out /\ seqn n out (sem (map den opt) s).
Proof.
  induction opt as [|it r IH]; intros W p s E; cbn [fold_left map].
  - exists p. split; auto.
  - apply Forall_inv in W as Wi. apply Forall_inv_tail in W.
    destruct (item_operator_is_apply n it Wi) as (op & Eo & A).
    unfold bin_step at 2. cbn [rbind]. rewrite Eo. cbn [rbind].
    apply IH; auto. intros b L. rewrite A by exact L. apply (apply_item_ext R radd rmul n); auto.
Qed.

Theorem bin_spec n (items : list mitem) (psi : State.state R) : items <> [] -> Forall (wf_in n) items ->
  exists out, bin_statevector R rO radd rmul mat (mmul R radd rmul) (mkron R rmul) (mid2 R rO rI) (mid4 R rO rI)
                emat n items psi = Ok out /\
    seqn n out (sem (map den items) psi).
Proof.
  intros Hne W.
  destruct (optimize_sound R rO rI radd rmul rsub ropp Rth n 4 items (le_n 4) W) as (opt & Eo & _ & Wo & Q).
  unfold bin_statevector. destruct items as [|i0 items]; [congruence|].
  rewrite Eo. cbn [rbind].
  destruct (bin_fold n opt Wo psi psi (state_eq_refl R n psi)) as (out & Ef & Es).
  exists out. split; [exact Ef|].
  eapply state_eq_trans; [exact Es|]. apply Q.
Qed.

End Main.
