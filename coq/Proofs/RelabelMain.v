(* C08, relabelling and subset clauses, part 4: the two clauses for a deterministic run on the rank layout.

   run L T1 T2 circ ph0 psi : the final amplitude function of the circuit circ (operations on the physical labels L) started
   in psi with every virtual phase equal to ph0, the internal index of a label being its rank among L, followed by the
   read-out layer (one matrix ro(own values) on every internal qubit 0..|L|-1 in this order; run_no_readout: with
   ro = identity this is the bare circuit).
   Relabelling by pi : the labels become map pi L, every operation acts on the pi-images, the calibration tables satisfy
   T1' (pi q) = T1 q and T2' (pi c) (pi t) = T2 c t, and the initial state psi' gives to every assignment of bits to the
   relabelled qubits the amplitude psi gave to the corresponding assignment of the original qubits; for a product state
   this is the re-ordering of the tensor factors (prod_state_relabel).
   encode L a : the internal bit list of the assignment a : label -> bool  (position rank L q holds a q). *)
From Coq Require Import List Bool Arith Lia Ring Permutation.
Require Import QG.Base.State QG.Base.Mat QG.Base.Perm QG.Proofs.Relabel QG.Proofs.RelabelRank QG.Proofs.RelabelSum.
Import ListNotations.

(* ---- assignments of bits to physical labels ---- *)
Definition encode (L : list nat) (a : nat -> bool) : bits := map (fun i => a (lab L i)) (seq 0 (length L)).

Lemma encode_length L a : length (encode L a) = length L.
Proof. unfold encode. now rewrite map_length, seq_length. Qed.
Lemma get_encode L a q : In q L -> get (encode L a) (rank L q) = a q.
Proof.
  intros H. unfold encode, get. rewrite nth_map_seq by (now apply rank_lt). now rewrite lab_rank.
Qed.
(* every internal bit list of length |L| is the encoding of an assignment *)
Lemma encode_surj L b : NoDup L -> length b = length L -> encode L (fun q => get b (rank L q)) = b.
Proof.
  intros ND Lb. apply bits_ext.
  - now rewrite encode_length.
  - intros r Hr. rewrite encode_length in Hr. unfold encode, get at 1. rewrite nth_map_seq by assumption.
    now destruct (rank_lab L r ND Hr) as [_ ->].
Qed.

(* the relabelled assignment is encoded by the permuted bit list *)
Lemma encode_relabel L pi a a' : NoDup L -> inj_on L pi -> (forall q, In q L -> a' (pi q) = a q) ->
  encode (map pi L) a' = permute (induced L pi) (encode L a).
Proof.
  intros ND Hinj Ha.
  assert (Hp : perm_on (length L) (induced L pi)) by (now apply induced_perm).
  apply bits_ext.
  - now rewrite permute_length, !encode_length, map_length.
  - intros r Hr. rewrite encode_length, map_length in Hr.
    destruct (perm_surj _ _ Hp r Hr) as (i & Hi & <-).
    rewrite get_permute by (rewrite encode_length; auto).
    destruct (rank_lab L i ND Hi) as [Hin Hrk].
    unfold encode at 2. unfold get at 2. rewrite nth_map_seq by assumption.
    unfold induced. rewrite get_encode by (now apply in_map). now apply Ha.
Qed.

Section Main.
(* amplitudes *)
Variable R : Type.
Variables (rO rI : R) (radd rmul rsub : R -> R -> R) (ropp : R -> R).
Variable Rth : ring_theory rO rI radd rmul rsub ropp eq.
Add Ring RrRelabelMain : Rth.
(* weights *)
Variable W : Type.
Variables (wO wI : W) (wadd wmul wsub : W -> W -> W) (wopp : W -> W).
Variable Wth : ring_theory wO wI wadd wmul wsub wopp eq.
(* Born rule: any function of the amplitude *)
Variable born : R -> W.
(* gate set and phase bookkeeping, see Relabel.v *)
Variables (cal cal2 ph op1 op2 : Type).
Variable gate1 : op1 -> ph -> cal -> option (m2 R).
Variable next1 : op1 -> ph -> ph.
Variable gate2 : op2 -> ph -> ph -> cal -> cal -> cal2 -> m4 R.
Variable next2 : op2 -> ph -> ph -> ph * ph.

Notation pop := (pop op1 op2).
Notation internalise := (internalise R cal cal2 ph op1 op2 gate1 next1 gate2 next2).
Notation marg := (marg W wO wadd).

Variable ro : cal -> m2 R.

Definition run (L : list nat) (T1 : nat -> cal) (T2 : nat -> nat -> cal2) (circ : list pop) (ph0 : ph) (psi : bits -> R)
  : bits -> R :=
  sem R radd rmul (internalise (rank L) T1 T2 circ (fun _ => ph0) ++ readout R cal (length L) ro (lab L) T1) psi.

(* without read-out noise the read-out layer does nothing *)
Lemma run_no_readout L T1 T2 circ ph0 psi b : (forall c, ro c = id2 R rO rI) ->
  run L T1 T2 circ ph0 psi b = sem R radd rmul (internalise (rank L) T1 T2 circ (fun _ => ph0)) psi b.
Proof.
  intros Hro. unfold run. rewrite (sem_app R radd rmul). unfold readout.
  generalize (sem R radd rmul (internalise (rank L) T1 T2 circ (fun _ => ph0)) psi) as phi.
  generalize (seq 0 (length L)) as ks. induction ks as [|k r IH]; intros phi; cbn [map]; [reflexivity|].
  rewrite sem_cons. cbn [State.apply_item]. rewrite Hro.
  rewrite (sem_ext R radd rmul (length b) _ _ phi); [apply IH | | reflexivity].
  intros c _. apply (apply1_id R rO rI radd rmul rsub ropp Rth).
Qed.

Section Relabelled.
Variables (L : list nat) (pi : nat -> nat) (T1 T1' : nat -> cal) (T2 T2' : nat -> nat -> cal2) (circ : list pop) (ph0 : ph).
Variables (psi psi' : bits -> R).
Hypothesis HL : NoDup L.
Hypothesis Hpi : inj_on L pi.
Hypothesis Hcirc : Forall (pop_on op1 op2 L) circ.
Hypothesis HT1 : forall q, In q L -> T1' (pi q) = T1 q.
Hypothesis HT2 : forall c t, In c L -> In t L -> T2' (pi c) (pi t) = T2 c t.
Hypothesis Hpsi : forall b, length b = length L -> psi' (permute (induced L pi) b) = psi b.

Let s := induced L pi.
Let final := run L T1 T2 circ ph0 psi.
Let final' := run (map pi L) T1' T2' (map (relabel op1 op2 pi) circ) ph0 psi'.

Lemma psi'_transport : state_eq R (length L) psi' (transport R s psi).
Proof.
  intros b Lb. assert (Hp : perm_on (length L) s) by (now apply induced_perm).
  unfold transport. rewrite <- Hpsi by (now rewrite unpermute_length).
  fold s. rewrite permute_unpermute; auto. now rewrite Lb.
Qed.

(* the final amplitude function, read through the induced permutation of the internal indices, is unchanged *)
Theorem relabel_invariant_bits b : length b = length L -> final' (permute s b) = final b.
Proof.
  intros Lb. assert (Hp : perm_on (length L) s) by (now apply induced_perm).
  unfold final', run.
  rewrite (sem_ext R radd rmul (length L) _ _ _ psi'_transport) by (now rewrite permute_length).
  rewrite map_length.
  apply (relabel_sem_ro R rO rI radd rmul rsub ropp Rth cal cal2 ph op1 op2 gate1 next1 gate2 next2 (length L) s L pi
           (rank L) (rank (map pi L))); auto.
  - intros q Hq. now apply rank_lt.
  - intros q Hq. now apply induced_spec.
  - intros k Hk. now destruct (rank_lab L k HL Hk).
  - intros k Hk. destruct (rank_lab L k HL Hk) as [Hin _]. unfold s, induced. apply lab_rank. now apply in_map.
Qed.

(* ... i.e. per assignment of bits to PHYSICAL qubits: the relabelled run gives the assignment a' (with a' (pi q) = a q)
   the amplitude that the original run gives a *)
Theorem relabel_invariant_assignment a a' : (forall q, In q L -> a' (pi q) = a q) ->
  final' (encode (map pi L) a') = final (encode L a).
Proof.
  intros Ha. rewrite (encode_relabel L pi a a' HL Hpi Ha). apply relabel_invariant_bits. apply encode_length.
Qed.

(* ... hence the Born weights per assignment are unchanged *)
Corollary relabel_invariant_born a a' : (forall q, In q L -> a' (pi q) = a q) ->
  born (final' (encode (map pi L) a')) = born (final (encode L a)).
Proof. intros Ha. f_equal. now apply relabel_invariant_assignment. Qed.

(* ... and so is the distribution over the keys of any list M of measured physical qubits (measured in the same order) *)
Theorem relabel_invariant_marginal M t : Forall (fun q => In q L) M ->
  marg (length L) (fun b => born (final' b)) (map (rank (map pi L)) (map pi M)) t
  = marg (length L) (fun b => born (final b)) (map (rank L) M) t.
Proof.
  intros FM. assert (Hp : perm_on (length L) s) by (now apply induced_perm).
  replace (map (rank (map pi L)) (map pi M)) with (map s (map (rank L) M)).
  - apply (marg_relabel W wO wI wadd wmul wsub wopp Wth); auto.
    + apply Forall_forall. intros i Hi. apply in_map_iff in Hi as (q & <- & Hq). rewrite Forall_forall in FM. apply rank_lt; auto.
    + intros b Lb. f_equal. now apply relabel_invariant_bits.
  - rewrite !map_map. apply map_ext_in. intros q Hq. rewrite Forall_forall in FM. unfold s. apply induced_spec; auto.
Qed.
End Relabelled.

(* ---- measuring a subset gives the marginal of measuring all ----
   The run does not take the measured set as an argument (measure instructions are not operations); M' lists the
   measured physical qubits of the larger measurement, and the smaller one measures M'[idx_0], M'[idx_1], ... *)
Theorem subset_is_marginal_physical (L : list nat) (w : bits -> W) (M' : list nat) (idx : list nat) (t : bits) :
  Forall (fun k => k < length M') idx ->
  marg (length L) w (map (rank L) (map (fun k => nth k M' 0) idx)) t
  = bsum W wadd (length M') (fun t' => if beq (bsel t' idx) t then marg (length L) w (map (rank L) M') t' else wO).
Proof.
  intros F.
  assert (E : map (rank L) (map (fun k => nth k M' 0) idx) = map (fun k => nth k (map (rank L) M') 0) idx).
  { rewrite map_map. apply map_ext_in. intros k Hk. rewrite Forall_forall in F. specialize (F k Hk).
    rewrite (nth_indep (map (rank L) M') 0 (rank L 0)) by (now rewrite map_length). now rewrite map_nth. }
  assert (F' : Forall (fun k => k < length (map (rank L) M')) idx).
  { apply Forall_forall. intros k Hk. rewrite map_length. rewrite Forall_forall in F. auto. }
  rewrite E. rewrite (subset_is_marginal W wO wI wadd wmul wsub wopp Wth _ _ _ _ _ F').
  now rewrite map_length.
Qed.

(* ---- product initial states: relabelling = re-ordering of the tensor factors ---- *)
Infix "*" := rmul.
Fixpoint lprod (l : list R) : R := match l with [] => rI | x :: r => x * lprod r end.
Lemma lprod_perm l l' : Permutation l l' -> lprod l = lprod l'.
Proof.
  induction 1; cbn [lprod]; auto.
  - now rewrite IHPermutation.
  - ring.
  - congruence.
Qed.
(* u q : the 2-vector of physical qubit q;  amplitude of b = product over the internal positions i of u (label at i) (b_i) *)
Definition prod_state (L : list nat) (u : nat -> bool -> R) : bits -> R :=
  fun b => lprod (map (fun i => u (lab L i) (get b i)) (seq 0 (length L))).

Lemma prod_state_relabel L pi u u' b : NoDup L -> inj_on L pi -> (forall q, In q L -> u' (pi q) = u q) ->
  length b = length L ->
  prod_state (map pi L) u' (permute (induced L pi) b) = prod_state L u b.
Proof.
  intros ND Hinj Hu Lb. assert (Hp : perm_on (length L) (induced L pi)) by (now apply induced_perm).
  unfold prod_state. rewrite map_length.
  assert (P : Permutation (map (induced L pi) (seq 0 (length L))) (seq 0 (length L))).
  { apply NoDup_Permutation_bis.
    - apply NoDup_map_inj_in; [apply seq_NoDup|]. intros x y Hx Hy. apply in_seq in Hx, Hy. apply Hp; lia.
    - rewrite map_length. lia.
    - intros y Hy. apply in_map_iff in Hy as (x & <- & Hx). apply in_seq in Hx. apply in_seq.
      assert (X := proj1 Hp x). lia. }
  rewrite <- (lprod_perm _ _ (Permutation_map _ P)). rewrite map_map. f_equal. apply map_ext_in. intros i Hi.
  apply in_seq in Hi. assert (Hi' : i < length L) by lia.
  destruct (rank_lab L i ND Hi') as [Hin Hrk].
  rewrite get_permute by (rewrite Lb; auto).
  unfold induced at 1. rewrite lab_rank by (now apply in_map). now rewrite Hu.
Qed.

End Main.
