(* C05 — the determinant law, composed semantically from the reflection lemmas of C05Refl.
   scipy.linalg.expm is abstract; the fact used is det(expm A) = exp(tr A) (explicit hypothesis). *)
From Coq Require Import QArith Qreals List String Bool Reals Lra.
From Coquelicot Require Import Complex.
Require Import QG.Sym.Expr QG.Sym.ExprEq QG.Sym.Norm QG.Sym.Mat QG.Sym.Sound QG.Sym.Subst.
Require Import QG.Model.GateModel QG.Model.Composite QG.Proofs.GateRefl QG.Proofs.MatAlg QG.Proofs.Det4Expr.
Require Import QG.Proofs.C07Refl QG.Proofs.C07Sem QG.Proofs.C05Refl QG.Gen.GenGates.
Import ListNotations.
Close Scope Q_scope.
Open Scope C_scope.

(* complex exponential, as interpC reads EExp *)
Definition cexp (z : C) : C := RtoC (exp (Re z)) * Cexp (Im z).
Lemma cexp_add a b : cexp (a + b) = cexp a * cexp b.
Proof.
  unfold cexp. destruct a as [ar ai], b as [br bi]. simpl Re. simpl Im.
  rewrite exp_plus, Cexp_add, RtoC_mult. ring.
Qed.
Lemma cexp_0 : cexp (RtoC 0) = RtoC 1.
Proof. unfold cexp. simpl. rewrite exp_0, Cexp_0. ring. Qed.

(* determinant / trace of an expression leaf *)
Lemma det2_leaf rho m : is_leaf2 m = true -> det2 (interpM rho m) = interpC rho (mdet2 m).
Proof.
  destruct m as [rows| | | | |]; try discriminate.
  destruct rows as [|[|a [|b [|? ?]]] [|[|c [|d [|? ?]]] [|? ?]]]; try discriminate. intros _. reflexivity.
Qed.
Lemma tr2_leaf rho m : is_leaf2 m = true -> tr2 (interpM rho m) = interpC rho (mtrace m).
Proof.
  destruct m as [rows| | | | |]; try discriminate.
  destruct rows as [|[|a [|b [|? ?]]] [|[|c [|d [|? ?]]] [|? ?]]]; try discriminate. intros _. reflexivity.
Qed.
Lemma det4_leaf rho m : is_leaf4 m = true -> det4 (interpM rho m) = interpC rho (mdet4 m).
Proof.
  destruct m as [rows| | | | |]; try discriminate.
  destruct rows as [|[|a0 [|a1 [|a2 [|a3 [|? ?]]]]] [|[|b0 [|b1 [|b2 [|b3 [|? ?]]]]] [|[|c0 [|c1 [|c2 [|c3 [|? ?]]]]] [|[|d0 [|d1 [|d2 [|d3 [|? ?]]]]] [|? ?]]]]]; try discriminate.
  intros _. cbn [interpM map det4 mdet4 interpC]. ring.
Qed.
Lemma tr4_leaf rho m : is_leaf4 m = true -> tr4 (interpM rho m) = interpC rho (mtrace m).
Proof.
  destruct m as [rows| | | | |]; try discriminate.
  destruct rows as [|[|a0 [|a1 [|a2 [|a3 [|? ?]]]]] [|[|b0 [|b1 [|b2 [|b3 [|? ?]]]]] [|[|c0 [|c1 [|c2 [|c3 [|? ?]]]]] [|[|d0 [|d1 [|d2 [|d3 [|? ?]]]]] [|? ?]]]]]; try discriminate.
  intros _. cbn. ring.
Qed.

Lemma paths_leaves :
  forallb (fun p => is_leaf2 (ep_U p) && is_leaf2 (ep_D p) && is_leaf2 (ep_N p)) gen_sq_paths = true /\
  forallb (fun p => is_leaf4 (ep_U p) && is_leaf4 (ep_D p) && is_leaf4 (ep_N p)) gen_cr_paths = true.
Proof. vm_compute. split; reflexivity. Qed.

Section DetLaw.
Variable expm : Cmat -> Cmat.
(* trusted facts about scipy.linalg.expm *)
Hypothesis expm_sq2 : forall A, sq2 A -> sq2 (expm A).
Hypothesis expm_sq4 : forall A, sq4 A -> sq4 (expm A).
Hypothesis det_expm2 : forall A, sq2 A -> det2 (expm A) = cexp (tr2 A).
Hypothesis det_expm4 : forall A, sq4 A -> det4 (expm A) = cexp (tr4 A).

(* driven single-qubit gate, every decision path: det G = exp(tr drift), with tr drift = -(1/2) e1^2 (K1 + K3)
   where e1, K1, K3 are the path's own noise strength and integral variables; no sample occurs *)
Theorem det_sq rho p : In p gen_sq_paths ->
  det2 (sample expm rho p) = cexp (interpC rho (sq_trD_spec p)).
Proof.
  intros Hin. destruct paths_leaves as (L & _). rewrite forallb_forall in L. specialize (L _ Hin).
  apply andb_prop in L as [L LN]. apply andb_prop in L as [LU LD].
  destruct trace_N_zero as (TN & _ & _). rewrite forallb_forall in TN. specialize (TN _ Hin).
  pose proof trace_D_sq as TD. rewrite forallb_forall in TD. specialize (TD _ Hin).
  pose proof sq_U_all_paths as HU. rewrite forallb_forall in HU. specialize (HU _ Hin).
  destruct det_U_one as (DU & _).
  unfold sample.
  rewrite det2_mul; [| apply sq2_mul; [now apply leaf2_sq | apply expm_sq2; now apply leaf2_sq] | apply expm_sq2; now apply leaf2_sq].
  rewrite det2_mul; [| now apply leaf2_sq | apply expm_sq2; now apply leaf2_sq].
  rewrite !det_expm2 by (now apply leaf2_sq).
  rewrite (tr2_leaf rho _ LD), (tr2_leaf rho _ LN).
  rewrite (expr_eq_sound cf _ _ TN rho), (expr_eq_sound cf _ _ TD rho).
  rewrite (mexpr_eq_sound cf _ _ HU rho), (det2_leaf rho _ sq_U_leaf), (expr_eq_sound cf _ _ DU rho).
  unfold E1, E0. cbn [interpC]. rewrite RtoC_Q1, RtoC_Q0, cexp_0. ring.
Qed.

(* cross-resonance gate, every decision path *)
Theorem det_cr rho p : In p gen_cr_paths ->
  det4 (sample expm rho p) = cexp (interpC rho (cr_trD_spec p)).
Proof.
  intros Hin. destruct paths_leaves as (_ & L). rewrite forallb_forall in L. specialize (L _ Hin).
  apply andb_prop in L as [L LN]. apply andb_prop in L as [LU LD].
  destruct trace_N_zero as (_ & TN & _). rewrite forallb_forall in TN. specialize (TN _ Hin).
  pose proof trace_D_cr as TD. rewrite forallb_forall in TD. specialize (TD _ Hin).
  pose proof cr_U_all_paths as HU. rewrite forallb_forall in HU. specialize (HU _ Hin).
  destruct det_U_one as (_ & DU).
  unfold sample.
  rewrite det4_mul; [| apply sq4_mul; [now apply leaf4_sq | apply expm_sq4; now apply leaf4_sq] | apply expm_sq4; now apply leaf4_sq].
  rewrite det4_mul; [| now apply leaf4_sq | apply expm_sq4; now apply leaf4_sq].
  rewrite !det_expm4 by (now apply leaf4_sq).
  rewrite (tr4_leaf rho _ LD), (tr4_leaf rho _ LN).
  rewrite (expr_eq_sound cf _ _ TN rho), (expr_eq_sound cf _ _ TD rho).
  rewrite (mexpr_eq_sound cf _ _ HU rho), (det4_leaf rho _ cr_U_leaf), (expr_eq_sound cf _ _ DU rho).
  unfold E1, E0. cbn [interpC]. rewrite RtoC_Q1, RtoC_Q0, cexp_0. ring.
Qed.

(* idle depolarisation: det = 1 *)
Theorem det_depol rho : det2 (expm (interpM rho gen_depol_N)) = RtoC 1.
Proof.
  destruct trace_N_zero as (_ & _ & TN). destruct paths_N_leaves as (_ & _ & L).
  rewrite det_expm2 by (now apply leaf2_sq). rewrite (tr2_leaf rho _ L), (expr_eq_sound cf _ _ TN rho).
  unfold E0. cbn [interpC]. rewrite RtoC_Q0. apply cexp_0.
Qed.
End DetLaw.

(* bit flip: det = 1 *)
Theorem det_bitflip rho : det2 (interpM rho gen_bitflip_G) = RtoC 1.
Proof.
  rewrite det2_leaf by (vm_compute; reflexivity). rewrite (expr_eq_sound cf _ _ bitflip_det_one rho).
  unfold E1. cbn [interpC]. apply RtoC_Q1.
Qed.

(* ---- what the noise strength is: e1^2 = tg / T1 ---- *)
Definition tgR : R := Q2R (7#200000000).
Lemma e1_squared defs t v rho : find_e1 defs t = Some v -> respects rho defs -> (0 < rho t)%R ->
  (rho v * rho v = tgR / rho t)%R.
Proof.
  unfold find_e1, find_inv. intros F R Ht.
  destruct (find (fun vd : nat * odef => match snd vd with OInv (EVar w) => Nat.eqb w t | _ => false end) defs) as [[i di]|] eqn:Fi; [|discriminate].
  simpl in F. apply find_some in Fi as [Ini Pi]. simpl in Pi.
  destruct di as [e|e|e|e|k a b]; try discriminate. destruct e; try discriminate. apply Nat.eqb_eq in Pi. subst v0.
  destruct (find (fun vd : nat * odef => match snd vd with OSqrt (EMul (EQ q) (EVar w)) => Nat.eqb w i && Qeq_bool q (7 # 200000000) | _ => false end) defs) as [[v' dv]|] eqn:Fv; [|discriminate].
  simpl in F. injection F as <-. apply find_some in Fv as [Inv Pv]. simpl in Pv.
  destruct dv as [e|e|e|e|k a b]; try discriminate. destruct e; try discriminate. destruct e1; try discriminate. destruct e2; try discriminate.
  apply andb_prop in Pv as [P1 P2]. apply Nat.eqb_eq in P1. subst v. apply Qeq_bool_eq in P2. apply Qeq_eqR in P2.
  unfold respects in R. rewrite Forall_forall in R. pose proof (R _ Ini) as Hi. pose proof (R _ Inv) as Hv. simpl in Hi, Hv.
  rewrite Hv, Hi. rewrite P2. fold tgR.
  match goal with |- (sqrt ?x * sqrt ?x = _)%R => replace x with (tgR / rho t)%R by (unfold Rdiv; ring) end.
  apply sqrt_sqrt. unfold tgR, Q2R. simpl. apply Rlt_le. apply Rdiv_lt_0_compat; lra.
Qed.

(* ---- composite gates: determinants multiply along the product tree ---- *)
Definition detd (d : nat) (m : Cmat) : C := match d with 2%nat => det2 m | _ => det4 m end.
Definition sqd (d : nat) (m : Cmat) : Prop := match d with 2%nat => sq2 m | 4%nat => sq4 m | _ => False end.

Lemma sqd_tree S rho dimf t d : tree_dim dimf t = Some d -> (forall k, sqd (dimf k) (S k)) -> sqd d (interpT S rho t).
Proof.
  intros Hd HS. revert d Hd. induction t as [k|a IHa b IHb|a IHa b IHb|c a IHa]; intros d Hd; simpl in *.
  - injection Hd as <-. apply HS.
  - destruct (tree_dim dimf a) as [[|[|[|[|[|?]]]]]|]; try discriminate;
    destruct (tree_dim dimf b) as [[|[|[|[|[|?]]]]]|]; try discriminate; injection Hd as <-.
    + apply sq2_mul; [apply (IHa 2%nat) | apply (IHb 2%nat)]; auto.
    + apply sq4_mul; [apply (IHa 4%nat) | apply (IHb 4%nat)]; auto.
  - destruct (tree_dim dimf a) as [[|[|[|?]]]|]; try discriminate;
    destruct (tree_dim dimf b) as [[|[|[|?]]]|]; try discriminate; injection Hd as <-.
    apply sq4_kron; [apply (IHa 2%nat) | apply (IHb 2%nat)]; auto.
  - destruct d as [|[|[|[|[|?]]]]]; try (specialize (IHa _ Hd); simpl in IHa; contradiction).
    + apply sq2_scale. apply (IHa 2%nat); auto.
    + apply sq4_scale. apply (IHa 4%nat); auto.
Qed.

(* If every constituent sample S k has determinant cexp(x k) times that of its ideal counterpart S0 k, the composite
   has determinant cexp(sum of the x k, each counted with the multiplicity of its position: 2 inside a Kronecker
   factor) times the ideal composite's. *)
Fixpoint tree_exponent (x : nat -> C) (t : ptree) : C :=
  match t with
  | PSym k => x k
  | PMul a b => tree_exponent x a + tree_exponent x b
  | PKron a b => (tree_exponent x a + tree_exponent x a) + (tree_exponent x b + tree_exponent x b)
  | PScale _ a => tree_exponent x a
  end.

Theorem det_tree_ratio S S0 x rho dimf t d :
  tree_dim dimf t = Some d ->
  (forall k, sqd (dimf k) (S k)) -> (forall k, sqd (dimf k) (S0 k)) ->
  (forall k, detd (dimf k) (S k) = cexp (x k) * detd (dimf k) (S0 k)) ->
  detd d (interpT S rho t) = cexp (tree_exponent x t) * detd d (interpT S0 rho t).
Proof.
  intros Hd HS HS0 Hdet. revert d Hd. induction t as [k|a IHa b IHb|a IHa b IHb|c a IHa]; intros d Hd; simpl in *.
  - injection Hd as <-. apply Hdet.
  - destruct (tree_dim dimf a) as [[|[|[|[|[|?]]]]]|] eqn:Da; try discriminate;
    destruct (tree_dim dimf b) as [[|[|[|[|[|?]]]]]|] eqn:Db; try discriminate; injection Hd as <-.
    + pose proof (sqd_tree S rho dimf a 2%nat Da HS). pose proof (sqd_tree S rho dimf b 2%nat Db HS).
      pose proof (sqd_tree S0 rho dimf a 2%nat Da HS0). pose proof (sqd_tree S0 rho dimf b 2%nat Db HS0).
      simpl detd. rewrite !det2_mul by assumption. specialize (IHa 2%nat eq_refl). specialize (IHb 2%nat eq_refl). simpl detd in IHa, IHb.
      rewrite IHa, IHb, cexp_add. ring.
    + pose proof (sqd_tree S rho dimf a 4%nat Da HS). pose proof (sqd_tree S rho dimf b 4%nat Db HS).
      pose proof (sqd_tree S0 rho dimf a 4%nat Da HS0). pose proof (sqd_tree S0 rho dimf b 4%nat Db HS0).
      simpl detd. rewrite !det4_mul by assumption. specialize (IHa 4%nat eq_refl). specialize (IHb 4%nat eq_refl). simpl detd in IHa, IHb.
      rewrite IHa, IHb, cexp_add. ring.
  - destruct (tree_dim dimf a) as [[|[|[|?]]]|] eqn:Da; try discriminate;
    destruct (tree_dim dimf b) as [[|[|[|?]]]|] eqn:Db; try discriminate; injection Hd as <-.
    pose proof (sqd_tree S rho dimf a 2%nat Da HS). pose proof (sqd_tree S rho dimf b 2%nat Db HS).
    pose proof (sqd_tree S0 rho dimf a 2%nat Da HS0). pose proof (sqd_tree S0 rho dimf b 2%nat Db HS0).
    simpl detd. rewrite !det4_kron by assumption. specialize (IHa 2%nat eq_refl). specialize (IHb 2%nat eq_refl). simpl detd in IHa, IHb.
    rewrite IHa, IHb. rewrite !cexp_add. cbv [Cpown]. ring.
  - destruct d as [|[|[|[|[|?]]]]]; try (pose proof (sqd_tree S rho dimf a _ Hd HS) as F; simpl in F; contradiction).
    + pose proof (sqd_tree S rho dimf a 2%nat Hd HS). pose proof (sqd_tree S0 rho dimf a 2%nat Hd HS0).
      simpl detd. rewrite !det2_scale by assumption. specialize (IHa 2%nat Hd). simpl detd in IHa. rewrite IHa. ring.
    + pose proof (sqd_tree S rho dimf a 4%nat Hd HS). pose proof (sqd_tree S0 rho dimf a 4%nat Hd HS0).
      simpl detd. rewrite !det4_scale by assumption. specialize (IHa 4%nat Hd). simpl detd in IHa. rewrite IHa. ring.
Qed.

(* the symbolic exponent of a composite evaluates to the tree exponent of its constituents' exponents *)
Lemma tree_exponent_interp calls x rho t :
  tree_syms_ok (List.length calls) t = true ->
  (forall k c, nth_error calls k = Some c -> x k = interpC rho (call_exponent c)) ->
  tree_exponent x t = interpC rho (tree_exponent_expr calls t).
Proof.
  intros Hok Hx. induction t as [k|a IHa b IHb|a IHa b IHb|c a IHa]; simpl in *.
  - destruct (nth_error calls k) as [c|] eqn:E.
    + now apply Hx.
    + apply Nat.ltb_lt in Hok. apply nth_error_None in E. exfalso. apply (PeanoNat.Nat.lt_irrefl k). eapply PeanoNat.Nat.lt_le_trans; eauto.
  - apply andb_prop in Hok as [H1 H2]. now rewrite IHa, IHb.
  - apply andb_prop in Hok as [H1 H2]. now rewrite IHa, IHb.
  - now apply IHa.
Qed.

Definition comp_det_law (cp : composite) (spec : expr) : Prop :=
  forall rho (S S0 : nat -> Cmat) (x : nat -> C),
  (forall k, sqd (comp_dimf cp k) (S k)) -> (forall k, sqd (comp_dimf cp k) (S0 k)) ->
  (forall k, detd (comp_dimf cp k) (S k) = cexp (x k) * detd (comp_dimf cp k) (S0 k)) ->
  (forall k c, nth_error (cp_calls cp) k = Some c -> x k = interpC rho (call_exponent c)) ->
  det4 (interpT S rho (cp_tree cp)) = cexp (interpC rho spec) * det4 (interpT S0 rho (cp_tree cp)).

Lemma comp_det_law_of cp spec :
  tree_dim (comp_dimf cp) (cp_tree cp) = Some 4%nat ->
  tree_syms_ok (List.length (cp_calls cp)) (cp_tree cp) = true ->
  expr_eqb cf (comp_exponent cp) spec = true -> comp_det_law cp spec.
Proof.
  intros Hd Hok He rho S S0 x HS HS0 Hdet Hx.
  pose proof (det_tree_ratio S S0 x rho (comp_dimf cp) (cp_tree cp) 4%nat Hd HS HS0 Hdet) as H. simpl detd in H.
  rewrite H. f_equal. f_equal. rewrite (tree_exponent_interp _ x rho _ Hok Hx). now apply (expr_eq_sound cf).
Qed.

Theorem composite_det_laws :
  comp_det_law gen_comp_CNOT (ENeg (EMul tvar (EAdd iT1c iT1t))) /\
  comp_det_law gen_comp_CNOT_inv (ENeg (EMul tvar (EAdd iT1c iT1t))) /\
  comp_det_law gen_comp_ECR (ENeg (EMul (ESub tvar tg) (EAdd iT1c iT1t))) /\
  comp_det_law gen_comp_ECR_inv (ENeg (EMul (EAdd tvar tg) (EAdd iT1c iT1t))).
Proof.
  destruct comp_trees_typed as ((D1 & _) & (D2 & _) & (D3 & _) & (D4 & _)).
  destruct comp_syms_ok as (O1 & O2 & O3 & O4). destruct comp_exponents_spec as (X1 & X2 & X3 & X4).
  repeat split; apply comp_det_law_of; assumption.
Qed.
