(* Proofs about Model/Builders.v: reset = init, evaluation is repeatable and erasable, content only grows,
   runs with a copied gate set are repeatable. *)
From Coq Require Import List Bool ZArith Arith Lia.
Require Import QG.Base.Res QG.Model.Builders.
Import ListNotations.
Local Open Scope Z_scope.

(* ------------------------------------------------------------------ result-monad inversion *)
Lemma rbind_ok {A B} (x : res A) (f : A -> res B) b : rbind x f = Ok b -> exists a, x = Ok a /\ f a = Ok b.
Proof. destruct x; simpl; intros H; [eauto|discriminate]. Qed.

Ltac inv_ok :=
  repeat match goal with
         | H : rbind _ _ = Ok _ |- _ => apply rbind_ok in H; destruct H as (? & ? & H)
         | H : Ok _ = Ok _ |- _ => injection H; clear H; intros; subst
         | H : Err _ = Ok _ |- _ => discriminate H
         | H : (if ?b then _ else _) = Ok _ |- _ => destruct b eqn:?
         | H : (let (_, _) := ?x in _) = Ok _ |- _ => destruct x eqn:?
         end.

Section BP.
Variable M : Type.
Variable idM : M.
Notation op := (op M).
Notation entry := (entry M).

(* ================================================================== histories, generically *)
Section ExecGeneric.
Variables (S C : Type) (step : S -> op -> res (S * option C)).
Notation exec := (exec M S C step).

Lemma exec_app h1 : forall s h2,
  exec s (h1 ++ h2) = match exec s h1 with
                      | Ok (s1, o1) => rmap (fun x => (fst x, o1 ++ snd x)) (exec s1 h2)
                      | Err e => Err e
                      end.
Proof.
  induction h1 as [|o r IH]; intros s h2; simpl.
  - destruct (exec s h2) as [[s2 o2]|e]; reflexivity.
  - destruct (step s o) as [[s' c]|e]; simpl; auto.
    rewrite IH. destruct (exec s' r) as [[s1 o1]|e]; simpl; auto.
    destruct (exec s1 h2) as [[s2 o2]|e]; simpl; auto. destruct c; reflexivity.
Qed.

Lemma exec_cons_ok s o r s1 outs : exec s (o :: r) = Ok (s1, outs) ->
  exists sa c ob, step s o = Ok (sa, c) /\ exec sa r = Ok (s1, ob) /\ outs = match c with Some x => x :: ob | None => ob end.
Proof.
  simpl. destruct (step s o) as [[sa c]|e]; simpl; [|discriminate].
  destruct (exec sa r) as [[sb ob]|e] eqn:E; simpl; [|discriminate].
  intros H. injection H as <- <-. exists sa, c, ob. auto.
Qed.

Lemma exec_invariant (Inv : S -> Prop) :
  (forall s o s' c, Inv s -> step s o = Ok (s', c) -> Inv s') ->
  forall h s s1 outs, Inv s -> exec s h = Ok (s1, outs) -> Inv s1.
Proof.
  intros Hstep. induction h as [|o r IH]; intros s s1 outs Hi; simpl; intros H.
  - inv_ok. exact Hi.
  - apply exec_cons_ok in H. destruct H as (sa & c & ob & Hs & He & _). eapply IH; [eapply Hstep; eauto|eassumption].
Qed.

(* a relation preserved by every non-evaluating step (with equal answers) and absorbed by evaluation lets evaluations be
   erased from any history *)
Variable R : S -> S -> Prop.
Hypothesis R_step : forall s s' o s1 c, R s s' -> is_eval M o = false -> step s o = Ok (s1, c) ->
                                         c = None /\ exists s1', step s' o = Ok (s1', None) /\ R s1 s1'.
Hypothesis R_eval : forall s s' s1 c, R s s' -> step s (OEval M) = Ok (s1, c) -> R s1 s'.

Lemma erase_sim h : forall s s' s1 outs, R s s' -> exec s h = Ok (s1, outs) ->
  exists s1', exec s' (erase_evals M h) = Ok (s1', []) /\ R s1 s1'.
Proof.
  induction h as [|o r IH]; intros s s' s1 outs HR; simpl; intros H.
  - inv_ok. eauto.
  - apply exec_cons_ok in H. destruct H as (sa & c & ob & Hs & Hx & _).
    destruct (is_eval M o) eqn:Ev.
    + destruct o; try discriminate. simpl. eapply IH; [eapply R_eval; eauto|eassumption].
    + simpl. destruct (R_step _ _ _ _ _ HR Ev Hs) as (-> & sa' & Hs' & HR').
      destruct (IH _ _ _ _ HR' Hx) as (s1' & He & HR1). rewrite Hs'. simpl. rewrite He. simpl. eauto.
Qed.
End ExecGeneric.

(* ================================================================== grid class *)
Notation gst := (gstate M).
Notation gstep := (gstep M idM).
Notation gexec := (gexec M idM).

Lemma g_apply_args s g t i s' : g_apply M s g t i = Ok s' -> g_ctor_args M s' = g_ctor_args M s.
Proof. unfold g_apply. destruct g; intros H; inv_ok; reflexivity. Qed.
Lemma g_two_args s b t i k s' : g_two M s b t i k = Ok s' -> g_ctor_args M s' = g_ctor_args M s.
Proof. unfold g_two. intros H; inv_ok; reflexivity. Qed.

Lemma gstep_args s o s' c : gstep s o = Ok (s', c) -> g_ctor_args M s' = g_ctor_args M s.
Proof.
  destruct o; simpl; intros H; inv_ok; eauto using g_apply_args, g_two_args; try reflexivity.
  unfold g_eval in *. destruct (g_n M s) eqn:En, (g_depth M s) eqn:Ed; inv_ok; try discriminate.
  unfold g_ctor_args. simpl. now rewrite En, Ed.
Qed.

Lemma g_reset_init s : g_reset M s = g_init M (fst (g_ctor_args M s)) (snd (g_ctor_args M s)).
Proof. reflexivity. Qed.

(* reset_is_init, grid class: after ANY history that ran without raising, reset() yields exactly the state __init__ yields
   for the arguments the object was constructed with *)
Theorem g_reset_is_init n depth h s outs :
  gexec (g_init M n depth) h = Ok (s, outs) -> g_reset M s = g_init M n depth.
Proof.
  intros H. rewrite g_reset_init.
  assert (E : g_ctor_args M s = (n, depth)).
  { refine (exec_invariant gst _ gstep (fun x => g_ctor_args M x = (n, depth)) _ h (g_init M n depth) _ _ eq_refl H).
    intros s0 o s' c Hi Hs. rewrite (gstep_args _ _ _ _ Hs). exact Hi. }
  rewrite E. reflexivity.
Qed.

(* ... hence a reset object behaves like a newly constructed one on every continuation *)
Theorem g_reset_then_fresh n depth h s outs h' :
  gexec (g_init M n depth) h = Ok (s, outs) ->
  gexec (g_init M n depth) (h ++ OReset M :: h') = rmap (fun x => (fst x, outs ++ snd x)) (gexec (g_init M n depth) h').
Proof.
  intros H. unfold Builders.gexec in *. rewrite exec_app, H. simpl.
  fold (g_reset M s). change (Builders.g_reset M s) with (g_reset M s).
  rewrite (g_reset_is_init _ _ _ _ _ H).
  destruct (exec M gst _ gstep (g_init M n depth) h') as [[s2 o2]|e]; reflexivity.
Qed.

(* evaluation: returns the columns, flips only the container flag; a second evaluation returns the same and changes nothing *)
Theorem g_eval_repeatable s c s1 :
  g_eval M s = Ok (c, s1) ->
  g_eval M s1 = Ok (c, s1) /\ c = g_content M s /\ g_content M s1 = g_content M s /\
  (g_n M s1, g_depth M s1, g_j M s1, g_s M s1, g_phi M s1, g_grid M s1) = (g_n M s, g_depth M s, g_j M s, g_s M s, g_phi M s, g_grid M s).
Proof.
  unfold g_eval. destruct (g_n M s) eqn:En; [discriminate|]. destruct (g_depth M s) eqn:Ed; [discriminate|].
  intros H. injection H as <- <-. cbn [g_n g_depth g_j g_s g_phi g_grid].
  unfold g_content, g_columns. cbn [g_n g_depth g_j g_s g_phi g_grid]. rewrite Ed. auto.
Qed.

(* states that differ only in the container flag *)
Definition g_core (s : gst) := (g_n M s, g_depth M s, g_j M s, g_s M s, g_phi M s, g_grid M s).
Definition g_with_arr (b : bool) (s : gst) : gst := mkG M (g_n M s) (g_depth M s) (g_j M s) (g_s M s) (g_phi M s) (g_grid M s) b.

Lemma g_core_with_arr s s' : g_core s = g_core s' -> s' = g_with_arr (g_arr M s') s.
Proof. destruct s, s'. unfold g_core, g_with_arr. simpl. intros H. injection H as -> -> -> -> -> ->. reflexivity. Qed.

Lemma g_apply_arr b s g t i :
  g_apply M (g_with_arr b s) g t i = rmap (g_with_arr b) (g_apply M s g t i).
Proof.
  unfold g_apply, g_with_arr. cbn [g_n g_depth g_j g_s g_phi g_grid g_arr].
  destruct g; try reflexivity.
  destruct (g_s M s <? g_n M s)%nat.
  - destruct (g_place M (g_grid M s) i (g_j M s) (En2 t)); reflexivity.
  - destruct (g_s M s =? g_n M s)%nat; [|reflexivity].
    destruct (g_place M (g_grid M s) i (Datatypes.S (g_j M s)) (En2 t)); reflexivity.
Qed.
Lemma g_two_arr b s cn t i k :
  g_two M (g_with_arr b s) cn t i k = rmap (g_with_arr b) (g_two M s cn t i k).
Proof.
  unfold g_two, g_with_arr. cbn [g_n g_depth g_j g_s g_phi g_grid g_arr].
  destruct (negb (Z.abs (i - k) =? 1)); [reflexivity|].
  destruct (g_s M s <? g_n M s)%nat; [|destruct (g_s M s =? g_n M s)%nat; [|reflexivity]].
  all: destruct (read2 (g_phi M s) i k); simpl; [|reflexivity].
  all: match goal with |- context [g_place M ?a ?b ?c ?d] => destruct (g_place M a b c d) end; simpl; [|reflexivity].
  all: destruct cn; simpl; [destruct (cnot_phases (g_phi M s) i k)|]; reflexivity.
Qed.

Definition arr_after (o : op) (b : bool) : bool := match o with OEval _ => true | OReset _ => false | _ => b end.
Lemma gstep_arr b s o :
  gstep (g_with_arr b s) o = rmap (fun x => (g_with_arr (arr_after o b) (fst x), snd x)) (gstep s o).
Proof.
  destruct o; cbn [Builders.gstep arr_after].
  - rewrite g_apply_arr. destruct (g_apply M s g t i); reflexivity.
  - reflexivity.
  - rewrite g_apply_arr. destruct (g_apply M s K2 idM i); reflexivity.
  - unfold g_with_arr at 1. cbn [g_n g_depth g_j g_s g_phi g_grid g_arr]. destruct (rz_phases (g_phi M s) i theta); reflexivity.
  - unfold g_with_arr at 1. cbn [g_phi]. destruct (lget (g_phi M s) i); cbn [rbind]; [|reflexivity].
    rewrite g_apply_arr. destruct (g_apply M s K2 t i); reflexivity.
  - rewrite g_two_arr. destruct (g_two M s true t i k); reflexivity.
  - rewrite g_two_arr. destruct (g_two M s false t i k); reflexivity.
  - unfold g_eval, g_with_arr at 1 2. cbn [g_n g_depth g_j g_s g_phi g_grid g_arr].
    destruct (g_n M s) eqn:En; [reflexivity|]. destruct (g_depth M s) eqn:Ed; [reflexivity|]. simpl.
    unfold g_columns, g_with_arr. cbn [g_n g_depth g_j g_s g_phi g_grid g_arr]. rewrite ?En, ?Ed. reflexivity.
  - reflexivity.
Qed.

Lemma g_core_with_arr' b s : g_core (g_with_arr b s) = g_core s.
Proof. reflexivity. Qed.

Lemma gstep_core s s' o s1 c : g_core s = g_core s' -> gstep s o = Ok (s1, c) ->
  exists s1', gstep s' o = Ok (s1', c) /\ g_core s1 = g_core s1'.
Proof.
  intros HR H. rewrite (g_core_with_arr _ _ HR). rewrite gstep_arr, H. simpl.
  eexists; split; [reflexivity|]. reflexivity.
Qed.

Lemma g_core_content s s' : g_core s = g_core s' -> g_content M s = g_content M s'.
Proof. unfold g_core, g_content, g_columns. intros H. injection H as _ -> _ _ _ ->. reflexivity. Qed.

(* evaluations can be erased from any grid-class history: the other operations do not see the container flag *)
Theorem g_eval_erasure h s s1 outs :
  gexec s h = Ok (s1, outs) ->
  exists s1', gexec s (erase_evals M h) = Ok (s1', []) /\ g_core s1 = g_core s1' /\ g_content M s1 = g_content M s1'.
Proof.
  intros H.
  destruct (erase_sim gst _ gstep (fun a b => g_core a = g_core b)) with (h := h) (s := s) (s' := s) (s1 := s1) (outs := outs)
    as (s1' & He & HR); auto.
  - intros a a' o a1 c HR Ev Hs. destruct (gstep_core _ _ _ _ _ HR Hs) as (a1' & Hs' & HR').
    assert (c = None). { destruct o; simpl in Hs; inv_ok; try reflexivity; discriminate. }
    subst c. eauto.
  - intros a a' a1 c HR Hs. simpl in Hs. inv_ok. destruct x as [cc ss]. simpl.
    destruct (g_eval_repeatable _ _ _ H0) as (_ & _ & _ & E). unfold g_core. simpl in E. rewrite E. exact HR.
  - exists s1'. repeat split; auto using g_core_content.
Qed.

(* ================================================================== layered class *)
Notation lst := (lstate M).
Notation lstep := (lstep M idM).
Notation lexec := (lexec M idM).

Lemma l_bump_args s phi mp w : l_ctor_args M (l_bump M s phi mp w) = l_ctor_args M s.
Proof. unfold l_bump. destruct (_ =? _)%nat; reflexivity. Qed.
Lemma lstep_args s o s' c : lstep s o = Ok (s', c) -> l_ctor_args M s' = l_ctor_args M s.
Proof.
  destruct o; simpl; intros H; unfold l_apply, l_two, l_eval in *; inv_ok; try apply l_bump_args; try reflexivity.
  all: try (destruct g; inv_ok; try discriminate; apply l_bump_args).
Qed.

Theorem l_reset_is_init n bk h s outs :
  lexec (l_init M n bk) h = Ok (s, outs) -> l_reset M s = l_init M n bk.
Proof.
  intros H.
  assert (E : l_ctor_args M s = (n, bk)).
  { refine (exec_invariant lst _ lstep (fun x => l_ctor_args M x = (n, bk)) _ h (l_init M n bk) _ _ eq_refl H).
    intros s0 o s' c Hi Hs. rewrite (lstep_args _ _ _ _ Hs). exact Hi. }
  unfold l_reset, l_init. unfold l_ctor_args in E. injection E as -> ->. reflexivity.
Qed.
Theorem l_reset_then_fresh n bk h s outs h' :
  lexec (l_init M n bk) h = Ok (s, outs) ->
  lexec (l_init M n bk) (h ++ OReset M :: h') = rmap (fun x => (fst x, outs ++ snd x)) (lexec (l_init M n bk) h').
Proof.
  intros H. unfold Builders.lexec in *. rewrite exec_app, H. simpl.
  rewrite (l_reset_is_init _ _ _ _ _ H).
  destruct (exec M lst _ lstep (l_init M n bk) h') as [[s2 o2]|e]; reflexivity.
Qed.

Theorem l_eval_repeatable s c s1 :
  l_eval M s = Ok (c, s1) -> l_eval M s1 = Ok (c, s1) /\ c = l_content M s /\ s1 = s.
Proof. unfold l_eval. intros H. inv_ok. auto. Qed.

Theorem l_eval_erasure h s s1 outs :
  lexec s h = Ok (s1, outs) -> lexec s (erase_evals M h) = Ok (s1, []).
Proof.
  intros H.
  destruct (erase_sim lst _ lstep eq) with (h := h) (s := s) (s' := s) (s1 := s1) (outs := outs) as (s1' & He & HR); auto.
  - intros a a' o a1 c <- Ev Hs.
    assert (c = None). { destruct o; simpl in Hs; inv_ok; try reflexivity; discriminate. }
    subst c. eauto.
  - intros a a' a1 c <- Hs. simpl in Hs. unfold l_eval in Hs. inv_ok. reflexivity.
  - subst s1'. exact He.
Qed.

(* content only grows (until reset): what a later evaluation returns extends what an earlier one returned *)
Lemma l_bump_content s phi mp w : exists extra, l_content M (l_bump M s phi mp w) = l_content M s ++ extra.
Proof. unfold l_bump, l_content. destruct (_ =? _)%nat; simpl; [eauto|exists []; now rewrite app_nil_r]. Qed.
Lemma lstep_content s o s' c : is_reset M o = false -> lstep s o = Ok (s', c) ->
  exists extra, l_content M s' = l_content M s ++ extra.
Proof.
  intros Hr. destruct o; simpl; intros H; unfold l_apply, l_two, l_eval in *; inv_ok; try apply l_bump_content;
    try (exists []; now rewrite app_nil_r); try discriminate.
  all: destruct g; inv_ok; try discriminate; apply l_bump_content.
Qed.
Theorem l_content_grows h : forall s s1 outs, forallb (fun o => negb (is_reset M o)) h = true ->
  lexec s h = Ok (s1, outs) -> exists extra, l_content M s1 = l_content M s ++ extra.
Proof.
  induction h as [|o r IH]; intros s s1 outs Hh; simpl; intros H.
  - inv_ok. exists []. now rewrite app_nil_r.
  - simpl in Hh. apply andb_true_iff in Hh. destruct Hh as [Ho Hr]. apply negb_true_iff in Ho.
    unfold Builders.lexec in *. apply exec_cons_ok in H. destruct H as (sa & c & ob & Hs & Hx & _).
    destruct (lstep_content _ _ _ _ Ho Hs) as (e1 & E1). destruct (IH _ _ _ Hr Hx) as (e2 & E2).
    exists (e1 ++ e2). rewrite E2, E1. now rewrite app_assoc.
Qed.

(* ================================================================== index class *)
Notation bst := (bstate M).
Notation bstep := (bstep M idM).
Notation bexec := (bexec M idM).

Definition bap_ok (g : gkind) (j : Z) : bool :=
  match g with KNotArray => false | K4 => negb (j =? -1) | _ => true end.
Lemma b_apply_spec s phi g t i j :
  b_apply M s phi g t i j =
  if bap_ok g j then Ok (mkB M (b_n M s) (b_layout_arg M s) phi (b_items M s ++ [(t, [i; j])])) else Err ValueError.
Proof. unfold b_apply, bap_ok. destruct g; try reflexivity. destruct (j =? -1); reflexivity. Qed.

Lemma bstep_args s o s' c : bstep s o = Ok (s', c) -> b_ctor_args M s' = b_ctor_args M s.
Proof.
  destruct o; simpl; unfold b_two, b_eval; rewrite ?b_apply_spec; intros H; inv_ok;
    rewrite ?b_apply_spec in *; inv_ok; try reflexivity.
Qed.

Theorem b_reset_is_init n lay h s outs :
  bexec (b_init M n lay) h = Ok (s, outs) -> b_reset M s = b_init M n lay.
Proof.
  intros H.
  assert (E : b_ctor_args M s = (n, lay)).
  { refine (exec_invariant bst _ bstep (fun x => b_ctor_args M x = (n, lay)) _ h (b_init M n lay) _ _ eq_refl H).
    intros s0 o s' c Hi Hs. rewrite (bstep_args _ _ _ _ Hs). exact Hi. }
  unfold b_reset, b_init. unfold b_ctor_args in E. injection E as -> ->. reflexivity.
Qed.
Theorem b_reset_then_fresh n lay h s outs h' :
  bexec (b_init M n lay) h = Ok (s, outs) ->
  bexec (b_init M n lay) (h ++ OReset M :: h') = rmap (fun x => (fst x, outs ++ snd x)) (bexec (b_init M n lay) h').
Proof.
  intros H. unfold Builders.bexec in *. rewrite exec_app, H. simpl.
  rewrite (b_reset_is_init _ _ _ _ _ H).
  destruct (exec M bst _ bstep (b_init M n lay) h') as [[s2 o2]|e]; reflexivity.
Qed.

(* the in-place [q,-1] -> [q] normalisation is idempotent *)
Lemma norm_item_idem it : norm_item M (norm_item M it) = norm_item M it.
Proof.
  destruct it as [t qs]. unfold norm_item. simpl.
  destruct qs as [|q [|m [|x r]]]; simpl; try reflexivity.
  destruct (m =? -1) eqn:E; simpl; [reflexivity|]. now rewrite E.
Qed.
Lemma map_norm_idem l : map (norm_item M) (map (norm_item M) l) = map (norm_item M) l.
Proof. rewrite map_map. apply map_ext. intros. apply norm_item_idem. Qed.

Theorem b_eval_repeatable s c s1 :
  b_eval M s = Ok (c, s1) ->
  b_eval M s1 = Ok (c, s1) /\ c = b_content M s /\ b_content M s1 = b_content M s /\
  (b_n M s1, b_layout_arg M s1, b_phi M s1) = (b_n M s, b_layout_arg M s, b_phi M s).
Proof.
  unfold b_eval, b_content. destruct (b_items M s) as [|it r] eqn:E.
  - intros H. injection H as <- <-. rewrite E. auto.
  - remember (it :: r) as l. intros H. injection H as <- <-. cbn [b_items b_n b_layout_arg b_phi].
    destruct (map (norm_item M) l) as [|y ys] eqn:El; [subst l; discriminate|].
    rewrite <- El, map_norm_idem. auto.
Qed.

(* states equal up to normalisation of their items *)
Definition b_rel (s s' : bst) : Prop :=
  b_n M s = b_n M s' /\ b_layout_arg M s = b_layout_arg M s' /\ b_phi M s = b_phi M s' /\ b_content M s = b_content M s'.

Lemma b_rel_refl s : b_rel s s.
Proof. repeat split. Qed.

(* what a non-evaluating, non-resetting operation does: new phases and appended items, as a function of the phases only *)
Definition b_effect (phi : list (Z * Z)) (o : op) : res (list (Z * Z) * list (M * list Z)) :=
  match o with
  | OApply _ g t i => if bap_ok g (-1) then Ok (phi, [(t, [i; -1])]) else Err ValueError
  | OApplyJ _ g t i j => if bap_ok g j then Ok (phi, [(t, [i; j])]) else Err ValueError
  | OI _ i => Ok (phi, [(idM, [i; -1])])
  | ORz _ i th => phi' <- rz_phases phi i th ;; Ok (phi', [])
  | OX _ t i => _ <- lget phi i ;; Ok (phi, [(t, [i; -1])])
  | OCNOT _ t i k =>
      _ <- read2 phi i k ;; phi' <- cnot_phases phi i k ;;
      if i <? k then (if bap_ok K4 k then Ok (phi', [(t, [i; k])]) else Err ValueError)
      else (if bap_ok K4 i then Ok (phi', [(t, [k; i])]) else Err ValueError)
  | OECR _ t i k =>
      _ <- read2 phi i k ;;
      if i <? k then (if bap_ok K4 k then Ok (phi, [(t, [i; k])]) else Err ValueError)
      else (if bap_ok K4 i then Ok (phi, [(t, [k; i])]) else Err ValueError)
  | OEval _ | OReset _ => Ok (phi, [])
  end.

Lemma bstep_effect s o : is_eval M o = false -> is_reset M o = false ->
  bstep s o = rmap (fun pe => (mkB M (b_n M s) (b_layout_arg M s) (fst pe) (b_items M s ++ snd pe), None)) (b_effect (b_phi M s) o).
Proof.
  intros Ev Rs. destruct o; try discriminate; cbn [Builders.bstep b_effect]; unfold b_two; rewrite ?b_apply_spec.
  - destruct (bap_ok g (-1)); reflexivity.
  - destruct (bap_ok g j); reflexivity.
  - reflexivity.
  - destruct (rz_phases (b_phi M s) i theta); simpl; [rewrite app_nil_r|]; reflexivity.
  - destruct (lget (b_phi M s) i); simpl; reflexivity.
  - destruct (read2 (b_phi M s) i k); cbn [rbind]; [|reflexivity].
    destruct (cnot_phases (b_phi M s) i k); cbn [rbind]; [|reflexivity].
    destruct (i <? k); rewrite b_apply_spec; [destruct (bap_ok K4 k)|destruct (bap_ok K4 i)]; reflexivity.
  - destruct (read2 (b_phi M s) i k); cbn [rbind]; [|reflexivity].
    destruct (i <? k); rewrite b_apply_spec; [destruct (bap_ok K4 k)|destruct (bap_ok K4 i)]; reflexivity.
Qed.

Lemma bstep_rel s s' o s1 c : b_rel s s' -> is_eval M o = false -> bstep s o = Ok (s1, c) ->
  c = None /\ exists s1', bstep s' o = Ok (s1', None) /\ b_rel s1 s1'.
Proof.
  intros (Hn & Hl & Hp & Hc) Ev H. unfold b_content in Hc.
  destruct (is_reset M o) eqn:Rs.
  - destruct o; try discriminate. simpl in H. injection H as <- <-. split; auto.
    eexists; split; [reflexivity|]. unfold b_rel, b_reset, b_content. cbn [b_n b_layout_arg b_phi b_items]. rewrite Hn, Hl. auto.
  - rewrite bstep_effect in H by assumption. rewrite bstep_effect by assumption. rewrite <- Hp.
    destruct (b_effect (b_phi M s) o) as [[phi' extra]|e]; simpl in *; [|discriminate].
    injection H as <- <-. split; auto. eexists; split; [reflexivity|].
    unfold b_rel, b_content. cbn [b_n b_layout_arg b_phi b_items fst snd]. rewrite !map_app, Hc, Hn, Hl. auto.
Qed.

Theorem b_eval_erasure h s s1 outs :
  bexec s h = Ok (s1, outs) ->
  exists s1', bexec s (erase_evals M h) = Ok (s1', []) /\ b_rel s1 s1'.
Proof.
  intros H.
  destruct (erase_sim bst _ bstep b_rel) with (h := h) (s := s) (s' := s) (s1 := s1) (outs := outs) as (s1' & He & HR);
    auto using b_rel_refl.
  - intros; eapply bstep_rel; eauto.
  - intros a a' a1 c (Hn & Hl & Hp & Hc) Hs. simpl in Hs. inv_ok. destruct x as [cc ss]. simpl.
    destruct (b_eval_repeatable _ _ _ H0) as (_ & _ & E1 & E2). injection E2 as E2 E3 E4.
    unfold b_rel. rewrite E1, E2, E3, E4. auto.
  - eauto.
Qed.

(* an operation after an evaluation is included in the next evaluation: content grows by exactly the appended item *)
Lemma bstep_content s o s' c : is_reset M o = false -> bstep s o = Ok (s', c) ->
  exists extra, b_content M s' = b_content M s ++ extra.
Proof.
  intros Hr H. destruct (is_eval M o) eqn:Ev.
  - destruct o; try discriminate. simpl in H. apply rbind_ok in H. destruct H as ([cc ss] & He & H). injection H as <- _.
    destruct (b_eval_repeatable _ _ _ He) as (_ & _ & E1 & _). simpl. exists []. rewrite E1. now rewrite app_nil_r.
  - rewrite bstep_effect in H by assumption. destruct (b_effect (b_phi M s) o) as [[phi' extra]|e]; simpl in H; [|discriminate].
    injection H as <- _. unfold b_content. cbn [b_items]. rewrite map_app. eauto.
Qed.
Theorem b_content_grows h : forall s s1 outs, forallb (fun o => negb (is_reset M o)) h = true ->
  bexec s h = Ok (s1, outs) -> exists extra, b_content M s1 = b_content M s ++ extra.
Proof.
  induction h as [|o r IH]; intros s s1 outs Hh; simpl; intros H.
  - inv_ok. exists []. now rewrite app_nil_r.
  - simpl in Hh. apply andb_true_iff in Hh. destruct Hh as [Ho Hr]. apply negb_true_iff in Ho.
    unfold Builders.bexec in *. apply exec_cons_ok in H. destruct H as (sa & c & ob & Hs & Hx & _).
    destruct (bstep_content _ _ _ _ Ho Hs) as (e1 & E1). destruct (IH _ _ _ Hr Hx) as (e2 & E2).
    exists (e1 ++ e2). rewrite E2, E1. now rewrite app_assoc.
Qed.

(* ================================================================== "gates applied after an evaluation are included in the next one" *)
(* The content returned by the LAST evaluation of a history equals the content returned by evaluating once after the same
   operations with every earlier evaluation erased. *)
Theorem l_eval_then_extend h s s1 outs :
  lexec s (h ++ [OEval M]) = Ok (s1, outs) ->
  exists s2 c, lexec s (erase_evals M h ++ [OEval M]) = Ok (s2, [c]) /\ last outs c = c /\ outs <> [] /\ c = l_content M s2.
Proof.
  unfold Builders.lexec. rewrite !exec_app.
  destruct (exec M lst _ lstep s h) as [[sa oa]|e] eqn:E; [|discriminate].
  fold (lexec s h) in E. pose proof (l_eval_erasure _ _ _ _ E) as E'. unfold Builders.lexec in E'. rewrite E'. cbn. intros H. injection H as <- <-.
  exists sa, (l_mplist M sa). rewrite last_last. repeat split; auto. destruct oa; discriminate.
Qed.

Theorem b_eval_then_extend h s s1 outs :
  bexec s (h ++ [OEval M]) = Ok (s1, outs) ->
  exists s2 c, bexec s (erase_evals M h ++ [OEval M]) = Ok (s2, [c]) /\ last outs c = c /\ outs <> [] /\ c = b_content M s2.
Proof.
  unfold Builders.bexec. rewrite !exec_app.
  destruct (exec M bst _ bstep s h) as [[sa oa]|e] eqn:E; [|discriminate].
  fold (bexec s h) in E. destruct (b_eval_erasure _ _ _ _ E) as (sa' & E' & (Hn & Hl & Hp & Hc)). unfold Builders.bexec in E'. rewrite E'.
  cbn [exec Builders.bstep rbind rmap fst snd].
  assert (Ev : forall x, exists x1, b_eval M x = Ok (b_content M x, x1) /\ b_content M x1 = b_content M x).
  { intros x. unfold b_eval, b_content. destruct (b_items M x) eqn:Ei.
    - eexists; split; [reflexivity|]. now rewrite Ei.
    - eexists; split; [reflexivity|]. cbn [b_items]. now rewrite map_norm_idem. }
  destruct (Ev sa) as (x1 & -> & _). destruct (Ev sa') as (x1' & -> & Hx). cbn. intros H. injection H as <- <-.
  exists x1', (b_content M sa'). rewrite Hc, last_last. repeat split; auto. destruct oa; discriminate.
Qed.

Theorem g_eval_then_extend h s s1 outs :
  gexec s (h ++ [OEval M]) = Ok (s1, outs) ->
  exists s2 c, gexec s (erase_evals M h ++ [OEval M]) = Ok (s2, [c]) /\ last outs c = c /\ outs <> [] /\ c = g_content M s2.
Proof.
  unfold Builders.gexec. rewrite !exec_app.
  destruct (exec M gst _ gstep s h) as [[sa oa]|e] eqn:E; [|discriminate].
  fold (gexec s h) in E. destruct (g_eval_erasure _ _ _ _ E) as (sa' & E' & Hcore & Hc). unfold Builders.gexec in E'. rewrite E'.
  cbn [exec Builders.gstep rbind rmap fst snd].
  destruct (g_eval M sa) as [[c1 x1]|e1] eqn:G1; cbn; [|discriminate].
  destruct (gstep_core sa sa' (OEval M) x1 (Some c1) Hcore) as (x1' & G2 & Hcore').
  { cbn. rewrite G1. reflexivity. }
  cbn in G2. destruct (g_eval M sa') as [[c2 x2]|e2] eqn:G2'; cbn in G2; [|discriminate]. injection G2 as -> ->.
  intros H. injection H as <- <-. exists x1', c1. rewrite last_last. repeat split; auto.
  - destruct oa; discriminate.
  - destruct (g_eval_repeatable _ _ _ G2') as (_ & -> & E2 & _). now rewrite E2.
Qed.

(* ================================================================== the shots loop *)
Section ShotsProofs.
Variables (G call : Type) (gs_step : G -> call -> M * G).
Variables (S C : Type) (step : S -> op -> res (S * option C)) (phi_of : S -> list (Z * Z)).
Notation shot := (shot M G call gs_step S C step phi_of).
Notation shots_loop := (shots_loop M G call gs_step S C step phi_of).
Notation run := (run M G call gs_step S C step phi_of).

(* every shot of a run sees the same thing: each starts from a fresh builder and a copy of the same gate-set state *)
Theorem shots_all_equal s0 g p k l : shots_loop s0 g p k = Ok l ->
  length l = k /\ forall c, In c l -> shot s0 g p = Ok c.
Proof.
  revert l. induction k as [|k IH]; simpl; intros l H.
  - inv_ok. split; [reflexivity|]. intros c [].
  - destruct (shot s0 g p) as [c0|e] eqn:Es; simpl in H; [|discriminate].
    destruct (shots_loop s0 g p k) as [r|e] eqn:El; simpl in H; [|discriminate].
    injection H as <-. destruct (IH _ eq_refl) as [Hl Hin]. split; [simpl; now rewrite Hl|].
    intros c [<-|Hc]; auto.
Qed.

(* run_repeatable: a run returns the simulator's gate set unchanged, so running again gives the identical result —
   for ANY gate set whose answers are a function of its own state (deterministic; stateful or not) *)
Theorem run_repeatable s0 g p k l g' :
  run s0 g p k = Ok (l, g') -> g' = g /\ run s0 g' p k = Ok (l, g').
Proof.
  unfold Builders.run. destruct (shots_loop s0 g p k) as [r|e] eqn:El; simpl; [|discriminate].
  intros H. injection H as <- <-. split; [reflexivity|]. rewrite El. reflexivity.
Qed.
End ShotsProofs.

End BP.
