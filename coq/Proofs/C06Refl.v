(* C06 — the derived two-qubit error handed to the cross-resonance pulses:
     (1 - 3/4 p_cr)^4 * (1 - 3/4 p_ctr)^2 * (1 - 3/4 p_trg)^k = (1 - 3/4 p_gate)^2,
   i.e. p_cr = (4/3) (1 - sqrt(sqrt((1 - 3/4 p_gate)^2 / ((1 - 3/4 p_ctr)^2 (1 - 3/4 p_trg)^k)))), with k = 1 for CNOT, ECR, reversed ECR
   and k = 3 for the reversed CNOT (the package's derivation; k counts the target's single-qubit pulses for both CNOTs). *)
From Coq Require Import QArith List String Bool.
Require Import QG.Sym.Expr QG.Sym.ExprEq QG.Sym.Norm QG.Model.GateModel QG.Model.Composite QG.Proofs.GateRefl QG.Proofs.C07Refl QG.Gen.GenGates.
Import ListNotations.
Close Scope Q_scope.
Open Scope string_scope.

Definition one_minus_34 (v : string) : expr := ESub (EQ (1#1)%Q) (EMul (EQ (3#4)%Q) (EVar (vi v))).
Definition pcr_formula_ok (cp : composite) (k : nat) : bool :=
  match first_cr_pcr cp with
  | Some (EMul (EQ c) (ESub (EQ one) (EVar o2))) =>
      Qeq_bool c (4#3)%Q && Qeq_bool one (1#1)%Q &&
      match lookup_def o2 (cp_defs cp) with
      | Some (OSqrt (EVar o1)) =>
          match lookup_def o1 (cp_defs cp) with
          | Some (OSqrt (EMul num (EVar iv))) =>
              expr_eqb cf num (EPow (one_minus_34 "p2") 2) &&
              match lookup_def iv (cp_defs cp) with
              | Some (OInv den) => expr_eqb cf den (EMul (EPow (one_minus_34 "pc") 2) (EPow (one_minus_34 "pt") k))
              | _ => false end
          | _ => false end
      | _ => false end
  | _ => false end.
Lemma pcr_formulas :
  pcr_formula_ok gen_comp_CNOT 1 && pcr_formula_ok gen_comp_CNOT_inv 3 && pcr_formula_ok gen_comp_ECR 1 && pcr_formula_ok gen_comp_ECR_inv 1 = true.
Proof. vm_compute. reflexivity. Qed.
