(* C17 — the Hellinger distance `hell` of Model/Hellinger.v is a metric bounded by 1 on probability vectors.
   Everything here is about the mathematical model; the tie to the translated source is Proofs/HellingerBridge.v. *)
From Coq Require Import Reals List Arith Lra Lia Psatz.
Require Import QG.Base.Res QG.Model.Hellinger.
Import ListNotations.
Local Open Scope R_scope.

Notation nonneg := (Forall (fun x : R => 0 <= x)).

(* ------------------------------------------------------------------ sums *)
Lemma sumR_cons x l : sumR (x :: l) = x + sumR l.
Proof. reflexivity. Qed.
Lemma sqdiff_cons a p b q : sqdiff (a :: p) (b :: q) = (sqrt b - sqrt a) ^ 2 :: sqdiff p q.
Proof. reflexivity. Qed.
Lemma bc_cons a p b q : bc (a :: p) (b :: q) = sqrt (a * b) + bc p q.
Proof. reflexivity. Qed.
Lemma sumR_nonneg l : nonneg l -> 0 <= sumR l.
Proof. induction 1; simpl; lra. Qed.

Lemma sqdiff_nonneg p q : nonneg (sqdiff p q).
Proof.
  revert q. induction p as [|a p IH]; intros [|b q]; simpl; constructor.
  - apply pow2_ge_0.
  - apply IH.
Qed.

Lemma sqdiff_sum_nonneg p q : 0 <= sumR (sqdiff p q).
Proof. apply sumR_nonneg, sqdiff_nonneg. Qed.

Lemma bc_nonneg p q : 0 <= bc p q.
Proof.
  unfold bc. revert q. induction p as [|a p IH]; intros [|b q]; simpl; try lra.
  pose proof (sqrt_pos (a * b)). specialize (IH q). lra.
Qed.

Lemma sqdiff_sym p q : sqdiff p q = sqdiff q p.
Proof.
  unfold sqdiff. revert q. induction p as [|a p IH]; intros [|b q]; simpl; auto.
  f_equal; [ring | apply IH].
Qed.

(* sum (sqrt q_i - sqrt p_i)^2 = sum p + sum q - 2 sum sqrt (p_i q_i) *)
Lemma sqdiff_expand p q :
  length p = length q -> nonneg p -> nonneg q ->
  sumR (sqdiff p q) = sumR p + sumR q - 2 * bc p q.
Proof.
  unfold bc, sqdiff. revert q. induction p as [|a p IH]; intros [|b q] L Hp Hq; simpl in *; try discriminate; try lra.
  apply Forall_inv in Hp as Ha. apply Forall_inv in Hq as Hb.
  rewrite (IH q); auto; try (eapply Forall_inv_tail; eassumption).
  rewrite sqrt_mult by assumption.
  pose proof (sqrt_sqrt a Ha). pose proof (sqrt_sqrt b Hb).
  replace ((sqrt b - sqrt a) * ((sqrt b - sqrt a) * 1)) with (sqrt b * sqrt b + sqrt a * sqrt a - 2 * (sqrt a * sqrt b)) by ring.
  lra.
Qed.

Lemma sqrt2_pos : 0 < sqrt 2.
Proof. apply sqrt_lt_R0; lra. Qed.

Lemma inv_sqrt2_pos : 0 < 1 / sqrt 2.
Proof. apply Rdiv_lt_0_compat; [lra | apply sqrt2_pos]. Qed.

(* ------------------------------------------------------------------ formula and bounds *)
Lemma bc_le_1 n p q : pvec n p -> pvec n q -> bc p q <= 1.
Proof.
  intros (Lp & Np & Sp) (Lq & Nq & Sq).
  pose proof (sqdiff_sum_nonneg p q) as H.
  rewrite sqdiff_expand in H by (auto; congruence). lra.
Qed.

Lemma hell_formula n p q : pvec n p -> pvec n q -> hell p q = sqrt (1 - bc p q).
Proof.
  intros Pp Pq. pose proof (bc_le_1 n p q Pp Pq) as B.
  destruct Pp as (Lp & Np & Sp), Pq as (Lq & Nq & Sq).
  unfold hell. rewrite sqdiff_expand by (auto; congruence). rewrite Sp, Sq.
  replace (1 + 1 - 2 * bc p q) with (2 * (1 - bc p q)) by ring.
  rewrite sqrt_mult by lra.
  pose proof sqrt2_pos. field. lra.
Qed.

Lemma hell_nonneg p q : 0 <= hell p q.
Proof.
  unfold hell. apply Rmult_le_pos; [left; apply inv_sqrt2_pos | apply sqrt_pos].
Qed.

Lemma hell_bounds n p q : pvec n p -> pvec n q -> 0 <= hell p q <= 1.
Proof.
  intros Pp Pq. split; [apply hell_nonneg|].
  rewrite (hell_formula n) by assumption.
  rewrite <- sqrt_1 at 2. apply sqrt_le_1_alt. pose proof (bc_nonneg p q). lra.
Qed.

Lemma hell_sym p q : hell p q = hell q p.
Proof. unfold hell. now rewrite sqdiff_sym. Qed.

(* ------------------------------------------------------------------ H = 0 <-> p = q *)
Lemma sqdiff_zero p q :
  length p = length q -> nonneg p -> nonneg q -> sumR (sqdiff p q) = 0 -> p = q.
Proof.
  revert q. induction p as [|a p IH]; intros [|b q] L Hp Hq S; try discriminate L; auto.
  apply Forall_inv in Hp as Ha. apply Forall_inv in Hq as Hb.
  apply Forall_inv_tail in Hp. apply Forall_inv_tail in Hq.
  pose proof (sqdiff_sum_nonneg p q) as T. rewrite sqdiff_cons, sumR_cons in S.
  pose proof (pow2_ge_0 (sqrt b - sqrt a)) as Q.
  assert ((sqrt b - sqrt a) ^ 2 = 0) as Z by lra.
  assert (sqrt b = sqrt a) as E by nra.
  f_equal.
  - symmetry. apply sqrt_inj; assumption.
  - apply IH; auto. lra.
Qed.

Lemma sqdiff_refl p : sumR (sqdiff p p) = 0.
Proof. induction p as [|a p IH]; [reflexivity|]. rewrite sqdiff_cons, sumR_cons, IH. ring. Qed.

Lemma hell_zero_iff n p q : pvec n p -> pvec n q -> (hell p q = 0 <-> p = q).
Proof.
  intros (Lp & Np & Sp) (Lq & Nq & Sq). split.
  - intros H. unfold hell in H.
    apply Rmult_integral in H. destruct H as [H|H]; [pose proof inv_sqrt2_pos; lra|].
    apply sqrt_eq_0 in H; [|apply sqdiff_sum_nonneg].
    apply sqdiff_zero; auto. congruence.
  - intros ->. unfold hell. rewrite sqdiff_refl, sqrt_0. ring.
Qed.

(* ------------------------------------------------------------------ H = 1 <-> disjoint supports *)
Lemma bc_zero_iff p q :
  length p = length q -> nonneg p -> nonneg q ->
  (bc p q = 0 <-> forall i, (i < length p)%nat -> nth i p 0 * nth i q 0 = 0).
Proof.
  unfold bc. revert q. induction p as [|a p IH]; intros [|b q] L Hp Hq; simpl in *; try discriminate.
  - split; auto. intros _ i Hi. lia.
  - apply Forall_inv in Hp as Ha. apply Forall_inv in Hq as Hb.
    apply Forall_inv_tail in Hp. apply Forall_inv_tail in Hq.
    assert (0 <= a * b) as Hab by (apply Rmult_le_pos; assumption).
    pose proof (bc_nonneg p q) as T. unfold bc in T.
    pose proof (sqrt_pos (a * b)) as Q.
    specialize (IH q (eq_add_S _ _ L) Hp Hq).
    split.
    + intros S i Hi. destruct i as [|i].
      * apply sqrt_eq_0; auto. lra.
      * apply IH; [lra | lia].
    + intros A.
      assert (sqrt (a * b) = 0) as E1 by (rewrite (A 0%nat) by lia; apply sqrt_0).
      assert (sumR (map2 (fun a0 b0 : R => sqrt (a0 * b0)) p q) = 0) as E2.
      { apply IH. intros i Hi. apply (A (S i)). lia. }
      lra.
Qed.

Lemma hell_one_iff n p q :
  pvec n p -> pvec n q ->
  (hell p q = 1 <-> forall i, (i < 2 ^ n)%nat -> nth i p 0 * nth i q 0 = 0).
Proof.
  intros Pp Pq. rewrite (hell_formula n) by assumption.
  pose proof (bc_le_1 n p q Pp Pq) as B. pose proof (bc_nonneg p q) as B0.
  destruct Pp as (Lp & Np & Sp), Pq as (Lq & Nq & Sq).
  rewrite <- Lp. rewrite <- bc_zero_iff by (auto; congruence).
  split.
  - intros H. assert (0 <= 1 - bc p q) as N by lra.
    pose proof (sqrt_sqrt _ N) as Q. rewrite H in Q. lra.
  - intros ->. rewrite Rminus_0_r. apply sqrt_1.
Qed.

(* ------------------------------------------------------------------ triangle inequality *)
(* two-dimensional Cauchy-Schwarz and Minkowski; the n-dimensional statement follows by induction on the lists *)
Lemma cs2 x y B C : x * y + B * C <= sqrt ((x * x + B * B) * (y * y + C * C)).
Proof.
  destruct (Rle_dec (x * y + B * C) 0) as [Hn|Hp].
  - pose proof (sqrt_pos ((x * x + B * B) * (y * y + C * C))). lra.
  - assert (0 <= x * y + B * C) as H0 by lra.
    rewrite <- (sqrt_square _ H0) at 1.
    apply sqrt_le_1_alt.
    pose proof (Rle_0_sqr (x * C - y * B)) as Q. unfold Rsqr in Q.
    replace ((x * x + B * B) * (y * y + C * C))
      with ((x * y + B * C) * (x * y + B * C) + (x * C - y * B) * (x * C - y * B)) by ring.
    lra.
Qed.

Lemma mink2 x y B C :
  0 <= B -> 0 <= C ->
  sqrt ((x + y) * (x + y) + (B + C) * (B + C)) <= sqrt (x * x + B * B) + sqrt (y * y + C * C).
Proof.
  intros HB HC.
  assert (0 <= x * x + B * B) as N1 by nra.
  assert (0 <= y * y + C * C) as N2 by nra.
  set (s1 := sqrt (x * x + B * B)). set (s2 := sqrt (y * y + C * C)).
  assert (0 <= s1) as P1 by apply sqrt_pos. assert (0 <= s2) as P2 by apply sqrt_pos.
  assert (s1 * s1 = x * x + B * B) as Q1 by (apply sqrt_sqrt; assumption).
  assert (s2 * s2 = y * y + C * C) as Q2 by (apply sqrt_sqrt; assumption).
  assert (x * y + B * C <= s1 * s2) as CS.
  { unfold s1, s2. rewrite <- sqrt_mult by assumption. apply cs2. }
  assert (0 <= s1 + s2) as P by lra.
  rewrite <- (sqrt_square _ P).
  apply sqrt_le_1_alt. nra.
Qed.

Lemma sqdiff_triangle p q r :
  length p = length q -> length q = length r ->
  sqrt (sumR (sqdiff p r)) <= sqrt (sumR (sqdiff p q)) + sqrt (sumR (sqdiff q r)).
Proof.
  revert q r. induction p as [|a p IH]; intros [|b q] [|c r] L1 L2; try discriminate L1; try discriminate L2.
  - cbn. rewrite sqrt_0. lra.
  - specialize (IH q r (eq_add_S _ _ L1) (eq_add_S _ _ L2)).
    rewrite !sqdiff_cons, !sumR_cons.
    pose proof (sqdiff_sum_nonneg p r) as Npr. pose proof (sqdiff_sum_nonneg p q) as Npq.
    pose proof (sqdiff_sum_nonneg q r) as Nqr.
    assert (sumR (sqdiff p r) = sqrt (sumR (sqdiff p r)) * sqrt (sumR (sqdiff p r))) as EA by (symmetry; apply sqrt_sqrt; assumption).
    assert (sumR (sqdiff p q) = sqrt (sumR (sqdiff p q)) * sqrt (sumR (sqdiff p q))) as EB by (symmetry; apply sqrt_sqrt; assumption).
    assert (sumR (sqdiff q r) = sqrt (sumR (sqdiff q r)) * sqrt (sumR (sqdiff q r))) as EC by (symmetry; apply sqrt_sqrt; assumption).
    pose proof (sqrt_pos (sumR (sqdiff p r))) as PA.
    pose proof (sqrt_pos (sumR (sqdiff p q))) as PB.
    pose proof (sqrt_pos (sumR (sqdiff q r))) as PC.
    set (A := sqrt (sumR (sqdiff p r))) in *.
    set (B := sqrt (sumR (sqdiff p q))) in *.
    set (C := sqrt (sumR (sqdiff q r))) in *.
    rewrite EA, EB, EC.
    set (x := sqrt b - sqrt a). set (y := sqrt c - sqrt b).
    replace (sqrt c - sqrt a) with (x + y) by (unfold x, y; ring).
    replace (x ^ 2) with (x * x) by ring. replace (y ^ 2) with (y * y) by ring.
    replace ((x + y) ^ 2) with ((x + y) * (x + y)) by ring.
    eapply Rle_trans; [| apply (mink2 x y B C PB PC)].
    apply sqrt_le_1_alt. nra.
Qed.

Lemma hell_triangle n p q r : pvec n p -> pvec n q -> pvec n r -> hell p r <= hell p q + hell q r.
Proof.
  intros (Lp & _) (Lq & _) (Lr & _). unfold hell.
  rewrite <- Rmult_plus_distr_l. apply Rmult_le_compat_l; [left; apply inv_sqrt2_pos|].
  apply sqdiff_triangle; congruence.
Qed.
