(* C18 — the statements of Props/C18.v in their final form, and their transport to Coquelicot's C. *)
From Coq Require Import List Bool Arith ZArith Lia Ring Reals Lra.
From Coquelicot Require Import Complex.
Require Import QG.Base.Res QG.Base.State QG.Base.PathProd QG.Model.Bench QG.Proofs.BenchLists QG.Proofs.BenchSem
  QG.Proofs.BenchGHZ QG.Proofs.BenchQFT QG.Proofs.BenchC.
Import ListNotations.

Lemma repeat_ft_ne n : 1 <= n -> repeat false n <> repeat true n.
Proof. destruct n; [lia|]. simpl. congruence. Qed.
Lemma bits_eqb_ne a b : a <> b -> bits_eqb a b = false.
Proof. intros H. destruct (bits_eqb a b) eqn:E; auto. apply bits_eqb_eq in E. contradiction. Qed.

Section Main.
Variable P : PhaseRing.
Notation ket0 n := (ket (pR P) (p0 P) (p1 P) (repeat false n)).

Theorem ghz_state_final n : 1 <= n ->
  let out := csem P (ghz n) (ket0 n) in
  out (repeat false n) = ph P /\ out (repeat true n) = ph P /\
  forall b, length b = n -> b <> repeat false n -> b <> repeat true n -> out b = p0 P.
Proof.
  intros Hn out. unfold out. repeat split.
  - rewrite (ghz_state P n) by (auto; apply repeat_length). now rewrite bits_eqb_refl.
  - rewrite (ghz_state P n) by (auto; apply repeat_length). now rewrite bits_eqb_refl, orb_true_r.
  - intros b L H0 H1. rewrite (ghz_state P n b Hn L). now rewrite !bits_eqb_ne.
Qed.

Theorem hrqft_zero_final n :
  exists l, hrqft n = Ok l /\
    csem P l (ket0 n) (repeat false n) = p1 P /\
    forall b, length b = n -> b <> repeat false n -> csem P l (ket0 n) b = p0 P.
Proof.
  destruct (hrqft_zero P n) as [l [E Hl]]. exists l. repeat split; auto.
  - rewrite (Hl _ (repeat_length false n)). unfold ket. now rewrite bits_eqb_refl.
  - intros b L Hb. rewrite (Hl b L). unfold ket. now rewrite bits_eqb_ne.
Qed.

Theorem inverse_undoes_final n l l' : Forall (wf_gate n) l -> inverse l = Ok l' ->
  forall psi b, length b = n -> csem P l' (csem P l psi) b = psi b.
Proof. intros W E psi b L. exact (inverse_undoes P n l l' W E psi b L). Qed.

Theorem qft_product_final n x y : length x = n -> length y = n ->
  csem P (qft n) (ket (pR P) (p0 P) (p1 P) x) y = pp (pR P) (p1 P) (pmul P) (qfac P x) y.
Proof.
  intros Lx Ly. unfold qft. rewrite csem_app, csem_finish. exact (qft_product P n x Lx y Ly).
Qed.
End Main.

(* ---- in Coquelicot's C: Born probabilities ---- *)
Local Open Scope R_scope.
Notation Cket0 n := (ket C (RtoC 0) (RtoC 1) (repeat false n)).

Theorem ghz_prob_C n : (1 <= n)%nat ->
  let out := csem CPhase (ghz n) (Cket0 n) in
  Cmod (out (repeat false n)) ^ 2 = 1 / 2 /\ Cmod (out (repeat true n)) ^ 2 = 1 / 2 /\
  forall b, length b = n -> b <> repeat false n -> b <> repeat true n -> Cmod (out b) ^ 2 = 0.
Proof.
  intros Hn out. subst out. destruct (ghz_state_final CPhase n Hn) as (H0 & H1 & H2).
  cbn [pR p0 p1 ph CPhase] in H0, H1, H2.
  repeat split.
  - rewrite H0. apply Cmod2_h.
  - rewrite H1. apply Cmod2_h.
  - intros b L A B. rewrite (H2 b L A B). rewrite Cmod_0. ring.
Qed.

Theorem hrqft_prob_C n :
  exists l, hrqft n = Ok l /\ Cmod (csem CPhase l (Cket0 n) (repeat false n)) ^ 2 = 1 /\
    forall b, length b = n -> b <> repeat false n -> Cmod (csem CPhase l (Cket0 n) b) ^ 2 = 0.
Proof.
  destruct (hrqft_zero_final CPhase n) as (l & E & H0 & H1). cbn [pR p0 p1 ph CPhase] in H0, H1.
  exists l. repeat split; auto.
  - rewrite H0. rewrite Cmod_1. ring.
  - intros b L Hb. rewrite (H1 b L Hb). rewrite Cmod_0. ring.
Qed.

(* the QFT amplitude in C:  (1/sqrt 2)^n (cos t + i sin t),  t = 2 pi X rev(Y) / 2^n *)
Theorem qft_amp_C n x y : length x = n -> length y = n ->
  csem CPhase (qft n) (ket C (RtoC 0) (RtoC 1) x) y
  = Cmult (rpow C (RtoC 1) Cmult (RtoC (/ sqrt 2)) n)
          (cos (2 * PI * IZR (val x * val (rev y)) / 2 ^ n), sin (2 * PI * IZR (val x * val (rev y)) / 2 ^ n)).
Proof. intros Lx Ly. exact (qft_is_dft_rev CPhase n x y Lx Ly). Qed.
