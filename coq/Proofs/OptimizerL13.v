(* Levels 1 and 3 of the optimizer (the shared loop run_loop): runs of gates on the same qubit list are fused.
   Soundness, length, well-formedness, no OutOfFuel, and the "no two adjacent one-qubit gates on the same qubit"
   invariant of level-1 output that level 2 relies on. *)
From Coq Require Import List Bool Arith ZArith Lia Ring.
Require Import QG.Base.Res QG.Base.State QG.Model.Optimizer QG.Proofs.OptimizerSem.
Import ListNotations.

Lemma qs_eqb_eq a b : qs_eqb a b = true <-> a = b.
Proof.
  revert b. induction a as [|x a IH]; intros [|y b]; simpl; split; try congruence; auto.
  - rewrite andb_true_iff, Z.eqb_eq, IH. intros [-> ->]. reflexivity.
  - intros H. injection H as -> ->. rewrite Z.eqb_refl. simpl. now apply IH.
Qed.

Lemma Forall_firstn' {A} (P : A -> Prop) c (l : list A) : Forall P l -> Forall P (firstn c l).
Proof. intros H. rewrite <- (firstn_skipn c l) in H. apply Forall_app in H. tauto. Qed.
Lemma Forall_skipn' {A} (P : A -> Prop) c (l : list A) : Forall P l -> Forall P (skipn c l).
Proof. intros H. rewrite <- (firstn_skipn c l) in H. apply Forall_app in H. tauto. Qed.

Section L13.
Variable R : Type.
Variables (rO rI : R) (radd rmul rsub : R -> R -> R) (ropp : R -> R).
Variable Rth : ring_theory rO rI radd rmul rsub ropp eq.

Notation mat := (mat R).
Notation mmul := (mmul R radd rmul).
Notation mkron := (mkron R rmul).
Notation mid2 := (mid2 R rO rI).
Notation mid4 := (mid4 R rO rI).
Notation mitem := (mat * list Z)%type.
Notation wfn := (wfn R).
Notation equiv := (equiv R rO rI radd rmul).
Notation len_is := (len_is mat).

Variable n : nat.
Notation L_11 := (law_11 R rO rI radd rmul rsub ropp Rth n).
Notation L_22 := (law_22 R rO rI radd rmul rsub ropp Rth n).
Notation L_id2 := (law_id2 R rO rI radd rmul rsub ropp Rth n).
Notation L_id4 := (law_id4 R rO rI radd rmul rsub ropp Rth n).
Notation eq_app := (equiv_app R rO rI radd rmul n).
Notation eq_app_r := (equiv_app_r R rO rI radd rmul n).

(* no one-qubit item is directly followed by an item on the same qubit list *)
Fixpoint noadj (l : list mitem) : Prop :=
  match l with
  | x :: ((y :: _) as t) => ~ (len_is 1 x = true /\ snd x = snd y) /\ noadj t
  | _ => True
  end.

Lemma len_is_snd k (x y : mitem) : snd x = snd y -> len_is k x = len_is k y.
Proof. unfold Optimizer.len_is. now intros ->. Qed.

Lemma run_same_spec k q (l : list mitem) :
  let c := run_same mat k q l in
  Forall (fun it => snd it = q) (firstn c l) /\ c <= length l /\
  match skipn c l with x :: _ => (len_is k x && qs_eqb q (snd x)) = false | [] => True end.
Proof.
  induction l as [|it t IH]; simpl.
  - auto.
  - destruct (len_is k it && qs_eqb q (snd it)) eqn:E; simpl.
    + destruct IH as (A & B & C). split; [|split]; auto; try lia.
      constructor; auto. apply andb_true_iff in E. destruct E as [_ E]. apply qs_eqb_eq in E. auto.
    + split; [constructor|]. split; [lia|]. exact E.
Qed.

(* folding a run into one matrix *)
Lemma fuse_run_sem (l : list mitem) : forall g q,
  wfn n (g, q) -> Forall (wfn n) l -> Forall (fun it => snd it = q) l ->
  wfn n (fuse_run mat mmul g l, q) /\ equiv n ((g, q) :: l) [(fuse_run mat mmul g l, q)].
Proof.
  induction l as [|it t IH]; intros g q Hg Hl Hq.
  - simpl. split; auto. apply equiv_refl.
  - apply Forall_inv in Hl as Hit. apply Forall_inv_tail in Hl.
    apply Forall_inv in Hq as Hiq. apply Forall_inv_tail in Hq.
    destruct it as [x qi]. simpl in Hiq. subst qi.
    change (fuse_run mat mmul g ((x, q) :: t)) with (fuse_run mat mmul (mmul x g) t).
    destruct (wfn_cases R n _ Hg) as [(a & q' & E & Hq')|(a & q1 & q2 & E & H1 & H2 & H3)]; injection E as -> ->.
    + destruct (wfn_cases R n _ Hit) as [(a' & q'' & E & _)|(a' & q1 & q2 & E & _)]; injection E as -> ?; try discriminate.
      destruct (IH (mmul (M2 R a') (M2 R a)) [q']) as [W Q]; auto.
      split; auto. eapply equiv_trans; [|exact Q].
      apply (eq_app_r t [(M2 R a, [q']); (M2 R a', [q'])] [(mmul (M2 R a') (M2 R a), [q'])]).
      apply L_11; auto.
    + destruct (wfn_cases R n _ Hit) as [(a' & q'' & E & _)|(a' & q1' & q2' & E & _)]; injection E as -> ?; try discriminate.
      destruct (IH (mmul (M4 R a') (M4 R a)) [q1; q2]) as [W Q]; auto.
      split; auto. eapply equiv_trans; [|exact Q].
      apply (eq_app_r t [(M4 R a, [q1; q2]); (M4 R a', [q1; q2])] [(mmul (M4 R a') (M4 R a), [q1; q2])]).
      apply L_22; auto.
Qed.

Definition kmode (k : nat) (idm : mat) : Prop := (k = 1 /\ idm = mid2) \/ (k = 2 /\ idm = mid4).

(* a whole run g0 :: (same-qubit items) starting from the identity *)
Lemma fuse_from_id k idm (g0 : mitem) (l : list mitem) :
  kmode k idm -> len_is k g0 = true -> wfn n g0 -> Forall (wfn n) l -> Forall (fun it => snd it = snd g0) l ->
  wfn n (fuse_run mat mmul idm (g0 :: l), snd g0) /\ equiv n (g0 :: l) [(fuse_run mat mmul idm (g0 :: l), snd g0)].
Proof.
  intros Hk Hlen Hg Hl Hq.
  assert (Hid : wfn n (idm, snd g0) /\ equiv n [(idm, snd g0)] []).
  { destruct Hk as [[-> ->]|[-> ->]].
    - destruct (wfn_len1 R n _ Hg Hlen) as (a & q & -> & Hq'). simpl. split; auto. apply L_id2; auto.
    - destruct (wfn_len2 R n _ Hg Hlen) as (a & q1 & q2 & -> & H1 & H2 & H3). simpl. split; auto. apply L_id4; auto. }
  destruct Hid as [Wid Eid].
  destruct (fuse_run_sem (g0 :: l) idm (snd g0)) as [W Q]; auto.
  split; auto.
  eapply equiv_trans; [|exact Q].
  apply equiv_sym. apply (eq_app_r (g0 :: l) [(idm, snd g0)] []). exact Eid.
Qed.

Lemma run_step_spec k idm need2 (g0 : mitem) tl hd gl' :
  kmode k idm -> Forall (wfn n) (g0 :: tl) ->
  run_step mat mmul k idm need2 g0 tl = (hd, gl') ->
  wfn n hd /\ snd hd = snd g0 /\
  exists pre, g0 :: tl = pre ++ gl' /\ pre <> [] /\ equiv n pre [hd] /\
    match gl' with
    | x :: _ => k = 1 -> need2 = false -> len_is 1 g0 = true -> snd x <> snd g0
    | [] => True
    end.
Proof.
  intros Hk Hwf. apply Forall_inv in Hwf as Hg. apply Forall_inv_tail in Hwf as Htl.
  unfold run_step.
  destruct (len_is k g0 && (negb need2 || Nat.ltb 1 (length (g0 :: tl)))) eqn:Eb.
  - apply andb_true_iff in Eb. destruct Eb as [Elen _].
    pose proof (run_same_spec k (snd g0) tl) as Hs. cbv zeta in Hs. destruct Hs as (Hsame & Hle & Hnext).
    set (c := run_same mat k (snd g0) tl) in *.
    assert (Hsplit : g0 :: tl = (g0 :: firstn c tl) ++ skipn c tl) by (simpl; now rewrite firstn_skipn).
    assert (Hclause : match skipn c tl with
                      | x :: _ => k = 1 -> need2 = false -> len_is 1 g0 = true -> snd x <> snd g0
                      | [] => True end).
    { destruct (skipn c tl) as [|x r]; auto. intros -> _ H1 Hx.
      rewrite (len_is_snd 1 x g0 Hx), H1 in Hnext. simpl in Hnext.
      assert (qs_eqb (snd g0) (snd x) = true) by (apply qs_eqb_eq; auto). congruence. }
    destruct (Nat.ltb 1 (S c)) eqn:Ec.
    + intros E. injection E as <- <-.
      change (firstn (S c) (g0 :: tl)) with (g0 :: firstn c tl).
      change (skipn (S c) (g0 :: tl)) with (skipn c tl).
      destruct (fuse_from_id k idm g0 (firstn c tl)) as [W Q]; auto.
      { now apply Forall_firstn'. }
      split; auto. split; auto.
      exists (g0 :: firstn c tl). split; auto. split; [discriminate|]. split; auto.
    + intros E. injection E as <- <-.
      apply Nat.ltb_ge in Ec. assert (c = 0) by lia.
      change (skipn (S c) (g0 :: tl)) with (skipn c tl).
      split; auto. split; auto.
      exists (g0 :: firstn c tl). split; auto. split; [discriminate|]. split; auto.
      rewrite H. simpl. apply equiv_refl.
  - intros E. injection E as <- <-.
    split; auto. split; auto.
    exists [g0]. split; auto. split; [discriminate|]. split; [apply equiv_refl|].
    destruct tl as [|x r]; auto. intros -> -> H1.
    rewrite H1 in Eb. simpl in Eb. discriminate.
Qed.

Lemma run_loop_spec k idm need2 : kmode k idm ->
  forall fuel (gl : list mitem), length gl <= fuel -> Forall (wfn n) gl ->
  exists out, run_loop mat mmul k idm need2 fuel gl = Ok out /\ length out <= length gl /\
    Forall (wfn n) out /\ equiv n out gl /\
    match gl, out with
    | x :: _, h :: _ => snd h = snd x
    | [], [] => True
    | _, _ => False
    end /\
    (k = 1 -> need2 = false -> noadj out).
Proof.
  intros Hk. induction fuel as [|f IH]; intros gl Hlen Hwf.
  - destruct gl; simpl in Hlen; [|lia]. exists []. simpl. repeat split; auto; try apply equiv_refl.
  - destruct gl as [|g0 tl].
    + exists []. simpl. repeat split; auto; try apply equiv_refl.
    + cbn [run_loop].
      destruct (run_step mat mmul k idm need2 g0 tl) as [hd gl'] eqn:Es.
      destruct (run_step_spec k idm need2 g0 tl hd gl' Hk Hwf Es) as (Whd & Shd & pre & Hsplit & Hne & Hpre & Hcl).
      assert (Hlen' : length (g0 :: tl) = length pre + length gl') by (rewrite Hsplit, app_length; reflexivity).
      assert (Hpl : 1 <= length pre) by (destruct pre; [congruence | simpl; lia]).
      assert (Hwf' : Forall (wfn n) gl').
      { rewrite Hsplit in Hwf. apply Forall_app in Hwf. tauto. }
      assert (Hrec : forall r, run_loop mat mmul k idm need2 f gl' = Ok r -> length r <= length gl' ->
                Forall (wfn n) r -> equiv n r gl' ->
                match gl', r with x :: _, h :: _ => snd h = snd x | [], [] => True | _, _ => False end ->
                (k = 1 -> need2 = false -> noadj r) ->
                length (hd :: r) <= length (g0 :: tl) /\ Forall (wfn n) (hd :: r) /\ equiv n (hd :: r) (g0 :: tl) /\
                snd hd = snd g0 /\ (k = 1 -> need2 = false -> noadj (hd :: r))).
      { intros r _ Hl Hw He Hh Hn. split; [simpl in Hlen' |- *; lia|]. split; [constructor; auto|]. split.
        - rewrite Hsplit. apply (eq_app [hd] pre r gl'); auto. apply equiv_sym; auto.
        - split; auto. intros K1 K2. specialize (Hn K1 K2).
          destruct r as [|h r']; [exact I|]. split; auto.
          destruct gl' as [|x t']; [contradiction|].
          intros [A B]. rewrite (len_is_snd 1 hd g0 Shd) in A.
          apply (Hcl K1 K2 A). rewrite <- Hh, <- B. auto. }
      destruct gl' as [|x [|y t']].
      * (* nothing left *)
        assert (E0 : run_loop mat mmul k idm need2 f [] = Ok []) by (destruct f; reflexivity).
        exists [hd]. destruct (Hrec []) as (A & B & C & D & E); simpl; auto; try apply equiv_refl.
        rewrite E0. simpl. split; [reflexivity|]. split; [exact A|]. split; [exact B|]. split; [exact C|]. split; [exact D|exact E].
      * (* exactly one element left: appended directly *)
        exists [hd; x].
        assert (E1 : run_loop mat mmul k idm need2 f [x] = Ok [x]).
        { destruct f as [|f']; [simpl in *; lia|].
          cbn [run_loop]. destruct (run_step mat mmul k idm need2 x []) as [h2 g2] eqn:E2.
          unfold run_step in E2. simpl in E2.
          destruct (Optimizer.len_is mat k x && (negb need2 || (1 <? 1))); injection E2 as <- <-; simpl; destruct f'; reflexivity. }
        destruct (Hrec [x]) as (A & B & C & D & E); simpl; auto; try apply equiv_refl.
        split; [reflexivity|]. split; [exact A|]. split; [exact B|]. split; [exact C|]. split; [exact D|exact E].
      * destruct (IH (x :: y :: t')) as (r & Hr & Hl & Hw & He & Hh & Hn); auto.
        { simpl in *. lia. }
        rewrite Hr. simpl. exists (hd :: r).
        destruct (Hrec r) as (A & B & C & D & E); auto.
Qed.

Theorem lvl1_spec (gl : list mitem) : Forall (wfn n) gl ->
  exists out, opt1 mat mmul mid2 gl = Ok out /\ length out <= length gl /\ Forall (wfn n) out /\ equiv n out gl /\ noadj out /\ (gl <> [] -> out <> []).
Proof.
  intros H. destruct (run_loop_spec 1 mid2 false (or_introl (conj eq_refl eq_refl)) (length gl) gl (le_n _) H)
    as (out & A & B & C & D & F & E).
  exists out. repeat split; auto.
  intros Hg ->. destruct gl; [congruence | exact F].
Qed.

Theorem lvl3_spec (gl : list mitem) : Forall (wfn n) gl ->
  exists out, opt3 mat mmul mid4 gl = Ok out /\ length out <= length gl /\ Forall (wfn n) out /\ equiv n out gl /\ (gl <> [] -> out <> []).
Proof.
  intros H. destruct (run_loop_spec 2 mid4 true (or_intror (conj eq_refl eq_refl)) (length gl) gl (le_n _) H)
    as (out & A & B & C & D & F & _).
  exists out. repeat split; auto.
  intros Hg ->. destruct gl; [congruence | exact F].
Qed.

End L13.
