(* C17 — bridge: the definition GENERATED from the current source of compute_Hellinger_distance (Gen/GenHellinger.v,
   rewritten on every run by checks/c17_translate.py) returns `hell p q` of the model on arrays of length 2^n, and
   therefore has every metric property proved in Proofs/Hellinger.v.  A semantic edit of the source changes
   `gen_compute_Hellinger_distance`, i.e. the subject of every lemma below. *)
From Coq Require Import Reals List Arith Lra Lia.
Require Import QG.Base.Res QG.Model.Hellinger QG.Proofs.Hellinger QG.Proofs.HellingerVocab QG.Gen.GenHellinger.
Import ListNotations.
Local Open Scope R_scope.

Notation gen := gen_compute_Hellinger_distance.

Lemma gen_is_hell n p q :
  length p = (2 ^ n)%nat -> length q = (2 ^ n)%nat -> gen p q n = Ok (hell p q).
Proof.
  intros Lp Lq. unfold gen_compute_Hellinger_distance. cbv zeta.
  unfold vsub. rewrite vbin_eqlen by (rewrite !vsqrt_length; congruence). cbn [rbind].
  first [rewrite (sqdiff_vocab p q) | rewrite (sqdiff_vocab_swapped p q)].
  replace (2 ^ n)%nat with (length (sqdiff p q))
    by (unfold sqdiff; rewrite map2_length; congruence).
  rewrite for_range_sum. cbn [rbind].
  unfold hell. rewrite Rplus_0_l. reflexivity.
Qed.

Lemma gen_pvec n p q : pvec n p -> pvec n q -> gen p q n = Ok (hell p q).
Proof. intros (Lp & _) (Lq & _). now apply gen_is_hell. Qed.

Lemma gen_formula n p q : pvec n p -> pvec n q -> gen p q n = Ok (sqrt (1 - bc p q)).
Proof. intros Pp Pq. rewrite (gen_pvec n), (hell_formula n); auto. Qed.

Lemma gen_bounds n p q : pvec n p -> pvec n q -> exists h, gen p q n = Ok h /\ 0 <= h <= 1.
Proof. intros Pp Pq. exists (hell p q). split; [apply gen_pvec | apply (hell_bounds n)]; auto. Qed.

Lemma gen_zero_iff n p q : pvec n p -> pvec n q -> exists h, gen p q n = Ok h /\ (h = 0 <-> p = q).
Proof. intros Pp Pq. exists (hell p q). split; [apply gen_pvec | apply (hell_zero_iff n)]; auto. Qed.

Lemma gen_one_iff n p q :
  pvec n p -> pvec n q ->
  exists h, gen p q n = Ok h /\ (h = 1 <-> forall i, (i < 2 ^ n)%nat -> nth i p 0 * nth i q 0 = 0).
Proof. intros Pp Pq. exists (hell p q). split; [apply gen_pvec | apply (hell_one_iff n)]; auto. Qed.

Lemma gen_sym n p q : pvec n p -> pvec n q -> gen p q n = gen q p n.
Proof. intros Pp Pq. rewrite !(gen_pvec n) by auto. now rewrite hell_sym. Qed.

Lemma gen_triangle n p q r :
  pvec n p -> pvec n q -> pvec n r ->
  exists hpq hqr hpr, gen p q n = Ok hpq /\ gen q r n = Ok hqr /\ gen p r n = Ok hpr /\ hpr <= hpq + hqr.
Proof.
  intros Pp Pq Pr. exists (hell p q), (hell q r), (hell p r).
  repeat split; try (apply gen_pvec; assumption). apply (hell_triangle n); assumption.
Qed.

(* non-vacuity material: the two point masses and the uniform vector on one qubit *)
Lemma pvec_example : pvec 1 [1; 0] /\ pvec 1 [0; 1] /\ pvec 1 [1/2; 1/2].
Proof.
  repeat split; simpl; try lra; repeat constructor; lra.
Qed.
