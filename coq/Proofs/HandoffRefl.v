(* C08 / C03 — reflection over the regenerated circuit / simulator hand-off model (coq/Gen/GenCircuit.v). *)
From Coq Require Import QArith List String Bool Reals Arith Lia.
From Coquelicot Require Import Complex.
Require Import QG.Sym.Expr QG.Sym.ExprEq QG.Sym.Norm QG.Sym.Mat QG.Sym.Sound QG.Sym.Subst.
Require Import QG.Model.GateModel QG.Model.Handoff QG.Proofs.GateRefl QG.Proofs.C07Refl QG.Proofs.C03Frames QG.Gen.GenGates QG.Gen.GenCircuit.
Import ListNotations.
Close Scope Q_scope.
Open Scope string_scope.

Definition cv (name : string) : expr := EVar (var_index name gen_cvarnames).

(* ---- which argument positions of a two-qubit gate-set method belong to the qubit of a tensor slot (C06's slot
        conventions): (phase, p, T1, T2) ---- *)
Definition slot_positions (gate : string) (s : nat) : option (nat * nat * nat * nat) :=
  let ctr := (0, 4, 6, 7)%nat in let trg := (1, 5, 8, 9)%nat in
  if String.eqb gate "CNOT_inv" then (match s with 0%nat => Some trg | 1%nat => Some ctr | _ => None end)
  else if String.eqb gate "CNOT" || String.eqb gate "ECR" || String.eqb gate "ECR_inv" then (match s with 0%nat => Some ctr | 1%nat => Some trg | _ => None end)
  else None.
(* the circuit method's own parameters for its qubit i (0) / k (1): current phase, p, T1, T2 *)
Definition qubit_params (q : nat) : expr * expr * expr * expr :=
  match q with
  | 0%nat => (cv "phi[i]", cv "p_i", cv "T1i", cv "T2i")
  | _ => (cv "phi[k]", cv "p_k", cv "T1k", cv "T2k")
  end.
Definition argn (h : handoff) (n : nat) : expr := nth n (h_args h) (EVar 4999).
Definition slot_ok (h : handoff) (s : nat) : bool :=
  match slot_positions (h_gate h) s, nth_error (h_place h) s with
  | Some (a, b, c, d), Some q =>
      let '(ph, p, t1, t2) := qubit_params q in
      expr_beq (argn h a) ph && expr_beq (argn h b) p && expr_beq (argn h c) t1 && expr_beq (argn h d) t2
  | _, _ => false end.
Definition expected_gate (meth : string) (lt : bool) : string :=
  if String.eqb meth "CNOT" then (if lt then "CNOT" else "CNOT_inv") else (if lt then "ECR" else "ECR_inv").
Definition layered (cls : string) : bool := negb (String.eqb cls "BinaryCircuit").
Definition two_ok (h : handoff) : bool :=
  String.eqb (h_gate h) (expected_gate (h_meth h) (h_lt h)) &&
  Nat.eqb (List.length (h_args h)) 10 && expr_beq (argn h 2) (cv "t") && expr_beq (argn h 3) (cv "p_ik") &&
  (* slot 0 = lower index: i when i < k, k otherwise; both qubits occur once *)
  (match h_place h with [a; b] => Nat.eqb a (if h_lt h then 0 else 1) && Nat.eqb b (if h_lt h then 1 else 0) | _ => false end) &&
  slot_ok h 0 && slot_ok h 1 &&
  (* layered classes store the matrix in the row of the control qubit i; the grid class also asserts |i - k| = 1
     (AlternativeCircuit and its subclasses do not check it: non-adjacent pairs are outside what they accept) *)
  (negb (layered (h_cls h)) || Nat.eqb (h_row h) 0) && (negb (String.eqb (h_cls h) "Circuit") || h_adjacent h) && negb (h_lit h).
Definition is_two (h : handoff) : bool := String.eqb (h_meth h) "CNOT" || String.eqb (h_meth h) "ECR".
Lemma handoff_two_qubit : forallb (fun h => negb (is_two h) || two_ok h) gen_handoff = true /\
  List.length (filter is_two gen_handoff) = 16%nat.     (* (grid x 2 states + layered + index) x {CNOT, ECR} x 2 directions *)
Proof. vm_compute. split; reflexivity. Qed.

Fixpoint nats_eqb (a b : list nat) : bool :=
  match a, b with [], [] => true | x :: a', y :: b' => Nat.eqb x y && nats_eqb a' b' | _, _ => false end.
(* single-qubit methods: own phase (negated: the drive phase seen from the virtual-Z frame), own parameters, own slot; Rz only
   shifts the phase; I stores a literal identity *)
Definition one_ok (h : handoff) : bool :=
  let m := h_meth h in
  if String.eqb m "X" || String.eqb m "SX" then
    String.eqb (h_gate h) m && exprs_beq (h_args h) [ENeg (cv "phi[i]"); cv "p_i"; cv "T1i"; cv "T2i"] && nats_eqb (h_place h) [0%nat] && negb (h_lit h) && Nat.eqb (List.length (h_phi h)) 0
  else if String.eqb m "relaxation" then String.eqb (h_gate h) m && exprs_beq (h_args h) [cv "Dt"; cv "T1i"; cv "T2i"] && nats_eqb (h_place h) [0%nat] && negb (h_lit h) && Nat.eqb (List.length (h_phi h)) 0
  else if String.eqb m "bitflip" then String.eqb (h_gate h) m && exprs_beq (h_args h) [cv "tm_i"; cv "rout_i"] && nats_eqb (h_place h) [0%nat] && negb (h_lit h) && Nat.eqb (List.length (h_phi h)) 0
  else if String.eqb m "depolarizing" then String.eqb (h_gate h) m && exprs_beq (h_args h) [cv "Dt"; cv "p_i"] && nats_eqb (h_place h) [0%nat] && negb (h_lit h) && Nat.eqb (List.length (h_phi h)) 0
  else if String.eqb m "Rz" then String.eqb (h_gate h) "" && nats_eqb (h_place h) [] &&
       match h_phi h with [(0%nat, e)] => expr_beq e (EAdd (cv "phi[i]") (cv "theta")) | _ => false end
  else if String.eqb m "I" then String.eqb (h_gate h) "" && nats_eqb (h_place h) [0%nat] && h_lit h && Nat.eqb (List.length (h_phi h)) 0
  else false.
Lemma handoff_one_qubit : forallb (fun h => is_two h || one_ok h) gen_handoff = true /\
  List.length (filter (fun h => negb (is_two h)) gen_handoff) = 28%nat.   (* 4 class/state variants x 7 methods *)
Proof. vm_compute. split; reflexivity. Qed.
(* StandardCircuit, EfficientCircuit, OneCircuit define nothing but __init__ (checked by the tracer on the class objects) *)
Lemma subclasses_inherit : gen_subclasses = ["StandardCircuit"; "EfficientCircuit"; "OneCircuit"].
Proof. vm_compute. reflexivity. Qed.

(* ---- simulator, index-class branch: which table entries go to which circuit-method argument ---- *)
Definition sim_spec : list (string * list (string * list expr)) :=
  [("rz", [("Rz", [cv "v(a)"; cv "theta"])]);
   ("sx", [("SX", [cv "v(a)"; cv "p[a]"; cv "T1[a]"; cv "T2[a]"])]);
   ("x", [("X", [cv "v(a)"; cv "p[a]"; cv "T1[a]"; cv "T2[a]"])]);
   ("cx", [("CNOT", [cv "v(c)"; cv "v(t)"; cv "t_int[c][t]"; cv "p_int[c][t]"; cv "p[c]"; cv "p[t]"; cv "T1[c]"; cv "T2[c]"; cv "T1[t]"; cv "T2[t]"])]);
   ("ecr", [("ECR", [cv "v(c)"; cv "v(t)"; cv "t_int[c][t]"; cv "p_int[c][t]"; cv "p[c]"; cv "p[t]"; cv "T1[c]"; cv "T2[c]"; cv "T1[t]"; cv "T2[t]"])]);
   ("delay", [("relaxation", [cv "v(a)"; EMul (cv "dur") (cv "dt"); cv "T1[a]"; cv "T2[a]"])])].
Definition call_eqb (a b : string * list expr) : bool := String.eqb (fst a) (fst b) && exprs_beq (snd a) (snd b).
Fixpoint calls_eqb (a b : list (string * list expr)) : bool :=
  match a, b with [], [] => true | x :: a', y :: b' => call_eqb x y && calls_eqb a' b' | _, _ => false end.
Fixpoint sim_eqb (a b : list (string * list (string * list expr))) : bool :=
  match a, b with [], [] => true | x :: a', y :: b' => String.eqb (fst x) (fst y) && calls_eqb (snd x) (snd y) && sim_eqb a' b' | _, _ => false end.
Lemma simulator_index_branch : sim_eqb gen_sim_binary sim_spec = true /\
  calls_eqb gen_sim_binary_readout [("bitflip", [EQ (0#1)%Q; cv "tm[L[0]]"; cv "rout[L[0]]"]); ("bitflip", [EQ (1#1)%Q; cv "tm[L[1]]"; cv "rout[L[1]]"])] = true.
Proof. vm_compute. split; reflexivity. Qed.

(* ---- end-to-end flow for a two-qubit instruction of the index class: simulator -> circuit method -> gate-set method ---- *)
(* the circuit method's parameters as the simulator fills them *)
Definition sim_params (args : list expr) : subst_map :=
  combine (map (fun n => var_index n gen_cvarnames) ["t"; "p_ik"; "p_i"; "p_k"; "T1i"; "T2i"; "T1k"; "T2k"]) (skipn 2 args).
(* own calibration of the physical qubit sitting under internal index i (= the instruction's first qubit c) / k (= t) *)
Definition phys_params (q : nat) : expr * expr * expr :=
  match q with 0%nat => (cv "p[c]", cv "T1[c]", cv "T2[c]") | _ => (cv "p[t]", cv "T1[t]", cv "T2[t]") end.
Definition flow_ok (kind meth : string) (h : handoff) : bool :=
  match find (fun kc => String.eqb (fst kc) kind) gen_sim_binary with
  | Some (_, [(m, args)]) =>
      String.eqb m meth &&
      let gargs := map (subst (sim_params args)) (h_args h) in
      expr_beq (nth 2 gargs (EVar 4999)) (cv "t_int[c][t]") && expr_beq (nth 3 gargs (EVar 4999)) (cv "p_int[c][t]") &&
      forallb (fun s => match slot_positions (h_gate h) s, nth_error (h_place h) s with
                        | Some (a, b, c, d), Some q =>
                            let '(p, t1, t2) := phys_params q in
                            expr_beq (nth a gargs (EVar 4999)) (fst (fst (fst (qubit_params q)))) &&
                            expr_beq (nth b gargs (EVar 4999)) p && expr_beq (nth c gargs (EVar 4999)) t1 && expr_beq (nth d gargs (EVar 4999)) t2
                        | _, _ => false end) [0%nat; 1%nat]
  | _ => false end.
Lemma handoff_own_end_to_end :
  forallb (fun h => negb (String.eqb (h_cls h) "BinaryCircuit" && is_two h) ||
                    flow_ok (if String.eqb (h_meth h) "CNOT" then "cx" else "ecr") (h_meth h) h) gen_handoff = true.
Proof. vm_compute. reflexivity. Qed.

(* ---- simulator, layered branch: a hand model for every n, tied to the traced instances n <= 4 ---- *)
Definition tab1 (code q : nat) : expr := EVar (1000 + 100 * code + q)%nat.
Definition tab2 (code a b : nat) : expr := EVar (3000 + 100 * code + 10 * a + b)%nat.
Definition nq (q : nat) : expr := EQ (Z.of_nat q # 1)%Q.
Definition T1_ := tab1 0. Definition T2_ := tab1 1. Definition p_ := tab1 2. Definition rout_ := tab1 3. Definition tm_ := tab1 4.
Definition pint_ := tab2 5. Definition tint_ := tab2 6.
Definition layered_model (n : nat) (kind : string) (qs : list nat) : list (string * list expr) :=
  let q := nth 0 qs 0%nat in let q2 := nth 1 qs 0%nat in
  if String.eqb kind "rz" then [("Rz", [nq q; cv "theta"])]
  else flat_map (fun k =>
    if String.eqb kind "sx" then (if Nat.eqb k q then [("SX", [nq k; p_ k; T1_ k; T2_ q])] else [("I", [nq k])])
    else if String.eqb kind "x" then (if Nat.eqb k q then [("X", [nq k; p_ k; T1_ k; T2_ q])] else [("I", [nq k])])
    else if String.eqb kind "delay" then (if Nat.eqb k q then [("relaxation", [nq k; EMul (cv "dur") (cv "dt"); T1_ k; T2_ k])] else [("I", [nq k])])
    else if String.eqb kind "cx" then
      (if Nat.eqb k q then [("CNOT", [nq k; nq q2; tint_ k q2; pint_ k q2; p_ k; p_ q2; T1_ k; T2_ k; T1_ q2; T2_ q2])]
       else if Nat.eqb k q2 then [] else [("I", [nq k])])
    else if String.eqb kind "ecr" then
      (if Nat.eqb k q then [("ECR", [nq k; nq q2; tint_ k q2; pint_ k q2; p_ k; p_ q2; T1_ k; T2_ k; T1_ q2; T2_ q2])]
       else if Nat.eqb k q2 then [] else [("I", [nq k])])
    else []) (seq 0 n).
Definition layered_readout (n : nat) : list (string * list expr) := map (fun k => ("bitflip", [nq k; tm_ k; rout_ k])) (seq 0 n).
Lemma simulator_layered_branch_tied :
  forallb (fun r => let '(n, kind, qs, calls, ro) := r in calls_eqb calls (layered_model n kind qs) && calls_eqb ro (layered_readout n)) gen_sim_layered = true /\
  List.length gen_sim_layered = 64%nat.
Proof. vm_compute. split; reflexivity. Qed.

(* ---- C03: the noise-free gate the circuit method obtains is the textbook gate between the OLD and the NEW frames ---- *)
(* noise-free matrix of a gate-set method at the traced arguments *)
Definition nf_two (gate : string) : mexpr :=
  if String.eqb gate "CNOT" then gen_nf_CNOT else if String.eqb gate "CNOT_inv" then gen_nf_CNOT_inv
  else if String.eqb gate "ECR" then gen_nf_ECR else gen_nf_ECR_inv.
Definition comp_param_vars : list nat := map vi ["phc"; "pht"; "t"; "p2"; "pc"; "pt"; "T1c"; "T2c"; "T1t"; "T2t"].
(* the circuit variables live in their own index space: shift them above the gate model's variables *)
Definition shiftv (e : expr) : expr := subst (map (fun iv => (fst iv, EVar (1500 + fst iv)%nat)) gen_cvarnames) e.
Definition traced_matrix (h : handoff) : mexpr := msubst (combine comp_param_vars (map shiftv (h_args h))) (nf_two (h_gate h)).
Definition phi_old (q : nat) : expr := shiftv (if Nat.eqb q 0 then cv "phi[i]" else cv "phi[k]").
Definition phi_new (h : handoff) (q : nat) : expr :=
  match find (fun w => Nat.eqb (fst w) q) (rev (h_phi h)) with Some (_, e) => shiftv e | None => phi_old q end.
(* textbook gate oriented by where the instruction's control i sits among the slots *)
Definition ideal_two (h : handoff) : mexpr :=
  let ctl0 := match h_place h with 0%nat :: _ => true | _ => false end in
  if String.eqb (h_meth h) "CNOT" then (if ctl0 then CX01 else CX10) else (if ctl0 then ECR01 else ECR10).
Definition frame_phases : list expr := [EI; cis (ENeg (EMul (q 3 4) EPi)); z1].
Definition cfc : config := config_of (gen_phase_vars ++ map (fun iv => ((1500 + fst iv)%nat, 1%positive)) gen_cvarnames).
Definition frame_two_ok (h : handoff) : bool :=
  match h_place h with
  | [a; b] =>
      existsb (fun g => mexpr_eqb cfc (traced_matrix h)
                          (MScale g (MMul (MDag (PP (phi_new h a) (phi_new h b))) (MMul (ideal_two h) (PP (phi_old a) (phi_old b)))))) frame_phases
  | _ => false end.
Lemma frames_two_qubit : forallb (fun h => negb (is_two h) || frame_two_ok h) gen_handoff = true.
Proof. vm_compute. reflexivity. Qed.
(* X and SX: (global phase) * P(phi)^dag X P(phi), frame unchanged *)
Definition frame_one_ok (h : handoff) : bool :=
  if String.eqb (h_meth h) "X" then
    mexpr_eqb cfc (msubst [(vi "phi", shiftv (argn h 0))] gen_nf_X) (MScale mi (MMul (MDag (Pm (phi_old 0))) (MMul Xm (Pm (phi_old 0)))))
  else if String.eqb (h_meth h) "SX" then
    mexpr_eqb cfc (msubst [(vi "phi", shiftv (argn h 0))] gen_nf_SX) (MScale (cis (ENeg (pi_over 4))) (MMul (MDag (Pm (phi_old 0))) (MMul SXm (Pm (phi_old 0)))))
  else true.
Lemma frames_one_qubit : forallb frame_one_ok gen_handoff = true.
Proof. vm_compute. reflexivity. Qed.

(* the layered model for every n: one two-qubit call on the control row *)
Lemma filter_flat_map_ {A B} (f : A -> list B) (g : B -> bool) l : filter g (flat_map f l) = flat_map (fun x => filter g (f x)) l.
Proof. induction l as [|a l IH]; simpl; auto. now rewrite filter_app, IH. Qed.
Lemma flat_map_pick {B} (X : nat -> list B) c : forall n s, 
  flat_map (fun k => if Nat.eqb k c then X k else []) (seq s n) = if (Nat.leb s c && Nat.ltb c (s + n))%nat then X c else [].
Proof.
  induction n as [|n IH]; intros s; cbn [seq flat_map].
  - destruct (Nat.leb_spec s c), (Nat.ltb_spec c (s + 0)); simpl; auto; lia.
  - rewrite IH.
    destruct (Nat.eqb_spec s c), (Nat.leb_spec (S s) c), (Nat.ltb_spec c (S s + n)), (Nat.leb_spec s c), (Nat.ltb_spec c (s + S n));
      subst; simpl; rewrite ?app_nil_r; auto; try lia.
Qed.
Lemma layered_model_own : forall n c t, (c < n)%nat -> (t < n)%nat -> c <> t ->
  filter (fun x => negb (String.eqb (fst x) "I")) (layered_model n "cx" [c; t]) =
  [("CNOT", [nq c; nq t; tint_ c t; pint_ c t; p_ c; p_ t; T1_ c; T2_ c; T1_ t; T2_ t])].
Proof.
  intros n c t Hc Ht Hne. unfold layered_model. cbn [String.eqb Ascii.eqb Bool.eqb nth].
  change (String.eqb "cx" "rz") with false. change (String.eqb "cx" "sx") with false. change (String.eqb "cx" "x") with false.
  change (String.eqb "cx" "delay") with false. change (String.eqb "cx" "cx") with true. cbv iota.
  rewrite filter_flat_map_.
  rewrite (flat_map_ext _ (fun k => if Nat.eqb k c then [("CNOT", [nq k; nq t; tint_ k t; pint_ k t; p_ k; p_ t; T1_ k; T2_ k; T1_ t; T2_ t])] else [])).
  - rewrite (flat_map_pick _ c n 0). simpl. destruct (Nat.ltb_spec c n) as [_|H]; [reflexivity|]. exfalso. apply (Nat.lt_irrefl c). eapply Nat.lt_le_trans; eauto.
  - intros k. destruct (Nat.eqb k c); [reflexivity|]. destruct (Nat.eqb k t); reflexivity.
Qed.
