(* C08, relabelling clause, part 1: the item semantics of Base/State.v is equivariant under permutations of the qubit
   positions, and the internal item list of a circuit on physical labels transforms by renaming when the physical qubits
   are relabelled together with their calibration tables.  Scalars: any commutative ring.

   THE RUN MODEL (deterministic gate set; index-based circuit class).
     physical circuit   list of operations  P1 o q  (one-qubit operation of kind o on physical qubit q)  and
                        P2 o c t  (two-qubit operation of kind o, first qubit c = control, second qubit t = target);
                        measure and barrier instructions are not operations (they produce no gate-set call);
     layout             idx : label -> internal index (instantiated by the rank among the used labels in RelabelRank.v);
     calibration        T1 : label -> cal  (the qubit's own values: p, T1, T2, readout time and error),
                        T2 : label -> label -> cal2  (the ordered pair's own values: two-qubit time and error);
     virtual phases     phi : internal index -> ph, threaded through the circuit: an operation reads the current phases
                        of its own qubits and replaces them (next1 / next2; rz only shifts its own qubit's phase);
     GATE SET           gate1 : op1 -> ph -> cal -> option (2x2 matrix)   (None: no matrix is applied, as for rz)
                        gate2 : op2 -> ph -> ph -> cal -> cal -> cal2 -> 4x4 matrix on the ORDERED pair (control, target)
                        i.e. a function of the operation kind (which may carry the operation's parameters: angle, delay
                        duration, a fixed noise realisation) and of the OWN values of the qubits acted on, and nothing
                        else.  By C08_simulator_index_branch / C08_handoff_* the simulator calls the gate set with
                        exactly these own values; that a 4x4 matrix is obtained as "matrix on (control, target)"
                        independently of which of the two has the lower internal index (CNOT vs CNOT_inv, ECR vs
                        ECR_inv, slot 0 = lower index) is a consistency requirement on the plugged gate set, not proved here.
     internalise        the item list on internal indices, first operation first. *)
From Coq Require Import List Bool Arith Lia Ring Permutation.
Require Import QG.Base.State QG.Base.Perm.
Import ListNotations.

Section Equiv.
Variable R : Type.
Variables (rO rI : R) (radd rmul rsub : R -> R -> R) (ropp : R -> R).
Variable Rth : ring_theory rO rI radd rmul rsub ropp eq.
Add Ring RrRelabel : Rth.

Notation state := (bits -> R) (only parsing).
Notation apply1 := (apply1 R radd rmul).
Notation apply2 := (apply2 R radd rmul).
Notation apply_item := (apply_item R radd rmul).
Notation sem := (sem R radd rmul).
Notation state_eq := (state_eq R).

Definition item_lt (n : nat) (it : item R) : Prop :=
  match it with It1 _ q => q < n | It2 _ q1 q2 => q1 < n /\ q2 < n end.

Section Perm.
Variables (n : nat) (s : nat -> nat).
Hypothesis Hs : perm_on n s.

(* the state read through the permutation: amplitude of b' = amplitude, in psi, of the un-permuted b' *)
Definition transport (psi : state) : state := fun b => psi (unpermute s b).
Definition rename (it : item R) : item R :=
  match it with It1 A q => It1 A (s q) | It2 G q1 q2 => It2 G (s q1) (s q2) end.

Lemma transport_permute psi b : length b = n -> transport psi (permute s b) = psi b.
Proof. intros L. unfold transport. rewrite unpermute_permute; auto. now rewrite L. Qed.

Lemma apply1_equiv q A psi b : length b = n -> q < n ->
  apply1 (s q) A (transport psi) (permute s b) = apply1 q A psi b.
Proof.
  intros L Hq. assert (Hp : perm_on (length b) s) by (now rewrite L). rewrite <- L in Hq. unfold State.apply1.
  rewrite get_permute by auto. rewrite !permute_upd by auto.
  rewrite !transport_permute by (now rewrite upd_length). reflexivity.
Qed.

Lemma apply2_equiv q1 q2 G psi b : length b = n -> q1 < n -> q2 < n ->
  apply2 (s q1) (s q2) G (transport psi) (permute s b) = apply2 q1 q2 G psi b.
Proof.
  intros L H1 H2. assert (Hp : perm_on (length b) s) by (now rewrite L). rewrite <- L in H1, H2.
  unfold State.apply2. cbv zeta.
  rewrite !get_permute by auto. rewrite !permute_upd by auto.
  rewrite !permute_upd by (rewrite ?upd_length; auto).
  rewrite !transport_permute by (now rewrite !upd_length). reflexivity.
Qed.

Lemma apply_item_equiv it psi b : item_lt n it -> length b = n ->
  apply_item (rename it) (transport psi) (permute s b) = apply_item it psi b.
Proof.
  destruct it as [A q|G q1 q2]; cbn [item_lt rename State.apply_item]; intros H L.
  - now apply apply1_equiv.
  - destruct H. now apply apply2_equiv.
Qed.

Lemma apply_item_transport it psi : item_lt n it ->
  state_eq n (apply_item (rename it) (transport psi)) (transport (apply_item it psi)).
Proof.
  intros H b L. unfold transport at 2.
  rewrite <- (apply_item_equiv it psi (unpermute s b) H) by (now rewrite unpermute_length).
  rewrite permute_unpermute; auto. now rewrite L.
Qed.

Lemma sem_transport items : Forall (item_lt n) items -> forall psi,
  state_eq n (sem (map rename items) (transport psi)) (transport (sem items psi)).
Proof.
  induction items as [|it r IH]; intros F psi; cbn [map].
  - apply state_eq_refl.
  - unfold State.sem. cbn [fold_left]. fold (sem (map rename r)). fold (sem r).
    eapply state_eq_trans.
    + apply (sem_ext R radd rmul). apply apply_item_transport. exact (Forall_inv F).
    + apply IH. exact (Forall_inv_tail F).
Qed.

(* equivariance of the item semantics: renaming the items by s and transporting the state = permuting the result *)
Lemma sem_equiv items psi b : Forall (item_lt n) items -> length b = n ->
  sem (map rename items) (transport psi) (permute s b) = sem items psi b.
Proof.
  intros F L. rewrite (sem_transport items F psi) by (now rewrite permute_length).
  now apply transport_permute.
Qed.
End Perm.

(* ------------------------------------------------------------------ one-qubit items on pairwise distinct qubits commute *)
Lemma sem_cons it r psi : sem (it :: r) psi = sem r (apply_item it psi).
Proof. reflexivity. Qed.

Definition mk1 (p : m2 R * nat) : item R := It1 (fst p) (snd p).
Lemma sem_It1_perm l1 l2 : Permutation l1 l2 -> NoDup (map snd l1) ->
  forall psi b, sem (map mk1 l1) psi b = sem (map mk1 l2) psi b.
Proof.
  induction 1 as [|x l l' P IH|x y l|l l' l'' P1 IH1 P2 IH2]; intros ND psi b.
  - reflexivity.
  - cbn [map]. rewrite !sem_cons. apply IH. cbn [map] in ND. now apply NoDup_cons_iff in ND.
  - cbn [map]. rewrite !sem_cons. apply (sem_ext R radd rmul (length b)); [|reflexivity].
    intros c _. cbn [mk1 State.apply_item]. apply (commute11 R rO rI radd rmul rsub ropp Rth).
    cbn [map] in ND. apply NoDup_cons_iff in ND as [Hn _]. intros E. apply Hn. left. now rewrite E.
  - rewrite IH1 by assumption. apply IH2. eapply Permutation_NoDup; [apply Permutation_map; exact P1 | exact ND].
Qed.

(* ------------------------------------------------------------------ circuits on physical labels *)
Section Model.
Variables (cal cal2 ph op1 op2 : Type).
Variable gate1 : op1 -> ph -> cal -> option (m2 R).
Variable next1 : op1 -> ph -> ph.
Variable gate2 : op2 -> ph -> ph -> cal -> cal -> cal2 -> m4 R.
Variable next2 : op2 -> ph -> ph -> ph * ph.

Inductive pop := P1 (o : op1) (q : nat) | P2 (o : op2) (c t : nat).

Definition fupd (phi : nat -> ph) (i : nat) (v : ph) : nat -> ph := fun j => if Nat.eqb j i then v else phi j.

Fixpoint internalise (idx : nat -> nat) (T1 : nat -> cal) (T2 : nat -> nat -> cal2) (circ : list pop) (phi : nat -> ph)
  : list (item R) :=
  match circ with
  | [] => []
  | P1 o q :: r =>
      let i := idx q in
      let rest := internalise idx T1 T2 r (fupd phi i (next1 o (phi i))) in
      match gate1 o (phi i) (T1 q) with Some A => It1 A i :: rest | None => rest end
  | P2 o c t :: r =>
      let i := idx c in let k := idx t in
      let nx := next2 o (phi i) (phi k) in
      It2 (gate2 o (phi i) (phi k) (T1 c) (T1 t) (T2 c t)) i k
        :: internalise idx T1 T2 r (fupd (fupd phi i (fst nx)) k (snd nx))
  end.

Definition relabel (pi : nat -> nat) (x : pop) : pop :=
  match x with P1 o q => P1 o (pi q) | P2 o c t => P2 o (pi c) (pi t) end.
(* every operation acts on used labels *)
Definition pop_on (L : list nat) (x : pop) : Prop :=
  match x with P1 _ q => In q L | P2 _ c t => In c L /\ In t L end.

Section Rel.
Variables (n : nat) (s : nat -> nat) (L : list nat) (pi : nat -> nat) (idx idx' : nat -> nat).
Variables (T1 T1' : nat -> cal) (T2 T2' : nat -> nat -> cal2).
Hypothesis Hs : perm_on n s.
Hypothesis Hidx : forall q, In q L -> idx q < n.
Hypothesis Hsig : forall q, In q L -> s (idx q) = idx' (pi q).
Hypothesis HT1 : forall q, In q L -> T1' (pi q) = T1 q.
Hypothesis HT2 : forall c t, In c L -> In t L -> T2' (pi c) (pi t) = T2 c t.

Lemma fupd_rel phi phi' i v : i < n -> (forall j, j < n -> phi' (s j) = phi j) ->
  forall j, j < n -> fupd phi' (s i) v (s j) = fupd phi i v j.
Proof.
  intros Hi H j Hj. unfold fupd. destruct (Nat.eqb j i) eqn:E.
  - apply Nat.eqb_eq in E. subst j. now rewrite Nat.eqb_refl.
  - apply Nat.eqb_neq in E. destruct (Nat.eqb (s j) (s i)) eqn:E2; [|now apply H].
    apply Nat.eqb_eq in E2. exfalso. apply E. now apply Hs.
Qed.

Lemma internalise_lt circ : Forall (pop_on L) circ -> forall phi, Forall (item_lt n) (internalise idx T1 T2 circ phi).
Proof.
  induction circ as [|x r IH]; intros F phi; cbn [internalise]; [constructor|].
  assert (Fx := Forall_inv F). assert (Fr := Forall_inv_tail F).
  destruct x as [o q|o c t]; cbn [pop_on] in Fx.
  - cbv zeta. destruct (gate1 o (phi (idx q)) (T1 q)); [constructor|]; auto. cbn [item_lt]. auto.
  - cbv zeta. destruct Fx. constructor; auto. cbn [item_lt]. auto.
Qed.

(* relabelling the circuit, the tables and the phases renames the internal item list by the induced permutation *)
Lemma internalise_relabel circ : Forall (pop_on L) circ -> forall phi phi',
  (forall j, j < n -> phi' (s j) = phi j) ->
  internalise idx' T1' T2' (map (relabel pi) circ) phi' = map (rename s) (internalise idx T1 T2 circ phi).
Proof.
  induction circ as [|x r IH]; intros F phi phi' Hphi; cbn [map internalise]; [reflexivity|].
  assert (Fx := Forall_inv F). assert (Fr := Forall_inv_tail F).
  destruct x as [o q|o c t]; cbn [pop_on relabel] in *; cbn [internalise]; cbv zeta.
  - rewrite <- (Hsig q Fx), (Hphi _ (Hidx q Fx)), (HT1 q Fx).
    rewrite (IH Fr (fupd phi (idx q) (next1 o (phi (idx q)))) (fupd phi' (s (idx q)) (next1 o (phi (idx q))))).
    + destruct (gate1 o (phi (idx q)) (T1 q)); reflexivity.
    + apply fupd_rel; auto.
  - destruct Fx as [Fc Ft].
    rewrite <- (Hsig c Fc), <- (Hsig t Ft), (Hphi _ (Hidx c Fc)), (Hphi _ (Hidx t Ft)), (HT1 c Fc), (HT1 t Ft), (HT2 c t Fc Ft).
    cbn [map rename]. f_equal. apply IH; auto.
    apply fupd_rel; auto. apply fupd_rel; auto.
Qed.

(* the final amplitude function, read through the induced permutation, is unchanged *)
Theorem relabel_sem circ phi phi' psi b : Forall (pop_on L) circ -> (forall j, j < n -> phi' (s j) = phi j) -> length b = n ->
  sem (internalise idx' T1' T2' (map (relabel pi) circ) phi') (transport s psi) (permute s b)
  = sem (internalise idx T1 T2 circ phi) psi b.
Proof.
  intros F Hphi Lb. rewrite (internalise_relabel circ F phi phi' Hphi).
  apply (sem_equiv n s Hs); auto. now apply internalise_lt.
Qed.

(* ---- the read-out layer: after the circuit, one one-qubit matrix ro(own values) on EVERY internal qubit k = 0..n-1 in
   this order (simulator: for k in range(nqubit): circ.bitflip(k, tm[layout[k]], rout[layout[k]]));  lb k is the
   label sitting at internal index k.  Relabelling changes the ORDER in which the physical qubits receive their
   read-out matrix; one-qubit matrices on distinct qubits commute. ---- *)
Variable ro : cal -> m2 R.
Definition readout (lb : nat -> nat) (T : nat -> cal) : list (item R) :=
  map (fun k => It1 (ro (T (lb k))) k) (seq 0 n).

Variables lb lb' : nat -> nat.
Hypothesis Hlb : forall k, k < n -> In (lb k) L.
Hypothesis Hlb' : forall k, k < n -> lb' (s k) = pi (lb k).

Lemma readout_lt : Forall (item_lt n) (readout lb T1).
Proof. apply Forall_forall. intros it H. apply in_map_iff in H as (k & <- & Hk). apply in_seq in Hk. cbn [item_lt]. lia. Qed.

Lemma readout_relabel psi b :
  sem (readout lb' T1') psi b = sem (map (rename s) (readout lb T1)) psi b.
Proof.
  set (g := fun r => (ro (T1' (lb' r)), r)).
  assert (E1 : readout lb' T1' = map mk1 (map g (seq 0 n))).
  { unfold readout. rewrite map_map. reflexivity. }
  assert (E2 : map (rename s) (readout lb T1) = map mk1 (map g (map s (seq 0 n)))).
  { unfold readout. rewrite !map_map. apply map_ext_in. intros k Hk. apply in_seq in Hk.
    unfold g, mk1. cbn [fst snd rename]. rewrite Hlb', HT1 by (try apply Hlb; lia). reflexivity. }
  rewrite E1, E2. symmetry. apply sem_It1_perm.
  - apply Permutation_map. now apply perm_on_Permutation.
  - rewrite map_map. unfold g. cbn [snd]. rewrite map_id.
    eapply Permutation_NoDup; [symmetry; apply perm_on_Permutation; exact Hs | apply seq_NoDup].
Qed.

Theorem relabel_sem_ro circ phi phi' psi b : Forall (pop_on L) circ -> (forall j, j < n -> phi' (s j) = phi j) -> length b = n ->
  sem (internalise idx' T1' T2' (map (relabel pi) circ) phi' ++ readout lb' T1') (transport s psi) (permute s b)
  = sem (internalise idx T1 T2 circ phi ++ readout lb T1) psi b.
Proof.
  intros F Hphi Lb. rewrite (sem_app R radd rmul). rewrite readout_relabel. rewrite <- (sem_app R radd rmul).
  rewrite (internalise_relabel circ F phi phi' Hphi). rewrite <- map_app.
  apply (sem_equiv n s Hs); auto. apply Forall_app. split; [now apply internalise_lt | apply readout_lt].
Qed.
End Rel.
End Model.
End Equiv.
