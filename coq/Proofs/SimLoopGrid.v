(* C03 — the GRID class Circuit end to end.
   (1) grid_builder_full (the statement C03_grid_builder_full of Props/C03.v): a fresh Circuit(n, depth) with depth = the number of layers
       the shot fills, fed the builder operations of the shot (shot_ops of Proofs/SimLoopLayeredCalls.v), never raises and its columns are
       exactly shot_layers -- by Proofs/GridBuilder.v (the grid builder follows the layered one) from shot_exec (which rests on the fill
       lemmas of Proofs/SimLoopLayeredFill.v);
   (2) depth_rule: the depth the simulator passes, len(data) - n_rz + 1 (Model/SimLoopLayered.v: depth_of), IS that number when every
       instruction has one of the names rz / sx / x / cx / ecr / delay / measure / barrier (native_q); a kept instruction of another
       name (`id`, `reset`, ...) is counted but fills no column: the depth is then too large, and grid_depth_too_large shows that
       Circuit.statevector raises ValueError on ANY grid whose well-formed columns are followed by an untouched one;
   (3) end_to_end_grid: C14's run model around the grid shot nf_perform_grid (calls -> gexec of C11's gstep on the noise-free tokens with the
       simulator's depth -> columns -> Model/GridBackend.v -> Born rule) returns the marginals of the IDEAL circuit's Born weights, in the
       shape of end_to_end_layered. *)
From Coq Require Import List Bool Arith NArith ZArith Lia Reals Lra.
Require Import QG.Base.Res QG.Base.State QG.Base.Mat QG.Model.FixCounts QG.Model.SimRun QG.Model.Backends QG.Model.Builders QG.Model.GridBackend.
Require Import QG.Model.NoiseFreeRun QG.Model.SimLoop QG.Model.SimLoopLayered.
Require Import QG.Proofs.OptimizerSem QG.Proofs.BackendsSpec QG.Proofs.BackendsKron QG.Proofs.BackendsContract QG.Proofs.GridBackendSpec QG.Proofs.GridBuilder.
Require Import QG.Proofs.FixCountsKeys QG.Proofs.FixCountsProofs QG.Proofs.SimRunKeys QG.Proofs.SimRunProofs.
Require Import QG.Proofs.RelabelRank QG.Proofs.RelabelLayout QG.Proofs.FrameSim QG.Proofs.NoiseFreeRun QG.Proofs.NoiseFreeRunBuilder.
Require Import QG.Proofs.SimLoop QG.Proofs.SimLoopE2E.
Require Import QG.Proofs.SimLoopLayeredBuilder QG.Proofs.SimLoopLayeredCalls QG.Proofs.SimLoopLayered.
Import ListNotations.

(* ================================================================== (1) the builder half *)
Section GCalls.
Variable R : Type.
Variables (rO rI : R) (radd rmul : R -> R -> R) (ropp : R -> R).
Variables A D : Type.
Variable K : consts R A.
Variable ph : A -> Z * Z.
Notation M := (mat R).
Notation idM := (mid2 R rO rI).
Notation frame := (frame R).
Notation group := (group A D). Notation lcall := (lcall A D).
Notation group_calls := (group_calls A D).
Notation lcall_op := (lcall_op R rO rI radd rmul ropp A D K ph).
Notation group_ops_from := (group_ops_from R rO rI radd rmul ropp A D K ph).
Notation shot_ops := (shot_ops R rO rI radd rmul ropp A D K ph).
Notation shot_layers := (shot_layers R rO rI radd rmul ropp A D K).
Notation call_layers_from := (call_layers_from R rO rI radd rmul ropp A D K).
Notation group_wf := (group_wf A D). Notation group_adj := (group_adj A D).
Notation dens := (map (map (ent_den R))).

(* no operation of a shot is reset(); the CNOT / ECR operations act on neighbouring indices *)
Definition ok_op (o : op M) : Prop := no_reset M o /\ adj_op M o.
Definition call_adj (c : lcall) : Prop :=
  match c with LC (C2 _ cv tv _ _) => cv = S tv \/ tv = S cv | _ => True end.
Lemma lcall_op_ok f fi c : call_adj c -> ok_op (lcall_op f fi c).
Proof.
  unfold ok_op, no_reset. destruct c as [c'|k]; [|cbn; auto].
  destruct c' as [v th|k v q|k cv tv c t|v d q|k q]; cbn [call_adj]; intros H; try (cbn; auto; fail).
  - destruct k; cbn; auto.
  - destruct k; cbn; split; auto; lia.
Qed.
Lemma group_calls_adj n g : group_adj g -> Forall call_adj (group_calls n g).
Proof.
  destruct g as [q th|k q|k c t|q d]; cbn [SimLoopLayeredCalls.group_adj SimLoopLayered.group_calls]; intros H; apply Forall_forall; intros x Hx.
  - destruct Hx as [<-|[]]. exact I.
  - apply in_map_iff in Hx as (j & <- & _). destruct (j =? q); exact I.
  - apply in_flat_map in Hx as (j & _ & Hx). destruct (Nat.eqb_spec j c) as [E|N].
    + destruct Hx as [<-|[]]. cbn [call_adj]. rewrite E. exact H.
    + destruct (j =? t); [destruct Hx|]. destruct Hx as [<-|[]]. exact I.
  - apply in_map_iff in Hx as (j & <- & _). destruct (j =? q); exact I.
Qed.
Lemma group_ops_ok n : forall gs ff, Forall group_adj gs -> Forall ok_op (group_ops_from n ff gs).
Proof.
  induction gs as [|g r IH]; intros ff F; [constructor|]. cbn [SimLoopLayeredCalls.group_ops_from]. apply Forall_app. split.
  - apply Forall_forall. intros o Ho. apply in_map_iff in Ho as (c & <- & Hc). apply lcall_op_ok.
    pose proof (group_calls_adj n g (Forall_inv F)) as Fc. rewrite Forall_forall in Fc. auto.
  - apply IH. exact (Forall_inv_tail F).
Qed.
Lemma shot_ops_ok n gs : Forall group_adj gs -> Forall ok_op (shot_ops n gs).
Proof.
  intros F. unfold SimLoopLayeredCalls.shot_ops. apply Forall_app. split; [now apply group_ops_ok|].
  apply Forall_forall. intros o Ho. apply in_map_iff in Ho as (c & <- & Hc). apply lcall_op_ok.
  unfold SimLoopLayered.readout_l in Hc. apply in_map_iff in Hc as (j & <- & _). exact I.
Qed.

(* C03_grid_builder_full *)
Theorem grid_builder_full n gs : 1 <= n -> Forall (group_wf n) gs -> Forall group_adj gs ->
  exists sg, gexec M idM (g_init M n (length (shot_layers n gs))) (shot_ops n gs) = Ok (sg, []) /\
    dens (g_content M sg) = shot_layers n gs.
Proof.
  intros Hn W Ad.
  destruct (shot_exec R rO rI radd rmul ropp A D K ph n BkStandard gs Hn W) as (s' & E & Hd & Hs & _).
  pose proof (shot_ops_ok n gs Ad) as Fo.
  assert (Hl : length (l_mplist M s') = length (shot_layers n gs)).
  { rewrite <- Hd. unfold l_content. now rewrite map_length. }
  destruct (grid_follows_layered M idM n (length (shot_layers n gs)) BkStandard (shot_ops n gs) s' E) as (sg & Eg & _ & _ & Hc).
  - eapply Forall_impl; [|exact Fo]. intros o H. apply H.
  - eapply Forall_impl; [|exact Fo]. intros o H. apply H.
  - exact Hs.
  - lia.
  - exists sg. split; [exact Eg|]. rewrite Hc, Hl, Nat.sub_diag. cbn [repeat]. rewrite app_nil_r. exact Hd.
Qed.

(* how many layers a shot fills: one per group that is not an rz, plus the read-out layer *)
Definition is_grz (g : group) : bool := match g with GRz _ _ => true | _ => false end.
Lemma call_layers_length n : forall gs ff, length (call_layers_from n ff gs) = length (filter (fun g => negb (is_grz g)) gs).
Proof.
  induction gs as [|g r IH]; intros ff; [reflexivity|]. cbn [SimLoopLayeredCalls.call_layers_from filter].
  destruct g as [q th|k q|k c t|q d]; cbn [SimLoopLayered.instr_of_group is_grz negb].
  - cbn [NoiseFreeRun.compile NoiseFreeRun.layer_of app]. apply IH.
  - destruct k; cbn [NoiseFreeRun.compile NoiseFreeRun.layer_of app length]; now rewrite IH.
  - destruct k; cbn [NoiseFreeRun.compile]; unfold NoiseFreeRun.compile2; cbv zeta; destruct (c <? t);
      cbn [NoiseFreeRun.layer_of app length]; now rewrite IH.
  - cbn [length]. now rewrite IH.
Qed.
Lemma shot_layers_length n gs : length (shot_layers n gs) = length (filter (fun g => negb (is_grz g)) gs) + 1.
Proof. unfold SimLoopLayeredCalls.shot_layers. rewrite app_length, call_layers_length. reflexivity. Qed.
Lemma shot_layers_count n gs :
  length (shot_layers n gs) = length (filter (fun g : group => match g with GRz _ _ => false | _ => true end) gs) + 1.
Proof. rewrite shot_layers_length. f_equal. f_equal. apply filter_ext. intros g. destruct g; reflexivity. Qed.
End GCalls.

(* ================================================================== (2) the depth the simulator passes *)
(* every instruction bears a name the loop knows: rz / sx / x / cx / ecr / delay / measure / barrier *)
Definition native_q (x : qinstr) : Prop := iname x <> OpOther.

Section Depth.
Variables A D : Type.
Variable theta : nat -> A.
Variable dur : nat -> D.
Notation group := (group A D).
Notation app_step_l := (app_step_l A D theta dur).
Notation apply_loop_l := (apply_loop_l A D theta dur).
Notation is_grz := (is_grz A D).
Notation nonrz_i := (fun jx : nat * qinstr => negb (is_rz (iname (snd jx)))).
Notation nonrz_g := (fun g : group => negb (is_grz g)).

Lemma depth_step used jx a ga : native_q (snd jx) -> pre_step used jx = Ok a -> apply_loop_l a = Ok ga ->
  length (filter nonrz_i a) = length (filter nonrz_g ga).
Proof.
  destruct jx as [j x]. unfold native_q. cbn [snd]. intros Nat E1 E2.
  assert (Ha : a = [] \/ a = [(j, x)] /\ iname x <> OpMeasure /\ iname x <> OpBarrier).
  { unfold SimLoop.pre_step in E1. cbn [snd] in E1.
    destruct (iname x) eqn:En; cbn [is_barrier negb] in E1;
      (destruct (iqs x) as [|q1 [|q2 qr]]; cbn [rbind] in E1; try discriminate);
      try (destruct (lindex q1 used); cbn [rbind] in E1; [|discriminate]; destruct (ics x); try discriminate);
      rewrite ?andb_false_r, ?andb_true_r in E1;
      try (match type of E1 with Ok (if ?c then _ else _) = _ => destruct c end);
      injection E1 as <-; auto; right; repeat split; congruence. }
  destruct Ha as [->|(-> & NM & NB)].
  - cbn in E2. injection E2 as <-. reflexivity.
  - rewrite (apply_loop_l_one A D theta dur) in E2.
    destruct (app_step_l (j, x)) as [g1|] eqn:E3; cbn [rbind] in E2; [|discriminate]. injection E2 as <-. rewrite app_nil_r.
    unfold SimLoopLayered.app_step_l in E3. cbn [fst snd] in E3. cbn [filter snd].
    destruct (iname x) eqn:En; try congruence; unfold one_label, two_labels in E3; cbn [is_rz negb];
      (destruct (iqs x) as [|q1 [|q2 qr]]; try discriminate); injection E3 as <-; reflexivity.
Qed.

Lemma depth_count used : forall l d gs, Forall (fun jx => native_q (snd jx)) l -> preprocess used l = Ok d -> apply_loop_l d = Ok gs ->
  length (filter nonrz_i d) = length (filter nonrz_g gs).
Proof.
  induction l as [|jx r IH]; intros d gs F Ep Ea; cbn [preprocess] in Ep.
  - injection Ep as <-. cbn in Ea. injection Ea as <-. reflexivity.
  - destruct (pre_step used jx) as [a|] eqn:E1; cbn [rbind] in Ep; [|discriminate].
    destruct (preprocess used r) as [b|] eqn:E2; cbn [rbind] in Ep; [|discriminate]. injection Ep as <-.
    rewrite (apply_loop_l_app A D theta dur) in Ea.
    destruct (apply_loop_l a) as [ga|] eqn:E3; cbn [rbind] in Ea; [|discriminate].
    destruct (apply_loop_l b) as [gb|] eqn:E4; cbn [rbind] in Ea; [|discriminate]. injection Ea as <-.
    rewrite !filter_app, !app_length. f_equal.
    + exact (depth_step used jx a ga (Forall_inv F) E1 E3).
    + exact (IH b gb (Forall_inv_tail F) eq_refl E4).
Qed.

Theorem depth_rule (R : Type) (rO rI : R) (radd rmul : R -> R -> R) (ropp : R -> R) (K : consts R A) used data gs n :
  Forall native_q data -> translate_groups A D theta dur used data = Ok gs ->
  depth_of used data = Ok (length (shot_layers R rO rI radd rmul ropp A D K n gs)).
Proof.
  intros F. unfold translate_groups, depth_of.
  destruct (preprocess used (numbered data)) as [d|] eqn:Ep; cbn [rbind]; [|discriminate]. intros Ea.
  rewrite shot_layers_length, <- (depth_count used (numbered data) d gs (numbered_snd data native_q F) Ep Ea).
  f_equal. f_equal. pose proof (filter_split_length (fun jx : nat * qinstr => is_rz (iname (snd jx))) d). lia.
Qed.
End Depth.

(* ================================================================== (2') a depth that is too large is fatal *)
Section TooLarge.
Variable R : Type.
Variables (rO rI : R) (radd rmul rsub : R -> R -> R) (ropp : R -> R).
Variable Rth : ring_theory rO rI radd rmul rsub ropp eq.
Notation blank n := (repeat (@Backends.EnOne R) n).

Lemma fold_err {X Y} (f : res X -> Y -> res X) (Hf : forall e y, f (Err e) y = Err e) : forall l e, fold_left f l (Err e) = Err e.
Proof. induction l as [|y l IH]; intros e; [reflexivity|]. cbn [fold_left]. now rewrite Hf. Qed.

Lemma widths_blank : forall n w, fst (fold_left (wkron R rmul) (map (ofE R rI) (blank n)) w) = fst w.
Proof.
  induction n as [|n IH]; intros w; [reflexivity|]. cbn [repeat map fold_left]. rewrite IH. unfold wkron. cbn [fst ofE]. lia.
Qed.

(* well-formed columns followed by at least one untouched (all-placeholder) column: the 0-dimensional kron meets `@` *)
Theorem grid_depth_too_large n cols m psi : 1 <= n -> cols <> [] -> Forall (wf_layer R n) cols ->
  grid_statevector_cols R rI radd rmul n (cols ++ repeat (blank n) (S m)) psi = Err ValueError.
Proof.
  intros Hn NE W. destruct cols as [|c0 rest]; [congruence|].
  pose proof (wf_layer_length R n c0 (Forall_inv W)) as L0.
  unfold GridBackend.grid_statevector_cols, GridBackend.grid_product. cbn [app].
  rewrite (wf_not_scalar R n c0 Hn (Forall_inv W)). cbn [andb].
  destruct c0 as [|e0 c0]; [cbn in L0; lia|].
  destruct (reduce_kron_spec R rO rI radd rmul rsub ropp Rth (map (ofE R rI) (e0 :: c0)) ltac:(discriminate)) as (m0 & Hm & [Hm1 _]).
  rewrite (kron_layer_width R rI rmul n (e0 :: c0) (Forall_inv W)) in Hm1. rewrite Hm. cbn [rbind].
  rewrite fold_left_app.
  destruct (std_fold R rO rI radd rmul rsub ropp Rth n Hn rest (Forall_inv_tail W) m0 (fun s => mv R radd rmul n (snd m0) s) Hm1) as (P & EP & HP & _).
  { intros s b Lb. reflexivity. }
  rewrite EP. cbn [repeat fold_left rbind].
  assert (Eb : (m <- reduce_kron R rmul (map (ofE R rI) (blank n)) ;; matmul R radd rmul m P) = Err ValueError).
  { destruct n as [|n]; [lia|]. cbn [repeat map reduce_kron rbind]. unfold matmul. rewrite widths_blank, HP. reflexivity. }
  rewrite Eb. rewrite fold_err; [reflexivity|]. intros e y. reflexivity.
Qed.
End TooLarge.

(* the same for a whole shot: constructed with ANY depth larger than the number of layers the shot fills, the builder still never raises
   (the surplus columns stay untouched), and statevector then raises ValueError *)
Section TooDeep.
Variable R : Type.
Variables (rO rI : R) (radd rmul rsub : R -> R -> R) (ropp : R -> R).
Variable Rth : ring_theory rO rI radd rmul rsub ropp eq.
Variables A D : Type.
Variable K : consts R A.
Variable ph : A -> Z * Z.
Notation M := (mat R).
Notation shot_ops := (shot_ops R rO rI radd rmul ropp A D K ph).
Notation shot_layers := (shot_layers R rO rI radd rmul ropp A D K).

Theorem grid_shot_too_deep n gs dp psi0 : 1 <= n -> Forall (group_wf A D n) gs -> Forall (group_adj A D) gs ->
  length (shot_layers n gs) < dp ->
  exists sg, gexec M (mid2 R rO rI) (g_init M n dp) (shot_ops n gs) = Ok (sg, []) /\
    grid_statevector_cols R rI radd rmul n (map (map (ent_den R)) (g_content M sg)) psi0 = Err ValueError.
Proof.
  intros Hn W Ad Hlt.
  destruct (shot_exec R rO rI radd rmul ropp A D K ph n BkStandard gs Hn W) as (s' & E & Hd & Hs & _).
  pose proof (shot_ops_ok R rO rI radd rmul ropp A D K ph n gs Ad) as Fo.
  assert (Hl : length (l_mplist M s') = length (shot_layers n gs)).
  { rewrite <- Hd. unfold l_content. now rewrite map_length. }
  destruct (grid_follows_layered M (mid2 R rO rI) n dp BkStandard (shot_ops n gs) s' E) as (sg & Eg & _ & _ & Hc).
  - eapply Forall_impl; [|exact Fo]. intros o H. apply H.
  - eapply Forall_impl; [|exact Fo]. intros o H. apply H.
  - exact Hs.
  - lia.
  - exists sg. split; [exact Eg|]. rewrite Hc, Hl, map_app. fold (l_content M s'). rewrite Hd, !map_repeat'. cbn [ent_den].
    destruct (dp - length (shot_layers n gs)) as [|m] eqn:Em; [lia|].
    apply (grid_depth_too_large R rO rI radd rmul rsub ropp Rth n (shot_layers n gs) m psi0 Hn).
    + unfold SimLoopLayeredCalls.shot_layers. intros Z. apply app_eq_nil in Z as [_ Z]. discriminate.
    + now apply (shot_layers_wf R rO rI radd rmul ropp A D K).
Qed.
End TooDeep.

(* ================================================================== (3) the grid shot and the composed theorem *)
Section Shot.
Variable T : Type.
Variables (rO rI : T) (radd rmul : T -> T -> T) (ropp : T -> T).
Variables A D : Type.
Variable K : consts T A.
Variable ph : A -> Z * Z.
Variable V : Type.
Variable born : T -> V.
Notation M := (mat T).
(* _single_shot (492-518) with the noise-free gate set and the grid class: the calls of the loop on the layout and nqubit run() derived; a
   fresh Circuit(nqubit, depth = len(data) - n_rz + 1, gates) executes them (shot_ops: every call with the matrix the noise-free gate set
   returns as its token); statevector(psi0) kron-reduces the columns and multiplies them (Model/GridBackend.v); Born rule entry by
   entry, in the order of the basis states. *)
Definition nf_perform_grid (theta : nat -> A) (dur : nat -> D) (data : list qinstr) (psi0 : state T) (f : front_out) : res (list V) :=
  gs <- translate_groups A D theta dur (f_used f) data ;;
  dp <- depth_of (f_used f) data ;;
  let n := Z.to_nat (f_nqubit f) in
  r <- gexec M (mid2 T rO rI) (g_init M n dp) (shot_ops T rO rI radd rmul ropp A D K ph n gs) ;;
  out <- grid_statevector_cols T rI radd rmul n (map (map (ent_den T)) (g_content M (fst r))) psi0 ;;
  Ok (map (fun b => born (out b)) (binary_vector n)).
End Shot.

Local Open Scope R_scope.
Section Ring.
Variable T : Type.
Variables (rO rI : T) (radd rmul rsub : T -> T -> T) (ropp : T -> T).
Variable Rth : ring_theory rO rI radd rmul rsub ropp eq.
Variable A : Type.
Variable K : consts T A.
Hypothesis OK : consts_ok T rI rmul ropp A K.
Variable cj : T -> T.
Hypothesis CJ : conj_ok T rI rmul ropp A K cj.
Variable born : T -> R.
Hypothesis born_nrm : forall x y, nrm T rmul cj x = nrm T rmul cj y -> born x = born y.
Hypothesis born_nonneg : forall x, 0 <= born x.
Variable D : Type.
Variables (theta : nat -> A) (dur : nat -> D).
Variable ph : A -> Z * Z.
Notation sem := (sem T radd rmul).
Notation ideal_items := (ideal_items T rO rI radd rmul ropp A K).
Notation nf_perform_grid := (nf_perform_grid T rO rI radd rmul ropp A D K ph R born).

Theorem end_to_end_grid (a : args) (f : front_out) (data : list qinstr) (psi0 : state T) :
  front a = Ok f -> a_circ a = CData true data -> Forall wf_qiskit data ->
  NoDup (map fst (f_meas f)) -> f_nqubit f = Z.of_nat (f_n f) ->
  f_used f = id_layout (f_n f) -> Forall adjacent_q data -> Forall native_q data ->
  exists prog, translate_layered A D theta dur (f_used f) data = Ok prog /\
    Forall (NoiseFreeRun.wf_instr (f_n f)) prog /\ Forall NoiseFreeRun.adjacent_instr prog /\
    let ideal := fun b => born (sem (ideal_items prog) psi0 b) in
    let total := rsum (map ideal (binary_vector (f_n f))) in
    (0 < total ->
     exists out, run_model R 0 Rplus Rdiv rpos a (nf_perform_grid theta dur data psi0) = Ok out /\
       forall t, length t = length (f_meas f) ->
         lookup R t out = Some (marginal_sum (fun b => ideal b / total) (f_n f) (meas_ranks f) t)).
Proof.
  intros Hf Hc W NDm Hnq Hid Ad Nat.
  pose proof (layout_of_front a f data Hf Hc) as Hl.
  destruct (translate_layered_wf A D theta dur data _ _ _ W Hl Hid Ad) as (gs & Egs & Fw & Fa & _ & Et & Wp & Ap).
  exists (nf_prog_groups A D gs). split; [exact Et|]. split; [exact Wp|]. split; [exact Ap|]. cbv zeta. intros Hpos.
  pose proof (n_pos a f data Hf Hc W NDm) as Hn.
  destruct (grid_builder_full T rO rI radd rmul ropp A D K ph (f_n f) gs ltac:(lia) Fw Fa) as (sg & Ex & Hd).
  destruct (grid_statevector_cols_spec T rO rI radd rmul rsub ropp Rth (f_n f) (shot_layers T rO rI radd rmul ropp A D K (f_n f) gs) psi0
              ltac:(lia)) as (out & Eo & So).
  { unfold shot_layers. intros Z. apply app_eq_nil in Z as [_ Z]. discriminate. }
  { now apply (shot_layers_wf T rO rI radd rmul ropp A D K). }
  apply (e2e_core a f data Hf Hc W NDm (nf_perform_grid theta dur data psi0)
           (fun b => born (out b))
           (fun b => born (sem (ideal_items (nf_prog_groups A D gs)) psi0 b))).
  - unfold SimLoopGrid.nf_perform_grid. rewrite Egs. cbn [rbind].
    rewrite (depth_rule A D theta dur T rO rI radd rmul ropp K (f_used f) data gs (f_n f) Nat Egs). cbn [rbind].
    rewrite Hnq, Nat2Z.id, Ex. cbn [rbind fst]. rewrite Hd, Eo. cbn [rbind]. reflexivity.
  - intros b Hb. apply born_nrm. rewrite (So b Hb).
    rewrite (shot_layers_sem T rO rI radd rmul rsub ropp Rth A D K (f_n f) gs psi0 Fw Fa b).
    exact (noise_free_born_index T rO rI radd rmul rsub ropp Rth A K OK cj CJ (f_n f) _ psi0 Wp b Hb).
  - intros b. apply born_nonneg.
  - exact Hpos.
Qed.
End Ring.
