(* The operator BinaryBackend constructs for one item, applied to a state, is apply1 / apply2 of Base/State.v
   (sparse_is_apply, dense_is_apply), over any commutative ring, for every number of qubits and every qubit / ordered
   pair of distinct qubits (adjacent or not). *)
From Coq Require Import List Bool Arith ZArith NArith Lia Ring.
Require Import QG.Base.Res QG.Base.State QG.Base.Mat QG.Model.Optimizer QG.Model.Sparse.
Require Import QG.Proofs.OptimizerSem QG.Proofs.SparseBits QG.Proofs.SparseJoin.
Import ListNotations.

Lemma bits_eqb_beq a : forall b, bits_eqb a b = beq a b.
Proof. induction a as [|x a IH]; intros [|y b]; cbn [bits_eqb beq]; auto; try now rewrite IH. Qed.
Lemma beq_iff a b : beq a b = true <-> a = b.
Proof. split; [apply beq_eq | intros ->; apply beq_refl]. Qed.

(* reading a matrix entry by its numeric index (what gate[r, c] does) *)
Definition bit_of (x : N) : bool := negb (N.eqb x 0).
Lemma bit_of_b2N x : bit_of (b2N x) = x. Proof. destruct x; reflexivity. Qed.
Lemma bit_of_hi x y : bit_of (N.div (2 * b2N x + b2N y) 2) = x. Proof. destruct x, y; reflexivity. Qed.
Lemma bit_of_lo x y : bit_of (N.modulo (2 * b2N x + b2N y) 2) = y. Proof. destruct x, y; reflexivity. Qed.

Section A.
Variable R : Type.
Variables (rO rI : R) (radd rmul rsub : R -> R -> R) (ropp : R -> R).
Variable Rth : ring_theory rO rI radd rmul rsub ropp eq.
Add Ring RrSp : Rth.
Infix "+" := radd. Infix "*" := rmul.
Notation bsum := (bsum R radd).
Notation coo := (coo_apply R rO radd rmul).
Notation Bdelta := (bsum_delta R rO rI radd rmul rsub ropp Rth).
Notation Bzero := (bsum_zero R rO rI radd rmul rsub ropp Rth).

Definition entry_mat (m : mat R) (r c : N) : R :=
  match m with
  | M2 _ a => a (bit_of r) (bit_of c)
  | M4 _ g => g (bit_of (N.div r 2), bit_of (N.modulo r 2)) (bit_of (N.div c 2), bit_of (N.modulo c 2))
  | MBad _ => rO
  end.

(* ---- sums over lists ---- *)
Definition lsum {A} (l : list A) (f : A -> R) : R := fold_left (fun acc x => acc + f x) l rO.
Lemma lsum_acc {A} (l : list A) f : forall a, fold_left (fun acc x => acc + f x) l a = a + lsum l f.
Proof.
  unfold lsum. induction l as [|x l IH]; intros a; cbn [fold_left]. { ring. }
  rewrite IH, (IH (rO + f x)). ring.
Qed.
Lemma lsum_cons {A} (x : A) l f : lsum (x :: l) f = f x + lsum l f.
Proof. unfold lsum at 1. cbn [fold_left]. rewrite lsum_acc. ring. Qed.
Lemma lsum_app {A} (l1 l2 : list A) f : lsum (l1 ++ l2) f = lsum l1 f + lsum l2 f.
Proof. unfold lsum at 1. rewrite fold_left_app. fold (lsum l1 f). apply lsum_acc. Qed.
Lemma lsum_map {A B} (g : A -> B) l f : lsum (map g l) f = lsum l (fun x => f (g x)).
Proof. induction l as [|x l IH]; [reflexivity|]. cbn [map]. now rewrite !lsum_cons, IH. Qed.
Lemma lsum_concat_map {A B} (g : A -> list B) l f : lsum (concat (map g l)) f = lsum l (fun x => lsum (g x) f).
Proof. induction l as [|x l IH]; [reflexivity|]. cbn [map concat]. now rewrite lsum_app, lsum_cons, IH. Qed.
Lemma lsum_all_bits w : forall f, lsum (all_bits w) f = bsum w f.
Proof.
  induction w as [|w IH]; intros f; cbn [all_bits Mat.bsum].
  - rewrite lsum_cons. unfold lsum. cbn [fold_left]. ring.
  - now rewrite lsum_app, !lsum_map, !IH.
Qed.

(* the COO accumulation as a sum over the triples *)
Definition term (gate : N -> N -> R) (psi : bits -> R) (b : bits) (t : list bool * list bool * (N * N)) : R :=
  if beq (fst (fst t)) b then gate (fst (snd t)) (snd (snd t)) * psi (snd (fst t)) else rO.
Lemma coo_lsum ts gate psi b : coo ts gate psi b = lsum ts (term gate psi b).
Proof.
  unfold coo_apply.
  assert (G : forall a, fold_left (fun acc (t : list bool * list bool * (N * N)) =>
      let '(row, col, (r, c)) := t in if bits_eqb row b then acc + gate r c * psi col else acc) ts a
      = a + lsum ts (term gate psi b)).
  { induction ts as [|t ts IH]; intros a; cbn [fold_left].
    - unfold lsum. cbn [fold_left]. ring.
    - rewrite IH, lsum_cons. destruct t as [[row col] [r c]]. unfold term. cbn [fst snd].
      rewrite bits_eqb_beq. destruct (beq row b); ring. }
  rewrite G. ring.
Qed.

(* ---- the sparse operator of a (not-used, used) split that covers the n positions ---- *)
Section Cover.
Variables qnu qs : list nat.
Notation k := (length qnu).
Notation m := (length qs).
Hypothesis NDu : NoDup qnu.
Hypothesis NDq : NoDup qs.
Hypothesis Disj : forall p, In p qnu -> ~ In p qs.
Hypothesis Cov : forall p, (p < k + m)%nat -> In p qnu \/ In p qs.
Hypothesis Bu : forall q, In q qnu -> (q < k + m)%nat.
Hypothesis Bq : forall q, In q qs -> (q < k + m)%nat.
Notation sp := (sp_str qnu qs).

Lemma gath_sp bi j : length bi = k -> length j = m -> map (get (sp bi j)) (qnu ++ qs) = bi ++ j.
Proof.
  intros Lb Lj. rewrite map_app. unfold sp_str. f_equal.
  - rewrite gath_scat_other by exact Disj. apply gath_scat; auto. now rewrite repeat_length.
  - apply gath_scat; auto. now rewrite scat_length, repeat_length.
Qed.

Lemma sp_eq_iff bi j b : length bi = k -> length j = m -> length b = (k + m)%nat ->
  sp bi j = b <-> map (get b) qnu = bi /\ map (get b) qs = j.
Proof.
  intros Lb Lj L. split.
  - intros <-. pose proof (gath_sp bi j Lb Lj) as G. rewrite map_app in G.
    apply app_eq_len in G; auto. now rewrite map_length.
  - intros [E1 E2]. apply (eq_cover (k + m)%nat (qnu ++ qs)); auto using sp_str_length.
    + intros p Hp. apply in_or_app. auto.
    + rewrite gath_sp, map_app, E1, E2; auto.
Qed.

Lemma beq_sp bi j b : length bi = k -> length j = m -> length b = (k + m)%nat ->
  beq (sp bi j) b = beq (map (get b) qnu) bi && beq (map (get b) qs) j.
Proof.
  intros Lb Lj L. apply eq_true_iff_eq. rewrite andb_true_iff, !beq_iff. now apply sp_eq_iff.
Qed.

Lemma sp_gath b j : length b = (k + m)%nat -> length j = m -> sp (map (get b) qnu) j = scat qs j b.
Proof.
  intros L Lj. apply (eq_cover (k + m)%nat (qnu ++ qs)); auto using sp_str_length.
  - now rewrite scat_length.
  - intros p Hp. apply in_or_app. auto.
  - rewrite gath_sp by (auto; apply map_length). rewrite map_app. f_equal.
    + symmetry. apply gath_scat_other. exact Disj.
    + symmetry. apply gath_scat; auto. rewrite L. exact Bq.
Qed.

Theorem sparse_sum gate psi b : length b = (k + m)%nat ->
  coo (sparse_triples qnu qs) gate psi b =
  bsum m (fun jc => gate (fst (ent qs b (scat qs jc b))) (snd (ent qs b (scat qs jc b))) * psi (scat qs jc b)).
Proof.
  intros L. rewrite coo_lsum. unfold sparse_triples. rewrite lsum_concat_map, lsum_all_bits.
  set (gi := map (get b) qnu). set (gr := map (get b) qs).
  assert (Lgi : length gi = k) by apply map_length. assert (Lgr : length gr = m) by apply map_length.
  set (F := fun bi => bsum m (fun jc => gate (fst (ent qs b (sp bi jc))) (snd (ent qs b (sp bi jc))) * psi (sp bi jc))).
  transitivity (bsum k (fun bi => (if beq gi bi then rI else rO) * F bi)).
  - apply bsum_ext. intros bi Lbi. rewrite lsum_map, lsum_all_bits, bsum_prod.
    transitivity (bsum m (fun jr => (if beq gr jr then rI else rO) * ((if beq gi bi then rI else rO) * F bi))).
    + apply bsum_ext. intros jr Ljr.
      destruct (beq (sp bi jr) b) eqn:E.
      * pose proof E as E'. rewrite beq_sp in E' by auto. apply andb_prop in E' as [E1 E2]. fold gi in E1. fold gr in E2.
        rewrite E1, E2. apply beq_eq in E.
        transitivity (F bi); [|ring]. unfold F. apply bsum_ext. intros jc Ljc.
        rewrite firstn_app_exact, skipn_app_exact by auto. unfold term. cbn [fst snd].
        rewrite E, beq_refl. reflexivity.
      * rewrite (bsum_ext R radd m _ (fun _ => rO)).
        2:{ intros jc Ljc. rewrite firstn_app_exact by auto. unfold term. cbn [fst snd]. now rewrite E. }
        rewrite Bzero. rewrite beq_sp in E by auto. fold gi gr in E.
        destruct (beq gi bi), (beq gr jr); try discriminate; ring.
    + apply (Bdelta m gr (fun _ => (if beq gi bi then rI else rO) * F bi)). exact Lgr.
  - rewrite (Bdelta k gi F Lgi). unfold F. apply bsum_ext. intros jc Ljc.
    unfold gi. rewrite sp_gath by auto. reflexivity.
Qed.
End Cover.

(* create_sparse returns normally and its triples act as the sum above *)
Theorem sparse_sum_full (qnu qs : list nat) :
  NoDup qnu -> NoDup qs -> (forall p, In p qnu -> ~ In p qs) ->
  (forall p, (p < length qnu + length qs)%nat -> In p qnu \/ In p qs) ->
  (forall q, In q qnu -> (q < length qnu + length qs)%nat) -> (forall q, In q qs -> (q < length qnu + length qs)%nat) ->
  (0 < length qnu)%nat -> (0 < length qs)%nat ->
  create_sparse (map Z.of_nat qs) (map Z.of_nat qnu) (map Z.of_nat qs) (length qnu + length qs)%nat = Ok (sparse_triples qnu qs) /\
  forall gate psi b, length b = (length qnu + length qs)%nat ->
    coo (sparse_triples qnu qs) gate psi b =
    bsum (length qs) (fun jc => gate (fst (ent qs b (scat qs jc b))) (snd (ent qs b (scat qs jc b))) * psi (scat qs jc b)).
Proof.
  intros NDu NDq Disj Cov Bu Bq Hk Hm. split.
  - exact (create_sparse_spec qnu qs Hk Hm Bu Bq).
  - exact (sparse_sum qnu qs NDu NDq Disj Cov Bu Bq).
Qed.

(* create_sparse with the qubit count given separately *)
Lemma create_sparse_ok nq (qnu qs : list nat) : nq = (length qnu + length qs)%nat -> 0 < length qnu -> 0 < length qs ->
  (forall q, In q qnu -> q < nq) -> (forall q, In q qs -> q < nq) ->
  create_sparse (map Z.of_nat qs) (map Z.of_nat qnu) (map Z.of_nat qs) nq = Ok (sparse_triples qnu qs).
Proof. intros ->. apply create_sparse_spec. Qed.

Notation ap1 := (apply1 R radd rmul).
Notation ap2 := (apply2 R radd rmul).

(* ---- one-qubit items: dense for n = 1, sparse otherwise ---- *)
Theorem item_operator_apply1 nq q (a : State.m2 R) : q < nq ->
  exists op, item_operator nq [Z.of_nat q] = Ok op /\
    forall psi b, length b = nq -> coo (snd op) (entry_mat (M2 R a)) psi b = ap1 q a psi b.
Proof.
  intros Hq. destruct (Nat.eq_dec nq 1) as [->|Hn].
  - (* create_dense *)
    assert (q = 0) by lia. subst q. eexists. split; [reflexivity|].
    intros psi [|x [|? ?]] L; try discriminate. destruct x; vm_compute; ring.
  - (* create_sparse *)
    destruct (py_remove_nat q (seq 0 nq)) as (l1 & E1 & ND1 & I1 & L1).
    { apply in_seq. lia. } { apply seq_NoDup. }
    rewrite seq_length in L1.
    unfold item_operator. cbn [length Nat.eqb idx nth_error rbind]. rewrite E1. cbn [rbind].
    rewrite map_length. replace (Nat.eqb (length l1) 0) with false by (symmetry; apply Nat.eqb_neq; lia).
    change [Z.of_nat q] with (map Z.of_nat [q]).
    assert (B1 : forall p, In p l1 -> p < nq). { intros p Hp. apply I1 in Hp as [Hp _]. apply in_seq in Hp. lia. }
    assert (Bq : forall p, In p [q] -> p < nq). { intros p [<-|[]]. exact Hq. }
    assert (Hnq : nq = (length l1 + length [q])%nat) by (cbn [length]; lia).
    rewrite (create_sparse_ok nq l1 [q]); auto; cbn [length]; try lia.
    cbn [rbind]. eexists. split; [reflexivity|]. cbn [snd]. intros psi b L.
    rewrite sparse_sum; auto.
    + cbn [length Mat.bsum scat ent fst snd entry_mat]. unfold apply1.
      rewrite !get_upd by lia. rewrite !bit_of_b2N. reflexivity.
    + repeat constructor. intros [].
    + intros p Hp [<-|[]]. apply I1 in Hp. tauto.
    + intros p Hp. rewrite <- Hnq in Hp. destruct (Nat.eq_dec p q) as [->|Hpq]; [right; now left|left].
      apply I1. split; auto. apply in_seq. lia.
    + intros p Hp. rewrite <- Hnq. auto.
    + intros p Hp. rewrite <- Hnq. auto.
    + rewrite <- Hnq. exact L.
Qed.

(* ---- two-qubit items on any ordered pair of distinct qubits: dense for n = 2, sparse otherwise ---- *)
Theorem item_operator_apply2 nq qa qb (g : State.m4 R) : qa < nq -> qb < nq -> qa <> qb ->
  exists op, item_operator nq [Z.of_nat qa; Z.of_nat qb] = Ok op /\
    forall psi b, length b = nq -> coo (snd op) (entry_mat (M4 R g)) psi b = ap2 qa qb g psi b.
Proof.
  intros Ha Hb Hab. destruct (Nat.eq_dec nq 2) as [->|Hn].
  - (* create_dense *)
    destruct qa as [|[|?]], qb as [|[|?]]; try lia.
    + eexists. split; [reflexivity|].
      intros psi [|x [|y [|? ?]]] L; try discriminate. destruct x, y; vm_compute; ring.
    + eexists. split; [reflexivity|].
      intros psi [|x [|y [|? ?]]] L; try discriminate. destruct x, y; vm_compute; ring.
  - (* create_sparse *)
    destruct (py_remove_nat qa (seq 0 nq)) as (l1 & E1 & ND1 & I1 & L1).
    { apply in_seq. lia. } { apply seq_NoDup. }
    rewrite seq_length in L1.
    destruct (py_remove_nat qb l1) as (l2 & E2 & ND2 & I2 & L2); auto.
    { apply I1. split; auto. apply in_seq. lia. }
    unfold item_operator. cbn [length Nat.eqb idx nth_error rbind]. rewrite E1. cbn [rbind]. rewrite E2. cbn [rbind].
    rewrite map_length. replace (Nat.eqb (length l2) 0) with false by (symmetry; apply Nat.eqb_neq; lia).
    change [Z.of_nat qa; Z.of_nat qb] with (map Z.of_nat [qa; qb]).
    assert (B2 : forall p, In p l2 -> p < nq).
    { intros p Hp. apply I2 in Hp as [Hp _]. apply I1 in Hp as [Hp _]. apply in_seq in Hp. lia. }
    assert (Bq : forall p, In p [qa; qb] -> p < nq). { intros p [<-|[<-|[]]]; assumption. }
    assert (Hnq : nq = (length l2 + length [qa; qb])%nat) by (cbn [length]; lia).
    rewrite (create_sparse_ok nq l2 [qa; qb]); auto; cbn [length]; try lia.
    cbn [rbind]. eexists. split; [reflexivity|]. cbn [snd]. intros psi b L.
    rewrite sparse_sum; auto.
    + cbn [length Mat.bsum scat ent fst snd entry_mat]. unfold apply2. cbv zeta.
      rewrite !(get_upd_ne _ qb qa) by auto. rewrite !get_upd by (rewrite ?upd_length; lia).
      rewrite !bit_of_hi, !bit_of_lo. ring.
    + repeat constructor; [intros [E|[]]; auto | intros []].
    + intros p Hp [<-|[<-|[]]]; apply I2 in Hp as [Hp Hp']; [apply I1 in Hp; tauto | tauto].
    + intros p Hp. rewrite <- Hnq in Hp.
      destruct (Nat.eq_dec p qa) as [->|Hpa]; [right; now left|].
      destruct (Nat.eq_dec p qb) as [->|Hpb]; [right; right; now left|left].
      apply I2. split; auto. apply I1. split; auto. apply in_seq. lia.
    + intros p Hp. rewrite <- Hnq. auto.
    + intros p Hp. rewrite <- Hnq. auto.
    + rewrite <- Hnq. exact L.
Qed.

End A.
