(* Bit-string arithmetic of Model/Sparse.v: f"{x:0{w}b}" (fmt_b) and int(s, 2) (val2) are mutually inverse between the
   numbers below 2^w and the bit lists of length w (w >= 1); range(2^w) enumerates exactly the bit lists of length w in
   the order of Mat.all_bits; and bits_dup: the 2k-digit binary of i * (2^k + 1) is the k-digit binary of i written
   twice (create_sparse line 320). *)
From Coq Require Import List Bool Arith ZArith NArith Lia.
Require Import QG.Base.Res QG.Base.State QG.Base.Mat QG.Model.Optimizer QG.Model.Sparse.
Import ListNotations.

(* int(s, 2) of the model is the index value of Base/Mat.v *)
Lemma val2_bval s : val2 s = bval s.
Proof. reflexivity. Qed.

Lemma bval_cons h t : bval (h :: t) = (b2N h * 2 ^ N.of_nat (length t) + bval t)%N.
Proof. change (h :: t) with ([h] ++ t). rewrite bval_app. destruct h; reflexivity. Qed.

Lemma bval_bound b : (bval b < 2 ^ N.of_nat (length b))%N.
Proof.
  induction b as [|h t IH]. { reflexivity. }
  rewrite bval_cons. cbn [length]. rewrite Nat2N.inj_succ, N.pow_succ_r'. destruct h; cbn [b2N]; lia.
Qed.

Lemma bval_inj a : forall b, length a = length b -> bval a = bval b -> a = b.
Proof.
  induction a as [|x a IH]; intros [|y b] HL HV; cbn [length] in HL; try discriminate; auto.
  injection HL as HL. rewrite !bval_cons in HV. rewrite HL in HV.
  pose proof (bval_bound a) as Ba. pose proof (bval_bound b) as Bb. rewrite HL in Ba.
  destruct x, y; cbn [b2N] in HV; try lia; f_equal; apply IH; auto; lia.
Qed.

Lemma bval_repeat_false m : bval (repeat false m) = 0%N.
Proof. induction m as [|m IH]; [reflexivity|]. cbn [repeat]. rewrite bval_cons, IH. cbn [b2N]. lia. Qed.

Lemma bval_pos_digits p : bval (pos_digits p) = Npos p.
Proof.
  induction p as [q IH|q IH|]; cbn [pos_digits]; try rewrite bval_app, IH; try reflexivity;
    cbn [length]; change (bval [true]) with 1%N; change (bval [false]) with 0%N; lia.
Qed.

Lemma bval_bin_digits x : bval (bin_digits x) = x.
Proof. destruct x; [reflexivity | apply bval_pos_digits]. Qed.

Lemma pos_digits_len p : (2 ^ N.of_nat (length (pos_digits p)) <= 2 * Npos p)%N.
Proof.
  induction p as [q IH|q IH|]; cbn [pos_digits]; try rewrite app_length; cbn [length];
    try rewrite Nat.add_1_r, Nat2N.inj_succ, N.pow_succ_r'; try lia.
Qed.

Lemma bin_digits_len w x : 0 < w -> (x < 2 ^ N.of_nat w)%N -> length (bin_digits x) <= w.
Proof.
  intros Hw Hx. destruct x as [|p]. { cbn. lia. }
  cbn [bin_digits]. pose proof (pos_digits_len p) as H.
  destruct (le_lt_dec (length (pos_digits p)) w) as [|Hgt]; auto. exfalso.
  assert (2 ^ N.of_nat (S w) <= 2 ^ N.of_nat (length (pos_digits p)))%N by (apply N.pow_le_mono_r; lia).
  rewrite Nat2N.inj_succ, N.pow_succ_r' in H0. lia.
Qed.

(* int(f"{x:0{w}b}", 2) == x, and the formatted string has exactly w characters when x < 2^w (w >= 1) *)
Lemma bval_fmt_b w x : bval (fmt_b w x) = x.
Proof. unfold fmt_b. rewrite bval_app, bval_repeat_false, bval_bin_digits. lia. Qed.

Lemma fmt_b_length w x : 0 < w -> (x < 2 ^ N.of_nat w)%N -> length (fmt_b w x) = w.
Proof.
  intros Hw Hx. unfold fmt_b. rewrite app_length, repeat_length.
  pose proof (bin_digits_len w x Hw Hx). lia.
Qed.

(* f"{int(b, 2):0{w}b}" == b for a w-character string *)
Lemma fmt_b_bval w b : 0 < w -> length b = w -> fmt_b w (bval b) = b.
Proof.
  intros Hw L. apply bval_inj.
  - rewrite fmt_b_length; auto. rewrite <- L. apply bval_bound.
  - apply bval_fmt_b.
Qed.

(* both directions at once, in the model's own vocabulary (val2 = int(s, 2)) *)
Lemma fmt_b_val2_inverse w : 0 < w ->
  (forall x : N, (x < 2 ^ N.of_nat w)%N -> length (fmt_b w x) = w /\ val2 (fmt_b w x) = x) /\
  (forall s : list bool, length s = w -> (val2 s < 2 ^ N.of_nat w)%N /\ fmt_b w (val2 s) = s).
Proof.
  intros Hw. split.
  - intros x Hx. split; [exact (fmt_b_length w x Hw Hx) | exact (bval_fmt_b w x)].
  - intros s Ls. split; [rewrite <- Ls; exact (bval_bound s) | exact (fmt_b_bval w s Hw Ls)].
Qed.

(* ---- bits_dup ---- *)
Lemma bits_dup_bits k b : 0 < k -> length b = k ->
  fmt_b (2 * k) (bval b * (2 ^ N.of_nat k + 1))%N = b ++ b.
Proof.
  intros Hk L.
  replace (bval b * (2 ^ N.of_nat k + 1))%N with (bval (b ++ b)) by (rewrite bval_app, L; lia).
  apply fmt_b_bval. lia. rewrite app_length. lia.
Qed.

Lemma bits_dup k i : 0 < k -> (i < 2 ^ N.of_nat k)%N ->
  fmt_b (2 * k) (i * (2 ^ N.of_nat k + 1))%N = fmt_b k i ++ fmt_b k i.
Proof.
  intros Hk Hi. rewrite <- (bval_fmt_b k i) at 1. apply bits_dup_bits; auto. now apply fmt_b_length.
Qed.

(* ---- range(2^w) enumerates the bit lists of length w ---- *)
Lemma seq_shift_N a b : forall s, map N.of_nat (seq (a + s) b) = map (fun x => (N.of_nat a + x)%N) (map N.of_nat (seq s b)).
Proof.
  induction b as [|b IH]; intros s; cbn [seq map]; auto.
  f_equal. { lia. } rewrite <- IH. f_equal. f_equal. lia.
Qed.
Lemma nrange_app a b : nrange (a + b) = nrange a ++ map (fun x => (N.of_nat a + x)%N) (nrange b).
Proof.
  unfold nrange. rewrite seq_app, map_app. f_equal. cbn [Nat.add].
  rewrite <- seq_shift_N. f_equal. f_equal. lia.
Qed.

Lemma bval_all_bits w : map bval (all_bits w) = nrange (2 ^ w).
Proof.
  induction w as [|w IH]. { reflexivity. }
  cbn [all_bits]. rewrite map_app, !map_map.
  rewrite Nat.pow_succ_r'. replace (2 * 2 ^ w) with (2 ^ w + 2 ^ w) by lia.
  rewrite nrange_app, <- IH. apply (f_equal2 (@app N)).
  - apply map_ext. intros b. rewrite bval_cons. cbn [b2N]. lia.
  - rewrite map_map. apply map_ext_in. intros b Hb. rewrite bval_cons, (all_bits_length w b Hb).
    rewrite Nat2N.inj_pow. cbn [b2N]. change (N.of_nat 2) with 2%N. lia.
Qed.

Lemma fmt_b_all_bits w : 0 < w -> map (fmt_b w) (nrange (2 ^ w)) = all_bits w.
Proof.
  intros Hw. rewrite <- bval_all_bits, map_map. rewrite <- (map_id (all_bits w)) at 2.
  apply map_ext_in. intros b Hb. apply fmt_b_bval; auto. now apply all_bits_length.
Qed.

Lemma all_bits_In w : forall b, length b = w -> In b (all_bits w).
Proof.
  induction w as [|w IH]; intros b L.
  - destruct b; [now left | discriminate].
  - destruct b as [|h b]; [discriminate|]. injection L as L. cbn [all_bits]. apply in_or_app.
    destruct h; [right | left]; apply in_map; auto.
Qed.

(* bit_of inverts b2N (reading a 0/1 index back as a row / column bit) *)
Lemma b2N_lt2 x : (b2N x < 2)%N. Proof. destruct x; cbn; lia. Qed.
