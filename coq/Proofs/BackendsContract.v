(* C01 — the einsum contraction of the model is the Kronecker mat-vec; execution of per-layer plans; StandardBackend. *)
From Coq Require Import List Bool Arith Lia Ring.
Require Import QG.Base.Res QG.Base.State QG.Base.Mat QG.Model.Backends QG.Proofs.BackendsSpec QG.Proofs.BackendsKron.
Import ListNotations.

Section Contract.
Variable R : Type.
Variables (rO rI : R) (radd rmul rsub : R -> R -> R) (ropp : R -> R).
Variable Rth : ring_theory rO rI radd rmul rsub ropp eq.
Add Ring RrC : Rth.
Infix "+" := radd. Infix "*" := rmul.
Notation entry := (entry R).
Notation wmat := (nat * (bits -> bits -> R))%type (only parsing).
Notation leg := (nat * option (bits -> bits -> R))%type (only parsing).
Notation kron := (kron R rmul).
Notation bsum := (bsum R radd).
Notation mv := (mv R radd rmul).
Notation mm := (mm R radd rmul).
Notation ofE := (ofE R rI).
Notation sem := (sem R radd rmul).
Notation kronW := (kronW R rI rmul).
Notation weq := (weq R).
Notation meq := (meq R).
Notation pkron := (pkron R rmul).
Notation wf_layer := (wf_layer R).
Notation layer_items := (layer_items R).
Notation layers_sem := (layers_sem R radd rmul).
Notation contractI := (contractI R radd rmul).
Notation exec1 := (exec1 R radd rmul).
Notation exec := (exec R radd rmul).
Notation state_eq := (state_eq R).

Definition leg_mat (lg : leg) : wmat := (fst lg, match snd lg with Some A => A | None => idm R rO rI end).

Lemma legs_width_cons lg rest : legs_width R (lg :: rest) = (fst lg + legs_width R rest)%nat.
Proof. reflexivity. Qed.

(* the contraction with the strings built by the code = (kron of the leg matrices, identities on passed-through legs) @ psi *)
Lemma contractI_spec legs : forall psi x, length x = legs_width R legs ->
  contractI legs psi x = mv (legs_width R legs) (snd (kronW (map leg_mat legs))) psi x.
Proof.
  induction legs as [|[w [A|]] rest IH]; intros psi x L.
  - destruct x; [|discriminate]. cbn. unfold one. ring.
  - rewrite legs_width_cons in *. cbn [fst] in *.
    change (kronW (map leg_mat ((w, Some A) :: rest))) with (pkron (w, A) (kronW (map leg_mat rest))).
    cbn [BackendsKron.pkron snd fst]. rewrite (kron_step R rO rI radd rmul rsub ropp Rth).
    cbn [Backends.contractI]. cbv zeta. apply bsum_ext. intros b Lb.
    rewrite memoT_get by assumption. rewrite memoT_get by (eapply skipn_len; eassumption).
    rewrite IH by (eapply skipn_len; eassumption). reflexivity.
  - rewrite legs_width_cons in *. cbn [fst] in *.
    change (kronW (map leg_mat ((w, None) :: rest))) with (pkron (w, idm R rO rI) (kronW (map leg_mat rest))).
    cbn [BackendsKron.pkron snd fst]. rewrite (kron_step R rO rI radd rmul rsub ropp Rth).
    unfold idm. rewrite (bsum_delta R rO rI radd rmul rsub ropp Rth) by (eapply firstn_len; eassumption).
    cbn [Backends.contractI]. cbv zeta.
    rewrite memoT_get by (eapply firstn_len; eassumption). rewrite memoT_get by (eapply skipn_len; eassumption).
    rewrite IH by (eapply skipn_len; eassumption). reflexivity.
Qed.

(* ---------- plans ---------- *)
(* a per-layer plan is correct for layer l when executing it is the slot semantics of l *)
Definition plan_ok (n : nat) (l : list entry) (p : lplan R) : Prop :=
  forall psi, state_eq n (exec1 n p psi) (sem (layer_items 0 l) psi).

Lemma exec_ok n : forall ls ps, Forall2 (plan_ok n) ls ps -> forall psi, state_eq n (exec n ps psi) (layers_sem ls psi).
Proof.
  induction 1 as [|l p ls ps Hp _ IH]; intros psi; [apply state_eq_refl|].
  rewrite layers_sem_cons. change (exec n (p :: ps) psi) with (exec n ps (exec1 n p psi)).
  eapply state_eq_trans; [apply IH|]. apply layers_sem_ext. apply Hp.
Qed.

Lemma mapM_ok {A B} (f : A -> res B) (P : A -> B -> Prop) : forall l,
  (forall a, In a l -> exists b, f a = Ok b /\ P a b) -> exists bs, mapM f l = Ok bs /\ Forall2 P l bs.
Proof.
  induction l as [|a l IH]; intros H.
  - exists []. split; [reflexivity | constructor].
  - destruct (H a (or_introl eq_refl)) as (b & Hb & Pb).
    destruct IH as (bs & Hbs & Pbs); [intros a' Ha'; apply H; now right|].
    exists (b :: bs). split; [|now constructor]. cbn [mapM]. rewrite Hb. cbn [rbind]. rewrite Hbs. reflexivity.
Qed.

(* a mat-vec plan with a matrix equal to the layer's Kronecker product is correct *)
Lemma matvec_ok n l M : wf_layer n l -> meq n M (snd (kronW (map ofE l))) -> plan_ok n l (PMatVec R M).
Proof.
  intros Hl HM psi b Lb. cbn [Backends.exec1]. rewrite memoT_get by assumption.
  rewrite (mv_meq R radd rmul n M (snd (kronW (map ofE l))) psi psi b HM Lb) by reflexivity.
  now apply (kron_is_slots R rO rI radd rmul rsub ropp Rth).
Qed.

Lemma wf_nonempty n l : wf_layer n l -> 1 <= n -> map ofE l <> [].
Proof. intros H Hn. destruct H; cbn; try discriminate. lia. Qed.

Lemma kron_layer_width n l : wf_layer n l -> fst (kronW (map ofE l)) = n.
Proof. intros H. rewrite fst_kronW. now apply widths_wf. Qed.

(* ---------- StandardBackend ---------- *)
Notation std := (std R rI radd rmul).

Lemma std_step n l (P : wmat) : 1 <= n -> wf_layer n l -> fst P = n ->
  exists P', (m <- reduce_kron R rmul (map ofE l) ;; matmul R radd rmul m P) = Ok P' /\ fst P' = n /\
    forall psi b, length b = n -> mv n (snd P') psi b = sem (layer_items 0 l) (mv n (snd P) psi) b.
Proof.
  intros Hn Hl HP.
  destruct (reduce_kron_spec R rO rI radd rmul rsub ropp Rth (map ofE l) (wf_nonempty n l Hl Hn)) as (m & Hm & [Hm1 Hm2]).
  rewrite (kron_layer_width n l Hl) in Hm1.
  rewrite Hm. cbn [rbind]. unfold matmul. rewrite Hm1, HP, Nat.eqb_refl. eexists. split; [reflexivity|]. split; [reflexivity|].
  intros psi b Lb. cbn [snd].
  rewrite (mv_meq R radd rmul n _ (mm n (snd m) (snd P)) psi psi b) by (auto; intros r c Lr Lc; now apply memo2_get).
  rewrite (mv_mm R rO rI radd rmul rsub ropp Rth).
  rewrite (mv_meq R radd rmul n (snd m) (snd (kronW (map ofE l))) (mv n (snd P) psi) (mv n (snd P) psi) b) by (auto; rewrite <- Hm1; exact Hm2).
  now apply (kron_is_slots R rO rI radd rmul rsub ropp Rth).
Qed.

Lemma std_fold n : 1 <= n -> forall rest, Forall (wf_layer n) rest ->
  forall (P : wmat) (F : (bits -> R) -> bits -> R), fst P = n ->
  (forall psi, state_eq n (mv n (snd P) psi) (F psi)) ->
  exists P', fold_left (fun acc l => p <- acc ;; m <- reduce_kron R rmul (map ofE l) ;; matmul R radd rmul m p) rest (Ok P) = Ok P'
             /\ fst P' = n /\ forall psi, state_eq n (mv n (snd P') psi) (layers_sem rest (F psi)).
Proof.
  intros Hn rest. induction rest as [|l rest IH]; intros Hwf P F HP HF.
  - exists P. split; [reflexivity|]. split; [assumption|]. intros psi. apply HF.
  - pose proof (Forall_inv Hwf) as Hl. pose proof (Forall_inv_tail Hwf) as Hr.
    destruct (std_step n l P Hn Hl HP) as (P1 & E1 & HP1 & S1).
    destruct (IH Hr P1 (fun psi => sem (layer_items 0 l) (F psi)) HP1) as (P' & E' & HP' & S').
    { intros psi b Lb. rewrite S1 by assumption.
      apply (sem_ext R radd rmul n (layer_items 0 l) _ _ (HF psi) b Lb). }
    exists P'. split; [|split; [assumption|]].
    + cbn [fold_left rbind]. rewrite E1. exact E'.
    + intros psi. rewrite layers_sem_cons. apply S'.
Qed.

Theorem std_spec n ls psi : 1 <= n -> ls <> [] -> Forall (wf_layer n) ls ->
  exists out, std n ls psi = Ok (OutVec out) /\ state_eq n out (layers_sem ls psi).
Proof.
  intros Hn Hne Hwf. destruct ls as [|l0 rest]; [congruence|].
  pose proof (Forall_inv Hwf) as Hl. pose proof (Forall_inv_tail Hwf) as Hr.
  cbn [Backends.std].
  assert (E : forallb (fun l => length l =? length l0) rest = true).
  { apply forallb_forall. intros l Hin. rewrite Forall_forall in Hr.
    rewrite (wf_layer_length R n l (Hr l Hin)), (wf_layer_length R n l0 Hl). apply Nat.eqb_refl. }
  rewrite E. cbn [negb].
  destruct (reduce_kron_spec R rO rI radd rmul rsub ropp Rth (map ofE l0) (wf_nonempty n l0 Hl Hn)) as (m & Hm & [Hm1 Hm2]).
  rewrite (kron_layer_width n l0 Hl) in Hm1. rewrite Hm. cbn [rbind].
  destruct (std_fold n Hn rest Hr m (fun psi => sem (layer_items 0 l0) psi) Hm1) as (P' & HP' & HP1 & HP2).
  { intros psi0 b Lb.
    rewrite (mv_meq R radd rmul n (snd m) (snd (kronW (map ofE l0))) psi0 psi0 b) by (auto; rewrite <- Hm1; exact Hm2).
    now apply (kron_is_slots R rO rI radd rmul rsub ropp Rth). }
  rewrite HP'. cbn [rbind]. rewrite HP1, Nat.eqb_refl. eexists. split; [reflexivity|].
  intros b Lb. rewrite memoT_get by assumption. rewrite layers_sem_cons. now apply HP2.
Qed.

End Contract.
