(* Semantic instance of the optimizer model: matrices are 2x2 / 4x4 matrices over a commutative ring (State.v),
   items denote State.v items, and gate lists are compared as linear operators on n-qubit states.
   This file: the instance, the equivalence "same operator" with its congruence laws, and the fusion /
   commutation laws in list form. *)
From Coq Require Import List Bool Arith ZArith Lia Ring.
Require Import QG.Base.Res QG.Base.State QG.Model.Optimizer.
Import ListNotations.

Section Sem.
Variable R : Type.
Variables (rO rI : R) (radd rmul rsub : R -> R -> R) (ropp : R -> R).
Variable Rth : ring_theory rO rI radd rmul rsub ropp eq.
Add Ring RrSem : Rth.

Notation M2t := (State.m2 R).
Notation M4t := (State.m4 R).
Notation st := (State.state R).
Notation ap1 := (apply1 R radd rmul).
Notation ap2 := (apply2 R radd rmul).
Notation Id2m := (State.id2 R rO rI).
Notation Mul2 := (State.mul2 R radd rmul).
Notation Mul4 := (State.mul4 R radd rmul).
Notation Kr := (State.kron2 R rmul).
Notation seq_n := (state_eq R).

(* numpy arrays of the two shapes the optimizer meets; MBad = what a shape error would be *)
Inductive mat := M2 (a : M2t) | M4 (g : M4t) | MBad.
Definition id4 : M4t := fun r c => if Bool.eqb (fst r) (fst c) && Bool.eqb (snd r) (snd c) then rI else rO.
Definition mmul (x y : mat) : mat :=
  match x, y with M2 a, M2 b => M2 (Mul2 a b) | M4 a, M4 b => M4 (Mul4 a b) | _, _ => MBad end.
Definition mkron (x y : mat) : mat :=
  match x, y with M2 a, M2 b => M4 (Kr a b) | _, _ => MBad end.
Definition mid2 : mat := M2 Id2m.
Definition mid4 : mat := M4 id4.

Notation mitem := (mat * list Z)%type.

(* the State.v item an optimizer item stands for (junk outside the well-formed shapes) *)
Definition den (it : mitem) : item R :=
  match it with
  | (M2 a, q :: _) => It1 a (Z.to_nat q)
  | (M4 g, q1 :: q2 :: _) => It2 g (Z.to_nat q1) (Z.to_nat q2)
  | _ => It1 Id2m 0
  end.
Definition msem (l : list mitem) (psi : st) : st := sem R radd rmul (map den l) psi.

(* well-formed input items: [q], [q,-1] with a 2x2 matrix, [q1,q2] with a 4x4 matrix *)
Definition wf_in (n : nat) (it : mitem) : Prop :=
  match it with
  | (M2 _, [q]) => (0 <= q < Z.of_nat n)%Z
  | (M2 _, [q; m]) => m = (-1)%Z /\ (0 <= q < Z.of_nat n)%Z
  | (M4 _, [q1; q2]) => (0 <= q1 < Z.of_nat n)%Z /\ (0 <= q2 < Z.of_nat n)%Z /\ q1 <> q2
  | _ => False
  end.
(* normalised items: what every level works on and returns *)
Definition wfn (n : nat) (it : mitem) : Prop :=
  match it with
  | (M2 _, [q]) => (0 <= q < Z.of_nat n)%Z
  | (M4 _, [q1; q2]) => (0 <= q1 < Z.of_nat n)%Z /\ (0 <= q2 < Z.of_nat n)%Z /\ q1 <> q2
  | _ => False
  end.

Lemma wfn_wf_item n it : wfn n it -> wf_item R n (den it).
Proof.
  destruct it as [[a|g|] q]; simpl; try tauto.
  - destruct q as [|q [|? ?]]; simpl; try tauto. lia.
  - destruct q as [|q1 [|q2 [|? ?]]]; simpl; try tauto. lia.
Qed.

Lemma wf_in_norm n it : wf_in n it -> wfn n (norm_item mat it) /\ den (norm_item mat it) = den it.
Proof.
  destruct it as [[a|g|] q]; unfold norm_item; simpl.
  - destruct q as [|q [|m [|? ?]]]; simpl; try tauto.
    intros [-> H]. simpl. auto.
  - destruct q as [|q1 [|q2 [|? ?]]]; simpl; try tauto.
    intros (H1 & H2 & H3). destruct (Z.eqb_spec q2 (-1)); [lia|]. simpl. auto.
  - destruct q as [|? [|? [|? ?]]]; tauto.
Qed.

Lemma wfn_wf_in n it : wfn n it -> wf_in n it.
Proof.
  destruct it as [[a|g|] q]; simpl; try tauto.
  destruct q as [|q [|m [|? ?]]]; simpl; tauto.
Qed.

(* shape inversion for normalised items *)
Lemma wfn_len1 n it : wfn n it -> len_is mat 1 it = true ->
  exists a q, it = (M2 a, [q]) /\ (0 <= q < Z.of_nat n)%Z.
Proof.
  destruct it as [[a|g|] q]; unfold len_is; simpl.
  - destruct q as [|q [|? ?]]; simpl; try tauto; try discriminate. intros H _. eauto.
  - destruct q as [|q1 [|q2 [|? ?]]]; simpl; try tauto; discriminate.
  - destruct q as [|? [|? [|? ?]]]; tauto.
Qed.
Lemma wfn_len2 n it : wfn n it -> len_is mat 2 it = true ->
  exists g q1 q2, it = (M4 g, [q1; q2]) /\ (0 <= q1 < Z.of_nat n)%Z /\ (0 <= q2 < Z.of_nat n)%Z /\ q1 <> q2.
Proof.
  destruct it as [[a|g|] q]; unfold len_is; simpl.
  - destruct q as [|q [|? ?]]; simpl; try tauto; discriminate.
  - destruct q as [|q1 [|q2 [|? ?]]]; simpl; try tauto; try discriminate. intros H _. eauto 6.
  - destruct q as [|? [|? [|? ?]]]; tauto.
Qed.
Lemma wfn_cases n it : wfn n it ->
  (exists a q, it = (M2 a, [q]) /\ (0 <= q < Z.of_nat n)%Z) \/
  (exists g q1 q2, it = (M4 g, [q1; q2]) /\ (0 <= q1 < Z.of_nat n)%Z /\ (0 <= q2 < Z.of_nat n)%Z /\ q1 <> q2).
Proof.
  destruct it as [[a|g|] q]; simpl.
  - destruct q as [|q [|? ?]]; simpl; try tauto. left; eauto.
  - destruct q as [|q1 [|q2 [|? ?]]]; simpl; try tauto. right; eauto 6.
  - destruct q as [|? [|? [|? ?]]]; tauto.
Qed.
Lemma wfn_not2_is1 n it : wfn n it -> len_is mat 2 it = false -> len_is mat 1 it = true.
Proof. intros H. destruct (wfn_cases n it H) as [(a & q & -> & _)|(g & q1 & q2 & -> & _)]; unfold len_is; simpl; congruence. Qed.

(* ---------------------------------------------------------------- same operator on n-qubit states *)
Definition equiv (n : nat) (l1 l2 : list mitem) : Prop := forall psi, seq_n n (msem l1 psi) (msem l2 psi).

Lemma msem_app a b psi : msem (a ++ b) psi = msem b (msem a psi).
Proof. unfold msem. rewrite map_app. apply sem_app. Qed.
Lemma msem_ext n l s t : seq_n n s t -> seq_n n (msem l s) (msem l t).
Proof. apply sem_ext. Qed.
Lemma equiv_refl n l : equiv n l l. Proof. intros psi. apply state_eq_refl. Qed.
Lemma equiv_sym n a b : equiv n a b -> equiv n b a. Proof. intros H psi. apply state_eq_sym, H. Qed.
Lemma equiv_trans n a b c : equiv n a b -> equiv n b c -> equiv n a c.
Proof. intros H1 H2 psi. eapply state_eq_trans; [apply H1 | apply H2]. Qed.
Lemma equiv_app n a a' b b' : equiv n a a' -> equiv n b b' -> equiv n (a ++ b) (a' ++ b').
Proof.
  intros Ha Hb psi. rewrite !msem_app.
  eapply state_eq_trans; [apply msem_ext, Ha | apply Hb].
Qed.
Lemma equiv_app_l n p a b : equiv n a b -> equiv n (p ++ a) (p ++ b).
Proof. intros. apply equiv_app; [apply equiv_refl | assumption]. Qed.
Lemma equiv_app_r n p a b : equiv n a b -> equiv n (a ++ p) (b ++ p).
Proof. intros. apply equiv_app; [assumption | apply equiv_refl]. Qed.
Lemma equiv_cons n x a b : equiv n a b -> equiv n (x :: a) (x :: b).
Proof. intros. apply (equiv_app_l n [x]). assumption. Qed.

(* pointwise form used to prove the basic laws *)
Lemma equiv_pt n l1 l2 :
  (forall psi b, length b = n -> msem l1 psi b = msem l2 psi b) -> equiv n l1 l2.
Proof. intros H psi b L. now apply H. Qed.

Ltac gets := repeat first [ rewrite get_upd by (rewrite ?upd_length; lia) | rewrite get_upd_ne by lia ].
Ltac norm_upd q1 q2 := repeat first [ rewrite upd_upd | rewrite (upd_comm _ q2 q1) by lia ].

(* ---------------------------------------------------------------- fusion laws in list form *)
Section Laws.
Variable n : nat.

Lemma law_id2 q : (0 <= q < Z.of_nat n)%Z -> equiv n [(mid2, [q])] [].
Proof. intros H. apply equiv_pt. intros psi b L. cbn. apply (apply1_id R rO rI radd rmul rsub ropp Rth). Qed.

Lemma law_11 a g q : (0 <= q < Z.of_nat n)%Z -> equiv n [(M2 g, [q]); (M2 a, [q])] [(mmul (M2 a) (M2 g), [q])].
Proof. intros H. apply equiv_pt. intros psi b L. cbn. apply (fuse11 R rO rI radd rmul rsub ropp Rth). lia. Qed.

Lemma apply2_id4 q1 q2 psi b : q1 <> q2 -> q1 < length b -> q2 < length b -> ap2 q1 q2 id4 psi b = psi b.
Proof.
  intros Hne H1 H2.
  assert (Hb : forall x y, get b q1 = x -> get b q2 = y -> upd (upd b q1 x) q2 y = b).
  { intros x y <- <-. rewrite upd_get. apply upd_get. }
  unfold apply2, id4. cbv zeta. simpl fst; simpl snd.
  destruct (get b q1) eqn:E1, (get b q2) eqn:E2; simpl; rewrite (Hb _ _ eq_refl eq_refl); ring.
Qed.

Lemma law_id4 q1 q2 : (0 <= q1 < Z.of_nat n)%Z -> (0 <= q2 < Z.of_nat n)%Z -> q1 <> q2 -> equiv n [(mid4, [q1; q2])] [].
Proof. intros H1 H2 H3. apply equiv_pt. intros psi b L. cbn. apply apply2_id4; lia. Qed.

Lemma law_22 a g q1 q2 : (0 <= q1 < Z.of_nat n)%Z -> (0 <= q2 < Z.of_nat n)%Z -> q1 <> q2 ->
  equiv n [(M4 g, [q1; q2]); (M4 a, [q1; q2])] [(mmul (M4 a) (M4 g), [q1; q2])].
Proof. intros H1 H2 H3. apply equiv_pt. intros psi b L. cbn. apply (fuse22 R rO rI radd rmul rsub ropp Rth); lia. Qed.

(* one-qubit gates before a two-qubit gate *)
Lemma law_before_c a g c t : (0 <= c < Z.of_nat n)%Z -> (0 <= t < Z.of_nat n)%Z -> c <> t ->
  equiv n [(M2 a, [c]); (M4 g, [c; t])] [(mmul (M4 g) (mkron (M2 a) mid2), [c; t])].
Proof. intros H1 H2 H3. apply equiv_pt. intros psi b L. cbn. apply (fuse21_first R rO rI radd rmul rsub ropp Rth); lia. Qed.
Lemma law_before_t a g c t : (0 <= c < Z.of_nat n)%Z -> (0 <= t < Z.of_nat n)%Z -> c <> t ->
  equiv n [(M2 a, [t]); (M4 g, [c; t])] [(mmul (M4 g) (mkron mid2 (M2 a)), [c; t])].
Proof. intros H1 H2 H3. apply equiv_pt. intros psi b L. cbn. apply (fuse21_second R rO rI radd rmul rsub ropp Rth); lia. Qed.
Lemma law_before_ct a a' g c t : (0 <= c < Z.of_nat n)%Z -> (0 <= t < Z.of_nat n)%Z -> c <> t ->
  equiv n [(M2 a, [c]); (M2 a', [t]); (M4 g, [c; t])] [(mmul (M4 g) (mkron (M2 a) (M2 a')), [c; t])].
Proof.
  intros H1 H2 H3. apply equiv_pt. intros psi b L. cbn.
  assert (Hne : Z.to_nat c <> Z.to_nat t) by lia.
  assert (Hc : Z.to_nat c < length b) by lia. assert (Ht : Z.to_nat t < length b) by lia.
  set (q1 := Z.to_nat c) in *. set (q2 := Z.to_nat t) in *.
  unfold apply2, apply1, mul4, kron2. cbv zeta. simpl fst; simpl snd.
  gets. norm_upd q1 q2. simpl. ring.
Qed.
Lemma law_before_tc a a' g c t : (0 <= c < Z.of_nat n)%Z -> (0 <= t < Z.of_nat n)%Z -> c <> t ->
  equiv n [(M2 a', [t]); (M2 a, [c]); (M4 g, [c; t])] [(mmul (M4 g) (mkron (M2 a) (M2 a')), [c; t])].
Proof.
  intros H1 H2 H3. apply equiv_pt. intros psi b L. cbn.
  assert (Hne : Z.to_nat c <> Z.to_nat t) by lia.
  assert (Hc : Z.to_nat c < length b) by lia. assert (Ht : Z.to_nat t < length b) by lia.
  set (q1 := Z.to_nat c) in *. set (q2 := Z.to_nat t) in *.
  unfold apply2, apply1, mul4, kron2. cbv zeta. simpl fst; simpl snd.
  gets. norm_upd q1 q2. simpl. ring.
Qed.

(* one-qubit gates after a two-qubit gate *)
Lemma law_after_c a g c t : (0 <= c < Z.of_nat n)%Z -> (0 <= t < Z.of_nat n)%Z -> c <> t ->
  equiv n [(M4 g, [c; t]); (M2 a, [c])] [(mmul (mkron (M2 a) mid2) (M4 g), [c; t])].
Proof. intros H1 H2 H3. apply equiv_pt. intros psi b L. cbn. apply (fuse12_first R rO rI radd rmul rsub ropp Rth); lia. Qed.
Lemma law_after_t a g c t : (0 <= c < Z.of_nat n)%Z -> (0 <= t < Z.of_nat n)%Z -> c <> t ->
  equiv n [(M4 g, [c; t]); (M2 a, [t])] [(mmul (mkron mid2 (M2 a)) (M4 g), [c; t])].
Proof. intros H1 H2 H3. apply equiv_pt. intros psi b L. cbn. apply (fuse12_second R rO rI radd rmul rsub ropp Rth); lia. Qed.
Lemma law_after_ct a a' g c t : (0 <= c < Z.of_nat n)%Z -> (0 <= t < Z.of_nat n)%Z -> c <> t ->
  equiv n [(M4 g, [c; t]); (M2 a, [c]); (M2 a', [t])] [(mmul (mkron (M2 a) (M2 a')) (M4 g), [c; t])].
Proof.
  intros H1 H2 H3. apply equiv_pt. intros psi b L. cbn.
  assert (Hne : Z.to_nat c <> Z.to_nat t) by lia.
  assert (Hc : Z.to_nat c < length b) by lia. assert (Ht : Z.to_nat t < length b) by lia.
  set (q1 := Z.to_nat c) in *. set (q2 := Z.to_nat t) in *.
  unfold apply2, apply1, mul4, kron2. cbv zeta. simpl fst; simpl snd.
  gets. norm_upd q1 q2. destruct (get b q1), (get b q2); simpl; ring.
Qed.
Lemma law_after_tc a a' g c t : (0 <= c < Z.of_nat n)%Z -> (0 <= t < Z.of_nat n)%Z -> c <> t ->
  equiv n [(M4 g, [c; t]); (M2 a', [t]); (M2 a, [c])] [(mmul (mkron (M2 a) (M2 a')) (M4 g), [c; t])].
Proof.
  intros H1 H2 H3. apply equiv_pt. intros psi b L. cbn.
  assert (Hne : Z.to_nat c <> Z.to_nat t) by lia.
  assert (Hc : Z.to_nat c < length b) by lia. assert (Ht : Z.to_nat t < length b) by lia.
  set (q1 := Z.to_nat c) in *. set (q2 := Z.to_nat t) in *.
  unfold apply2, apply1, mul4, kron2. cbv zeta. simpl fst; simpl snd.
  gets. norm_upd q1 q2. destruct (get b q1), (get b q2); simpl; ring.
Qed.

(* one-qubit gates on different qubits commute *)
Lemma law_comm11 a a' q r : (0 <= q)%Z -> (0 <= r)%Z -> q <> r ->
  equiv n [(M2 a, [q]); (M2 a', [r])] [(M2 a', [r]); (M2 a, [q])].
Proof. intros H1 H2 H3. apply equiv_pt. intros psi b L. cbn. apply (commute11 R rO rI radd rmul rsub ropp Rth). lia. Qed.

End Laws.
End Sem.
