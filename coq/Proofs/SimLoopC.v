(* C03 — the end-to-end theorem of Proofs/SimLoopE2E.v at Coquelicot's complex numbers: constants KC (Proofs/NoiseFreeRunC.v),
   conjugation Cconj, Born rule |amplitude|^2.  All algebraic hypotheses of the generic theorem are discharged. *)
From Coq Require Import List Bool Arith NArith ZArith Reals Lra.
From Coquelicot Require Import Complex.
Require Import QG.Base.Res QG.Base.State QG.Model.FixCounts QG.Model.SimRun QG.Model.NoiseFreeRun QG.Model.SimLoop.
Require Import QG.Proofs.FixCountsKeys QG.Proofs.FixCountsProofs QG.Proofs.SimRunKeys QG.Proofs.SimRunProofs QG.Proofs.FrameSim QG.Proofs.NoiseFreeRun QG.Proofs.NoiseFreeRunC.
Require Import QG.Proofs.SimLoop QG.Proofs.SimLoopE2E.
Import ListNotations.
Local Open Scope R_scope.

Definition bornC (z : C) : R := Cmod z ^ 2.
Lemma bornC_nonneg z : 0 <= bornC z.
Proof. unfold bornC. apply pow2_ge_0. Qed.

Theorem end_to_end_C (D : Type) (theta : nat -> R) (dur : nat -> D)
  (a : args) (f : front_out) (data : list qinstr) (psi0 : state C) :
  front a = Ok f -> a_circ a = CData true data -> Forall wf_qiskit data ->
  NoDup (map fst (f_meas f)) -> f_nqubit f = Z.of_nat (f_n f) ->
  exists prog, translate R D theta dur (f_used f) (f_nqubit f) data = Ok prog /\
    Forall (NoiseFreeRun.wf_instr (f_n f)) prog /\
    let ideal := fun b => Cmod (semC (ideal_itemsC prog) psi0 b) ^ 2 in
    let total := rsum (map ideal (binary_vector (f_n f))) in
    (0 < total ->
     exists out, run_model R 0 Rplus Rdiv rpos a
                   (nf_perform C (RtoC 0) (RtoC 1) Cplus Cmult Copp R D KC R bornC theta dur data psi0) = Ok out /\
       forall t, length t = length (f_meas f) ->
         lookup R t out = Some (marginal_sum (fun b => ideal b / total) (f_n f) (meas_ranks f) t)).
Proof.
  exact (end_to_end C (RtoC 0) (RtoC 1) Cplus Cmult Cminus Copp C_ring R KC KC_ok Cconj KC_conj bornC
           nrm_eq_Cmod bornC_nonneg D theta dur a f data psi0).
Qed.
