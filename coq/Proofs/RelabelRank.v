(* C08, relabelling clause, part 2: the layout.  The internal index of a used physical label is its rank in ascending
   order among the used labels (simulator._process_layout sorts the used labels and run() looks a label up with
   list.index; C14's model process_layout / index_of is tied to that code by correspondence; process_layout_rank in
   RelabelLayout.v proves that the rank is that model's index).  An injective relabelling pi of the labels induces a permutation of the
   internal indices: internal index rank L q  |->  rank (map pi L) (pi q). *)
From Coq Require Import List Bool Arith Lia.
Require Import QG.Base.State QG.Base.Perm.
Import ListNotations.

Definition rank (L : list nat) (q : nat) : nat := length (filter (fun x => x <? q) L).

Lemma filter_length_le {A} (p : A -> bool) l : length (filter p l) <= length l.
Proof. induction l as [|a r IH]; cbn [filter length]; auto. destruct (p a); cbn [length]; lia. Qed.

Lemma filter_length_lt {A} (p p' : A -> bool) l y :
  (forall x, p x = true -> p' x = true) -> In y l -> p y = false -> p' y = true ->
  length (filter p l) < length (filter p' l).
Proof.
  intros Himp. induction l as [|a r IH]; intros Hin Hp Hp'; [destruct Hin|].
  assert (Hle : length (filter p r) <= length (filter p' r)).
  { clear IH Hin. induction r as [|c r IHr]; cbn [filter length]; auto.
    destruct (p c) eqn:E; [rewrite (Himp c E); cbn [length]; lia|]. destruct (p' c); cbn [length]; lia. }
  cbn [filter]. destruct Hin as [->|Hin].
  - rewrite Hp, Hp'. cbn [length]. lia.
  - specialize (IH Hin Hp Hp'). destruct (p a) eqn:E; [rewrite (Himp a E); cbn [length]; lia|].
    destruct (p' a); cbn [length]; lia.
Qed.

Lemma rank_lt L q : In q L -> rank L q < length L.
Proof.
  intros H. unfold rank.
  replace (length L) with (length (filter (fun _ => true) L)).
  - apply (filter_length_lt _ _ L q); auto. apply Nat.ltb_irrefl.
  - induction L as [|a r IH]; cbn [filter length]; auto. f_equal. destruct (in_dec Nat.eq_dec q r) as [Hi|Hn].
    + auto.
    + clear IH H Hn. induction r as [|c r IHr]; cbn [filter length]; auto.
Qed.

(* strictly monotone on the used labels *)
Lemma rank_mono L q1 q2 : In q1 L -> q1 < q2 -> rank L q1 < rank L q2.
Proof.
  intros H Hlt. unfold rank. apply (filter_length_lt _ _ L q1); auto.
  - intros x Hx. apply Nat.ltb_lt in Hx. apply Nat.ltb_lt. lia.
  - apply Nat.ltb_irrefl.
  - now apply Nat.ltb_lt.
Qed.

Lemma rank_inj L q1 q2 : In q1 L -> In q2 L -> rank L q1 = rank L q2 -> q1 = q2.
Proof.
  intros H1 H2 E. destruct (Nat.lt_trichotomy q1 q2) as [H|[H|H]]; auto.
  - assert (X := rank_mono L q1 q2 H1 H). lia.
  - assert (X := rank_mono L q2 q1 H2 H). lia.
Qed.

(* the label sitting at internal index i *)
Definition lab (L : list nat) (i : nat) : nat :=
  match find (fun q => rank L q =? i) L with Some q => q | None => 0 end.

Lemma lab_rank L q : In q L -> lab L (rank L q) = q.
Proof.
  intros H. unfold lab. destruct (find (fun q0 => rank L q0 =? rank L q) L) as [q'|] eqn:E.
  - apply find_some in E as [Hin Hr]. apply Nat.eqb_eq in Hr. now apply (rank_inj L).
  - assert (X := find_none _ _ E q H). cbv beta in X. now rewrite Nat.eqb_refl in X.
Qed.

(* distinct labels occupy all internal indices 0..n-1 (pigeonhole) *)
Lemma rank_surj L i : NoDup L -> i < length L -> exists q, In q L /\ rank L q = i.
Proof.
  intros ND Hi.
  assert (NDm : NoDup (map (rank L) L)).
  { apply NoDup_map_inj_in; auto. intros x y Hx Hy. now apply rank_inj. }
  assert (Inc : incl (seq 0 (length L)) (map (rank L) L)).
  { apply NoDup_length_incl; auto.
    - rewrite map_length, seq_length. lia.
    - intros y Hy. apply in_map_iff in Hy as (x & <- & Hx). apply in_seq. assert (X := rank_lt L x Hx). lia. }
  assert (Hin : In i (seq 0 (length L))) by (apply in_seq; lia).
  apply Inc in Hin. apply in_map_iff in Hin as (q & Hq & Hin). now exists q.
Qed.

Lemma rank_lab L i : NoDup L -> i < length L -> In (lab L i) L /\ rank L (lab L i) = i.
Proof.
  intros ND Hi. destruct (rank_surj L i ND Hi) as (q & Hq & <-). rewrite lab_rank by auto. auto.
Qed.

Definition inj_on (L : list nat) (pi : nat -> nat) : Prop := forall a b, In a L -> In b L -> pi a = pi b -> a = b.

(* the permutation of the internal indices induced by relabelling the used labels L by pi *)
Definition induced (L : list nat) (pi : nat -> nat) (i : nat) : nat := rank (map pi L) (pi (lab L i)).

Lemma induced_spec L pi q : In q L -> induced L pi (rank L q) = rank (map pi L) (pi q).
Proof. intros H. unfold induced. now rewrite lab_rank. Qed.

Lemma induced_perm L pi : NoDup L -> inj_on L pi -> perm_on (length L) (induced L pi).
Proof.
  intros ND Hinj. split.
  - intros i Hi. unfold induced. destruct (rank_lab L i ND Hi) as [Hin _].
    rewrite <- (map_length pi L). apply rank_lt. now apply in_map.
  - intros i j Hi Hj E. unfold induced in E.
    destruct (rank_lab L i ND Hi) as [Hini Hri]. destruct (rank_lab L j ND Hj) as [Hinj' Hrj].
    apply rank_inj in E; [|now apply in_map|now apply in_map].
    apply Hinj in E; auto. rewrite <- Hri, <- Hrj. now rewrite E.
Qed.

Lemma NoDup_map_pi L pi : NoDup L -> inj_on L pi -> NoDup (map pi L).
Proof. intros ND H. apply NoDup_map_inj_in; auto. Qed.

(* an order-preserving relabelling induces the identity on the internal indices *)
Lemma induced_monotone L pi : NoDup L -> (forall a b, In a L -> In b L -> a < b -> pi a < pi b) ->
  forall i, i < length L -> induced L pi i = i.
Proof.
  intros ND Hm i Hi. destruct (rank_surj L i ND Hi) as (q & Hq & <-). rewrite induced_spec by auto.
  unfold rank.
  assert (Hfm : forall (p : nat -> bool) l, length (filter p (map pi l)) = length (filter (fun x => p (pi x)) l)).
  { intros p l. induction l as [|a r IH]; cbn [map filter length]; auto. destruct (p (pi a)); cbn [length]; now rewrite IH. }
  rewrite Hfm. f_equal. apply filter_ext_in. intros x Hx.
  destruct (Nat.lt_trichotomy x q) as [H|[H|H]].
  - assert (X := Hm x q Hx Hq H). apply Nat.ltb_lt in X, H. now rewrite X, H.
  - subst x. now rewrite !Nat.ltb_irrefl.
  - assert (X := Hm q x Hq Hx H). transitivity false; [|symmetry]; apply Nat.ltb_ge; lia.
Qed.
